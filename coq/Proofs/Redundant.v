(* Soundness of the model's verdicts under the guard (C17_verdict_sound_partial).

   Structure:
   1. what one line does to the Var of each variable (handle_varassign changes
      only the assigned variable, by var_write; handle_expr only applies
      var_read)
   2. the invariant relating the Var of x after a prefix to the reference store
      after the same prefix: writeLocations = the assignments to x so far;
      "constant" => the store holds constantValue; the remembered value text is
      the stored text (up to the leading space of a first '+=') as long as no
      '!=' was applied to x
   3. which verdicts a line can emit and under which conditions
   4. the semantic argument: after the line that triggers the verdict, the
      stores with and without the flagged line agree on every variable *)
From PV Require Import Lib.Bytes Model.Redundant Spec.MakeEval Spec.VerdictSound
  Proofs.MakeEvalLemmas.

(* ---------- 1. effect of a line on the Var of x ---------- *)

Definition mv (s : scope) (x : var) : mvar := vi_var (s_vars s x).

Definition apply_reads (x : var) (us : list var) (v : mvar) : mvar :=
  fold_left (fun v w => if str_eqb w x then var_read v else v) us v.

Lemma upd_same {A} (m : var -> A) k v : upd m k v k = v.
Proof. unfold upd. rewrite str_eqb_refl. reflexivity. Qed.

Lemma fold_read_one_var x : forall us s,
  mv (fold_left read_one us s) x = apply_reads x us (mv s x).
Proof.
  induction us as [|w us IH]; intro s; simpl; [reflexivity|].
  rewrite IH. f_equal. unfold mv, read_one. simpl. unfold upd.
  destruct (str_eqb w x) eqn:E; [|reflexivity].
  apply str_eqb_spec in E. subst w. reflexivity.
Qed.

Lemma apply_reads_app x us1 us2 v :
  apply_reads x (us1 ++ us2) v = apply_reads x us2 (apply_reads x us1 v).
Proof. unfold apply_reads. apply fold_left_app. Qed.

(* handleExpr only reads: directly used variables, and possibly more *)
Lemma handle_expr_var s a s' x :
  handle_expr s a = Ok s' ->
  exists us, mv s' x = apply_reads x (uses (a_val a) ++ us) (mv s x).
Proof.
  unfold handle_expr. intro H.
  destruct (a_op a);
    try (inversion H; subst; exists []; rewrite app_nil_r; apply fold_read_one_var);
    destruct (closure _ _ _) as [c| |]; try discriminate;
    inversion H; subst; exists c;
    rewrite fold_read_one_var, fold_read_one_var, apply_reads_app; reflexivity.
Qed.

(* every successful path of handleVarassign ends in the deferred function *)
Lemma handle_varassign_scope s idx a d s' vs :
  handle_varassign s idx a d = Ok (s', vs) ->
  s' = mkScope (upd (s_vars s) (a_var a)
                 (mkInfo (var_write (vi_var (s_vars s (a_var a))) idx a d)
                         (vi_paths (s_vars s (a_var a)) ++ [s_path s]) AWrite))
               (s_path s) (set_add (s_names s) (a_var a)).
Proof.
  unfold handle_varassign.
  repeat match goal with
         | |- context [match ?x with _ => _ end] => destruct x
         end;
    intro H; inversion H; reflexivity.
Qed.

Lemma handle_varassign_var s idx a s' vs x :
  handle_varassign s idx a false = Ok (s', vs) ->
  mv s' x = if str_eqb (a_var a) x then var_write (mv s (a_var a)) idx a false else mv s x.
Proof.
  intro H. apply handle_varassign_scope in H. subst s'. unfold mv. simpl. unfold upd.
  destruct (str_eqb (a_var a) x); reflexivity.
Qed.

Lemma update_include_path_vars s l s1 :
  update_include_path s l = Ok s1 -> s_vars s1 = s_vars s.
Proof.
  unfold update_include_path. destruct (l_lineno l =? 1).
  - intro H; inversion H; reflexivity.
  - destruct (ipath_pop_until (s_path s) (l_file l)); intro H; inversion H; reflexivity.
Qed.

Definition line_effect (x : var) (idx : nat) (l : line) (v : mvar) (vx : mvar) : mvar :=
  match l_body l with
  | None => v
  | Some a => apply_reads x (uses (a_val a))
                (if str_eqb (a_var a) x then var_write vx idx a false else v)
  end.

(* the Var of x after a line: written if the line assigns x, then read some number of times *)
Lemma check_line_var s idx l s' vs x :
  check_line s idx l = Ok (s', vs) ->
  match l_body l with
  | None => mv s' x = mv s x
  | Some a => exists us,
      mv s' x = apply_reads x (uses (a_val a) ++ us)
                  (if str_eqb (a_var a) x then var_write (mv s x) idx a false else mv s x)
  end.
Proof.
  unfold check_line. destruct (update_include_path s l) as [s1| |] eqn:E1; try discriminate.
  apply update_include_path_vars in E1.
  destruct (l_body l) as [a|].
  - destruct (handle_varassign s1 idx a false) as [[s2 vs2]| |] eqn:E2; try discriminate.
    destruct (handle_expr s2 a) as [s3| |] eqn:E3; try discriminate.
    intro H; inversion H; subst.
    destruct (handle_expr_var _ _ _ x E3) as [us Hus]. exists us. rewrite Hus.
    rewrite (handle_varassign_var _ _ _ _ _ x E2). unfold mv. rewrite E1.
    destruct (str_eqb (a_var a) x) eqn:E; [|reflexivity].
    apply str_eqb_spec in E. subst x. reflexivity.
  - intro H; inversion H; subst. unfold mv. rewrite E1. reflexivity.
Qed.

(* reads keep everything but the constant state *)
Lemma apply_reads_fields x us : forall v,
  v_writes (apply_reads x us v) = v_writes v /\
  v_value (apply_reads x us v) = v_value v /\
  v_cval (apply_reads x us v) = v_cval v /\
  v_cond (apply_reads x us v) = v_cond v /\
  is_constant (apply_reads x us v) = is_constant v /\
  (v_state (apply_reads x us v) = C0 -> v_state v = C0).
Proof.
  induction us as [|w us IH]; intro v; simpl; [repeat split; auto|].
  destruct (str_eqb w x); [|apply IH].
  destruct (IH (var_read v)) as (H1 & H2 & H3 & H4 & H5 & H6).
  rewrite H1, H2, H3, H4, H5. simpl. repeat split; auto.
  - unfold is_constant. simpl. destruct (v_state v); reflexivity.
  - intro H. apply H6 in H. simpl in H. destruct (v_state v); discriminate || reflexivity.
Qed.

(* ---------- 2. the invariant ---------- *)

Lemma writes_of_app x : forall a idx b,
  writes_of x idx (a ++ b) = writes_of x idx a ++ writes_of x (idx + length a) b.
Proof.
  induction a as [|l a IH]; intros idx b; simpl.
  - rewrite Nat.add_0_r. reflexivity.
  - rewrite IH. rewrite app_assoc. do 2 f_equal. lia.
Qed.

Definition store_after (fuel : nat) (pre : program) : store :=
  exec_from fuel empty_store (to_spec pre).

Lemma store_after_snoc fuel pre l :
  store_after fuel (pre ++ [l]) = exec_line fuel (store_after fuel pre) (spec_line l).
Proof.
  unfold store_after, to_spec. rewrite map_app, exec_from_app. reflexivity.
Qed.

Definition inv_var (st : store) (ws : list (nat * assign)) (noshell : bool) (x : var) (v : mvar) : Prop :=
  v_writes v = ws /\
  v_cond v = false /\
  (v_state v = C0 -> v_cval v = [] /\ ws = []) /\
  (is_constant v = true -> ws <> [] /\ st x = Some (Txt (v_cval v))) /\
  (ws = [] -> st x = None /\ v_value v = []) /\
  (ws <> [] -> st x <> None) /\
  (noshell = true -> ws <> [] ->
     exists t, st x = Some (Txt t) /\ (v_value v = t \/ v_value v = 32 :: t)).

(* the remembered text is the stored text: no '!=' and no ':=' with a '$' since
   the last assignment that replaced the whole value *)
Definition known (ws : list (nat * assign)) : bool :=
  negb (after_shell ws) && negb (after_eval_ref ws).

Definition inv_x (fuel : nat) (pre : program) (s : scope) (x : var) : Prop :=
  inv_var (store_after fuel pre) (writes_of x 0 pre) (known (writes_of x 0 pre)) x (mv s x).

Lemma inv_x_init fuel x : inv_x fuel [] new_scope x.
Proof.
  unfold inv_x, inv_var, mv. simpl. repeat split; auto; try discriminate; congruence.
Qed.

(* the part of the invariant that needs no hypothesis on the program *)
Definition inv_struct (pre : program) (s : scope) : Prop :=
  forall x, v_writes (mv s x) = writes_of x 0 pre /\ v_cond (mv s x) = false.

Lemma inv_struct_init : inv_struct [] new_scope.
Proof. intro x. split; reflexivity. Qed.

Lemma inv_var_reads st ws ns x us v :
  inv_var st ws ns x v -> inv_var st ws ns x (apply_reads x us v).
Proof.
  intros (H1 & H2 & H3 & H4 & H5 & H6 & H7).
  destruct (apply_reads_fields x us v) as (R1 & R2 & R3 & R4 & R5 & R6).
  unfold inv_var. rewrite R1, R2, R3, R4, R5. repeat split; auto.
  - apply H3. apply R6. assumption.
  - apply H3. apply R6. assumption.
  - apply H4; assumption.
  - apply H4; assumption.
  - apply H5; assumption.
  - apply H5; assumption.
Qed.

Lemma eager_plain_app a b : eager_plain (a ++ b) = eager_plain a && eager_plain b.
Proof. unfold eager_plain. apply forallb_app. Qed.

Lemma splain_spec_line l : splain (spec_line l) = eager_plain_line l.
Proof.
  unfold splain, spec_line, eager_plain_line. destruct (l_body l) as [a|]; simpl; [|reflexivity].
  destruct (a_op a); reflexivity.
Qed.

Lemma sassigns_spec_line x l : sassigns x (spec_line l) = assigns x l.
Proof. unfold sassigns, spec_line, assigns. destruct (l_body l); reflexivity. Qed.

Lemma or1_not_C0 c : or1 c <> C0.
Proof. destruct c; discriminate. Qed.

(* the state after Var.Write is never 0 *)
Lemma var_write_state v idx a : v_state (var_write v idx a false) <> C0.
Proof.
  unfold var_write, var_update_constant. simpl.
  destruct (cstate_eqb (v_state v) C3) eqn:E3.
  - simpl. destruct (v_state v); discriminate.
  - destruct (v_cond v || false); simpl; [discriminate|].
    destruct (a_op a); simpl; try apply or1_not_C0; try discriminate.
    + destruct (has_make_vars (a_val a)); simpl; [discriminate|apply or1_not_C0].
    + destruct (cstate_eqb (v_state v) C0); simpl; apply or1_not_C0.
Qed.

Lemma var_write_writes v idx a : v_writes (var_write v idx a false) = v_writes v ++ [(idx, a)].
Proof.
  unfold var_write, var_update_constant. simpl.
  destruct (cstate_eqb (v_state v) C3); [reflexivity|].
  destruct (v_cond v || false); [reflexivity|].
  destruct (a_op a); simpl; try reflexivity.
  - destruct (has_make_vars (a_val a)); reflexivity.
  - destruct (cstate_eqb (v_state v) C0); reflexivity.
Qed.

Lemma var_write_cond v idx a : v_cond (var_write v idx a false) = v_cond v.
Proof.
  transitivity (v_cond v || false); [|apply orb_false_r].
  unfold var_write, var_update_constant. simpl.
  destruct (cstate_eqb (v_state v) C3); [reflexivity|].
  destruct (v_cond v || false); [reflexivity|].
  destruct (a_op a); simpl; try reflexivity.
  - destruct (has_make_vars (a_val a)); reflexivity.
  - destruct (cstate_eqb (v_state v) C0); reflexivity.
Qed.

Lemma var_write_value v idx a :
  v_cond v = false ->
  v_value (var_write v idx a false) =
    match a_op a with
    | OpAssign | OpEval => render (a_val a)
    | OpDefault => match v_writes v with [] => render (a_val a) | _ => v_value v end
    | OpAppend => v_value v ++ [32] ++ render (a_val a)
    | OpShell => v_value v
    end.
Proof.
  intro Hc.
  assert (E : v_value (var_write v idx a false) =
              var_update (mkVar (v_state v) (v_cval v) (v_value v) (v_writes v ++ [(idx, a)]) (v_cond v || false)
                                (set_add_all (v_refs v) (uses (a_val a)))) a).
  { unfold var_write, var_update_constant. simpl.
    destruct (cstate_eqb (v_state v) C3); [reflexivity|].
    destruct (v_cond v || false); [reflexivity|].
    destruct (a_op a); simpl; try reflexivity.
    - destruct (has_make_vars (a_val a)); reflexivity.
    - destruct (cstate_eqb (v_state v) C0); reflexivity. }
  rewrite E. unfold var_update. simpl. rewrite Hc. simpl.
  destruct (a_op a); try reflexivity.
  rewrite app_length, Nat.add_1_r. destruct (v_writes v); reflexivity.
Qed.

(* state and constantValue after Var.Write, when the variable is not conditional *)
Lemma var_write_constant v idx a :
  v_cond v = false ->
  is_constant (var_write v idx a false) = true ->
  (v_state v = C0 \/ v_state v = C1) /\
  match a_op a with
  | OpAssign => v_cval (var_write v idx a false) = render (a_val a)
  | OpEval => has_make_vars (a_val a) = false /\ v_cval (var_write v idx a false) = render (a_val a)
  | OpDefault => v_cval (var_write v idx a false) =
                   match v_state v with C0 => render (a_val a) | _ => v_cval v end
  | OpAppend => v_cval (var_write v idx a false) =
                   match v_state v with C0 => v_cval v ++ render (a_val a)
                                   | _ => (v_cval v ++ [32]) ++ render (a_val a) end
  | OpShell => False
  end.
Proof.
  intro Hc. unfold var_write, var_update_constant, is_constant. simpl. rewrite Hc. simpl.
  destruct (v_state v) eqn:Es; simpl; try discriminate;
    destruct (a_op a); simpl; try discriminate;
    try (destruct (has_make_vars (a_val a)); simpl; try discriminate);
    intros _; repeat split; auto.
Qed.

Lemma supd_redundant st x v : st x = Some v -> ext_eq (supd st x v) st.
Proof.
  intros H y. unfold supd. destruct (str_eqb x y) eqn:E; [|reflexivity].
  apply str_eqb_spec in E. subst y. symmetry; exact H.
Qed.

(* Var.Write on x against the reference store, for a plain assignment to x *)
Lemma after_shell_snoc ws w :
  after_shell (ws ++ [w]) = match a_op (snd w) with
                            | OpShell => true
                            | OpAssign | OpEval => false
                            | _ => after_shell ws
                            end.
Proof. unfold after_shell. rewrite fold_left_app. reflexivity. Qed.

Lemma after_eval_ref_snoc ws w :
  after_eval_ref (ws ++ [w]) = match a_op (snd w) with
                               | OpEval => negb (no_dollar (render (a_val (snd w))))
                               | OpAssign => false
                               | _ => after_eval_ref ws
                               end.
Proof. unfold after_eval_ref. rewrite fold_left_app. reflexivity. Qed.

(* a value without make variables, built from '$'-free literals, has no '$' *)
Lemma render_length vl :
  (length (render vl) >= length (without_vars vl))%nat /\
  (existsb (fun c => match c with Ref _ => true | Lit _ => false end) vl = true ->
   (length (render vl) > length (without_vars vl))%nat).
Proof.
  induction vl as [|c vl [IH1 IH2]]; simpl; [split; [lia|discriminate]|].
  unfold render, without_vars in *. simpl. rewrite !app_length. destruct c as [t|w]; simpl.
  - split; [lia|]. intro H. specialize (IH2 H). lia.
  - rewrite app_length. simpl. split; [lia|]. intros _. lia.
Qed.

Lemma no_vars_plain vl :
  forallb chunk_ok vl = true -> has_make_vars vl = false -> no_dollar (render vl) = true.
Proof.
  intros Hok Hm. unfold has_make_vars in Hm. apply negb_false_iff in Hm. apply str_eqb_spec in Hm.
  assert (Hn : existsb (fun c => match c with Ref _ => true | Lit _ => false end) vl = false).
  { destruct (existsb _ vl) eqn:E; [|reflexivity].
    destruct (render_length vl) as [_ H]. specialize (H E). rewrite Hm in H. lia. }
  clear Hm. induction vl as [|c vl IH]; [reflexivity|].
  simpl in Hok, Hn. apply andb_true_iff in Hok as [Hc Hok]. apply orb_false_iff in Hn as [Hr Hn].
  destruct c as [t|w]; [|discriminate].
  unfold render. simpl. unfold no_dollar. rewrite forallb_app. fold (no_dollar t).
  simpl in Hc. rewrite Hc. simpl. apply IH; assumption.
Qed.

(* Var.Write on x against the reference store *)
Lemma inv_var_write fuel st ws x v idx a :
  inv_var st ws (known ws) x v ->
  a_var a = x ->
  forallb chunk_ok (a_val a) = true ->
  inv_var (exec_assign fuel st (spec_assign a)) (ws ++ [(idx, a)])
          (known (ws ++ [(idx, a)])) x (var_write v idx a false).
Proof.
  intros (H1 & H2 & H3 & H4 & H5 & H6 & H7) Hx Hok.
  assert (Hne : ws ++ [(idx, a)] <> []) by (destruct ws; discriminate).
  unfold inv_var. rewrite var_write_writes, var_write_cond, H1, H2.
  split; [reflexivity|]. split; [reflexivity|].
  split; [intro E; exfalso; exact (var_write_state _ _ _ E)|].
  destruct (splain (Some (spec_assign a))) eqn:Hp.
  - (* a lazy operator, or an eager one whose text has no '$' *)
    assert (Hst : exec_assign fuel st (spec_assign a) x = plain_step (st x) (spec_assign a)).
    { rewrite (exec_assign_plain fuel st _ Hp). simpl. rewrite Hx, str_eqb_refl. reflexivity. }
    split; [|split; [intro E; contradiction|split]].
    + (* constant => the store holds constantValue *)
      intro Hk. split; [exact Hne|].
      destruct (var_write_constant v idx a H2 Hk) as [Hs Hcv].
      rewrite Hst. unfold plain_step, spec_assign. simpl.
      destruct (a_op a) eqn:Eo; simpl.
      * rewrite Hcv. reflexivity.
      * contradiction.
      * destruct Hcv as [_ Hcv]. rewrite Hcv. reflexivity.
      * destruct Hs as [Hs|Hs]; rewrite Hs in Hcv.
        -- destruct (H3 Hs) as [Hc0 Hw0]. destruct (H5 Hw0) as [Hn _].
           rewrite Hn, Hcv, Hc0. reflexivity.
        -- assert (Hk0 : is_constant v = true) by (unfold is_constant; rewrite Hs; reflexivity).
           destruct (H4 Hk0) as [_ Hv]. rewrite Hv, Hcv, <- app_assoc. reflexivity.
      * destruct Hs as [Hs|Hs]; rewrite Hs in Hcv.
        -- destruct (H3 Hs) as [Hc0 Hw0]. destruct (H5 Hw0) as [Hn _].
           rewrite Hn, Hcv. reflexivity.
        -- assert (Hk0 : is_constant v = true) by (unfold is_constant; rewrite Hs; reflexivity).
           destruct (H4 Hk0) as [_ Hv]. rewrite Hv, Hcv. reflexivity.
    + (* defined afterwards *)
      intros _. rewrite Hst. unfold plain_step. simpl.
      destruct (a_op a); simpl; try discriminate; destruct (st x) as [[o|]|]; discriminate.
    + (* the remembered text *)
      intros Hns _. unfold known in Hns. rewrite after_shell_snoc, after_eval_ref_snoc in Hns. simpl snd in Hns.
      rewrite Hst, (var_write_value v idx a H2), H1. unfold plain_step, spec_assign. simpl.
      destruct (a_op a) eqn:Eo; simpl in *; try discriminate.
      * eexists; split; [reflexivity|left; reflexivity].
      * eexists; split; [reflexivity|left; reflexivity].
      * (* += *)
        destruct ws as [|w0 ws0].
        -- destruct (H5 eq_refl) as [Hn Hv0]. rewrite Hn, Hv0. eexists; split; [reflexivity|right; reflexivity].
        -- assert (Hw : w0 :: ws0 <> []) by discriminate.
           destruct (H7 Hns Hw) as (t & Ht & Hv). rewrite Ht. eexists; split; [reflexivity|].
           destruct Hv as [Hv|Hv]; rewrite Hv; [left|right]; reflexivity.
      * (* ?= *)
        destruct ws as [|w0 ws0].
        -- destruct (H5 eq_refl) as [Hn Hv0]. rewrite Hn. eexists; split; [reflexivity|left; reflexivity].
        -- assert (Hw : w0 :: ws0 <> []) by discriminate.
           destruct (H7 Hns Hw) as (t & Ht & Hv). rewrite Ht. eexists; split; [reflexivity|exact Hv].
  - (* ':=' or '!=' with a '$' in the text: not constant, the remembered text is not trusted *)
    assert (Hop : a_op a = OpEval \/ a_op a = OpShell).
    { simpl in Hp. destruct (a_op a); simpl in Hp; try discriminate; auto. }
    assert (Hnd : no_dollar (render (a_val a)) = false).
    { simpl in Hp. destruct Hop as [E|E]; rewrite E in Hp; simpl in Hp; exact Hp. }
    split; [|split; [intro E; contradiction|split]].
    + intro Hk. exfalso.
      destruct (var_write_constant v idx a H2 Hk) as [_ Hcv].
      destruct Hop as [E|E]; rewrite E in Hcv; [|contradiction].
      destruct Hcv as [Hm _]. rewrite (no_vars_plain _ Hok Hm) in Hnd. discriminate.
    + intros _. unfold exec_assign, spec_assign. simpl. rewrite Hx.
      destruct Hop as [E|E]; rewrite E; simpl;
        match goal with |- context [match ?e with Some _ => _ | None => _ end] => destruct e end;
        rewrite supd_same; discriminate.
    + intros Hns _. exfalso. unfold known in Hns.
      rewrite after_shell_snoc, after_eval_ref_snoc in Hns. simpl snd in Hns.
      destruct Hop as [E|E]; rewrite E in Hns; [rewrite Hnd in Hns|]; simpl in Hns;
        try rewrite andb_false_r in Hns; discriminate.
Qed.

Lemma inv_x_step fuel pre s l s' vs x :
  line_ok l = true ->
  inv_x fuel pre s x -> check_line s (length pre) l = Ok (s', vs) -> inv_x fuel (pre ++ [l]) s' x.
Proof.
  intros Hok Hinv Hck. unfold inv_x in *.
  pose proof (check_line_var _ _ _ _ _ x Hck) as Hv.
  rewrite store_after_snoc, writes_of_app. simpl writes_of. simpl Nat.add.
  rewrite app_nil_r.
  unfold entry, spec_line. unfold line_ok in Hok. destruct (l_body l) as [a|] eqn:Eb; simpl option_map.
  - destruct Hv as [us Hv]. rewrite Hv.
    destruct (str_eqb (a_var a) x) eqn:Ex.
    + apply str_eqb_spec in Ex. apply inv_var_reads. simpl exec_line.
      apply inv_var_write; auto.
      unfold assign_ok in Hok. apply andb_true_iff in Hok as [Hok _].
      apply andb_true_iff in Hok as [_ Hok]. exact Hok.
    + apply inv_var_reads. simpl. rewrite app_nil_r.
      destruct Hinv as (H1 & H2 & H3 & H4 & H5 & H6 & H7).
      assert (Hst : exec_assign fuel (store_after fuel pre) (spec_assign a) x = store_after fuel pre x).
      { apply exec_assign_other. simpl. intro E. subst x. rewrite str_eqb_refl in Ex. discriminate. }
      unfold inv_var. rewrite Hst. repeat split; auto; try (apply H3; assumption);
        try (apply H4; assumption); try (apply H5; assumption).
  - rewrite Hv. simpl. rewrite app_nil_r. exact Hinv.
Qed.

Lemma inv_struct_step pre s l s' vs :
  inv_struct pre s -> check_line s (length pre) l = Ok (s', vs) -> inv_struct (pre ++ [l]) s'.
Proof.
  intros Hinv Hck x. destruct (Hinv x) as [H1 H2].
  pose proof (check_line_var _ _ _ _ _ x Hck) as Hv.
  rewrite writes_of_app. simpl writes_of. simpl Nat.add. rewrite app_nil_r.
  unfold entry. destruct (l_body l) as [a|].
  - destruct Hv as [us Hv]. rewrite Hv.
    destruct (apply_reads_fields x (uses (a_val a) ++ us)
               (if str_eqb (a_var a) x then var_write (mv s x) (length pre) a false else mv s x))
      as (R1 & _ & _ & R4 & _).
    rewrite R1, R4. destruct (str_eqb (a_var a) x).
    + rewrite var_write_writes, var_write_cond, H1, H2. split; reflexivity.
    + rewrite app_nil_r. split; assumption.
  - rewrite Hv, app_nil_r. split; assumption.
Qed.


(* ---------- 3. the verdicts of one line ---------- *)

Lemma handle_varassign_verdicts s idx a s' vs vd :
  handle_varassign s idx a false = Ok (s', vs) -> In vd vs ->
  exists prev rest,
    rev (v_writes (vi_var (s_vars s (a_var a)))) = prev :: rest /\
    ( (vd = on_overwrite prev (idx, a) /\
        (a_op a = OpAssign \/ (a_op a = OpEval /\ has_make_vars (a_val a) = false)))
   \/ (vd = on_redundant (idx, a) prev /\
        (a_op a = OpDefault \/
         ((a_op a = OpAssign \/ (a_op a = OpEval /\ has_make_vars (a_val a) = false)) /\
          after_shell (v_writes (vi_var (s_vars s (a_var a)))) = false /\
          str_eqb (v_value (vi_var (s_vars s (a_var a)))) (render (a_val a)) = true)))
   \/ (vd = on_redundant prev (idx, a) /\
        ((a_op a = OpDefault /\ length (v_writes (vi_var (s_vars s (a_var a)))) = 1%nat) \/
         a_op a = OpAssign \/ (a_op a = OpEval /\ has_make_vars (a_val a) = false)) /\
        is_constant (vi_var (s_vars s (a_var a))) = true /\
        str_eqb (v_cval (vi_var (s_vars s (a_var a)))) (render (a_val a)) = true)
   \/ (vd = on_redundant prev (idx, a) /\ a_op a = OpShell /\
        is_constant (vi_var (s_vars s (a_var a))) = true) ).
Proof.
  unfold handle_varassign. intros H Hin.
  destruct (rev (v_writes (vi_var (s_vars s (a_var a))))) as [|prev rest] eqn:Er.
  { inversion H; subst. destruct Hin. }
  exists prev, rest. split; [reflexivity|].
  unfold constant_value in H.
  destruct (v_cond (vi_var (s_vars s (a_var a))) || false);
    [inversion H; subst; destruct Hin|].
  destruct (vi_last (s_vars s (a_var a)));
    try (inversion H; subst; destruct Hin; fail);
  destruct (a_op a) eqn:Eo; simpl in H;
  (* only the tests that the chosen branch really performs *)
  repeat (let E := fresh "E" in
          match type of H with
          | context [has_make_vars (a_val a)] => destruct (has_make_vars (a_val a)) eqn:E; simpl in H
          | context [after_shell ?w] => destruct (after_shell w) eqn:E; simpl in H
          | context [str_eqb (v_value ?v) ?t] => destruct (str_eqb (v_value v) t) eqn:E; simpl in H
          | context [included_by_or_equals_all ?p ?q] => destruct (included_by_or_equals_all p q) eqn:E; simpl in H
          | context [includes_or_equals_all ?p ?q] => destruct (includes_or_equals_all p q) eqn:E; simpl in H
          | context [is_constant ?v] => destruct (is_constant v) eqn:E; simpl in H
          | context [existsb ?f ?l] => destruct (existsb f l) eqn:E; simpl in H
          | context [str_eqb (v_cval ?v) ?t] => destruct (str_eqb (v_cval v) t) eqn:E; simpl in H
          | context [Nat.eqb ?n 1] => destruct (Nat.eqb n 1) eqn:E; [apply Nat.eqb_eq in E|]; simpl in H
          end);
  inversion H; subst; simpl in Hin; try contradiction;
  destruct Hin as [<-|[]]; intuition congruence.
Qed.

Lemma writes_of_last x : forall pre idx p ap rest,
  rev (writes_of x idx pre) = (p, ap) :: rest ->
  exists pre1 lp mid,
    pre = pre1 ++ lp :: mid /\ p = (idx + length pre1)%nat /\ l_body lp = Some ap /\ a_var ap = x /\
    forallb (fun l => negb (assigns x l)) mid = true /\ rev (writes_of x idx pre1) = rest.
Proof.
  induction pre as [|l pre0 IH] using rev_ind; intros idx p ap rest H.
  { discriminate. }
  rewrite writes_of_app in H. simpl in H. rewrite app_nil_r, rev_app_distr in H.
  unfold entry in H. destruct (l_body l) as [a|] eqn:Eb.
  - destruct (str_eqb (a_var a) x) eqn:Ex.
    + simpl in H. inversion H; subst. apply str_eqb_spec in Ex.
      exists pre0, l, []. repeat split; auto.
    + simpl in H. destruct (IH _ _ _ _ H) as (pre1 & lp & mid & E & Hp & Hb & Hv & Hm & Hr).
      exists pre1, lp, (mid ++ [l]). subst pre0. rewrite <- app_assoc. simpl.
      repeat split; auto. rewrite forallb_app, Hm. simpl. unfold assigns. rewrite Eb, Ex. reflexivity.
  - simpl in H. destruct (IH _ _ _ _ H) as (pre1 & lp & mid & E & Hp & Hb & Hv & Hm & Hr).
    exists pre1, lp, (mid ++ [l]). subst pre0. rewrite <- app_assoc. simpl.
    repeat split; auto. rewrite forallb_app, Hm. simpl. unfold assigns. rewrite Eb. reflexivity.
Qed.

Lemma writes_of_nil x : forall ls idx,
  forallb (fun l => negb (assigns x l)) ls = true -> writes_of x idx ls = [].
Proof.
  induction ls as [|l ls IH]; intros idx H; simpl; [reflexivity|].
  simpl in H. apply andb_true_iff in H as [H1 H2]. rewrite IH by exact H2.
  unfold entry. unfold assigns in H1. destruct (l_body l) as [a|]; [|reflexivity].
  apply negb_true_iff in H1. rewrite H1. reflexivity.
Qed.

Lemma filter_nil_forallb {A} (f : A -> bool) l :
  filter f l = [] -> forallb (fun x => negb (f x)) l = true.
Proof.
  induction l as [|x l IH]; simpl; [reflexivity|].
  destruct (f x); [discriminate|]. intro H. simpl. apply IH; exact H.
Qed.

