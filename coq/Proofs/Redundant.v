(* Soundness of the model's verdicts under the guard (C17_verdict_sound_partial).

   Structure:
   1. what one line does to the Var of each variable (handle_varassign changes
      only the assigned variable, by var_write; handle_expr only applies
      var_read)
   2. the invariant relating the Var of x after a prefix to the reference store
      after the same prefix: writeLocations = the assignments to x so far;
      "constant" => the store holds constantValue; the remembered value text is
      the stored text (up to the leading space of a first '+=') as long as no
      '!=' was applied to x
   3. which verdicts a line can emit and under which conditions
   4. the semantic argument: after the line that triggers the verdict, the
      stores with and without the flagged line agree on every variable *)
From PV Require Import Lib.Bytes Model.Redundant Spec.MakeEval Spec.VerdictSound
  Proofs.MakeEvalLemmas.

(* ---------- 1. effect of a line on the Var of x ---------- *)

Definition mv (s : scope) (x : var) : mvar := vi_var (s_vars s x).

Definition apply_reads (x : var) (us : list var) (v : mvar) : mvar :=
  fold_left (fun v w => if str_eqb w x then var_read v else v) us v.

Lemma upd_same {A} (m : var -> A) k v : upd m k v k = v.
Proof. unfold upd. rewrite str_eqb_refl. reflexivity. Qed.

Lemma handle_expr_fold_var x : forall us s,
  mv (fold_left (fun s w =>
        let info := s_vars s w in
        let info' := mkInfo (var_read (vi_var info)) (vi_paths info ++ [s_path s]) ARead in
        mkScope (upd (s_vars s) w info') (s_path s)) us s) x
  = apply_reads x us (mv s x).
Proof.
  induction us as [|w us IH]; intro s; simpl; [reflexivity|].
  rewrite IH. f_equal. unfold mv. simpl. unfold upd.
  destruct (str_eqb w x) eqn:E; [|reflexivity].
  apply str_eqb_spec in E. subst w. reflexivity.
Qed.

Lemma handle_expr_var s a x :
  mv (handle_expr s a) x = apply_reads x (uses (a_val a)) (mv s x).
Proof. unfold handle_expr. apply handle_expr_fold_var. Qed.

(* every successful path of handleVarassign ends in the deferred function *)
Lemma handle_varassign_scope s idx a d s' vs :
  handle_varassign s idx a d = Ok (s', vs) ->
  s' = mkScope (upd (s_vars s) (a_var a)
                 (mkInfo (var_write (vi_var (s_vars s (a_var a))) idx a d)
                         (vi_paths (s_vars s (a_var a)) ++ [s_path s]) AWrite))
               (s_path s).
Proof.
  unfold handle_varassign.
  repeat match goal with
         | |- context [match ?x with _ => _ end] => destruct x
         end;
    intro H; inversion H; reflexivity.
Qed.

Lemma handle_varassign_var s idx a s' vs x :
  handle_varassign s idx a false = Ok (s', vs) ->
  mv s' x = if str_eqb (a_var a) x then var_write (mv s (a_var a)) idx a false else mv s x.
Proof.
  intro H. apply handle_varassign_scope in H. subst s'. unfold mv. simpl. unfold upd.
  destruct (str_eqb (a_var a) x); reflexivity.
Qed.

Lemma update_include_path_vars s l s1 :
  update_include_path s l = Ok s1 -> s_vars s1 = s_vars s.
Proof.
  unfold update_include_path. destruct (l_lineno l =? 1).
  - intro H; inversion H; reflexivity.
  - destruct (ipath_pop_until (s_path s) (l_file l)); intro H; inversion H; reflexivity.
Qed.

Definition line_effect (x : var) (idx : nat) (l : line) (v : mvar) (vx : mvar) : mvar :=
  match l_body l with
  | None => v
  | Some a => apply_reads x (uses (a_val a))
                (if str_eqb (a_var a) x then var_write vx idx a false else v)
  end.

(* v = Var of x before the line, vx = Var of the assigned variable before the line *)
Lemma check_line_var s idx l s' vs x :
  check_line s idx l = Ok (s', vs) ->
  mv s' x = match l_body l with
            | None => mv s x
            | Some a => apply_reads x (uses (a_val a))
                          (if str_eqb (a_var a) x then var_write (mv s x) idx a false else mv s x)
            end.
Proof.
  unfold check_line. destruct (update_include_path s l) as [s1|] eqn:E1; [|discriminate].
  apply update_include_path_vars in E1.
  destruct (l_body l) as [a|].
  - destruct (handle_varassign s1 idx a false) as [[s2 vs2]|] eqn:E2; [|discriminate].
    intro H; inversion H; subst. rewrite handle_expr_var.
    rewrite (handle_varassign_var _ _ _ _ _ x E2). unfold mv. rewrite E1.
    destruct (str_eqb (a_var a) x) eqn:E; [|reflexivity].
    apply str_eqb_spec in E. subst x. reflexivity.
  - intro H; inversion H; subst. unfold mv. rewrite E1. reflexivity.
Qed.

(* reads keep everything but the constant state *)
Lemma apply_reads_fields x us : forall v,
  v_writes (apply_reads x us v) = v_writes v /\
  v_value (apply_reads x us v) = v_value v /\
  v_cval (apply_reads x us v) = v_cval v /\
  v_cond (apply_reads x us v) = v_cond v /\
  is_constant (apply_reads x us v) = is_constant v /\
  (v_state (apply_reads x us v) = C0 -> v_state v = C0).
Proof.
  induction us as [|w us IH]; intro v; simpl; [repeat split; auto|].
  destruct (str_eqb w x); [|apply IH].
  destruct (IH (var_read v)) as (H1 & H2 & H3 & H4 & H5 & H6).
  rewrite H1, H2, H3, H4, H5. simpl. repeat split; auto.
  - unfold is_constant. simpl. destruct (v_state v); reflexivity.
  - intro H. apply H6 in H. simpl in H. destruct (v_state v); discriminate || reflexivity.
Qed.

(* ---------- 2. the invariant ---------- *)

Definition entry (x : var) (idx : nat) (l : line) : list (nat * assign) :=
  match l_body l with
  | Some a => if str_eqb (a_var a) x then [(idx, a)] else []
  | None => []
  end.

Fixpoint writes_of (x : var) (idx : nat) (ls : list line) : list (nat * assign) :=
  match ls with
  | [] => []
  | l :: r => entry x idx l ++ writes_of x (S idx) r
  end.

Lemma writes_of_app x : forall a idx b,
  writes_of x idx (a ++ b) = writes_of x idx a ++ writes_of x (idx + length a) b.
Proof.
  induction a as [|l a IH]; intros idx b; simpl.
  - rewrite Nat.add_0_r. reflexivity.
  - rewrite IH. rewrite app_assoc. do 2 f_equal. lia.
Qed.

Definition store_after (fuel : nat) (pre : program) : store :=
  exec_from fuel empty_store (to_spec pre).

Lemma store_after_snoc fuel pre l :
  store_after fuel (pre ++ [l]) = exec_line fuel (store_after fuel pre) (spec_line l).
Proof.
  unfold store_after, to_spec. rewrite map_app, exec_from_app. reflexivity.
Qed.

Definition inv_var (st : store) (ws : list (nat * assign)) (noshell : bool) (x : var) (v : mvar) : Prop :=
  v_writes v = ws /\
  v_cond v = false /\
  (v_state v = C0 -> v_cval v = [] /\ ws = []) /\
  (is_constant v = true -> ws <> [] /\ st x = Some (Txt (v_cval v))) /\
  (ws = [] -> st x = None /\ v_value v = []) /\
  (ws <> [] -> st x <> None) /\
  (noshell = true -> ws <> [] ->
     exists t, st x = Some (Txt t) /\ (v_value v = t \/ v_value v = 32 :: t)).

Definition inv_x (fuel : nat) (pre : program) (s : scope) (x : var) : Prop :=
  inv_var (store_after fuel pre) (writes_of x 0 pre) (no_shell_on x pre) x (mv s x).

Lemma inv_x_init fuel x : inv_x fuel [] new_scope x.
Proof.
  unfold inv_x, inv_var, mv. simpl. repeat split; auto; try discriminate; congruence.
Qed.

(* the part of the invariant that needs no hypothesis on the program *)
Definition inv_struct (pre : program) (s : scope) : Prop :=
  forall x, v_writes (mv s x) = writes_of x 0 pre /\ v_cond (mv s x) = false.

Lemma inv_struct_init : inv_struct [] new_scope.
Proof. intro x. split; reflexivity. Qed.

Lemma inv_var_reads st ws ns x us v :
  inv_var st ws ns x v -> inv_var st ws ns x (apply_reads x us v).
Proof.
  intros (H1 & H2 & H3 & H4 & H5 & H6 & H7).
  destruct (apply_reads_fields x us v) as (R1 & R2 & R3 & R4 & R5 & R6).
  unfold inv_var. rewrite R1, R2, R3, R4, R5. repeat split; auto.
  - apply H3. apply R6. assumption.
  - apply H3. apply R6. assumption.
  - apply H4; assumption.
  - apply H4; assumption.
  - apply H5; assumption.
  - apply H5; assumption.
Qed.

Lemma no_shell_on_app x a b : no_shell_on x (a ++ b) = no_shell_on x a && no_shell_on x b.
Proof. unfold no_shell_on. apply forallb_app. Qed.

Lemma eager_plain_app a b : eager_plain (a ++ b) = eager_plain a && eager_plain b.
Proof. unfold eager_plain. apply forallb_app. Qed.

Lemma splain_spec_line l : splain (spec_line l) = eager_plain_line l.
Proof.
  unfold splain, spec_line, eager_plain_line. destruct (l_body l) as [a|]; simpl; [|reflexivity].
  destruct (a_op a); reflexivity.
Qed.

Lemma sassigns_spec_line x l : sassigns x (spec_line l) = assigns x l.
Proof. unfold sassigns, spec_line, assigns. destruct (l_body l); reflexivity. Qed.

Lemma or1_not_C0 c : or1 c <> C0.
Proof. destruct c; discriminate. Qed.

(* the state after Var.Write is never 0 *)
Lemma var_write_state v idx a : v_state (var_write v idx a false) <> C0.
Proof.
  unfold var_write, var_update_constant. simpl.
  destruct (cstate_eqb (v_state v) C3) eqn:E3.
  - simpl. destruct (v_state v); discriminate.
  - destruct (v_cond v || false); simpl; [discriminate|].
    destruct (a_op a); simpl; try apply or1_not_C0; try discriminate.
    + destruct (has_make_vars (a_val a)); simpl; [discriminate|apply or1_not_C0].
    + destruct (cstate_eqb (v_state v) C0); simpl; apply or1_not_C0.
Qed.

Lemma var_write_writes v idx a : v_writes (var_write v idx a false) = v_writes v ++ [(idx, a)].
Proof.
  unfold var_write, var_update_constant. simpl.
  destruct (cstate_eqb (v_state v) C3); [reflexivity|].
  destruct (v_cond v || false); [reflexivity|].
  destruct (a_op a); simpl; try reflexivity.
  - destruct (has_make_vars (a_val a)); reflexivity.
  - destruct (cstate_eqb (v_state v) C0); reflexivity.
Qed.

Lemma var_write_cond v idx a : v_cond (var_write v idx a false) = v_cond v.
Proof.
  transitivity (v_cond v || false); [|apply orb_false_r].
  unfold var_write, var_update_constant. simpl.
  destruct (cstate_eqb (v_state v) C3); [reflexivity|].
  destruct (v_cond v || false); [reflexivity|].
  destruct (a_op a); simpl; try reflexivity.
  - destruct (has_make_vars (a_val a)); reflexivity.
  - destruct (cstate_eqb (v_state v) C0); reflexivity.
Qed.

Lemma var_write_value v idx a :
  v_cond v = false ->
  v_value (var_write v idx a false) =
    match a_op a with
    | OpAssign | OpEval => render (a_val a)
    | OpDefault => match v_writes v with [] => render (a_val a) | _ => v_value v end
    | OpAppend => v_value v ++ [32] ++ render (a_val a)
    | OpShell => v_value v
    end.
Proof.
  intro Hc.
  assert (E : v_value (var_write v idx a false) =
              var_update (mkVar (v_state v) (v_cval v) (v_value v) (v_writes v ++ [(idx, a)]) (v_cond v || false)) a).
  { unfold var_write, var_update_constant. simpl.
    destruct (cstate_eqb (v_state v) C3); [reflexivity|].
    destruct (v_cond v || false); [reflexivity|].
    destruct (a_op a); simpl; try reflexivity.
    - destruct (has_make_vars (a_val a)); reflexivity.
    - destruct (cstate_eqb (v_state v) C0); reflexivity. }
  rewrite E. unfold var_update. simpl. rewrite Hc. simpl.
  destruct (a_op a); try reflexivity.
  rewrite app_length, Nat.add_1_r. destruct (v_writes v); reflexivity.
Qed.

(* state and constantValue after Var.Write, when the variable is not conditional *)
Lemma var_write_constant v idx a :
  v_cond v = false ->
  is_constant (var_write v idx a false) = true ->
  (v_state v = C0 \/ v_state v = C1) /\
  match a_op a with
  | OpAssign => v_cval (var_write v idx a false) = render (a_val a)
  | OpEval => has_make_vars (a_val a) = false /\ v_cval (var_write v idx a false) = render (a_val a)
  | OpDefault => v_cval (var_write v idx a false) =
                   match v_state v with C0 => render (a_val a) | _ => v_cval v end
  | OpAppend => v_cval (var_write v idx a false) =
                   match v_state v with C0 => v_cval v ++ render (a_val a)
                                   | _ => (v_cval v ++ [32]) ++ render (a_val a) end
  | OpShell => False
  end.
Proof.
  intro Hc. unfold var_write, var_update_constant, is_constant. simpl. rewrite Hc. simpl.
  destruct (v_state v) eqn:Es; simpl; try discriminate;
    destruct (a_op a); simpl; try discriminate;
    try (destruct (has_make_vars (a_val a)); simpl; try discriminate);
    intros _; repeat split; auto.
Qed.

Lemma supd_redundant st x v : st x = Some v -> ext_eq (supd st x v) st.
Proof.
  intros H y. unfold supd. destruct (str_eqb x y) eqn:E; [|reflexivity].
  apply str_eqb_spec in E. subst y. symmetry; exact H.
Qed.

(* Var.Write on x against the reference store, for a plain assignment to x *)
Lemma inv_var_write fuel st ws ns x v idx a :
  inv_var st ws ns x v ->
  a_var a = x ->
  splain (Some (spec_assign a)) = true ->
  inv_var (exec_assign fuel st (spec_assign a)) (ws ++ [(idx, a)])
          (ns && negb (op_eqb (a_op a) OpShell)) x (var_write v idx a false).
Proof.
  intros (H1 & H2 & H3 & H4 & H5 & H6 & H7) Hx Hp.
  assert (Hst : exec_assign fuel st (spec_assign a) x = plain_step (st x) (spec_assign a)).
  { rewrite (exec_assign_plain fuel st _ Hp). simpl. rewrite Hx, str_eqb_refl. reflexivity. }
  assert (Hne : ws ++ [(idx, a)] <> []) by (destruct ws; discriminate).
  unfold inv_var. rewrite var_write_writes, var_write_cond, H1, H2.
  split; [reflexivity|]. split; [reflexivity|].
  split; [intro E; exfalso; exact (var_write_state _ _ _ E)|].
  split; [|split; [intro E; contradiction|split]].
  - (* constant => the store holds constantValue *)
    intro Hk. split; [exact Hne|].
    destruct (var_write_constant v idx a H2 Hk) as [Hs Hcv].
    rewrite Hst. unfold plain_step, spec_assign. simpl.
    destruct (a_op a) eqn:Eo; simpl.
    + rewrite Hcv. reflexivity.
    + contradiction.
    + destruct Hcv as [_ Hcv]. rewrite Hcv. reflexivity.
    + destruct Hs as [Hs|Hs]; rewrite Hs in Hcv.
      * destruct (H3 Hs) as [Hc0 Hw0]. destruct (H5 Hw0) as [Hn _].
        rewrite Hn, Hcv, Hc0. reflexivity.
      * assert (Hk0 : is_constant v = true) by (unfold is_constant; rewrite Hs; reflexivity).
        destruct (H4 Hk0) as [_ Hv]. rewrite Hv, Hcv, <- app_assoc. reflexivity.
    + destruct Hs as [Hs|Hs]; rewrite Hs in Hcv.
      * destruct (H3 Hs) as [Hc0 Hw0]. destruct (H5 Hw0) as [Hn _].
        rewrite Hn, Hcv. reflexivity.
      * assert (Hk0 : is_constant v = true) by (unfold is_constant; rewrite Hs; reflexivity).
        destruct (H4 Hk0) as [_ Hv]. rewrite Hv, Hcv. reflexivity.
  - (* defined afterwards *)
    intros _. rewrite Hst. unfold plain_step. simpl.
    destruct (a_op a); simpl; try discriminate; destruct (st x) as [[o|]|]; discriminate.
  - (* the remembered text *)
    intros Hns _. apply andb_true_iff in Hns as [Hns Hsh]. apply negb_true_iff in Hsh.
    rewrite Hst, (var_write_value v idx a H2), H1. unfold plain_step, spec_assign. simpl.
    destruct ws as [|w0 ws0].
    + destruct (H5 eq_refl) as [Hn Hv0]. rewrite Hn, Hv0.
      destruct (a_op a); simpl in *; try discriminate; eexists; split; try reflexivity; auto.
    + assert (Hw : w0 :: ws0 <> []) by discriminate.
      destruct (H7 Hns Hw) as (t & Ht & Hv). rewrite Ht.
      destruct (a_op a); simpl in *; try discriminate; eexists; split; try reflexivity; auto.
      destruct Hv as [Hv|Hv]; rewrite Hv; [left|right]; reflexivity.
Qed.

Lemma inv_x_step fuel pre s l s' vs x :
  (assigns x l = true -> eager_plain_line l = true) ->
  inv_x fuel pre s x -> check_line s (length pre) l = Ok (s', vs) -> inv_x fuel (pre ++ [l]) s' x.
Proof.
  intros Hp Hinv Hck. unfold inv_x in *.
  rewrite (check_line_var _ _ _ _ _ x Hck).
  rewrite store_after_snoc, writes_of_app, no_shell_on_app. simpl writes_of. simpl Nat.add.
  rewrite app_nil_r. unfold no_shell_on at 2. simpl forallb. rewrite andb_true_r.
  unfold entry, spec_line. unfold assigns in Hp. destruct (l_body l) as [a|] eqn:Eb; simpl option_map.
  - destruct (str_eqb (a_var a) x) eqn:Ex.
    + apply str_eqb_spec in Ex. apply inv_var_reads. simpl exec_line.
      rewrite andb_true_l.
      apply inv_var_write; auto.
      specialize (Hp eq_refl).
      rewrite <- splain_spec_line in Hp. unfold spec_line in Hp. rewrite Eb in Hp. exact Hp.
    + apply inv_var_reads. simpl. rewrite app_nil_r, andb_true_r.
      destruct Hinv as (H1 & H2 & H3 & H4 & H5 & H6 & H7).
      assert (Hst : exec_assign fuel (store_after fuel pre) (spec_assign a) x = store_after fuel pre x).
      { apply exec_assign_other. simpl. intro E. subst x. rewrite str_eqb_refl in Ex. discriminate. }
      unfold inv_var. rewrite Hst. repeat split; auto; try (apply H3; assumption);
        try (apply H4; assumption); try (apply H5; assumption).
  - simpl. rewrite app_nil_r, andb_true_r. exact Hinv.
Qed.

Lemma inv_struct_step pre s l s' vs :
  inv_struct pre s -> check_line s (length pre) l = Ok (s', vs) -> inv_struct (pre ++ [l]) s'.
Proof.
  intros Hinv Hck x. destruct (Hinv x) as [H1 H2].
  rewrite (check_line_var _ _ _ _ _ x Hck).
  rewrite writes_of_app. simpl writes_of. simpl Nat.add. rewrite app_nil_r.
  unfold entry. destruct (l_body l) as [a|].
  - destruct (apply_reads_fields x (uses (a_val a))
               (if str_eqb (a_var a) x then var_write (mv s x) (length pre) a false else mv s x))
      as (R1 & _ & _ & R4 & _).
    rewrite R1, R4. destruct (str_eqb (a_var a) x).
    + rewrite var_write_writes, var_write_cond, H1, H2. split; reflexivity.
    + rewrite app_nil_r. split; assumption.
  - rewrite app_nil_r. split; assumption.
Qed.

Lemma plain_on_app x a b : plain_on x (a ++ b) = plain_on x a && plain_on x b.
Proof. unfold plain_on. apply forallb_app. Qed.

(* ---------- 3. the verdicts of one line ---------- *)

Lemma handle_varassign_verdicts s idx a s' vs vd :
  handle_varassign s idx a false = Ok (s', vs) -> In vd vs ->
  exists prev rest,
    rev (v_writes (vi_var (s_vars s (a_var a)))) = prev :: rest /\
    ( (vd = on_overwrite prev (idx, a) /\ (a_op a = OpAssign \/ a_op a = OpEval))
   \/ (vd = on_redundant (idx, a) prev /\
        (a_op a = OpDefault \/
         ((a_op a = OpAssign \/ a_op a = OpEval) /\
          str_eqb (v_value (vi_var (s_vars s (a_var a)))) (render (a_val a)) = true)))
   \/ (vd = on_redundant prev (idx, a) /\
        (a_op a = OpDefault \/ a_op a = OpAssign \/ a_op a = OpEval) /\
        is_constant (vi_var (s_vars s (a_var a))) = true /\
        str_eqb (v_cval (vi_var (s_vars s (a_var a)))) (render (a_val a)) = true)
   \/ (vd = on_redundant prev (idx, a) /\ a_op a = OpShell /\
        is_constant (vi_var (s_vars s (a_var a))) = true) ).
Proof.
  unfold handle_varassign. intros H Hin.
  destruct (rev (v_writes (vi_var (s_vars s (a_var a))))) as [|prev rest] eqn:Er.
  { inversion H; subst. destruct Hin. }
  exists prev, rest. split; [reflexivity|].
  unfold constant_value in H.
  destruct (v_cond (vi_var (s_vars s (a_var a))) || false);
    [inversion H; subst; destruct Hin|].
  destruct (vi_last (s_vars s (a_var a)));
    try (inversion H; subst; destruct Hin; fail);
  destruct (a_op a) eqn:Eo; simpl in H;
  destruct (has_make_vars (a_val a)); simpl in H;
  destruct (str_eqb (v_value (vi_var (s_vars s (a_var a)))) (render (a_val a))) eqn:Ev; simpl in H;
  destruct (included_by_or_equals_all (s_path s) (vi_paths (s_vars s (a_var a)))); simpl in H;
  destruct (includes_or_equals_all (s_path s) (vi_paths (s_vars s (a_var a)))); simpl in H;
  destruct (is_constant (vi_var (s_vars s (a_var a)))) eqn:Ek; simpl in H;
  try destruct (str_eqb (v_cval (vi_var (s_vars s (a_var a)))) (render (a_val a))) eqn:Ec; simpl in H;
  inversion H; subst; simpl in Hin; try contradiction;
  destruct Hin as [<-|[]]; intuition congruence.
Qed.

Lemma writes_of_last x : forall pre idx p ap rest,
  rev (writes_of x idx pre) = (p, ap) :: rest ->
  exists pre1 lp mid,
    pre = pre1 ++ lp :: mid /\ p = (idx + length pre1)%nat /\ l_body lp = Some ap /\ a_var ap = x /\
    forallb (fun l => negb (assigns x l)) mid = true /\ rev (writes_of x idx pre1) = rest.
Proof.
  induction pre as [|l pre0 IH] using rev_ind; intros idx p ap rest H.
  { discriminate. }
  rewrite writes_of_app in H. simpl in H. rewrite app_nil_r, rev_app_distr in H.
  unfold entry in H. destruct (l_body l) as [a|] eqn:Eb.
  - destruct (str_eqb (a_var a) x) eqn:Ex.
    + simpl in H. inversion H; subst. apply str_eqb_spec in Ex.
      exists pre0, l, []. repeat split; auto.
    + simpl in H. destruct (IH _ _ _ _ H) as (pre1 & lp & mid & E & Hp & Hb & Hv & Hm & Hr).
      exists pre1, lp, (mid ++ [l]). subst pre0. rewrite <- app_assoc. simpl.
      repeat split; auto. rewrite forallb_app, Hm. simpl. unfold assigns. rewrite Eb, Ex. reflexivity.
  - simpl in H. destruct (IH _ _ _ _ H) as (pre1 & lp & mid & E & Hp & Hb & Hv & Hm & Hr).
    exists pre1, lp, (mid ++ [l]). subst pre0. rewrite <- app_assoc. simpl.
    repeat split; auto. rewrite forallb_app, Hm. simpl. unfold assigns. rewrite Eb. reflexivity.
Qed.

Lemma writes_of_nil x : forall ls idx,
  forallb (fun l => negb (assigns x l)) ls = true -> writes_of x idx ls = [].
Proof.
  induction ls as [|l ls IH]; intros idx H; simpl; [reflexivity|].
  simpl in H. apply andb_true_iff in H as [H1 H2]. rewrite IH by exact H2.
  unfold entry. unfold assigns in H1. destruct (l_body l) as [a|]; [|reflexivity].
  apply negb_true_iff in H1. rewrite H1. reflexivity.
Qed.

Lemma filter_nil_forallb {A} (f : A -> bool) l :
  filter f l = [] -> forallb (fun x => negb (f x)) l = true.
Proof.
  induction l as [|x l IH]; simpl; [reflexivity|].
  destruct (f x); [discriminate|]. intro H. simpl. apply IH; exact H.
Qed.

