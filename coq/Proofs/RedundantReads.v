(* read_blocks_verdict: an assignment to x emits no verdict when the last
   mention of x before it is a use of ${x} (RedundantScope.handleExpr sets
   lastAction = 1, handleVarassign returns early). *)
From PV Require Import Lib.Bytes Model.Redundant Spec.MakeEval Spec.VerdictSound
  Proofs.MakeEvalLemmas Proofs.Redundant.

Definition last_of (s : scope) (x : var) : action := vi_last (s_vars s x).

Lemma fold_read_one_last x : forall us s,
  last_of (fold_left read_one us s) x = if existsb (str_eqb x) us then ARead else last_of s x.
Proof.
  induction us as [|w us IH]; intro s; simpl; [reflexivity|].
  rewrite IH. unfold last_of, read_one. simpl. unfold upd.
  destruct (existsb (str_eqb x) us); [rewrite orb_true_r; reflexivity|].
  rewrite orb_false_r.
  destruct (str_eqb w x) eqn:E.
  - apply str_eqb_spec in E. subst w. rewrite str_eqb_refl. reflexivity.
  - destruct (str_eqb x w) eqn:E'; [|reflexivity].
    apply str_eqb_spec in E'. subst w. rewrite str_eqb_refl in E. discriminate.
Qed.

(* handleExpr marks the used variables (and possibly more) as read, and leaves
   lastAction of the others alone *)
Lemma handle_expr_last s a s' x :
  handle_expr s a = Ok s' ->
  (existsb (str_eqb x) (uses (a_val a)) = true -> last_of s' x = ARead) /\
  (last_of s' x = ARead \/ last_of s' x = last_of s x).
Proof.
  unfold handle_expr. intro H.
  assert (H1 : last_of (fold_left read_one (uses (a_val a)) s) x =
               if existsb (str_eqb x) (uses (a_val a)) then ARead else last_of s x)
    by apply fold_read_one_last.
  destruct (a_op a).
  1, 4, 5: inversion H; subst; rewrite H1;
    destruct (existsb (str_eqb x) (uses (a_val a))); split; auto; intro Hx; discriminate Hx.
  all: destruct (closure _ _ _) as [c| |]; try discriminate; inversion H; subst;
    rewrite fold_read_one_last, H1;
    destruct (existsb (str_eqb x) c); destruct (existsb (str_eqb x) (uses (a_val a)));
    split; auto; intro Hx; discriminate Hx.
Qed.

Lemma check_line_last s idx l s' vs x acc :
  check_line s idx l = Ok (s', vs) ->
  (acc = ARead -> last_of s x = ARead) ->
  mention x acc l = ARead -> last_of s' x = ARead.
Proof.
  unfold check_line, mention. destruct (update_include_path s l) as [s1| |] eqn:E1; try discriminate.
  apply update_include_path_vars in E1.
  destruct (l_body l) as [a|].
  - destruct (handle_varassign s1 idx a false) as [[s2 vs2]| |] eqn:E2; try discriminate.
    destruct (handle_expr s2 a) as [s3| |] eqn:E3; try discriminate.
    intro H; inversion H; subst. intros Hacc Hm.
    destruct (handle_expr_last _ _ _ x E3) as [Hu Hk].
    destruct (existsb (str_eqb x) (uses (a_val a))); [apply Hu; reflexivity|].
    destruct (str_eqb (a_var a) x) eqn:Ex; [discriminate|].
    destruct Hk as [Hk|Hk]; [exact Hk|]. rewrite Hk.
    apply handle_varassign_scope in E2. subst s2. unfold last_of. simpl. unfold upd.
    rewrite Ex, E1. apply Hacc. exact Hm.
  - intro H; inversion H; subst. intros Hacc Hm. unfold last_of. rewrite E1. apply Hacc. exact Hm.
Qed.

Lemma last_mention_snoc x pre l : last_mention x (pre ++ [l]) = mention x (last_mention x pre) l.
Proof. unfold last_mention. rewrite fold_left_app. reflexivity. Qed.

(* a line whose variable was last read emits nothing *)
Lemma handle_varassign_read s idx a s' vs :
  handle_varassign s idx a false = Ok (s', vs) -> vi_last (s_vars s (a_var a)) = ARead -> vs = [].
Proof.
  unfold handle_varassign. intros H Hr. rewrite Hr in H.
  destruct (rev (v_writes (vi_var (s_vars s (a_var a))))); [inversion H; reflexivity|].
  destruct (v_cond (vi_var (s_vars s (a_var a))) || false); inversion H; reflexivity.
Qed.

(* a verdict of line idx names idx and one earlier line *)
Lemma line_verdict_at pre l s s' vs vd :
  inv_struct pre s -> check_line s (length pre) l = Ok (s', vs) -> In vd vs ->
  emitted_at vd = length pre.
Proof.
  intros Hstruct Hck Hin. unfold check_line in Hck.
  destruct (update_include_path s l) as [s1| |] eqn:E1; try discriminate.
  apply update_include_path_vars in E1.
  destruct (l_body l) as [a|] eqn:Eb; [|inversion Hck; subst; destruct Hin].
  destruct (handle_varassign s1 (length pre) a false) as [[s2 vs2]| |] eqn:E2; try discriminate.
  destruct (handle_expr s2 a) as [s3| |]; try discriminate.
  inversion Hck; subst s' vs; clear Hck.
  destruct (handle_varassign_verdicts _ _ _ _ _ _ E2 Hin) as (prev & rest & Hrev & Hcases).
  rewrite E1 in Hrev. destruct (Hstruct (a_var a)) as (W1 & _). unfold mv in W1. rewrite W1 in Hrev.
  destruct prev as [pidx ap].
  destruct (writes_of_last _ _ _ _ _ _ Hrev) as (pre1 & lp & mid & Epre & Hp & _).
  simpl in Hp. subst pidx.
  assert (Hlt : (length pre1 < length pre)%nat) by (subst pre; rewrite app_length; simpl; lia).
  clear - Hcases Hlt. unfold emitted_at.
  destruct Hcases as [[Hvd _]|[[Hvd _]|[(Hvd & _)|(Hvd & _)]]]; subst vd; simpl; lia.
Qed.

Lemma reads_gen : forall ls pre s vs,
  inv_struct pre s -> (forall x, last_mention x pre = ARead -> last_of s x = ARead) ->
  check_from s (length pre) ls = Ok vs ->
  forall vd, In vd vs ->
  exists k l a, nth_error ls k = Some l /\ l_body l = Some a /\
                emitted_at vd = (length pre + k)%nat /\
                last_mention (a_var a) (pre ++ firstn k ls) <> ARead.
Proof.
  induction ls as [|l ls IH]; intros pre s vs Hstruct Hlast Hck vd Hin.
  - simpl in Hck. inversion Hck; subst. destruct Hin.
  - simpl in Hck. destruct (check_line s (length pre) l) as [[s' vs0]| |] eqn:E1; try discriminate.
    destruct (check_from s' (S (length pre)) ls) as [rest| |] eqn:E2; try discriminate.
    inversion Hck; subst vs. apply in_app_or in Hin as [Hin|Hin].
    + exists 0%nat, l. pose proof (line_verdict_at _ _ _ _ _ _ Hstruct E1 Hin) as Hat.
      unfold check_line in E1.
      destruct (update_include_path s l) as [s1| |] eqn:E0; try discriminate.
      apply update_include_path_vars in E0.
      destruct (l_body l) as [a|] eqn:Eb; [|inversion E1; subst; destruct Hin].
      destruct (handle_varassign s1 (length pre) a false) as [[s2 vs2]| |] eqn:E3; try discriminate.
      destruct (handle_expr s2 a) as [s3| |]; try discriminate.
      inversion E1; subst s' vs0. exists a. simpl. rewrite app_nil_r, Nat.add_0_r.
      repeat split; auto. intro Hr.
      apply Hlast in Hr. unfold last_of in Hr. rewrite <- E0 in Hr.
      rewrite (handle_varassign_read _ _ _ _ _ E3 Hr) in Hin. destruct Hin.
    + assert (Hlen : length (pre ++ [l]) = S (length pre)) by (rewrite app_length; simpl; lia).
      rewrite <- Hlen in E2.
      destruct (IH (pre ++ [l]) s' rest (inv_struct_step _ _ _ _ _ Hstruct E1)) with (vd := vd)
        as (k & l' & a & Hn & Hb & Hat & Hm); auto.
      * intro x. rewrite last_mention_snoc. apply (check_line_last _ _ _ _ _ x _ E1). apply Hlast.
      * exists (S k), l', a. simpl. rewrite <- app_assoc in Hm. simpl in Hm.
        repeat split; auto. rewrite Hat, Hlen. lia.
Qed.

Theorem read_blocks_verdict pre l post a vs :
  check (pre ++ l :: post) = Ok vs -> l_body l = Some a ->
  last_mention (a_var a) pre = ARead ->
  forall vd, In vd vs -> emitted_at vd <> length pre.
Proof.
  intros Hck Hb Hr vd Hin Hat.
  destruct (reads_gen (pre ++ l :: post) [] new_scope vs inv_struct_init) with (vd := vd)
    as (k & l' & a' & Hn & Hb' & Hat' & Hm); auto.
  simpl in Hat', Hm. rewrite Hat in Hat'. subst k.
  rewrite nth_error_app2 in Hn by lia. rewrite Nat.sub_diag in Hn. simpl in Hn.
  inversion Hn; subst l'. rewrite Hb in Hb'. inversion Hb'; subst a'.
  rewrite firstn_app, firstn_all, Nat.sub_diag in Hm. simpl in Hm. rewrite app_nil_r in Hm.
  contradiction.
Qed.
