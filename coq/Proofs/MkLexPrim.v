(* Lemmas about the lexer primitives of Model/MkLexPrim.v: every primitive leaves a
   suffix of the text, `since` returns exactly what was chopped off, and a loop
   whose step chops off at least one byte ends within |s|+1 rounds. *)
From PV Require Import Lib.Bytes Model.MkLexPrim Spec.MkPartition.
From Coq Require Import ZifyBool ZifyN ZifyNat.
Open Scope N_scope.

(* ---- chops / is_suffix ---- *)

Lemma chops_suffix s r : chops s r -> is_suffix r s.
Proof. intros (c & _ & ->). exists c; reflexivity. Qed.

Lemma chops_length s r : chops s r -> (length r < length s)%nat.
Proof.
  intros (c & Hc & ->). rewrite app_length. destruct c; [congruence|simpl; lia].
Qed.

Lemma chops_cons c s : chops (c :: s) s.
Proof. exists [c]; split; [discriminate|reflexivity]. Qed.

Lemma chops_trans_suffix s r t : chops s r -> is_suffix t r -> chops s t.
Proof.
  intros (c & Hc & ->) (d & ->). exists (c ++ d). split.
  - destruct c; [congruence|discriminate].
  - rewrite app_assoc; reflexivity.
Qed.

Lemma suffix_trans_chops s r t : is_suffix r s -> chops r t -> chops s t.
Proof.
  intros (c & ->) (d & Hd & ->). exists (c ++ d). split.
  - destruct d; [congruence|]. destruct c; discriminate.
  - rewrite app_assoc; reflexivity.
Qed.

Lemma suffix_shorter_chops s r : is_suffix r s -> (length r < length s)%nat -> chops s r.
Proof.
  intros (c & ->) H. exists c. split; [|reflexivity].
  intros ->. simpl in H. lia.
Qed.

Lemma is_suffix_nil s : is_suffix [] s.
Proof. exists s. rewrite app_nil_r; reflexivity. Qed.

Lemma is_suffix_app c r : is_suffix r (c ++ r).
Proof. exists c; reflexivity. Qed.

Lemma is_suffix_antisym_length r s : is_suffix r s -> length r = length s -> r = s.
Proof.
  intros (c & ->) H. rewrite app_length in H. destruct c; [reflexivity|simpl in H; lia].
Qed.

(* ---- since ---- *)

Lemma since_app c r : since (c ++ r) r = c.
Proof.
  unfold since. rewrite app_length.
  replace (length c + length r - length r)%nat with (length c) by lia.
  rewrite firstn_app, Nat.sub_diag, firstn_all. simpl. apply app_nil_r.
Qed.

Lemma since_suffix mark r : is_suffix r mark -> since mark r ++ r = mark.
Proof. intros (c & ->). rewrite since_app. reflexivity. Qed.

Lemma since_self s : since s s = [].
Proof. unfold since. rewrite Nat.sub_diag. reflexivity. Qed.

Lemma since_nonempty_chops mark r : is_suffix r mark -> since mark r <> [] -> chops mark r.
Proof.
  intros H Hne. exists (since mark r). split; [exact Hne|]. symmetry; apply since_suffix; exact H.
Qed.

Lemma since_chops_nonempty mark r : chops mark r -> since mark r <> [].
Proof. intros (c & Hc & ->). rewrite since_app. exact Hc. Qed.

(* ---- primitives ---- *)

Lemma skip_ok n s : (n <= length s)%nat -> skip n s = Ok (skipn n s).
Proof. intro Hn. unfold skip. destruct (Nat.leb_spec n (length s)); [reflexivity|lia]. Qed.

Lemma skip_inv n s r : skip n s = Ok r -> r = skipn n s /\ (n <= length s)%nat.
Proof.
  unfold skip. destruct (Nat.leb_spec n (length s)); [|discriminate].
  intro Hr; inversion Hr; auto.
Qed.

Lemma skipn_suffix n s : is_suffix (skipn n s) s.
Proof. apply is_suffix_skipn. Qed.

Lemma skipn_chops n s : (0 < n)%nat -> (n <= length s)%nat -> chops s (skipn n s).
Proof.
  intros H0 H. apply suffix_shorter_chops; [apply skipn_suffix|].
  rewrite skipn_length. lia.
Qed.

Lemma skip_byte_some b s r : skip_byte b s = Some r -> s = b :: r.
Proof.
  destruct s as [|c t]; simpl; [discriminate|].
  destruct (N.eqb_spec c b); [|discriminate]. intro H; inversion H; subst; reflexivity.
Qed.

Lemma skip_byte_chops b s r : skip_byte b s = Some r -> chops s r.
Proof. intro H. apply skip_byte_some in H. subst. apply chops_cons. Qed.

Lemma skip_byte_opt_suffix b s : is_suffix (skip_byte_opt b s) s.
Proof.
  unfold skip_byte_opt. destruct (skip_byte b s) eqn:E; [|apply is_suffix_refl].
  apply chops_suffix, (skip_byte_chops _ _ _ E).
Qed.

Lemma skip_string_some p s r : skip_string p s = Some r -> s = p ++ r.
Proof. apply strip_prefix_some. Qed.

Lemma skip_string_chops p s r : p <> [] -> skip_string p s = Some r -> chops s r.
Proof. intros Hp H. exists p. split; [exact Hp|]. apply skip_string_some; exact H. Qed.

Lemma next_bytes_app f s : fst (next_bytes f s) ++ snd (next_bytes f s) = s.
Proof. apply span_app. Qed.

Lemma next_bytes_suffix f s : is_suffix (snd (next_bytes f s)) s.
Proof. exists (fst (next_bytes f s)). symmetry; apply next_bytes_app. Qed.

Lemma next_bytes_eq f s a r : next_bytes f s = (a, r) -> s = a ++ r.
Proof. intro H. pose proof (next_bytes_app f s) as E. rewrite H in E. simpl in E. congruence. Qed.

(* ---- rtrim ---- *)

Lemma rtrim_hspace_app s : exists sp, s = rtrim_hspace s ++ sp /\ forallb is_hspace sp = true.
Proof.
  induction s as [|c t (sp & E & Hsp)]; [exists []; split; reflexivity|].
  simpl. destruct (rtrim_hspace t) as [|x t'] eqn:R.
  - destruct (is_hspace c) eqn:Hc.
    + exists (c :: t). split; [reflexivity|]. simpl. rewrite Hc. simpl in E. rewrite E. exact Hsp.
    + exists sp. split; [|exact Hsp]. simpl. simpl in E. congruence.
  - exists sp. split; [|exact Hsp]. simpl. rewrite E at 1. reflexivity.
Qed.

Lemma rtrim_hspace_skipn s : s = rtrim_hspace s ++ skipn (length (rtrim_hspace s)) s.
Proof.
  destruct (rtrim_hspace_app s) as (sp & E & _).
  assert (K : skipn (length (rtrim_hspace s)) s = sp).
  { rewrite E at 2. rewrite skipn_app, Nat.sub_diag, skipn_all. reflexivity. }
  rewrite K. exact E.
Qed.

(* ---- steps and loops ---- *)

Definition step_good (st : step) (s : str) : Prop :=
  st s = Ok None \/ exists r, st s = Ok (Some r) /\ chops s r.

(* the contract of a step on all texts of at most n bytes; for E := Expr this is
   the advance contract *)
Definition step_ok (st : step) (n : nat) : Prop :=
  forall s, (length s <= n)%nat -> step_good st s.

Lemma orelse_ok a b n : step_ok a n -> step_ok b n -> step_ok (orelse a b) n.
Proof.
  intros Ha Hb s Hs. unfold step_good, orelse.
  destruct (Ha s Hs) as [E | (r & E & C)]; rewrite E.
  - apply Hb; exact Hs.
  - right; exists r; split; [reflexivity|exact C].
Qed.

Lemma st_bytes_ok f n : step_ok (st_bytes f) n.
Proof.
  intros s _. unfold step_good, st_bytes.
  destruct (span f s) as [a r] eqn:E. destruct a as [|x a]; [left; reflexivity|].
  right; exists r; split; [reflexivity|]. exists (x :: a). split; [discriminate|].
  apply (next_bytes_eq f); exact E.
Qed.

Lemma st_string_ok p n : p <> [] -> step_ok (st_string p) n.
Proof.
  intros Hp s _. unfold step_good, st_string.
  destruct (skip_string p s) eqn:E; [right|left; reflexivity].
  exists s0; split; [reflexivity|]. apply (skip_string_chops p); assumption.
Qed.

Lemma st_opt_ok (f : str -> option str) n :
  (forall s r, f s = Some r -> chops s r) -> step_ok (st_opt f) n.
Proof.
  intros Hf s _. unfold step_good, st_opt.
  destruct (f s) eqn:E; [right|left; reflexivity].
  exists s0; split; [reflexivity|]. apply Hf; exact E.
Qed.

Lemma iterate_ok st n : step_ok st n ->
  forall fuel s, (length s <= n)%nat -> (length s < fuel)%nat ->
  exists r, iterate st fuel s = Ok r /\ is_suffix r s /\ st r = Ok None.
Proof.
  intros Hst fuel. induction fuel as [|f IH]; intros s Hn Hf; [lia|].
  simpl. destruct (Hst s Hn) as [E | (r & E & C)]; rewrite E.
  - exists s. split; [reflexivity|]. split; [apply is_suffix_refl|exact E].
  - pose proof (chops_length _ _ C) as L.
    destruct (IH r) as (r' & E' & S' & N'); [lia|lia|].
    exists r'. split; [exact E'|]. split; [|exact N'].
    eapply is_suffix_trans; [exact S'|apply chops_suffix; exact C].
Qed.

Lemma loop_ok st n s : step_ok st n -> (length s <= n)%nat ->
  exists r, loop st s = Ok r /\ is_suffix r s /\ st r = Ok None.
Proof. intros Hst Hn. unfold loop. eapply iterate_ok; [exact Hst|exact Hn|lia]. Qed.

(* ---- the regular expressions ---- *)

Lemma re_esc_plus_suffix excl d s : is_suffix (re_esc_plus excl d s) s.
Proof.
  remember (length s) as k eqn:Hk. revert s Hk.
  induction k as [k IH] using lt_wf_ind. intros s Hk.
  destruct s as [|c t]; [apply is_suffix_refl|].
  cbn [re_esc_plus].
  destruct (c =? 36).
  - destruct t as [|x t']; [apply is_suffix_refl|].
    destruct (d && (x =? 36)); [|apply is_suffix_refl].
    eapply is_suffix_trans; [eapply (IH (length t')); [simpl in Hk; lia|reflexivity]|].
    exists [c; x]; reflexivity.
  - destruct (c =? 92).
    + destruct t as [|x t']; [apply is_suffix_refl|].
      destruct (x =? 10); [apply is_suffix_refl|].
      eapply is_suffix_trans; [eapply (IH (length t')); [simpl in Hk; lia|reflexivity]|].
      exists [c; x]; reflexivity.
    + destruct (excl c); [apply is_suffix_refl|].
      eapply is_suffix_trans; [eapply (IH (length t)); [simpl in Hk; lia|reflexivity]|].
      apply is_suffix_cons.
Qed.

Lemma skip_re_esc_chops excl d s r : skip_re_esc excl d s = Some r -> chops s r.
Proof.
  unfold skip_re_esc.
  destruct (Nat.ltb_spec (length (re_esc_plus excl d s)) (length s)); [|discriminate].
  intro E; inversion E; subst. apply suffix_shorter_chops; [apply re_esc_plus_suffix|assumption].
Qed.

Lemma re_text_chops closing s r : re_text closing s = Some r -> chops s r.
Proof. apply skip_re_esc_chops. Qed.
Lemma re_sysv_chops closing s r : re_sysv closing s = Some r -> chops s r.
Proof. apply skip_re_esc_chops. Qed.
Lemma re_at_chops s r : re_at s = Some r -> chops s r.
Proof. apply skip_re_esc_chops. Qed.

Lemma re_index_chops s r : re_index s = Some r -> chops s r.
Proof.
  unfold re_index. destruct s as [|c t]; [discriminate|].
  destruct (N.eqb_spec c 91) as [->|]; [|discriminate].
  assert (Alt : skip_string [35; 93] t = Some r -> chops (91 :: t) r).
  { intro H. apply skip_string_some in H. subst t.
    exists [91; 35; 93]; split; [discriminate|reflexivity]. }
  destruct (span (fun c => (c =? 45) || (c =? 46) || is_digit c) t) as [ds r0] eqn:E.
  pose proof (next_bytes_eq _ _ _ _ E) as Ht.
  destruct ds as [|d ds]; [destruct (skip_byte 93 r0); exact Alt|].
  destruct (skip_byte 93 r0) as [r1|] eqn:E1; [|exact Alt].
  intro H; inversion H; subst r1. apply skip_byte_some in E1. subst r0 t.
  exists (91 :: (d :: ds) ++ [93]). split; [discriminate|].
  simpl. rewrite <- app_assoc. reflexivity.
Qed.

Lemma re_assign_op_chops s r : re_assign_op s = Some r -> chops s r.
Proof.
  unfold re_assign_op. destruct (skip_byte 61 s) as [r0|] eqn:E0.
  - intro H; inversion H; subst. eapply skip_byte_chops; exact E0.
  - destruct s as [|c t]; [discriminate|].
    destruct ((c =? 33) || (c =? 43) || (c =? 63)); [|discriminate].
    intro H. apply skip_byte_some in H. subst t.
    exists [c; 61]; split; [discriminate|reflexivity].
Qed.
