(* C19: example paths for the refutation witness that is left (Relpath and a ':' byte). *)
From PV Require Import Lib.Bytes Model.Paths Spec.PathDenote.
Open Scope N_scope.

Definition p_root : str := [47].            (* "/"   *)
Definition p_a : str := [97].               (* "a"   *)
