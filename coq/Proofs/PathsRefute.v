(* C19: the full statements that are false of the faithful model, and their witnesses. *)
From PV Require Import Lib.Bytes Model.Paths Spec.PathDenote.
Open Scope N_scope.

Definition p_root : str := [47].            (* "/"   *)
Definition p_rootdot : str := [47; 46].     (* "/."  *)
Definition p_a : str := [97].               (* "a"   *)
Definition p_dotslash : str := [46; 47].    (* "./"  *)
Definition p_ab : str := [97; 47; 98].      (* "a/b" *)
Definition p_bslash : str := [98; 47].      (* "b/"  *)
Definition p_b : str := [98].               (* "b"   *)
Definition p_abslash : str := [97; 47; 98; 47]. (* "a/b/" *)

(* CleanDot / CleanPath for ALL paths *)
Definition clean_dot_denotes_full : Prop := forall cwd p, denote cwd (clean_dot p) = denote cwd p.
Definition clean_path_denotes_full : Prop := forall cwd p, denote cwd (clean_path p) = denote cwd p.

Lemma clean_dot_denotes_refuted : ~ clean_dot_denotes_full.
Proof. intro H. specialize (H p_a p_rootdot). vm_compute in H. discriminate. Qed.

Lemma clean_path_denotes_refuted : ~ clean_path_denotes_full.
Proof. intro H. specialize (H p_a p_root). vm_compute in H. discriminate. Qed.

(* the predicates for ALL non-empty paths *)
Definition prefix_is_parts_prefix_full : Prop :=
  forall p q, p <> [] -> q <> [] -> has_prefix_path p q = path_prefixb q p.
Definition contains_is_parts_infix_full : Prop :=
  forall p q, p <> [] -> q <> [] -> contains_path p q = path_infixb q p.
Definition suffix_is_parts_suffix_full : Prop :=
  forall p q, p <> [] -> q <> [] -> has_suffix_path p q = path_suffixb q p.

Lemma prefix_is_parts_prefix_refuted : ~ prefix_is_parts_prefix_full.
Proof. intro H. specialize (H p_a p_dotslash). vm_compute in H. discriminate (H ltac:(discriminate) ltac:(discriminate)). Qed.

Lemma contains_is_parts_infix_refuted : ~ contains_is_parts_infix_full.
Proof. intro H. specialize (H p_ab p_bslash). vm_compute in H. discriminate (H ltac:(discriminate) ltac:(discriminate)). Qed.

Lemma suffix_is_parts_suffix_refuted : ~ suffix_is_parts_suffix_full.
Proof. intro H. specialize (H p_abslash p_b). vm_compute in H. discriminate (H ltac:(discriminate) ltac:(discriminate)). Qed.
