(* Proofs about Model/MkLineSplit.v and Model/MkTokensLexer.v: unescapeComment is
   exact, split recombines, tokenize partitions its text, the token lexer's Rest()
   is the concatenation of what is left. *)
From PV Require Import Lib.Bytes Gen.MkByteSets Model.MkLexPrim Model.MkLexer Model.MkTokensLexer
  Model.MkLineSplit Spec.MkPartition Proofs.MkLexPrim Proofs.MkLexer.
From Coq Require Import ZifyBool ZifyN ZifyNat.
Open Scope N_scope.

(* ---- unescape_hash ---- *)

Lemma uh_cons_ne c r : c <> 92 -> unescape_hash (c :: r) = c :: unescape_hash r.
Proof.
  intro H. cbn [unescape_hash]. destruct r as [|d r']; [reflexivity|].
  destruct (N.eqb_spec c 92); [congruence|]. reflexivity.
Qed.

Lemma uh_bs_hash r : unescape_hash (92 :: 35 :: r) = 35 :: unescape_hash r.
Proof. reflexivity. Qed.

Lemma uh_bs_other d r : d <> 35 -> unescape_hash (92 :: d :: r) = 92 :: unescape_hash (d :: r).
Proof.
  intro H. cbn [unescape_hash]. destruct (N.eqb_spec d 35); [congruence|]. reflexivity.
Qed.

(* a text that does not start with # keeps a preceding byte *)
Lemma uh_cons_nohash c r : (forall t, r <> 35 :: t) -> unescape_hash (c :: r) = c :: unescape_hash r.
Proof.
  intro H. cbn [unescape_hash]. destruct r as [|d r']; [reflexivity|].
  destruct (N.eqb_spec d 35) as [->|]; [exfalso; eapply H; reflexivity|].
  rewrite andb_false_r. reflexivity.
Qed.

Lemma uh_app_safe plain r : forallb comment_safe plain = true ->
  unescape_hash (plain ++ r) = plain ++ unescape_hash r.
Proof.
  induction plain as [|c p IH]; intro H; [reflexivity|].
  simpl in H. apply andb_true_iff in H as [Hc Hp].
  cbn [app]. rewrite uh_cons_ne; [rewrite IH by exact Hp; reflexivity|].
  intros ->. vm_compute in Hc. discriminate.
Qed.

Lemma comment_safe_false c : comment_safe c = false -> c = 92 \/ c = 35 \/ c = 91 \/ c = 10.
Proof.
  unfold comment_safe, unescape_unsafe_spec. cbn [in_set].
  destruct (N.eqb_spec 92 c); [auto|]. destruct (N.eqb_spec 35 c); [auto|].
  destruct (N.eqb_spec 91 c); [auto|]. destruct (N.eqb_spec 10 c); [auto|]. discriminate.
Qed.

Lemma comment_safe_hash : comment_safe 35 = false.
Proof. reflexivity. Qed.

(* ---- unescapeComment ---- *)

(* what a successful unescapeComment returns *)
Definition uc_exact (s main comment : str) : Prop :=
  exists pre, s = pre ++ comment /\ main = unescape_hash pre /\
    (comment = [] \/ exists t, comment = 35 :: t) /\ (forall t, pre <> 35 :: t).

Definition uc_post (s : str) (x : res (str * str)) : Prop :=
  match x with
  | Ok (main, comment) => uc_exact s main comment
  | Panic => In 10 s
  | OutOfFuel => False
  end.

Lemma uc_again inp w rest (x : res (str * str)) :
  inp <> [] -> (forall t, inp <> 35 :: t) ->
  (forall pre, (forall t, pre <> 35 :: t) -> unescape_hash (inp ++ pre) = w ++ unescape_hash pre) ->
  uc_post rest x ->
  uc_post (inp ++ rest) ('(m, c) <- x ;; Ok (w ++ m, c)).
Proof.
  intros Hne Hnh Hu Hx. destruct x as [[m c]| |]; cbn [bind uc_post] in *.
  - destruct Hx as (pre & -> & -> & Hc & Hp). exists (inp ++ pre).
    split; [rewrite app_assoc; reflexivity|]. split; [symmetry; apply Hu; exact Hp|].
    split; [exact Hc|]. intros t Ht. destruct inp as [|i is]; [congruence|].
    simpl in Ht. inversion Ht; subst. eapply Hnh; reflexivity.
  - exact Hx.
  - apply in_or_app; right; exact Hx.
Qed.

Lemma unescape_comment_loop_post : forall fuel s, (length s < fuel)%nat ->
  uc_post s (unescape_comment_loop fuel s).
Proof.
  induction fuel as [|f IH]; intros s Hf; [lia|].
  cbn [unescape_comment_loop].
  destruct (next_bytes comment_safe s) as [plain r] eqn:Esp.
  pose proof (next_bytes_eq _ _ _ _ Esp) as Eq.
  destruct plain as [|p0 plain'].
  2:{ (* a run of safe bytes *)
    subst s.
    assert (Hall : forallb comment_safe (p0 :: plain') = true).
    { pose proof (span_all comment_safe ((p0 :: plain') ++ r)) as H. unfold next_bytes in Esp.
      rewrite Esp in H. exact H. }
    apply (uc_again (p0 :: plain') (p0 :: plain') r); [discriminate| | |].
    - intros t Ht. inversion Ht; subst. cbn [forallb] in Hall.
      apply andb_true_iff in Hall as [Hh _]. rewrite comment_safe_hash in Hh. discriminate.
    - intros pre _. apply uh_app_safe; exact Hall.
    - apply IH. rewrite app_length in Hf. simpl in Hf. lia. }
  simpl in Eq. subst r.
  (* the first byte is not safe *)
  assert (Hhd : match s with c :: _ => comment_safe c = false | [] => True end).
  { pose proof (span_rest_head comment_safe s) as H. unfold next_bytes in Esp. rewrite Esp in H. exact H. }
  destruct (skip_string [92; 35] s) as [r1|] eqn:E1.
  { apply skip_string_some in E1. subst s.
    apply (uc_again [92; 35] [35] r1); [discriminate|intros t Ht; discriminate| |].
    - intros pre _. reflexivity.
    - apply IH. simpl in Hf. lia. }
  destruct (peek_is s 92 && (2 <=? length s)%nat) eqn:E2.
  { apply andb_true_iff in E2 as [Hp Hl]. apply Nat.leb_le in Hl.
    destruct s as [|c [|d r2]]; simpl in Hl; try lia.
    simpl in Hp. apply N.eqb_eq in Hp. subst c.
    rewrite skip_ok by (simpl; lia). cbn [bind skipn firstn].
    assert (Hd : d <> 35).
    { intros ->. simpl in E1. discriminate. }
    apply (uc_again [92; d] [92; d] r2); [discriminate|intros t Ht; discriminate| |].
    - intros pre Hpre. simpl app. rewrite uh_bs_other by exact Hd.
      rewrite (uh_cons_nohash d pre Hpre). reflexivity.
    - apply IH. simpl in Hf. lia. }
  destruct (skip_byte 92 s) as [r3|] eqn:E3.
  { apply skip_byte_some in E3. subst s.
    (* a single backslash at the very end *)
    destruct r3 as [|x r3']; [|simpl in E2; discriminate].
    apply (uc_again [92] [92] []); [discriminate|intros t Ht; discriminate| |].
    - intros pre Hpre. simpl app. apply uh_cons_nohash; exact Hpre.
    - apply IH. simpl in *. lia. }
  destruct (skip_string [91; 35] s) as [r4|] eqn:E4.
  { apply skip_string_some in E4. subst s.
    apply (uc_again [91; 35] [91; 35] r4); [discriminate|intros t Ht; discriminate| |].
    - intros pre _. simpl app. rewrite (uh_cons_ne 91) by discriminate.
      rewrite (uh_cons_ne 35) by discriminate. reflexivity.
    - apply IH. simpl in Hf. lia. }
  destruct (skip_byte 91 s) as [r5|] eqn:E5.
  { apply skip_byte_some in E5. subst s.
    apply (uc_again [91] [91] r5); [discriminate|intros t Ht; discriminate| |].
    - intros pre _. simpl app. rewrite (uh_cons_ne 91) by discriminate. reflexivity.
    - apply IH. simpl in Hf. lia. }
  destruct (peek_is s 35) eqn:E6.
  { destruct s as [|c t]; [discriminate|]. simpl in E6. apply N.eqb_eq in E6. subst c.
    exists []. split; [reflexivity|]. split; [reflexivity|]. split; [right; eexists; reflexivity|].
    intros t' Ht; discriminate. }
  destruct s as [|c t].
  { exists []. split; [reflexivity|]. split; [reflexivity|]. split; [left; reflexivity|].
    intros t' Ht; discriminate. }
  (* Panic: the byte is a newline *)
  cbn [uc_post]. left.
  destruct (comment_safe_false c Hhd) as [Hc|[Hc|[Hc|Hc]]]; subst c; try reflexivity; exfalso.
  - simpl in E3. discriminate.
  - simpl in E6. discriminate.
  - simpl in E5. discriminate.
Qed.

Lemma unescape_comment_post s : uc_post s (unescape_comment s).
Proof. unfold unescape_comment. apply unescape_comment_loop_post. lia. Qed.

Lemma unescape_comment_exact s main comment : unescape_comment s = Ok (main, comment) ->
  exists pre, s = pre ++ comment /\ main = unescape_hash pre /\ (comment = [] \/ exists t, comment = 35 :: t).
Proof.
  intro H. pose proof (unescape_comment_post s) as P. rewrite H in P.
  destruct P as (pre & H1 & H2 & H3 & _). exists pre; auto.
Qed.

Lemma unescape_comment_total s : ~ In 10 s -> exists main comment, unescape_comment s = Ok (main, comment).
Proof.
  intro Hn. pose proof (unescape_comment_post s) as P.
  destruct (unescape_comment s) as [[m c]| |]; cbn [uc_post] in P; [eauto|contradiction|contradiction].
Qed.

Lemma unescape_comment_fuel s : unescape_comment s <> OutOfFuel.
Proof.
  pose proof (unescape_comment_post s) as P. intro H. rewrite H in P. exact P.
Qed.

(* ---- split ---- *)

Definition comment_tail (r : split_result) : str :=
  if sr_has_comment r then 35 :: sr_comment r else [].

Lemma split_recombines text trim r : split text trim = Ok r ->
  exists pre, text = pre ++ comment_tail r /\
    (if trim then unescape_hash pre else pre) = sr_main r ++ sr_space_before_comment r /\
    forallb is_hspace (sr_space_before_comment r) = true /\
    rtrim_hspace (sr_main r ++ sr_space_before_comment r) = sr_main r /\
    (sr_has_comment r = false -> sr_comment r = []).
Proof.
  unfold split. destruct (peek_is text 9); [discriminate|].
  assert (K : forall mws comment pre, text = pre ++ comment ->
            (if trim then unescape_hash pre else pre) = mws ->
            (comment = [] \/ exists t, comment = 35 :: t) ->
            Ok (mk_split (rtrim_hspace mws) (skipn (length (rtrim_hspace mws)) mws) (nonempty comment)
                  (if nonempty comment then skipn 1 comment else comment)) = Ok r ->
            exists pre, text = pre ++ comment_tail r /\
              (if trim then unescape_hash pre else pre) = sr_main r ++ sr_space_before_comment r /\
              forallb is_hspace (sr_space_before_comment r) = true /\
              rtrim_hspace (sr_main r ++ sr_space_before_comment r) = sr_main r /\
              (sr_has_comment r = false -> sr_comment r = [])).
  { intros mws comment pre Ht Hm Hc Hr. inversion Hr; subst r; clear Hr. unfold comment_tail. cbn.
    exists pre. destruct (rtrim_hspace_app mws) as (sp & Esp & Hsp).
    assert (Ksp : skipn (length (rtrim_hspace mws)) mws = sp).
    { rewrite Esp at 2. rewrite skipn_app, Nat.sub_diag, skipn_all. reflexivity. }
    rewrite Ksp. split.
    - destruct Hc as [->|(t & ->)]; [exact Ht|]. cbn. exact Ht.
    - split; [rewrite Hm; exact Esp|]. split; [exact Hsp|].
      split; [rewrite <- Esp; reflexivity|].
      destruct comment; [reflexivity|discriminate]. }
  destruct trim.
  - destruct (unescape_comment text) as [[mws comment]| |] eqn:Eu; cbn [bind]; try discriminate.
    destruct (unescape_comment_exact _ _ _ Eu) as (pre & H1 & H2 & H3).
    intro Hr. eapply (K mws comment pre); eauto.
  - cbn [bind]. intro Hr. eapply (K text [] text); eauto. rewrite app_nil_r; reflexivity.
Qed.

Lemma split_total text trim : ~ In 10 text -> peek_is text 9 = false -> exists r, split text trim = Ok r.
Proof.
  intros Hn Ht. unfold split. rewrite Ht. destruct trim.
  - destruct (unescape_comment_total text Hn) as (m & c & ->). cbn [bind]. eauto.
  - cbn [bind]. eauto.
Qed.

Lemma split_fuel text trim : split text trim <> OutOfFuel.
Proof.
  unfold split. destruct (peek_is text 9); [discriminate|]. destruct trim; cbn [bind]; [|discriminate].
  pose proof (unescape_comment_fuel text). destruct (unescape_comment text) as [[m c]| |]; cbn [bind]; congruence.
Qed.

(* ---- tokenize ---- *)

Lemma parse_other_step_ok n : step_ok parse_other_step n.
Proof. apply orelse_ok; [apply st_string_ok; discriminate|apply st_bytes_ok]. Qed.

Lemma parse_other_none s : parse_other_step s = Ok None -> s = [] \/ exists t, s = 36 :: t.
Proof.
  unfold parse_other_step, orelse, st_string, st_bytes.
  destruct (skip_string [36; 36] s); [discriminate|].
  destruct s as [|c t]; [auto|]. cbn [span].
  destruct (N.eqb_spec c 36) as [->|]; [right; eauto|].
  cbn [negb]. destruct (span (fun b => negb (b =? 36)) t). discriminate.
Qed.

Lemma tokenize_loop_ok (E : exprfn) n : step_ok E n ->
  forall fuel s, (length s <= n)%nat -> (length s < fuel)%nat ->
  exists toks, tokenize_loop E fuel s = Ok toks /\ partitions toks [] s.
Proof.
  intros HE. induction fuel as [|f IH]; intros s Hn Hf; [lia|].
  cbn [tokenize_loop]. destruct s as [|c t].
  { exists []. split; [reflexivity|]. split; [reflexivity|constructor]. }
  assert (Next : forall text k r, text <> [] -> c :: t = text ++ r ->
            exists toks, (toks <- tokenize_loop E f r ;; Ok ((text, k) :: toks)) = Ok toks /\
                         partitions toks [] (c :: t)).
  { intros text k r Ne Eq.
    assert (L : (length r < length (c :: t))%nat).
    { rewrite Eq, app_length. destruct text; [congruence|simpl; lia]. }
    destruct (IH r) as (toks & E2 & P1 & P2); [lia|lia|].
    rewrite E2. cbn [bind]. exists ((text, k) :: toks). split; [reflexivity|]. split.
    - simpl. rewrite app_nil_r in *. rewrite P1. symmetry; exact Eq.
    - constructor; [exact Ne|exact P2]. }
  destruct (HE (c :: t) Hn) as [E0 | (s1 & E0 & C)]; rewrite E0; cbn [bind].
  - destruct (loop_ok parse_other_step n (c :: t) (parse_other_step_ok n) Hn) as (s1 & E1 & S1 & N1).
    rewrite E1. cbn [bind].
    destruct (since (c :: t) s1) as [|x other] eqn:Es.
    + (* nothing was consumed: the text starts with a lone $ *)
      assert (s1 = c :: t).
      { apply is_suffix_antisym_length; [exact S1|].
        pose proof (since_suffix _ _ S1) as Q. rewrite Es in Q. simpl in Q. rewrite Q. reflexivity. }
      subst s1. destruct (parse_other_none _ N1) as [?|(t' & Ht)]; [discriminate|].
      inversion Ht; subst. cbn [skip_byte]. rewrite N.eqb_refl.
      apply (Next [36] false t'); [discriminate|reflexivity].
    + apply (Next (x :: other) false s1); [discriminate|].
      rewrite <- Es. symmetry; apply since_suffix; exact S1.
  - apply (Next (since (c :: t) s1) true s1); [apply since_chops_nonempty; exact C|].
    symmetry; apply since_suffix, chops_suffix; exact C.
Qed.

Lemma tokenize_partition s : exists toks, tokenize s = Ok toks /\ partitions toks [] s.
Proof. unfold tokenize. apply (tokenize_loop_ok Expr (length s) (Expr_ok _)); lia. Qed.

(* ---- MkTokensLexer ---- *)

Lemma tl_rest_new toks : tl_rest (tl_new toks) = concat (map fst toks).
Proof.
  unfold tl_new, tl_next, tl_rest. destruct toks as [|[text [|]] rest]; reflexivity.
Qed.

Lemma tl_rest_next toks : tl_rest (tl_next toks) = concat (map fst toks).
Proof. exact (tl_rest_new toks). Qed.

Lemma tl_next_expr_rest m t m' : tl_next_expr m = Some (t, m') ->
  snd t = true /\ tl_rest m = fst t ++ tl_rest m'.
Proof.
  unfold tl_next_expr. destruct m as [[|c cur] [|[text [|]] rest]]; try discriminate.
  intro H; inversion H; subst. split; [reflexivity|].
  rewrite tl_rest_next. reflexivity.
Qed.

Lemma tl_skip_mixed_suffix : forall fuel k m m', tl_skip_mixed fuel k m = Ok m' ->
  is_suffix (tl_rest m') (tl_rest m).
Proof.
  induction fuel as [|f IH]; intros k m m' H; [discriminate|].
  cbn [tl_skip_mixed] in H. destruct (k <=? 0)%Z.
  { inversion H; subst. apply is_suffix_refl. }
  destruct (tl_next_expr m) as [[[text e] m1]|] eqn:En.
  - destruct (k - Z.of_nat (length text) <? 0)%Z; [discriminate|].
    apply tl_next_expr_rest in En as [_ Er]. rewrite Er.
    eapply is_suffix_trans; [eapply IH; exact H|apply is_suffix_app].
  - destruct (Z.min (Z.of_nat (length (fst m))) k <=? 0)%Z; [discriminate|].
    eapply is_suffix_trans; [eapply IH; exact H|].
    unfold tl_rest. cbn [fst snd].
    exists (firstn (Z.to_nat (Z.min (Z.of_nat (length (fst m))) k)) (fst m)).
    rewrite app_assoc, firstn_skipn. reflexivity.
Qed.

(* ---- getRawValueAlign ---- *)

Lemma raw_value_align_loop_fuel : forall fuel r p, (length p < fuel)%nat ->
  raw_value_align_loop fuel r p <> OutOfFuel.
Proof.
  induction fuel as [|f IH]; intros r p Hf; [lia|].
  cbn [raw_value_align_loop]. destruct p as [|pch p1]; [discriminate|].
  destruct (match r with rch :: _ => pch =? rch | [] => false end).
  - unfold skip. destruct (1 <=? length r)%nat; cbn [bind]; [|discriminate]. apply IH. simpl in Hf. lia.
  - destruct (is_hspace pch) eqn:Hh.
    + apply IH. pose proof (next_bytes_app is_hspace (pch :: p1)) as A.
      unfold next_bytes in *. cbn [span] in *. rewrite Hh in *.
      destruct (span is_hspace p1) as [a b] eqn:Es. cbn [fst snd] in *.
      apply (f_equal (@length N)) in A. rewrite app_length in A. simpl in A, Hf. simpl. lia.
    + destruct (negb (pch =? 35)); [discriminate|].
      destruct (skip_string [92; 35] r); [|discriminate]. apply IH. simpl in Hf. lia.
Qed.


Lemma get_raw_value_align_post raw parsed :
  match get_raw_value_align raw parsed with
  | Ok ra => exists r, raw = ra ++ r
  | Panic => True
  | OutOfFuel => False
  end.
Proof.
  unfold get_raw_value_align.
  pose proof (raw_value_align_loop_fuel (S (length parsed)) raw parsed ltac:(lia)) as F.
  destruct (raw_value_align_loop (S (length parsed)) raw parsed) as [r| |] eqn:E; cbn [bind]; [|congruence|exact I].
  exists (skipn (length raw - length r) raw). unfold since. symmetry. apply firstn_skipn.
Qed.
