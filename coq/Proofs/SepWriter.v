(* C01: SeparatorWriter -- the assertion in Separate() is unreachable for
   disciplined callers, and the writer only ever inserts newline bytes. *)
From Coq Require Import List NArith Bool Lia.
From PV Require Import Lib.Bytes Lib.PanicRes Model.SepWriter Spec.SepSpec.
Import ListNotations.
Open Scope N_scope.

Lemma insnl_snoc a o b : InsNL a o -> InsNL (a ++ [b]) (o ++ [b]).
Proof. induction 1; simpl; repeat constructor; auto. Qed.

Lemma insnl_snoc_nl a o : InsNL a o -> InsNL a (o ++ [10]).
Proof. induction 1; simpl; repeat constructor; auto. Qed.

Lemma insnl_length a o : InsNL a o -> (length a <= length o)%nat.
Proof. induction 1; simpl; lia. Qed.

Lemma insnl_filter a o : InsNL a o ->
  filter (fun b => negb (b =? 10)) o = filter (fun b => negb (b =? 10)) a.
Proof. induction 1; simpl; auto. destruct (negb (b =? 10)); congruence. Qed.

Lemma in_line_snoc s b : in_line (s ++ [b]) = negb (b =? 10).
Proof. unfold in_line. now rewrite last_last. Qed.

Definition no_nl (s : str) : Prop := forallb (fun b => negb (b =? 10)) s = true.

(* the invariant: `prev` is what the callers have written, k the number of Separate() calls *)
Record inv (prev : str) (k : nat) (w : sw) : Prop := {
  inv_range : sw_state w = 0 \/ sw_state w = 1 \/ sw_state w = 2 \/ sw_state w = 3;
  inv_state1 : sw_state w = 1 <-> in_line prev = true;
  inv_bytes : InsNL prev (sw_out w ++ sw_line w);
  inv_line : no_nl (sw_line w);
  inv_inline : in_line prev = false -> sw_line w = [];
  inv_len : (length (sw_out w ++ sw_line w) <= length prev + k)%nat;
  inv_pending : sw_state w = 2 -> (length (sw_out w ++ sw_line w) + 1 <= length prev + k)%nat
}.

Lemma inv_new : inv [] 0 sw_new.
Proof.
  constructor; simpl; auto.
  - split; [discriminate | intros H; discriminate H].
  - constructor.
  - reflexivity.
  - discriminate.
Qed.

Lemma no_nl_snoc s b : no_nl s -> (b =? 10) = false -> no_nl (s ++ [b]).
Proof. unfold no_nl. intros H E. rewrite forallb_app, H. simpl. now rewrite E. Qed.

Lemma inv_write_byte prev k w b : inv prev k w -> inv (prev ++ [b]) k (sw_write_byte w b).
Proof.
  intros [R S1 B L IL LEN PEN]. unfold sw_write_byte.
  destruct (b =? 10) eqn:E.
  - apply N.eqb_eq in E. subst b.
    constructor; simpl; rewrite ?app_nil_r, ?in_line_snoc; simpl.
    + destruct (sw_state w =? 1); auto.
    + split; [|discriminate]. destruct (sw_state w =? 1); discriminate.
    + rewrite app_assoc. now apply insnl_snoc.
    + reflexivity.
    + reflexivity.
    + rewrite app_assoc, !app_length. simpl. rewrite app_length in LEN. lia.
    + destruct (sw_state w =? 1); discriminate.
  - destruct (sw_state w =? 2) eqn:E2.
    + apply N.eqb_eq in E2.
      assert (NI : in_line prev = false).
      { destruct (in_line prev) eqn:I; auto. pose proof (proj2 S1 eq_refl). congruence. }
      specialize (IL NI). specialize (PEN E2). rewrite IL in *.
      constructor; simpl; rewrite ?in_line_snoc, ?E; simpl.
      * auto.
      * split; auto.
      * rewrite app_nil_r in B. rewrite <- app_assoc. simpl.
        replace (sw_out w ++ 10 :: [b]) with ((sw_out w ++ [10]) ++ [b]) by (now rewrite <- app_assoc).
        apply insnl_snoc. now apply insnl_snoc_nl.
      * unfold no_nl. simpl. now rewrite E.
      * discriminate.
      * rewrite !app_length in *. simpl in *. lia.
      * discriminate.
    + constructor; simpl; rewrite ?in_line_snoc, ?E; simpl.
      * auto.
      * split; auto.
      * rewrite app_assoc. now apply insnl_snoc.
      * now apply no_nl_snoc.
      * discriminate.
      * rewrite app_assoc, !app_length. simpl. rewrite app_length in LEN. lia.
      * discriminate.
Qed.

Lemma inv_write s : forall prev k w, inv prev k w -> inv (prev ++ s) k (sw_write w s).
Proof.
  induction s as [|b s IH]; intros prev k w H; simpl.
  - now rewrite app_nil_r.
  - replace (prev ++ b :: s) with ((prev ++ [b]) ++ s) by (now rewrite <- app_assoc).
    apply IH. now apply inv_write_byte.
Qed.

Lemma inv_flush prev k w : inv prev k w -> inv prev k (sw_flush w).
Proof.
  intros [R S1 B L IL LEN PEN]. constructor; simpl; rewrite ?app_nil_r; auto. reflexivity.
Qed.

Lemma inv_separate prev k w : inv prev k w -> in_line prev = false ->
  exists w', sw_separate w = Ok w' /\ inv prev (S k) w'.
Proof.
  intros [R S1 B L IL LEN PEN] NI. unfold sw_separate.
  destruct (sw_state w =? 1) eqn:E1.
  - apply N.eqb_eq in E1. apply S1 in E1. congruence.
  - eexists; split; [reflexivity|].
    apply N.eqb_neq in E1.
    destruct (sw_state w <? 2) eqn:E2.
    + constructor; simpl; auto.
      * split; [discriminate|]. intros I; congruence.
      * lia.
      * intros _. lia.
    + constructor; auto.
      * lia.
      * intros P. specialize (PEN P). lia.
Qed.

Lemma separate_panics prev k w : inv prev k w -> in_line prev = true ->
  sw_separate w = Panic 5.
Proof.
  intros [R S1 _ _ _ _ _] I. apply S1 in I. unfold sw_separate. now rewrite I.
Qed.

(* exact characterisation of the panic *)
Lemma run_from_char : forall evs prev k w, inv prev k w ->
  (disciplined prev evs = true ->
     exists w', sw_run_from w evs = Ok w' /\ inv (prev ++ written evs) (k + count_sep evs) w') /\
  (disciplined prev evs = false -> sw_run_from w evs = Panic 5).
Proof.
  induction evs as [|e evs IH]; intros prev k w H.
  - split; [|discriminate]. intros _. exists w. split; [reflexivity|].
    unfold written, count_sep. simpl. now rewrite app_nil_r, Nat.add_0_r.
  - destruct e as [s|s| |].
    + (* EWrite *)
      cbn [disciplined sw_run_from sw_step bind ev_bytes].
      pose proof (inv_write s prev k w H) as H1.
      destruct (IH (prev ++ s) k _ H1) as [A B]. split.
      * intros D. destruct (A D) as (w' & E & I). exists w'. split; auto.
        unfold written in *. cbn [map concat ev_bytes]. now rewrite app_assoc.
      * auto.
    + (* EWriteLine *)
      cbn [disciplined sw_run_from sw_step bind ev_bytes].
      pose proof (inv_write_byte _ k _ 10 (inv_write s prev k w H)) as H1.
      rewrite <- app_assoc in H1.
      destruct (IH (prev ++ s ++ [10]) k _ H1) as [A B]. split.
      * intros D. destruct (A D) as (w' & E & I). exists w'. split; auto.
        unfold written in *. cbn [map concat ev_bytes]. now rewrite app_assoc.
      * auto.
    + (* ESeparate *)
      cbn [disciplined sw_run_from sw_step].
      destruct (in_line prev) eqn:I; cbn [negb andb].
      * split; [discriminate|]. intros _. now rewrite (separate_panics prev k w H I).
      * destruct (inv_separate prev k w H I) as (w1 & E1 & H1). rewrite E1. cbn [bind].
        destruct (IH prev (S k) w1 H1) as [A B]. split; auto.
        intros D. destruct (A D) as (w' & E & J). exists w'. split; auto.
        unfold written, count_sep in *. cbn [map concat ev_bytes filter length app].
        now rewrite Nat.add_succ_r.
    + (* EFlush *)
      cbn [disciplined sw_run_from sw_step bind ev_bytes].
      pose proof (inv_flush prev k w H) as H1. rewrite app_nil_r.
      destruct (IH prev k _ H1) as [A B]. split; auto.
Qed.

(* no disciplined event sequence reaches the assertion *)
Theorem separator_writer_safe : forall evs,
  disciplined [] evs = true -> exists w, sw_run evs = Ok w.
Proof.
  intros evs D. destruct (run_from_char evs [] 0%nat sw_new inv_new) as [A _].
  destruct (A D) as (w & E & _). eauto.
Qed.

(* ... and the discipline is exactly what is needed *)
Theorem separator_writer_panics_iff : forall evs,
  sw_run evs = Panic 5 <-> disciplined [] evs = false.
Proof.
  intros evs. destruct (run_from_char evs [] 0%nat sw_new inv_new) as [A B]. split.
  - intros P. destruct (disciplined [] evs) eqn:D; auto.
    destruct (A eq_refl) as (w & E & _). unfold sw_run in P. congruence.
  - exact B.
Qed.

(* what reaches the io.Writer (plus the pending buffer) is what was written with
   newlines inserted: no byte lost, none invented except '\n', at most one per
   Separate(); the state stays in 0..3 and is 1 exactly in the middle of a line;
   the pending buffer holds no newline and is empty at every line start *)
Theorem separator_writer_bytes : forall evs w, sw_run evs = Ok w ->
  InsNL (written evs) (sw_out w ++ sw_line w) /\
  filter (fun b => negb (b =? 10)) (sw_out w ++ sw_line w)
    = filter (fun b => negb (b =? 10)) (written evs) /\
  (length (written evs) <= length (sw_out w ++ sw_line w) <= length (written evs) + count_sep evs)%nat /\
  (sw_state w = 0 \/ sw_state w = 1 \/ sw_state w = 2 \/ sw_state w = 3) /\
  (sw_state w = 1 <-> in_line (written evs) = true) /\
  no_nl (sw_line w) /\
  (in_line (written evs) = false -> sw_line w = []).
Proof.
  intros evs w E. destruct (run_from_char evs [] 0%nat sw_new inv_new) as [A B].
  destruct (disciplined [] evs) eqn:D.
  - destruct (A eq_refl) as (w' & E' & [R S1 Bt L IL LEN PEN]). unfold sw_run in E.
    assert (w' = w) by congruence. subst w'. simpl in *.
    repeat split; auto.
    + now apply insnl_filter.
    + now apply insnl_length.
    + apply S1.
    + apply S1.
  - unfold sw_run in E. rewrite (B eq_refl) in E. discriminate.
Qed.

(* after Flush() nothing is pending *)
Lemma flush_empties w : sw_line (sw_flush w) = [].
Proof. reflexivity. Qed.

(* the calls that pkglint's Logger makes are disciplined *)
Lemma last_app_cons (p : str) b s d : last (p ++ b :: s) d = last (b :: s) d.
Proof.
  induction p as [|a p IH]; [reflexivity|].
  change ((a :: p) ++ b :: s) with (a :: (p ++ b :: s)).
  destruct (p ++ b :: s) eqn:E; [destruct p; discriminate|]. rewrite <- IH. reflexivity.
Qed.

Lemma in_line_app_complete p s : in_line p = false -> in_line s = false -> in_line (p ++ s) = false.
Proof.
  intros P S. destruct s as [|b s]; [now rewrite app_nil_r|].
  unfold in_line in *. now rewrite last_app_cons.
Qed.

Lemma logger_disciplined : forall cs prev,
  in_line prev = false -> forallb log_call_ok cs = true ->
  disciplined prev (flat_map log_events cs) = true.
Proof.
  induction cs as [|c cs IH]; intros prev P OK; [reflexivity|].
  simpl in OK. apply andb_true_iff in OK. destruct OK as [O1 O2].
  destruct c as [s|s|s| |]; cbn [flat_map log_events app disciplined ev_bytes].
  - apply IH; auto. apply in_line_app_complete; auto.
    simpl in O1. now destruct (in_line s).
  - apply IH; auto. rewrite app_assoc. apply in_line_snoc.
  - apply IH; auto. rewrite !app_assoc. apply in_line_snoc.
  - rewrite P. simpl. apply IH; auto.
  - rewrite app_nil_r. apply IH; auto.
Qed.

Theorem logger_calls_safe : forall cs,
  forallb log_call_ok cs = true -> exists w, sw_run (flat_map log_events cs) = Ok w.
Proof.
  intros cs OK. apply separator_writer_safe. apply logger_disciplined; auto.
Qed.
