(* C03: several in-memory views of one file.  A view = the lines of one load of
   the file; its history ends with a save.  Serial views (the second one is loaded
   from what the first one saved) compose; interleaved views (both loaded from the
   same bytes, saved one after the other) lose the first view's update. *)
From PV Require Import Lib.Bytes Spec.ApplyLog Model.Autofix Proofs.ApplyLog Proofs.Autofix.
From Coq Require Import Lia.
Open Scope Z_scope.

(* one view: load [content] (any grouping into logical lines), run the events, save *)
Definition view_run (o : opts) (file content : str) (groups : list (list str * str)) (evs : list event)
  : result state := run o [] (evs ++ [ESave]) (init_state file groups).

Definition view_disk (file before : str) (st : state) : str := disk_after file before None (s_ops st).

Lemma firstn_app_exact' {A} (a b : list A) : firstn (length a) (a ++ b) = a.
Proof. induction a; simpl; [reflexivity|]. f_equal. assumption. Qed.

Lemma skipn_app_exact' {A} (a b : list A) : skipn (length a) (a ++ b) = b.
Proof. induction a; simpl; auto. Qed.

Theorem multi_view_serial o file content groupsA evsA stA groupsB evsB stB :
  o_autofix o = true ->
  wf_groups content groupsA -> Forall no_sort_event evsA ->
  view_run o file content groupsA evsA = Ok stA ->
  let mid := view_disk file content stA in
  wf_groups mid groupsB -> Forall no_sort_event evsB ->
  view_run o file mid groupsB evsB = Ok stB ->
  entries_of file (s_log stA) <> [] -> entries_of file (s_log stB) <> [] ->
  consistent_hist 1 content (entries_of file (s_log stA) ++ entries_of file (s_log stB))
                  (view_disk file mid stB) = true.
Proof.
  intros Ha WA NA RA mid WB NB RB NeA NeB.
  destruct (disk_reach o [] file content groupsA evsA stA Ha WA NA RA) as (HsA & st & Re & Hflat).
  pose proof (disk_consistent_with_log o [] file mid groupsB evsB stB Ha WB NB RB) as CB.
  fold (view_disk file content stA) in Hflat. fold mid in Hflat. fold (view_disk file mid stB) in CB.
  set (la := entries_of file (s_log stA)) in *. set (lb := entries_of file (s_log stB)) in *.
  cbn [consistent_hist]. apply orb_true_iff. right.
  apply existsb_exists. exists (length la). split.
  - apply in_seq. rewrite app_length. destruct la; [congruence|]. destruct lb; [congruence|]. cbn. lia.
  - rewrite firstn_app_exact', skipn_app_exact', HsA. cbn [negb andb].
    apply existsb_exists. exists st. split; [apply reach_run_log; exact Re|]. rewrite Hflat, CB. reflexivity.
Qed.

(* interleaved views: both are loaded from the same bytes; the first one saves, then
   the second one (which never saw the first one's change) saves *)
Definition multi_view_interleaved_full : Prop :=
  forall o file content groupsA evsA stA groupsB evsB stB,
    o_autofix o = true ->
    wf_groups content groupsA -> Forall no_sort_event evsA -> view_run o file content groupsA evsA = Ok stA ->
    wf_groups content groupsB -> Forall no_sort_event evsB -> view_run o file content groupsB evsB = Ok stB ->
    consistent_hist 2 content (entries_of file (s_log stA) ++ entries_of file (s_log stB))
                    (disk_after file content None (s_ops stA ++ s_ops stB)) = true.

Definition iv_file : str := [47;102]%N.
Definition iv_content : str := [97;10;98;10]%N.                                  (* "a\nb\n" *)
Definition iv_groups : list (list str * str) := [([[97;10]%N], [97]%N); ([[98;10]%N], [98]%N)].
Definition iv_evsA : list event := [ETxn (Txn 0 [68;46]%N [OReplaceAfter [] [97]%N [120]%N])].   (* a -> x in line 1 *)
Definition iv_evsB : list event := [ETxn (Txn 1 [68;46]%N [OReplaceAfter [] [98]%N [121]%N])].   (* b -> y in line 2 *)

(* the lost update: the disk holds "a\ny\n", the log says a->x in line 1 and b->y in line 2 *)
Theorem multi_view_interleaved_refuted : ~ multi_view_interleaved_full.
Proof.
  intro H.
  destruct (view_run (Opts true false []) iv_file iv_content iv_groups iv_evsA) as [stA|] eqn:RA;
    [|vm_compute in RA; discriminate].
  destruct (view_run (Opts true false []) iv_file iv_content iv_groups iv_evsB) as [stB|] eqn:RB;
    [|vm_compute in RB; discriminate].
  assert (W : wf_groups iv_content iv_groups).
  { split; [vm_compute; reflexivity|repeat constructor; discriminate]. }
  specialize (H (Opts true false []) iv_file iv_content iv_groups iv_evsA stA iv_groups iv_evsB stB
                eq_refl W ltac:(repeat constructor) RA W ltac:(repeat constructor) RB).
  vm_compute in RA. inversion RA; subst stA. vm_compute in RB. inversion RB; subst stB.
  vm_compute in H. discriminate.
Qed.

(* ---------- any number of serial views ---------- *)

(* [serial content log final n]: n+1 views one after the other, each loaded from what
   the previous one saved; [log] = the concatenated AUTOFIX lines, [final] = the bytes at the end *)
Inductive serial (o : opts) (file : str) : str -> list entry -> str -> nat -> Prop :=
| serial_one content groups evs st :
    wf_groups content groups -> Forall no_sort_event evs ->
    view_run o file content groups evs = Ok st ->
    serial o file content (entries_of file (s_log st)) (view_disk file content st) 0
| serial_cons content groups evs st log final n :
    wf_groups content groups -> Forall no_sort_event evs ->
    view_run o file content groups evs = Ok st ->
    entries_of file (s_log st) <> [] -> log <> [] ->
    serial o file (view_disk file content st) log final n ->
    serial o file content (entries_of file (s_log st) ++ log) final (S n).

Theorem multi_view_serial_n o file content log final n :
  o_autofix o = true -> serial o file content log final n ->
  consistent_hist n content log final = true.
Proof.
  intros Ha S. induction S as [content groups evs st W N R|content groups evs st log final n W N R NeA NeB S IH].
  - cbn [consistent_hist]. rewrite orb_false_r.
    exact (disk_consistent_with_log o [] file content groups evs st Ha W N R).
  - destruct (disk_reach o [] file content groups evs st Ha W N R) as (HsA & blocks & Re & Hflat).
    fold (view_disk file content st) in Hflat.
    set (la := entries_of file (s_log st)) in *.
    cbn [consistent_hist]. apply orb_true_iff. right.
    apply existsb_exists. exists (length la). split.
    + apply in_seq. rewrite app_length. destruct la; [congruence|]. destruct log; [congruence|]. cbn. lia.
    + rewrite firstn_app_exact', skipn_app_exact', HsA. cbn [negb andb].
      apply existsb_exists. exists blocks. split; [apply reach_run_log; exact Re|]. rewrite Hflat. exact IH.
Qed.
