(* C17: conditional sections never produce a verdict. *)
From PV Require Import Lib.Bytes Model.Redundant Model.RedundantCond Spec.VerdictSound.

Definition plain (p : program) : cprogram := map (pair false) p.

Lemma check_line_c_false s i l : check_line_c s i false l = check_line s i l.
Proof. reflexivity. Qed.

Lemma check_from_c_false p : forall s i,
  match check_from_c s i (plain p) with
  | Ok per => Ok (concat per) | Panic => Panic | OutOfFuel => OutOfFuel
  end = check_from s i p.
Proof.
  induction p as [|l p IH]; intros s i; simpl; [reflexivity|].
  rewrite check_line_c_false. destruct (check_line s i l) as [[s' vs]| |]; try reflexivity.
  specialize (IH s' (S i)). destruct (check_from_c s' (S i) (plain p)); simpl in *; rewrite <- IH; reflexivity.
Qed.

(* without conditional sections this is the model of Model/Redundant.v *)
Theorem check_c_plain p : check_c (plain p) = check p.
Proof. unfold check_c, check_lines_c, check. apply check_from_c_false. Qed.

Lemma handle_varassign_cond s i a s' vs :
  handle_varassign s i a true = Ok (s', vs) -> vs = [].
Proof.
  unfold handle_varassign. destruct (rev (v_writes (vi_var (s_vars s (a_var a))))).
  - intro H; inversion H; reflexivity.
  - rewrite Bool.orb_true_r. intro H; inversion H; reflexivity.
Qed.

Lemma check_line_c_true s i l s' vs : check_line_c s i true l = Ok (s', vs) -> vs = [].
Proof.
  unfold check_line_c. destruct (update_include_path s l) as [s1| |]; try discriminate.
  destruct (l_body l) as [a|]; [|intro H; inversion H; reflexivity].
  destruct (handle_varassign s1 i a true) as [[s2 vs2]| |] eqn:E; try discriminate.
  apply handle_varassign_cond in E. subst vs2.
  destruct (handle_expr s2 a); try discriminate. intro H; inversion H; reflexivity.
Qed.

(* a line inside a conditional section gets no verdict and causes none *)
Theorem conditional_line_silent : forall p s idx per i l,
  check_from_c s idx p = Ok per -> nth_error p i = Some (true, l) -> nth_error per i = Some [].
Proof.
  induction p as [|[c l0] p IH]; intros s idx per i l H Hn; [destruct i; discriminate|].
  simpl in H. destruct (check_line_c s idx c l0) as [[s' vs]| |] eqn:E; try discriminate.
  destruct (check_from_c s' (S idx) p) as [rest| |] eqn:E2; try discriminate.
  inversion H; subst per. destruct i as [|i]; simpl in *.
  - inversion Hn; subst. apply check_line_c_true in E. subst; reflexivity.
  - eapply IH; eassumption.
Qed.

(* ----- conditional is sticky: after a conditional assignment to x, no assignment to x gets or causes a verdict ----- *)

Definition is_cond (s : scope) (x : var) : bool := v_cond (vi_var (s_vars s x)).

Lemma var_update_constant_cond v a : v_cond (var_update_constant v a) = v_cond v.
Proof.
  unfold var_update_constant. destruct (cstate_eqb (v_state v) C3); [reflexivity|].
  destruct (v_cond v) eqn:E; [reflexivity|].
  destruct (a_op a); simpl; try reflexivity;
    repeat match goal with |- context [if ?b then _ else _] => destruct b end; simpl; reflexivity.
Qed.

Lemma var_write_cond v i a c : v_cond (var_write v i a c) = v_cond v || c.
Proof. unfold var_write. rewrite var_update_constant_cond. reflexivity. Qed.

Lemma upd_same {A} (m : var -> A) k x : upd m k x k = x.
Proof. unfold upd. rewrite str_eqb_refl. reflexivity. Qed.

Lemma handle_varassign_is_cond s i a c s' vs x :
  handle_varassign s i a c = Ok (s', vs) ->
  is_cond s' x = if str_eqb (a_var a) x then is_cond s x || c else is_cond s x.
Proof.
  intro H.
  assert (F : forall vs0, Ok (mkScope (upd (s_vars s) (a_var a)
                (mkInfo (var_write (vi_var (s_vars s (a_var a))) i a c)
                        (vi_paths (s_vars s (a_var a)) ++ [s_path s]) AWrite)) (s_path s)
                (set_add (s_names s) (a_var a)), vs0) = Ok (s', vs) ->
              is_cond s' x = if str_eqb (a_var a) x then is_cond s x || c else is_cond s x).
  { intros vs0 E. inversion E; subst s'. unfold is_cond; simpl. unfold upd.
    destruct (str_eqb (a_var a) x) eqn:Ex; [|reflexivity].
    apply str_eqb_spec in Ex. subst x. simpl. apply var_write_cond. }
  revert H. unfold handle_varassign.
  repeat match goal with
         | |- Ok _ = Ok _ -> _ => apply F
         | |- Panic = Ok _ -> _ => discriminate
         | |- OutOfFuel = Ok _ -> _ => discriminate
         | |- context [match ?e with _ => _ end] =>
             match e with
             | context [match _ with _ => _ end] => fail 1
             | _ => destruct e
             end
         end.
Qed.

Lemma read_one_is_cond s w x : is_cond (read_one s w) x = is_cond s x.
Proof.
  unfold is_cond, read_one; simpl. unfold upd. destruct (str_eqb w x) eqn:E; [|reflexivity].
  apply str_eqb_spec in E; subst x. reflexivity.
Qed.

Lemma fold_read_is_cond ws : forall s x, is_cond (fold_left read_one ws s) x = is_cond s x.
Proof. induction ws as [|w ws IH]; intros s x; simpl; [reflexivity|]. rewrite IH. apply read_one_is_cond. Qed.

Lemma handle_expr_is_cond s a s' x : handle_expr s a = Ok s' -> is_cond s' x = is_cond s x.
Proof.
  unfold handle_expr.
  destruct (a_op a);
    try (intro H; inversion H; subst; apply fold_read_is_cond);
    (destruct (closure _ _ _) as [c| |]; try discriminate; intro H; inversion H; subst;
     rewrite fold_read_is_cond; apply fold_read_is_cond).
Qed.

Lemma update_include_path_is_cond s l s' x : update_include_path s l = Ok s' -> is_cond s' x = is_cond s x.
Proof.
  unfold update_include_path. destruct (l_lineno l =? 1)%N.
  - intro H; inversion H; reflexivity.
  - destruct (ipath_pop_until (s_path s) (l_file l)); try discriminate. intro H; inversion H; reflexivity.
Qed.

Lemma check_line_c_is_cond s i c l s' vs x :
  check_line_c s i c l = Ok (s', vs) -> is_cond s' x = is_cond s x || (c && assigns x l).
Proof.
  unfold check_line_c, assigns.
  destruct (update_include_path s l) as [s1| |] eqn:E1; try discriminate.
  rewrite <- (update_include_path_is_cond s l s1 x E1).
  destruct (l_body l) as [a|].
  - destruct (handle_varassign s1 i a c) as [[s2 vs2]| |] eqn:E2; try discriminate.
    destruct (handle_expr s2 a) as [s3| |] eqn:E3; try discriminate.
    intro H; inversion H; subst.
    rewrite (handle_expr_is_cond _ _ _ x E3), (handle_varassign_is_cond _ _ _ _ _ _ x E2).
    destruct (str_eqb (a_var a) x); [rewrite Bool.andb_true_r; reflexivity|]. rewrite Bool.andb_false_r, Bool.orb_false_r. reflexivity.
  - intro H; inversion H; subst. rewrite Bool.andb_false_r, Bool.orb_false_r. reflexivity.
Qed.

Lemma handle_varassign_sticky s i a c s' vs :
  is_cond s (a_var a) = true -> handle_varassign s i a c = Ok (s', vs) -> vs = [].
Proof.
  unfold is_cond, handle_varassign. intro Hc.
  destruct (rev (v_writes (vi_var (s_vars s (a_var a))))).
  - intro H; inversion H; reflexivity.
  - rewrite Hc. simpl. intro H; inversion H; reflexivity.
Qed.

Lemma check_line_c_sticky s i c l s' vs x :
  is_cond s x = true -> assigns x l = true -> check_line_c s i c l = Ok (s', vs) -> vs = [].
Proof.
  unfold check_line_c, assigns. intros Hc Ha.
  destruct (update_include_path s l) as [s1| |] eqn:E1; try discriminate.
  rewrite <- (update_include_path_is_cond s l s1 x E1) in Hc.
  destruct (l_body l) as [a|]; [|discriminate].
  apply str_eqb_spec in Ha. subst x.
  destruct (handle_varassign s1 i a c) as [[s2 vs2]| |] eqn:E2; try discriminate.
  apply (handle_varassign_sticky _ _ _ _ _ _ Hc) in E2. subst vs2.
  destruct (handle_expr s2 a); try discriminate. intro H; inversion H; reflexivity.
Qed.

(* x has been assigned inside a conditional section *)
Definition cond_written (x : var) (pre : cprogram) : bool :=
  existsb (fun cl => fst cl && assigns x (snd cl)) pre.

Theorem conditional_is_sticky : forall pre s idx c l post per x,
  check_from_c s idx (pre ++ (c, l) :: post) = Ok per ->
  assigns x l = true -> is_cond s x || cond_written x pre = true ->
  nth_error per (length pre) = Some [].
Proof.
  induction pre as [|[c0 l0] pre IH]; intros s idx c l post per x H Ha Hc; simpl in H.
  - destruct (check_line_c s idx c l) as [[s' vs]| |] eqn:E; try discriminate.
    destruct (check_from_c s' (S idx) post); try discriminate.
    inversion H; subst per. simpl in *. rewrite Bool.orb_false_r in Hc.
    apply (check_line_c_sticky _ _ _ _ _ _ x Hc Ha) in E. subst; reflexivity.
  - destruct (check_line_c s idx c0 l0) as [[s' vs]| |] eqn:E; try discriminate.
    destruct (check_from_c s' (S idx) (pre ++ (c, l) :: post)) as [rest| |] eqn:E2; try discriminate.
    inversion H; subst per. simpl. eapply IH; [exact E2 | exact Ha |].
    rewrite (check_line_c_is_cond _ _ _ _ _ _ x E). simpl in Hc.
    destruct (is_cond s x), (c0 && assigns x l0), (cond_written x pre); simpl in *; try reflexivity; discriminate.
Qed.

Corollary conditional_is_sticky_program pre c l post per x :
  check_lines_c (pre ++ (c, l) :: post) = Ok per ->
  assigns x l = true -> cond_written x pre = true ->
  nth_error per (length pre) = Some [].
Proof.
  intros H Ha Hc. eapply conditional_is_sticky; [exact H | exact Ha |]. rewrite Hc. apply Bool.orb_true_r.
Qed.

Corollary conditional_line_silent_program p per i l :
  check_lines_c p = Ok per -> nth_error p i = Some (true, l) -> nth_error per i = Some [].
Proof. apply conditional_line_silent. Qed.
