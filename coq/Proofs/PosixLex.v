(* The lexer of pkglint reads the text of a supported tree as the terminal
   string the tree is meant to be: by induction on the tree, with the lexer
   state after each construct. *)
From Coq Require Import NArith ZArith List Bool Lia.
From PV Require Import Lib.Bytes Gen.ShellGrammar Model.ShellLex Spec.PosixSh
  Proofs.ShellLex Proofs.PosixGrammar.
Import ListNotations.
Open Scope Z_scope.

Definition toks (l : list ptok) : list tok := map ptok_tok l.

Lemma toks_app a b : toks (a ++ b) = toks a ++ toks b.
Proof. apply map_app. Qed.

(* [run l a f c i a' f' c' i']: in the state (atCommandStart, sinceFor, sinceCase,
   inCasePattern) = (a, f, c, i) with no pending io operator, the lexer turns the
   tokens of l, whatever follows them, into the terminals of l and ends in
   (a', f', c', i') *)
Definition run (l : list ptok) (a : bool) (f c : Z) (i : bool) (a' : bool) (f' c' : Z) (i' : bool) : Prop :=
  forall rest, steps (mkLexer [] (toks l ++ rest) a f c i) (tm l) (mkLexer [] rest a' f' c' i').

Lemma run_nil a f c i : run [] a f c i a f c i.
Proof. intro rest. apply steps_nil. Qed.

Lemma run_app l1 l2 a f c i a1 f1 c1 i1 a2 f2 c2 i2 :
  run l1 a f c i a1 f1 c1 i1 -> run l2 a1 f1 c1 i1 a2 f2 c2 i2 -> run (l1 ++ l2) a f c i a2 f2 c2 i2.
Proof.
  intros H1 H2 rest. rewrite toks_app, <- app_assoc, tm_app.
  eapply steps_app; [apply H1 | apply H2].
Qed.

Lemma run_one t x a f c i a' f' c' i' :
  (forall rest, Lex (mkLexer [] (t :: rest) a f c i) = LexTok x (mkLexer [] rest a' f' c' i')) ->
  run [P1 t x] a f c i a' f' c' i'.
Proof. intros H rest. apply steps_one. apply H. Qed.

Lemma run_cons t x l a f c i a1 f1 c1 i1 a2 f2 c2 i2 :
  (forall rest, Lex (mkLexer [] (t :: rest) a f c i) = LexTok x (mkLexer [] rest a1 f1 c1 i1)) ->
  run l a1 f1 c1 i1 a2 f2 c2 i2 -> run (P1 t x :: l) a f c i a2 f2 c2 i2.
Proof. intros H1 H2. apply (run_app [P1 t x] l) with a1 f1 c1 i1; [apply run_one; exact H1 | exact H2]. Qed.

Lemma run_snoc t x l a f c i a1 f1 c1 i1 a2 f2 c2 i2 :
  run l a f c i a1 f1 c1 i1 ->
  (forall rest, Lex (mkLexer [] (t :: rest) a1 f1 c1 i1) = LexTok x (mkLexer [] rest a2 f2 c2 i2)) ->
  run (l ++ [P1 t x]) a f c i a2 f2 c2 i2.
Proof. intros H1 H2. apply run_app with a1 f1 c1 i1; [exact H1 | apply run_one; exact H2]. Qed.

(* ---------- redirections, word lists, simple commands ---------- *)

Lemma redir_ok_inv r : redir_ok r = true ->
  arg_ok (r_target r) = true /\
  match r_fd r with None => True | Some ds => ds <> [] /\ forallb is_digit ds = true end.
Proof.
  unfold redir_ok, fd_ok. intro H. apply andb_true_iff in H. destruct H as [Hfd Ht]. split; [exact Ht |].
  destruct (r_fd r) as [[| d ds] |]; [discriminate | split; [discriminate | exact Hfd] | exact I].
Qed.

Lemma run_redir r a f c i :
  redir_ok r = true -> safe f c -> run (print_redir r) a f c i false (bumpv f) (bumpv c) i.
Proof.
  intros Hr Hs rest. destruct (redir_ok_inv r Hr) as [Ht Hfd].
  destruct r as [fd o t]. unfold print_redir. cbn [r_fd r_op r_target] in *.
  destruct fd as [ds |].
  - destruct Hfd as [Hne Hd].
    change (tm [P2 (mkTok (ds ++ rop_text o) WkPlain) tkIO_NUMBER (rop_term o); P1 t tkWORD])
      with [tkIO_NUMBER; rop_term o; tkWORD].
    cbn [toks map ptok_tok app].
    eapply steps_cons; [apply (lex_io_number ds o _ a f c i Hne Hd) |].
    eapply steps_cons; [apply lex_pending_rop |].
    apply steps_one. apply lex_arg; assumption.
  - change (tm [kw (rop_text o) (rop_term o); P1 t tkWORD]) with [rop_term o; tkWORD].
    cbn [toks map ptok_tok app kw].
    eapply steps_cons; [apply lex_rop |].
    apply steps_one. apply lex_arg; assumption.
Qed.

Lemma run_redirs rs : forall a f c i,
  forallb redir_ok rs = true -> safe f c ->
  exists f' c', safe f' c' /\
    run (print_redirs rs) a f c i (match rs with [] => a | _ => false end) f' c' i.
Proof.
  induction rs as [| r rs IH]; intros a f c i Hok Hs.
  - exists f, c. split; [exact Hs | apply run_nil].
  - cbn [forallb] in Hok. apply andb_true_iff in Hok. destruct Hok as [Hr Hrs].
    destruct (IH false (bumpv f) (bumpv c) i Hrs (safe_bump _ _ Hs)) as (f' & c' & Hs' & Hrun).
    exists f', c'. split; [exact Hs' |].
    unfold print_redirs. cbn [flat_map].
    eapply run_app; [apply run_redir; assumption |].
    replace (match rs with [] => false | _ :: _ => false end) with false in Hrun by (destruct rs; reflexivity).
    exact Hrun.
Qed.

Lemma run_words ws : forall f c i,
  forallb arg_ok ws = true -> safe f c ->
  exists f' c', safe f' c' /\ run (print_words ws) false f c i false f' c' i.
Proof.
  induction ws as [| w ws IH]; intros f c i Hok Hs.
  - exists f, c. split; [exact Hs | apply run_nil].
  - cbn [forallb] in Hok. apply andb_true_iff in Hok. destruct Hok as [Hw Hws].
    destruct (IH (bumpv f) (bumpv c) i Hws (safe_bump _ _ Hs)) as (f' & c' & Hs' & Hrun).
    exists f', c'. split; [exact Hs' |].
    cbn [print_words map]. eapply run_cons; [intro rest; apply lex_arg; assumption | exact Hrun].
Qed.

Lemma run_sitems items : forall f c i,
  forallb sitem_ok items = true -> safe f c ->
  exists f' c', safe f' c' /\ run (flat_map print_sitem items) false f c i false f' c' i.
Proof.
  induction items as [| x items IH]; intros f c i Hok Hs.
  - exists f, c. split; [exact Hs | apply run_nil].
  - cbn [forallb] in Hok. apply andb_true_iff in Hok. destruct Hok as [Hx Hitems].
    destruct (IH (bumpv f) (bumpv c) i Hitems (safe_bump _ _ Hs)) as (f' & c' & Hs' & Hrun).
    exists f', c'. split; [exact Hs' |].
    cbn [flat_map]. destruct x as [w | r]; cbn [sitem_ok print_sitem] in *.
    + eapply run_cons; [intro rest; apply lex_arg; assumption | exact Hrun].
    + eapply run_app; [apply run_redir; assumption | exact Hrun].
Qed.

Lemma run_assigns assigns : forall f c i,
  forallb assign_ok assigns = true -> assigns <> [] ->
  run (map (fun w => P1 w tkASSIGNMENT_WORD) assigns) true f c i true (-1) (-1) i.
Proof.
  induction assigns as [| w ws IH]; intros f c i Hok Hne; [congruence |].
  cbn [forallb] in Hok. apply andb_true_iff in Hok. destruct Hok as [Hw Hws].
  cbn [map]. destruct ws as [| w' ws'].
  - apply run_one. intro rest. apply lex_assign. exact Hw.
  - eapply run_cons; [intro rest; apply lex_assign; exact Hw | apply IH; [exact Hws | discriminate]].
Qed.

(* items of a simple command when the lexer is at command start *)
Lemma run_items_cmdstart items : forall f c i,
  match items with SWord w :: r => name_ok w && forallb sitem_ok r | _ => forallb sitem_ok items end = true ->
  (safe f c \/ match items with SWord _ :: _ => True | _ => False end) ->
  exists f' c', safe f' c' /\
    run (flat_map print_sitem items) true f c i (match items with [] => true | _ => false end) f' c' i.
Proof.
  intros f c i Hok Hs. destruct items as [| [w | r] items].
  - destruct Hs as [Hs | []].
    exists f, c. split; [exact Hs | apply run_nil].
  - apply andb_true_iff in Hok. destruct Hok as [Hw Hitems].
    destruct (run_sitems items (-1) (-1) i Hitems safe_m1) as (f' & c' & Hs' & Hrun).
    exists f', c'. split; [exact Hs' |]. cbn [flat_map print_sitem].
    eapply run_cons; [intro rest; apply lex_name; exact Hw | exact Hrun].
  - cbn [forallb sitem_ok] in Hok. apply andb_true_iff in Hok. destruct Hok as [Hr Hitems].
    destruct Hs as [Hs | []].
    destruct (run_sitems items (bumpv f) (bumpv c) i Hitems (safe_bump _ _ Hs)) as (f' & c' & Hs' & Hrun).
    exists f', c'. split; [exact Hs' |]. cbn [flat_map print_sitem].
    eapply run_app; [apply run_redir; assumption | exact Hrun].
Qed.

Lemma run_simple assigns items f c i :
  simple_ok assigns items = true ->
  (safe f c \/ sw_cmd (CSimple assigns items) = true) ->
  exists f' c', safe f' c' /\
    run (print_cmd (CSimple assigns items)) true f c i (match items with [] => true | _ => false end) f' c' i.
Proof.
  unfold simple_ok. intros Hok Hs.
  apply andb_true_iff in Hok. destruct Hok as [Hok Hne].
  apply andb_true_iff in Hok. destruct Hok as [Hassigns Hitems].
  cbn [print_cmd]. destruct assigns as [| a0 assigns].
  - cbn [map app].
    apply run_items_cmdstart; [exact Hitems |].
    destruct Hs as [Hs | Hsw]; [left; exact Hs |].
    right. cbn [sw_cmd] in Hsw. destruct items as [| [w | r] items]; try discriminate. exact I.
  - destruct (run_items_cmdstart items (-1) (-1) i Hitems (or_introl safe_m1)) as (f' & c' & Hs' & Hrun).
    exists f', c'. split; [exact Hs' |].
    eapply run_app; [apply run_assigns; [exact Hassigns | discriminate] | exact Hrun].
Qed.

(* ---------- case selectors ---------- *)

Lemma run_pats ps : forall f c,
  forallb name_ok ps = true -> safe f c ->
  exists f' c', safe f' c' /\ run (print_pats ps) false f c true false f' c' true.
Proof.
  induction ps as [| p ps IH]; intros f c Hok Hs.
  - exists f, c. split; [exact Hs | apply run_nil].
  - cbn [forallb] in Hok. apply andb_true_iff in Hok. destruct Hok as [Hp Hps].
    destruct (IH (bumpv f) (bumpv c) Hps (safe_bump _ _ Hs)) as (f' & c' & Hs' & Hrun).
    exists f', c'. split; [exact Hs' |]. cbn [print_pats].
    eapply run_cons; [intro rest; apply lex_pipe |]. cbn [negb].
    eapply run_cons; [intro rest; apply lex_arg; [apply name_ok_arg_ok; exact Hp | exact Hs] | exact Hrun].
Qed.

(* the two states in which a case item can start: directly after `in`, or after `;;` *)
Definition item_entry (a : bool) (f c : Z) : Prop :=
  (a = false /\ f = -1 /\ c = 2) \/ (a = true /\ safe f c).

Lemma safe_m1_3 : safe (-1) 3.
Proof. unfold safe. lia. Qed.

Lemma run_selector lp p ps a f c :
  name_ok p = true -> forallb name_ok ps = true -> item_entry a f c ->
  exists f' c', safe f' c' /\ run (print_selector lp p ps) a f c true true f' c' false.
Proof.
  intros Hp Hps Hentry. unfold print_selector.
  (* the state after the first pattern *)
  assert (Hfirst : exists f1 c1, safe f1 c1 /\ run (print_lp lp ++ [P1 p tkWORD]) a f c true false f1 c1 true).
  { destruct Hentry as [(-> & -> & ->) | (-> & Hs)]; destruct lp; cbn [print_lp app].
    - exists (-1), 3. split; [apply safe_m1_3 |].
      eapply run_cons; [intro rest; apply lex_lparen |]. cbn [negb].
      apply run_one. intro rest. apply lex_first_pattern. exact Hp.
    - exists (-1), 3. split; [apply safe_m1_3 |].
      apply run_one. intro rest. apply lex_first_pattern. exact Hp.
    - exists (bumpv f), (bumpv c). split; [apply safe_bump; exact Hs |].
      eapply run_cons; [intro rest; apply lex_lparen |]. cbn [negb].
      apply run_one. intro rest. apply lex_arg; [apply name_ok_arg_ok; exact Hp | exact Hs].
    - exists (-1), (-1). split; [apply safe_m1 |].
      apply run_one. intro rest. apply lex_name. exact Hp. }
  destruct Hfirst as (f1 & c1 & Hs1 & Hrun1).
  destruct (run_pats ps f1 c1 Hps Hs1) as (f2 & c2 & Hs2 & Hrun2).
  exists f2, c2. split; [exact Hs2 |].
  replace (print_lp lp ++ P1 p tkWORD :: print_pats ps ++ [kw s_rparen tkRPAREN])
    with ((print_lp lp ++ [P1 p tkWORD]) ++ print_pats ps ++ [kw s_rparen tkRPAREN])
    by (rewrite <- app_assoc; reflexivity).
  eapply run_app; [exact Hrun1 |].
  eapply run_snoc; [exact Hrun2 |]. intro rest. apply lex_rparen.
Qed.

(* ---------- the induction over the tree ---------- *)

(* the conclusion for a construct that starts at command start in lexer context i
   and is described by the flow result r = (a', i') *)
Definition reads (l : list ptok) (f c : Z) (i : bool) (r : bool * bool) : Prop :=
  exists f' c', safe f' c' /\ run l true f c i (fst r) f' c' (snd r).

Definition G_cmd (c : cmd) : Prop := forall i r f c0,
  wf_cmd c = true -> flow_cmd i c = Some r -> (safe f c0 \/ sw_cmd c = true) ->
  nosemi_cmd c = true /\ reads (print_cmd c) f c0 i r.
Definition G_compound (k : compound) : Prop := forall i r f c0,
  wf_compound k = true -> flow_compound i k = Some r -> (safe f c0 \/ sw_cmd (CCompound k []) = true) ->
  nosemi_compound k = true /\ reads (print_compound k) f c0 i r.
Definition G_else (e : elsepart) : Prop := forall i i' f c0,
  wf_else e = true -> flow_else i e = Some i' ->
  nosemi_else e = true /\ reads (print_else e) f c0 i (true, i').
Definition G_items (it : caseitems) : Prop := forall i' a f c0,
  wf_items it = true -> flow_items true it = Some i' -> item_entry a f c0 ->
  nosemi_items it = true /\
  exists f' c', safe f' c' /\ run (print_items it) a f c0 true false f' c' i'.
Definition G_clist (l : clist) : Prop := forall i r f c0,
  wf_clist l = true -> flow_clist i l = Some r -> (safe f c0 \/ sw_clist l = true) ->
  nosemi_clist l = true /\ reads (print_clist l) f c0 i r.
Definition G_body (b : cbody) : Prop :=
  match b with BNone => True | BSome l => G_clist l end.
Definition G_pipe (p : pipe) : Prop := forall i r f c0,
  wf_pipe p = true -> flow_pipe i p = Some r -> (safe f c0 \/ sw_pipe p = true) ->
  nosemi_pipe p = true /\ reads (print_pipe p) f c0 i r.
Definition G_andor (a : andor) : Prop := forall i r f c0,
  wf_andor a = true -> flow_andor i a = Some r -> (safe f c0 \/ sw_andor a = true) ->
  nosemi_andor a = true /\ reads (print_andor a) f c0 i r.
Definition G_seq (q : seq) : Prop := forall i r f c0,
  wf_seq q = true -> flow_seq i q = Some r -> (safe f c0 \/ sw_seq q = true) ->
  nosemi_seq q = true /\ reads (print_seq q) f c0 i r.

(* taking a flow equation apart *)
Ltac inv_flow H :=
  cbn [flow_cmd flow_compound flow_else flow_items flow_pipe flow_andor flow_seq flow_clist] in H;
  unfold opt_bind, closed in H;
  repeat match type of H with
  | context [match ?x with _ => _ end] => destruct x eqn:?; try discriminate H
  end;
  try (injection H as <-).

Ltac kwstep lem := eapply run_cons; [intro; apply lem |].
Ltac kwlast lem := eapply run_snoc; [| intro; apply lem].

Lemma reads_intro l f c i a' i' f' c' :
  safe f' c' -> run l true f c i a' f' c' i' -> reads l f c i (a', i').
Proof. intros Hs Hr. exists f', c'. split; assumption. Qed.

Lemma safe_2_m1 : safe 2 (-1).
Proof. unfold safe. lia. Qed.

Lemma run_bang bang f c i : safe f c ->
  exists f' c', safe f' c' /\ run (print_bang bang) true f c i true f' c' i.
Proof.
  intro Hs. destruct bang; cbn [print_bang].
  - exists (-1), (-1). split; [apply safe_m1 |]. apply run_one. intro. apply lex_bang.
  - exists f, c. split; [exact Hs | apply run_nil].
Qed.

Lemma run_sep s a f c i : run [print_sep s] a f c i true f c i.
Proof. destruct s; apply run_one; intro; [apply lex_semi | apply lex_amp]. Qed.

Ltac split_wf H :=
  repeat match type of H with
  | (_ && _)%bool = true => let H1 := fresh "Hwf" in apply andb_true_iff in H; destruct H as [H H1]
  end.

Theorem lexer_reads_tree :
  (forall c, G_cmd c) /\ (forall k, G_compound k) /\ (forall e, G_else e) /\ (forall it, G_items it) /\
  (forall b, G_body b) /\ (forall p, G_pipe p) /\ (forall a, G_andor a) /\ (forall q, G_seq q) /\
  (forall l, G_clist l).
Proof.
  apply posix_mutind.
  - (* CSimple *)
    intros assigns items i r f c0 Hwf Hfl Hs. cbn [wf_cmd] in Hwf. cbn [flow_cmd] in Hfl. injection Hfl as <-.
    split; [reflexivity |].
    destruct (run_simple assigns items f c0 i Hwf Hs) as (f' & c' & Hs' & Hrun).
    exists f', c'. split; [exact Hs' | exact Hrun].
  - (* CCompound *)
    intros k IHk rs i r f c0 Hwf Hfl Hs. cbn [wf_cmd] in Hwf.
    apply andb_true_iff in Hwf. destruct Hwf as [Hk Hrs].
    cbn [flow_cmd] in Hfl. unfold opt_bind in Hfl.
    destruct (flow_compound i k) as [rk |] eqn:Ek; [| discriminate]. injection Hfl as <-.
    destruct (IHk i rk f c0 Hk Ek) as [Hns (f1 & c1 & Hs1 & Hrun1)].
    { destruct Hs as [Hs | Hsw]; [left; exact Hs | right; exact Hsw]. }
    split; [exact Hns |].
    destruct (run_redirs rs (fst rk) f1 c1 (snd rk) Hrs Hs1) as (f2 & c2 & Hs2 & Hrun2).
    exists f2, c2. split; [exact Hs2 |]. cbn [print_cmd fst snd].
    eapply run_app; [exact Hrun1 | exact Hrun2].
  - (* CFuncDef *)
    intros name body IHk rs i r f c0 Hwf Hfl Hs. cbn [wf_cmd] in Hwf.
    apply andb_true_iff in Hwf. destruct Hwf as [Hwf Hrs].
    apply andb_true_iff in Hwf. destruct Hwf as [Hname Hbody].
    cbn [flow_cmd] in Hfl. unfold opt_bind in Hfl.
    destruct (flow_compound false body) as [rk |] eqn:Ek; [| discriminate]. injection Hfl as <-.
    destruct (IHk false rk (-1) (-1) Hbody Ek (or_introl safe_m1)) as [Hns (f1 & c1 & Hs1 & Hrun1)].
    split; [exact Hns |].
    destruct (run_redirs rs (fst rk) f1 c1 (snd rk) Hrs Hs1) as (f2 & c2 & Hs2 & Hrun2).
    exists f2, c2. split; [exact Hs2 |]. cbn [print_cmd fst snd].
    eapply run_cons; [intro; apply lex_name; exact Hname |].
    kwstep lex_lparen. kwstep lex_rparen.
    eapply run_app; [exact Hrun1 | exact Hrun2].
  - (* KBrace *)
    intros l IH i r f c0 Hwf Hfl Hs. cbn [wf_compound] in Hwf.
    cbn [flow_compound] in Hfl. unfold opt_bind, closed in Hfl.
    destruct (flow_clist i l) as [[[] i1] |] eqn:El; try discriminate. injection Hfl as <-.
    destruct (IH i (true, i1) (-1) (-1) Hwf El (or_introl safe_m1)) as [Hns (f1 & c1 & Hs1 & Hrun1)].
    split; [exact Hns |]. apply (reads_intro _ _ _ _ true i1 (-1) (-1) safe_m1). cbn [print_compound].
    kwstep lex_lbrace. kwlast lex_rbrace. exact Hrun1.
  - (* KSubshell *)
    intros l IH i r f c0 Hwf Hfl Hs. cbn [wf_compound] in Hwf. cbn [flow_compound] in Hfl.
    destruct i; [discriminate |]. unfold opt_bind in Hfl.
    destruct (flow_clist false l) as [rl |] eqn:El; [| discriminate]. injection Hfl as <-.
    destruct (IH false rl f c0 Hwf El) as [Hns (f1 & c1 & Hs1 & Hrun1)].
    { destruct Hs as [Hs | Hsw]; [left; exact Hs | right; exact Hsw]. }
    split; [exact Hns |]. apply (reads_intro _ _ _ _ true false f1 c1 Hs1). cbn [print_compound].
    kwstep lex_lparen. cbn [negb]. kwlast lex_rparen. exact Hrun1.
  - (* KFor *)
    intros name m body IH i r f c0 Hwf Hfl Hs. cbn [wf_compound] in Hwf.
    apply andb_true_iff in Hwf. destruct Hwf as [Hwf Hbody].
    apply andb_true_iff in Hwf. destruct Hwf as [Hname Hm].
    cbn [flow_compound] in Hfl.
    destruct m as [| | ws]; [| discriminate |]; unfold opt_bind, closed in Hfl;
      destruct (flow_clist i body) as [[[] i1] |] eqn:El; try discriminate; injection Hfl as <-.
    + destruct (IH i (true, i1) 2 (-1) Hbody El (or_introl safe_2_m1)) as [Hns (f1 & c1 & Hs1 & Hrun1)].
      split; [exact Hns |]. apply (reads_intro _ _ _ _ true i1 (-1) (-1) safe_m1). cbn [print_compound app].
      kwstep lex_for. eapply run_cons; [intro; apply lex_arg_for_name; exact Hname |].
      kwstep lex_for_do. kwlast lex_done. exact Hrun1.
    + destruct (run_words ws 2 (-1) i Hm safe_2_m1) as (f1 & c1 & Hs1 & Hrunw).
      destruct (IH i (true, i1) (-1) (-1) Hbody El (or_introl safe_m1)) as [Hns (f2 & c2 & Hs2 & Hrun2)].
      split; [exact Hns |]. apply (reads_intro _ _ _ _ true i1 (-1) (-1) safe_m1). cbn [print_compound app].
      kwstep lex_for. eapply run_cons; [intro; apply lex_arg_for_name; exact Hname |].
      kwstep lex_for_in. rewrite <- app_assoc. eapply run_app; [exact Hrunw |]. cbn [app].
      kwstep lex_semi. kwstep lex_do. kwlast lex_done. exact Hrun2.
  - (* KCase *)
    intros w items IH i r f c0 Hwf Hfl Hs. cbn [wf_compound] in Hwf.
    apply andb_true_iff in Hwf. destruct Hwf as [Hw Hitems].
    cbn [flow_compound] in Hfl. unfold opt_bind in Hfl.
    destruct (flow_items true items) as [i1 |] eqn:Ei; [| discriminate]. injection Hfl as <-.
    destruct (IH i1 false (-1) 2 Hitems Ei (or_introl (conj eq_refl (conj eq_refl eq_refl))))
      as [Hns (f1 & c1 & Hs1 & Hrun1)].
    split; [exact Hns |]. apply (reads_intro _ _ _ _ false i1 f1 c1 Hs1). cbn [print_compound].
    kwstep lex_case. eapply run_cons; [intro; apply lex_arg_case_subject; exact Hw |].
    kwstep lex_case_in. exact Hrun1.
  - (* KIf *)
    intros c IHc t IHt e IHe i r f c0 Hwf Hfl Hs. cbn [wf_compound] in Hwf.
    apply andb_true_iff in Hwf. destruct Hwf as [Hwf He].
    apply andb_true_iff in Hwf. destruct Hwf as [Hc Ht].
    cbn [flow_compound] in Hfl. unfold opt_bind, closed in Hfl.
    destruct (flow_clist i c) as [[[] i1] |] eqn:Ec; try discriminate.
    destruct (flow_clist i1 t) as [[[] i2] |] eqn:Et; try discriminate.
    destruct (flow_else i2 e) as [i3 |] eqn:Ee; try discriminate. injection Hfl as <-.
    destruct (IHc i (true, i1) (-1) (-1) Hc Ec (or_introl safe_m1)) as [Hn1 (f1 & c1 & Hs1 & Hrun1)].
    destruct (IHt i1 (true, i2) (-1) (-1) Ht Et (or_introl safe_m1)) as [Hn2 (f2 & c2 & Hs2 & Hrun2)].
    destruct (IHe i2 i3 f2 c2 He Ee) as [Hn3 (f3 & c3 & Hs3 & Hrun3)].
    split; [cbn [nosemi_compound]; rewrite Hn1, Hn2, Hn3; reflexivity |].
    apply (reads_intro _ _ _ _ true i3 f3 c3 Hs3). cbn [print_compound].
    kwstep lex_if. eapply run_app; [exact Hrun1 |]. kwstep lex_then.
    eapply run_app; [exact Hrun2 | exact Hrun3].
  - (* KWhile *)
    intros c IHc b IHb i r f c0 Hwf Hfl Hs. cbn [wf_compound] in Hwf.
    apply andb_true_iff in Hwf. destruct Hwf as [Hc Hb].
    cbn [flow_compound] in Hfl. unfold opt_bind, closed in Hfl.
    destruct (flow_clist i c) as [[[] i1] |] eqn:Ec; try discriminate.
    destruct (flow_clist i1 b) as [[[] i2] |] eqn:Eb; try discriminate. injection Hfl as <-.
    destruct (IHc i (true, i1) (-1) (-1) Hc Ec (or_introl safe_m1)) as [Hn1 (f1 & c1 & Hs1 & Hrun1)].
    destruct (IHb i1 (true, i2) (-1) (-1) Hb Eb (or_introl safe_m1)) as [Hn2 (f2 & c2 & Hs2 & Hrun2)].
    split; [cbn [nosemi_compound]; rewrite Hn1, Hn2; reflexivity |].
    apply (reads_intro _ _ _ _ true i2 (-1) (-1) safe_m1). cbn [print_compound].
    kwstep lex_while. eapply run_app; [exact Hrun1 |]. kwstep lex_do. kwlast lex_done. exact Hrun2.
  - (* KUntil *)
    intros c IHc b IHb i r f c0 Hwf Hfl Hs. cbn [wf_compound] in Hwf.
    apply andb_true_iff in Hwf. destruct Hwf as [Hc Hb].
    cbn [flow_compound] in Hfl. unfold opt_bind, closed in Hfl.
    destruct (flow_clist i c) as [[[] i1] |] eqn:Ec; try discriminate.
    destruct (flow_clist i1 b) as [[[] i2] |] eqn:Eb; try discriminate. injection Hfl as <-.
    destruct (IHc i (true, i1) (-1) (-1) Hc Ec (or_introl safe_m1)) as [Hn1 (f1 & c1 & Hs1 & Hrun1)].
    destruct (IHb i1 (true, i2) (-1) (-1) Hb Eb (or_introl safe_m1)) as [Hn2 (f2 & c2 & Hs2 & Hrun2)].
    split; [cbn [nosemi_compound]; rewrite Hn1, Hn2; reflexivity |].
    apply (reads_intro _ _ _ _ true i2 (-1) (-1) safe_m1). cbn [print_compound].
    kwstep lex_until. eapply run_app; [exact Hrun1 |]. kwstep lex_do. kwlast lex_done. exact Hrun2.
  - (* ENone *)
    intros i i' f c0 _ Hfl. cbn [flow_else] in Hfl. injection Hfl as <-.
    split; [reflexivity |]. apply (reads_intro _ _ _ _ true i (-1) (-1) safe_m1). cbn [print_else].
    apply run_one. intro. apply lex_fi.
  - (* EElse *)
    intros l IH i i' f c0 Hwf Hfl. cbn [wf_else] in Hwf. cbn [flow_else] in Hfl. unfold closed in Hfl.
    destruct (flow_clist i l) as [[[] i1] |] eqn:El; try discriminate. injection Hfl as <-.
    destruct (IH i (true, i1) (-1) (-1) Hwf El (or_introl safe_m1)) as [Hns (f1 & c1 & Hs1 & Hrun1)].
    split; [exact Hns |]. apply (reads_intro _ _ _ _ true i1 (-1) (-1) safe_m1). cbn [print_else].
    kwstep lex_else. kwlast lex_fi. exact Hrun1.
  - (* EElif *)
    intros c IHc t IHt e IHe i i' f c0 Hwf Hfl. cbn [wf_else] in Hwf.
    apply andb_true_iff in Hwf. destruct Hwf as [Hwf He].
    apply andb_true_iff in Hwf. destruct Hwf as [Hc Ht].
    cbn [flow_else] in Hfl. unfold opt_bind, closed in Hfl.
    destruct (flow_clist i c) as [[[] i1] |] eqn:Ec; try discriminate.
    destruct (flow_clist i1 t) as [[[] i2] |] eqn:Et; try discriminate.
    destruct (IHc i (true, i1) (-1) (-1) Hc Ec (or_introl safe_m1)) as [Hn1 (f1 & c1 & Hs1 & Hrun1)].
    destruct (IHt i1 (true, i2) (-1) (-1) Ht Et (or_introl safe_m1)) as [Hn2 (f2 & c2 & Hs2 & Hrun2)].
    destruct (IHe i2 i' f2 c2 He Hfl) as [Hn3 (f3 & c3 & Hs3 & Hrun3)].
    split; [cbn [nosemi_else]; rewrite Hn1, Hn2, Hn3; reflexivity |].
    apply (reads_intro _ _ _ _ true i' f3 c3 Hs3). cbn [print_else].
    kwstep lex_elif. eapply run_app; [exact Hrun1 |]. kwstep lex_then.
    eapply run_app; [exact Hrun2 | exact Hrun3].
  - (* CINil *)
    intros i' a f c0 _ Hfl Hentry. cbn [flow_items] in Hfl. injection Hfl as <-.
    split; [reflexivity |]. cbn [print_items].
    destruct Hentry as [(-> & -> & ->) | (-> & Hs)].
    + exists (-1), 3. split; [apply safe_m1_3 |]. apply run_one. intro. apply lex_case_in_esac.
    + exists (-1), (-1). split; [apply safe_m1 |]. apply run_one. intro. apply lex_esac_cmdstart.
  - (* CILast *)
    intros lp p ps body IHb i' a f c0 Hwf Hfl Hentry. cbn [wf_items] in Hwf.
    apply andb_true_iff in Hwf. destruct Hwf as [Hwf Hbody].
    apply andb_true_iff in Hwf. destruct Hwf as [Hp Hps].
    destruct (run_selector lp p ps a f c0 Hp Hps Hentry) as (f1 & c1 & Hs1 & Hrun1).
    cbn [flow_items] in Hfl. cbn [print_items]. destruct body as [| l].
    + injection Hfl as <-. split; [reflexivity |].
      exists (-1), (-1). split; [apply safe_m1 |].
      eapply run_app; [exact Hrun1 |]. cbn [print_body app]. apply run_one. intro. apply lex_esac_cmdstart.
    + unfold closed in Hfl. destruct (flow_clist false l) as [[[] i1] |] eqn:El; try discriminate.
      injection Hfl as <-. cbn [G_body] in IHb. cbn [wf_body] in Hbody.
      destruct (IHb false (true, i1) f1 c1 Hbody El (or_introl Hs1)) as [Hns (f2 & c2 & Hs2 & Hrun2)].
      split; [exact Hns |]. exists (-1), (-1). split; [apply safe_m1 |].
      eapply run_app; [exact Hrun1 |]. cbn [print_body]. kwlast lex_esac_cmdstart. exact Hrun2.
  - (* CICons *)
    intros lp p ps body IHb rest IHr i' a f c0 Hwf Hfl Hentry. cbn [wf_items] in Hwf.
    apply andb_true_iff in Hwf. destruct Hwf as [Hwf Hrest].
    apply andb_true_iff in Hwf. destruct Hwf as [Hwf Hbody].
    apply andb_true_iff in Hwf. destruct Hwf as [Hp Hps].
    destruct (run_selector lp p ps a f c0 Hp Hps Hentry) as (f1 & c1 & Hs1 & Hrun1).
    cbn [flow_items] in Hfl. cbn [print_items]. destruct body as [| l].
    + destruct (IHr i' true f1 c1 Hrest Hfl (or_intror (conj eq_refl Hs1))) as [Hns (f3 & c3 & Hs3 & Hrun3)].
      split; [exact Hns |]. exists f3, c3. split; [exact Hs3 |].
      eapply run_app; [exact Hrun1 |]. cbn [print_body app]. kwstep lex_semisemi. exact Hrun3.
    + unfold opt_bind in Hfl. destruct (flow_clist false l) as [rl |] eqn:El; [| discriminate].
      cbn [G_body] in IHb. cbn [wf_body] in Hbody.
      destruct (IHb false rl f1 c1 Hbody El (or_introl Hs1)) as [Hn2 (f2 & c2 & Hs2 & Hrun2)].
      destruct (IHr i' true f2 c2 Hrest Hfl (or_intror (conj eq_refl Hs2))) as [Hn3 (f3 & c3 & Hs3 & Hrun3)].
      split; [cbn [nosemi_items nosemi_body]; rewrite Hn2, Hn3; reflexivity |].
      exists f3, c3. split; [exact Hs3 |].
      eapply run_app; [exact Hrun1 |]. cbn [print_body]. eapply run_app; [exact Hrun2 |].
      kwstep lex_semisemi. exact Hrun3.
  - (* BNone *)
    exact I.
  - (* BSome *)
    intros l IH. exact IH.
  - (* PCmd *)
    intros c IH i r f c0 Hwf Hfl Hs. cbn [wf_pipe flow_pipe sw_pipe print_pipe nosemi_pipe] in *.
    exact (IH i r f c0 Hwf Hfl Hs).
  - (* PPipe *)
    intros p IHp c IHc i r f c0 Hwf Hfl Hs. cbn [wf_pipe] in Hwf.
    apply andb_true_iff in Hwf. destruct Hwf as [Hp Hc].
    cbn [flow_pipe] in Hfl. unfold opt_bind in Hfl.
    destruct (flow_pipe i p) as [[a1 []] |] eqn:Ep; try discriminate. cbn [snd] in Hfl.
    destruct (IHp i (a1, false) f c0 Hp Ep Hs) as [Hn1 (f1 & c1 & Hs1 & Hrun1)].
    destruct (IHc false r f1 c1 Hc Hfl (or_introl Hs1)) as [Hn2 (f2 & c2 & Hs2 & Hrun2)].
    split; [cbn [nosemi_pipe]; rewrite Hn1, Hn2; reflexivity |].
    exists f2, c2. split; [exact Hs2 |]. cbn [print_pipe].
    eapply run_app; [exact Hrun1 |]. kwstep lex_pipe. exact Hrun2.
  - (* AOne *)
    intros bang p IH i r f c0 Hwf Hfl Hs. cbn [wf_andor flow_andor nosemi_andor print_andor] in *.
    destruct bang.
    + destruct (IH i r (-1) (-1) Hwf Hfl (or_introl safe_m1)) as [Hns (f1 & c1 & Hs1 & Hrun1)].
      split; [exact Hns |]. exists f1, c1. split; [exact Hs1 |]. cbn [print_bang app].
      kwstep lex_bang. exact Hrun1.
    + exact (IH i r f c0 Hwf Hfl Hs).
  - (* AAnd *)
    intros a IHa bang p IHp i r f c0 Hwf Hfl Hs. cbn [wf_andor] in Hwf.
    apply andb_true_iff in Hwf. destruct Hwf as [Ha Hp].
    cbn [flow_andor] in Hfl. unfold opt_bind in Hfl.
    destruct (flow_andor i a) as [ra |] eqn:Ea; [| discriminate].
    destruct (IHa i ra f c0 Ha Ea Hs) as [Hn1 (f1 & c1 & Hs1 & Hrun1)].
    destruct (run_bang bang f1 c1 (snd ra) Hs1) as (f2 & c2 & Hs2 & Hrunb).
    destruct (IHp (snd ra) r f2 c2 Hp Hfl (or_introl Hs2)) as [Hn2 (f3 & c3 & Hs3 & Hrun3)].
    split; [cbn [nosemi_andor]; rewrite Hn1, Hn2; reflexivity |].
    exists f3, c3. split; [exact Hs3 |]. cbn [print_andor].
    eapply run_app; [exact Hrun1 |]. kwstep lex_andand. eapply run_app; [exact Hrunb | exact Hrun3].
  - (* AOr *)
    intros a IHa bang p IHp i r f c0 Hwf Hfl Hs. cbn [wf_andor] in Hwf.
    apply andb_true_iff in Hwf. destruct Hwf as [Ha Hp].
    cbn [flow_andor] in Hfl. unfold opt_bind in Hfl.
    destruct (flow_andor i a) as [ra |] eqn:Ea; [| discriminate].
    destruct (IHa i ra f c0 Ha Ea Hs) as [Hn1 (f1 & c1 & Hs1 & Hrun1)].
    destruct (run_bang bang f1 c1 (snd ra) Hs1) as (f2 & c2 & Hs2 & Hrunb).
    destruct (IHp (snd ra) r f2 c2 Hp Hfl (or_introl Hs2)) as [Hn2 (f3 & c3 & Hs3 & Hrun3)].
    split; [cbn [nosemi_andor]; rewrite Hn1, Hn2; reflexivity |].
    exists f3, c3. split; [exact Hs3 |]. cbn [print_andor].
    eapply run_app; [exact Hrun1 |]. kwstep lex_oror. eapply run_app; [exact Hrunb | exact Hrun3].
  - (* QOne *)
    intros a IH i r f c0 Hwf Hfl Hs. cbn [wf_seq flow_seq sw_seq print_seq nosemi_seq] in *.
    exact (IH i r f c0 Hwf Hfl Hs).
  - (* QSeq *)
    intros q IHq s a IHa i r f c0 Hwf Hfl Hs. cbn [wf_seq] in Hwf.
    apply andb_true_iff in Hwf. destruct Hwf as [Hq Ha].
    cbn [flow_seq] in Hfl. unfold opt_bind in Hfl.
    destruct (flow_seq i q) as [rq |] eqn:Eq; [| discriminate].
    destruct (IHq i rq f c0 Hq Eq Hs) as [Hn1 (f1 & c1 & Hs1 & Hrun1)].
    destruct (IHa (snd rq) r f1 c1 Ha Hfl (or_introl Hs1)) as [Hn2 (f2 & c2 & Hs2 & Hrun2)].
    split; [cbn [nosemi_seq]; rewrite Hn1, Hn2; reflexivity |].
    exists f2, c2. split; [exact Hs2 |]. cbn [print_seq].
    eapply run_app; [exact Hrun1 |].
    apply (run_app [print_sep s] (print_andor a)) with true f1 c1 (snd rq); [apply run_sep | exact Hrun2].
  - (* CL *)
    intros q IH last i r f c0 Hwf Hfl Hs. cbn [wf_clist] in Hwf. cbn [flow_clist] in Hfl.
    destruct last as [s |].
    + unfold opt_bind in Hfl. destruct (flow_seq i q) as [rq |] eqn:Eq; [| discriminate]. injection Hfl as <-.
      destruct (IH i rq f c0 Hwf Eq Hs) as [Hns (f1 & c1 & Hs1 & Hrun1)].
      split; [exact Hns |]. exists f1, c1. split; [exact Hs1 |]. cbn [print_clist fst snd].
      eapply run_app; [exact Hrun1 | apply run_sep].
    + exact (IH i r f c0 Hwf Hfl Hs).
Qed.
