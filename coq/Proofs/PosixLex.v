(* The lexer of pkglint reads the text of a supported tree as the terminal
   string the tree is meant to be: by induction on the tree, with the lexer
   state after each construct. *)
From Coq Require Import NArith ZArith List Bool Lia.
From PV Require Import Lib.Bytes Gen.ShellGrammar Model.ShellLex Spec.PosixSh
  Proofs.ShellLex Proofs.PosixGrammar.
Import ListNotations.
Open Scope Z_scope.

Definition toks (l : list ptok) : list tok := map ptok_tok l.

Lemma toks_app a b : toks (a ++ b) = toks a ++ toks b.
Proof. apply map_app. Qed.

(* [run l a f c i g a' f' c' i' g']: in the state (atCommandStart, sinceFor, sinceCase,
   inCasePattern, afterAssign) = (a, f, c, i, g) with no pending io operator, the lexer
   turns the tokens of l, whatever follows them, into the terminals of l and ends in
   (a', f', c', i', g') *)
Definition run (l : list ptok) (a : bool) (f c : Z) (i g : bool) (a' : bool) (f' c' : Z) (i' g' : bool) : Prop :=
  forall rest, steps (mkLx [] (toks l ++ rest) a f c i g) (tm l) (mkLx [] rest a' f' c' i' g').

Lemma run_nil a f c i g : run [] a f c i g a f c i g.
Proof. intro rest. apply steps_nil. Qed.

Lemma run_app l1 l2 a f c i g a1 f1 c1 i1 g1 a2 f2 c2 i2 g2 :
  run l1 a f c i g a1 f1 c1 i1 g1 -> run l2 a1 f1 c1 i1 g1 a2 f2 c2 i2 g2 ->
  run (l1 ++ l2) a f c i g a2 f2 c2 i2 g2.
Proof.
  intros H1 H2 rest. rewrite toks_app, <- app_assoc, tm_app.
  eapply steps_app; [apply H1 | apply H2].
Qed.

Lemma run_one t x a f c i g a' f' c' i' g' :
  (forall rest, Lex (mkLx [] (t :: rest) a f c i g) = LexTok x (mkLx [] rest a' f' c' i' g')) ->
  run [P1 t x] a f c i g a' f' c' i' g'.
Proof. intros H rest. apply steps_one. apply H. Qed.

Lemma run_cons t x l a f c i g a1 f1 c1 i1 g1 a2 f2 c2 i2 g2 :
  (forall rest, Lex (mkLx [] (t :: rest) a f c i g) = LexTok x (mkLx [] rest a1 f1 c1 i1 g1)) ->
  run l a1 f1 c1 i1 g1 a2 f2 c2 i2 g2 -> run (P1 t x :: l) a f c i g a2 f2 c2 i2 g2.
Proof.
  intros H1 H2. apply (run_app [P1 t x] l) with a1 f1 c1 i1 g1; [apply run_one; exact H1 | exact H2].
Qed.

Lemma run_snoc t x l a f c i g a1 f1 c1 i1 g1 a2 f2 c2 i2 g2 :
  run l a f c i g a1 f1 c1 i1 g1 ->
  (forall rest, Lex (mkLx [] (t :: rest) a1 f1 c1 i1 g1) = LexTok x (mkLx [] rest a2 f2 c2 i2 g2)) ->
  run (l ++ [P1 t x]) a f c i g a2 f2 c2 i2 g2.
Proof. intros H1 H2. apply run_app with a1 f1 c1 i1 g1; [exact H1 | apply run_one; exact H2]. Qed.

(* ---------- redirections, word lists, simple commands ---------- *)

Lemma redir_ok_inv r : redir_ok r = true ->
  arg_ok (r_target r) = true /\
  match r_fd r with None => True | Some ds => ds <> [] /\ forallb is_digit ds = true end.
Proof.
  unfold redir_ok, fd_ok. intro H. apply andb_true_iff in H. destruct H as [Hfd Ht]. split; [exact Ht |].
  destruct (r_fd r) as [[| d ds] |]; [discriminate | split; [discriminate | exact Hfd] | exact I].
Qed.

Lemma run_redir r a f c i g :
  redir_ok r = true -> safe f c -> run (print_redir r) a f c i g false (bumpv f) (bumpv c) i false.
Proof.
  intros Hr Hs rest. destruct (redir_ok_inv r Hr) as [Ht Hfd].
  destruct r as [fd o t]. unfold print_redir. cbn [r_fd r_op r_target] in *.
  destruct fd as [ds |].
  - destruct Hfd as [Hne Hd].
    change (tm [P2 (mkTok (ds ++ rop_text o) WkPlain) tkIO_NUMBER (rop_term o); P1 t tkWORD])
      with [tkIO_NUMBER; rop_term o; tkWORD].
    cbn [toks map ptok_tok app].
    eapply steps_cons; [apply (lex_io_number ds o _ a f c i g Hne Hd) |].
    eapply steps_cons; [apply lex_pending_rop |].
    apply steps_one. apply lex_arg; assumption.
  - change (tm [kw (rop_text o) (rop_term o); P1 t tkWORD]) with [rop_term o; tkWORD].
    cbn [toks map ptok_tok app kw].
    eapply steps_cons; [apply lex_rop |].
    apply steps_one. apply lex_arg; assumption.
Qed.

Lemma run_redirs rs : forall a f c i,
  forallb redir_ok rs = true -> safe f c ->
  exists f' c', safe f' c' /\
    run (print_redirs rs) a f c i false (match rs with [] => a | _ => false end) f' c' i false.
Proof.
  induction rs as [| r rs IH]; intros a f c i Hok Hs.
  - exists f, c. split; [exact Hs | apply run_nil].
  - cbn [forallb] in Hok. apply andb_true_iff in Hok. destruct Hok as [Hr Hrs].
    destruct (IH false (bumpv f) (bumpv c) i Hrs (safe_bump _ _ Hs)) as (f' & c' & Hs' & Hrun).
    exists f', c'. split; [exact Hs' |].
    unfold print_redirs. cbn [flat_map].
    eapply run_app; [apply run_redir; assumption |].
    replace (match rs with [] => false | _ :: _ => false end) with false in Hrun by (destruct rs; reflexivity).
    exact Hrun.
Qed.

Lemma run_words ws : forall f c i,
  forallb arg_ok ws = true -> safe f c ->
  exists f' c', safe f' c' /\ run (print_words ws) false f c i false false f' c' i false.
Proof.
  induction ws as [| w ws IH]; intros f c i Hok Hs.
  - exists f, c. split; [exact Hs | apply run_nil].
  - cbn [forallb] in Hok. apply andb_true_iff in Hok. destruct Hok as [Hw Hws].
    destruct (IH (bumpv f) (bumpv c) i Hws (safe_bump _ _ Hs)) as (f' & c' & Hs' & Hrun).
    exists f', c'. split; [exact Hs' |].
    cbn [print_words map]. eapply run_cons; [intro rest; apply lex_arg; assumption | exact Hrun].
Qed.

Lemma run_sitems items : forall f c i,
  forallb sitem_ok items = true -> safe f c ->
  exists f' c', safe f' c' /\ run (flat_map print_sitem items) false f c i false false f' c' i false.
Proof.
  induction items as [| x items IH]; intros f c i Hok Hs.
  - exists f, c. split; [exact Hs | apply run_nil].
  - cbn [forallb] in Hok. apply andb_true_iff in Hok. destruct Hok as [Hx Hitems].
    destruct (IH (bumpv f) (bumpv c) i Hitems (safe_bump _ _ Hs)) as (f' & c' & Hs' & Hrun).
    exists f', c'. split; [exact Hs' |].
    cbn [flat_map]. destruct x as [w | r]; cbn [sitem_ok print_sitem] in *.
    + eapply run_cons; [intro rest; apply lex_arg; assumption | exact Hrun].
    + eapply run_app; [apply run_redir; assumption | exact Hrun].
Qed.

(* assignment words: the lexer stays at command start and remembers the assignment *)
Lemma run_assigns assigns : forall f c g,
  forallb assign_ok assigns = true -> assigns <> [] ->
  run (map (fun w => P1 w tkASSIGNMENT_WORD) assigns) true f c false g true (-1) (-1) false true.
Proof.
  induction assigns as [| w ws IH]; intros f c g Hok Hne; [congruence |].
  cbn [forallb] in Hok. apply andb_true_iff in Hok. destruct Hok as [Hw Hws].
  cbn [map]. destruct ws as [| w' ws'].
  - apply run_one. intro rest. apply lex_assign. exact Hw.
  - eapply run_cons; [intro rest; apply lex_assign; exact Hw | apply IH; [exact Hws | discriminate]].
Qed.

(* the items of a simple command at command start, without (g = false) or after (g = true)
   assignment words; the end flag is g when there are no items *)
Lemma run_items_cmdstart items : forall (f c : Z) (g : bool),
  match items with
  | SWord w :: r => (if g then later_name_ok w else name_ok w) && forallb sitem_ok r
  | _ => forallb sitem_ok items
  end = true ->
  safe f c ->
  exists f' c', safe f' c' /\
    run (flat_map print_sitem items) true f c false g
        (match items with [] => true | _ => false end) f' c' false (match items with [] => g | _ => false end).
Proof.
  intros f c g Hok Hs. destruct items as [| [w | r] items].
  - exists f, c. split; [exact Hs | apply run_nil].
  - apply andb_true_iff in Hok. destruct Hok as [Hw Hitems].
    destruct (run_sitems items (-1) (-1) false Hitems safe_m1) as (f' & c' & Hs' & Hrun).
    exists f', c'. split; [exact Hs' |]. cbn [flat_map print_sitem].
    destruct g.
    + eapply run_cons; [intro rest; apply lex_name_after_assign; exact Hw | exact Hrun].
    + eapply run_cons; [intro rest; apply lex_name; exact Hw | exact Hrun].
  - cbn [forallb sitem_ok] in Hok. apply andb_true_iff in Hok. destruct Hok as [Hr Hitems].
    destruct (run_sitems items (bumpv f) (bumpv c) false Hitems (safe_bump _ _ Hs)) as (f' & c' & Hs' & Hrun).
    exists f', c'. split; [exact Hs' |]. cbn [flat_map print_sitem].
    eapply run_app; [apply run_redir; assumption | exact Hrun].
Qed.

Lemma run_simple assigns items f c :
  simple_ok assigns items = true -> safe f c ->
  exists f' c', safe f' c' /\
    run (print_cmd (CSimple assigns items)) true f c false false
        (match items with [] => true | _ => false end) f' c' false
        (match items with [] => true | _ => false end).
Proof.
  unfold simple_ok. intros Hok Hs.
  apply andb_true_iff in Hok. destruct Hok as [Hok Hne].
  apply andb_true_iff in Hok. destruct Hok as [Hassigns Hitems].
  cbn [print_cmd]. destruct assigns as [| a0 assigns].
  - cbn [map app]. destruct items as [| x items]; [discriminate |].
    destruct (run_items_cmdstart (x :: items) f c false Hitems Hs) as (f' & c' & Hs' & Hrun).
    exists f', c'. split; [exact Hs' | exact Hrun].
  - destruct (run_items_cmdstart items (-1) (-1) true Hitems safe_m1) as (f' & c' & Hs' & Hrun).
    exists f', c'. split; [exact Hs' |].
    eapply run_app; [apply run_assigns; [exact Hassigns | discriminate] |].
    destruct items; exact Hrun.
Qed.

(* ---------- case selectors ---------- *)

Lemma pattern_arg_ok p : pattern_ok p = true -> arg_ok p = true.
Proof. intro H. apply pattern_ok_inv in H. tauto. Qed.

Lemma run_pats ps : forall f c,
  forallb pattern_ok ps = true -> safe f c ->
  exists f' c', safe f' c' /\ run (print_pats ps) false f c true false false f' c' true false.
Proof.
  induction ps as [| p ps IH]; intros f c Hok Hs.
  - exists f, c. split; [exact Hs | apply run_nil].
  - cbn [forallb] in Hok. apply andb_true_iff in Hok. destruct Hok as [Hp Hps].
    destruct (IH (bumpv f) (bumpv c) Hps (safe_bump _ _ Hs)) as (f' & c' & Hs' & Hrun).
    exists f', c'. split; [exact Hs' |]. cbn [print_pats].
    eapply run_cons; [intro rest; apply lex_pipe |]. cbn [negb].
    eapply run_cons; [intro rest; apply lex_arg; [apply pattern_arg_ok; exact Hp | exact Hs] | exact Hrun].
Qed.

(* the two states in which a case item can start: directly after `in`, or after `;;` *)
Definition item_entry (a : bool) (f c : Z) : Prop :=
  (a = false /\ f = -1 /\ c = 2) \/ (a = true /\ safe f c).

Lemma safe_m1_3 : safe (-1) 3.
Proof. unfold safe. lia. Qed.

Lemma run_selector lp p ps a f c :
  pattern_ok p = true -> forallb pattern_ok ps = true -> item_entry a f c ->
  exists f' c', safe f' c' /\ run (print_selector lp p ps) a f c true false true f' c' false false.
Proof.
  intros Hp Hps Hentry. unfold print_selector.
  assert (Hfirst : exists f1 c1, safe f1 c1 /\
            run (print_lp lp ++ [P1 p tkWORD]) a f c true false false f1 c1 true false).
  { destruct Hentry as [(-> & -> & ->) | (-> & Hs)]; destruct lp; cbn [print_lp app].
    - exists (-1), 3. split; [apply safe_m1_3 |].
      eapply run_cons; [intro rest; apply lex_lparen |]. cbn [negb].
      apply run_one. intro rest. apply lex_first_pattern. exact Hp.
    - exists (-1), 3. split; [apply safe_m1_3 |].
      apply run_one. intro rest. apply lex_first_pattern. exact Hp.
    - exists (bumpv f), (bumpv c). split; [apply safe_bump; exact Hs |].
      eapply run_cons; [intro rest; apply lex_lparen |]. cbn [negb].
      apply run_one. intro rest. apply lex_arg; [apply pattern_arg_ok; exact Hp | exact Hs].
    - exists (-1), (-1). split; [apply safe_m1 |].
      apply run_one. intro rest. apply lex_pattern_after_dsemi. exact Hp. }
  destruct Hfirst as (f1 & c1 & Hs1 & Hrun1).
  destruct (run_pats ps f1 c1 Hps Hs1) as (f2 & c2 & Hs2 & Hrun2).
  exists f2, c2. split; [exact Hs2 |].
  replace (print_lp lp ++ P1 p tkWORD :: print_pats ps ++ [kw s_rparen tkRPAREN])
    with ((print_lp lp ++ [P1 p tkWORD]) ++ print_pats ps ++ [kw s_rparen tkRPAREN])
    by (rewrite <- app_assoc; reflexivity).
  eapply run_app; [exact Hrun1 |].
  eapply run_snoc; [exact Hrun2 |]. intro rest. apply lex_rparen.
Qed.

(* ---------- the induction over the tree ---------- *)

(* At every command position the lexer is at command start, the counters are safe
   and inCasePattern is false; the same holds after every construct, except that
   atCommandStart is true only where the construct ends in a separator, a closing
   reserved word or `)`. *)
Definition reads (l : list ptok) (f c : Z) (closes : bool) : Prop :=
  exists a' f' c' g', safe f' c' /\ (closes = true -> a' = true /\ g' = false) /\
    run l true f c false false a' f' c' false g'.

Definition G_cmd (c : cmd) : Prop := forall f c0,
  wf_cmd c = true -> faithful_cmd c = true -> safe f c0 -> reads (print_cmd c) f c0 (ends_cmd c).
Definition G_compound (k : compound) : Prop := forall f c0,
  wf_compound k = true -> faithful_compound k = true -> safe f c0 -> reads (print_compound k) f c0 true.
Definition G_else (e : elsepart) : Prop := forall f c0,
  wf_else e = true -> faithful_else e = true -> safe f c0 -> reads (print_else e) f c0 true.
Definition G_items (it : caseitems) : Prop := forall a f c0,
  wf_items it = true -> faithful_items it = true -> item_entry a f c0 ->
  exists f' c', safe f' c' /\ run (print_items it) a f c0 true false true f' c' false false.
Definition G_clist (l : clist) : Prop := forall f c0,
  wf_clist l = true -> faithful_clist l = true -> safe f c0 -> reads (print_clist l) f c0 (closed_clist l).
Definition G_body (b : cbody) : Prop :=
  match b with BNone => True | BSome l => G_clist l end.
Definition G_pipe (p : pipe) : Prop := forall f c0,
  wf_pipe p = true -> faithful_pipe p = true -> safe f c0 -> reads (print_pipe p) f c0 (ends_pipe p).
Definition G_andor (a : andor) : Prop := forall f c0,
  wf_andor a = true -> faithful_andor a = true -> safe f c0 -> reads (print_andor a) f c0 (ends_andor a).
Definition G_seq (q : seq) : Prop := forall f c0,
  wf_seq q = true -> faithful_seq q = true -> safe f c0 -> reads (print_seq q) f c0 (ends_seq q).

Ltac kwstep lem := eapply run_cons; [intro; apply lem |].
Ltac kwlast lem := eapply run_snoc; [| intro; apply lem].

Lemma reads_closed l f c f' c' closes :
  safe f' c' -> run l true f c false false true f' c' false false -> reads l f c closes.
Proof. intros Hs Hr. exists true, f', c', false. split; [exact Hs | split; [intros _; split; reflexivity | exact Hr]]. Qed.

Lemma safe_2_m1 : safe 2 (-1).
Proof. unfold safe. lia. Qed.

Lemma run_bang bang f c : safe f c ->
  exists f' c', safe f' c' /\ run (print_bang bang) true f c false false true f' c' false false.
Proof.
  intro Hs. destruct bang; cbn [print_bang].
  - exists (-1), (-1). split; [apply safe_m1 |]. apply run_one. intro. apply lex_bang.
  - exists f, c. split; [exact Hs | apply run_nil].
Qed.

Lemma run_sep s a f c i g : run [print_sep s] a f c i g true f c i false.
Proof. destruct s; apply run_one; intro; [apply lex_semi | apply lex_amp]. Qed.

Ltac split_b H :=
  repeat match type of H with
  | (_ && _)%bool = true => let H1 := fresh "Hb" in apply andb_true_iff in H; destruct H as [H H1]
  end.

(* a list that must end at command start, then a closing reserved word *)
Ltac use_closed IH Hwf Hcl Hfa f0 c00 Hs0 f1 c1 Hs1 Hrun1 :=
  let a1 := fresh "a1" in let Ha := fresh "Ha" in
  let g1 := fresh "g1" in
  destruct (IH f0 c00 Hwf Hfa Hs0) as (a1 & f1 & c1 & g1 & Hs1 & Ha & Hrun1);
  destruct (Ha Hcl) as [-> ->].

Theorem lexer_reads_tree :
  (forall c, G_cmd c) /\ (forall k, G_compound k) /\ (forall e, G_else e) /\ (forall it, G_items it) /\
  (forall b, G_body b) /\ (forall p, G_pipe p) /\ (forall a, G_andor a) /\ (forall q, G_seq q) /\
  (forall l, G_clist l).
Proof.
  apply posix_mutind.
  - (* CSimple *)
    intros assigns items f c0 Hwf _ Hs. cbn [wf_cmd] in Hwf.
    destruct (run_simple assigns items f c0 Hwf Hs) as (f' & c' & Hs' & Hrun).
    exists (match items with [] => true | _ => false end), f', c', (match items with [] => true | _ => false end).
    split; [exact Hs' |]. split; [cbn [ends_cmd]; discriminate | exact Hrun].
  - (* CCompound *)
    intros k IHk rs f c0 Hwf Hfa Hs. cbn [wf_cmd] in Hwf. apply andb_true_iff in Hwf. destruct Hwf as [Hk Hrs].
    cbn [faithful_cmd] in Hfa.
    destruct (IHk f c0 Hk Hfa Hs) as (a1 & f1 & c1 & g1 & Hs1 & Ha1 & Hrun1). destruct (Ha1 eq_refl) as [-> ->].
    destruct (run_redirs rs true f1 c1 false Hrs Hs1) as (f2 & c2 & Hs2 & Hrun2).
    exists (match rs with [] => true | _ => false end), f2, c2, false. split; [exact Hs2 |]. split.
    + cbn [ends_cmd]. destruct rs; [split; reflexivity | discriminate].
    + cbn [print_cmd]. eapply run_app; [exact Hrun1 | exact Hrun2].
  - (* CFuncDef *)
    intros name body IHk rs f c0 Hwf Hfa Hs. cbn [wf_cmd] in Hwf.
    apply andb_true_iff in Hwf. destruct Hwf as [Hwf Hrs].
    apply andb_true_iff in Hwf. destruct Hwf as [Hname Hbody]. cbn [faithful_cmd] in Hfa.
    destruct (IHk (-1) (-1) Hbody Hfa safe_m1) as (a1 & f1 & c1 & g1 & Hs1 & Ha1 & Hrun1). destruct (Ha1 eq_refl) as [-> ->].
    destruct (run_redirs rs true f1 c1 false Hrs Hs1) as (f2 & c2 & Hs2 & Hrun2).
    exists (match rs with [] => true | _ => false end), f2, c2, false. split; [exact Hs2 |]. split.
    + cbn [ends_cmd]. destruct rs; [split; reflexivity | discriminate].
    + cbn [print_cmd]. eapply run_cons; [intro; apply lex_name; exact Hname |].
      kwstep lex_lparen. cbn [negb]. kwstep lex_rparen.
      eapply run_app; [exact Hrun1 | exact Hrun2].
  - (* KBrace *)
    intros l IH f c0 Hwf Hfa Hs. cbn [wf_compound] in Hwf. cbn [faithful_compound] in Hfa.
    apply andb_true_iff in Hfa. destruct Hfa as [Hcl Hfa].
    use_closed IH Hwf Hcl Hfa (-1) (-1) safe_m1 f1 c1 Hs1 Hrun1.
    apply (reads_closed _ _ _ (-1) (-1) _ safe_m1). cbn [print_compound].
    kwstep lex_lbrace. kwlast lex_rbrace. exact Hrun1.
  - (* KSubshell *)
    intros l IH f c0 Hwf Hfa Hs. cbn [wf_compound] in Hwf. cbn [faithful_compound] in Hfa.
    destruct (IH f c0 Hwf Hfa Hs) as (a1 & f1 & c1 & g1 & Hs1 & _ & Hrun1).
    apply (reads_closed _ _ _ f1 c1 _ Hs1). cbn [print_compound].
    kwstep lex_lparen. cbn [negb]. kwlast lex_rparen. exact Hrun1.
  - (* KFor *)
    intros name m body IH f c0 Hwf Hfa Hs. cbn [wf_compound] in Hwf.
    apply andb_true_iff in Hwf. destruct Hwf as [Hwf Hbody].
    apply andb_true_iff in Hwf. destruct Hwf as [Hname Hm].
    cbn [faithful_compound] in Hfa. apply andb_true_iff in Hfa. destruct Hfa as [Hcl Hfa].
    apply (reads_closed _ _ _ (-1) (-1) _ safe_m1). cbn [print_compound].
    kwstep lex_for. eapply run_cons; [intro; apply lex_arg_for_name; exact Hname |].
    destruct m as [| | ws]; cbn [app].
    + use_closed IH Hbody Hcl Hfa 2 (-1) safe_2_m1 f1 c1 Hs1 Hrun1.
      kwstep lex_for_do. kwlast lex_done. exact Hrun1.
    + use_closed IH Hbody Hcl Hfa (-1) (-1) safe_m1 f1 c1 Hs1 Hrun1.
      kwstep lex_semi. kwstep lex_do. kwlast lex_done. exact Hrun1.
    + destruct (run_words ws 2 (-1) false Hm safe_2_m1) as (f1 & c1 & Hs1 & Hrunw).
      use_closed IH Hbody Hcl Hfa (-1) (-1) safe_m1 f2 c2 Hs2 Hrun2.
      kwstep lex_for_in. rewrite <- app_assoc. eapply run_app; [exact Hrunw |]. cbn [app].
      kwstep lex_semi. kwstep lex_do. kwlast lex_done. exact Hrun2.
  - (* KCase *)
    intros w items IH f c0 Hwf Hfa Hs. cbn [wf_compound] in Hwf.
    apply andb_true_iff in Hwf. destruct Hwf as [Hw Hitems]. cbn [faithful_compound] in Hfa.
    destruct (IH false (-1) 2 Hitems Hfa (or_introl (conj eq_refl (conj eq_refl eq_refl))))
      as (f1 & c1 & Hs1 & Hrun1).
    apply (reads_closed _ _ _ f1 c1 _ Hs1). cbn [print_compound].
    kwstep lex_case. eapply run_cons; [intro; apply lex_arg_case_subject; exact Hw |].
    kwstep lex_case_in. exact Hrun1.
  - (* KIf *)
    intros c IHc t IHt e IHe f c0 Hwf Hfa Hs. cbn [wf_compound] in Hwf.
    apply andb_true_iff in Hwf. destruct Hwf as [Hwf He].
    apply andb_true_iff in Hwf. destruct Hwf as [Hc Ht].
    cbn [faithful_compound] in Hfa. split_b Hfa.
    use_closed IHc Hc Hfa Hb2 (-1) (-1) safe_m1 f1 c1 Hs1 Hrun1.
    use_closed IHt Ht Hb1 Hb0 (-1) (-1) safe_m1 f2 c2 Hs2 Hrun2.
    destruct (IHe f2 c2 He Hb Hs2) as (a3 & f3 & c3 & g3 & Hs3 & Ha3 & Hrun3). destruct (Ha3 eq_refl) as [-> ->].
    apply (reads_closed _ _ _ f3 c3 _ Hs3). cbn [print_compound].
    kwstep lex_if. eapply run_app; [exact Hrun1 |]. kwstep lex_then.
    eapply run_app; [exact Hrun2 | exact Hrun3].
  - (* KWhile *)
    intros c IHc b IHb f c0 Hwf Hfa Hs. cbn [wf_compound] in Hwf.
    apply andb_true_iff in Hwf. destruct Hwf as [Hc Hb'].
    cbn [faithful_compound] in Hfa. split_b Hfa.
    use_closed IHc Hc Hfa Hb1 (-1) (-1) safe_m1 f1 c1 Hs1 Hrun1.
    use_closed IHb Hb' Hb0 Hb (-1) (-1) safe_m1 f2 c2 Hs2 Hrun2.
    apply (reads_closed _ _ _ (-1) (-1) _ safe_m1). cbn [print_compound].
    kwstep lex_while. eapply run_app; [exact Hrun1 |]. kwstep lex_do. kwlast lex_done. exact Hrun2.
  - (* KUntil *)
    intros c IHc b IHb f c0 Hwf Hfa Hs. cbn [wf_compound] in Hwf.
    apply andb_true_iff in Hwf. destruct Hwf as [Hc Hb'].
    cbn [faithful_compound] in Hfa. split_b Hfa.
    use_closed IHc Hc Hfa Hb1 (-1) (-1) safe_m1 f1 c1 Hs1 Hrun1.
    use_closed IHb Hb' Hb0 Hb (-1) (-1) safe_m1 f2 c2 Hs2 Hrun2.
    apply (reads_closed _ _ _ (-1) (-1) _ safe_m1). cbn [print_compound].
    kwstep lex_until. eapply run_app; [exact Hrun1 |]. kwstep lex_do. kwlast lex_done. exact Hrun2.
  - (* ENone *)
    intros f c0 _ _ _. apply (reads_closed _ _ _ (-1) (-1) _ safe_m1). cbn [print_else].
    apply run_one. intro. apply lex_fi.
  - (* EElse *)
    intros l IH f c0 Hwf Hfa Hs. cbn [wf_else] in Hwf. cbn [faithful_else] in Hfa.
    apply andb_true_iff in Hfa. destruct Hfa as [Hcl Hfa].
    use_closed IH Hwf Hcl Hfa (-1) (-1) safe_m1 f1 c1 Hs1 Hrun1.
    apply (reads_closed _ _ _ (-1) (-1) _ safe_m1). cbn [print_else].
    kwstep lex_else. kwlast lex_fi. exact Hrun1.
  - (* EElif *)
    intros c IHc t IHt e IHe f c0 Hwf Hfa Hs. cbn [wf_else] in Hwf.
    apply andb_true_iff in Hwf. destruct Hwf as [Hwf He].
    apply andb_true_iff in Hwf. destruct Hwf as [Hc Ht].
    cbn [faithful_else] in Hfa. split_b Hfa.
    use_closed IHc Hc Hfa Hb2 (-1) (-1) safe_m1 f1 c1 Hs1 Hrun1.
    use_closed IHt Ht Hb1 Hb0 (-1) (-1) safe_m1 f2 c2 Hs2 Hrun2.
    destruct (IHe f2 c2 He Hb Hs2) as (a3 & f3 & c3 & g3 & Hs3 & Ha3 & Hrun3). destruct (Ha3 eq_refl) as [-> ->].
    apply (reads_closed _ _ _ f3 c3 _ Hs3). cbn [print_else].
    kwstep lex_elif. eapply run_app; [exact Hrun1 |]. kwstep lex_then.
    eapply run_app; [exact Hrun2 | exact Hrun3].
  - (* CINil *)
    intros a f c0 _ _ Hentry. cbn [print_items].
    destruct Hentry as [(-> & -> & ->) | (-> & Hs)].
    + exists (-1), 3. split; [apply safe_m1_3 |]. apply run_one. intro. apply lex_case_in_esac.
    + exists (-1), (-1). split; [apply safe_m1 |]. apply run_one. intro. apply lex_esac_cmdstart.
  - (* CILast *)
    intros lp p ps body IHb a f c0 Hwf Hfa Hentry. cbn [wf_items] in Hwf.
    apply andb_true_iff in Hwf. destruct Hwf as [Hwf Hbody].
    apply andb_true_iff in Hwf. destruct Hwf as [Hp Hps].
    destruct (run_selector lp p ps a f c0 Hp Hps Hentry) as (f1 & c1 & Hs1 & Hrun1).
    cbn [print_items]. exists (-1), (-1). split; [apply safe_m1 |]. destruct body as [| l].
    + eapply run_app; [exact Hrun1 |]. cbn [print_body app]. apply run_one. intro. apply lex_esac_cmdstart.
    + cbn [faithful_items] in Hfa. apply andb_true_iff in Hfa. destruct Hfa as [Hcl Hfa].
      cbn [G_body] in IHb. cbn [wf_body] in Hbody.
      use_closed IHb Hbody Hcl Hfa f1 c1 Hs1 f2 c2 Hs2 Hrun2.
      eapply run_app; [exact Hrun1 |]. cbn [print_body]. kwlast lex_esac_cmdstart. exact Hrun2.
  - (* CICons *)
    intros lp p ps body IHb rest IHr a f c0 Hwf Hfa Hentry. cbn [wf_items] in Hwf.
    apply andb_true_iff in Hwf. destruct Hwf as [Hwf Hrest].
    apply andb_true_iff in Hwf. destruct Hwf as [Hwf Hbody].
    apply andb_true_iff in Hwf. destruct Hwf as [Hp Hps].
    destruct (run_selector lp p ps a f c0 Hp Hps Hentry) as (f1 & c1 & Hs1 & Hrun1).
    cbn [print_items]. destruct body as [| l].
    + cbn [faithful_items] in Hfa.
      destruct (IHr true f1 c1 Hrest Hfa (or_intror (conj eq_refl Hs1))) as (f3 & c3 & Hs3 & Hrun3).
      exists f3, c3. split; [exact Hs3 |].
      eapply run_app; [exact Hrun1 |]. cbn [print_body app]. kwstep lex_semisemi. exact Hrun3.
    + cbn [faithful_items] in Hfa. apply andb_true_iff in Hfa. destruct Hfa as [Hfl Hfr].
      cbn [G_body] in IHb. cbn [wf_body] in Hbody.
      destruct (IHb f1 c1 Hbody Hfl Hs1) as (a2 & f2 & c2 & g2 & Hs2 & _ & Hrun2).
      destruct (IHr true f2 c2 Hrest Hfr (or_intror (conj eq_refl Hs2))) as (f3 & c3 & Hs3 & Hrun3).
      exists f3, c3. split; [exact Hs3 |].
      eapply run_app; [exact Hrun1 |]. cbn [print_body]. eapply run_app; [exact Hrun2 |].
      kwstep lex_semisemi. exact Hrun3.
  - (* BNone *)
    exact I.
  - (* BSome *)
    intros l IH. exact IH.
  - (* PCmd *)
    intros c IH f c0 Hwf Hfa Hs. cbn [wf_pipe faithful_pipe print_pipe ends_pipe] in *.
    exact (IH f c0 Hwf Hfa Hs).
  - (* PPipe *)
    intros p IHp c IHc f c0 Hwf Hfa Hs. cbn [wf_pipe] in Hwf.
    apply andb_true_iff in Hwf. destruct Hwf as [Hp Hc].
    cbn [faithful_pipe] in Hfa. apply andb_true_iff in Hfa. destruct Hfa as [Hfp Hfc].
    destruct (IHp f c0 Hp Hfp Hs) as (a1 & f1 & c1 & g1 & Hs1 & _ & Hrun1).
    destruct (IHc f1 c1 Hc Hfc Hs1) as (a2 & f2 & c2 & g2 & Hs2 & Ha2 & Hrun2).
    exists a2, f2, c2, g2. split; [exact Hs2 |]. split; [exact Ha2 |]. cbn [print_pipe].
    eapply run_app; [exact Hrun1 |]. kwstep lex_pipe. exact Hrun2.
  - (* AOne *)
    intros bang p IH f c0 Hwf Hfa Hs. cbn [wf_andor faithful_andor print_andor ends_andor] in *.
    destruct (run_bang bang f c0 Hs) as (f1 & c1 & Hs1 & Hrunb).
    destruct (IH f1 c1 Hwf Hfa Hs1) as (a2 & f2 & c2 & g2 & Hs2 & Ha2 & Hrun2).
    exists a2, f2, c2, g2. split; [exact Hs2 |]. split; [exact Ha2 |].
    eapply run_app; [exact Hrunb | exact Hrun2].
  - (* AAnd *)
    intros a IHa bang p IHp f c0 Hwf Hfa Hs. cbn [wf_andor] in Hwf.
    apply andb_true_iff in Hwf. destruct Hwf as [Ha Hp].
    cbn [faithful_andor] in Hfa. apply andb_true_iff in Hfa. destruct Hfa as [Hfa' Hfp].
    destruct (IHa f c0 Ha Hfa' Hs) as (a1 & f1 & c1 & g1 & Hs1 & _ & Hrun1).
    destruct (run_bang bang f1 c1 Hs1) as (f2 & c2 & Hs2 & Hrunb).
    destruct (IHp f2 c2 Hp Hfp Hs2) as (a3 & f3 & c3 & g3 & Hs3 & Ha3 & Hrun3).
    exists a3, f3, c3, g3. split; [exact Hs3 |]. split; [exact Ha3 |]. cbn [print_andor].
    eapply run_app; [exact Hrun1 |]. kwstep lex_andand. eapply run_app; [exact Hrunb | exact Hrun3].
  - (* AOr *)
    intros a IHa bang p IHp f c0 Hwf Hfa Hs. cbn [wf_andor] in Hwf.
    apply andb_true_iff in Hwf. destruct Hwf as [Ha Hp].
    cbn [faithful_andor] in Hfa. apply andb_true_iff in Hfa. destruct Hfa as [Hfa' Hfp].
    destruct (IHa f c0 Ha Hfa' Hs) as (a1 & f1 & c1 & g1 & Hs1 & _ & Hrun1).
    destruct (run_bang bang f1 c1 Hs1) as (f2 & c2 & Hs2 & Hrunb).
    destruct (IHp f2 c2 Hp Hfp Hs2) as (a3 & f3 & c3 & g3 & Hs3 & Ha3 & Hrun3).
    exists a3, f3, c3, g3. split; [exact Hs3 |]. split; [exact Ha3 |]. cbn [print_andor].
    eapply run_app; [exact Hrun1 |]. kwstep lex_oror. eapply run_app; [exact Hrunb | exact Hrun3].
  - (* QOne *)
    intros a IH f c0 Hwf Hfa Hs. cbn [wf_seq faithful_seq print_seq ends_seq] in *.
    exact (IH f c0 Hwf Hfa Hs).
  - (* QSeq *)
    intros q IHq s a IHa f c0 Hwf Hfa Hs. cbn [wf_seq] in Hwf.
    apply andb_true_iff in Hwf. destruct Hwf as [Hq Ha].
    cbn [faithful_seq] in Hfa. apply andb_true_iff in Hfa. destruct Hfa as [Hfq Hfa'].
    destruct (IHq f c0 Hq Hfq Hs) as (a1 & f1 & c1 & g1 & Hs1 & _ & Hrun1).
    destruct (IHa f1 c1 Ha Hfa' Hs1) as (a2 & f2 & c2 & g2 & Hs2 & Ha2 & Hrun2).
    exists a2, f2, c2, g2. split; [exact Hs2 |]. split; [exact Ha2 |]. cbn [print_seq].
    eapply run_app; [exact Hrun1 |].
    apply (run_app [print_sep s] (print_andor a)) with true f1 c1 false false; [apply run_sep | exact Hrun2].
  - (* CL *)
    intros q IH last f c0 Hwf Hfa Hs. cbn [wf_clist] in Hwf. cbn [faithful_clist] in Hfa.
    destruct (IH f c0 Hwf Hfa Hs) as (a1 & f1 & c1 & g1 & Hs1 & Ha1 & Hrun1).
    destruct last as [s |]; cbn [print_clist closed_clist].
    + exists true, f1, c1, false. split; [exact Hs1 |]. split; [intros _; split; reflexivity |].
      eapply run_app; [exact Hrun1 | apply run_sep].
    + exists a1, f1, c1, g1. split; [exact Hs1 |]. split; [exact Ha1 | exact Hrun1].
Qed.
