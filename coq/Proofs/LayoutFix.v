(* The compact layout fixers (Model/LayoutFix.v) change blanks only. *)
From PV Require Import Lib.Bytes Model.Tabs Model.Varalign Model.LayoutFix Proofs.Tabs Proofs.VaralignBlanks.
From Coq Require Import ZifyBool ZifyN ZifyNat.
Open Scope Z_scope.

Definition blank_eq (a b : str) : Prop := strip_blanks a = strip_blanks b.

Lemma replace_at_0 s from to t : replace_at s 0 from to = Ok t ->
  exists r, s = from ++ r /\ t = to ++ r.
Proof.
  intro H. change s with ([] ++ s) in H. change 0 with (len []) in H.
  apply replace_at_ok in H as (r & E1 & E2 & _). exists r. auto.
Qed.

(* ---------- CheckTrailingWhitespace ---------- *)

(* what CheckTrailingWhitespace makes of one raw line: the blanks at the end go,
   unless what is left would end in a backslash *)
Definition trim_result (t : str) : str :=
  if ends_backslash (rtrimHspace t) then t else rtrimHspace t.

Lemma firstn_rtrim t : firstn (Z.to_nat (len (rtrimHspace t))) t = rtrimHspace t.
Proof.
  destruct (rtrimHspace_split t) as (b & E & B). rewrite to_nat_len.
  rewrite E at 2. rewrite firstn_app, firstn_all, Nat.sub_diag. simpl. apply app_nil_r.
Qed.

Lemma trim_raw_spec t : trim_raw t = Ok (trim_result t).
Proof.
  unfold trim_raw, trim_result. cbv zeta. rewrite firstn_rtrim.
  destruct (rtrimHspace_split t) as (b & E & B).
  destruct (Z.eqb_spec (len (rtrimHspace t)) (len t)) as [L|L].
  - assert (Et : rtrimHspace t = t).
    { rewrite E in L at 2. rewrite len_app in L. unfold len in L.
      destruct b; [rewrite app_nil_r in E; symmetry; exact E|simpl in L; lia]. }
    rewrite Et. destruct (ends_backslash t); reflexivity.
  - destruct (ends_backslash (rtrimHspace t)); [reflexivity|].
    rewrite to_nat_len.
    assert (S : skipn (length (rtrimHspace t)) t = b).
    { rewrite E at 2. rewrite skipn_app, skipn_all, Nat.sub_diag. reflexivity. }
    rewrite S. rewrite E at 1.
    assert (NB : b <> []). { intro Hb. rewrite Hb, app_nil_r in E. rewrite <- E in L. lia. }
    rewrite <- (app_nil_r b) at 1.
    rewrite replace_at_succeeds by exact NB. simpl. rewrite app_nil_r. reflexivity.
Qed.

Definition trimmed_of (a b : str) : Prop := exists x, a = b ++ x /\ blankb x = true.

Lemma trimmed_blank_eq a b : trimmed_of a b -> blank_eq a b.
Proof.
  intros (x & -> & B). unfold blank_eq. rewrite strip_blanks_app, (strip_blanks_blank x B), app_nil_r. reflexivity.
Qed.

Lemma trim_result_trimmed t : trimmed_of t (trim_result t).
Proof.
  unfold trim_result. destruct (ends_backslash (rtrimHspace t)).
  - exists []. rewrite app_nil_r. auto.
  - destruct (rtrimHspace_split t) as (b & E & B). exists b. auto.
Qed.

Lemma trim_result_idem t : trim_result (trim_result t) = trim_result t.
Proof.
  unfold trim_result. destruct (ends_backslash (rtrimHspace t)) eqn:E.
  - rewrite E. reflexivity.
  - rewrite rtrimHspace_idem, E. reflexivity.
Qed.

(* no panic on a non-empty list of raw lines; only the last line loses its trailing blanks *)
Lemma checkTrailingWhitespace_spec raws : raws <> [] ->
  exists init last, raws = init ++ [last] /\
    checkTrailingWhitespace raws = Ok (init ++ [trim_result last]).
Proof.
  induction raws as [|t r IH]; intro NE; [congruence|].
  destruct r as [|t2 r2].
  - exists [], t. split; [reflexivity|]. simpl. rewrite trim_raw_spec. reflexivity.
  - destruct (IH ltac:(discriminate)) as (init & last & E & R).
    exists (t :: init), last. split; [simpl; rewrite E; reflexivity|].
    change (checkTrailingWhitespace (t :: t2 :: r2)) with
      (r' <- checkTrailingWhitespace (t2 :: r2) ;; Ok (t :: r')).
    rewrite R. reflexivity.
Qed.

Theorem trailing_blanks_only raws raws' : checkTrailingWhitespace raws = Ok raws' ->
  Forall2 trimmed_of raws raws'.
Proof.
  intro H. destruct raws as [|t r]; [discriminate|].
  destruct (checkTrailingWhitespace_spec (t :: r) ltac:(discriminate)) as (init & last & E & R).
  rewrite R in H. inversion H; subst raws'. rewrite E.
  apply Forall2_app.
  - apply Forall2_refl. intro a. exists []. rewrite app_nil_r. auto.
  - constructor; [|constructor]. apply trim_result_trimmed.
Qed.

(* a second pass finds nothing to do *)
Theorem trailing_settles raws raws' : checkTrailingWhitespace raws = Ok raws' ->
  checkTrailingWhitespace raws' = Ok raws'.
Proof.
  intro H. destruct raws as [|t r]; [discriminate|].
  destruct (checkTrailingWhitespace_spec (t :: r) ltac:(discriminate)) as (init & last & E & R).
  rewrite R in H. inversion H; subst raws'.
  destruct (checkTrailingWhitespace_spec (init ++ [trim_result last])) as (i2 & l2 & E2 & R2).
  { destruct init; discriminate. }
  apply app_inj_tail in E2 as [-> <-]. rewrite R2, trim_result_idem. reflexivity.
Qed.

(* ---------- checkDirectiveIndentation ---------- *)

Theorem directive_blanks_only sn raw0 indent d r : blankb indent = true ->
  checkDirectiveIndentation sn raw0 indent d = Ok r ->
  blank_eq raw0 r /\
  (r = raw0 \/ exists rest, raw0 = DOT :: indent ++ rest /\ r = DOT :: spaces d ++ rest).
Proof.
  intros B H. unfold checkDirectiveIndentation in H.
  destruct sn; [inversion H; subst; split; [reflexivity|left; reflexivity]|].
  destruct (d <? 0); [discriminate|].
  destruct (str_eqb indent (spaces d)); [inversion H; subst; split; [reflexivity|left; reflexivity]|].
  destruct (has_prefix _ _); [|inversion H; subst; split; [reflexivity|left; reflexivity]].
  apply replace_at_0 in H as (rest & E1 & E2). subst. split.
  - unfold blank_eq. simpl. rewrite !strip_blanks_app.
    rewrite (strip_blanks_blank indent B), (strip_blanks_blank (spaces d) (blankb_spaces d)). reflexivity.
  - right. exists rest. auto.
Qed.

(* ---------- shell lines: tabs -> one tab ---------- *)

Lemma leading_tabs_blank s : blankb (leading_tabs s) = true.
Proof.
  unfold leading_tabs. pose proof (span_all (fun c => (c =? TAB)%N) s) as A.
  induction (fst (span (fun c : N => (c =? TAB)%N) s)) as [|c l IH]; [reflexivity|].
  simpl in *. apply andb_true_iff in A as [A1 A2]. apply N.eqb_eq in A1. subst c. simpl. apply IH, A2.
Qed.

Theorem shell_blanks_only flag raws raws' : shellTabs flag raws = Ok raws' ->
  Forall2 blank_eq raws raws'.
Proof.
  unfold shellTabs. destruct (negb flag).
  { intro H; inversion H; subst. apply Forall2_refl. reflexivity. }
  destruct raws as [|r0 rs]; [discriminate|].
  set (tb := leading_tabs r0). pose proof (leading_tabs_blank r0 : blankb tb = true) as B.
  generalize (r0 :: rs). clearbody tb. clear r0 rs. intros l. revert raws'.
  induction l as [|r l IH]; intros raws' H; simpl in H.
  - inversion H; constructor.
  - destruct (if has_prefix tb r then replace_at r 0 tb [TAB] else Ok r) as [r'|] eqn:E; [|discriminate].
    cbn [bind] in H. destruct (map_res _ l) as [l'|] eqn:M; [|discriminate]. cbn [bind] in H.
    inversion H; subst. constructor; [|apply IH; reflexivity].
    destruct (has_prefix tb r).
    + apply replace_at_0 in E as (rest & E1 & E2). subst. unfold blank_eq.
      rewrite !strip_blanks_app, (strip_blanks_blank tb B). reflexivity.
    + inversion E; reflexivity.
Qed.

(* ---------- fixSpaceAfterVarname ---------- *)

Lemma index_of_spec sub s : forall i, index_of sub s = Some i ->
  0 <= i /\ s = firstn (Z.to_nat i) s ++ sub ++ skipn (Z.to_nat i + length sub) s.
Proof.
  induction s as [|c s IH]; intros i H; simpl in H.
  - unfold has_prefix in H. destruct (strip_prefix sub []) as [r|] eqn:P; [|discriminate].
    inversion H; subst. apply strip_prefix_some in P. split; [lia|].
    destruct sub; [|discriminate]. reflexivity.
  - unfold has_prefix in H. destruct (strip_prefix sub (c :: s)) as [r|] eqn:P.
    + inversion H; subst. apply strip_prefix_some in P. split; [lia|].
      simpl. rewrite P at 1. f_equal. rewrite P. rewrite skipn_app, skipn_all, Nat.sub_diag. reflexivity.
    + destruct (index_of sub s) as [j|] eqn:J; [|discriminate]. inversion H; subst.
      destruct (IH j eq_refl) as [J0 JE]. split; [lia|].
      replace (Z.to_nat (j + 1)) with (S (Z.to_nat j)) by lia. simpl. f_equal. exact JE.
Qed.

Lemma replaceOnce_blank_eq s from to s' : blank_eq from to ->
  replaceOnce s from to = Some s' -> blank_eq s s'.
Proof.
  intros BE H. unfold replaceOnce in H.
  destruct (index_of from s) as [i|] eqn:I; [|discriminate].
  destruct (last_index_of from s); [|discriminate].
  destruct (i =? z); [|discriminate]. inversion H; subst.
  destruct (index_of_spec from s i I) as [_ E]. unfold blank_eq in *.
  rewrite E at 1. rewrite !strip_blanks_app, BE. reflexivity.
Qed.

Lemma replace_first_blank_eq raws from to : blank_eq from to ->
  Forall2 blank_eq raws (replace_first raws from to).
Proof.
  intro BE. induction raws as [|t r IH]; simpl; [constructor|].
  destruct (replaceOnce t from to) as [t'|] eqn:R.
  - constructor; [eapply replaceOnce_blank_eq; eauto|apply Forall2_refl; reflexivity].
  - constructor; [reflexivity|exact IH].
Qed.

Lemma has_suffix_b_true suffix s : has_suffix_b suffix s = true ->
  s = firstn (length s - length suffix) s ++ suffix.
Proof.
  unfold has_suffix_b, has_prefix. destruct (strip_prefix (rev suffix) (rev s)) as [r|] eqn:E; [|discriminate].
  intros _. apply strip_prefix_some in E. apply (f_equal (@rev N)) in E. rewrite rev_involutive, rev_app_distr, rev_involutive in E.
  remember (rev r) as x eqn:Hx. clear Hx r. subst s.
  rewrite app_length, Nat.add_sub, firstn_app, firstn_all, Nat.sub_diag. simpl. rewrite app_nil_r. reflexivity.
Qed.

(* what the fix does, exactly: in the first raw line that holds it (and only if the text occurs
   exactly once), leadingComment ++ varnameOp ++ spaceBeforeValue is replaced by the same text
   without the blanks b directly in front of the operator and with a re-aligned blank a after
   it.  The bytes of the name -- blanks inside ${...} and an escaped '#' included -- stay. *)
Theorem spaceAfterVarname_exact raws vn sp op p0 raws' :
  fixSpaceAfterVarname raws vn sp op p0 = Ok raws' ->
  raws' = raws \/
  exists name b a, vo p0 = name ++ b ++ op /\ rtrimHspace name = name /\ blankb b = true /\ blankb a = true /\
    raws' = replaceAfter raws [] (lc p0 ++ (name ++ b ++ op) ++ sbv p0) (lc p0 ++ (name ++ op) ++ a).
Proof.
  intros H. unfold fixSpaceAfterVarname in H.
  destruct (is_nil sp); [inversion H; left; reflexivity|].
  destruct (_ && _); [inversion H; left; reflexivity|].
  destruct (_ && _); [inversion H; left; reflexivity|].
  destruct (has_suffix_b op (vo p0)) eqn:S; cbn [negb] in H; [|inversion H; left; reflexivity].
  apply has_suffix_b_true in S.
  set (pre := firstn (length (vo p0) - length op) (vo p0)) in *.
  destruct (alignWith (lc p0 ++ rtrimHspace pre ++ op) (lc p0 ++ vo p0 ++ sbv p0)) as [after|] eqn:A; [|discriminate].
  cbn [lift bind] in H. inversion H; subst raws'; clear H.
  apply alignWith_spec in A as (a & -> & Ba).
  destruct (rtrimHspace_split pre) as (b & Eb & Bb).
  right. exists (rtrimHspace pre), b, a. repeat split.
  - rewrite S at 1. rewrite Eb at 1. rewrite <- app_assoc. reflexivity.
  - apply rtrimHspace_idem.
  - exact Bb.
  - exact Ba.
  - assert (EV : vo p0 = rtrimHspace pre ++ b ++ op).
    { rewrite S at 1. rewrite Eb at 1. rewrite <- app_assoc. reflexivity. }
    rewrite <- EV. rewrite <- !app_assoc. reflexivity.
Qed.

(* the fix keeps everything but blanks (the leading comment of a commented-out assignment
   included), whatever the splitter's varnameOp looks like *)
Theorem spaceAfterVarname_blanks_only raws vn sp op p0 raws' :
  blankb (sbv p0) = true ->
  fixSpaceAfterVarname raws vn sp op p0 = Ok raws' -> Forall2 blank_eq raws raws'.
Proof.
  intros B2 H. destruct (spaceAfterVarname_exact _ _ _ _ _ _ H) as [->|(name & b & a & EV & _ & Bb & Ba & ->)].
  - apply Forall2_refl. reflexivity.
  - unfold replaceAfter. destruct (negb _); [apply Forall2_refl; reflexivity|].
    apply replace_first_blank_eq. unfold blank_eq. simpl app.
    rewrite !strip_blanks_app.
    rewrite (strip_blanks_blank _ B2), (strip_blanks_blank _ Bb), (strip_blanks_blank _ Ba).
    simpl. rewrite !app_nil_r. reflexivity.
Qed.

(* a commented-out assignment keeps its comment marker (it did not before /repo 42e6bf1) *)
Definition sav_raws : list str := [[35; 86; 32; 61; 9; 118]%N].             (* "#V =\tv" *)
Definition sav_parts : parts := mkParts [35]%N [86; 32; 61]%N [9]%N [118]%N [] [].
Lemma spaceAfterVarname_keeps_comment :
  fixSpaceAfterVarname sav_raws [86]%N [32]%N [61]%N sav_parts = Ok [[35; 86; 61; 9; 118]%N].   (* "#V=\tv" *)
Proof. vm_compute. reflexivity. Qed.
