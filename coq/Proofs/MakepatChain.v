(* What Compile builds: a chain.  The pattern text is parsed into elements
   (a star, or a set of byte ranges); state i is "after the i-th non-star
   element", a star is a self-loop, every other element one bundle of edges
   i -> i+1.  The chain accepts exactly what the element list matches. *)
From PV Require Import Lib.Bytes Gen.NumberAutomaton Model.Makepat
  Proofs.MakepatBasics Proofs.MakepatNFA.
From Coq Require Import ZifyBool ZifyN ZifyNat.
Open Scope N_scope.

Inductive elem :=
| EStar
| ERanges (rs : list (N * N)).

Definition in_ranges (rs : list (N * N)) (c : N) : bool :=
  existsb (fun r => (fst r <=? c) && (c <=? snd r)) rs.

(* the element list of a pattern text, as Compile reads it *)
Inductive parses : str -> list elem -> Prop :=
| P_nil : parses [] []
| P_star rest es : parses rest es -> parses (42 :: rest) (EStar :: es)
| P_quest rest es : parses rest es -> parses (63 :: rest) (ERanges [(0, 255)] :: es)
| P_esc c rest es : parses rest es -> parses (92 :: c :: rest) (ERanges [(c, c)] :: es)
| P_class rest neg r1 chars rest2 es :
    skip_byte 94 rest = (neg, r1) -> class_loop r1 chars_empty = Some (chars, rest2) ->
    parses rest2 es ->
    parses (91 :: rest) (ERanges (runs (if neg then map negb chars else chars)) :: es)
| P_lit c rest es : c <> 42 -> c <> 63 -> c <> 92 -> c <> 91 ->
    parses rest es -> parses (c :: rest) (ERanges [(c, c)] :: es).

(* matching an element list *)
Fixpoint gmatch (es : list elem) (s : str) : bool :=
  match es with
  | [] => match s with [] => true | _ => false end
  | EStar :: es' =>
    (fix go (s : str) : bool :=
       gmatch es' s || match s with [] => false | _ :: s' => go s' end) s
  | ERanges rs :: es' =>
    match s with [] => false | c :: s' => in_ranges rs c && gmatch es' s' end
  end.

Lemma gmatch_star es s :
  gmatch (EStar :: es) s = gmatch es s || match s with [] => false | _ :: s' => gmatch (EStar :: es) s' end.
Proof. destruct s; reflexivity. Qed.

Lemma gmatch_star_star es s : gmatch (EStar :: EStar :: es) s = gmatch (EStar :: es) s.
Proof.
  induction s as [|c s IH].
  - rewrite (gmatch_star (EStar :: es)). rewrite orb_false_r. reflexivity.
  - rewrite (gmatch_star (EStar :: es) (c :: s)), IH.
    rewrite (gmatch_star es (c :: s)). destruct (gmatch es (c :: s)); [reflexivity|]. cbn [orb].
    destruct (gmatch (EStar :: es) s); reflexivity.
Qed.

Lemma gmatch_stars k es s : gmatch (repeat EStar (S k) ++ es) s = gmatch (EStar :: es) s.
Proof.
  induction k as [|k IH]; [reflexivity|].
  change (repeat EStar (S (S k)) ++ es) with (EStar :: EStar :: (repeat EStar k ++ es)).
  rewrite gmatch_star_star. exact IH.
Qed.

Lemma gmatch_star_nil_true s : gmatch [EStar] s = true.
Proof. induction s as [|c s IH]; [reflexivity|]. rewrite gmatch_star, IH. apply orb_true_r. Qed.

(* ---------- the chain ---------- *)

Definition mk_trans (to : N) (r : N * N) : transition := mkT (fst r) (snd r) to.

Fixpoint chain_from (n : N) (cur : list transition) (es : list elem) : list state :=
  match es with
  | [] => [mkS cur true]
  | EStar :: es' => chain_from n (cur ++ [mkT 0 255 n]) es'
  | ERanges rs :: es' => mkS (cur ++ map (mk_trans (n + 1)) rs) false :: chain_from (n + 1) [] es'
  end.

Fixpoint nonstars (es : list elem) : N :=
  match es with
  | [] => 0
  | EStar :: es' => nonstars es'
  | ERanges _ :: es' => 1 + nonstars es'
  end.

Lemma chain_from_nlen es : forall n cur, nlen (chain_from n cur es) = 1 + nonstars es.
Proof.
  induction es as [|[|rs] es IH]; intros n cur; cbn [chain_from nonstars nlen].
  - reflexivity.
  - apply IH.
  - rewrite IH. lia.
Qed.

Lemma skip_byte_length b rest neg r1 : skip_byte b rest = (neg, r1) -> (length r1 <= length rest)%nat.
Proof.
  unfold skip_byte. destruct rest as [|c r]; [intro H; injection H as _ <-; lia|].
  destruct (c =? b); intro H; injection H as _ <-; cbn [length]; lia.
Qed.

Lemma class_loop_length n : forall r cs chars rest2, (length r <= n)%nat ->
  class_loop r cs = Some (chars, rest2) -> (length rest2 < length r)%nat.
Proof.
  induction n as [|n IH]; intros r cs chars rest2 Hn H.
  - destruct r; [discriminate|cbn in Hn; lia].
  - destruct r as [|ch q1]; [discriminate|]. cbn [class_loop] in H.
    destruct (ch =? 93); [injection H as _ <-; cbn [length]; lia|].
    destruct q1 as [|d q2]; [discriminate|].
    destruct (d =? 45).
    + destruct q2 as [|mx q3]; [discriminate|]. cbn [length] in Hn.
      destruct (mx <? ch); apply IH in H; cbn [length]; lia.
    + apply IH in H; cbn [length] in *; lia.
Qed.

Lemma parses_nonstars pat es : parses pat es -> nonstars es <= N.of_nat (length pat).
Proof.
  induction 1; cbn [nonstars length]; try lia.
  (* class: rest2 is a suffix of rest *)
  apply skip_byte_length in H. apply (class_loop_length _ _ _ _ _ (le_n _)) in H0. lia.
Qed.

(* ---------- Compile builds the chain ---------- *)

Lemma upd_n_app_l {A} (l1 l2 : list A) i f l1' :
  upd_n l1 i f = Some l1' -> upd_n (l1 ++ l2) i f = Some (l1' ++ l2).
Proof.
  revert i l1'; induction l1 as [|x l1 IH]; intros i l1' H; [discriminate|].
  cbn [app]. rewrite upd_n_cons in *. destruct (i =? 0).
  - injection H as <-. reflexivity.
  - destruct (upd_n l1 (N.pred i) f) as [t|] eqn:E; [|discriminate]. injection H as <-.
    rewrite (IH _ _ E). reflexivity.
Qed.

(* adding a transition to the last-but-k state *)
Lemma add_transition_at pre cur e post t :
  add_transition (pre ++ mkS cur e :: post) (nlen pre) t = Some (pre ++ mkS (cur ++ [t]) e :: post).
Proof.
  unfold add_transition. change (pre ++ mkS cur e :: post) with (pre ++ [mkS cur e] ++ post).
  rewrite app_assoc. erewrite upd_n_app_l; [|apply upd_n_last]. rewrite <- app_assoc. reflexivity.
Qed.

Lemma add_transitions_list_at rs : forall pre cur e post to,
  add_transitions_list (pre ++ mkS cur e :: post) (nlen pre) rs to
  = Some (pre ++ mkS (cur ++ map (mk_trans to) rs) e :: post).
Proof.
  induction rs as [|[lo hi] rs IH]; intros pre cur e post to; cbn [add_transitions_list map].
  - rewrite app_nil_r. reflexivity.
  - rewrite add_transition_at, IH. rewrite <- app_assoc. reflexivity.
Qed.

Lemma compile_single_at pre cur lo hi :
  compile_single (pre ++ [mkS cur false]) (nlen pre) lo hi
  = Some (pre ++ [mkS (cur ++ [mkT lo hi (nlen pre + 1)]) false; mkS [] false], nlen pre + 1).
Proof.
  unfold compile_single. rewrite add_state_spec.
  rewrite nlen_app. cbn [nlen]. replace (nlen pre + N.succ 0) with (nlen pre + 1) by lia.
  rewrite to_state_id_id.
  rewrite <- app_assoc. cbn [app]. rewrite add_transition_at. reflexivity.
Qed.

Lemma compile_loop_chain fuel : forall rest pre cur a,
  compile_loop fuel (pre ++ [mkS cur false]) (nlen pre) rest = Ok (Some a) ->
  exists es, parses rest es /\ a = pre ++ chain_from (nlen pre) cur es.
Proof.
  induction fuel as [|f IH]; intros rest pre cur a H; [discriminate|].
  destruct rest as [|ch rest1]; cbn [compile_loop] in H.
  - unfold set_end in H. rewrite upd_n_last in H. injection H as <-.
    exists []. split; [constructor|reflexivity].
  - destruct (N.eqb_spec ch 42) as [->|H42].
    { change (pre ++ [mkS cur false]) with (pre ++ mkS cur false :: []) in H.
      rewrite add_transition_at in H. apply IH in H as (es & P & ->).
      exists (EStar :: es). split; [constructor; exact P|reflexivity]. }
    destruct (N.eqb_spec ch 63) as [->|H63].
    { rewrite compile_single_at in H.
      change (pre ++ [mkS (cur ++ [mkT 0 255 (nlen pre + 1)]) false; mkS [] false])
        with (pre ++ [mkS (cur ++ [mkT 0 255 (nlen pre + 1)]) false] ++ [mkS [] false]) in H.
      rewrite app_assoc in H.
      replace (nlen pre + 1) with (nlen (pre ++ [mkS (cur ++ [mkT 0 255 (nlen pre + 1)]) false])) in H at 2
        by (rewrite nlen_app; cbn; lia).
      apply IH in H as (es & P & ->).
      exists (ERanges [(0, 255)] :: es). split; [constructor; exact P|].
      rewrite <- app_assoc, nlen_app. cbn [app chain_from map mk_trans fst snd nlen].
      replace (nlen pre + N.succ 0) with (nlen pre + 1) by lia. reflexivity. }
    destruct (N.eqb_spec ch 92) as [->|H92].
    { destruct rest1 as [|ch2 rest2]; [discriminate|].
      rewrite compile_single_at in H.
      change (pre ++ [mkS (cur ++ [mkT ch2 ch2 (nlen pre + 1)]) false; mkS [] false])
        with (pre ++ [mkS (cur ++ [mkT ch2 ch2 (nlen pre + 1)]) false] ++ [mkS [] false]) in H.
      rewrite app_assoc in H.
      replace (nlen pre + 1) with (nlen (pre ++ [mkS (cur ++ [mkT ch2 ch2 (nlen pre + 1)]) false])) in H at 2
        by (rewrite nlen_app; cbn; lia).
      apply IH in H as (es & P & ->).
      exists (ERanges [(ch2, ch2)] :: es). split; [constructor; exact P|].
      rewrite <- app_assoc, nlen_app. cbn [app chain_from map mk_trans fst snd nlen].
      replace (nlen pre + N.succ 0) with (nlen pre + 1) by lia. reflexivity. }
    destruct (N.eqb_spec ch 91) as [->|H91].
    { unfold compile_char_class in H.
      destruct (skip_byte 94 rest1) as [neg r1] eqn:Esk.
      rewrite add_state_spec in H.
      destruct (class_loop r1 chars_empty) as [[chars rest2]|] eqn:Ecl; [|discriminate].
      rewrite nlen_app in H. cbn [nlen] in H.
      replace (nlen pre + N.succ 0) with (nlen pre + 1) in H by lia.
      rewrite to_state_id_id in H.
      unfold add_transitions in H. rewrite <- app_assoc in H. cbn [app] in H.
      rewrite add_transitions_list_at in H.
      set (rs := runs (if neg then map negb chars else chars)) in *.
      change (pre ++ [mkS (cur ++ map (mk_trans (nlen pre + 1)) rs) false; mkS [] false])
        with (pre ++ [mkS (cur ++ map (mk_trans (nlen pre + 1)) rs) false] ++ [mkS [] false]) in H.
      rewrite app_assoc in H.
      replace (nlen pre + 1) with (nlen (pre ++ [mkS (cur ++ map (mk_trans (nlen pre + 1)) rs) false])) in H at 2
        by (rewrite nlen_app; cbn; lia).
      apply IH in H as (es & P & ->).
      exists (ERanges rs :: es). split; [econstructor; eassumption|].
      rewrite <- app_assoc, nlen_app. cbn [app chain_from nlen].
      replace (nlen pre + N.succ 0) with (nlen pre + 1) by lia. reflexivity. }
    rewrite compile_single_at in H.
    change (pre ++ [mkS (cur ++ [mkT ch ch (nlen pre + 1)]) false; mkS [] false])
      with (pre ++ [mkS (cur ++ [mkT ch ch (nlen pre + 1)]) false] ++ [mkS [] false]) in H.
    rewrite app_assoc in H.
    replace (nlen pre + 1) with (nlen (pre ++ [mkS (cur ++ [mkT ch ch (nlen pre + 1)]) false])) in H at 2
      by (rewrite nlen_app; cbn; lia).
    apply IH in H as (es & P & ->).
    exists (ERanges [(ch, ch)] :: es). split; [constructor; assumption|].
    rewrite <- app_assoc, nlen_app. cbn [app chain_from map mk_trans fst snd nlen].
    replace (nlen pre + N.succ 0) with (nlen pre + 1) by lia. reflexivity.
Qed.

Theorem compile_chain pat a : compile pat = Ok (Some a) ->
  exists es, parses pat es /\ a = chain_from 0 [] es.
Proof.
  intros H. unfold compile in H. rewrite add_state_spec in H. cbn [app nlen] in H.
  rewrite to_state_id_id in H.
  apply (compile_loop_chain _ pat [] [] a) in H. exact H.
Qed.
