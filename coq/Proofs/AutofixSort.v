(* C03: the PLIST sorter writes a permutation of whole lines, under one logged action. *)
From PV Require Import Lib.Bytes Model.Autofix Proofs.Autofix.
From Coq Require Import Lia Permutation.
Open Scope Z_scope.

Lemma span_list_app {A} (f : A -> bool) l : fst (span_list f l) ++ snd (span_list f l) = l.
Proof.
  induction l as [|x l IH]; cbn; [reflexivity|].
  destruct (f x); [|reflexivity]. destruct (span_list f l) as [a b]. cbn in *. rewrite IH. reflexivity.
Qed.

Lemma split_plist_app l h m f : split_plist l = (h, m, f) -> h ++ m ++ f = l.
Proof.
  unfold split_plist.
  set (isc := fun p : nat * pkey => has_prefix at_comment (k_text (snd p))).
  set (isa := fun p : nat * pkey => has_prefix at_sign (k_text (snd p))).
  pose proof (span_list_app isc l) as H1.
  destruct (span_list isc l) as [header rest]. cbn [fst snd] in H1.
  pose proof (span_list_app isa (rev rest)) as H2.
  destruct (span_list isa (rev rest)) as [fr mr]. cbn [fst snd] in H2.
  intro E. inversion E; subst h m f. rewrite <- H1. f_equal.
  rewrite <- (rev_involutive rest), <- H2, rev_app_distr. reflexivity.
Qed.

Lemma stable_insert_perm x l : Permutation (stable_insert x l) (x :: l).
Proof.
  induction l as [|y l IH]; cbn; [reflexivity|].
  destruct (pkey_less (snd x) (snd y)); [reflexivity|].
  rewrite IH. apply perm_swap.
Qed.

Lemma stable_sort_perm l : Permutation (stable_sort l) l.
Proof.
  unfold stable_sort.
  assert (G : forall acc, Permutation (fold_left (fun a x => stable_insert x a) l acc) (l ++ acc)).
  { induction l as [|x l IH]; intro acc; cbn; [reflexivity|].
    rewrite IH. rewrite stable_insert_perm. symmetry. apply Permutation_middle. }
  rewrite G, app_nil_r. reflexivity.
Qed.

Lemma map_nth_seq {A} (l : list A) d : map (fun i => nth i l d) (seq 0 (length l)) = l.
Proof.
  induction l as [|x l IH]; cbn; [reflexivity|]. f_equal.
  rewrite <- seq_shift, map_map. exact IH.
Qed.

Lemma map_fst_combine {A B} (a : list A) (b : list B) : length a = length b -> map fst (combine a b) = a.
Proof.
  revert b; induction a as [|x a IH]; intros [|y b] H; cbn in *; try discriminate; [reflexivity|].
  f_equal. apply IH. lia.
Qed.

(* what plistLineSorter.Sort does to the lines [store] of the file:
   either nothing at all, or the fix object of one line gets the single action
   "Sorting the whole file." and the lines are saved in an order that is a
   permutation of the file's lines (each line as a whole, with everything that
   earlier fixes put into it) *)
Theorem sort_permutes_whole_lines o keys store store' printed ops af :
  length keys = length store -> Forall idle store ->
  plist_sort o keys store = Ok (store', printed, ops, af) ->
  (store' = store /\ printed = [] /\ ops = [] /\ af = false) \/
  (exists view i l, Permutation view store' /\ (ops, af) = save o view /\
     nth_error store' i = Some l /\ (forall k, k <> i -> nth_error store' k = nth_error store k) /\
     (printed = [] \/ printed = [Log (l_file l) DSort (l_lineno l)])).
Proof.
  intros Hlen Hidle. unfold plist_sort.
  destruct (split_plist (combine (seq 0 (length keys)) keys)) as [[header middle] footer] eqn:SP.
  apply split_plist_app in SP.
  match goal with |- context [if ?c then _ else _] => destruct c end; [intro H; inversion H; auto|].
  destruct (negb (shall_be_logged o sorted_before_format)); [intro H; inversion H; auto|].
  destruct (negb (shall_be_logged o silent_format)); [intro H; inversion H; auto|].
  destruct middle as [|[first k] middle']; [intro H; inversion H; auto|].
  destruct (nat_list_eqb _ _); [intro H; inversion H; auto|].
  destruct (nth_error store first) as [l0|] eqn:En; [|discriminate].
  unfold bind. destruct (autofix l0) as [[l1 f1]|] eqn:AF; [|discriminate].
  destruct (set_diag silent_format l1) as [l2|] eqn:SD; [|discriminate].
  destruct (the_fix l2) as [f2|] eqn:TF; [|discriminate].
  destruct (apply o (with_fix l2 (describe 0 DSort l2 f2))) as [[l4 pr]|] eqn:AP; [|discriminate].
  set (store1 := set_nth first l4 store).
  set (view := map (fun p : nat * pkey => nth (fst p) store1 dummy_line) (header ++ stable_sort ((first, k) :: middle') ++ footer)).
  destruct (save o view) as [sops saf] eqn:SV.
  intro H. inversion H; subst store' printed ops af. clear H. right.
  assert (Hl : l_lineno l2 = l_lineno l0 /\ l_file l2 = l_file l0).
  { unfold autofix in AF. unfold set_diag, bind, the_fix in SD.
    destruct (l_fix l0) as [f|].
    - destruct (f_diag f); [|discriminate]. inversion AF; subst l1 f1. rewrite ?E in SD.
      destruct (l_fix l0) as [f'|]; [|discriminate].
      destruct (f_level f'); [discriminate|]. destruct (f_diag f'); [|discriminate]. inversion SD; subst l2. auto.
    - inversion AF; subst l1 f1. cbn in SD. inversion SD; subst l2. auto. }
  exists view, first, l4. repeat split.
  - unfold view.
    assert (P : Permutation (header ++ stable_sort ((first, k) :: middle') ++ footer)
                            (combine (seq 0 (length keys)) keys)).
    { rewrite <- SP. apply Permutation_app_head. apply Permutation_app_tail. apply stable_sort_perm. }
    rewrite (Permutation_map _ P).
    replace (map (fun p : nat * pkey => nth (fst p) store1 dummy_line) (combine (seq 0 (length keys)) keys))
      with (map (fun i => nth i store1 dummy_line) (map fst (combine (seq 0 (length keys)) keys)))
      by (rewrite map_map; reflexivity).
    rewrite map_fst_combine by (rewrite seq_length; reflexivity).
    replace (length keys) with (length store1) by (unfold store1; rewrite set_nth_length; lia).
    rewrite map_nth_seq. reflexivity.
  - symmetry. exact SV.
  - unfold store1. apply nth_error_set_nth. apply nth_error_Some. congruence.
  - intros j Hj. unfold store1. apply nth_error_set_nth_other. congruence.
  - (* what Apply printed: nothing, or the one action that was described *)
    unfold apply, bind, the_fix in AP. cbn [l_fix with_fix] in AP.
    destruct (negb (f_level (describe 0 DSort l2 f2))); [discriminate|].
    match type of AP with (if ?c then _ else _) = _ => destruct c end;
      inversion AP; subst l4 pr; [left; reflexivity|].
    destruct (is_autofix o); [|left; reflexivity].
    unfold the_fix in TF. destruct (l_fix l2) as [f|] eqn:E2; [|discriminate]. inversion TF; subst f.
    (* the fix object was idle or fresh: the only action is the new one *)
    unfold describe, log_of, lineno_of. cbn [f_actions l_file with_fix map].
    assert (I0 : idle l0) by (rewrite Forall_forall in Hidle; apply Hidle; eapply nth_error_In; eassumption).
    assert (Ha : f_actions f2 = []).
    { unfold autofix in AF. unfold set_diag, bind, the_fix in SD. unfold idle in I0.
      destruct (l_fix l0) as [f|] eqn:E0.
      - destruct I0 as (A0 & D0 & L0). rewrite D0 in AF. inversion AF; subst l1 f1. rewrite E0, L0, D0 in SD.
        inversion SD; subst l2. cbn in E2. inversion E2; subst f2. exact A0.
      - inversion AF; subst l1 f1. cbn in SD. inversion SD; subst l2. cbn in E2. inversion E2; subst f2. reflexivity. }
    rewrite Ha. cbn. right. destruct Hl as [-> ->]. rewrite Z.add_0_r. reflexivity.
Qed.
