(* Intersect, part 1: the four nested loops are one fold over a work list. *)
From PV Require Import Lib.Bytes Gen.NumberAutomaton Model.Makepat Proofs.MakepatBasics.
From Coq Require Import ZifyBool ZifyN ZifyNat.
Open Scope N_scope.

Definition item : Type := N * N * transition * transition.

Fixpoint ofold (f : item -> istate -> option istate) (l : list item) (st : istate) : option istate :=
  match l with
  | [] => Some st
  | x :: l' => match f x st with Some st' => ofold f l' st' | None => None end
  end.

Lemma ofold_app f l1 l2 st :
  ofold f (l1 ++ l2) st = match ofold f l1 st with Some st' => ofold f l2 st' | None => None end.
Proof.
  revert st; induction l1 as [|x l1 IH]; intro st; cbn [app ofold]; [reflexivity|].
  destruct (f x st); [apply IH|reflexivity].
Qed.

Fixpoint with_idx {A} (i : N) (l : list A) : list (N * A) :=
  match l with [] => [] | x :: t => (i, x) :: with_idx (N.succ i) t end.

Lemma with_idx_In {A} (l : list A) : forall k i x,
  In (i, x) (with_idx k l) <-> k <= i /\ nth_n l (i - k) = Some x.
Proof.
  induction l as [|y l IH]; intros k i x; cbn [with_idx In].
  - split; [contradiction|intros [_ H]; discriminate].
  - rewrite IH, nth_n_cons. split.
    + intros [E|[H1 H2]].
      * injection E as <- <-. split; [lia|]. rewrite N.sub_diag. reflexivity.
      * split; [lia|]. destruct (N.eqb_spec (i - k) 0); [lia|].
        replace (N.pred (i - k)) with (i - N.succ k) by lia. exact H2.
    + intros [H1 H2]. destruct (N.eqb_spec (i - k) 0) as [E|Hne].
      * left. injection H2 as <-. f_equal. lia.
      * right. split; [lia|]. replace (i - N.succ k) with (N.pred (i - k)) by lia. exact H2.
Qed.

Definition step (p1 p2 : pattern) (x : item) (st : istate) : option istate :=
  match x with (i1, i2, t1, t2) => isect_pair p1 p2 i1 i2 t1 t2 st end.

Definition work_t2 (i1 i2 : N) (t1 : transition) (ts2 : list transition) : list item :=
  map (fun t2 => (i1, i2, t1, t2)) ts2.
Definition work_t1 (i1 i2 : N) (ts1 ts2 : list transition) : list item :=
  flat_map (fun t1 => work_t2 i1 i2 t1 ts2) ts1.
Definition work_s2 (i1 : N) (s1 : state) (sts2 : list (N * state)) : list item :=
  flat_map (fun x => work_t1 i1 (fst x) (trans s1) (trans (snd x))) sts2.
Definition work_s1 (sts1 : list (N * state)) (p2 : pattern) : list item :=
  flat_map (fun x => work_s2 (fst x) (snd x) (with_idx 0 p2)) sts1.
Definition work (p1 p2 : pattern) : list item := work_s1 (with_idx 0 p1) p2.

Lemma isect_t2_flat p1 p2 i1 i2 t1 ts2 : forall st,
  isect_t2 p1 p2 i1 i2 t1 ts2 st = ofold (step p1 p2) (work_t2 i1 i2 t1 ts2) st.
Proof.
  induction ts2 as [|t2 ts2 IH]; intro st; [reflexivity|].
  cbn [isect_t2 work_t2 map ofold step]. destruct (isect_pair p1 p2 i1 i2 t1 t2 st); [apply IH|reflexivity].
Qed.

Lemma isect_t1_flat p1 p2 i1 i2 ts1 ts2 : forall st,
  isect_t1 p1 p2 i1 i2 ts1 ts2 st = ofold (step p1 p2) (work_t1 i1 i2 ts1 ts2) st.
Proof.
  induction ts1 as [|t1 ts1 IH]; intro st; [reflexivity|].
  cbn [isect_t1 work_t1 flat_map]. rewrite ofold_app, <- isect_t2_flat.
  destruct (isect_t2 p1 p2 i1 i2 t1 ts2 st); [apply IH|reflexivity].
Qed.

Lemma isect_s2_flat p1 p2 i1 s1 sts2 : forall i2 st,
  isect_s2 p1 p2 i1 s1 sts2 i2 st = ofold (step p1 p2) (work_s2 i1 s1 (with_idx i2 sts2)) st.
Proof.
  induction sts2 as [|s2 sts2 IH]; intros i2 st; [reflexivity|].
  cbn [isect_s2 with_idx work_s2 flat_map fst snd]. rewrite ofold_app, <- isect_t1_flat.
  destruct (isect_t1 p1 p2 i1 i2 (trans s1) (trans s2) st); [apply IH|reflexivity].
Qed.

Lemma isect_s1_flat p1 p2 sts1 : forall i1 st,
  isect_s1 p1 p2 sts1 i1 st = ofold (step p1 p2) (work_s1 (with_idx i1 sts1) p2) st.
Proof.
  induction sts1 as [|s1 sts1 IH]; intros i1 st; [reflexivity|].
  cbn [isect_s1 with_idx work_s1 flat_map fst snd]. rewrite ofold_app, <- isect_s2_flat.
  destruct (isect_s2 p1 p2 i1 s1 p2 0 st); [apply IH|reflexivity].
Qed.

Theorem isect_flat p1 p2 st : isect_s1 p1 p2 p1 0 st = ofold (step p1 p2) (work p1 p2) st.
Proof. apply isect_s1_flat. Qed.

(* what the work list contains *)
Lemma work_In p1 p2 i1 i2 t1 t2 :
  In (i1, i2, t1, t2) (work p1 p2) <->
  exists s1 s2, nth_n p1 i1 = Some s1 /\ nth_n p2 i2 = Some s2 /\ In t1 (trans s1) /\ In t2 (trans s2).
Proof.
  unfold work, work_s1, work_s2, work_t1, work_t2. rewrite in_flat_map. split.
  - intros ([j1 s1] & I1 & H). cbn [fst snd] in H. apply in_flat_map in H as ([j2 s2] & I2 & H).
    cbn [fst snd] in H. apply in_flat_map in H as (u1 & J1 & H). apply in_map_iff in H as (u2 & E & J2).
    injection E as <- <- <- <-. apply with_idx_In in I1 as [_ N1]. apply with_idx_In in I2 as [_ N2].
    rewrite N.sub_0_r in N1, N2. exists s1, s2. auto.
  - intros (s1 & s2 & N1 & N2 & J1 & J2). exists (i1, s1). split.
    + apply with_idx_In. rewrite N.sub_0_r. split; [lia|exact N1].
    + cbn [fst snd]. apply in_flat_map. exists (i2, s2). split.
      * apply with_idx_In. rewrite N.sub_0_r. split; [lia|exact N2].
      * cbn [fst snd]. apply in_flat_map. exists t1. split; [exact J1|]. apply in_map_iff. exists t2. auto.
Qed.
