(* Proofs about Model/Getopt.v: the spelling laws, each for an arbitrary parser
   state (settings, remaining arguments collected so far) and arbitrary
   following arguments, over an arbitrary well-formed option table. *)
From PV Require Import Lib.Bytes Lib.Utf8 Model.Getopt Gen.Options Spec.OptionsDoc.
From Coq Require Import ZifyBool ZifyN ZifyNat.
Open Scope N_scope.

(* the same entries, in any order (the order only shows in --help and in which two
   candidates an "ambiguous option" message names) *)
Ltac find_in := solve [repeat (first [left; reflexivity | right])].
Lemma table_is_documented :
  length option_table = length documented_options /\
  forall d, In d (map doc_view option_table) <-> In d documented_options.
Proof.
  split; [reflexivity|]. intro d.
  let t := eval vm_compute in (map doc_view option_table) in change (map doc_view option_table) with t.
  unfold documented_options. split; intro H; cbn [In] in H |- *;
    repeat (destruct H as [<-|H]; [find_in|]); contradiction.
Qed.

(* ---------- well-formed tables ---------- *)

Definition no_eq (s : str) : bool := negb (existsb (N.eqb 61) s).

Definition wf_opt (o : odecl) : bool :=
  (o_short o <? 128) && negb (o_short o =? 45) && nonempty (o_long o) && no_eq (o_long o).

Fixpoint nodup_by {A} (eqb : A -> A -> bool) (l : list A) : bool :=
  match l with
  | [] => true
  | x :: l' => negb (existsb (eqb x) l') && nodup_by eqb l'
  end.

(* short names are ASCII and not '-', long names are non-empty and contain no '=',
   no two entries share a short name or a long name *)
Definition wf_tableb (t : table) : bool :=
  forallb wf_opt t && nodup_by N.eqb (map o_short t) && nodup_by str_eqb (map o_long t).

Definition wf_table (t : table) : Prop := wf_tableb t = true.

Lemma option_table_wf : wf_table option_table.
Proof. vm_compute. reflexivity. Qed.

Lemma nodup_by_NoDup {A} (eqb : A -> A -> bool) (l : list A) :
  (forall a b, eqb a b = true <-> a = b) -> nodup_by eqb l = true -> NoDup l.
Proof.
  intros Heq. induction l as [|x l IH]; simpl; intro H; [constructor|].
  apply andb_true_iff in H as [H1 H2]. constructor; [|auto].
  intro Hin. apply negb_true_iff in H1.
  assert (existsb (eqb x) l = true) as E; [|congruence].
  apply existsb_exists. exists x. split; [assumption|]. apply Heq. reflexivity.
Qed.

Lemma wf_table_opt t o : wf_table t -> In o t -> wf_opt o = true.
Proof.
  unfold wf_table, wf_tableb. intros H Hin.
  apply andb_true_iff in H as [H _]. apply andb_true_iff in H as [H _].
  rewrite forallb_forall in H. auto.
Qed.

Lemma wf_table_shorts t : wf_table t -> NoDup (map o_short t).
Proof.
  unfold wf_table, wf_tableb. intros H.
  apply andb_true_iff in H as [H _]. apply andb_true_iff in H as [_ H].
  apply nodup_by_NoDup with (eqb := N.eqb); [intros; apply N.eqb_eq|assumption].
Qed.

Lemma wf_table_longs t : wf_table t -> NoDup (map o_long t).
Proof.
  unfold wf_table, wf_tableb. intros H.
  apply andb_true_iff in H as [_ H].
  apply nodup_by_NoDup with (eqb := str_eqb); [intros; apply str_eqb_spec|assumption].
Qed.

Lemma NoDup_map_nth_inj {A B} (f : A -> B) (l : list A) i j a b :
  NoDup (map f l) -> nth_error l i = Some a -> nth_error l j = Some b -> f a = f b -> i = j.
Proof.
  intros Hnd Hi Hj Hf.
  assert (Hlt : (i < length (map f l))%nat).
  { rewrite map_length. apply nth_error_Some. congruence. }
  rewrite NoDup_nth_error in Hnd. apply Hnd; [assumption|].
  rewrite !nth_error_map, Hi, Hj. simpl. congruence.
Qed.

(* ---------- the three lookups ---------- *)

Lemma find_short_spec t k c :
  match find_short t k c with
  | Some (j, o) => exists i, j = (k + i)%nat /\ nth_error t i = Some o /\ o_short o = c
  | None => forall i o, nth_error t i = Some o -> o_short o <> c
  end.
Proof.
  revert k; induction t as [|o t IH]; intros k; simpl.
  - intros [|i] o'; discriminate.
  - destruct (N.eqb_spec c (o_short o)) as [->|Hne].
    + exists 0%nat. split; [lia|]. split; reflexivity.
    + specialize (IH (S k)). destruct (find_short t (S k) c) as [[j o']|].
      * destruct IH as (i & -> & Hn & Hs). exists (S i). split; [lia|]. split; assumption.
      * intros [|i] o' Hn; simpl in Hn; [inversion Hn; subst; congruence|eauto].
Qed.

Lemma find_short_nth t i o :
  wf_table t -> nth_error t i = Some o -> find_short t 0 (o_short o) = Some (i, o).
Proof.
  intros Hwf Hn. pose proof (find_short_spec t 0 (o_short o)) as H.
  destruct (find_short t 0 (o_short o)) as [[j o']|].
  - destruct H as (i' & -> & Hn' & Hs). simpl.
    assert (i' = i) by (eapply NoDup_map_nth_inj; eauto using wf_table_shorts). subst.
    congruence.
  - exfalso. eapply H; eauto.
Qed.

Lemma find_long_spec t k s :
  match find_long t k s with
  | Some (j, o) => exists i, j = (k + i)%nat /\ nth_error t i = Some o /\ o_long o = s
  | None => forall i o, nth_error t i = Some o -> o_long o <> s
  end.
Proof.
  revert k; induction t as [|o t IH]; intros k; simpl.
  - intros [|i] o'; discriminate.
  - destruct (str_eqb s (o_long o)) eqn:E.
    + apply str_eqb_spec in E. exists 0%nat. split; [lia|]. split; [reflexivity|congruence].
    + specialize (IH (S k)). destruct (find_long t (S k) s) as [[j o']|].
      * destruct IH as (i & -> & Hn & Hs). exists (S i). split; [lia|]. split; assumption.
      * intros [|i] o' Hn; simpl in Hn; [|eauto].
        inversion Hn; subst. intro Hs. subst. rewrite str_eqb_refl in E. discriminate.
Qed.

Lemma find_long_nth t i o :
  wf_table t -> nth_error t i = Some o -> find_long t 0 (o_long o) = Some (i, o).
Proof.
  intros Hwf Hn. pose proof (find_long_spec t 0 (o_long o)) as H.
  destruct (find_long t 0 (o_long o)) as [[j o']|].
  - destruct H as (i' & -> & Hn' & Hs). simpl.
    assert (i' = i) by (eapply NoDup_map_nth_inj; eauto using wf_table_longs). subst.
    congruence.
  - exfalso. eapply H; eauto.
Qed.

(* p is a prefix of entry i's long name and of no other entry's *)
Definition unique_prefix (t : table) (i : nat) (o : odecl) (p : str) : Prop :=
  nth_error t i = Some o /\ has_prefix p (o_long o) = true /\
  forall j o', nth_error t j = Some o' -> j <> i -> has_prefix p (o_long o') = false.

Lemma prefix_scan_none t k p acc :
  (forall j o', nth_error t j = Some o' -> has_prefix p (o_long o') = false) ->
  prefix_scan t k p acc = inr acc.
Proof.
  revert k; induction t as [|o t IH]; intros k H; simpl; [reflexivity|].
  rewrite (H 0%nat o eq_refl). apply IH. intros j o' Hn. apply (H (S j) o' Hn).
Qed.

Lemma prefix_scan_unique t k i o p :
  unique_prefix t i o p -> prefix_scan t k p None = inr (Some ((k + i)%nat, o)).
Proof.
  revert k i; induction t as [|o0 t IH]; intros k i (Hn & Hp & Hother).
  - destruct i; discriminate.
  - destruct i as [|i]; simpl in Hn |- *.
    + inversion Hn; subst. rewrite Hp. rewrite prefix_scan_none.
      * replace (k + 0)%nat with k by lia. reflexivity.
      * intros j o' Hj. apply (Hother (S j) o' Hj). lia.
    + rewrite (Hother 0%nat o0 eq_refl) by lia.
      rewrite (IH (S k) i).
      * replace (S k + i)%nat with (k + S i)%nat by lia. reflexivity.
      * split; [assumption|]. split; [assumption|].
        intros j o' Hj Hne. apply (Hother (S j) o' Hj). lia.
Qed.

Lemma has_prefix_refl s : has_prefix s s = true.
Proof.
  unfold has_prefix. destruct (strip_prefix s s) eqn:E; [reflexivity|].
  assert (strip_prefix s s = Some []) as E'; [|congruence].
  apply strip_prefix_some. rewrite app_nil_r. reflexivity.
Qed.

(* ---------- small string facts ---------- *)

Lemma split_eq_no_eq l : no_eq l = true -> split_eq l = (l, None).
Proof.
  unfold no_eq. induction l as [|x l IH]; cbn [existsb split_eq]; intro H; [reflexivity|].
  rewrite negb_orb in H. apply andb_true_iff in H as [H1 H2].
  destruct (N.eqb_spec x 61) as [->|Hne]; [rewrite N.eqb_refl in H1; discriminate|].
  rewrite (IH H2). reflexivity.
Qed.

Lemma split_eq_app l v : no_eq l = true -> split_eq (l ++ 61 :: v) = (l, Some v).
Proof.
  unfold no_eq. induction l as [|x l IH]; cbn [existsb split_eq app]; intro H.
  - rewrite N.eqb_refl. reflexivity.
  - rewrite negb_orb in H. apply andb_true_iff in H as [H1 H2].
    destruct (N.eqb_spec x 61) as [->|Hne]; [rewrite N.eqb_refl in H1; discriminate|].
    rewrite (IH H2). reflexivity.
Qed.

Lemma no_eq_prefix p l : has_prefix p l = true -> no_eq l = true -> no_eq p = true.
Proof.
  unfold has_prefix. destruct (strip_prefix p l) as [r|] eqn:E; [|discriminate].
  intros _. apply strip_prefix_some in E. subst. unfold no_eq.
  rewrite existsb_app, negb_orb. intro H. apply andb_true_iff in H as [H _]. exact H.
Qed.

Lemma split_on_nonnil c s : split_on c s <> [].
Proof.
  induction s as [|x s IH]; simpl; [discriminate|].
  destruct (x =? c); [discriminate|]. destruct (split_on c s); [congruence|discriminate].
Qed.

(* strings.Split(a + "," + b, ",") = Split(a) ++ Split(b) *)
Lemma split_on_app c a b : split_on c (a ++ c :: b) = split_on c a ++ split_on c b.
Proof.
  induction a as [|x a IH]; simpl.
  - rewrite N.eqb_refl. reflexivity.
  - destruct (x =? c); [rewrite IH; reflexivity|].
    rewrite IH. pose proof (split_on_nonnil c a) as Hn.
    destruct (split_on c a) as [|h tl]; [congruence|]. reflexivity.
Qed.

Lemma group_parse_app fl bs l1 l2 :
  group_parse fl bs (l1 ++ l2) =
  match group_parse fl bs l1 with
  | (bs1, None) => group_parse fl bs1 l2
  | (bs1, Some f) => (bs1, Some f)
  end.
Proof.
  revert bs; induction l1 as [|a l1 IH]; intros bs; simpl; [reflexivity|].
  destruct (parse_opt fl bs a); [apply IH|reflexivity].
Qed.

Lemma nth_error_set_nth_same {A} (l : list A) i v x :
  nth_error l i = Some x -> nth_error (set_nth i v l) i = Some v.
Proof.
  revert i; induction l as [|y l IH]; intros [|i]; simpl; try discriminate; auto.
Qed.

Lemma set_nth_set_nth {A} (l : list A) i v w : set_nth i w (set_nth i v l) = set_nth i w l.
Proof.
  revert i; induction l as [|y l IH]; intros [|i]; simpl; try reflexivity. rewrite IH. reflexivity.
Qed.

(* ---------- the inlined switch of parseShortOptions is handleLongOption ---------- *)

Lemma short_arg_action_eq i o st a next :
  o_kind o <> KBool ->
  short_arg_action i o st a next =
  handle_long_option i o st (if nonempty a then Some a else None) next.
Proof.
  intro Hk. unfold short_arg_action, handle_long_option.
  destruct (o_kind o); [congruence| | |].
  - destruct (nonempty a), next; reflexivity.
  - destruct (nth_error st i) as [[| |l|]|]; try reflexivity. destruct (nonempty a), next; reflexivity.
  - destruct (nth_error st i) as [[| | |bs]|]; try reflexivity. destruct (nonempty a), next; reflexivity.
Qed.

(* ---------- one step of the loop ---------- *)

Definition continue (t : table) (rem rest : list str) (s : option step)
  (k : settings -> list str -> list str -> result) (arg : str) (st : settings) : result :=
  match s with
  | None => k st (rem ++ [arg]) rest
  | Some (SOk st' false) => k st' rem rest
  | Some (SOk st' true) => match rest with _ :: rest' => k st' rem rest' | [] => ROk st' rem end
  | Some (SErr st' e) => RErr st' rem e
  | Some SPanic => RPanic
  | Some SOutOfFuel => ROutOfFuel
  end.

Lemma parse_args_cons t st rem arg rest :
  str_eqb arg s_dashdash = false ->
  parse_args t st rem (arg :: rest) =
  continue t rem rest (dispatch t st arg (hd_error rest)) (parse_args t) arg st.
Proof. intro H. cbn [parse_args]. rewrite H. unfold continue. reflexivity. Qed.

Lemma dispatch_long t st l next :
  dispatch t st (45 :: 45 :: l) next = Some (parse_long_option t st l next).
Proof. unfold dispatch, s_dashdash. cbn [strip_prefix]. rewrite N.eqb_refl. reflexivity. Qed.

Lemma dispatch_short t st c cs next :
  c <> 45 ->
  dispatch t st (45 :: c :: cs) next = Some (parse_short_options (S (length cs)) t st (c :: cs) next).
Proof.
  intro Hc. unfold dispatch, s_dashdash. cbn [strip_prefix]. rewrite N.eqb_refl.
  destruct (N.eqb_spec 45 c) as [E|_]; [congruence|]. reflexivity.
Qed.

Lemma is_dashdash_long l : l <> [] -> str_eqb (45 :: 45 :: l) s_dashdash = false.
Proof.
  destruct l; [congruence|]. intros _. unfold s_dashdash. cbn [str_eqb].
  rewrite N.eqb_refl. reflexivity.
Qed.

Lemma is_dashdash_short c cs : c <> 45 -> str_eqb (45 :: c :: cs) s_dashdash = false.
Proof.
  intro H. unfold s_dashdash. cbn [str_eqb]. rewrite N.eqb_refl.
  destruct (N.eqb_spec c 45); [congruence|]. reflexivity.
Qed.

Lemma wf_opt_facts o : wf_opt o = true ->
  o_short o < 128 /\ o_short o <> 45 /\ o_long o <> [] /\ no_eq (o_long o) = true.
Proof.
  unfold wf_opt. intro H.
  apply andb_true_iff in H as [H H4]. apply andb_true_iff in H as [H H3]. apply andb_true_iff in H as [H1 H2].
  split; [lia|]. split; [lia|]. split; [|assumption]. destruct (o_long o); [discriminate|discriminate].
Qed.

Lemma wf_nth t i o : wf_table t -> nth_error t i = Some o ->
  o_short o < 128 /\ o_short o <> 45 /\ o_long o <> [] /\ no_eq (o_long o) = true.
Proof. intros Hwf Hn. apply wf_opt_facts. eapply wf_table_opt; eauto using nth_error_In. Qed.

(* ---------- how a long name resolves ---------- *)

Definition resolves (t : table) (name : str) (i : nat) (o : odecl) : Prop :=
  find_long t 0 name = Some (i, o) \/
  (find_long t 0 name = None /\ prefix_scan t 0 name None = inr (Some (i, o))).

Lemma parse_long_resolved t st argRest name argval next i o :
  split_eq argRest = (name, argval) -> resolves t name i o ->
  parse_long_option t st argRest next = handle_long_option i o st argval next.
Proof.
  intros Hs [Hf|[Hf Hp]]; unfold parse_long_option; rewrite Hs, Hf; [reflexivity|].
  rewrite Hp. reflexivity.
Qed.

Lemma resolves_exact t i o : wf_table t -> nth_error t i = Some o -> resolves t (o_long o) i o.
Proof. intros Hwf Hn. left. apply find_long_nth; assumption. Qed.

Lemma resolves_unique_prefix t i o p : unique_prefix t i o p -> resolves t p i o.
Proof.
  intros Hu. pose proof Hu as (Hn & Hp & Hother).
  pose proof (find_long_spec t 0 p) as H.
  destruct (find_long t 0 p) as [[j o']|] eqn:E.
  - left. destruct H as (i' & -> & Hn' & Hs). simpl.
    destruct (Nat.eq_dec i' i) as [->|Hne]; [rewrite E; simpl; congruence|].
    specialize (Hother i' o' Hn' Hne). rewrite Hs, has_prefix_refl in Hother. discriminate.
  - right. split; [assumption|]. apply (prefix_scan_unique t 0 i o p Hu).
Qed.

(* ---------- what a short option letter does ---------- *)

Lemma parse_short_nil n t st next : parse_short_options n t st [] next = SOk st false.
Proof. destruct n; reflexivity. Qed.

Lemma short_step t i o st cs next :
  wf_table t -> nth_error t i = Some o ->
  parse_short_options (S (length cs)) t st (o_short o :: cs) next =
  match o_kind o with
  | KBool => parse_short_options (length cs) t (set_nth i (VBool true) st) cs next
  | _ => short_arg_action i o st cs next
  end.
Proof.
  intros Hwf Hn. destruct (wf_nth _ _ _ Hwf Hn) as (H1 & H2 & H3 & H4).
  cbn [parse_short_options]. rewrite decode_rune_ascii by lia.
  rewrite (find_short_nth _ _ _ Hwf Hn).
  unfold rune_len. replace (o_short o <? 128) with true by lia.
  unfold slice_from. cbn [length skipn Nat.leb].
  destruct (o_kind o); reflexivity.
Qed.

(* the result of the loop body only depends on what dispatch returns *)
Lemma continue_some t rem rest s k a1 a2 st1 st2 :
  continue t rem rest (Some s) k a1 st1 = continue t rem rest (Some s) k a2 st2.
Proof. reflexivity. Qed.

(* ---------- law: -c is --long ---------- *)

Theorem long_eq_short t :
  wf_table t -> forall i o, nth_error t i = Some o ->
  forall st rem post,
    parse_args t st rem ([45; o_short o] :: post) =
    parse_args t st rem ((45 :: 45 :: o_long o) :: post).
Proof.
  intros Hwf i o Hn st rem post. destruct (wf_nth _ _ _ Hwf Hn) as (H1 & H2 & H3 & H4).
  rewrite !parse_args_cons by auto using is_dashdash_long, is_dashdash_short.
  rewrite dispatch_long, dispatch_short by assumption.
  change (S (length (@nil N))) with (S (length (@nil N))).
  rewrite (short_step t i o st [] _ Hwf Hn).
  rewrite (parse_long_resolved t st (o_long o) (o_long o) None _ i o
             (split_eq_no_eq _ H4) (resolves_exact _ _ _ Hwf Hn)).
  destruct (o_kind o) eqn:Hk.
  - rewrite parse_short_nil. unfold handle_long_option. rewrite Hk. reflexivity.
  - rewrite short_arg_action_eq by congruence. reflexivity.
  - rewrite short_arg_action_eq by congruence. reflexivity.
  - rewrite short_arg_action_eq by congruence. reflexivity.
Qed.

(* ---------- law: an unambiguous abbreviation is the long name, with or without =value ---------- *)

Definition eq_suffix (sfx : str) : Prop := sfx = [] \/ exists v, sfx = 61 :: v.

Lemma split_eq_sfx l sfx : no_eq l = true -> eq_suffix sfx ->
  split_eq (l ++ sfx) = (l, match sfx with [] => None | _ :: v => Some v end).
Proof.
  intros Hl [->|[v ->]].
  - rewrite app_nil_r. apply split_eq_no_eq; assumption.
  - apply split_eq_app; assumption.
Qed.

Theorem unique_prefix_eq_long t :
  wf_table t -> forall i o p sfx, unique_prefix t i o p -> p <> [] -> eq_suffix sfx ->
  forall st rem post,
    parse_args t st rem ((45 :: 45 :: p ++ sfx) :: post) =
    parse_args t st rem ((45 :: 45 :: o_long o ++ sfx) :: post).
Proof.
  intros Hwf i o p sfx Hu Hp Hs st rem post. pose proof Hu as (Hn & Hpre & _).
  destruct (wf_nth _ _ _ Hwf Hn) as (H1 & H2 & H3 & H4).
  assert (no_eq p = true) as Hpe by (eapply no_eq_prefix; eauto).
  rewrite !parse_args_cons.
  2: { apply is_dashdash_long. destruct (o_long o); [congruence|discriminate]. }
  2: { apply is_dashdash_long. destruct p; [congruence|discriminate]. }
  rewrite !dispatch_long.
  rewrite (parse_long_resolved t st (p ++ sfx) p _ _ i o (split_eq_sfx _ _ Hpe Hs) (resolves_unique_prefix _ _ _ _ Hu)).
  rewrite (parse_long_resolved t st (o_long o ++ sfx) (o_long o) _ _ i o (split_eq_sfx _ _ H4 Hs) (resolves_exact _ _ _ Hwf Hn)).
  reflexivity.
Qed.

(* ---------- law: --opt=value is --opt value; -ovalue is -o value ---------- *)

Lemma handle_arg_inline_vs_next i o st v :
  o_kind o <> KBool ->
  match handle_long_option i o st (Some v) None, handle_long_option i o st None (Some v) with
  | SOk s1 false, SOk s2 true => s1 = s2
  | SErr s1 e1, SErr s2 e2 => s1 = s2 /\ e1 = e2
  | SPanic, SPanic => True
  | _, _ => False
  end.
Proof.
  intro Hk. unfold handle_long_option. destruct (o_kind o); [congruence| | |].
  - reflexivity.
  - destruct (nth_error st i) as [[| |l|]|]; auto.
  - destruct (nth_error st i) as [[| | |bs]|]; auto. unfold group_step.
    destruct (group_parse (o_flags o) bs (split_on 44 v)) as [bs' [f|]]; auto.
Qed.

Lemma handle_some_next_irrelevant i o st v n1 n2 :
  handle_long_option i o st (Some v) n1 = handle_long_option i o st (Some v) n2.
Proof.
  unfold handle_long_option. destruct (o_kind o); reflexivity.
Qed.

(* the common core: an argument-taking option given its value inline or as the next argument *)
Lemma inline_vs_next t i o st rem post v a1 a2 :
  o_kind o <> KBool ->
  continue t rem post (Some (handle_long_option i o st (Some v) (hd_error post))) (parse_args t) a1 st =
  continue t rem (v :: post) (Some (handle_long_option i o st None (Some v))) (parse_args t) a2 st.
Proof.
  intro Hk. rewrite (handle_some_next_irrelevant i o st v (hd_error post) None).
  pose proof (handle_arg_inline_vs_next i o st v Hk) as H. unfold continue.
  destruct (handle_long_option i o st (Some v) None) as [s1 [|]|s1 e1| |];
    destruct (handle_long_option i o st None (Some v)) as [s2 [|]|s2 e2| |];
    try contradiction; try reflexivity.
  - subst. reflexivity.
  - destruct H; subst. reflexivity.
Qed.

Theorem eq_arg_eq_next_arg t :
  wf_table t -> forall i o p v, unique_prefix t i o p -> p <> [] -> o_kind o <> KBool ->
  forall st rem post,
    parse_args t st rem ((45 :: 45 :: p ++ 61 :: v) :: post) =
    parse_args t st rem ((45 :: 45 :: p) :: v :: post).
Proof.
  intros Hwf i o p v Hu Hp Hk st rem post. pose proof Hu as (Hn & Hpre & _).
  destruct (wf_nth _ _ _ Hwf Hn) as (H1 & H2 & H3 & H4).
  assert (no_eq p = true) as Hpe by (eapply no_eq_prefix; eauto).
  rewrite !parse_args_cons.
  2: { apply is_dashdash_long. assumption. }
  2: { apply is_dashdash_long. destruct p; [congruence|discriminate]. }
  rewrite !dispatch_long.
  rewrite (parse_long_resolved t st (p ++ 61 :: v) p (Some v) _ i o (split_eq_app _ _ Hpe) (resolves_unique_prefix _ _ _ _ Hu)).
  rewrite (parse_long_resolved t st p p None _ i o (split_eq_no_eq _ Hpe) (resolves_unique_prefix _ _ _ _ Hu)).
  cbn [hd_error]. apply inline_vs_next; assumption.
Qed.

(* the full long name always resolves to its own entry, even when it is a prefix of another long name *)
Theorem eq_arg_eq_next_arg_long t :
  wf_table t -> forall i o v, nth_error t i = Some o -> o_kind o <> KBool ->
  forall st rem post,
    parse_args t st rem ((45 :: 45 :: o_long o ++ 61 :: v) :: post) =
    parse_args t st rem ((45 :: 45 :: o_long o) :: v :: post).
Proof.
  intros Hwf i o v Hn Hk st rem post.
  destruct (wf_nth _ _ _ Hwf Hn) as (H1 & H2 & H3 & H4).
  rewrite !parse_args_cons.
  2: { apply is_dashdash_long. assumption. }
  2: { apply is_dashdash_long. destruct (o_long o); [congruence|discriminate]. }
  rewrite !dispatch_long.
  rewrite (parse_long_resolved t st (o_long o ++ 61 :: v) (o_long o) (Some v) _ i o (split_eq_app _ _ H4) (resolves_exact _ _ _ Hwf Hn)).
  rewrite (parse_long_resolved t st (o_long o) (o_long o) None _ i o (split_eq_no_eq _ H4) (resolves_exact _ _ _ Hwf Hn)).
  cbn [hd_error]. apply inline_vs_next; assumption.
Qed.

Theorem short_attached_eq_next_arg t :
  wf_table t -> forall i o v, nth_error t i = Some o -> o_kind o <> KBool -> v <> [] ->
  forall st rem post,
    parse_args t st rem ((45 :: o_short o :: v) :: post) =
    parse_args t st rem ([45; o_short o] :: v :: post).
Proof.
  intros Hwf i o v Hn Hk Hv st rem post.
  destruct (wf_nth _ _ _ Hwf Hn) as (H1 & H2 & H3 & H4).
  rewrite !parse_args_cons by auto using is_dashdash_short.
  rewrite !dispatch_short by assumption.
  rewrite (short_step t i o st v _ Hwf Hn), (short_step t i o st [] _ Hwf Hn).
  destruct (o_kind o) eqn:Hk'; [congruence| | |];
    rewrite !short_arg_action_eq by congruence;
    (destruct v as [|x v]; [congruence|]); cbn [nonempty hd_error];
    apply inline_vs_next; congruence.
Qed.

(* ---------- law: a cluster of flags is the flags given separately ---------- *)

Lemma parse_args_bool_short t i o st rem rest :
  wf_table t -> nth_error t i = Some o -> o_kind o = KBool ->
  parse_args t st rem ([45; o_short o] :: rest) = parse_args t (set_nth i (VBool true) st) rem rest.
Proof.
  intros Hwf Hn Hk. destruct (wf_nth _ _ _ Hwf Hn) as (H1 & H2 & H3 & H4).
  rewrite parse_args_cons by auto using is_dashdash_short.
  rewrite dispatch_short by assumption.
  rewrite (short_step t i o st [] _ Hwf Hn), Hk, parse_short_nil. reflexivity.
Qed.

(* -cREST is -c -REST, for a flag c and any non-empty REST that does not start with '-' *)
Theorem cluster_split t :
  wf_table t -> forall i o x rest, nth_error t i = Some o -> o_kind o = KBool -> x <> 45 ->
  forall st rem post,
    parse_args t st rem ((45 :: o_short o :: x :: rest) :: post) =
    parse_args t st rem ([45; o_short o] :: (45 :: x :: rest) :: post).
Proof.
  intros Hwf i o x rest Hn Hk Hx st rem post.
  destruct (wf_nth _ _ _ Hwf Hn) as (H1 & H2 & H3 & H4).
  rewrite (parse_args_bool_short t i o st rem _ Hwf Hn Hk).
  rewrite !parse_args_cons by auto using is_dashdash_short.
  rewrite !dispatch_short by assumption.
  rewrite (short_step t i o st (x :: rest) _ Hwf Hn), Hk.
  reflexivity.
Qed.

Definition is_flag_letter (t : table) (c : N) : Prop :=
  exists i o, nth_error t i = Some o /\ o_kind o = KBool /\ o_short o = c.

Definition tail_ok (tail : str) : Prop := match tail with [] => True | x :: _ => x <> 45 end.

Theorem cluster_eq_separate t :
  wf_table t -> forall cs tail, Forall (is_flag_letter t) cs -> cs <> [] -> tail_ok tail ->
  forall st rem post,
    parse_args t st rem ((45 :: cs ++ tail) :: post) =
    parse_args t st rem (map (fun c => [45; c]) cs ++
                         match tail with [] => [] | _ => [45 :: tail] end ++ post).
Proof.
  intros Hwf cs tail Hcs. induction Hcs as [|c cs (i & o & Hn & Hk & <-) Hcs IH]; [congruence|].
  intros _ Htail st rem post.
  destruct (wf_nth _ _ _ Hwf Hn) as (H1 & H2 & H3 & H4).
  cbn [map app].
  rewrite (parse_args_bool_short t i o st rem _ Hwf Hn Hk).
  destruct cs as [|c' cs].
  - cbn [map app]. destruct tail as [|x tail].
    + cbn [app]. apply (parse_args_bool_short t i o st rem _ Hwf Hn Hk).
    + cbn [app]. rewrite (cluster_split t Hwf i o x tail Hn Hk Htail).
      apply (parse_args_bool_short t i o st rem _ Hwf Hn Hk).
  - assert (c' <> 45) as Hc'.
    { inversion Hcs as [|? ? (i' & o' & Hn' & _ & <-) _]; subst.
      destruct (wf_nth _ _ _ Hwf Hn') as (_ & H2' & _). assumption. }
    change ((c' :: cs) ++ tail) with (c' :: (cs ++ tail)).
    rewrite (cluster_split t Hwf i o c' (cs ++ tail) Hn Hk Hc').
    rewrite (parse_args_bool_short t i o st rem _ Hwf Hn Hk).
    apply (IH ltac:(discriminate) Htail).
Qed.

(* ---------- law: a comma list in a flag group is the group option repeated ---------- *)

Lemma group_step_app i o st bs a b skip1 skip2 x :
  nth_error st i = Some x ->
  match group_step i o st bs a skip1 with
  | SOk st1 _ =>
    exists bs1, nth_error st1 i = Some (VGroup bs1) /\
                group_step i o st bs (a ++ 44 :: b) skip2 = group_step i o st1 bs1 b skip2
  | SErr st1 e => group_step i o st bs (a ++ 44 :: b) skip2 = SErr st1 e
  | _ => False
  end.
Proof.
  intro Hx. unfold group_step. rewrite split_on_app, group_parse_app.
  destruct (group_parse (o_flags o) bs (split_on 44 a)) as [bs1 [f|]]; [reflexivity|].
  exists bs1. split; [eapply nth_error_set_nth_same; eassumption|].
  destruct (group_parse (o_flags o) bs1 (split_on 44 b)) as [bs2 bad].
  rewrite set_nth_set_nth. reflexivity.
Qed.

Theorem group_comma_eq_repeat_short t :
  wf_table t -> forall i o a b, nth_error t i = Some o -> o_kind o = KGroup -> a <> [] -> b <> [] ->
  forall st rem post,
    parse_args t st rem ((45 :: o_short o :: a ++ 44 :: b) :: post) =
    parse_args t st rem ((45 :: o_short o :: a) :: (45 :: o_short o :: b) :: post).
Proof.
  intros Hwf i o a b Hn Hk Ha Hb st rem post.
  destruct (wf_nth _ _ _ Hwf Hn) as (H1 & H2 & H3 & H4).
  rewrite (parse_args_cons t st rem (45 :: o_short o :: a ++ 44 :: b)) by auto using is_dashdash_short.
  rewrite (parse_args_cons t st rem (45 :: o_short o :: a)) by auto using is_dashdash_short.
  rewrite !dispatch_short by assumption.
  rewrite (short_step t i o st (a ++ 44 :: b) _ Hwf Hn), (short_step t i o st a _ Hwf Hn), Hk.
  unfold short_arg_action. rewrite Hk.
  destruct (nth_error st i) as [[| | |bs]|] eqn:Hst; try reflexivity.
  assert (nonempty (a ++ 44 :: b) = true) as -> by (destruct a; [congruence|reflexivity]).
  assert (nonempty a = true) as -> by (destruct a; [congruence|reflexivity]).
  pose proof (group_step_app i o st bs a b false false _ Hst) as H.
  destruct (group_step i o st bs a false) as [st1 sk|st1 e| |] eqn:E1; try contradiction.
  - destruct H as (bs1 & Hst1 & ->).
    assert (sk = false) as ->.
    { unfold group_step in E1. destruct (group_parse (o_flags o) bs (split_on 44 a)) as [? [?|]]; congruence. }
    unfold continue at 2.
    rewrite (parse_args_cons t st1 rem (45 :: o_short o :: b)) by auto using is_dashdash_short.
    rewrite dispatch_short by assumption.
    rewrite (short_step t i o st1 b _ Hwf Hn), Hk.
    unfold short_arg_action. rewrite Hk, Hst1.
    assert (nonempty b = true) as -> by (destruct b; [congruence|reflexivity]).
    reflexivity.
  - rewrite H. reflexivity.
Qed.

Theorem group_comma_eq_repeat_long t :
  wf_table t -> forall i o a b, nth_error t i = Some o -> o_kind o = KGroup ->
  forall st rem post,
    parse_args t st rem ((45 :: 45 :: o_long o ++ 61 :: a ++ 44 :: b) :: post) =
    parse_args t st rem ((45 :: 45 :: o_long o ++ 61 :: a) :: (45 :: 45 :: o_long o ++ 61 :: b) :: post).
Proof.
  intros Hwf i o a b Hn Hk st rem post.
  destruct (wf_nth _ _ _ Hwf Hn) as (H1 & H2 & H3 & H4).
  assert (forall v, str_eqb (45 :: 45 :: o_long o ++ 61 :: v) s_dashdash = false) as Hdd.
  { intro v. apply is_dashdash_long. destruct (o_long o); discriminate. }
  rewrite (parse_args_cons t st rem (45 :: 45 :: o_long o ++ 61 :: a ++ 44 :: b)) by apply Hdd.
  rewrite (parse_args_cons t st rem (45 :: 45 :: o_long o ++ 61 :: a)) by apply Hdd.
  rewrite !dispatch_long.
  rewrite !(fun v n => parse_long_resolved t st (o_long o ++ 61 :: v) (o_long o) (Some v) n i o
                         (split_eq_app _ _ H4) (resolves_exact _ _ _ Hwf Hn)).
  unfold handle_long_option at 1 2. rewrite Hk.
  destruct (nth_error st i) as [[| | |bs]|] eqn:Hst; try reflexivity.
  pose proof (group_step_app i o st bs a b false false _ Hst) as H.
  destruct (group_step i o st bs a false) as [st1 sk|st1 e| |] eqn:E1; try contradiction.
  - destruct H as (bs1 & Hst1 & ->).
    assert (sk = false) as ->.
    { unfold group_step in E1. destruct (group_parse (o_flags o) bs (split_on 44 a)) as [? [?|]]; congruence. }
    unfold continue at 2.
    rewrite (parse_args_cons t st1 rem (45 :: 45 :: o_long o ++ 61 :: b)) by apply Hdd.
    rewrite dispatch_long.
    rewrite (parse_long_resolved t st1 (o_long o ++ 61 :: b) (o_long o) (Some b) _ i o
               (split_eq_app _ _ H4) (resolves_exact _ _ _ Hwf Hn)).
    unfold handle_long_option. rewrite Hk, Hst1. reflexivity.
  - rewrite H. reflexivity.
Qed.

(* ---------- law: everything after "--" is an argument ---------- *)

Theorem after_dashdash_are_args t st rem post :
  parse_args t st rem (s_dashdash :: post) = ROk st (rem ++ post).
Proof. reflexivity. Qed.

(* ---------- an abbreviation of two long names is an error ---------- *)

Lemma prefix_scan_some_second t k p j oj :
  (exists m o', nth_error t m = Some o' /\ has_prefix p (o_long o') = true) ->
  exists a b, prefix_scan t k p (Some (j, oj)) = inl (a, b).
Proof.
  revert k; induction t as [|o t IH]; intros k (m & o' & Hm & Hp).
  - destruct m; discriminate.
  - cbn [prefix_scan]. destruct (has_prefix p (o_long o)) eqn:E; [eauto|].
    destruct m as [|m]; simpl in Hm; [inversion Hm; subst; congruence|].
    apply IH. eauto.
Qed.

Lemma prefix_scan_two t k p :
  (exists m1 m2 o1 o2, m1 <> m2 /\ nth_error t m1 = Some o1 /\ nth_error t m2 = Some o2 /\
     has_prefix p (o_long o1) = true /\ has_prefix p (o_long o2) = true) ->
  exists a b, prefix_scan t k p None = inl (a, b).
Proof.
  revert k; induction t as [|o t IH]; intros k (m1 & m2 & o1 & o2 & Hne & H1 & H2 & P1 & P2).
  - destruct m1; discriminate.
  - cbn [prefix_scan]. destruct (has_prefix p (o_long o)) eqn:E.
    + apply prefix_scan_some_second.
      destruct m1 as [|m1], m2 as [|m2]; simpl in H1, H2; try congruence; eauto.
    + destruct m1 as [|m1]; simpl in H1; [inversion H1; subst; congruence|].
      destruct m2 as [|m2]; simpl in H2; [inversion H2; subst; congruence|].
      apply IH. exists m1, m2, o1, o2. repeat split; auto.
Qed.

Theorem ambiguous_prefix_is_error t :
  forall p sfx m1 m2 o1 o2, m1 <> m2 -> nth_error t m1 = Some o1 -> nth_error t m2 = Some o2 ->
  has_prefix p (o_long o1) = true -> has_prefix p (o_long o2) = true ->
  (forall m o, nth_error t m = Some o -> o_long o <> p) ->
  p <> [] -> no_eq p = true -> eq_suffix sfx ->
  forall st rem post, exists a b,
    parse_args t st rem ((45 :: 45 :: p ++ sfx) :: post) = RErr st rem (EAmbiguous a b).
Proof.
  intros p sfx m1 m2 o1 o2 Hne H1 H2 P1 P2 Hex Hp Hpe Hs st rem post.
  destruct (prefix_scan_two t 0 p) as (a & b & Hscan).
  { exists m1, m2, o1, o2. auto. }
  exists a, b.
  rewrite parse_args_cons by (apply is_dashdash_long; destruct p; [congruence|discriminate]).
  rewrite dispatch_long. unfold parse_long_option. rewrite (split_eq_sfx _ _ Hpe Hs).
  pose proof (find_long_spec t 0 p) as Hf.
  destruct (find_long t 0 p) as [[j o']|].
  - destruct Hf as (i' & _ & Hn' & Hl). exfalso. eapply Hex; eauto.
  - rewrite Hscan. reflexivity.
Qed.

(* ---------- Parse never reaches a panic site and never runs out of fuel ---------- *)

Definition kind_ok (o : odecl) (v : value) : Prop :=
  match o_kind o, v with
  | KBool, VBool _ | KStr, VStr _ | KList, VList _ | KGroup, VGroup _ => True
  | _, _ => False
  end.

Definition shaped (t : table) (st : settings) : Prop := Forall2 kind_ok t st.

Lemma shaped_init t : shaped t (init t).
Proof.
  unfold shaped, init. induction t as [|o t IH]; simpl; constructor; [|assumption].
  unfold kind_ok, init_value. destruct (o_kind o); exact I.
Qed.

Lemma shaped_nth t st i o : shaped t st -> nth_error t i = Some o ->
  exists v, nth_error st i = Some v /\ kind_ok o v.
Proof.
  intros H. revert i. induction H as [|o' v t st Hk H IH]; intros [|i] Hn; simpl in *; try discriminate.
  - inversion Hn; subst. eauto.
  - eauto.
Qed.

Lemma shaped_set t st i o v : shaped t st -> nth_error t i = Some o -> kind_ok o v ->
  shaped t (set_nth i v st).
Proof.
  intros H. revert i. induction H as [|o' v' t st Hk H IH]; intros [|i] Hn Hv; simpl in *; try discriminate.
  - inversion Hn; subst. constructor; assumption.
  - constructor; [assumption|]. apply IH; assumption.
Qed.

Definition step_ok (t : table) (s : step) : Prop :=
  match s with
  | SOk st _ | SErr st _ => shaped t st
  | SPanic | SOutOfFuel => False
  end.

Lemma group_step_ok t i o st bs arg skip :
  shaped t st -> nth_error t i = Some o -> o_kind o = KGroup -> step_ok t (group_step i o st bs arg skip).
Proof.
  intros Hs Hn Hk. unfold group_step.
  destruct (group_parse (o_flags o) bs (split_on 44 arg)) as [bs' [f|]]; simpl;
    (eapply shaped_set; eauto; unfold kind_ok; rewrite Hk; exact I).
Qed.

Lemma handle_long_option_ok t i o st argval next :
  shaped t st -> nth_error t i = Some o -> step_ok t (handle_long_option i o st argval next).
Proof.
  intros Hs Hn. destruct (shaped_nth _ _ _ _ Hs Hn) as (v & Hv & Hkv).
  unfold handle_long_option. unfold kind_ok in Hkv.
  destruct (o_kind o) eqn:Hk; destruct v; try contradiction.
  - destruct argval as [a|]; [destruct (bool_word a)|]; simpl; try assumption;
      (eapply shaped_set; eauto; unfold kind_ok; rewrite Hk; exact I).
  - destruct argval, next; simpl; try assumption;
      (eapply shaped_set; eauto; unfold kind_ok; rewrite Hk; exact I).
  - rewrite Hv. destruct argval, next; simpl; try assumption;
      (eapply shaped_set; eauto; unfold kind_ok; rewrite Hk; exact I).
  - rewrite Hv. destruct argval, next; simpl; try assumption; apply group_step_ok; assumption.
Qed.

Lemma prefix_scan_spec t k p acc :
  (match acc with Some (j, o) => exists i, nth_error t i = Some o /\ True | None => True end -> True) ->
  match prefix_scan t k p acc with
  | inr (Some (j, o)) => acc = Some (j, o) \/ exists i, j = (k + i)%nat /\ nth_error t i = Some o
  | _ => True
  end.
Proof.
  intros _. revert k acc. induction t as [|o t IH]; intros k acc; cbn [prefix_scan].
  - destruct acc as [[j o']|]; auto.
  - destruct (has_prefix p (o_long o)).
    + destruct acc as [[j o']|]; [exact I|].
      specialize (IH (S k) (Some (k, o))).
      destruct (prefix_scan t (S k) p (Some (k, o))) as [|[[j o']|]]; auto.
      right. destruct IH as [IH|(i & -> & Hn)].
      * inversion IH; subst. exists 0%nat. split; [lia|reflexivity].
      * exists (S i). split; [lia|assumption].
    + specialize (IH (S k) acc).
      destruct (prefix_scan t (S k) p acc) as [|[[j o']|]]; auto.
      destruct IH as [IH|(i & -> & Hn)]; [auto|].
      right. exists (S i). split; [lia|assumption].
Qed.

Lemma parse_long_option_ok t st argRest next :
  shaped t st -> step_ok t (parse_long_option t st argRest next).
Proof.
  intro Hs. unfold parse_long_option. destruct (split_eq argRest) as [name argval].
  pose proof (find_long_spec t 0 name) as Hf.
  destruct (find_long t 0 name) as [[i o]|].
  - destruct Hf as (i' & -> & Hn & _). apply handle_long_option_ok; assumption.
  - pose proof (prefix_scan_spec t 0 name None (fun _ => I)) as Hp.
    destruct (prefix_scan t 0 name None) as [[a b]|[[i o]|]]; simpl; try assumption.
    destruct Hp as [Hp|(i' & -> & Hn)]; [discriminate|].
    apply handle_long_option_ok; assumption.
Qed.

Lemma short_arg_action_ok t i o st a next :
  shaped t st -> nth_error t i = Some o -> o_kind o <> KBool -> step_ok t (short_arg_action i o st a next).
Proof.
  intros Hs Hn Hk. rewrite short_arg_action_eq by assumption. apply handle_long_option_ok; assumption.
Qed.

Lemma parse_short_options_ok t : wf_table t -> forall fuel st optchars next,
  shaped t st -> (length optchars <= fuel)%nat -> step_ok t (parse_short_options fuel t st optchars next).
Proof.
  intros Hwf. induction fuel as [|fuel IH]; intros st optchars next Hs Hlen.
  - destruct optchars; [exact Hs|simpl in Hlen; lia].
  - destruct optchars as [|c cs]; [exact Hs|].
    cbn [parse_short_options].
    pose proof (decode_rune_width_pos (c :: cs) ltac:(discriminate)) as Hw.
    destruct (decode_rune (c :: cs)) as [r w] eqn:Hd. cbn [snd] in Hw.
    pose proof (find_short_spec t 0 r) as Hf.
    destruct (find_short t 0 r) as [[i o]|]; [|exact Hs].
    destruct Hf as (i' & -> & Hn & Hr). simpl.
    destruct (wf_nth _ _ _ Hwf Hn) as (H1 & _).
    assert (rune_len r = Some 1%nat) as Hrl.
    { unfold rune_len. replace (r <? 128) with true by lia. reflexivity. }
    destruct (o_kind o) eqn:Hk.
    + apply IH.
      * eapply shaped_set; eauto. unfold kind_ok. rewrite Hk. exact I.
      * rewrite skipn_length. lia.
    + rewrite Hrl. unfold slice_from. cbn [length Nat.leb skipn].
      apply short_arg_action_ok; [assumption|assumption|congruence].
    + rewrite Hrl. unfold slice_from. cbn [length Nat.leb skipn].
      apply short_arg_action_ok; [assumption|assumption|congruence].
    + rewrite Hrl. unfold slice_from. cbn [length Nat.leb skipn].
      apply short_arg_action_ok; [assumption|assumption|congruence].
Qed.

Definition result_ok (r : result) : Prop :=
  match r with ROk _ _ | RErr _ _ _ => True | RPanic | ROutOfFuel => False end.

Lemma dispatch_ok t st arg next : wf_table t -> shaped t st ->
  match dispatch t st arg next with Some s => step_ok t s | None => True end.
Proof.
  intros Hwf Hs. unfold dispatch. destruct (strip_prefix s_dashdash arg).
  - apply parse_long_option_ok; assumption.
  - destruct arg as [|c [|c' cs]]; try exact I. destruct (c =? 45); [|exact I].
    apply parse_short_options_ok; auto.
Qed.

Lemma parse_args_total_n t : wf_table t -> forall n args st rem,
  (length args <= n)%nat -> shaped t st -> result_ok (parse_args t st rem args).
Proof.
  intros Hwf. induction n as [|n IH]; intros args st rem Hlen Hs.
  - destruct args; [exact I|simpl in Hlen; lia].
  - destruct args as [|arg rest]; [exact I|]. simpl in Hlen.
    cbn [parse_args]. destruct (str_eqb arg s_dashdash); [exact I|].
    pose proof (dispatch_ok t st arg (hd_error rest) Hwf Hs) as Hd.
    destruct (dispatch t st arg (hd_error rest)) as [[st' [|]|st' e| |]|]; simpl in Hd;
      try contradiction; try exact I.
    + destruct rest as [|x rest']; [exact I|]. apply IH; [simpl in Hlen; lia|assumption].
    + apply IH; [lia|assumption].
    + apply IH; [lia|assumption].
Qed.

(* for a well-formed table, Parse is defined on every argument vector: no slice
   out of range, no "unknown option type", the rune loop never runs out of fuel *)
Theorem parse_total t : wf_table t -> forall args, result_ok (parse t args).
Proof.
  intros Hwf [|prog rest]; [exact I|]. unfold parse, parse_from.
  apply (parse_args_total_n t Hwf (length rest)); [lia|apply shaped_init].
Qed.

Theorem parse_args_total t : wf_table t -> forall args st rem,
  shaped t st -> result_ok (parse_args t st rem args).
Proof. intros Hwf args st rem. apply (parse_args_total_n t Hwf (length args)). lia. Qed.

(* ---------- from "any parser state" to "any surrounding argv" ---------- *)

(* x and y are interchangeable wherever the parser looks for an option *)
Definition equivalent_spellings (t : table) (x y : list str) : Prop :=
  forall st rem post, parse_args t st rem (x ++ post) = parse_args t st rem (y ++ post).

(* the arguments `pre` are consumed completely, leaving the parser in state (st, rem)
   and looking for an option next (i.e. pre does not end in an option that still
   waits for its argument, contains no "--" and no error) *)
Definition leaves_option_position (t : table) (pre : list str) (st : settings) (rem : list str) : Prop :=
  forall post, parse_args t (init t) [] (pre ++ post) = parse_args t st rem post.

Theorem equivalent_in_context t x y :
  equivalent_spellings t x y ->
  forall prog pre post st rem, leaves_option_position t pre st rem ->
    parse t (prog :: pre ++ x ++ post) = parse t (prog :: pre ++ y ++ post).
Proof.
  intros He prog pre post st rem Hpre. unfold parse, parse_from.
  rewrite !Hpre. apply He.
Qed.

(* the hypothesis is needed: after an option that takes an argument, the next word
   is that argument, however it is spelled *)
Example position_matters :
  parse option_table [[112]; [45; 111]; [45; 113]] <> parse option_table [[112]; [45; 111]; [45; 45; 113; 117; 105; 101; 116]].
Proof. vm_compute. discriminate. Qed.

(* ---------- flags exempt from all / none (AddFlagVarNoAll, e.g. -Werror) ---------- *)

(* "all" / "none" leave an exempt flag alone *)
Lemma set_all_exempt fl bs v j f :
  nth_error fl j = Some f -> gf_all f = false -> nth_error (set_all fl bs v) j = nth_error bs j.
Proof.
  revert bs j. induction fl as [|f0 fl IH]; intros bs j Hn Ha; [destruct j; discriminate|].
  destruct bs as [|b bs]; [reflexivity|]. cbn [set_all].
  destruct j as [|j]; cbn [nth_error] in *.
  - inversion Hn; subst. rewrite Ha. reflexivity.
  - apply IH; assumption.
Qed.

(* every flag that the word x could address (as "x" or "no-x") is exempt *)
Definition addresses_exempt_only (fl : list gflag) (x : str) : Prop :=
  forall f, In f fl -> (x = gf_name f \/ x = s_no_ ++ gf_name f) -> gf_all f = false.

Lemma find_flag_set_all fl bs v x :
  addresses_exempt_only fl x ->
  find_flag fl (set_all fl bs v) x = option_map (fun r => set_all fl r v) (find_flag fl bs x).
Proof.
  revert bs. induction fl as [|f fl IH]; intros bs H; [reflexivity|].
  destruct bs as [|b bs]; [reflexivity|]. cbn [set_all find_flag].
  destruct (str_eqb x (gf_name f)) eqn:E1.
  - apply str_eqb_spec in E1. rewrite (H f (or_introl eq_refl) (or_introl E1)). reflexivity.
  - destruct (str_eqb x (s_no_ ++ gf_name f)) eqn:E2.
    + apply str_eqb_spec in E2. rewrite (H f (or_introl eq_refl) (or_intror E2)). reflexivity.
    + rewrite IH by (intros f' Hin; apply H; right; assumption).
      destruct (find_flag fl bs x); reflexivity.
Qed.

(* a known flag word that addresses only exempt flags commutes with all / none *)
Theorem exempt_flag_commutes fl bs x a bs1 :
  (a = s_all \/ a = s_none) -> str_eqb x s_none || str_eqb x s_all = false ->
  addresses_exempt_only fl x -> find_flag fl bs x = Some bs1 ->
  group_parse fl bs [x; a] = group_parse fl bs [a; x].
Proof.
  intros Ha Hx He Hf. cbn [group_parse]. unfold parse_opt at 1. rewrite Hx, Hf.
  assert (parse_opt fl bs1 a = Some (set_all fl bs1 (str_eqb a s_all)) /\
          parse_opt fl bs a = Some (set_all fl bs (str_eqb a s_all))) as [-> ->]
    by (destruct Ha as [-> | ->]; split; reflexivity).
  unfold parse_opt. rewrite Hx, (find_flag_set_all _ _ _ _ He), Hf. reflexivity.
Qed.

Lemma split_on_none c s : existsb (N.eqb c) s = false -> split_on c s = [s].
Proof.
  induction s as [|x s IH]; cbn [existsb split_on]; intro H; [reflexivity|].
  apply orb_false_iff in H as [H1 H2]. rewrite N.eqb_sym in H1. rewrite H1, (IH H2). reflexivity.
Qed.

(* -Wx,all is -Wall,x (x an exempt flag, also with none): the final settings do not
   depend on the order; by group_comma_eq_repeat the same holds for -Wx -Wall / -Wall -Wx *)
Theorem exempt_flag_order t :
  wf_table t -> forall i o x a, nth_error t i = Some o -> o_kind o = KGroup ->
  (a = s_all \/ a = s_none) -> str_eqb x s_none || str_eqb x s_all = false -> x <> [] ->
  existsb (N.eqb 44) x = false -> addresses_exempt_only (o_flags o) x ->
  forall st rem post bs bs1, nth_error st i = Some (VGroup bs) -> find_flag (o_flags o) bs x = Some bs1 ->
    parse_args t st rem ((45 :: o_short o :: x) :: (45 :: o_short o :: a) :: post) =
    parse_args t st rem ((45 :: o_short o :: a) :: (45 :: o_short o :: x) :: post).
Proof.
  intros Hwf i o x a Hn Hk Ha Hx Hxn Hxc He st rem post bs bs1 Hst Hf.
  assert (a <> []) as Han by (destruct Ha as [-> | ->]; discriminate).
  assert (existsb (N.eqb 44) a = false) as Hac by (destruct Ha as [-> | ->]; reflexivity).
  rewrite <- (group_comma_eq_repeat_short t Hwf i o x a Hn Hk Hxn Han).
  rewrite <- (group_comma_eq_repeat_short t Hwf i o a x Hn Hk Han Hxn).
  destruct (wf_nth _ _ _ Hwf Hn) as (H1 & H2 & H3 & H4).
  rewrite !parse_args_cons by auto using is_dashdash_short.
  rewrite !dispatch_short by assumption.
  rewrite (short_step t i o st (x ++ 44 :: a) _ Hwf Hn), (short_step t i o st (a ++ 44 :: x) _ Hwf Hn), Hk.
  unfold short_arg_action. rewrite Hk, Hst.
  assert (nonempty (x ++ 44 :: a) = true) as -> by (destruct x; [congruence|reflexivity]).
  assert (nonempty (a ++ 44 :: x) = true) as -> by (destruct a; [congruence|reflexivity]).
  unfold group_step. rewrite !split_on_app, (split_on_none _ _ Hxc), (split_on_none _ _ Hac).
  change ([x] ++ [a]) with [x; a]. change ([a] ++ [x]) with [a; x].
  rewrite (exempt_flag_commutes _ _ _ _ _ Ha Hx He Hf). reflexivity.
Qed.

(* pkglint's own table: -Werror -Wall and -Wall -Werror end with the same settings, error on *)
Example werror_wall_order :
  parse option_table [[112]; [45; 87; 101; 114; 114; 111; 114]; [45; 87; 97; 108; 108]] =
  parse option_table [[112]; [45; 87; 97; 108; 108]; [45; 87; 101; 114; 114; 111; 114]] /\
  (exists st rem, parse option_table [[112]; [45; 87; 101; 114; 114; 111; 114]; [45; 87; 97; 108; 108]] = ROk st rem /\
     last st (VBool false) = VGroup [true; true; true; true]).
Proof. split; [vm_compute; reflexivity|]. eexists. eexists. split; vm_compute; reflexivity. Qed.
