From PV Require Import Lib.Bytes Lib.Utf8 Model.Getopt Gen.Options Spec.OptionsDoc.
Open Scope N_scope.

Lemma table_is_documented : map doc_view option_table = documented_options.
Proof. vm_compute. reflexivity. Qed.
