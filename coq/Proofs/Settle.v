(* C16: a generic settling theorem and its instances for the fixer models of
   Model/Settle.v. *)
From PV Require Import Lib.Bytes Model.Settle.
Open Scope N_scope.

(* ---------- the generic theorem ---------- *)
Section Settling.
  Variable T : Type.
  Record fixer := { fx_run : T -> T; fx_post : T -> Prop }.
  (* the fixer establishes its post-condition, under which it is the identity *)
  Definition sound (f : fixer) : Prop :=
    (forall x, fx_post f (fx_run f x)) /\ (forall x, fx_post f x -> fx_run f x = x).
  (* g does not destroy what f has achieved *)
  Definition preserves (g f : fixer) : Prop := forall x, fx_post f x -> fx_post f (fx_run g x).
  Definition pass (fs : list fixer) (x : T) : T := fold_left (fun x f => fx_run f x) fs x.

  (* every fixer preserves the post-conditions of the fixers that run before it *)
  Fixpoint triangular (done fs : list fixer) : Prop :=
    match fs with
    | [] => True
    | f :: r => Forall (fun d => preserves f d) done /\ triangular (done ++ [f]) r
    end.

  Lemma pass_posts : forall fs done x,
    Forall sound fs -> triangular done fs -> Forall (fun d => fx_post d x) done ->
    Forall (fun d => fx_post d (pass fs x)) (done ++ fs).
  Proof.
    induction fs as [|f r IH]; intros done x Hs Ht Hd; cbn.
    - rewrite app_nil_r. exact Hd.
    - inversion Hs as [|? ? [Hest _] Hs']; subst. destruct Ht as [Hp Ht].
      replace (done ++ f :: r) with ((done ++ [f]) ++ r) by (rewrite <- app_assoc; reflexivity).
      apply IH; [exact Hs'|exact Ht|].
      apply Forall_app. split; [|constructor; [apply Hest|constructor]].
      rewrite Forall_forall in *. intros d Hin. apply (Hp d Hin). apply Hd. exact Hin.
  Qed.

  Lemma pass_fixed : forall fs x, Forall sound fs -> Forall (fun f => fx_post f x) fs -> pass fs x = x.
  Proof.
    induction fs as [|f r IH]; intros x Hs Hp; cbn; [reflexivity|].
    inversion Hs as [|? ? [_ Hid] Hs']; inversion Hp; subst.
    rewrite (Hid x); auto.
  Qed.

  Theorem settling_composition_ordered fs :
    Forall sound fs -> triangular [] fs ->
    forall x, Forall (fun f => fx_post f (pass fs x)) fs
              /\ (forall f, In f fs -> fx_run f (pass fs x) = pass fs x)
              /\ pass fs (pass fs x) = pass fs x.
  Proof.
    intros Hs Ht x.
    assert (Hp : Forall (fun f => fx_post f (pass fs x)) fs)
      by (apply (pass_posts fs [] x Hs Ht); constructor).
    split; [exact Hp|]. split.
    - intros f Hin. rewrite Forall_forall in Hs, Hp. destruct (Hs f Hin) as [_ Hid]. apply Hid, Hp, Hin.
    - apply pass_fixed; assumption.
  Qed.

  Lemma pairwise_triangular : forall fs done,
    (forall f g, In f (done ++ fs) -> In g (done ++ fs) -> preserves g f) -> triangular done fs.
  Proof.
    induction fs as [|f r IH]; intros done H; cbn; [exact I|]. split.
    - rewrite Forall_forall. intros d Hd. apply H; apply in_or_app; [left; exact Hd|right; left; reflexivity].
    - apply IH. intros a b Ha Hb. rewrite <- app_assoc in Ha, Hb. apply H; assumption.
  Qed.

  (* if each fixer establishes a post-condition under which it is the identity
     and the fixers preserve each other's post-conditions, ONE pass of all of
     them, in any order, reaches a common fixed point *)
  Theorem settling_composition fs :
    Forall sound fs -> (forall f g, In f fs -> In g fs -> preserves g f) ->
    forall x, (forall f, In f fs -> fx_run f (pass fs x) = pass fs x)
              /\ pass fs (pass fs x) = pass fs x.
  Proof.
    intros Hs Hp x. apply settling_composition_ordered; [exact Hs|].
    apply pairwise_triangular. exact Hp.
  Qed.
End Settling.
Arguments fx_run {T}. Arguments fx_post {T}. Arguments sound {T}. Arguments preserves {T}.
Arguments pass {T}. Arguments Build_fixer {T}.

(* ---------- trailing whitespace ---------- *)
Lemma last_cons2 {A} (c d : A) r x : last (c :: d :: r) x = last (d :: r) x.
Proof. reflexivity. Qed.

Lemma rtrim_clean s : ends_clean (rtrim s) = true.
Proof.
  induction s as [|c r IH]; [reflexivity|]. cbn [rtrim].
  destruct (rtrim r) as [|d r'] eqn:E.
  - destruct (is_hspace c) eqn:Ec; [reflexivity|]. unfold ends_clean. cbn. rewrite Ec. reflexivity.
  - unfold ends_clean in *. rewrite last_cons2. exact IH.
Qed.

Lemma rtrim_id s : ends_clean s = true -> rtrim s = s.
Proof.
  induction s as [|c r IH]; intros H; [reflexivity|]. cbn [rtrim].
  destruct r as [|d r'].
  - cbn. unfold ends_clean in H. cbn in H. destruct (is_hspace c); [discriminate|reflexivity].
  - unfold ends_clean in *. rewrite last_cons2 in H. rewrite (IH H). reflexivity.
Qed.

Lemma trim_line_settled s : line_settled (trim_line s) = true.
Proof.
  unfold trim_line, line_settled. destruct (last (rtrim s) 0 =? 92) eqn:E.
  - rewrite E. apply orb_true_r.
  - rewrite rtrim_clean. reflexivity.
Qed.

Lemma trim_line_id s : line_settled s = true -> trim_line s = s.
Proof.
  unfold trim_line, line_settled. destruct (last (rtrim s) 0 =? 92); [reflexivity|].
  rewrite orb_false_r. apply rtrim_id.
Qed.

Lemma clean_settled s : ends_clean s = true -> line_settled s = true.
Proof. unfold line_settled. intros ->. reflexivity. Qed.

Lemma trim_file_clean ls : forallb line_settled (trim_file ls) = true.
Proof. unfold trim_file. induction ls as [|l ls IH]; cbn [map forallb]; [reflexivity|]. rewrite trim_line_settled. exact IH. Qed.
Lemma trim_file_id ls : forallb line_settled ls = true -> trim_file ls = ls.
Proof.
  unfold trim_file. induction ls as [|l ls IH]; cbn [map forallb]; intros H; [reflexivity|].
  apply andb_true_iff in H as [H1 H2]. rewrite (trim_line_id _ H1), (IH H2). reflexivity.
Qed.
Theorem trim_settles ls : trim_file (trim_file ls) = trim_file ls.
Proof. apply trim_file_id, trim_file_clean. Qed.

(* ---------- CVS id + empty line ---------- *)
Lemma is_cvsid_line p : is_cvsid p (cvsid_line p) = true.
Proof.
  unfold is_cvsid, cvsid_line.
  assert (H : strip_prefix (p ++ netbsd) (p ++ netbsd ++ [36]) = Some [36])
    by (apply strip_prefix_some; rewrite app_assoc; reflexivity).
  rewrite H. reflexivity.
Qed.

Lemma header_ok_fix p ls : header_ok p (fix_header p ls) = true.
Proof.
  destruct ls as [|l0 r]; [reflexivity|]. cbn [fix_header].
  destruct (is_cvsid p l0) eqn:E.
  - destruct r as [|l1 r']; cbn; [rewrite E; reflexivity|].
    destruct l1; cbn; rewrite E; reflexivity.
  - destruct l0; cbn [header_ok]; rewrite is_cvsid_line; reflexivity.
Qed.

Lemma fix_header_id p ls : header_ok p ls = true -> fix_header p ls = ls.
Proof.
  destruct ls as [|l0 r]; [reflexivity|]. cbn. intros H.
  apply andb_true_iff in H as [H1 H2]. rewrite H1.
  destruct r as [|l1 r']; [discriminate|]. destruct l1; [reflexivity|discriminate].
Qed.

Theorem cvsid_settles p ls : fix_header p (fix_header p ls) = fix_header p ls.
Proof. apply fix_header_id, header_ok_fix. Qed.

(* ---------- PLIST sort ---------- *)
Lemma str_leb_total a : forall b, str_leb a b = false -> str_leb b a = true.
Proof.
  induction a as [|x a IH]; intros [|y b] H; cbn in *; try discriminate; try reflexivity.
  destruct (x <? y) eqn:E1; [discriminate|]. destruct (y <? x) eqn:E2; [reflexivity|]. apply IH, H.
Qed.

Lemma sortedb_cons x l : sortedb (x :: l) = true ->
  sortedb l = true /\ match l with [] => True | y :: _ => str_leb x y = true end.
Proof.
  destruct l as [|y r]; cbn; [auto|]. intros H. apply andb_true_iff in H. tauto.
Qed.

Lemma insert_sorted_sorted x l : sortedb l = true -> sortedb (insert_sorted x l) = true.
Proof.
  induction l as [|y r IH]; intros H; [reflexivity|]. cbn [insert_sorted].
  destruct (str_leb x y) eqn:E.
  - change (str_leb x y && sortedb (y :: r) = true). rewrite E, H. reflexivity.
  - destruct (sortedb_cons _ _ H) as [Hr Hy]. specialize (IH Hr).
    destruct r as [|z r'].
    + cbn. rewrite (str_leb_total _ _ E). reflexivity.
    + cbn [insert_sorted] in *. destruct (str_leb x z) eqn:E2.
      * change (str_leb y x && sortedb (x :: z :: r') = true). rewrite (str_leb_total _ _ E), IH. reflexivity.
      * change (str_leb y z && sortedb (z :: insert_sorted x r') = true). rewrite Hy, IH. reflexivity.
Qed.

Lemma isort_sorted l : sortedb (isort l) = true.
Proof. induction l as [|x r IH]; [reflexivity|]. cbn. apply insert_sorted_sorted, IH. Qed.

Lemma isort_id l : sortedb l = true -> isort l = l.
Proof.
  induction l as [|x r IH]; intros H; [reflexivity|].
  destruct (sortedb_cons _ _ H) as [Hr Hy]. cbn. rewrite (IH Hr).
  destruct r as [|y r']; [reflexivity|]. cbn. rewrite Hy. reflexivity.
Qed.

Theorem sort_idempotent l : isort (isort l) = isort l.
Proof. apply isort_id, isort_sorted. Qed.

(* ---------- distinfo hashes ---------- *)
Lemma hashes_ok_fix c es : hashes_ok c (fix_hashes c es) = true.
Proof.
  unfold hashes_ok, fix_hashes. induction es as [|e es IH]; cbn [map forallb fst snd]; [reflexivity|].
  rewrite str_eqb_refl. exact IH.
Qed.
Lemma fix_hashes_id c es : hashes_ok c es = true -> fix_hashes c es = es.
Proof.
  unfold hashes_ok, fix_hashes. induction es as [|[n h] es IH]; cbn [map forallb fst snd]; intros H; [reflexivity|].
  apply andb_true_iff in H as [H1 H2]. apply str_eqb_spec in H1. cbn [fst snd] in H1. rewrite (IH H2), <- H1. reflexivity.
Qed.
Theorem hash_settles c es : fix_hashes c (fix_hashes c es) = fix_hashes c es.
Proof. apply fix_hashes_id, hashes_ok_fix. Qed.

(* ---------- instance of the composition theorem: a text file whose header is
   fixed (CVS id, empty line) and whose lines are trimmed ---------- *)
Lemma cvsid_ends_clean p l : is_cvsid p l = true -> ends_clean l = true.
Proof.
  unfold is_cvsid. destruct (strip_prefix (p ++ netbsd) l) as [rest|] eqn:E; [|discriminate].
  apply strip_prefix_some in E. subst l. intros H.
  assert (Hl : exists pre, rest = pre ++ [36]).
  { destruct rest as [|c rest]; [discriminate|].
    destruct (N.eqb_spec c 36) as [->|Hc].
    - destruct rest; [exists []; reflexivity|discriminate].
    - destruct (N.eqb_spec c 58) as [->|Hc2].
      + pose proof (span_app (fun c => negb (c =? 36)) rest) as Hs.
        destruct (span (fun c => negb (c =? 36)) rest) as [b e]. cbn [fst snd] in Hs.
        apply andb_true_iff in H as [_ He]. apply str_eqb_spec in He. subst e.
        exists (58 :: b). cbn. rewrite Hs. reflexivity.
      + exfalso. destruct c as [|q]; [discriminate|].
        do 6 (destruct q as [q|q|]; try discriminate); congruence. }
  destruct Hl as [pre ->]. unfold ends_clean. rewrite app_assoc, last_last. reflexivity.
Qed.

Definition F_header (p : str) : fixer (list str) := Build_fixer (fix_header p) (fun ls => header_ok p ls = true).
Definition F_trim : fixer (list str) := Build_fixer trim_file (fun ls => forallb line_settled ls = true).

Lemma sound_header p : sound (F_header p).
Proof. split; cbn; [apply header_ok_fix|apply fix_header_id]. Qed.
Lemma sound_trim : sound F_trim.
Proof. split; cbn; [apply trim_file_clean|apply trim_file_id]. Qed.

Lemma trim_preserves_header p : preserves F_trim (F_header p).
Proof.
  intros ls. cbn. destruct ls as [|l0 r]; [reflexivity|]. cbn [header_ok]. intros H.
  apply andb_true_iff in H as [H1 H2]. destruct r as [|l1 r']; [discriminate|]. destruct l1; [|discriminate].
  unfold trim_file. cbn [map header_ok].
  rewrite (trim_line_id _ (clean_settled _ (cvsid_ends_clean _ _ H1))), H1. reflexivity.
Qed.

Lemma header_preserves_trim p : preserves (F_header p) F_trim.
Proof.
  intros ls. cbn. intros H.
  assert (Hid : line_settled (cvsid_line p) = true) by (apply clean_settled, (cvsid_ends_clean p), is_cvsid_line).
  destruct ls as [|l0 r]; [reflexivity|]. cbn [fix_header].
  cbn [forallb] in H. apply andb_true_iff in H as [H0 Hr].
  destruct (is_cvsid p l0).
  - destruct r as [|l1 r']; [cbn; rewrite H0; reflexivity|].
    destruct l1; [cbn [forallb]; rewrite H0; exact Hr|].
    cbn [forallb] in *. rewrite H0. exact Hr.
  - destruct l0; cbn [forallb]; rewrite Hid; cbn [forallb] in *; try rewrite H0; exact Hr.
Qed.

Theorem text_file_settles p ls :
  text_pass p (text_pass p ls) = text_pass p ls
  /\ fix_header p (text_pass p ls) = text_pass p ls /\ trim_file (text_pass p ls) = text_pass p ls.
Proof.
  destruct (settling_composition (list str) [F_header p; F_trim]) with (x := ls) as [Hall Hpass].
  - constructor; [apply sound_header|]. constructor; [apply sound_trim|constructor].
  - intros f g [<-|[<-|[]]] [<-|[<-|[]]].
    + intros x Hx. apply header_ok_fix.
    + apply trim_preserves_header.
    + apply header_preserves_trim.
    + intros x Hx. apply trim_file_clean.
  - split; [exact Hpass|]. split.
    + apply (Hall (F_header p)). left. reflexivity.
    + apply (Hall F_trim). right. left. reflexivity.
Qed.
