(* C01: the Indentation machine never evaluates top()/Pop() on an empty stack,
   whatever the sequence of directive lines (balanced or not). *)
From Coq Require Import List ZArith NArith Bool Lia.
From PV Require Import Lib.PanicRes Model.Indent.
Import ListNotations.
Open Scope Z_scope.

Lemma set_top_nonempty st t : st <> [] -> set_top st t <> [].
Proof. destruct st; simpl; congruence. Qed.

Lemma set_top_length st t : length (set_top st t) = length st.
Proof. destruct st; reflexivity. Qed.

Lemma add_var_ok st v : st <> [] ->
  exists st', add_var st v = Ok st' /\ st' <> [] /\ length st' = length st.
Proof.
  intros H. unfold add_var. destruct (v_mk v).
  - eauto.
  - destruct st as [|t r]; [congruence|]. simpl.
    destruct (existsb _ _); eexists; (split; [reflexivity|]); simpl; split; congruence.
Qed.

Lemma add_vars_ok vs : forall st, st <> [] ->
  exists st', add_vars st vs = Ok st' /\ st' <> [] /\ length st' = length st.
Proof.
  induction vs as [|v vs IH]; intros st H; simpl.
  - eauto.
  - destruct (add_var_ok st v H) as (st1 & E & N1 & L1). rewrite E. simpl.
    destruct (IH st1 N1) as (st2 & E2 & N2 & L2). exists st2. repeat split; auto. congruence.
Qed.

Lemma add_checked_file_ok st f : st <> [] ->
  exists st', add_checked_file st f = Ok st' /\ st' <> [] /\ length st' = length st.
Proof.
  intros H. destruct st as [|t r]; [congruence|]. unfold add_checked_file. simpl.
  eexists; split; [reflexivity|]. simpl; split; congruence.
Qed.

Lemma add_checked_files_ok fs : forall st, st <> [] ->
  exists st', add_checked_files st fs = Ok st' /\ st' <> [] /\ length st' = length st.
Proof.
  induction fs as [|f fs IH]; intros st H; simpl.
  - eauto.
  - destruct (add_checked_file_ok st f H) as (st1 & E & N1 & L1). rewrite E. simpl.
    destruct (IH st1 N1) as (st2 & E2 & N2 & L2). exists st2. repeat split; auto. congruence.
Qed.

(* Depth never indexes out of range *)
Lemma depth_of_ok st k : is_ok (depth_of st k).
Proof.
  unfold depth_of, is_ok.
  set (skip := match k with KElif | KElse | KEndfor | KEndif => 1%nat | _ => 0%nat end).
  destruct (length st <=? skip)%nat eqn:E; [eauto|].
  apply Nat.leb_gt in E.
  destruct (nth_error st skip) eqn:N; [eauto|].
  apply nth_error_None in N. lia.
Qed.

Definition opens (k : dkind) : bool :=
  match k with KFor | KIf | KIfdef | KIfndef | KIfmake | KIfnmake => true | _ => false end.

(* TrackBefore: never panics; after an opening directive the stack is not empty *)
Lemma track_before_ok st l :
  exists st1, track_before st l = Ok st1 /\ (opens (d_kind l) = true -> st1 <> []).
Proof.
  unfold track_before, is_directive.
  destruct (d_kind l) eqn:K; simpl;
    try (eexists; split; [reflexivity| discriminate]);
    destruct (depth_of_ok st (d_kind l)) as (d & E); rewrite K in E; rewrite E; simpl;
    unfold push, is_directive; rewrite K; simpl;
    (eexists; split; [reflexivity| intros _; discriminate]).
Qed.

Lemma args_ok st : st <> [] -> is_ok (args st).
Proof. destruct st; [congruence|]. intros _. unfold args. simpl. eexists; reflexivity. Qed.

Lemma check_directive_end_ok st l : is_ok (check_directive_end st l).
Proof.
  unfold check_directive_end, is_ok. destruct st as [|t r]; simpl; [eauto|].
  destruct (d_comment l); simpl; [|eauto].
  destruct (d_kind l); simpl; eauto.
Qed.

(* checkDirective: never panics provided a .for line finds its own level on the stack *)
Lemma check_directive_ok st l :
  (d_kind l = KFor -> st <> []) ->
  exists st' e u, check_directive st l = Ok (st', e, u) /\ (st <> [] -> st' <> []) /\
                  length st' = length st.
Proof.
  intros HF. unfold check_directive.
  destruct (depth_of_ok st (d_kind l)) as (e & E). rewrite E. simpl.
  destruct (d_kind l) eqn:K; simpl;
    try (do 3 eexists; split; [reflexivity| split; auto]; fail).
  - (* KFor *)
    unfold check_directive_for.
    destruct (add_vars_ok (d_forvars l) st (HF eq_refl)) as (st' & E1 & N1 & L1).
    rewrite E1. simpl. do 3 eexists; split; [reflexivity| split; auto].
  - destruct (check_directive_end_ok st l) as (u & U). rewrite U. simpl.
    do 3 eexists; split; [reflexivity| split; auto].
  - destruct (check_directive_end_ok st l) as (u & U). rewrite U. simpl.
    do 3 eexists; split; [reflexivity| split; auto].
Qed.

(* the second switch of TrackAfter *)
Lemma track_after_cond_ok pkgsrc st1 c :
  is_ok (if is_empty st1 then Ok st1 else
         match c with
         | None => Ok st1
         | Some (vars, files) =>
             bind (add_vars st1 vars) (fun st2 =>
               if negb pkgsrc then Ok st2 else add_checked_files st2 files)
         end).
Proof.
  unfold is_ok. destruct st1 as [|t r] eqn:S; simpl; [eauto|].
  destruct c as [[vars files]|]; [|eauto].
  destruct (add_vars_ok vars (t :: r)) as (st2 & E2 & N2 & _); [discriminate|].
  rewrite E2. simpl. destruct pkgsrc; simpl; [|eauto].
  destruct (add_checked_files_ok files st2 N2) as (st3 & E3 & _). eauto.
Qed.

(* TrackAfter: never panics provided an opening directive finds its level *)
Lemma track_after_ok pkgsrc st l :
  (opens (d_kind l) = true -> st <> []) -> is_ok (track_after pkgsrc st l).
Proof.
  intros HO. unfold track_after, is_directive.
  destruct (d_kind l) eqn:K; simpl in *; try (eexists; reflexivity).
  - (* KIf *)
    destruct st as [|t r]; [exfalso; apply HO; reflexivity|]. simpl.
    destruct (l_guard t); simpl.
    + exact (track_after_cond_ok pkgsrc (t :: r) (d_cond l)).
    + exact (track_after_cond_ok pkgsrc (bump t :: r) (d_cond l)).
  - destruct st as [|t r]; [exfalso; apply HO; reflexivity|]. simpl. eexists; reflexivity.
  - destruct st as [|t r]; [exfalso; apply HO; reflexivity|]. simpl. eexists; reflexivity.
  - destruct st as [|t r]; [exfalso; apply HO; reflexivity|]. simpl. eexists; reflexivity.
  - (* KElif *)
    destruct st as [|t r]; simpl.
    + eexists; reflexivity.
    + exact (track_after_cond_ok pkgsrc (_ :: r) (d_cond l)).
  - (* KElse *) destruct st as [|t r]; simpl; eexists; reflexivity.
  - (* KEndif *) destruct st as [|t r]; simpl; eexists; reflexivity.
  - (* KEndfor *) destruct st as [|t r]; simpl; eexists; reflexivity.
Qed.

Lemma step_ok pkgsrc st l : is_ok (step pkgsrc st l).
Proof.
  unfold step.
  destruct (track_before_ok st l) as (st1 & E1 & N1). rewrite E1. simpl.
  destruct (is_directive l) eqn:D.
  - destruct (check_directive_ok st1 l) as (st2 & e & u & E2 & N2 & L2).
    { intros K. apply N1. rewrite K. reflexivity. }
    rewrite E2. simpl.
    destruct (track_after_ok pkgsrc st2 l) as (st3 & E3).
    { intros O. apply N2, N1, O. }
    rewrite E3. simpl. eexists; reflexivity.
  - simpl. unfold track_after. rewrite D. simpl. eexists; reflexivity.
Qed.

Lemma check_finish_loop_ok : forall fuel st acc,
  (length st <= fuel)%nat -> is_ok (check_finish_loop fuel st acc).
Proof.
  induction fuel as [|fuel IH]; intros st acc H.
  - destruct st; simpl in *; [eexists; reflexivity | lia].
  - destruct st as [|t r]; simpl; [eexists; reflexivity|].
    apply IH. simpl in H. lia.
Qed.

Lemma check_finish_ok st : is_ok (check_finish st).
Proof.
  unfold check_finish. destruct (is_empty st); [eexists; reflexivity|].
  apply check_finish_loop_ok. lia.
Qed.

(* CheckFinish reports every level that is still open, innermost first *)
Lemma check_finish_loop_spec : forall fuel st acc,
  (length st <= fuel)%nat ->
  check_finish_loop fuel st acc = Ok (rev acc ++ map l_line st).
Proof.
  induction fuel as [|fuel IH]; intros st acc H.
  - destruct st; simpl in *; [now rewrite app_nil_r | lia].
  - destruct st as [|t r]; simpl; [now rewrite app_nil_r|].
    rewrite IH by (simpl in H; lia). simpl. now rewrite <- app_assoc.
Qed.

Lemma check_finish_spec st : check_finish st = Ok (map l_line st).
Proof.
  unfold check_finish. destruct st as [|t r]; [reflexivity|].
  cbn [is_empty]. now rewrite check_finish_loop_spec by lia.
Qed.

Lemma run_from_ok pkgsrc : forall ls st acc, is_ok (run_from pkgsrc st ls acc).
Proof.
  induction ls as [|l ls IH]; intros st acc; simpl.
  - destruct (check_finish_ok st) as (c & E). rewrite E. simpl. eexists; reflexivity.
  - destruct (step_ok pkgsrc st l) as (p & E). rewrite E. simpl. apply IH.
Qed.

(* For ALL sequences of lines, with and without a pkgsrc tree: no panic, no fuel exhaustion *)
Theorem indent_stack_safe : forall (pkgsrc : bool) (ls : list dline),
  exists r, run pkgsrc ls = Ok r.
Proof. intros. apply run_from_ok. Qed.

(* The model of the code BEFORE fix aedbed2 (no IsEmpty test in the second
   switch of TrackAfter) does panic: the theorem above is not vacuous. *)
Definition track_after_unfixed (pkgsrc : bool) (st : state) (l : dline) : res state :=
  match d_kind l with
  | KElif =>
      match d_cond l with
      | None => Ok st
      | Some (vars, files) => add_vars st vars
      end
  | _ => track_after pkgsrc st l
  end.

Definition stray_elif : dline :=
  {| d_kind := KElif; d_no := 1%N; d_cond := Some ([ {| v_id := 7%N; v_mk := false |} ], []);
     d_guard := false; d_forvars := []; d_comment := false |}.

Lemma unfixed_panics : track_after_unfixed true [] stray_elif = Panic 1.
Proof. reflexivity. Qed.
