(* getRawValueAlign (raw_value_align_loop) on two raw texts that share a prefix:
   if the walk along p1 stays inside the common prefix F of (F ++ x), then the walk on (F ++ y)
   along p1 ++ blanks succeeds. *)
From Coq Require Import List Lia ZArith NArith Bool.
From PV Require Import Lib.Bytes Model.MkLexPrim Model.MkLineSplit Proofs.MkLexPrim Proofs.MkLineSplit Proofs.Varassign Proofs.VarassignFull.
From Coq Require Import ZifyBool ZifyN ZifyNat.
Import ListNotations.
Open Scope N_scope.

Notation L := raw_value_align_loop.

(* ends with a byte that is no blank *)
Definition ends_nh (p : str) : Prop := rtrim_hspace p = p /\ p <> [].

Lemma ends_nh_tail c p : ends_nh (c :: p) -> p <> [] -> ends_nh p.
Proof. intros [H _] Hp. split; [eapply rtrim_fixed_tail; exact H|exact Hp]. Qed.

Lemma ends_nh_single c : ends_nh [c] -> is_hspace c = false.
Proof. intros [H _]. cbn in H. destruct (is_hspace c); [discriminate|reflexivity]. Qed.

Lemma rtrim_nil_all s : rtrim_hspace s = [] -> forallb is_hspace s = true.
Proof.
  induction s as [|c t IH]; [reflexivity|]. cbn [rtrim_hspace forallb].
  destruct (rtrim_hspace t); [|discriminate]. destruct (is_hspace c); [|discriminate]. intros _. rewrite IH; reflexivity.
Qed.

(* a text that ends with a non-blank: the run of blanks at its start ends inside it *)
Lemma span_ends_nh F z : ends_nh F ->
  span is_hspace (F ++ z) = (fst (span is_hspace F), snd (span is_hspace F) ++ z) /\
  ends_nh (snd (span is_hspace F)).
Proof.
  induction F as [|c t IH]; intros [H Hne]; [congruence|].
  cbn [span app]. destruct (is_hspace c) eqn:Hc.
  - assert (Ht : t <> []).
    { intro; subst t. cbn in H. rewrite Hc in H. discriminate. }
    destruct (IH (ends_nh_tail _ _ (conj H Hne) Ht)) as [E1 E2].
    rewrite E1. destruct (span is_hspace t) as [a b]. cbn [fst snd] in *. split; [reflexivity|exact E2].
  - split; [reflexivity|]. cbn [snd]. split; assumption.
Qed.

Lemma span_head_hspace c t : is_hspace c = true ->
  (length (snd (span is_hspace (c :: t))) < length (c :: t))%nat.
Proof.
  intro Hc. pose proof (span_length is_hspace (c :: t)) as E. cbn [span] in *. rewrite Hc in *.
  destruct (span is_hspace t) as [a b]. cbn [fst snd length] in *. lia.
Qed.

(* the result is a suffix of the raw text *)
Lemma loop_suffix : forall fuel r p r', L fuel r p = Ok r' -> is_suffix r' r.
Proof.
  induction fuel as [|f IH]; intros r p r' H; [discriminate|].
  cbn [raw_value_align_loop] in H. destruct p as [|pch p1]; [inversion H; apply is_suffix_refl|].
  destruct (match r with rch :: _ => pch =? rch | [] => false end).
  - destruct r as [|rch r1]; [unfold skip in H; cbn in H; discriminate|].
    rewrite skip_ok in H by (simpl; lia). cbn [bind skipn] in H.
    eapply is_suffix_trans; [eapply IH; exact H|apply is_suffix_cons].
  - destruct (is_hspace pch).
    + eapply is_suffix_trans; [eapply IH; exact H|apply next_bytes_suffix].
    + destruct (negb (pch =? 35)); [discriminate|].
      destruct (skip_string [92; 35] r) as [r1|] eqn:E; [|discriminate].
      apply skip_string_some in E. subst r.
      eapply is_suffix_trans; [eapply IH; exact H|]. exists [92; 35]. reflexivity.
Qed.

(* a walk that consumes nothing of the raw text went along blanks only *)
Lemma loop_no_consumption : forall fuel r p r', L fuel r p = Ok r' -> (length r <= length r')%nat ->
  forallb is_hspace p = true.
Proof.
  induction fuel as [|f IH]; intros r p r' H Hl; [discriminate|].
  cbn [raw_value_align_loop] in H. destruct p as [|pch p1]; [reflexivity|].
  destruct (match r with rch :: _ => pch =? rch | [] => false end).
  - exfalso. destruct r as [|rch r1]; [unfold skip in H; cbn in H; discriminate|].
    rewrite skip_ok in H by (simpl; lia). cbn [bind skipn] in H.
    apply loop_suffix, is_suffix_length in H. simpl in Hl. lia.
  - destruct (is_hspace pch) eqn:Hh.
    + pose proof (next_bytes_suffix is_hspace r) as S1. apply is_suffix_length in S1.
      pose proof (loop_suffix _ _ _ _ H) as S2. apply is_suffix_length in S2.
      specialize (IH _ _ _ H ltac:(lia)).
      unfold next_bytes in IH.
      pose proof (span_rest_head is_hspace (pch :: p1)) as Hd.
      pose proof (span_all is_hspace (pch :: p1)) as Ha.
      pose proof (span_app is_hspace (pch :: p1)) as Hp.
      destruct (snd (span is_hspace (pch :: p1))) as [|d t].
      * rewrite app_nil_r in Hp. rewrite <- Hp. exact Ha.
      * cbn [forallb] in IH. rewrite Hd in IH. discriminate.
    + exfalso. destruct (negb (pch =? 35)); [discriminate|].
      destruct (skip_string [92; 35] r) as [r1|] eqn:E; [|discriminate].
      apply skip_string_some in E. subst r.
      apply loop_suffix, is_suffix_length in H. simpl in Hl. lia.
Qed.

(* along blanks only, the walk never fails *)
Lemma loop_blanks : forall fuel q r, forallb is_hspace q = true -> (length q < fuel)%nat ->
  exists r', L fuel r q = Ok r'.
Proof.
  induction fuel as [|f IH]; intros q r Hq Hf; [lia|].
  cbn [raw_value_align_loop]. destruct q as [|pch q1]; [eexists; reflexivity|].
  cbn [forallb] in Hq. apply andb_true_iff in Hq as [Hc Hq1].
  destruct (match r with rch :: _ => pch =? rch | [] => false end) eqn:M.
  - destruct r as [|rch r1]; [discriminate|]. rewrite skip_ok by (simpl; lia). cbn [bind skipn].
    apply IH; [exact Hq1|simpl in Hf; lia].
  - rewrite Hc. apply IH.
    + pose proof (span_app is_hspace (pch :: q1)) as Hp. unfold next_bytes.
      assert (Hall : forallb is_hspace (pch :: q1) = true) by (cbn [forallb]; rewrite Hc, Hq1; reflexivity).
      rewrite <- Hp in Hall. rewrite forallb_app in Hall. apply andb_true_iff in Hall as [_ H2]. exact H2.
    + pose proof (span_head_hspace pch q1 Hc). unfold next_bytes. simpl in *. lia.
Qed.

(* the walk along p1 ++ blanks succeeded: so does the walk along p1 *)
Lemma loop_prefix : forall fuel fuel' r p1 hs rr, ends_nh p1 -> L fuel r (p1 ++ hs) = Ok rr ->
  (length p1 < fuel')%nat -> exists r', L fuel' r p1 = Ok r'.
Proof.
  induction fuel as [|f IH]; intros fuel' r p1 hs rr Hp H Hf; [discriminate|].
  destruct fuel' as [|f']; [lia|].
  destruct p1 as [|pch p1']; [destruct Hp; congruence|].
  cbn [raw_value_align_loop app] in *.
  assert (Next : forall r1, L f r1 (p1' ++ hs) = Ok rr -> exists r', L f' r1 p1' = Ok r').
  { intros r1 H1. destruct p1' as [|d p2].
    - destruct f' as [|f'']; [simpl in Hf; lia|]. eexists; reflexivity.
    - eapply IH; [eapply ends_nh_tail; [exact Hp|discriminate]|exact H1|simpl in *; lia]. }
  destruct (match r with rch :: _ => pch =? rch | [] => false end).
  - destruct (skip 1 r) as [r1| |]; cbn [bind] in *; try discriminate. apply Next; exact H.
  - destruct (is_hspace pch) eqn:Hh.
    + destruct (span_ends_nh (pch :: p1') hs Hp) as [E1 E2].
      unfold next_bytes in *. change (pch :: p1' ++ hs) with ((pch :: p1') ++ hs) in H. rewrite E1 in H. cbn [snd] in H.
      eapply IH; [exact E2|exact H|].
      pose proof (span_head_hspace pch p1' Hh). simpl in *. lia.
    + destruct (negb (pch =? 35)); [discriminate|].
      destruct (skip_string [92; 35] r) as [r1|]; [|discriminate]. apply Next; exact H.
Qed.

(* the main lemma *)
Lemma loop_common_prefix : forall fuelT fuel p1 hs F x y rT,
  ends_nh p1 -> forallb is_hspace hs = true -> rtrim_hspace F = F ->
  L fuelT (F ++ x) p1 = Ok rT -> (length x <= length rT)%nat ->
  (length (p1 ++ hs) < fuel)%nat ->
  exists r', L fuel (F ++ y) (p1 ++ hs) = Ok r'.
Proof.
  induction fuelT as [|fT IH]; intros fuel p1 hs F x y rT Hp Hhs HF H Hl Hf; [discriminate|].
  destruct fuel as [|f]; [lia|].
  destruct p1 as [|pch p1']; [destruct Hp; congruence|].
  (* an empty common prefix: the walk would have to consume something of x *)
  destruct F as [|c F'].
  { exfalso. cbn [app] in H. pose proof (loop_no_consumption _ _ _ _ H Hl) as B.
    destruct Hp as [Hr _]. apply rtrim_all_blanks in B. rewrite B in Hr. discriminate. }
  cbn [raw_value_align_loop app] in *.
  assert (Next : forall F2, rtrim_hspace F2 = F2 -> L fT (F2 ++ x) p1' = Ok rT ->
            exists r', L f (F2 ++ y) (p1' ++ hs) = Ok r').
  { intros F2 HF2 H1. destruct p1' as [|d p2].
    - cbn [app]. apply loop_blanks; [exact Hhs|simpl in Hf; lia].
    - eapply IH; [eapply ends_nh_tail; [exact Hp|discriminate]|exact Hhs|exact HF2|exact H1|exact Hl|simpl in *; lia]. }
  destruct (pch =? c) eqn:Ec.
  - rewrite skip_ok in * by (simpl; lia). cbn [bind skipn] in *.
    apply (Next F'); [eapply rtrim_fixed_tail; exact HF|exact H].
  - destruct (is_hspace pch) eqn:Hh.
    + assert (HFn : ends_nh (c :: F')) by (split; [exact HF|discriminate]).
      destruct (span_ends_nh (c :: F') x HFn) as [Ex E2].
      destruct (span_ends_nh (c :: F') y HFn) as [Ey _].
      destruct (span_ends_nh (pch :: p1') hs Hp) as [Eh Ep2].
      destruct (span_ends_nh (pch :: p1') [] Hp) as [E0 _]. rewrite !app_nil_r in E0.
      unfold next_bytes in *.
      change (c :: F' ++ x) with ((c :: F') ++ x) in H. change (c :: F' ++ y) with ((c :: F') ++ y).
      change (pch :: p1' ++ hs) with ((pch :: p1') ++ hs).
      rewrite Ex in H. rewrite Ey, Eh. cbn [snd] in *.
      eapply IH; [exact Ep2|exact Hhs|exact (proj1 E2)|exact H|exact Hl|].
      pose proof (span_head_hspace pch p1' Hh) as Hs.
      assert (Hf' : (S (length p1' + length hs) < S f)%nat) by (rewrite <- app_length; exact Hf).
      rewrite app_length. remember (length (snd (span is_hspace (pch :: p1')))) as k. cbn [length] in Hs. lia.
    + destruct (negb (pch =? 35)); [discriminate|].
      unfold skip_string in *. cbn [strip_prefix] in *.
      destruct (92 =? c) eqn:E92; [|discriminate].
      destruct F' as [|c2 F3].
      * exfalso. cbn [app] in H. destruct x as [|x0 x1]; [discriminate|].
        destruct (35 =? x0); [|discriminate].
        apply loop_suffix, is_suffix_length in H. simpl in Hl. lia.
      * cbn [app] in *. destruct (35 =? c2); [|discriminate].
        apply (Next F3); [|exact H].
        eapply rtrim_fixed_tail. eapply rtrim_fixed_tail. exact HF.
Qed.
