(* The theorems about the file cache (Props/C20.v states them). *)
From PV Require Import Lib.Bytes Model.FileCache Spec.FreshLoad
  Proofs.FileCacheLists Proofs.FileCacheWf Proofs.FileCacheInv.
From Coq Require Import Permutation Arith.
Open Scope N_scope.
Arguments map_set : simpl never.

(* what a Load shows: the lines of the view it returned, read at that moment *)
Definition load_obs (s' : state) (r : option nat) : option (list lobs) :=
  match r with
  | Some v => option_map (fun p => map obs_line (snd p)) (view_lines s' v)
  | None => None
  end.

Section Theorems.
Variable convert : str -> N -> list lval.
Variable is_mk : N -> bool.

Notation reach := (reach convert is_mk).
Notation load := (load convert is_mk).
Notation step := (step convert is_mk).

(* ---------- table and mapping ---------- *)

Theorem table_mapping_bijection : forall md cap disk s, (1 <= cap)%nat -> reach md cap disk s ->
  let c := st_cache s in
  (forall k eid, map_get k (c_map c) = Some eid <->
                 In eid (c_table c) /\ e_key (entry_at (c_store c) eid) = k) /\
  NoDup (c_table c) /\ NoDup (map fst (c_map c)) /\
  (forall eid, In eid (c_table c) -> (eid < length (c_store c))%nat).
Proof.
  intros md cap disk s Hc R. destruct (reach_Inv_cap _ _ _ _ _ _ Hc R) as [I _].
  destruct (inv_wf _ _ I) as [G IG ND K C]. simpl. split; [|split; [|split]]; auto.
  - intros k eid. split; [apply G|]. intros [Hin Hk]. destruct (IG _ Hin) as [_ H]. congruence.
  - intros eid H. apply IG; auto.
Qed.

Theorem capacity_respected : forall md cap disk s, (1 <= cap)%nat -> reach md cap disk s ->
  (length (c_table (st_cache s)) <= cap)%nat /\ c_cap (st_cache s) = cap.
Proof.
  intros md cap disk s Hc R. destruct (reach_Inv_cap _ _ _ _ _ _ Hc R) as [I HC].
  split; auto. rewrite <- HC. apply (inv_wf _ _ I).
Qed.

(* ---------- Load never panics ---------- *)

Theorem load_never_panics : forall md cap disk s fn o w, (1 <= cap)%nat -> reach md cap disk s ->
  load s fn o = Stop w -> w = Fatal /\ has_opt o MustSucceed = true.
Proof.
  intros md cap disk s fn o w Hc R. destruct (reach_Inv_cap _ _ _ _ _ _ Hc R) as [I _].
  unfold FileCache.load.
  destruct (get (st_cache s) (st_heap s) fn o) as [[c1 h1] r0] eqn:G.
  destruct (wf_get _ _ _ _ _ _ _ (inv_wf _ _ I) G) as (W1 & HC1 & _).
  destruct r0; [discriminate|].
  destruct (map_get (key fn) (st_disk s)) as [raw|].
  - destruct (is_empty raw && has_opt o NotEmpty)%bool.
    + destruct (has_opt o MustSucceed); [intros H; inversion H; auto|discriminate].
    + destruct (is_mk (key fn)); [|discriminate].
      destruct (wf_put c1 (key fn) o (seq (length h1) (length (convert raw o))) W1) as (c2 & eid0 & P & _).
      { rewrite HC1. apply (inv_cap _ _ I). }
      rewrite P. discriminate.
  - destruct (has_opt o MustSucceed); [intros H; inversion H; auto|discriminate].
Qed.

(* ---------- transparency ---------- *)

Lemma fresh_read_unfold disk fn o :
  fresh_read convert disk fn o =
  match map_get (key fn) disk with
  | None => None
  | Some raw => if (is_empty raw && has_opt o NotEmpty)%bool then None
                else Some (map fresh_line (convert raw o))
  end.
Proof.
  unfold fresh_read. destruct (map_get (key fn) disk) as [raw|]; auto.
  destruct raw; simpl; auto.
Qed.

Lemma obs_line_new_line fn v : obs_line (new_line fn v) = fresh_line v.
Proof. destruct v as [[no text] raw]. reflexivity. Qed.

Lemma view_lines_last s c fn (nl : heap) d p :
  view_lines (mkState c (st_heap s ++ nl) (st_views s ++ [(fn, seq (length (st_heap s)) (length nl))]) d p)
             (length (st_views s)) = Some (fn, nl).
Proof.
  unfold view_lines; simpl. rewrite nth_error_app2, Nat.sub_diag by auto. simpl.
  f_equal. f_equal. etransitivity; [|apply map_id]. apply (map_seq_app (fun l : line => l)).
Qed.

(* a Load that does not find the file in the cache reads it: no invariant needed *)
Lemma load_miss_fresh s fn o s' r :
  (forall eid, map_get (key fn) (c_map (st_cache s)) = Some eid ->
               e_opts (entry_at (c_store (st_cache s)) eid) <> o) ->
  load s fn o = Ok (s', r) ->
  load_obs s' r = fresh_read convert (st_disk s) fn o /\ st_disk s' = st_disk s.
Proof.
  intros Hmiss. unfold FileCache.load. rewrite fresh_read_unfold.
  destruct (get (st_cache s) (st_heap s) fn o) as [[c1 h1] r0] eqn:G.
  destruct (get_spec _ _ _ _ _ _ _ G) as [(eid & E & Ho & _)|(-> & -> & _)].
  { exfalso. eapply Hmiss; eauto. }
  destruct (map_get (key fn) (st_disk s)) as [raw|].
  - destruct (is_empty raw && has_opt o NotEmpty)%bool.
    + destruct (has_opt o MustSucceed); [discriminate|]. intros H; inversion H; subst; auto.
    + assert (Hobs : forall c2,
        load_obs (mkState c2 (st_heap s ++ map (new_line fn) (convert raw o))
                          (st_views s ++ [(fn, seq (length (st_heap s)) (length (convert raw o)))])
                          (st_disk s) (st_pending s)) (Some (length (st_views s)))
        = Some (map fresh_line (convert raw o))).
      { intros c2. unfold load_obs.
        rewrite <- (map_length (new_line fn) (convert raw o)).
        rewrite (view_lines_last s c2). simpl. f_equal.
        rewrite map_map. apply map_ext. apply obs_line_new_line. }
      destruct (is_mk (key fn)).
      * destruct (put c1 (key fn) o _) as [c2|w]; simpl; [|discriminate].
        intros H; inversion H; subst. split; auto.
      * simpl. intros H; inversion H; subst. split; auto.
  - destruct (has_opt o MustSucceed); [discriminate|]. intros H; inversion H; subst; auto.
Qed.

Lemma guard_no_pending s fn o v fv av :
  guard_step s (OLoad fn o) = true -> nth_error (st_views s) v = Some (fv, av) ->
  In v (st_pending s) -> key fv <> key fn.
Proof.
  simpl. intros G V P. rewrite forallb_forall in G. specialize (G v P).
  unfold view_key in G. rewrite V in G. destruct (N.eqb_spec (key fv) (key fn)); [discriminate|auto].
Qed.

Theorem load_transparent : forall md cap disk s fn o s' r, (1 <= cap)%nat -> reach md cap disk s ->
  guard_step s (OLoad fn o) = true ->
  load s fn o = Ok (s', r) ->
  load_obs s' r = fresh_read convert (st_disk s) fn o /\ st_disk s' = st_disk s.
Proof.
  intros md cap disk s fn o s' r Hc R Gd L.
  destruct (reach_Inv_cap _ _ _ _ _ _ Hc R) as [I _].
  destruct (map_get (key fn) (c_map (st_cache s))) as [eid|] eqn:E.
  2: { eapply load_miss_fresh; eauto. intros eid H. congruence. }
  destruct (N.eq_dec (e_opts (entry_at (c_store (st_cache s)) eid)) o) as [Ho|Ho].
  2: { eapply load_miss_fresh; eauto. intros eid' H. congruence. }
  (* served by the cache *)
  destruct (wf_get_in _ (inv_wf _ _ I) _ _ E) as [Hin Hkey].
  set (e := entry_at (c_store (st_cache s)) eid) in *.
  assert (Hclean : forall a, In a (e_lines e) -> is_modified (line_at (st_heap s) a) = false).
  { intros a Ha. destruct (is_modified (line_at (st_heap s) a)) eqn:M; auto. exfalso.
    destruct (inv_pending _ _ I _ _ Hin Ha M) as (v & fv & av & V & Hav & P).
    destruct (inv_first _ _ I _ Hin) as (u & fu & U & Hk).
    assert (v = u) by (eapply (inv_disj _ _ I); eauto). subst u.
    rewrite V in U. inversion U; subst fu.
    eapply guard_no_pending; eauto. fold e in Hk. congruence. }
  destruct (inv_clean _ _ I _ Hin Hclean) as (raw & R1 & R2 & R3). fold e in R1, R2, R3.
  revert L. unfold FileCache.load.
  destruct (get (st_cache s) (st_heap s) fn o) as [[c1 h1] r0] eqn:G.
  destruct (get_spec _ _ _ _ _ _ _ G) as [(eid' & E' & _ & -> & ->)|(_ & _ & [N|(eid' & E' & Ho')])];
    [|congruence|exfalso; assert (eid' = eid) by congruence; subst eid'; apply Ho'; exact Ho].
  assert (eid' = eid) by congruence. subst eid'. fold e.
  intros H; injection H as <- <-. split; auto.
  rewrite fresh_read_unfold. rewrite <- Hkey, R1, <- Ho, R2.
  unfold load_obs. rewrite <- (map_length (fresh_copy fn (st_heap s)) (e_lines e)).
  rewrite (view_lines_last s c1). simpl. f_equal.
  rewrite <- R3, !map_map. apply map_ext. intros a. reflexivity.
Qed.

(* ---------- after SaveAutofixChanges ---------- *)

Theorem no_stale_after_save : forall md cap disk s v fl s' w, (1 <= cap)%nat -> reach md cap disk s ->
  step md s (OSave v fl) = Ok (s', ObsSave w) ->
  (* every rewritten file, and in every mode the file of every modified line, is out of the cache *)
  (forall k x, In (k, x) w -> map_get k (c_map (st_cache s')) = None) /\
  (forall fn ls l, view_lines s v = Some (fn, ls) -> In l ls -> is_modified l = true ->
     map_get (key (ln_file l)) (c_map (st_cache s')) = None) /\
  (* so the next Load of such a file reads the disk, whatever happened before *)
  (forall fn o s'' r,
     (In (key fn) (map fst w) \/
      exists f ls l, view_lines s v = Some (f, ls) /\ In l ls /\ is_modified l = true /\
                     key (ln_file l) = key fn) ->
     load s' fn o = Ok (s'', r) ->
     load_obs s'' r = fresh_read convert (st_disk s') fn o).
Proof.
  intros md cap disk s v fl s' w Hc R. destruct (reach_Inv_cap _ _ _ _ _ _ Hc R) as [I _].
  simpl. destruct (view_lines s v) as [[fn ls]|] eqn:V; [|intros H; inversion H].
  destruct (save_lines md fl (st_cache s) (st_disk s) ls) as [[c' d'] w'] eqn:S.
  intros H; inversion H; subst; clear H. simpl.
  destruct (save_lines_spec _ _ _ _ _ _ _ _ S) as (ks & -> & HK & HD & HW).
  destruct (evicts_spec ks _ (inv_wf _ _ I)) as (W' & _ & _ & _ & HN & _).
  assert (P1 : forall k x, In (k, x) w -> map_get k (c_map (evicts ks (st_cache s))) = None).
  { intros k x Hin. apply HN. eapply HW; eauto. }
  assert (P2 : forall fn0 ls0 l, Some (fn, ls) = Some (fn0, ls0) -> In l ls0 -> is_modified l = true ->
            map_get (key (ln_file l)) (c_map (evicts ks (st_cache s))) = None).
  { intros fn0 ls0 l Heq Hl Hm. inversion Heq; subst. apply HN. apply HK; auto. }
  split; [auto|split; [auto|]].
  intros fn0 o s'' r Hcase L.
  eapply (load_miss_fresh (mkState (evicts ks (st_cache s)) (st_heap s) (st_views s) d' (remove_nat v (st_pending s)))); eauto.
  simpl. intros eid Hget. exfalso.
  destruct Hcase as [Hin|(f & ls0 & l & Heq & Hl & Hm & Hk)].
  - apply in_map_iff in Hin. destruct Hin as ([k x] & Hk & Hin). simpl in Hk. subst k.
    rewrite (P1 _ _ Hin) in Hget. discriminate.
  - rewrite <- Hk, (P2 _ _ _ Heq Hl Hm) in Hget. discriminate.
Qed.

(* a FAILING save (the temporary file cannot be created / written / renamed):
   nothing is reported as written, the file keeps its content, and the file of
   every modified line is out of the cache all the same, so the next Load of it
   returns the lines of the UNCHANGED disk content -- not the fixed lines that
   are still in memory *)
Theorem no_stale_after_failed_save : forall md cap disk s v fl s' w, (1 <= cap)%nat -> reach md cap disk s ->
  step md s (OSave v fl) = Ok (s', ObsSave w) ->
  (forall k, key_in k fl = true ->
     map_get k (st_disk s') = map_get k (st_disk s) /\ ~ In k (map fst w)) /\
  (forall f ls l fn o s'' r,
     view_lines s v = Some (f, ls) -> In l ls -> is_modified l = true ->
     key fn = key (ln_file l) -> key_in (key fn) fl = true ->
     load s' fn o = Ok (s'', r) ->
     map_get (key fn) (c_map (st_cache s')) = None /\
     load_obs s'' r = fresh_read convert (st_disk s) fn o).
Proof.
  intros md cap disk s v fl s' w Hc R St.
  destruct (no_stale_after_save md cap disk s v fl s' w Hc R St) as (_ & N2 & N3).
  assert (F : forall k, key_in k fl = true ->
     map_get k (st_disk s') = map_get k (st_disk s) /\ ~ In k (map fst w)).
  { revert St. simpl. destruct (view_lines s v) as [[fn ls]|] eqn:V; [|intros H; inversion H].
    destruct (save_lines md fl (st_cache s) (st_disk s) ls) as [[c' d'] w'] eqn:S.
    intros H; inversion H; subst; clear H. simpl. apply (save_lines_failed _ _ _ _ _ _ _ _ S). }
  split; auto.
  intros f ls l fn o s'' r V Hl Hm Hk Hf L. split.
  - rewrite Hk. eapply N2; eauto.
  - rewrite (N3 fn o s'' r); auto.
    + rewrite !fresh_read_unfold. destruct (F _ Hf) as [-> _]. auto.
    + right. exists f, ls, l. auto.
Qed.

(* ---------- Line objects are not shared between loads ---------- *)

Theorem fresh_lines_per_load : forall md cap disk s fn o s' v, (1 <= cap)%nat -> reach md cap disk s ->
  load s fn o = Ok (s', Some v) ->
  v = length (st_views s) /\
  exists addrs, nth_error (st_views s') v = Some (fn, addrs) /\
    (* new objects, nothing attached *)
    (forall a, In a addrs ->
       (length (st_heap s) <= a < length (st_heap s'))%nat /\ ln_fix (line_at (st_heap s') a) = None) /\
    (* no earlier view holds any of them, and the earlier views are untouched *)
    (forall w fw aw a, nth_error (st_views s) w = Some (fw, aw) -> In a aw -> ~ In a addrs) /\
    (forall w, (w < length (st_views s))%nat -> view_lines s' w = view_lines s w).
Proof.
  intros md cap disk s fn o s' v Hc R. destruct (reach_Inv_cap _ _ _ _ _ _ Hc R) as [I _].
  assert (Gen : forall c2 (nl : heap),
    (forall l, In l nl -> ln_fix l = None) ->
    let s2 := mkState c2 (st_heap s ++ nl) (st_views s ++ [(fn, seq (length (st_heap s)) (length nl))])
                      (st_disk s) (st_pending s) in
    exists addrs, nth_error (st_views s2) (length (st_views s)) = Some (fn, addrs) /\
      (forall a, In a addrs -> (length (st_heap s) <= a < length (st_heap s2))%nat /\ ln_fix (line_at (st_heap s2) a) = None) /\
      (forall w fw aw a, nth_error (st_views s) w = Some (fw, aw) -> In a aw -> ~ In a addrs) /\
      (forall w, (w < length (st_views s))%nat -> view_lines s2 w = view_lines s w)).
  { intros c2 nl Hnl. simpl. exists (seq (length (st_heap s)) (length nl)).
    split; [rewrite nth_error_app2, Nat.sub_diag; auto|]. split; [|split].
    - intros a Ha. apply in_seq in Ha. rewrite app_length. split; [lia|].
      replace a with (length (st_heap s) + (a - length (st_heap s)))%nat by lia.
      rewrite line_at_app_r. apply Hnl. apply nth_In. lia.
    - intros w fw aw a Hw Ha Hin. apply in_seq in Hin.
      destruct (inv_views _ _ I _ _ _ _ Hw Ha). lia.
    - intros w Hw. unfold view_lines; simpl. rewrite nth_error_app1 by auto.
      destruct (nth_error (st_views s) w) as [[fw aw]|] eqn:E; auto.
      f_equal. f_equal. apply map_ext_in. intros a Ha. apply line_at_app_l.
      destruct (inv_views _ _ I _ _ _ _ E Ha); auto. }
  unfold FileCache.load.
  destruct (get (st_cache s) (st_heap s) fn o) as [[c1 h1] r0] eqn:G.
  destruct (get_spec _ _ _ _ _ _ _ G) as [(eid & E & Ho & -> & ->)|(-> & -> & _)].
  - intros H; inversion H; subst; clear H. split; auto.
    rewrite <- (map_length (fresh_copy fn (st_heap s))).
    apply Gen. intros l Hl. apply in_map_iff in Hl. destruct Hl as (a & <- & _). auto.
  - destruct (map_get (key fn) (st_disk s)) as [raw|].
    + destruct (is_empty raw && has_opt o NotEmpty)%bool.
      * destruct (has_opt o MustSucceed); [discriminate|]. intros H; inversion H.
      * assert (Hnl : forall l, In l (map (new_line fn) (convert raw o)) -> ln_fix l = None).
        { intros l Hl. apply in_map_iff in Hl. destruct Hl as (x & <- & _). apply new_line_props. }
        destruct (is_mk (key fn)).
        -- destruct (put c1 (key fn) o _) as [c2|w]; simpl; [|discriminate].
           intros H; inversion H; subst; clear H. split; auto.
           rewrite <- (map_length (new_line fn) (convert raw o)). apply Gen; auto.
        -- simpl. intros H; inversion H; subst; clear H. split; auto.
           rewrite <- (map_length (new_line fn) (convert raw o)). apply Gen; auto.
    + destruct (has_opt o MustSucceed); [discriminate|]. intros H; inversion H.
Qed.

(* the views only grow, and every view is a block of consecutive addresses *)
Lemma load_views s fn o s' r : load s fn o = Ok (s', r) ->
  st_views s' = st_views s \/ exists st n, st_views s' = st_views s ++ [(fn, seq st n)].
Proof.
  unfold FileCache.load.
  destruct (get (st_cache s) (st_heap s) fn o) as [[c1 h1] r0] eqn:G.
  destruct (get_spec _ _ _ _ _ _ _ G) as [(eid & E & Ho & -> & ->)|(-> & -> & _)].
  - intros H; inversion H; subst; simpl. right; eauto.
  - destruct (map_get (key fn) (st_disk s)) as [raw|].
    + destruct (is_empty raw && has_opt o NotEmpty)%bool.
      * destruct (has_opt o MustSucceed); [discriminate|]. intros H; inversion H; subst; auto.
      * destruct (is_mk (key fn)).
        -- destruct (put c1 (key fn) o _) as [c2|w]; simpl; [|discriminate].
           intros H; inversion H; subst; simpl. right; eauto.
        -- simpl. intros H; inversion H; subst; simpl. right; eauto.
    + destruct (has_opt o MustSucceed); [discriminate|]. intros H; inversion H; subst; auto.
Qed.

Lemma step_views md s o s' ob : step md s o = Ok (s', ob) ->
  st_views s' = st_views s \/ exists fn st n, st_views s' = st_views s ++ [(fn, seq st n)].
Proof.
  destruct o as [fn opts|v i f|v fl|k x]; simpl.
  - destruct (load s fn opts) as [[s1 r]|w] eqn:L; simpl; [|discriminate].
    intros H; inversion H; subst. destruct (load_views _ _ _ _ _ L) as [->|(st & n & ->)]; eauto.
  - destruct (nth_error (st_views s) v) as [[fn addrs]|]; [|intros H; inversion H; subst; auto].
    destruct (nth_error addrs i) as [a|]; [|intros H; inversion H; subst; auto].
    destruct (fix_line md (line_at (st_heap s) a) f) as [[l' acted]|w]; simpl; [|discriminate].
    intros H; inversion H; subst; auto.
  - destruct (view_lines s v) as [[fn ls]|]; [|intros H; inversion H; subst; auto].
    destruct (save_lines md fl (st_cache s) (st_disk s) ls) as [[c' d'] w].
    intros H; inversion H; subst; auto.
  - intros H; inversion H; subst; auto.
Qed.

Lemma reach_views_nodup md cap disk s : reach md cap disk s ->
  forall v fn addrs, nth_error (st_views s) v = Some (fn, addrs) -> NoDup addrs.
Proof.
  intros R. induction R as [|s o s' ob R IH St].
  - intros v fn addrs H. destruct v; discriminate.
  - intros v fn addrs H.
    destruct (step_views _ _ _ _ _ St) as [E|(fn0 & st & n & E)]; rewrite E in H.
    + eapply IH; eauto.
    + apply nth_error_snoc in H. destruct H as [[_ H]|[_ H]].
      * eapply IH; eauto.
      * inversion H; subst. apply seq_NoDup.
Qed.

(* over a whole run no Line object is handed out twice: two Loads never return a
   common Line, and no Load returns the same Line at two positions *)
Theorem line_ids_never_reused : forall md cap disk s, (1 <= cap)%nat -> reach md cap disk s ->
  (forall v w fv av fw aw a,
     nth_error (st_views s) v = Some (fv, av) -> nth_error (st_views s) w = Some (fw, aw) ->
     In a av -> In a aw -> v = w) /\
  (forall v fn addrs, nth_error (st_views s) v = Some (fn, addrs) -> NoDup addrs).
Proof.
  intros md cap disk s Hc R. destruct (reach_Inv_cap _ _ _ _ _ _ Hc R) as [I _]. split.
  - apply (inv_disj _ _ I).
  - eapply reach_views_nodup; eauto.
Qed.

Theorem fix_touches_one_view : forall md cap disk s v i f s' ob, (1 <= cap)%nat -> reach md cap disk s ->
  step md s (OFix v i f) = Ok (s', ob) ->
  forall w, w <> v -> view_lines s' w = view_lines s w.
Proof.
  intros md cap disk s v i f s' ob Hc R. destruct (reach_Inv_cap _ _ _ _ _ _ Hc R) as [I _].
  simpl.
  destruct (nth_error (st_views s) v) as [[fn addrs]|] eqn:V; [|intros H; inversion H; subst; auto].
  destruct (nth_error addrs i) as [a|] eqn:A; [|intros H; inversion H; subst; auto].
  destruct (fix_line md (line_at (st_heap s) a) f) as [[l' acted]|w0]; simpl; [|discriminate].
  intros H; inversion H; subst; clear H. intros w Hw.
  unfold view_lines; simpl. destruct (nth_error (st_views s) w) as [[fw aw]|] eqn:W; auto.
  f_equal. f_equal. apply map_ext_in. intros b Hb. apply line_at_upd_other.
  intros ->. apply Hw. eapply (inv_disj _ _ I); eauto. eapply nth_error_In; eauto.
Qed.

End Theorems.

(* ---------- without the protocol guard the statement is false ---------- *)

Lemma run_reach convert is_mk md cap disk h : forall s s' obs,
  reach convert is_mk md cap disk s -> run convert is_mk md s h = (s', obs, None) ->
  reach convert is_mk md cap disk s'.
Proof.
  induction h as [|o t IH]; intros s s' obs R; simpl.
  - intros H; inversion H; subst; auto.
  - destruct (step convert is_mk md s o) as [[s1 ob]|w] eqn:S; [|discriminate].
    destruct (run convert is_mk md s1 t) as [[s2 obs2] w2] eqn:Rn.
    intros H; inversion H; subst. eapply IH; [|eauto]. econstructor; eauto.
Qed.

Definition all_mk (k : N) : bool := true.

(* a.mk = "V= 1\n"; Load; ReplaceAt(0, 2, " ", "\t") through that view; Load again *)
Definition wit_disk : list (N * str) := [(0, [86; 61; 32; 49; 10])].
Definition wit_ops : list op := [OLoad (0, 0) 4; OFix 0 0 (FReplaceAt 0 2 [32] [9])].
Definition wit_state (md : mode) : state :=
  fst (fst (run convert_plain all_mk md (init_state 2 wit_disk) wit_ops)).

Lemma wit_reach md : reach convert_plain all_mk md 2 wit_disk (wit_state md).
Proof.
  unfold wit_state.
  destruct (run convert_plain all_mk md (init_state 2 wit_disk) wit_ops) as [[s obs] w] eqn:E.
  assert (w = None) by (destruct md; vm_compute in E; inversion E; auto). subst w.
  eapply run_reach; [apply reach_init|apply E].
Qed.

(* the full statement: like load_transparent, but without the guard *)
Definition load_transparent_full : Prop :=
  forall md cap disk s fn o s' r, (1 <= cap)%nat ->
    reach convert_plain all_mk md cap disk s ->
    load convert_plain all_mk s fn o = Ok (s', r) ->
    load_obs s' r = fresh_read convert_plain (st_disk s) fn o.

Theorem load_transparent_refuted : ~ load_transparent_full.
Proof.
  intros H.
  destruct (load convert_plain all_mk (wit_state ModeDefault) (0, 0) 4) as [[s' r]|w] eqn:L;
    [|vm_compute in L; discriminate].
  specialize (H ModeDefault 2%nat wit_disk (wit_state ModeDefault) (0, 0) 4 s' r (le_S _ _ (le_n 1))
                (wit_reach ModeDefault) L).
  vm_compute in L. inversion L; subst. vm_compute in H. discriminate.
Qed.

(* the witness violates exactly the guard *)
Lemma wit_guard_false md : guard_step (wit_state md) (OLoad (0, 0) 4) = false.
Proof. destruct md; vm_compute; reflexivity. Qed.
