(* C14, part A: facts about the specification (Spec/BmakeCond.v) that the
   rewrite theorems need: words of a single word, Str_Match on literal and on
   [xX] class patterns, modifier chains with and without a leading :U. *)
From PV Require Import Lib.Bytes Spec.BmakeCond.
From Coq Require Import ZifyBool ZifyN ZifyNat.
Open Scope N_scope.

(* ---------- word-like strings: no C white space at all ---------- *)

Definition wordlike (s : str) : Prop := forallb (fun c => negb (is_cspace c)) s = true.

Lemma is_ws_cspace c : is_ws c = true -> is_cspace c = true.
Proof. unfold is_ws, is_cspace. lia. Qed.

Lemma wordlike_cons c s : wordlike (c :: s) <-> is_cspace c = false /\ wordlike s.
Proof.
  unfold wordlike; simpl. rewrite andb_true_iff, negb_true_iff. reflexivity.
Qed.

Lemma wordlike_nil : wordlike []. Proof. reflexivity. Qed.

Lemma wordlike_skip s : wordlike s -> skip_cspace s = s.
Proof. destruct s as [|c s]; [reflexivity|]. intros H. apply wordlike_cons in H as [H _]. simpl. rewrite H. reflexivity. Qed.

Lemma wordlike_lower s : wordlike s -> wordlike (lower s).
Proof.
  induction s as [|c s IH]; [trivial|]. intros H. apply wordlike_cons in H as [H1 H2].
  simpl. apply wordlike_cons. split; [|apply IH; exact H2].
  unfold to_lower, is_upper, is_cspace in *. destruct ((65 <=? c) && (c <=? 90)) eqn:E; lia.
Qed.

Lemma split_ws_word w : wordlike w -> forall cur,
  split_ws w cur = match cur ++ w with [] => [] | x => [x] end.
Proof.
  induction w as [|c w IH]; intros H cur; simpl.
  - rewrite app_nil_r. destruct cur; reflexivity.
  - apply wordlike_cons in H as [H1 H2].
    assert (is_ws c = false) as ->.
    { destruct (is_ws c) eqn:E; [apply is_ws_cspace in E; congruence|reflexivity]. }
    rewrite IH by exact H2. rewrite <- app_assoc. reflexivity.
Qed.

Lemma words_word w : wordlike w -> words w = match w with [] => [] | _ => [w] end.
Proof. intros H. unfold words. rewrite split_ws_word by exact H. simpl. destruct w; reflexivity. Qed.

(* :M / :N on a value that is at most one word *)
Lemma filter_word (f : str -> bool) w : wordlike w ->
  join_sp (filter f (words w)) = if nonempty w && f w then w else [].
Proof.
  intros H. rewrite words_word by exact H. destruct w as [|c w]; [reflexivity|].
  simpl. destruct (f (c :: w)); reflexivity.
Qed.

(* ---------- Str_Match on a literal pattern ---------- *)

Definition plain_byte (c : N) : bool :=
  negb ((c =? 42) || (c =? 63) || (c =? 91) || (c =? 92)).

Lemma sm_literal p : forallb plain_byte p = true ->
  forall w fuel, (length p < fuel)%nat -> sm fuel w p = str_eqb w p.
Proof.
  induction p as [|pc p IH]; intros Hp w fuel Hf.
  - destruct fuel; [simpl in Hf; lia|]. destruct w; reflexivity.
  - simpl in Hp. apply andb_true_iff in Hp as [Hc Hp].
    destruct fuel as [|f]; [simpl in Hf; lia|]. simpl in Hf.
    unfold plain_byte in Hc.
    cbn [sm].
    destruct (N.eqb_spec pc 42); [lia|].
    destruct w as [|c w]; [reflexivity|].
    destruct (N.eqb_spec pc 63); [lia|].
    destruct (N.eqb_spec pc 91); [lia|].
    destruct (N.eqb_spec pc 92); [lia|].
    cbn [str_eqb]. rewrite IH by (assumption || lia). reflexivity.
Qed.

Lemma str_match_literal p w : forallb plain_byte p = true -> str_match w p = str_eqb w p.
Proof. intros H. unfold str_match. apply sm_literal; [exact H|lia]. Qed.

(* ---------- Str_Match on a pattern made of [xX] classes ---------- *)

(* the pattern [a b] [c d] ... where each pair is a letter in both cases, and the lower-case word *)
Inductive yn_pattern : str -> str -> Prop :=
| yn_nil : yn_pattern [] []
| yn_cons a b l p ls :
    ((is_upper a = true /\ b = a + 32 /\ l = b) \/ (is_lower a = true /\ b + 32 = a /\ l = a)) ->
    yn_pattern p ls -> yn_pattern (91 :: a :: b :: 93 :: p) (l :: ls).

Lemma yn_pattern_lower p ls : yn_pattern p ls -> forallb is_lower ls = true.
Proof.
  induction 1 as [|a b l p ls H _ IH]; [reflexivity|]. simpl. rewrite IH, andb_true_r.
  unfold is_upper, is_lower in *. lia.
Qed.

Lemma yn_pattern_length p ls : yn_pattern p ls -> length p = (4 * length ls)%nat.
Proof. induction 1; simpl in *; lia. Qed.

Lemma sm_yn p ls : yn_pattern p ls ->
  forall w fuel, (length p < fuel)%nat -> sm fuel w p = str_eqb (lower w) ls.
Proof.
  induction 1 as [|a b l p ls H Hyn IH]; intros w fuel Hf.
  - destruct fuel; [simpl in Hf; lia|]. destruct w; reflexivity.
  - destruct fuel as [|f]; [simpl in Hf; lia|]. simpl in Hf.
    cbn [sm].
    replace (91 =? 42) with false by reflexivity.
    destruct w as [|c w]; [reflexivity|].
    replace (91 =? 63) with false by reflexivity.
    replace (91 =? 91) with true by reflexivity.
    assert (Ha93 : a =? 93 = false) by (unfold is_upper, is_lower in H; lia).
    assert (Hb93 : b =? 93 = false) by (unfold is_upper, is_lower in H; lia).
    assert (Ha94 : a =? 94 = false) by (unfold is_upper, is_lower in H; lia).
    assert (Hb45 : b =? 45 = false) by (unfold is_upper, is_lower in H; lia).
    rewrite Ha94. cbn [class_scan]. rewrite Ha93.
    assert (Hlow : (to_lower c =? l) = ((a =? c) || (b =? c))).
    { unfold to_lower, is_upper, is_lower in *. destruct ((65 <=? c) && (c <=? 90)) eqn:E; lia. }
    cbn [lower map str_eqb]. rewrite Hlow.
    destruct (N.eqb_spec a c) as [->|Hac].
    + cbn [skip_rbracket]. rewrite Ha93, Hb93. replace (93 =? 93) with true by reflexivity.
      cbn [orb andb]. apply IH. lia.
    + rewrite Hb45. cbn [class_scan]. rewrite Hb93.
      destruct (N.eqb_spec b c) as [->|Hbc].
      * cbn [skip_rbracket]. rewrite Hb93. replace (93 =? 93) with true by reflexivity.
        cbn [orb andb]. apply IH. lia.
      * replace (93 =? 45) with false by reflexivity. cbn [class_scan].
        replace (93 =? 93) with true by reflexivity. reflexivity.
Qed.

Lemma str_match_yn p ls w : yn_pattern p ls -> str_match w p = str_eqb (lower w) ls.
Proof. intros H. unfold str_match. apply sm_yn; [exact H|lia]. Qed.

(* ---------- modifier chains ---------- *)

Lemma apply_mods_app e a b st :
  apply_mods e (a ++ b) st = match apply_mods e a st with Some st' => apply_mods e b st' | None => None end.
Proof.
  revert st; induction a as [|m a IH]; intros st; simpl; [reflexivity|].
  destruct (apply_mod e m st); [apply IH|reflexivity].
Qed.

(* a regular (defined) variable stays regular *)
Lemma apply_mods_regular e ms : forall s d r, apply_mods e ms (DRegular, s) = Some (d, r) -> d = DRegular.
Proof.
  induction ms as [|m ms IH]; intros s d r H; simpl in H; [congruence|].
  destruct m; simpl in H; try destruct (expand_pat e pat); try discriminate; eapply IH; exact H.
Qed.

(* the string a chain computes does not depend on DUndef vs DDefined *)
Lemma apply_mods_undef_defined e ms : forall s,
  match apply_mods e ms (DUndef, s), apply_mods e ms (DDefined, s) with
  | Some (_, r1), Some (d2, r2) => r1 = r2 /\ d2 = DDefined
  | None, None => True
  | _, _ => False
  end.
Proof.
  induction ms as [|m ms IH]; intros s; simpl; [split; reflexivity|].
  destruct m; simpl; try destruct (expand_pat e pat); try exact I; try apply IH.
  (* ModU: both become (DDefined, dflt) *)
  destruct (apply_mods e ms (DDefined, dflt)) as [[d r]|] eqn:E; [|exact I].
  split; [reflexivity|].
  specialize (IH dflt). rewrite E in IH. destruct (apply_mods e ms (DUndef, dflt)) as [[? ?]|]; tauto.
Qed.

(* a chain that contains :U never ends undefined *)
Definition is_ModU (m : modifier) : bool := match m with ModU _ => true | _ => false end.

Lemma apply_mods_not_undef_from_defined e ms : forall s d r,
  apply_mods e ms (DDefined, s) = Some (d, r) -> d = DDefined.
Proof.
  induction ms as [|m ms IH]; intros s d r H; simpl in H; [congruence|].
  destruct m; simpl in H; try destruct (expand_pat e pat); try discriminate; eapply IH; exact H.
Qed.

Lemma apply_mods_has_U e ms : existsb is_ModU ms = true -> forall d0 s d r,
  apply_mods e ms (d0, s) = Some (d, r) -> d <> DUndef.
Proof.
  induction ms as [|m ms IH]; intros Hex d0 s d r H; simpl in *; [discriminate|].
  destruct m; simpl in *; try destruct (expand_pat e pat); try discriminate; try (eapply IH; eassumption).
  destruct d0.
  - apply apply_mods_regular in H. congruence.
  - apply apply_mods_not_undef_from_defined in H. congruence.
  - apply apply_mods_not_undef_from_defined in H. congruence.
Qed.

(* ${V:U:mods} against ${V:mods} *)
Lemma eval_expr_with_U e v ms d s :
  eval_expr e v ms = Some (d, s) ->
  exists d', eval_expr e v (ModU [] :: ms) = Some (d', s) /\ d' <> DUndef.
Proof.
  unfold eval_expr. destruct (e v) as [x|]; simpl; intros H.
  - exists d. split; [exact H|]. apply apply_mods_regular in H. congruence.
  - pose proof (apply_mods_undef_defined e ms []) as P. unfold str in *. rewrite H in P.
    destruct (apply_mods e ms (DDefined, [])) as [[d2 r2]|]; [|contradiction].
    destruct P as [-> ->]. exists DDefined. split; [reflexivity|discriminate].
Qed.

(* ---------- patterns without nested references ---------- *)

Definition no_dollar (p : str) : bool := negb (existsb (N.eqb 36) p).

Lemma no_dollar_cons c p : no_dollar (c :: p) = true <-> c <> 36 /\ no_dollar p = true.
Proof.
  unfold no_dollar. cbn [existsb]. destruct (N.eqb_spec 36 c) as [E|E]; cbn [orb negb].
  - split; [discriminate|]. intros [H _]. congruence.
  - split; [intros H; split; [congruence|exact H]|intros [_ H]; exact H].
Qed.

Lemma parse_pat_literal p : no_dollar p = true ->
  forall fuel, (length p < fuel)%nat -> parse_pat fuel p = Some (map PPByte p).
Proof.
  induction p as [|c p IH]; intros H fuel Hf.
  - destruct fuel; [simpl in Hf; lia|reflexivity].
  - apply no_dollar_cons in H as [Hc Hp]. destruct fuel as [|f]; [simpl in Hf; lia|]. simpl in Hf.
    cbn [parse_pat]. destruct (N.eqb_spec c 36); [congruence|].
    rewrite IH by (assumption || lia). reflexivity.
Qed.

Lemma expand_parts_literal e p : expand_parts e (map PPByte p) = p.
Proof. induction p as [|c p IH]; [reflexivity|]. cbn [map expand_parts]. rewrite IH. reflexivity. Qed.

(* a pattern without '$' is its own expansion, whatever the variables are *)
Lemma expand_pat_literal e p : no_dollar p = true -> expand_pat e p = Some p.
Proof.
  intros H. unfold expand_pat. rewrite parse_pat_literal by (assumption || lia).
  cbn [option_map]. rewrite expand_parts_literal. reflexivity.
Qed.

(* ---------- truth values ---------- *)

Lemma truthy_empty : truthy [] false = false. Proof. reflexivity. Qed.

Lemma compare_eq_string l lq r rq :
  (lq = true \/ rq = true \/ try_parse_number r = None) -> compare_eq l lq r rq = str_eqb l r.
Proof.
  unfold compare_eq. intros [->|[->|H]]; [reflexivity|rewrite andb_false_r; reflexivity|].
  rewrite H. destruct (negb lq && negb rq); [|reflexivity]. destruct (try_parse_number l); reflexivity.
Qed.

Lemma str_eqb_sym a b : str_eqb a b = str_eqb b a.
Proof.
  destruct (str_eqb a b) eqn:E1, (str_eqb b a) eqn:E2; try reflexivity.
  - apply str_eqb_spec in E1. subst. rewrite str_eqb_refl in E2. discriminate.
  - apply str_eqb_spec in E2. subst. rewrite str_eqb_refl in E1. discriminate.
Qed.
