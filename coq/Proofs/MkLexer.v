(* Proofs about Model/MkLexer.v.
   Section Above: every function of mklexer.go other than Expr, with Expr as the
   Section variable E under the advance contract `step_ok E n` (on every text of at
   most n bytes E returns nil or chops off a non-empty prefix; no OutOfFuel, no
   Panic): each function returns Ok and leaves a suffix of its text.
   Then the contract is proved for the concrete Expr (expr_ok), by induction on the
   single fuel, and the Section lemmas are instantiated. *)
From PV Require Import Lib.Bytes Gen.MkByteSets Model.MkLexPrim Model.MkLexer Spec.MkPartition Proofs.MkLexPrim.
From Coq Require Import ZifyBool ZifyN ZifyNat.
Open Scope N_scope.

Lemma has_prefix_app p s : has_prefix p s = true -> exists r, s = p ++ r.
Proof.
  unfold has_prefix. destruct (strip_prefix p s) as [r|] eqn:E; [|discriminate].
  intros _. exists r. apply strip_prefix_some; exact E.
Qed.

Lemma suffix_len r s n : is_suffix r s -> (length s <= n)%nat -> (length r <= n)%nat.
Proof. intros H Hn. apply is_suffix_length in H. lia. Qed.

(* the contract of an exprModifier-like function: it leaves a suffix, and a
   non-empty modifier text means that something was chopped off *)
Definition mod_good (s : str) (x : res (str * str)) : Prop :=
  exists m r, x = Ok (m, r) /\ is_suffix r s /\ (m <> [] -> chops s r).

Lemma since_mod_good s r : is_suffix r s -> mod_good s (Ok (since s r, r)).
Proof.
  intro H. exists (since s r), r. split; [reflexivity|]. split; [exact H|].
  apply since_nonempty_chops; exact H.
Qed.

Lemma empty_mod_good s r : is_suffix r s -> mod_good s (Ok ([], r)).
Proof. intro H. exists [], r. split; [reflexivity|]. split; [exact H|congruence]. Qed.

(* the loop of exprModifierMatch needs no fuel and no Expr *)
Lemma match_loop_suffix opening closing s :
  forall nest seen, is_suffix (snd (match_loop opening closing nest seen s)) s.
Proof.
  remember (length s) as k eqn:Hk. revert s Hk.
  induction k as [k IH] using lt_wf_ind. intros s Hk nest seen.
  destruct s as [|ch t]; [apply is_suffix_refl|].
  cbn [match_loop].
  destruct ((ch =? 58) && (nest =? 1)%Z); [apply is_suffix_refl|].
  destruct (ch =? 92).
  - destruct t as [|d t']; [apply is_suffix_nil|].
    destruct ((d =? 58) || (d =? opening) || (d =? closing)).
    + eapply is_suffix_trans; [eapply (IH (length t')); [simpl in Hk; lia|reflexivity]|].
      exists [ch; d]; reflexivity.
    + eapply is_suffix_trans; [eapply (IH (length (d :: t'))); [simpl in Hk; simpl; lia|reflexivity]|].
      apply is_suffix_cons.
  - destruct ((ch =? 40) || (ch =? 123)).
    + eapply is_suffix_trans; [eapply (IH (length t)); [simpl in Hk; lia|reflexivity]|apply is_suffix_cons].
    + destruct ((ch =? 41) || (ch =? 125)).
      * destruct (nest - 1 =? 0)%Z; [apply is_suffix_refl|].
        eapply is_suffix_trans; [eapply (IH (length t)); [simpl in Hk; lia|reflexivity]|apply is_suffix_cons].
      * eapply is_suffix_trans; [eapply (IH (length t)); [simpl in Hk; lia|reflexivity]|apply is_suffix_cons].
Qed.

Lemma expr_modifier_match_ok closing c t :
  mod_good (c :: t) (expr_modifier_match closing (c :: t)).
Proof.
  unfold expr_modifier_match. rewrite skip_ok by (simpl; lia). cbn [bind skipn].
  pose proof (match_loop_suffix (if closing =? 125 then 123 else 40) closing t 1%Z false) as H.
  destruct (match_loop (if closing =? 125 then 123 else 40) closing 1%Z false t) as [seen r].
  simpl in H.
  eexists _, r. split; [reflexivity|]. split.
  - eapply is_suffix_trans; [exact H|apply is_suffix_cons].
  - intros _. eapply chops_trans_suffix; [apply chops_cons|exact H].
Qed.

Section Above.
Variable E : exprfn.
Variable n : nat.
Hypothesis HE : step_ok E n.

Lemma loop_ok' st s : step_ok st n -> (length s <= n)%nat ->
  exists r, loop st s = Ok r /\ is_suffix r s.
Proof.
  intros Hst Hn. destruct (loop_ok st n s Hst Hn) as (r & H1 & H2 & _). exists r; auto.
Qed.

Lemma bytes_or_expr_ok set : step_ok (bytes_or_expr E set) n.
Proof. apply orelse_ok; [apply st_bytes_ok|exact HE]. Qed.

(* ---- Varname ---- *)
Lemma varname_ok s : (length s <= n)%nat ->
  exists r, varname E s = Ok (since s r, r) /\ is_suffix r s.
Proof.
  intro Hn. unfold varname.
  match goal with |- context [match ?b with Some s1 => Ok (since s s1, s1) | None => _ end] =>
    destruct b as [s1|] eqn:B end.
  - exists s1. split; [reflexivity|].
    destruct s as [|c s0]; [discriminate|].
    destruct (in_set builtin_variable_spec c); [|discriminate].
    destruct (peek_is s0 58 || peek_is s0 41 || peek_is s0 125); [|discriminate].
    inversion B; subst. apply is_suffix_cons.
  - clear B.
    pose proof (skip_byte_opt_suffix 46 s) as S1.
    destruct (loop_ok' (bytes_or_expr E varbase_spec) (skip_byte_opt 46 s)) as (s2 & E2 & S2);
      [apply bytes_or_expr_ok|eapply suffix_len; eauto|].
    rewrite E2. cbn [bind].
    assert (S2' : is_suffix s2 s) by (eapply is_suffix_trans; eauto).
    destruct (skip_byte 46 s2) as [s3|] eqn:E3.
    + assert (S3 : is_suffix s3 s).
      { eapply is_suffix_trans; [apply chops_suffix, (skip_byte_chops _ _ _ E3)|exact S2']. }
      destruct (loop_ok' (bytes_or_expr E varparam_spec) s3) as (s4 & E4 & S4);
        [apply bytes_or_expr_ok|eapply suffix_len; eauto|].
      rewrite E4. cbn [bind]. exists s4. split; [reflexivity|]. eapply is_suffix_trans; eauto.
    + destruct (has_prefix str_SITES_ (since s s2)).
      * destruct (loop_ok' (bytes_or_expr E varparam_spec) s2) as (s4 & E4 & S4);
          [apply bytes_or_expr_ok|eapply suffix_len; eauto|].
        rewrite E4. cbn [bind]. exists s4. split; [reflexivity|]. eapply is_suffix_trans; eauto.
      * exists s2. split; [reflexivity|exact S2'].
Qed.

(* ---- exprText, exprModifierSysV ---- *)
Lemma expr_text_ok closing s : (length s <= n)%nat ->
  exists r, expr_text E closing s = Ok (since s r, r) /\ is_suffix r s.
Proof.
  intro Hn. unfold expr_text.
  destruct (loop_ok' (orelse E (st_opt (re_text closing))) s) as (r & E1 & S1);
    [apply orelse_ok; [exact HE|apply st_opt_ok, re_text_chops]|exact Hn|].
  rewrite E1. cbn [bind]. exists r; auto.
Qed.

Lemma expr_modifier_sysv_ok closing s : (length s <= n)%nat ->
  exists r, expr_modifier_sysv E closing s = Ok (since s r, r) /\ is_suffix r s.
Proof.
  intro Hn. unfold expr_modifier_sysv.
  destruct (loop_ok' (orelse E (st_opt (re_sysv closing))) s) as (r & E1 & S1);
    [apply orelse_ok; [exact HE|apply st_opt_ok, re_sysv_chops]|exact Hn|].
  rewrite E1. cbn [bind]. exists r; auto.
Qed.

(* ---- exprModifierTs ---- *)
Lemma expr_modifier_ts_ok md closing mark s :
  has_prefix [116; 115] md = true -> is_suffix s mark -> (length s <= n)%nat ->
  mod_good mark (expr_modifier_ts E md closing mark s).
Proof.
  intros Hp Hs Hn. unfold expr_modifier_ts.
  destruct (expr_text_ok closing s Hn) as (r & E1 & S1). rewrite E1. cbn [bind].
  destruct (has_prefix_app _ _ Hp) as (md' & ->).
  rewrite skip_ok by (rewrite app_length; simpl; lia). cbn [bind].
  assert (Sr : is_suffix r mark) by (eapply is_suffix_trans; eauto).
  match goal with |- mod_good _ (Ok (since mark ?x, ?x)) => assert (Sx : is_suffix x mark) end.
  { destruct (skipn 2 ([116; 115] ++ md') ++ since s r); [|exact Sr].
    destruct (skip_string [58] r) as [r'|] eqn:E2; [|exact Sr].
    eapply is_suffix_trans; [apply chops_suffix, (skip_string_chops [58]); [discriminate|exact E2]|exact Sr]. }
  apply since_mod_good; exact Sx.
Qed.

(* ---- exprModifierSubst ---- *)
Lemma skip_other_step_ok sep : step_ok (skip_other_step E sep) n.
Proof.
  intros s Hs. unfold skip_other_step.
  match goal with |- step_good (fun s0 => if ?c then _ else _) s => idtac end.
  unfold step_good.
  destruct (match s with c :: d :: _ => (c =? 36) && (d =? sep) | _ => false end); [left; reflexivity|].
  assert (H : step_ok
    (orelse E (orelse (st_string [36; 36])
      (orelse (fun s => if (2 <=? length s)%nat && peek_is s 92 && negb (sep =? 92)
                        then r <- skip 2 s ;; Ok (Some r) else Ok None)
       (st_bytes (is_other sep))))) n).
  { apply orelse_ok; [exact HE|]. apply orelse_ok; [apply st_string_ok; discriminate|].
    apply orelse_ok; [|apply st_bytes_ok].
    intros s0 _. unfold step_good.
    destruct (Nat.leb_spec 2 (length s0)); cbn [andb]; [|left; reflexivity].
    destruct (peek_is s0 92 && negb (sep =? 92)); [|left; reflexivity].
    rewrite skip_ok by assumption. cbn [bind]. right. eexists; split; [reflexivity|].
    apply skipn_chops; lia. }
  exact (H s Hs).
Qed.

Lemma skip_other_ok sep s : (length s <= n)%nat ->
  exists r, skip_other E sep s = Ok r /\ is_suffix r s.
Proof. intro Hn. apply loop_ok'; [apply skip_other_step_ok|exact Hn]. Qed.

Lemma expr_modifier_subst_ok closing s : (length s <= n)%nat ->
  exists ok r, expr_modifier_subst E closing s = Ok (ok, r) /\ is_suffix r s.
Proof.
  intro Hn. unfold expr_modifier_subst.
  match goal with |- context [match ?b with Some s1 => _ | None => Ok (false, s) end] =>
    destruct b as [s1|] eqn:B end.
  2:{ exists false, s. split; [reflexivity|apply is_suffix_refl]. }
  assert (S1 : is_suffix s1 s).
  { destruct (skip_byte 67 s) as [x|] eqn:E1.
    - inversion B; subst. apply chops_suffix, (skip_byte_chops _ _ _ E1).
    - apply chops_suffix, (skip_byte_chops _ _ _ B). }
  destruct s1 as [|sep s2]; [exists false, []; split; [reflexivity|exact S1]|].
  destruct (sep =? closing); [exists false, (sep :: s2); split; [reflexivity|exact S1]|].
  assert (S2 : is_suffix s2 s) by (eapply is_suffix_trans; [apply is_suffix_cons|exact S1]).
  pose proof (skip_byte_opt_suffix 94 s2) as S3.
  destruct (skip_other_ok sep (skip_byte_opt 94 s2)) as (s4 & E4 & S4);
    [eapply suffix_len; [eapply is_suffix_trans; eauto|exact Hn]|].
  rewrite E4. cbn [bind].
  assert (S4' : is_suffix s4 s) by (eapply is_suffix_trans; [exact S4|eapply is_suffix_trans; eauto]).
  pose proof (skip_byte_opt_suffix 36 s4) as S5.
  assert (S5' : is_suffix (skip_byte_opt 36 s4) s) by (eapply is_suffix_trans; eauto).
  destruct (skip_byte sep (skip_byte_opt 36 s4)) as [s6|] eqn:E6.
  2:{ exists false, (skip_byte_opt 36 s4). split; [reflexivity|exact S5']. }
  assert (S6 : is_suffix s6 s).
  { eapply is_suffix_trans; [apply chops_suffix, (skip_byte_chops _ _ _ E6)|exact S5']. }
  destruct (skip_other_ok sep s6) as (s7 & E7 & S7); [eapply suffix_len; eauto|].
  rewrite E7. cbn [bind].
  assert (S7' : is_suffix s7 s) by (eapply is_suffix_trans; eauto).
  destruct (skip_byte sep s7) as [s8|] eqn:E8.
  2:{ exists false, s7. split; [reflexivity|exact S7']. }
  exists true, (snd (next_bytes is_subst_option s8)). split; [reflexivity|].
  eapply is_suffix_trans; [apply next_bytes_suffix|].
  eapply is_suffix_trans; [apply chops_suffix, (skip_byte_chops _ _ _ E8)|exact S7'].
Qed.

(* ---- exprModifierAt ---- *)
Lemma expr_modifier_at_ok c t : (length (c :: t) <= n)%nat ->
  exists ok r, expr_modifier_at E (c :: t) = Ok (ok, r) /\ is_suffix r (c :: t).
Proof.
  intro Hn. unfold expr_modifier_at. rewrite skip_ok by (simpl; lia). cbn [bind skipn].
  destruct (next_bytes (in_set alnum_dot_spec) t) as [lv s2] eqn:E2.
  assert (S2 : is_suffix s2 (c :: t)).
  { eapply is_suffix_trans; [|apply is_suffix_cons].
    pose proof (next_bytes_suffix (in_set alnum_dot_spec) t) as H. rewrite E2 in H. exact H. }
  destruct lv as [|l lv]; [exists false, s2; split; [reflexivity|exact S2]|].
  destruct (skip_byte 64 s2) as [s3|] eqn:E3; [|exists false, s2; split; [reflexivity|exact S2]].
  assert (S3 : is_suffix s3 (c :: t)).
  { eapply is_suffix_trans; [apply chops_suffix, (skip_byte_chops _ _ _ E3)|exact S2]. }
  destruct (loop_ok' (orelse E (orelse (st_string [36; 36]) (st_opt re_at))) s3) as (s4 & E4 & S4).
  { apply orelse_ok; [exact HE|]. apply orelse_ok; [apply st_string_ok; discriminate|].
    apply st_opt_ok, re_at_chops. }
  { eapply suffix_len; eauto. }
  rewrite E4. cbn [bind]. exists true, (skip_byte_opt 64 s4). split; [reflexivity|].
  eapply is_suffix_trans; [apply skip_byte_opt_suffix|]. eapply is_suffix_trans; eauto.
Qed.

(* ---- parseModifierPart ---- *)
Lemma is_escaped_two end_ subst s :
  is_escaped_modifier_part end_ subst s = true -> (2 <= length s)%nat.
Proof.
  destruct s as [|a [|b t]]; simpl; try discriminate. intros _; lia.
Qed.

Lemma pmp_loop_ok end1 end2 subst : forall fuel b s,
  (length s <= n)%nat -> (length s < fuel)%nat -> b <> end1 -> b <> end2 ->
  exists b' r, pmp_loop E end1 end2 subst fuel b s = Ok (b', r) /\ is_suffix r s /\
    ((b' = end1 \/ b' = end2) -> exists t, r = b' :: t).
Proof.
  induction fuel as [|f IH]; intros b s Hn Hf Hb1 Hb2; [lia|].
  cbn [pmp_loop]. destruct s as [|c t].
  { exists b, []. split; [reflexivity|]. split; [apply is_suffix_refl|]. intros [?|?]; congruence. }
  destruct (N.eqb_spec c end1) as [->|N1].
  { cbn [orb]. exists end1, (end1 :: t). split; [reflexivity|]. split; [apply is_suffix_refl|]. eauto. }
  destruct (N.eqb_spec c end2) as [->|N2].
  { cbn [orb]. exists end2, (end2 :: t). split; [reflexivity|]. split; [apply is_suffix_refl|]. eauto. }
  cbn [orb].
  assert (Step : forall r, chops (c :: t) r ->
    exists b' r', pmp_loop E end1 end2 subst f c r = Ok (b', r') /\ is_suffix r' (c :: t) /\
      ((b' = end1 \/ b' = end2) -> exists t0, r' = b' :: t0)).
  { intros r C. pose proof (chops_length _ _ C) as L.
    destruct (IH c r) as (b' & r' & E1 & S1 & P1); [lia|lia|exact N1|exact N2|].
    exists b', r'. split; [exact E1|]. split; [|exact P1].
    eapply is_suffix_trans; [exact S1|apply chops_suffix; exact C]. }
  destruct (is_escaped_modifier_part end2 subst (c :: t)) eqn:Esc.
  { pose proof (is_escaped_two _ _ _ Esc) as L2. rewrite skip_ok by exact L2. cbn [bind].
    apply Step. apply skipn_chops; [lia|exact L2]. }
  destruct (negb (c =? 36)); [apply Step, chops_cons|].
  destruct ((2 <=? length (c :: t))%nat && peek_is t end2); [apply Step, chops_cons|].
  destruct (HE (c :: t) Hn) as [E0 | (r & E0 & C)]; rewrite E0; cbn [bind].
  - destruct (skip_string [36; 36] (c :: t)) as [r|] eqn:E2.
    + apply Step. apply (skip_string_chops [36; 36]); [discriminate|exact E2].
    + apply Step, chops_cons.
  - apply Step; exact C.
Qed.

Lemma parse_modifier_part_ok s : (length s <= n)%nat ->
  exists ok r, parse_modifier_part E 33 33 false s = Ok (ok, r) /\ is_suffix r s.
Proof.
  intro Hn. unfold parse_modifier_part.
  destruct (pmp_loop_ok 33 33 false (S (length s)) 0 s) as (b & s1 & E1 & S1 & P1);
    [exact Hn|lia|discriminate|discriminate|].
  rewrite E1. cbn [bind].
  destruct (N.eqb_spec b 33) as [->|Nb].
  - cbn [negb andb]. rewrite N.eqb_refl.
    destruct P1 as (t & ->); [left; reflexivity|].
    rewrite skip_ok by (simpl; lia). cbn [bind skipn].
    exists true, t. split; [reflexivity|]. eapply is_suffix_trans; [apply is_suffix_cons|exact S1].
  - cbn [negb andb]. exists false, s1. split; [reflexivity|exact S1].
Qed.

(* ---- exprModifier ---- *)
Lemma expr_modifier_tail_ok closing mark : (length mark <= n)%nat ->
  mod_good mark (expr_modifier_tail E closing mark).
Proof.
  intro Hn. unfold expr_modifier_tail.
  destruct (expr_modifier_sysv_ok closing mark Hn) as (s1 & E1 & S1). rewrite E1. cbn [bind].
  destruct (contains_byte 61 (since mark s1)); [apply since_mod_good; exact S1|].
  destruct (HE mark Hn) as [E0 | (s2 & E0 & C)]; rewrite E0; cbn [bind].
  - destruct (expr_text_ok closing mark Hn) as (s3 & E3 & S3). rewrite E3. cbn [bind].
    destruct (has_prefix [33] (since mark s3) && has_suffix [33] (since mark s3));
      [apply since_mod_good|apply empty_mod_good]; exact S3.
  - destruct (peek_is s2 58 || peek_is s2 closing).
    + apply since_mod_good, chops_suffix; exact C.
    + destruct (expr_text_ok closing mark Hn) as (s3 & E3 & S3). rewrite E3. cbn [bind].
      destruct (has_prefix [33] (since mark s3) && has_suffix [33] (since mark s3));
        [apply since_mod_good|apply empty_mod_good]; exact S3.
Qed.

Lemma mod_good_of_ok_flag mark (x : res (bool * str)) (tail : res (str * str)) :
  (exists ok r, x = Ok (ok, r) /\ is_suffix r mark) -> mod_good mark tail ->
  mod_good mark ('(ok, s1) <- x ;; if ok then Ok (since mark s1, s1) else tail).
Proof.
  intros (ok & r & -> & S) T. cbn [bind]. destruct ok; [apply since_mod_good; exact S|exact T].
Qed.

Lemma expr_modifier_ok vname closing s : (length s <= n)%nat ->
  mod_good s (expr_modifier E vname closing s).
Proof.
  intro Hn. unfold expr_modifier.
  pose proof (expr_modifier_tail_ok closing s Hn) as T.
  destruct s as [|c t]; [exact T|].
  destruct (existsb (N.eqb c) [69; 72; 76; 79; 81; 82; 84; 115; 116; 117]).
  { destruct (next_bytes (in_set alnum_spec) (c :: t)) as [md s1] eqn:E1.
    pose proof (next_bytes_eq _ _ _ _ E1) as Eq.
    assert (S1 : is_suffix s1 (c :: t)) by (exists md; exact Eq).
    destruct (existsb (str_eqb md) simple_modifiers).
    - exists md, s1. split; [reflexivity|]. split; [exact S1|].
      intro Hne. exists md. split; [exact Hne|exact Eq].
    - destruct (has_prefix [116; 115] md) eqn:Hp; [|exact T].
      apply expr_modifier_ts_ok; [exact Hp|exact S1|eapply suffix_len; eauto]. }
  destruct ((c =? 68) || (c =? 85)).
  { destruct (expr_text_ok closing (c :: t) Hn) as (r & E1 & S1). rewrite E1.
    apply since_mod_good; exact S1. }
  destruct ((c =? 77) || (c =? 78)); [apply expr_modifier_match_ok|].
  destruct ((c =? 67) || (c =? 83)).
  { apply mod_good_of_ok_flag; [apply expr_modifier_subst_ok; exact Hn|exact T]. }
  destruct (c =? 33).
  { rewrite skip_ok by (simpl; lia). cbn [bind skipn].
    destruct (parse_modifier_part_ok t) as (ok & s2 & E2 & S2); [simpl in Hn; lia|].
    rewrite E2. cbn [bind].
    assert (S2' : is_suffix s2 (c :: t)) by (eapply is_suffix_trans; [exact S2|apply is_suffix_cons]).
    destruct ok; [apply since_mod_good|apply empty_mod_good]; exact S2'. }
  destruct (c =? 64).
  { apply mod_good_of_ok_flag; [apply expr_modifier_at_ok; exact Hn|exact T]. }
  destruct (c =? 91).
  { destruct (re_index (c :: t)) as [s1|] eqn:E1; [|exact T].
    apply since_mod_good, chops_suffix, re_index_chops; exact E1. }
  destruct (c =? 63).
  { rewrite skip_ok by (simpl; lia). cbn [bind skipn].
    destruct (expr_text_ok closing t) as (s2 & E2 & S2); [simpl in Hn; lia|].
    rewrite E2. cbn [bind].
    destruct (skip_byte 58 s2) as [s3|] eqn:E3; [|exact T].
    assert (S3 : is_suffix s3 t).
    { eapply is_suffix_trans; [apply chops_suffix, (skip_byte_chops _ _ _ E3)|exact S2]. }
    destruct (expr_text_ok closing s3) as (s4 & E4 & S4); [eapply suffix_len; [exact S3|simpl in Hn; lia]|].
    rewrite E4. cbn [bind]. apply since_mod_good.
    eapply is_suffix_trans; [exact S4|]. eapply is_suffix_trans; [exact S3|apply is_suffix_cons]. }
  destruct (c =? 58); [|exact T].
  rewrite skip_ok by (simpl; lia). cbn [bind skipn].
  destruct (re_assign_op t) as [s2|] eqn:E2; [|exact T].
  destruct vname as [|v vname']; [exact T|].
  assert (S2 : is_suffix s2 t) by (apply chops_suffix, re_assign_op_chops; exact E2).
  destruct (expr_text_ok closing s2) as (s3 & E3 & S3); [eapply suffix_len; [exact S2|simpl in Hn; lia]|].
  rewrite E3. cbn [bind]. apply since_mod_good.
  eapply is_suffix_trans; [exact S3|]. eapply is_suffix_trans; [exact S2|apply is_suffix_cons].
Qed.

(* ---- ExprModifiers ---- *)
Lemma expr_modifiers_loop_ok vname closing : forall fuel (may : bool) s,
  (length s <= n)%nat -> (2 * length s + (if may then 1 else 0) < fuel)%nat ->
  exists mods r, expr_modifiers_loop E vname closing fuel may s = Ok (mods, r) /\ is_suffix r s.
Proof.
  induction fuel as [|f IH]; intros may s Hn Hf; [lia|].
  cbn [expr_modifiers_loop].
  (* the body of the loop, started at s1 *)
  assert (Body : forall s1, is_suffix s1 s ->
    (2 * length s1 + 1 <= 2 * length s + (if may then 1 else 0))%nat ->
    forall (k : str * str -> res (list str * str)),
      (forall m s2, is_suffix s2 s1 -> (m <> [] -> chops s1 s2) ->
         exists mods r, k (m, s2) = Ok (mods, r) /\ is_suffix r s) ->
    exists mods r, bind (expr_modifier E vname closing s1) k = Ok (mods, r) /\ is_suffix r s).
  { intros s1 S1 L1 k Hk.
    destruct (expr_modifier_ok vname closing s1) as (m & s2 & E2 & S2 & C2); [eapply suffix_len; eauto|].
    rewrite E2. cbn [bind]. apply Hk; assumption. }
  assert (Cont : forall s1, is_suffix s1 s ->
    (2 * length s1 + 1 <= 2 * length s + (if may then 1 else 0))%nat ->
    forall m s2, is_suffix s2 s1 -> (m <> [] -> chops s1 s2) ->
    exists mods r,
      (let may0 := match m with c :: _ => (c =? 83) || (c =? 67) | [] => false end in
       bind (expr_modifiers_loop E vname closing f may0 s2)
         (fun x => match x with (mods, s3) => Ok (match m with [] => mods | _ => m :: mods end, s3) end))
      = Ok (mods, r) /\ is_suffix r s).
  { intros s1 S1 L1 m s2 S2 C2. cbv zeta.
    assert (L2 : (2 * length s2 + (if match m with c :: _ => ((c =? 83) || (c =? 67))%N | [] => false end then 1 else 0)
                  < 2 * length s1 + 1)%nat).
    { destruct m as [|c m'].
      - apply is_suffix_length in S2. lia.
      - assert (Cm : chops s1 s2) by (apply C2; discriminate).
        apply chops_length in Cm. destruct ((c =? 83) || (c =? 67)); lia. }
    destruct (IH (match m with c :: _ => (c =? 83) || (c =? 67) | [] => false end) s2)
      as (mods & r & E3 & S3); [eapply suffix_len; [exact S2|eapply suffix_len; eauto]|lia|].
    rewrite E3. cbn [bind]. eexists _, r. split; [reflexivity|].
    eapply is_suffix_trans; [exact S3|]. eapply is_suffix_trans; eauto. }
  destruct (skip_byte 58 s) as [s1|] eqn:E1.
  - assert (S1 : is_suffix s1 s) by (apply chops_suffix, (skip_byte_chops _ _ _ E1)).
    assert (L1 : (2 * length s1 + 1 <= 2 * length s + (if may then 1 else 0))%nat).
    { pose proof (chops_length _ _ (skip_byte_chops _ _ _ E1)). destruct may; lia. }
    apply (Body s1 S1 L1). intros m s2 S2 C2. apply (Cont s1 S1 L1 m s2 S2 C2).
  - destruct may.
    + assert (L1 : (2 * length s + 1 <= 2 * length s + 1)%nat) by lia.
      apply (Body s (is_suffix_refl s) L1). intros m s2 S2 C2.
      apply (Cont s (is_suffix_refl s) L1 m s2 S2 C2).
    + exists [], s. split; [reflexivity|apply is_suffix_refl].
Qed.

Lemma expr_modifiers_ok vname closing s : (length s <= n)%nat ->
  exists mods r, expr_modifiers E vname closing s = Ok (mods, r) /\ is_suffix r s.
Proof. intro Hn. unfold expr_modifiers. apply expr_modifiers_loop_ok; [exact Hn|lia]. Qed.

(* ---- MkToken, MkTokens ---- *)
Lemma mk_token_ok s : (length s <= n)%nat ->
  mk_token E s = Ok None \/
  exists text k r, mk_token E s = Ok (Some (text, k, r)) /\ text <> [] /\ s = text ++ r.
Proof.
  intro Hn. unfold mk_token.
  destruct (HE s Hn) as [E0 | (s1 & E0 & C)]; rewrite E0; cbn [bind].
  - destruct (loop_ok' (orelse (st_bytes (fun b => negb (b =? 36))) (st_string [36; 36])) s) as (s1 & E1 & S1);
      [apply orelse_ok; [apply st_bytes_ok|apply st_string_ok; discriminate]|exact Hn|].
    rewrite E1. cbn [bind].
    destruct (since s s1) as [|x text] eqn:Es; [left; reflexivity|].
    right. exists (x :: text), false, s1. split; [reflexivity|]. split; [discriminate|].
    rewrite <- Es. symmetry. apply since_suffix; exact S1.
  - right. exists (since s s1), true, s1. split; [reflexivity|].
    split; [apply since_chops_nonempty; exact C|].
    symmetry. apply since_suffix, chops_suffix; exact C.
Qed.

Lemma mk_tokens_loop_ok : forall fuel s, (length s <= n)%nat -> (length s < fuel)%nat ->
  exists toks rest, mk_tokens_loop E fuel s = Ok (toks, rest) /\ partitions toks rest s.
Proof.
  induction fuel as [|f IH]; intros s Hn Hf; [lia|].
  cbn [mk_tokens_loop]. destruct s as [|c t].
  { exists [], []. split; [reflexivity|]. split; [reflexivity|constructor]. }
  destruct (mk_token_ok (c :: t) Hn) as [E1 | (text & k & r & E1 & Ne & Eq)]; rewrite E1; cbn [bind].
  - exists [], (c :: t). split; [reflexivity|]. split; [reflexivity|constructor].
  - assert (L : (length r < length (c :: t))%nat).
    { rewrite Eq, app_length. destruct text; [congruence|simpl; lia]. }
    destruct (IH r) as (toks & rest & E2 & P1 & P2); [lia|lia|].
    rewrite E2. cbn [bind]. exists ((text, k) :: toks), rest. split; [reflexivity|].
    split.
    + simpl. rewrite <- app_assoc, P1. symmetry; exact Eq.
    + constructor; [exact Ne|exact P2].
Qed.

(* ---- exprBrace, exprAlnum, the body of Expr ---- *)
Lemma expr_brace_ok round s : (2 <= length s)%nat -> (length s <= S n)%nat ->
  exists r, expr_brace E round s = Ok (Some r) /\ chops s r.
Proof.
  intros H2 Hn. unfold expr_brace. rewrite skip_ok by exact H2. cbn [bind].
  assert (C1 : chops s (skipn 2 s)) by (apply skipn_chops; lia).
  assert (L1 : (length (skipn 2 s) <= n)%nat) by (apply chops_length in C1; lia).
  destruct (varname_ok (skipn 2 s) L1) as (s2 & E2 & S2). rewrite E2. cbn [bind].
  destruct (expr_text_ok (if round then 41 else 125) s2) as (s3 & E3 & S3); [eapply suffix_len; eauto|].
  rewrite E3. cbn [bind].
  assert (S3' : is_suffix s3 (skipn 2 s)) by (eapply is_suffix_trans; eauto).
  destruct (expr_modifiers_ok (since (skipn 2 s) s3) (if round then 41 else 125) s3) as (mods & s4 & E4 & S4);
    [eapply suffix_len; eauto|].
  rewrite E4. cbn [bind]. eexists. split; [reflexivity|].
  eapply chops_trans_suffix; [exact C1|].
  eapply is_suffix_trans; [apply skip_byte_opt_suffix|]. eapply is_suffix_trans; eauto.
Qed.

Lemma expr_body_ok s : (length s <= S n)%nat -> step_good (expr_body E) s.
Proof.
  intro Hn. unfold step_good, expr_body.
  destruct s as [|c0 [|c t]]; [left; reflexivity|left; reflexivity|].
  destruct (negb (c0 =? 36)); [left; reflexivity|].
  assert (Skip : exists r, (r <- skip 2 (c0 :: c :: t) ;; Ok (Some r)) = Ok (Some r) /\ chops (c0 :: c :: t) r).
  { rewrite skip_ok by (simpl; lia). cbn [bind]. eexists; split; [reflexivity|].
    apply skipn_chops; simpl; lia. }
  destruct ((c =? 123) || (c =? 40)).
  { right. apply expr_brace_ok; [simpl; lia|exact Hn]. }
  destruct (c =? 36); [left; reflexivity|].
  destruct (existsb (N.eqb c) [62; 33; 60; 37; 63; 42; 64]); [right; exact Skip|].
  unfold expr_alnum.
  destruct (fst (next_bytes (in_set alnum_u_spec) (c :: t))); cbn [bind].
  - right; exact Skip.
  - destruct Skip as (r & E1 & C1). right. exists r.
    destruct (skip 2 (c0 :: c :: t)) as [x| |]; cbn [bind] in *; try discriminate.
    inversion E1; subst. split; [reflexivity|exact C1].
Qed.

End Above.

(* ---- the knot: the advance contract holds for the concrete Expr ---- *)

Lemma expr_ok : forall f, step_ok (expr (S f)) f.
Proof.
  induction f as [|f IH]; intros s Hs.
  - destruct s; [|simpl in Hs; lia]. left; reflexivity.
  - change (expr (S (S f)) s) with (expr_body (expr (S f)) s).
    unfold step_good. change (expr (S (S f))) with (fun s => expr_body (expr (S f)) s).
    apply (expr_body_ok (expr (S f)) f IH s Hs).
Qed.

Lemma Expr_ok n : step_ok Expr n.
Proof. intros s _. unfold Expr. apply (expr_ok (length s) s). lia. Qed.

(* Expr returns nil and leaves the lexer where it was, or chops off a non-empty
   prefix; it never runs out of fuel and never panics *)
Lemma expr_advance s : Expr s = Ok None \/ exists r, Expr s = Ok (Some r) /\ chops s r.
Proof. apply (Expr_ok (length s) s). lia. Qed.

Lemma varname_partition s : exists v r, Varname s = Ok (v, r) /\ v ++ r = s.
Proof.
  destruct (varname_ok Expr (length s) (Expr_ok _) s) as (r & E1 & S1); [lia|].
  exists (since s r), r. split; [exact E1|apply since_suffix; exact S1].
Qed.

Lemma mktokens_partition s : exists toks rest, MkTokens s = Ok (toks, rest) /\ partitions toks rest s.
Proof.
  unfold MkTokens. apply (mk_tokens_loop_ok Expr (length s) (Expr_ok _)); lia.
Qed.

Lemma expr_total s : Expr s <> OutOfFuel /\ Expr s <> Panic.
Proof.
  destruct (expr_advance s) as [E | (r & E & _)]; rewrite E; split; discriminate.
Qed.
