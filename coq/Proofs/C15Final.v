(* The statements of Props/C15.v in their final form, derived from the lemmas
   of Proofs/Tabs.v, VaralignBlanks.v, VaralignFile.v, VaralignSingle.v, LayoutFix.v,
   and the two refutations. *)
From PV Require Import Lib.Bytes Model.Tabs Model.Varalign Model.LayoutFix
  Proofs.Tabs Proofs.VaralignBlanks Proofs.VaralignFile Proofs.VaralignSingle Proofs.LayoutFix.
Open Scope Z_scope.

(* ---------- VaralignBlock: blanks only / parts preserved ---------- *)

Definition blanks_only (i i' : info) : Prop := strip_blanks (text i') = strip_blanks (text i).
Definition parts_kept (i i' : info) : Prop :=
  lc (ps i') = lc (ps i) /\ vo (ps i') = vo (ps i) /\ val (ps i') = val (ps i) /\ cont (ps i') = cont (ps i) /\
  (text i = parts_string (ps i) -> text i' = parts_string (ps i')).

Lemma finish_changes_blanks_only ms skip ms' : wf_block ms -> finish ms skip = Ok ms' ->
  Forall2 (Forall2 blanks_only) ms ms'.
Proof.
  intros W H. pose proof (finish_blanks_only ms skip ms' W H) as F.
  eapply Forall2_impl; [|exact F]. intros l l' _ Fl.
  eapply Forall2_impl; [|exact Fl]. intros i i' _ (A & _). exact A.
Qed.

Lemma finish_parts_preserved ms skip ms' : wf_block ms -> finish ms skip = Ok ms' ->
  Forall2 (Forall2 parts_kept) ms ms'.
Proof.
  intros W H. pose proof (finish_blanks_only ms skip ms' W H) as F.
  eapply Forall2_impl; [|exact F]. intros l l' _ Fl.
  eapply Forall2_impl; [|exact Fl]. intros i i' _ (_ & (A & B & C & D) & E).
  unfold parts_kept. auto.
Qed.

Lemma finish_line_count ms skip ms' : wf_block ms -> finish ms skip = Ok ms' ->
  map (@length info) ms' = map (@length info) ms.
Proof.
  intros W H. pose proof (finish_blanks_only ms skip ms' W H) as F.
  clear W H. induction F as [|l l' ms0 ms0' Hl _ IH]; [reflexivity|]. simpl. rewrite IH.
  rewrite (Forall2_length _ _ _ Hl). reflexivity.
Qed.

(* ---------- the 72 column rule is false of the faithful model ---------- *)

Definition no_widen_72_full : Prop :=
  forall para para', Forall single_ok para -> realign_lines para = Ok para' ->
    Forall2 (fun p p' => line_width p <= 72 -> line_width p' <= 72) para para'.

(* "LONG_VARNAME_1=\tx" and "A=\t" + 60 characters (DESIGN.md section 8, item 8):
   with the patch the second line keeps its tab and stays 68 columns wide *)
Definition w72_long : parts :=
  mkParts [] [76;79;78;71;95;86;65;82;78;65;77;69;95;49;61]%N [9]%N [120]%N [] [].
Definition w72_a : parts := mkParts [] [65;61]%N [9]%N (repeat 118%N 60) [] [].
Lemma w72_repaired : realign_lines [w72_long; w72_a] = Ok [w72_long; w72_a].
Proof. vm_compute. reflexivity. Qed.

(* what remains: "E=" directly followed by 70 characters is 72 columns wide; whatever
   blank is put before the value makes the line wider *)
Definition w72_e : parts := mkParts [] [69;61]%N [] (repeat 118%N 70) [] [].
Definition w72_para : list parts := [w72_long; w72_e].
Definition w72_after : list parts := [w72_long; set_sbv w72_e [9; 9]%N].

Lemma w72_run : realign_lines w72_para = Ok w72_after.
Proof. vm_compute. reflexivity. Qed.
Lemma w72_widths : line_width w72_e = 72 /\ line_width (set_sbv w72_e [9; 9]%N) = 86.
Proof. split; vm_compute; reflexivity. Qed.
Lemma w72_ok : Forall single_ok w72_para.
Proof. repeat constructor. Qed.

Lemma no_widen_72_refuted : ~ no_widen_72_full.
Proof.
  intro H. specialize (H w72_para w72_after w72_ok w72_run).
  inversion H as [|? ? ? ? _ H2]; subst. inversion H2 as [|? ? ? ? H3 _]; subst.
  destruct w72_widths as [A B]. rewrite A, B in H3. specialize (H3 ltac:(discriminate)).
  apply H3. reflexivity.
Qed.
