(* Proofs about Model/VaralignSplit.v: the parts of VaralignSplitter.split
   concatenate to the raw text; the splitter never runs out of fuel; a follow-up
   line without newline is always split. *)
From PV Require Import Lib.Bytes Gen.MkByteSets Model.MkLexPrim Model.MkLexer Model.MkLineSplit
  Model.VaralignSplit Spec.MkPartition Proofs.MkLexPrim Proofs.MkLexer Proofs.MkLineSplit.
From Coq Require Import ZifyBool ZifyN ZifyNat.
Open Scope N_scope.

Lemma parse_leading_comment_app initial s lc r :
  parse_leading_comment initial s = (lc, r) -> s = lc ++ r.
Proof.
  unfold parse_leading_comment. destruct (has_prefix [35; 32] s).
  { intro H; inversion H; reflexivity. }
  destruct (skip_string [35] s) as [r1|] eqn:E1.
  { intro H; inversion H; subst. apply skip_string_some in E1. exact E1. }
  intro H; inversion H; subst. symmetry. apply since_suffix.
  destruct initial; [|apply is_suffix_refl].
  destruct (skip_byte 32 s) as [r1|] eqn:E2; [|apply is_suffix_refl].
  eapply is_suffix_trans; [apply next_bytes_suffix|apply chops_suffix, (skip_byte_chops _ _ _ E2)].
Qed.

Lemma mk_op_chops s r : mk_op s = Some r -> chops s r.
Proof.
  unfold mk_op.
  destruct (skip_string [33; 61] s) eqn:E1; [intro H; inversion H; subst; eapply skip_string_chops; [|exact E1]; discriminate|].
  destruct (skip_string [58; 61] s) eqn:E2; [intro H; inversion H; subst; eapply skip_string_chops; [|exact E2]; discriminate|].
  destruct (skip_string [43; 61] s) eqn:E3; [intro H; inversion H; subst; eapply skip_string_chops; [|exact E3]; discriminate|].
  destruct (skip_string [63; 61] s) eqn:E4; [intro H; inversion H; subst; eapply skip_string_chops; [|exact E4]; discriminate|].
  intro E5. eapply skip_string_chops; [|exact E5]. discriminate.
Qed.

(* parseVarnameOp: Ok with pieces that concatenate to the text, or an assert
   (assert(ok); the asserts of unescapeComment and getRawValueAlign) *)
Lemma parse_varname_op_post initial s :
  match parse_varname_op initial s with
  | Ok (vo, sp, r) => s = vo ++ sp ++ r
  | Panic => initial = true
  | OutOfFuel => False
  end.
Proof.
  unfold parse_varname_op. destruct initial; cbn [negb].
  2:{ destruct (next_bytes is_hspace s) as [sp r] eqn:E. apply next_bytes_eq in E. exact E. }
  pose proof (unescape_comment_fuel s) as F0.
  destruct (unescape_comment s) as [[main0 c0]| |]; cbn [bind]; [|congruence|reflexivity].
  destruct (varname_partition (rtrim_hspace main0)) as (v & m1 & Ev & _). rewrite Ev. cbn [bind].
  destruct (mk_op (snd (next_bytes is_hspace m1))) as [m3|]; [|reflexivity].
  pose proof (get_raw_value_align_post s (since (rtrim_hspace main0) m3)) as P.
  destruct (get_raw_value_align s (since (rtrim_hspace main0) m3)) as [ra| |]; cbn [bind]; [|contradiction|reflexivity].
  destruct P as (r0 & Hr0).
  rewrite skip_ok by (rewrite Hr0, app_length; lia). cbn [bind].
  destruct (next_bytes is_hspace (skipn (length ra) s)) as [sp r] eqn:E4.
  apply next_bytes_eq in E4.
  pose proof (since_suffix s (skipn (length ra) s) (skipn_suffix _ _)) as Q.
  rewrite E4 in Q at 2. symmetry. exact Q.
Qed.

(* the loop of parseValue: ends without running out of fuel; it asserts only at a newline *)
Lemma parse_value_loop_post : forall fuel s, (length s < fuel)%nat ->
  match parse_value_loop fuel s with
  | Ok _ => True
  | Panic => In 10 s
  | OutOfFuel => False
  end.
Proof.
  induction fuel as [|f IH]; intros s Hf; [lia|].
  cbn [parse_value_loop]. destruct s as [|c t]; [exact I|].
  destruct ((c =? 35) || str_eqb (c :: t) [92]) eqn:Estop; [exact I|].
  apply orb_false_iff in Estop as [Hc35 Hone].
  assert (Rec : forall r, chops (c :: t) r ->
            match parse_value_loop f r with Ok _ => True | Panic => In 10 (c :: t) | OutOfFuel => False end).
  { intros r C. pose proof (chops_length _ _ C) as L. specialize (IH r ltac:(lia)).
    destruct (parse_value_loop f r); [exact I|exact IH|].
    destruct C as (x & _ & ->). apply in_or_app; right; exact IH. }
  destruct (next_bytes comment_safe (c :: t)) as [plain r] eqn:Esp.
  pose proof (next_bytes_eq _ _ _ _ Esp) as Eq.
  destruct plain as [|p0 plain'].
  2:{ apply Rec. exists (p0 :: plain'). split; [discriminate|exact Eq]. }
  assert (Hhd : comment_safe c = false).
  { pose proof (span_rest_head comment_safe (c :: t)) as H. unfold next_bytes in Esp. rewrite Esp in H.
    simpl in Eq. subst r. exact H. }
  destruct (skip_string [91; 35] (c :: t)) as [r1|] eqn:E1.
  { apply Rec. eapply skip_string_chops; [|exact E1]. discriminate. }
  destruct (skip_byte 91 (c :: t)) as [r2|] eqn:E2.
  { apply Rec. eapply skip_byte_chops; exact E2. }
  destruct (skip_byte 92 (c :: t)) as [r3|] eqn:E3.
  - apply skip_byte_some in E3. inversion E3; subst c r3.
    destruct t as [|d t']; [simpl in Hone; discriminate|].
    rewrite skip_ok by (simpl; lia). cbn [bind skipn].
    apply Rec. exists [92; d]. split; [discriminate|reflexivity].
  - left. destruct (comment_safe_false c Hhd) as [Hc|[Hc|[Hc|Hc]]]; subst c; try reflexivity; exfalso.
    + simpl in E3. discriminate.
    + simpl in Hc35. discriminate.
    + simpl in E2. discriminate.
Qed.

Lemma parse_value_post s :
  match parse_value s with
  | Ok (v, sa, c) => s = v ++ sa ++ c
  | Panic => In 10 s
  | OutOfFuel => False
  end.
Proof.
  unfold parse_value. pose proof (parse_value_loop_post (S (length s)) s ltac:(lia)) as P.
  destruct (parse_value_loop (S (length s)) s); cbn [bind]; [|exact P|exact P].
  destruct (Nat.even (trailing_backslashes s)).
  - rewrite !app_nil_r. reflexivity.
  - set (b := (length s - 1)%nat).
    rewrite app_assoc, <- rtrim_hspace_skipn. symmetry. apply firstn_skipn.
Qed.

(* String(split(raw)) = raw *)
Lemma varalign_recombines raw initial p : varalign_split raw initial = Ok p -> parts_string p = raw.
Proof.
  unfold varalign_split. destruct (has_suffix [10] raw); [discriminate|].
  destruct (parse_leading_comment initial raw) as [lc s1] eqn:E1.
  apply parse_leading_comment_app in E1.
  pose proof (parse_varname_op_post initial s1) as P2.
  destruct (parse_varname_op initial s1) as [[[vo sp] s2]| |]; cbn [bind]; try discriminate.
  pose proof (parse_value_post s2) as P3.
  destruct (parse_value s2) as [[[v sa] c]| |]; cbn [bind]; try discriminate.
  intro H; inversion H; subst p. unfold parts_string. cbn.
  rewrite E1, P2, P3. reflexivity.
Qed.

Lemma varalign_fuel raw initial : varalign_split raw initial <> OutOfFuel.
Proof.
  unfold varalign_split. destruct (has_suffix [10] raw); [discriminate|].
  destruct (parse_leading_comment initial raw) as [lc s1].
  pose proof (parse_varname_op_post initial s1) as P2.
  destruct (parse_varname_op initial s1) as [[[vo sp] s2]| |]; cbn [bind]; try discriminate; [|contradiction].
  pose proof (parse_value_post s2) as P3.
  destruct (parse_value s2) as [[[v sa] c]| |]; cbn [bind]; try discriminate. contradiction.
Qed.

Lemma has_suffix_nl_in raw : has_suffix [10] raw = true -> In 10 raw.
Proof.
  unfold has_suffix. intro H. apply andb_true_iff in H as [H1 H2].
  apply str_eqb_spec in H2. rewrite <- (firstn_skipn (length raw - length [10]) raw).
  apply in_or_app; right. rewrite H2. left; reflexivity.
Qed.

(* a follow-up line (initial = false) without newline is always split *)
Lemma varalign_follow_total raw : ~ In 10 raw -> exists p, varalign_split raw false = Ok p.
Proof.
  intro Hn. unfold varalign_split.
  destruct (has_suffix [10] raw) eqn:Hs; [exfalso; apply Hn, has_suffix_nl_in; exact Hs|].
  destruct (parse_leading_comment false raw) as [lc s1] eqn:E1.
  apply parse_leading_comment_app in E1.
  pose proof (parse_varname_op_post false s1) as P2.
  destruct (parse_varname_op false s1) as [[[vo sp] s2]| |]; cbn [bind]; [|contradiction|discriminate P2].
  pose proof (parse_value_post s2) as P3.
  destruct (parse_value s2) as [[[v sa] c]| |]; cbn [bind]; [eauto|contradiction|].
  exfalso. apply Hn. rewrite E1, P2. apply in_or_app; right. apply in_or_app; right.
  apply in_or_app; right. exact P3.
Qed.

(* an initial line without newline is split unless no assignment operator follows
   the variable name: the only assert left is assert(ok) of parseVarnameOp *)
Lemma varalign_initial_total raw : ~ In 10 raw ->
  (exists p, varalign_split raw true = Ok p) \/
  (varalign_split raw true = Panic /\
   parse_varname_op true (snd (parse_leading_comment true raw)) = Panic).
Proof.
  intro Hn. unfold varalign_split.
  destruct (has_suffix [10] raw) eqn:Hs; [exfalso; apply Hn, has_suffix_nl_in; exact Hs|].
  destruct (parse_leading_comment true raw) as [lc s1] eqn:E1. cbn [snd].
  apply parse_leading_comment_app in E1.
  pose proof (parse_varname_op_post true s1) as P2.
  destruct (parse_varname_op true s1) as [[[vo sp] s2]| |]; cbn [bind]; [|contradiction|right; auto].
  pose proof (parse_value_post s2) as P3.
  destruct (parse_value s2) as [[[v sa] c]| |]; cbn [bind]; [left; eauto|contradiction|].
  exfalso. apply Hn. rewrite E1, P2. apply in_or_app; right. apply in_or_app; right.
  apply in_or_app; right. exact P3.
Qed.
