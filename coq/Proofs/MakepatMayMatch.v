(* mayMatchNumber: exact (hence sound) for patterns without the "x-]" quirk. *)
From PV Require Import Lib.Bytes Lib.ByteRange Gen.NumberAutomaton Model.Makepat Spec.StrMatch Spec.CNumber
  Proofs.MakepatBasics Proofs.MakepatNFA Proofs.MakepatChain Proofs.MakepatChainSem
  Proofs.MakepatStrMatch Proofs.MakepatMalformed Proofs.MakepatReach
  Proofs.MakepatIntersect1 Proofs.MakepatIntersect2 Proofs.MakepatIntersect3 Proofs.NumberExact.
From Coq Require Import ZifyBool ZifyN ZifyNat.
Open Scope N_scope.

(* boolean checks of well-formedness, for the Number() table *)
Definition wf_b (a : pattern) : bool :=
  match a with [] => false | _ => forallb (fun st => forallb (fun t => tto t <? nlen a) (trans st)) a end.
Definition ranges_b (a : pattern) : bool :=
  forallb (fun st => forallb (fun t => (tmin t <=? tmax t) && (tmax t <? 256)) (trans st)) a.

Lemma wf_b_wf a : wf_b a = true -> wf a.
Proof.
  unfold wf_b. intro H. split; [intro E; rewrite E in H; discriminate|].
  destruct a as [|st0 a']; [discriminate|]. rewrite forallb_forall in H.
  intros st Ist t It. specialize (H st Ist). rewrite forallb_forall in H. specialize (H t It). lia.
Qed.

Lemma ranges_b_ok a : ranges_b a = true -> ranges_ok a.
Proof.
  unfold ranges_b. rewrite forallb_forall. intros H st Ist t It. specialize (H st Ist).
  rewrite forallb_forall in H. specialize (H t It). lia.
Qed.

Lemma number_wf : wf number.
Proof. apply wf_b_wf. vm_compute. reflexivity. Qed.

Lemma number_ranges : ranges_ok number.
Proof. apply ranges_b_ok. vm_compute. reflexivity. Qed.

(* ---------- the theorem ---------- *)

Lemma is_c_number_nil : is_c_number [] = false.
Proof. vm_compute. reflexivity. Qed.

Theorem may_match_number_exact : forall p : str,
  range_to_rbracket p = false ->
  exists b e, may_match_number p = Ok (b, e) /\
    (e = true <-> malformed p = true) /\
    (e = false ->
     (b = true <-> exists s, is_bytes s /\ str_match p s = Some true /\ is_c_number s = true)).
Proof.
  intros p G. unfold may_match_number. destruct p as [|c0 p0] eqn:Ep.
  - exists false, false. split; [reflexivity|]. split; [split; discriminate|]. intros _. split; [discriminate|].
    intros (s & _ & M & Nn). unfold str_match in M. cbn in M. destruct s; [|discriminate].
    rewrite is_c_number_nil in Nn. discriminate.
  - rewrite <- Ep in *. clear Ep c0 p0.
    destruct (compile_total p) as [r Ec]. rewrite Ec. destruct r as [a|].
    + assert (Hm : malformed p = false).
      { destruct (malformed p) eqn:Em; [|reflexivity]. apply compile_fails_iff_malformed in Em. congruence. }
      destruct (compile_chain p a Ec) as (es & P & ->).
      pose proof (chain_wf es) as Hwa. set (a := chain_from 0 [] es) in *.
      destruct (intersect_exact a number Hwa number_wf) as (i & Ei & Hwi & Hri & Hi).
      rewrite Ei. destruct (can_match_exact i Hwi (Hri (or_intror number_ranges))) as (b & Eb & Hb).
      rewrite Eb. exists b, false. split; [reflexivity|]. split; [rewrite Hm; split; discriminate|]. intros _.
      rewrite Hb. split.
      * intros (s & Hs & M). exists s. split; [exact Hs|]. rewrite Hi in M. injection M as M.
        apply andb_true_iff in M as [M1 M2].
        destruct (match_is_strmatch_partial p a s) as (x & Mx & Sx); [exact Hs|exact G|exact Ec|].
        rewrite (matchp_accepts a s Hwa) in Mx. injection Mx as <-. rewrite M1 in Sx.
        split; [exact Sx|].
        pose proof (number_exact s) as Ne. rewrite (matchp_accepts number s number_wf), M2 in Ne.
        injection Ne as <-. reflexivity.
      * intros (s & Hs & Sx & Nn). exists s. split; [exact Hs|]. rewrite Hi. f_equal.
        destruct (match_is_strmatch_partial p a s) as (x & Mx & Sx'); [exact Hs|exact G|exact Ec|].
        rewrite Sx in Sx'. injection Sx' as <-. rewrite (matchp_accepts a s Hwa) in Mx. injection Mx as ->.
        pose proof (number_exact s) as Ne. rewrite (matchp_accepts number s number_wf), Nn in Ne.
        injection Ne as ->. reflexivity.
    + exists true, true. split; [reflexivity|]. split; [|discriminate].
      split; [intros _; apply compile_fails_iff_malformed; exact Ec|reflexivity].
Qed.

(* the direction the caller relies on: "false" means that no numeric word is matched *)
Corollary may_match_number_sound : forall p : str,
  range_to_rbracket p = false ->
  may_match_number p = Ok (false, false) ->
  forall s, is_bytes s -> str_match p s = Some true -> is_c_number s = false.
Proof.
  intros p G H s Hs M. destruct (may_match_number_exact p G) as (b & e & E & _ & Hb).
  rewrite H in E. injection E as <- <-. destruct (is_c_number s) eqn:Nn; [|reflexivity].
  assert (C : false = true) by (apply (Hb eq_refl); exists s; auto). discriminate.
Qed.

(* ---------- compiled patterns satisfy the hypotheses of the automaton theorems ---------- *)

Theorem compile_wf p a : compile p = Ok (Some a) -> wf a.
Proof. intros Hc. destruct (compile_chain p a Hc) as (es & _ & ->). apply chain_wf. Qed.

Lemma number_wf_ranges : wf number /\ ranges_ok number.
Proof. exact (conj number_wf number_ranges). Qed.
