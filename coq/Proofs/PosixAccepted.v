(* posix_accepted: for every tree that is the POSIX reading of its own text and
   whose words are well classified, the lexer of pkglint turns the printed
   program into exactly the terminal string the tree is meant to be; unless the
   tree uses `for name ; do`, that string is a sentence of shell.y. *)
From Coq Require Import NArith ZArith List Bool Lia.
From PV Require Import Lib.Bytes Gen.ShellGrammar Model.ShellLex Spec.PosixSh
  Proofs.ShellLex Proofs.PosixGrammar Proofs.PosixLex.
Import ListNotations.

Lemma length_tm_toks l : (length (tm l) <= 2 * length (toks l))%nat.
Proof.
  induction l as [| p l IH]; [simpl; lia |].
  change (tm (p :: l)) with (ptok_terms p ++ tm l). rewrite app_length. cbn [toks map length].
  fold (toks l). destruct p; cbn [ptok_terms length]; lia.
Qed.

Lemma lex_stream_end fuel a f c i g :
  lex_stream (S fuel) (mkLx [] [] a f c i g) = Lexed [].
Proof. reflexivity. Qed.

(* the lexer is right on the whole fragment *)
Theorem lexer_recovers_terms : forall p : program,
  wf_words p = true -> faithful p = true -> shell_lex (tokens p) = Lexed (terms p).
Proof.
  intros p Hwf Hfa.
  destruct lexer_reads_tree as (_ & _ & _ & _ & _ & _ & _ & _ & Hcl).
  destruct (Hcl p (-1)%Z (-1)%Z Hwf Hfa safe_m1) as (a' & f' & c' & g' & _ & _ & Hrun).
  specialize (Hrun []). rewrite app_nil_r in Hrun.
  unfold shell_lex, new_lexer, tokens. fold (toks (print_clist p)).
  pose proof (length_tm_toks (print_clist p)) as Hlen.
  replace (2 * length (toks (print_clist p)) + 1)%nat
    with (length (tm (print_clist p)) + S (2 * length (toks (print_clist p)) - length (tm (print_clist p))))%nat by lia.
  rewrite (Hrun _). rewrite lex_stream_end. cbn [prepend]. rewrite app_nil_r. reflexivity.
Qed.

(* the grammar covers the whole fragment *)
Theorem terms_derivable : forall p : program,
  wf_words p = true -> derives start_symbol (terms p).
Proof.
  intros p Hwf.
  destruct ast_in_grammar as (_ & _ & _ & _ & _ & _ & _ & _ & Hcl).
  apply D_start_1. apply D_program_1. apply D_clist_of_term. apply Hcl; assumption.
Qed.

Theorem posix_accepted : forall p : program,
  wf_words_posix p = true -> faithful p = true ->
  shell_lex (tokens p) = Lexed (terms p) /\ derives start_symbol (terms p).
Proof.
  intros p Hwf Hfa. split; [apply lexer_recovers_terms | apply terms_derivable]; assumption.
Qed.
