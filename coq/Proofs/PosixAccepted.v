(* posix_accepted: for every tree that is the POSIX reading of its own text and
   whose words are well classified, the lexer of pkglint turns the printed
   program into exactly the terminal string the tree is meant to be; unless the
   tree uses `for name ; do`, that string is a sentence of shell.y. *)
From Coq Require Import NArith ZArith List Bool Lia.
From PV Require Import Lib.Bytes Gen.ShellGrammar Model.ShellLex Spec.PosixSh
  Proofs.ShellLex Proofs.PosixGrammar Proofs.PosixLex.
Import ListNotations.

Lemma length_tm_toks l : (length (tm l) <= 2 * length (toks l))%nat.
Proof.
  induction l as [| p l IH]; [simpl; lia |].
  change (tm (p :: l)) with (ptok_terms p ++ tm l). rewrite app_length. cbn [toks map length].
  fold (toks l). destruct p; cbn [ptok_terms length]; lia.
Qed.

Lemma lex_stream_end fuel a f c i :
  lex_stream (S fuel) (mkLexer [] [] a f c i) = Lexed [].
Proof. reflexivity. Qed.

(* the lexer is right on the whole fragment, `for name ; do` included *)
Theorem lexer_recovers_terms : forall p : program,
  wf_words p = true -> faithful p = true -> shell_lex (tokens p) = Lexed (terms p).
Proof.
  intros p Hwf Hfa.
  destruct lexer_reads_tree as (_ & _ & _ & _ & _ & _ & _ & _ & Hcl).
  destruct (Hcl p (-1)%Z (-1)%Z Hwf Hfa safe_m1) as (a' & f' & c' & _ & _ & Hrun).
  specialize (Hrun []). rewrite app_nil_r in Hrun.
  unfold shell_lex, new_lexer, tokens. fold (toks (print_clist p)).
  pose proof (length_tm_toks (print_clist p)) as Hlen.
  replace (2 * length (toks (print_clist p)) + 1)%nat
    with (length (tm (print_clist p)) + S (2 * length (toks (print_clist p)) - length (tm (print_clist p))))%nat by lia.
  rewrite (Hrun _). rewrite lex_stream_end. cbn [prepend]. rewrite app_nil_r. reflexivity.
Qed.

Theorem terms_derivable : forall p : program,
  wf_words p = true -> nosemi_clist p = true -> derives start_symbol (terms p).
Proof.
  intros p Hwf Hns.
  destruct ast_in_grammar as (_ & _ & _ & _ & _ & _ & _ & _ & Hcl).
  apply P1_start. apply P2_program. apply D_clist_of_term. apply Hcl; assumption.
Qed.

Theorem posix_accepted : forall p : program,
  wf_words p = true -> supported p = true ->
  shell_lex (tokens p) = Lexed (terms p) /\ derives start_symbol (terms p).
Proof.
  intros p Hwf Hsup. unfold supported in Hsup. apply andb_true_iff in Hsup. destruct Hsup as [Hfa Hns].
  split; [apply lexer_recovers_terms | apply terms_derivable]; assumption.
Qed.

(* wf_words is the stricter of the two word disciplines *)
Lemma name_ok_later w : name_ok w = true -> later_name_ok w = true.
Proof.
  intro H. destruct (name_ok_inv w H) as (Ha & _ & Hs). unfold later_name_ok.
  rewrite Ha, assignment_like_shaped, Hs. reflexivity.
Qed.

Lemma simple_ok_posix_of assigns items : simple_ok assigns items = true -> simple_ok_posix assigns items = true.
Proof.
  unfold simple_ok, simple_ok_posix. intro H.
  apply andb_true_iff in H. destruct H as [H Hne]. apply andb_true_iff in H. destruct H as [Ha Hi].
  rewrite Ha, Hne. cbn [andb]. rewrite andb_true_r.
  destruct items as [| [w | r] items]; try exact Hi.
  apply andb_true_iff in Hi. destruct Hi as [Hw Hr]. rewrite Hr, andb_true_r.
  destruct assigns; [exact Hw | apply name_ok_later; exact Hw].
Qed.

Ltac wfp_step :=
  intros; cbn [wf_cmd wf_compound wf_else wf_items wf_body wf_pipe wf_andor wf_seq wf_clist
               wfp_cmd wfp_compound wfp_else wfp_items wfp_body wfp_pipe wfp_andor wfp_seq wfp_clist] in *;
  repeat match goal with
  | H : (_ && _)%bool = true |- _ => apply andb_true_iff in H; destruct H
  end;
  repeat match goal with
  | IH : ?a = true -> ?b = true, H : ?a = true |- _ => specialize (IH H)
  end;
  repeat match goal with
  | H : ?x = true |- context [?x] => rewrite H
  end;
  reflexivity.

Theorem wf_words_posix_of :
  (forall c, wf_cmd c = true -> wfp_cmd c = true) /\
  (forall k, wf_compound k = true -> wfp_compound k = true) /\
  (forall e, wf_else e = true -> wfp_else e = true) /\
  (forall i, wf_items i = true -> wfp_items i = true) /\
  (forall b, wf_body b = true -> wfp_body b = true) /\
  (forall p, wf_pipe p = true -> wfp_pipe p = true) /\
  (forall a, wf_andor a = true -> wfp_andor a = true) /\
  (forall q, wf_seq q = true -> wfp_seq q = true) /\
  (forall l, wf_clist l = true -> wfp_clist l = true).
Proof.
  apply posix_mutind; try solve [wfp_step].
  intros assigns items H. cbn [wf_cmd wfp_cmd] in *. apply simple_ok_posix_of. exact H.
Qed.

Corollary wf_words_is_stricter : forall p : program, wf_words p = true -> wf_words_posix p = true.
Proof. destruct wf_words_posix_of as (_ & _ & _ & _ & _ & _ & _ & _ & H). exact H. Qed.
