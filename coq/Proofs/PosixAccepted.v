(* posix_accepted: for every supported tree with well-classified words, the
   lexer of pkglint turns the printed program into exactly the terminal string
   the tree is meant to be, and that string is a sentence of shell.y. *)
From Coq Require Import NArith ZArith List Bool Lia.
From PV Require Import Lib.Bytes Gen.ShellGrammar Model.ShellLex Spec.PosixSh
  Proofs.ShellLex Proofs.PosixGrammar Proofs.PosixLex.
Import ListNotations.

Lemma length_tm_toks l : (length (tm l) <= 2 * length (toks l))%nat.
Proof.
  induction l as [| p l IH]; [simpl; lia |].
  change (tm (p :: l)) with (ptok_terms p ++ tm l). rewrite app_length. cbn [toks map length].
  fold (toks l). destruct p; cbn [ptok_terms length]; lia.
Qed.

Lemma lex_stream_end fuel a f c i :
  lex_stream (S fuel) (mkLexer [] [] a f c i) = Lexed [].
Proof. reflexivity. Qed.

Lemma supported_inv p : supported p = true ->
  exists r, flow_clist false p = Some r /\ sw_clist p = true.
Proof.
  unfold supported. destruct (flow_clist false p) as [r |]; [| discriminate].
  intro H. exists r. split; [reflexivity | exact H].
Qed.

Theorem lexer_recovers_terms : forall p : program,
  wf_words p = true -> supported p = true -> shell_lex (tokens p) = Lexed (terms p).
Proof.
  intros p Hwf Hsup. destruct (supported_inv p Hsup) as (r & Hfl & Hsw).
  destruct lexer_reads_tree as (_ & _ & _ & _ & _ & _ & _ & _ & Hcl).
  destruct (Hcl p false r 0%Z 0%Z Hwf Hfl (or_intror Hsw)) as [_ (f' & c' & _ & Hrun)].
  specialize (Hrun []). rewrite app_nil_r in Hrun.
  unfold shell_lex, new_lexer, tokens. fold (toks (print_clist p)).
  pose proof (length_tm_toks (print_clist p)) as Hlen.
  replace (2 * length (toks (print_clist p)) + 1)%nat
    with (length (tm (print_clist p)) + S (2 * length (toks (print_clist p)) - length (tm (print_clist p))))%nat by lia.
  rewrite (Hrun _). rewrite lex_stream_end. cbn [prepend]. rewrite app_nil_r. reflexivity.
Qed.

Lemma supported_nosemi p : wf_words p = true -> supported p = true -> nosemi_clist p = true.
Proof.
  intros Hwf Hsup. destruct (supported_inv p Hsup) as (r & Hfl & Hsw).
  destruct lexer_reads_tree as (_ & _ & _ & _ & _ & _ & _ & _ & Hcl).
  destruct (Hcl p false r 0%Z 0%Z Hwf Hfl (or_intror Hsw)) as [Hns _]. exact Hns.
Qed.

Theorem terms_derivable : forall p : program,
  wf_words p = true -> nosemi_clist p = true -> derives start_symbol (terms p).
Proof.
  intros p Hwf Hns.
  destruct ast_in_grammar as (_ & _ & _ & _ & _ & _ & _ & _ & Hcl).
  apply P1_start. apply P2_program. apply D_clist_of_term. apply Hcl; assumption.
Qed.

Theorem posix_accepted : forall p : program,
  wf_words p = true -> supported p = true ->
  shell_lex (tokens p) = Lexed (terms p) /\ derives start_symbol (terms p).
Proof.
  intros p Hwf Hsup. split.
  - apply lexer_recovers_terms; assumption.
  - apply terms_derivable; [exact Hwf | apply supported_nosemi; assumption].
Qed.
