(* C05: one failing system call.  The Go-like program `run` (Model/FsProto.v),
   with a fault plan, against the crash specification. *)
From PV Require Import Lib.Bytes Model.FsProto Spec.CrashSpec Proofs.FsProto.
Open Scope N_scope.

(* ---------- does the plan fire at the next system call ---------- *)

Definition fires (w : world) : option fault :=
  match w_plan w with
  | Some (k, fl) => if Nat.eqb k (w_count w) then Some fl else None
  | None => None
  end.

Lemma sys_unfold o w :
  sys o w =
  match fires w with
  | Some fl =>
    (mkworld (step_fault (w_st w) o fl) (S (w_count w)) (w_plan w)
             (w_trace w ++ [(o, Some (fl_errno fl))]) (w_stderr w) (w_saved w), Some (fl_errno fl))
  | None =>
    (mkworld (fst (step (w_st w) o)) (S (w_count w)) (w_plan w)
             (w_trace w ++ [(o, snd (step (w_st w) o))]) (w_stderr w) (w_saved w), snd (step (w_st w) o))
  end.
Proof.
  unfold sys, fires. destruct (w_plan w) as [[k fl]|].
  - destruct (Nat.eqb k (w_count w)); [reflexivity|]. destruct (step (w_st w) o); reflexivity.
  - destruct (step (w_st w) o); reflexivity.
Qed.

Lemma fires_some w fl : fires w = Some fl -> w_plan w = Some (w_count w, fl).
Proof.
  unfold fires. destruct (w_plan w) as [[k fl']|]; [|discriminate].
  destruct (Nat.eqb k (w_count w)) eqn:E; [|discriminate].
  apply Nat.eqb_eq in E. intro H. inversion H. subst. reflexivity.
Qed.

Lemma fires_none w k fl : fires w = None -> w_plan w = Some (k, fl) -> k <> w_count w.
Proof.
  unfold fires. intros H Hp. rewrite Hp in H.
  destruct (Nat.eqb k (w_count w)) eqn:E; [discriminate|]. apply Nat.eqb_neq in E. exact E.
Qed.

Lemma sys_ok o w :
  fires w = None -> snd (step (w_st w) o) = None ->
  sys o w = (mkworld (fst (step (w_st w) o)) (S (w_count w)) (w_plan w)
                     (w_trace w ++ [(o, None)]) (w_stderr w) (w_saved w), None).
Proof. intros F R. rewrite sys_unfold, F, R. reflexivity. Qed.

Lemma sys_fired o w fl :
  fires w = Some fl ->
  sys o w = (mkworld (step_fault (w_st w) o fl) (S (w_count w)) (w_plan w)
                     (w_trace w ++ [(o, Some (fl_errno fl))]) (w_stderr w) (w_saved w), Some (fl_errno fl)).
Proof. intros F. rewrite sys_unfold, F. reflexivity. Qed.

(* the plan has fired already *)
Definition spent (w : world) : Prop :=
  match w_plan w with Some (k, _) => (k < w_count w)%nat | None => True end.

Lemma spent_fires w : spent w -> fires w = None.
Proof.
  unfold spent, fires. destruct (w_plan w) as [[k fl]|]; [|reflexivity].
  intro H. rewrite (proj2 (Nat.eqb_neq _ _)) by lia. reflexivity.
Qed.

(* ---------- what one save does to the world ---------- *)

(* no system call of the save is hit by the plan: it runs as save_ops says; the only
   error it can meet is EEXIST from the exclusive open *)
Record unfaulted_save (f : path) (new : str) (w w' : world) : Prop := {
  us_st : w_st w' = exec (save_ops (w_st w) f new) (w_st w);
  us_count : w_count w' = (w_count w + length (save_ops (w_st w) f new))%nat;
  us_err : w_stderr w' = w_stderr w ++
             (if save_succeeds (w_st w) f then [] else [(CannotWrite, tmp_name f)]);
  us_saved : w_saved w' = save_succeeds (w_st w) f;
  us_trace : map fst (w_trace w') = map fst (w_trace w) ++ save_ops (w_st w) f new;
  us_plan : forall k fl, w_plan w = Some (k, fl) -> (k < w_count w \/ w_count w' <= k)%nat
}.

(* one system call of the save is hit: only the temporary name may be affected, and if
   that name was free before, it is free again afterwards (nothing stale is left);
   one ERROR line names it; the plan is used up *)
Record failed_save (f : path) (w w' : world) : Prop := {
  fa_fs : forall p, p <> tmp_name f -> lookup p (st_fs (w_st w')) = lookup p (st_fs (w_st w));
  fa_tmp : lookup (tmp_name f) (st_fs (w_st w)) = None -> lookup (tmp_name f) (st_fs (w_st w')) = None;
  fa_err : exists kind, w_stderr w' = w_stderr w ++ [(kind, tmp_name f)];
  fa_saved : w_saved w' = false;
  fa_plan : exists k fl, w_plan w = Some (k, fl) /\ (w_count w <= k < w_count w')%nat;
  (* if the temporary name was taken, the failing call was the open: nothing changed *)
  fa_taken : forall f0, lookup (tmp_name f) (st_fs (w_st w)) = Some f0 -> w_st w' = w_st w
}.

(* the error path: TechErrorf, then os.Remove(tmpName) *)
Lemma fail_tail st kind tmp w4 :
  spent w4 -> tmp_only st (w_st w4) tmp -> (exists f0, lookup tmp (st_fs (w_st w4)) = Some f0) ->
  let w' := fst (sys (Unlink tmp) (tech_error kind tmp w4)) in
  tmp_only st (w_st w') tmp /\ lookup tmp (st_fs (w_st w')) = None /\
  w_stderr w' = w_stderr w4 ++ [(kind, tmp)] /\ w_count w' = S (w_count w4) /\
  w_plan w' = w_plan w4 /\ w_saved w' = w_saved w4.
Proof.
  intros Hs Ho [f0 Ht].
  assert (F : fires (tech_error kind tmp w4) = None) by (apply spent_fires; exact Hs).
  destruct (step_unlink_tmp st (w_st w4) tmp f0 Ho Ht) as [R [Ho' Ht']].
  cbn zeta. rewrite (sys_ok _ _ F R). cbn [fst tech_error w_st w_count w_plan w_trace w_stderr w_saved].
  repeat split; assumption.
Qed.

Lemma save_one_cases w f new :
  let w' := save_one f new w in
  w_plan w' = w_plan w /\ (w_count w < w_count w' <= w_count w + 6)%nat /\
  (unfaulted_save f new w w' \/ failed_save f w w').
Proof.
  destruct w as [st c plan tr err sv].
  unfold save_one, set_saved. cbn [w_st w_count w_plan w_trace w_stderr w_saved].
  set (tmp := tmp_name f).
  (* ---- the exclusive open ---- *)
  destruct (fires (mkworld st c plan tr err false)) as [fl|] eqn:F0.
  { rewrite (sys_fired _ _ fl F0). apply fires_some in F0. cbn in F0.
    cbn [tech_error w_st w_count w_plan w_trace w_stderr w_saved step_fault].
    split; [reflexivity|]. split; [lia|]. right. constructor; cbn.
    - reflexivity.
    - auto.
    - eexists. reflexivity.
    - reflexivity.
    - exists c, fl. split; [exact F0|lia].
    - reflexivity. }
  destruct (lookup tmp (st_fs st)) as [f0|] eqn:Etmp.
  { (* the name is taken: EEXIST *)
    rewrite sys_unfold, F0. cbn [w_st w_count w_plan w_trace w_stderr w_saved].
    rewrite (step_openexcl_taken st tmp f0 Etmp). cbn [fst snd tech_error w_st w_count w_plan w_trace w_stderr w_saved].
    split; [reflexivity|]. split; [lia|]. left.
    assert (Eops : save_ops st f new = [OpenExcl 0 tmp 438]) by (unfold save_ops; fold tmp; rewrite Etmp; reflexivity).
    assert (Esucc : save_succeeds st f = false) by (unfold save_succeeds; fold tmp; rewrite Etmp; reflexivity).
    constructor; cbn [tech_error w_st w_count w_plan w_trace w_stderr w_saved]; rewrite ?Eops, ?Esucc.
    - unfold exec. cbn [fold_left]. rewrite (step_openexcl_taken st tmp f0 Etmp). reflexivity.
    - cbn. lia.
    - reflexivity.
    - reflexivity.
    - rewrite map_app. reflexivity.
    - intros k fl Hp. subst plan. pose proof (fires_none _ k fl F0 eq_refl) as N0. cbn in N0. lia. }
  destruct (step_openexcl_free st tmp Etmp) as [R1 W1].
  rewrite (sys_ok _ _ F0 R1). cbn [w_st w_count w_plan w_trace w_stderr w_saved].
  set (s1 := fst (step st (OpenExcl 0 tmp 438))) in *.
  set (tr1 := tr ++ [(OpenExcl 0 tmp 438, None)]).
  assert (Hfne : f <> tmp) by (intro E; apply (tmp_name_neq f); symmetry; exact E).
  (* ---- write ---- *)
  destruct (fires (mkworld s1 (S c) plan tr1 err false)) as [fl|] eqn:F1.
  { rewrite (sys_fired _ _ fl F1). apply fires_some in F1. cbn in F1.
    cbn [w_st w_count w_plan w_trace w_stderr w_saved step_fault].
    destruct (step_write st s1 tmp [] _ (firstn (fl_short fl) new) W1) as [_ W2].
    set (s2 := fst (step s1 (Write 0 (firstn (fl_short fl) new)))) in *.
    set (tr2 := tr1 ++ _).
    assert (F2 : fires (mkworld s2 (S (S c)) plan tr2 err false) = None).
    { apply spent_fires. unfold spent. cbn. rewrite F1. lia. }
    destruct (step_close st s2 tmp _ _ W2) as [R3 C3].
    rewrite (sys_ok _ _ F2 R3). cbn [w_st w_count w_plan w_trace w_stderr w_saved].
    set (s3 := fst (step s2 (Close 0))) in *. set (tr3 := tr2 ++ _).
    destruct (fail_tail st CannotWrite tmp (mkworld s3 (S (S (S c))) plan tr3 err false))
      as [T1 [T2 [T3 [T4 [T5 T6]]]]].
    { unfold spent. cbn. rewrite F1. lia. }
    { apply (cl_only _ _ _ _ _ C3). }
    { eexists. apply (cl_tmp _ _ _ _ _ C3). }
    cbn [w_st w_count w_plan w_trace w_stderr w_saved] in *.
    split; [exact T5|]. split; [rewrite T4; lia|]. right. constructor; cbn [tech_error w_st w_count w_plan w_trace w_stderr w_saved].
    - exact T1.
    - intros _. exact T2.
    - eexists. exact T3.
    - exact T6.
    - exists (S c), fl. split; [exact F1|rewrite T4; lia].
    - intros f0' H'; exfalso; revert H'; change (tmp_name f) with tmp; rewrite Etmp; discriminate. }
  destruct (step_write st s1 tmp [] _ new W1) as [R2 W2]. cbn [app] in W2.
  rewrite (sys_ok _ _ F1 R2). cbn [w_st w_count w_plan w_trace w_stderr w_saved].
  set (s2 := fst (step s1 (Write 0 new))) in *. set (tr2 := tr1 ++ [(Write 0 new, None)]).
  (* ---- close ---- *)
  destruct (step_close st s2 tmp _ _ W2) as [R3 C3].
  destruct (fires (mkworld s2 (S (S c)) plan tr2 err false)) as [fl|] eqn:F2.
  { rewrite (sys_fired _ _ fl F2). apply fires_some in F2. cbn in F2.
    cbn [w_st w_count w_plan w_trace w_stderr w_saved step_fault].
    set (s3 := fst (step s2 (Close 0))) in *. set (tr3 := tr2 ++ _).
    destruct (fail_tail st CannotWrite tmp (mkworld s3 (S (S (S c))) plan tr3 err false))
      as [T1 [T2 [T3 [T4 [T5 T6]]]]].
    { unfold spent. cbn. rewrite F2. lia. }
    { apply (cl_only _ _ _ _ _ C3). }
    { eexists. apply (cl_tmp _ _ _ _ _ C3). }
    cbn [w_st w_count w_plan w_trace w_stderr w_saved] in *.
    split; [exact T5|]. split; [rewrite T4; lia|]. right. constructor; cbn [tech_error w_st w_count w_plan w_trace w_stderr w_saved].
    - exact T1.
    - intros _. exact T2.
    - eexists. exact T3.
    - exact T6.
    - exists (S (S c)), fl. split; [exact F2|rewrite T4; lia].
    - intros f0' H'; exfalso; revert H'; change (tmp_name f) with tmp; rewrite Etmp; discriminate. }
  rewrite (sys_ok _ _ F2 R3). cbn [w_st w_count w_plan w_trace w_stderr w_saved].
  set (s3 := fst (step s2 (Close 0))) in *. set (tr3 := tr2 ++ [(Close 0, None)]).
  (* ---- Stat, Chmod ---- *)
  assert (Ef : lookup f (st_fs s3) = lookup f (st_fs st)) by (apply (cl_only _ _ _ _ _ C3); exact Hfne).
  rewrite Ef.
  assert (Eops : save_ops st f new =
                 [OpenExcl 0 tmp 438; Write 0 new; Close 0] ++
                 match lookup f (st_fs st) with Some old => [Chmod tmp (f_mode old)] | None => [] end ++
                 [Rename tmp f]) by (unfold save_ops; fold tmp; rewrite Etmp; reflexivity).
  assert (Esucc : save_succeeds st f = true) by (unfold save_succeeds; fold tmp; rewrite Etmp; reflexivity).
  (* the rename and what follows, from any closed state s4 reached with count n *)
  assert (Tail : forall s4 n tr4 m (chm : list op),
            closed st s4 tmp new m -> (S (S (S c)) <= n <= S (S (S (S c))))%nat ->
            (forall k fl, plan = Some (k, fl) -> (k < c \/ n <= k)%nat) ->
            map fst tr4 = map fst tr ++ [OpenExcl 0 tmp 438; Write 0 new; Close 0] ++ chm ->
            n = (c + 3 + length chm)%nat ->
            s4 = exec ([OpenExcl 0 tmp 438; Write 0 new; Close 0] ++ chm) st ->
            save_ops st f new = [OpenExcl 0 tmp 438; Write 0 new; Close 0] ++ chm ++ [Rename tmp f] ->
            let w' := match sys (Rename tmp f) (mkworld s4 n plan tr4 err false) with
                      | (w5, Some _) => fst (sys (Unlink tmp) (tech_error CannotOverwrite tmp w5))
                      | (w5, None) => mkworld (w_st w5) (w_count w5) (w_plan w5) (w_trace w5) (w_stderr w5) true
                      end in
            w_plan w' = plan /\ (c < w_count w' <= c + 6)%nat /\
            (unfaulted_save f new (mkworld st c plan tr err sv) w' \/
             failed_save f (mkworld st c plan tr err sv) w')).
  { intros s4 n tr4 m chm C4 Hn Hpl Htr Hlen Hs4 Hops.
    destruct (step_rename_tmp st s4 tmp f new m C4 (tmp_name_neq f)) as [R5 [L1 [L2 L3]]].
    destruct (fires (mkworld s4 n plan tr4 err false)) as [fl|] eqn:F4.
    - rewrite (sys_fired _ _ fl F4). apply fires_some in F4. cbn in F4.
      cbn [w_st w_count w_plan w_trace w_stderr w_saved step_fault].
      destruct (fail_tail st CannotOverwrite tmp (mkworld s4 (S n) plan (tr4 ++ [(Rename tmp f, Some (fl_errno fl))]) err false))
        as [T1 [T2 [T3 [T4 [T5 T6]]]]].
      { unfold spent. cbn. rewrite F4. lia. }
      { apply (cl_only _ _ _ _ _ C4). }
      { eexists. apply (cl_tmp _ _ _ _ _ C4). }
      cbn [w_st w_count w_plan w_trace w_stderr w_saved] in *. cbn zeta.
      split; [exact T5|]. split; [rewrite T4; lia|]. right. constructor; cbn [tech_error w_st w_count w_plan w_trace w_stderr w_saved].
      + exact T1.
      + intros _. exact T2.
      + eexists. exact T3.
      + exact T6.
      + exists n, fl. split; [exact F4|rewrite T4; lia].
      + intros f0' H'; exfalso; revert H'; change (tmp_name f) with tmp; rewrite Etmp; discriminate.
    - rewrite (sys_ok _ _ F4 R5). cbn [w_st w_count w_plan w_trace w_stderr w_saved]. cbn zeta.
      split; [reflexivity|]. split; [lia|]. left.
      constructor; cbn [tech_error w_st w_count w_plan w_trace w_stderr w_saved]; rewrite ?Esucc.
      + rewrite Hops, app_assoc, exec_snoc, <- Hs4. reflexivity.
      + rewrite Hops, !app_length. cbn [length]. lia.
      + rewrite app_nil_r. reflexivity.
      + reflexivity.
      + rewrite map_app, Htr, Hops. cbn [map fst]. rewrite <- !app_assoc. reflexivity.
      + intros k fl Hp. destruct (Hpl k fl Hp) as [H|H]; [left; exact H|].
        pose proof (fires_none _ k fl F4 Hp) as N4. cbn in N4. right. lia. }
  assert (Hpl3 : forall k fl, plan = Some (k, fl) -> (k < c \/ S (S (S c)) <= k)%nat).
  { intros k fl Hp. subst plan.
    pose proof (fires_none _ k fl F0 eq_refl) as N0. pose proof (fires_none _ k fl F1 eq_refl) as N1.
    pose proof (fires_none _ k fl F2 eq_refl) as N2. cbn in N0, N1, N2. lia. }
  assert (Hs3 : s3 = exec [OpenExcl 0 tmp 438; Write 0 new; Close 0] st) by reflexivity.
  assert (Htr3 : map fst tr3 = map fst tr ++ [OpenExcl 0 tmp 438; Write 0 new; Close 0]).
  { unfold tr3, tr2, tr1. rewrite !map_app. cbn [map fst]. rewrite <- !app_assoc. reflexivity. }
  destruct (lookup f (st_fs st)) as [old|] eqn:Eold.
  - (* the original exists: its mode goes to the temporary file *)
    destruct (step_chmod_tmp st s3 tmp _ _ (f_mode old) C3) as [R4 C4].
    destruct (fires (mkworld s3 (S (S (S c))) plan tr3 err false)) as [fl|] eqn:F3.
    + rewrite (sys_fired _ _ fl F3). apply fires_some in F3. cbn in F3.
      cbn [w_st w_count w_plan w_trace w_stderr w_saved step_fault].
      destruct (fail_tail st CannotWrite tmp (mkworld s3 (S (S (S (S c)))) plan (tr3 ++ [(Chmod tmp (f_mode old), Some (fl_errno fl))]) err false))
        as [T1 [T2 [T3 [T4 [T5 T6]]]]].
      { unfold spent. cbn. rewrite F3. lia. }
      { apply (cl_only _ _ _ _ _ C3). }
      { eexists. apply (cl_tmp _ _ _ _ _ C3). }
      cbn [w_st w_count w_plan w_trace w_stderr w_saved] in *.
      split; [exact T5|]. split; [rewrite T4; lia|]. right. constructor; cbn [tech_error w_st w_count w_plan w_trace w_stderr w_saved].
      * exact T1.
      * intros _. exact T2.
      * eexists. exact T3.
      * exact T6.
      * exists (S (S (S c))), fl. split; [exact F3|rewrite T4; lia].
      * intros f0' H'; exfalso; revert H'; change (tmp_name f) with tmp; rewrite Etmp; discriminate.
    + rewrite (sys_ok _ _ F3 R4). cbn [w_st w_count w_plan w_trace w_stderr w_saved].
      apply (Tail _ (S (S (S (S c)))) _ (f_mode old) [Chmod tmp (f_mode old)] C4).
      * lia.
      * intros k fl Hp. destruct (Hpl3 k fl Hp) as [H|H]; [left; exact H|].
        pose proof (fires_none _ k fl F3 Hp) as N3. cbn in N3. right. lia.
      * rewrite map_app, Htr3. cbn [map fst]. rewrite <- app_assoc. reflexivity.
      * cbn [length]. lia.
      * rewrite exec_snoc, <- Hs3. reflexivity.
      * exact Eops.
  - (* no original (Stat fails): no chmod *)
    apply (Tail s3 (S (S (S c))) tr3 _ [] C3).
    * lia.
    * exact Hpl3.
    * rewrite app_nil_r. exact Htr3.
    * cbn [length]. lia.
    * rewrite app_nil_r. exact Hs3.
    * exact Eops.
Qed.

Lemma content_chmod s f m p :
  content (st_fs (fst (step s (Chmod f m)))) p = content (st_fs s) p.
Proof.
  cbn [step]. destruct (lookup f (st_fs s)) as [f0|] eqn:El; [|reflexivity]. cbn [fst st_fs].
  unfold content. destruct (str_eqb p f) eqn:E.
  - apply str_eqb_spec in E. subst p. rewrite lookup_set_eq, El. reflexivity.
  - rewrite lookup_set_neq; [reflexivity|]. intro; subst. rewrite str_eqb_refl in E. discriminate.
Qed.

(* the mode fix: one system call; contents never change; an ERROR line exactly
   when the call failed (injected, or the file does not exist) *)
Lemma chmod_fix_cases w f mode :
  let w' := chmod_fix f mode w in
  w_plan w' = w_plan w /\ w_count w' = S (w_count w) /\ w_saved w' = w_saved w /\
  (forall p, content (st_fs (w_st w')) p = content (st_fs (w_st w)) p) /\
  ((fires w = None /\ w_st w' = fst (step (w_st w) (Chmod f (N.ldiff mode 73))) /\
    (snd (step (w_st w) (Chmod f (N.ldiff mode 73))) = None -> w_stderr w' = w_stderr w) /\
    exists extra, w_stderr w' = w_stderr w ++ extra) \/
   (exists fl, fires w = Some fl /\ w_st w' = w_st w /\ w_stderr w' = w_stderr w ++ [(CannotClearExec, f)])).
Proof.
  unfold chmod_fix. rewrite sys_unfold. destruct (fires w) as [fl|] eqn:F.
  - cbn [tech_error w_st w_count w_plan w_trace w_stderr w_saved step_fault].
    repeat split; try reflexivity. right. exists fl. repeat split; reflexivity.
  - destruct (snd (step (w_st w) (Chmod f (N.ldiff mode 73)))) as [e|] eqn:R;
      cbn [tech_error w_st w_count w_plan w_trace w_stderr w_saved].
    + repeat split; try reflexivity; [intro p; apply content_chmod|].
      left. repeat split; try reflexivity; [discriminate|]. eexists. reflexivity.
    + repeat split; try reflexivity; [intro p; apply content_chmod|].
      left. repeat split; try reflexivity. exists []. rewrite app_nil_r. reflexivity.
Qed.

(* ---------- summary of one action, as needed by the induction ---------- *)

Definition fired_in (w w' : world) : Prop :=
  exists k fl, w_plan w = Some (k, fl) /\ (w_count w <= k < w_count w')%nat.

Record action_sum (D : path -> Prop) (a : action) (w w' : world) : Prop := {
  as_plan : w_plan w' = w_plan w;
  as_count : (w_count w <= w_count w')%nat;
  as_rel : forall p, D p -> ok_rel [a] p (content (st_fs (w_st w)) p) (content (st_fs (w_st w')) p);
  as_err : exists extra, w_stderr w' = w_stderr w ++ extra /\ (fired_in w w' -> extra <> []);
  as_untouched : fired_in w w' -> forall p, D p -> content (st_fs (w_st w')) p = content (st_fs (w_st w)) p
}.

(* D: paths that exist when the action starts *)
Lemma save_sum (D : path -> Prop) f new w b :
  (forall p, D p -> content (st_fs (w_st w)) p <> None) ->
  action_sum D (ASave f new) w (save_one f new w) /\ action_sum D (AIfSaved b f new) w (save_one f new w).
Proof.
  intro HD. destruct (save_one_cases w f new) as [Hp [Hc [U|F]]].
  - assert (Hnf : ~ fired_in w (save_one f new w)).
    { intros [k [fl [Hpl Hk]]]. destruct (us_plan _ _ _ _ U k fl Hpl); lia. }
    split; constructor; try exact Hp; try lia;
      try (intros p Hd; rewrite (us_st _ _ _ _ U);
           apply (save_crash_ok (w_st w) f new _ p b (crash_of_full _) (HD p Hd)));
      try (eexists; split; [apply (us_err _ _ _ _ U)|intro; contradiction]);
      try (intro; contradiction).
  - assert (Hu : forall p, D p -> content (st_fs (w_st (save_one f new w))) p = content (st_fs (w_st w)) p).
    { intros p Hd. unfold content.
      destruct (lookup (tmp_name f) (st_fs (w_st w))) as [f0|] eqn:El.
      - rewrite (fa_taken _ _ _ F f0 El). reflexivity.
      - rewrite (fa_fs _ _ _ F p); [reflexivity|].
        intros ->. apply (HD _ Hd). unfold content. rewrite El. reflexivity. }
    destruct (fa_err _ _ _ F) as [kind He].
    split; constructor; try exact Hp; try lia;
      try (intros p Hd; rewrite (Hu p Hd); apply ok_rel_refl);
      try (eexists; split; [exact He|intros _; discriminate]);
      try (intros _; exact Hu).
Qed.

Lemma chmod_sum (D : path -> Prop) f mode w : action_sum D (AChmod f mode) w (chmod_fix f mode w).
Proof.
  destruct (chmod_fix_cases w f mode) as [Hp [Hc [Hs [Hcont Hcase]]]].
  constructor; try exact Hp; try lia.
  - intros p _. rewrite Hcont. apply ok_rel_refl.
  - destruct Hcase as [[Fn [_ [_ [extra He]]]]|[fl [Fs [_ He]]]].
    + exists extra. split; [exact He|]. intros [k [fl [Hpl Hk]]].
      exfalso. apply (fires_none w k fl Fn Hpl). lia.
    + eexists. split; [exact He|]. intros _. discriminate.
  - intros _ p _. apply Hcont.
Qed.

Lemma skip_sum (D : path -> Prop) a w : action_sum D a w w.
Proof.
  constructor; try reflexivity; try lia.
  - intros p _. apply ok_rel_refl.
  - exists []. split; [rewrite app_nil_r; reflexivity|]. intros [k [fl [_ Hk]]]. lia.
Qed.

Lemma run_action_sum (D : path -> Prop) a w :
  (forall p, D p -> content (st_fs (w_st w)) p <> None) ->
  action_sum D a w (run_action w a).
Proof.
  intro HD. destruct a as [f new|f m|b f new]; cbn [run_action].
  - apply (save_sum D f new w true HD).
  - apply chmod_sum.
  - destruct (Bool.eqb (w_saved w) b).
    + apply (save_sum D f new w b HD).
    + apply skip_sum.
Qed.

(* ---------- the whole run ---------- *)

Lemma run_cons a prog w : run (a :: prog) w = run prog (run_action w a).
Proof. reflexivity. Qed.

Lemma run_app p1 p2 w : run (p1 ++ p2) w = run p2 (run p1 w).
Proof. unfold run. apply fold_left_app. Qed.

Lemma run_sum (D : path -> Prop) prog : forall w,
  (forall p, D p -> content (st_fs (w_st w)) p <> None) ->
  w_plan (run prog w) = w_plan w /\ (w_count w <= w_count (run prog w))%nat /\
  (forall p, D p -> ok_rel prog p (content (st_fs (w_st w)) p) (content (st_fs (w_st (run prog w))) p)) /\
  (exists extra, w_stderr (run prog w) = w_stderr w ++ extra /\ (fired_in w (run prog w) -> extra <> [])).
Proof.
  induction prog as [|a prog IH]; intros w HD.
  - cbn [run fold_left]. split; [reflexivity|]. split; [lia|]. split; [intros; apply ok_rel_refl|].
    exists []. split; [rewrite app_nil_r; reflexivity|]. intros [k [fl [_ Hk]]]. lia.
  - rewrite run_cons.
    pose proof (run_action_sum D a w HD) as A.
    assert (HD' : forall p, D p -> content (st_fs (w_st (run_action w a))) p <> None).
    { intros p Hd. apply (ok_rel_some _ _ _ _ (as_rel _ _ _ _ A p Hd) (HD p Hd)). }
    destruct (IH (run_action w a) HD') as [Ip [Ic [Ir [ex2 [Ie If]]]]].
    destruct (as_err _ _ _ _ A) as [ex1 [Ae Af]].
    split; [rewrite Ip; apply (as_plan _ _ _ _ A)|].
    split; [pose proof (as_count _ _ _ _ A); lia|].
    split.
    + intros p Hd. change (a :: prog) with ([a] ++ prog).
      apply (ok_rel_trans [a] prog p _ _ _ (as_rel _ _ _ _ A p Hd) (Ir p Hd)).
    + exists (ex1 ++ ex2). split; [rewrite Ie, Ae, app_assoc; reflexivity|].
      intros [k [fl [Hpl Hk]]].
      destruct (Nat.lt_ge_cases k (w_count (run_action w a))) as [Hlt|Hge].
      * assert (ex1 <> []) by (apply Af; exists k, fl; split; [exact Hpl|lia]).
        destruct ex1; [contradiction|discriminate].
      * assert (ex2 <> []).
        { apply If. exists k, fl. split; [rewrite (as_plan _ _ _ _ A); exact Hpl|lia]. }
        destruct ex1; [exact H|discriminate].
Qed.

(* ---------- after the plan has fired, the rest runs as without a plan ---------- *)

Definition clear_plan (w : world) : world :=
  mkworld (w_st w) (w_count w) None (w_trace w) (w_stderr w) (w_saved w).

Lemma sys_clear o w : spent w ->
  sys o (clear_plan w) = (clear_plan (fst (sys o w)), snd (sys o w)) /\ spent (fst (sys o w)).
Proof.
  intro H. rewrite !sys_unfold. rewrite (spent_fires w H).
  assert (E : fires (clear_plan w) = None) by reflexivity. rewrite E.
  split; [reflexivity|]. cbn [fst]. unfold spent in *. cbn [w_plan w_count].
  destruct (w_plan w) as [[k fl]|]; [lia|exact I].
Qed.

Lemma spent_tech k loc w : spent w -> spent (tech_error k loc w).
Proof. intro H. exact H. Qed.

Lemma save_one_clear f new w : spent w ->
  save_one f new (clear_plan w) = clear_plan (save_one f new w) /\ spent (save_one f new w).
Proof.
  intro H. unfold save_one.
  assert (H0 : spent (set_saved false w)) by exact H.
  change (set_saved false (clear_plan w)) with (clear_plan (set_saved false w)).
  destruct (sys_clear (OpenExcl 0 (tmp_name f) 438) _ H0) as [C1 S1]. rewrite C1.
  destruct (sys (OpenExcl 0 (tmp_name f) 438) (set_saved false w)) as [w1 [e|]]; cbn [fst snd] in *.
  - split; [reflexivity|exact S1].
  - destruct (sys_clear (Write 0 new) w1 S1) as [C2 S2]. rewrite C2.
    destruct (sys (Write 0 new) w1) as [w2 err]; cbn [fst snd] in *.
    destruct (sys_clear (Close 0) w2 S2) as [C3 S3]. rewrite C3.
    destruct (sys (Close 0) w2) as [w3 err1]; cbn [fst snd] in *.
    change (w_st (clear_plan w3)) with (w_st w3).
    (* the error path, from any spent world *)
    assert (Tail : forall kind w4, spent w4 ->
              fst (sys (Unlink (tmp_name f)) (tech_error kind (tmp_name f) (clear_plan w4))) =
              clear_plan (fst (sys (Unlink (tmp_name f)) (tech_error kind (tmp_name f) w4))) /\
              spent (fst (sys (Unlink (tmp_name f)) (tech_error kind (tmp_name f) w4)))).
    { intros kind w4 S4.
      change (tech_error kind (tmp_name f) (clear_plan w4)) with (clear_plan (tech_error kind (tmp_name f) w4)).
      destruct (sys_clear (Unlink (tmp_name f)) _ (spent_tech kind (tmp_name f) w4 S4)) as [C S]. rewrite C.
      split; [reflexivity|exact S]. }
    assert (Ren : forall w4, spent w4 ->
              match sys (Rename (tmp_name f) f) (clear_plan w4) with
              | (w5, Some _) => fst (sys (Unlink (tmp_name f)) (tech_error CannotOverwrite (tmp_name f) w5))
              | (w5, None) => set_saved true w5
              end =
              clear_plan match sys (Rename (tmp_name f) f) w4 with
                         | (w5, Some _) => fst (sys (Unlink (tmp_name f)) (tech_error CannotOverwrite (tmp_name f) w5))
                         | (w5, None) => set_saved true w5
                         end /\
              spent match sys (Rename (tmp_name f) f) w4 with
                    | (w5, Some _) => fst (sys (Unlink (tmp_name f)) (tech_error CannotOverwrite (tmp_name f) w5))
                    | (w5, None) => set_saved true w5
                    end).
    { intros w4 S4. destruct (sys_clear (Rename (tmp_name f) f) w4 S4) as [C5 S5]. rewrite C5.
      destruct (sys (Rename (tmp_name f) f) w4) as [w5 [e|]]; cbn [fst snd] in *.
      - apply Tail. exact S5.
      - split; [reflexivity|exact S5]. }
    destruct err as [e|]; [|destruct err1 as [e|]].
    + apply Tail. exact S3.
    + apply Tail. exact S3.
    + destruct (lookup f (st_fs (w_st w3))) as [old|].
      * destruct (sys_clear (Chmod (tmp_name f) (f_mode old)) w3 S3) as [C4 S4]. rewrite C4.
        destruct (sys (Chmod (tmp_name f) (f_mode old)) w3) as [w4 [e|]]; cbn [fst snd] in *.
        -- apply Tail. exact S4.
        -- apply Ren. exact S4.
      * apply Ren. exact S3.
Qed.

Lemma run_action_clear a w : spent w ->
  run_action (clear_plan w) a = clear_plan (run_action w a) /\ spent (run_action w a).
Proof.
  intro H. destruct a as [f new|f m|b f new]; cbn [run_action].
  - apply save_one_clear. exact H.
  - unfold chmod_fix. destruct (sys_clear (Chmod f (N.ldiff m 73)) w H) as [C1 S1]. rewrite C1.
    destruct (sys (Chmod f (N.ldiff m 73)) w) as [w1 [e|]]; cbn [fst snd] in *;
      (split; [reflexivity|exact S1]).
  - change (w_saved (clear_plan w)) with (w_saved w). destruct (Bool.eqb (w_saved w) b).
    + apply save_one_clear. exact H.
    + split; [reflexivity|exact H].
Qed.

Lemma run_clear prog : forall w, spent w -> run prog (clear_plan w) = clear_plan (run prog w).
Proof.
  induction prog as [|a prog IH]; intros w H; [reflexivity|].
  rewrite !run_cons. destruct (run_action_clear a w H) as [C S]. rewrite C. apply IH. exact S.
Qed.

(* ---------- the theorems ---------- *)

(* (1) old-or-new for every original file, whatever single system call fails and
   whatever it leaves behind; (2) if a call did fail, stderr has an ERROR line.
   No guard: an existing file is never the temporary file of a save. *)
Theorem fault_atomic : forall (s : state) (prog : list action) (k : nat) (fl : fault),
  let w := run prog (init_world s (Some (k, fl))) in
  atomic_at (st_fs s) prog (st_fs (w_st w)) /\
  ((k < w_count w)%nat -> w_stderr w <> []).
Proof.
  intros s prog k fl w.
  destruct (run_sum (orig (st_fs s)) prog (init_world s (Some (k, fl))) (orig_exists s))
    as [_ [_ [Hr [extra [He Hf]]]]].
  fold w in Hr, He, Hf. split.
  - intros p f0 Hl. pose proof (Hr p (ex_intro _ f0 Hl)) as H. cbn [init_world w_st] in H.
    unfold content in H. rewrite Hl in H. cbn [option_map] in H.
    destruct (lookup p (st_fs (w_st w))) as [f1|] eqn:E; cbn [option_map] in H.
    + exists f1. split; [reflexivity|]. destruct H as [H|[v [Hv H]]].
      * left. congruence.
      * right. congruence.
    + destruct H as [H|[v [_ H]]]; discriminate.
  - intro Hk. cbn [init_world w_stderr] in He. rewrite He. cbn [app].
    apply Hf. exists k, fl. split; [reflexivity|]. cbn [init_world w_count]. lia.
Qed.

(* (3) the action during which the call fails leaves every original file as it
   was before that action, and (4) everything after it runs exactly as it would
   without any fault plan: later files are still processed *)
Theorem fault_local : forall (s : state) (pre post : list action) (a : action) (k : nat) (fl : fault),
  let w1 := run pre (init_world s (Some (k, fl))) in
  let w2 := run_action w1 a in
  (w_count w1 <= k < w_count w2)%nat ->
  (forall p, orig (st_fs s) p -> content (st_fs (w_st w2)) p = content (st_fs (w_st w1)) p) /\
  clear_plan (run (pre ++ a :: post) (init_world s (Some (k, fl)))) = run post (clear_plan w2).
Proof.
  intros s pre post a k fl w1 w2 Hk.
  destruct (run_sum (orig (st_fs s)) pre (init_world s (Some (k, fl))) (orig_exists s)) as [Hp1 [_ [Hr1 _]]].
  fold w1 in Hp1, Hr1. cbn [init_world w_plan w_st] in Hp1, Hr1.
  assert (HD1 : forall p, orig (st_fs s) p -> content (st_fs (w_st w1)) p <> None).
  { intros p Hd. apply (ok_rel_some _ _ _ _ (Hr1 p Hd) (orig_exists s p Hd)). }
  pose proof (run_action_sum (orig (st_fs s)) a w1 HD1) as A. fold w2 in A.
  assert (Hfired : fired_in w1 w2) by (exists k, fl; split; [exact Hp1|exact Hk]).
  split.
  - apply (as_untouched _ _ _ _ A Hfired).
  - rewrite run_app, run_cons. fold w1. fold w2. symmetry. apply run_clear.
    unfold spent. rewrite (as_plan _ _ _ _ A), Hp1. lia.
Qed.

(* (5) a failed save leaves nothing stale: if the temporary name was free before the
   action in which the call fails, it is free again after it *)
Theorem failed_save_no_leftover : forall (f : path) (new : str) (w : world),
  lookup (tmp_name f) (st_fs (w_st w)) = None ->
  lookup (tmp_name f) (st_fs (w_st (save_one f new w))) = None.
Proof.
  intros f new w Hfree. destruct (save_one_cases w f new) as [_ [_ [U|F]]].
  - rewrite (us_st _ _ _ _ U). apply (save_preserves_nothing_stale (w_st w) f new Hfree).
  - apply (fa_tmp _ _ _ F Hfree).
Qed.

(* ---------- without a fault the program issues exactly prog_ops ---------- *)

Lemma run_nofault prog : forall w,
  w_plan w = None ->
  let w' := run prog w in
  w_st w' = exec (prog_ops_from (w_saved w) (w_st w) prog) (w_st w) /\
  map fst (w_trace w') = map fst (w_trace w) ++ prog_ops_from (w_saved w) (w_st w) prog /\
  w_plan w' = None.
Proof.
  induction prog as [|a prog IH]; intros w Hp.
  - cbn. rewrite app_nil_r. auto.
  - rewrite run_cons.
    assert (Hsave : forall f new, let w1 := save_one f new w in
              w_plan w1 = None /\ w_saved w1 = save_succeeds (w_st w) f /\
              w_st w1 = exec (save_ops (w_st w) f new) (w_st w) /\
              map fst (w_trace w1) = map fst (w_trace w) ++ save_ops (w_st w) f new).
    { intros f new. destruct (save_one_cases w f new) as [Hp' [_ [U|F]]].
      - cbn zeta. rewrite Hp', Hp. split; [reflexivity|]. split; [apply (us_saved _ _ _ _ U)|].
        split; [apply (us_st _ _ _ _ U)|apply (us_trace _ _ _ _ U)].
      - destruct (fa_plan _ _ _ F) as [k [fl [Hk _]]]. rewrite Hp in Hk. discriminate. }
    destruct a as [f new|f m|b f new]; cbn [run_action prog_ops_from].
    + destruct (Hsave f new) as [H1 [H2 [H3 H4]]]. destruct (IH _ H1) as [I1 [I2 I3]].
      cbn zeta. rewrite I1, I2, H2, H3, H4, exec_app, <- app_assoc. auto.
    + assert (Hc : w_plan (chmod_fix f m w) = None /\ w_saved (chmod_fix f m w) = w_saved w /\
                   w_st (chmod_fix f m w) = exec [Chmod f (N.ldiff m 73)] (w_st w) /\
                   map fst (w_trace (chmod_fix f m w)) = map fst (w_trace w) ++ [Chmod f (N.ldiff m 73)]).
      { unfold chmod_fix. rewrite sys_unfold. unfold fires. rewrite Hp.
        destruct (snd (step (w_st w) (Chmod f (N.ldiff m 73))));
          cbn [tech_error w_st w_count w_plan w_trace w_stderr w_saved]; rewrite map_app; auto. }
      destruct Hc as [H1 [H2 [H3 H4]]]. destruct (IH _ H1) as [I1 [I2 I3]].
      cbn zeta. rewrite I1, I2, H2, H3, H4.
      change (Chmod f (N.ldiff m 73) :: ?r) with ([Chmod f (N.ldiff m 73)] ++ r).
      rewrite exec_app, <- app_assoc. auto.
    + destruct (Bool.eqb (w_saved w) b).
      * destruct (Hsave f new) as [H1 [H2 [H3 H4]]]. destruct (IH _ H1) as [I1 [I2 I3]].
        cbn zeta. rewrite I1, I2, H2, H3, H4, exec_app, <- app_assoc. auto.
      * apply IH. exact Hp.
Qed.

Theorem run_is_prog_ops : forall (s : state) (prog : list action),
  let w := run prog (init_world s None) in
  w_st w = exec (prog_ops s prog) s /\ map fst (w_trace w) = prog_ops s prog.
Proof.
  intros s prog. destruct (run_nofault prog (init_world s None) eq_refl) as [H1 [H2 _]].
  cbn zeta. split; [exact H1|exact H2].
Qed.
