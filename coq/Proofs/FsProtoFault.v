(* C05: one failing system call.  The Go-like program `run` (Model/FsProto.v),
   with a fault plan, against the crash specification. *)
From PV Require Import Lib.Bytes Model.FsProto Spec.CrashSpec Proofs.FsProto.
Open Scope N_scope.

(* ---------- the four steps of a save as equations on `step` ---------- *)

Lemma step_open_eq s f :
  step s (Open 0 (tmp_name f) 438) = (exec [Open 0 (tmp_name f) 438] s, None).
Proof. reflexivity. Qed.

Lemma step_write_eq s f d :
  step (exec [Open 0 (tmp_name f) 438] s) (Write 0 d) = (st_written s f d, None).
Proof.
  rewrite exec_open. cbn [step st_fds st_fs st_umask].
  rewrite fd_lookup_set_eq, lookup_set_eq. reflexivity.
Qed.

(* ---------- does the plan fire at the next system call ---------- *)

Definition fires (w : world) : option fault :=
  match w_plan w with
  | Some (k, fl) => if Nat.eqb k (w_count w) then Some fl else None
  | None => None
  end.

Lemma sys_unfold o w :
  sys o w =
  match fires w with
  | Some fl =>
    (mkworld (step_fault (w_st w) o fl) (S (w_count w)) (w_plan w)
             (w_trace w ++ [(o, Some (fl_errno fl))]) (w_stderr w) (w_saved w), Some (fl_errno fl))
  | None =>
    (mkworld (fst (step (w_st w) o)) (S (w_count w)) (w_plan w)
             (w_trace w ++ [(o, snd (step (w_st w) o))]) (w_stderr w) (w_saved w), snd (step (w_st w) o))
  end.
Proof.
  unfold sys, fires. destruct (w_plan w) as [[k fl]|].
  - destruct (Nat.eqb k (w_count w)); [reflexivity|]. destruct (step (w_st w) o); reflexivity.
  - destruct (step (w_st w) o); reflexivity.
Qed.

Lemma fires_some w fl : fires w = Some fl -> w_plan w = Some (w_count w, fl).
Proof.
  unfold fires. destruct (w_plan w) as [[k fl']|]; [|discriminate].
  destruct (Nat.eqb k (w_count w)) eqn:E; [|discriminate].
  apply Nat.eqb_eq in E. intro H. inversion H. subst. reflexivity.
Qed.

Lemma fires_none w k fl : fires w = None -> w_plan w = Some (k, fl) -> k <> w_count w.
Proof.
  unfold fires. intros H Hp. rewrite Hp in H.
  destruct (Nat.eqb k (w_count w)) eqn:E; [discriminate|]. apply Nat.eqb_neq in E. exact E.
Qed.

(* ---------- what one action does to the world ---------- *)

(* either the action runs undisturbed, or exactly one of its system calls fails;
   then only the temporary file may have changed, one ERROR line names it, and
   the plan is used up *)
Record clean_save (f : path) (new : str) (w w' : world) : Prop := {
  cs_st : w_st w' = exec (save_ops f new) (w_st w);
  cs_count : w_count w' = (w_count w + 4)%nat;
  cs_err : w_stderr w' = w_stderr w;
  cs_saved : w_saved w' = true;
  cs_trace : map fst (w_trace w') = map fst (w_trace w) ++ save_ops f new;
  cs_results : forall x, In x (skipn (length (w_trace w)) (w_trace w')) -> snd x = None;
  cs_plan : forall k fl, w_plan w = Some (k, fl) -> (k < w_count w \/ w_count w + 4 <= k)%nat
}.

Record failed_action (loc : path) (untouched : path -> Prop) (w w' : world) : Prop := {
  fa_fs : forall p, untouched p -> lookup p (st_fs (w_st w')) = lookup p (st_fs (w_st w));
  fa_err : exists kind, w_stderr w' = w_stderr w ++ [(kind, loc)];
  fa_saved : w_saved w' = w_saved w \/ w_saved w' = false;
  fa_plan : exists k fl, w_plan w = Some (k, fl) /\ (w_count w <= k < w_count w')%nat
}.

Lemma save_one_cases w f new :
  let w' := save_one f new w in
  w_plan w' = w_plan w /\ (w_count w < w_count w' <= w_count w + 4)%nat /\
  (clean_save f new w w' \/
   (failed_action (tmp_name f) (fun p => p <> tmp_name f) w w' /\ w_saved w' = false)).
Proof.
  destruct w as [st c plan tr err sv].
  unfold save_one, write_file, set_saved. cbn [w_st w_count w_plan w_trace w_stderr w_saved].
  (* open *)
  rewrite sys_unfold. cbn [w_st w_count w_plan w_trace w_stderr w_saved].
  destruct (fires (mkworld st c plan tr err false)) as [fl|] eqn:F0.
  { apply fires_some in F0. cbn in F0. cbn [tech_error w_st w_count w_plan w_trace w_stderr w_saved step_fault].
    split; [reflexivity|]. split; [lia|]. right. split; [|reflexivity]. constructor; cbn.
    - reflexivity.
    - eexists. reflexivity.
    - right. reflexivity.
    - exists c, fl. split; [exact F0|lia]. }
  rewrite step_open_eq. cbn [fst snd].
  (* write *)
  rewrite sys_unfold. cbn [w_st w_count w_plan w_trace w_stderr w_saved].
  destruct (fires (mkworld (exec [Open 0 (tmp_name f) 438] st) (S c) plan _ err false)) as [fl|] eqn:F1.
  { apply fires_some in F1. cbn in F1.
    rewrite sys_unfold. cbn [w_st w_count w_plan w_trace w_stderr w_saved].
    assert (F2 : fires (mkworld (step_fault (exec [Open 0 (tmp_name f) 438] st) (Write 0 new) fl) (S (S c)) plan
                  ((tr ++ [(Open 0 (tmp_name f) 438, None)]) ++ [(Write 0 new, Some (fl_errno fl))]) err false) = None).
    { unfold fires. cbn. rewrite F1. rewrite (proj2 (Nat.eqb_neq _ _)) by lia. reflexivity. }
    rewrite F2. cbn [step_fault]. rewrite step_write_eq. cbn [fst]. rewrite step_close. cbn [fst snd].
    cbn [tech_error w_st w_count w_plan w_trace w_stderr w_saved].
    split; [reflexivity|]. split; [lia|]. right. split; [|reflexivity]. constructor; cbn.
    - intros p Hp. apply lookup_written_other. exact Hp.
    - eexists. reflexivity.
    - right. reflexivity.
    - exists (S c), fl. split; [exact F1|lia]. }
  rewrite step_write_eq. cbn [fst snd].
  (* close *)
  rewrite sys_unfold. cbn [w_st w_count w_plan w_trace w_stderr w_saved].
  destruct (fires (mkworld (st_written st f new) (S (S c)) plan _ err false)) as [fl|] eqn:F2.
  { apply fires_some in F2. cbn in F2. cbn [step_fault]. rewrite step_close. cbn [fst].
    cbn [tech_error w_st w_count w_plan w_trace w_stderr w_saved].
    split; [reflexivity|]. split; [lia|]. right. split; [|reflexivity]. constructor; cbn.
    - intros p Hp. apply lookup_written_other. exact Hp.
    - eexists. reflexivity.
    - right. reflexivity.
    - exists (S (S c)), fl. split; [exact F2|lia]. }
  rewrite step_close. cbn [fst snd].
  (* rename *)
  rewrite sys_unfold. cbn [w_st w_count w_plan w_trace w_stderr w_saved].
  destruct (fires (mkworld (st_closed st f new) (S (S (S c))) plan _ err false)) as [fl|] eqn:F3.
  { apply fires_some in F3. cbn in F3. cbn [step_fault].
    cbn [tech_error w_st w_count w_plan w_trace w_stderr w_saved].
    split; [reflexivity|]. split; [lia|]. right. split; [|reflexivity]. constructor; cbn.
    - intros p Hp. apply lookup_written_other. exact Hp.
    - eexists. reflexivity.
    - right. reflexivity.
    - exists (S (S (S c))), fl. split; [exact F3|lia]. }
  rewrite step_rename. cbn [fst snd set_saved w_st w_count w_plan w_trace w_stderr w_saved].
  split; [reflexivity|]. split; [lia|]. left. constructor; cbn [w_st w_count w_plan w_trace w_stderr w_saved].
  - symmetry. apply exec_save.
  - lia.
  - reflexivity.
  - reflexivity.
  - rewrite !map_app. cbn. rewrite <- !app_assoc. reflexivity.
  - intros x Hx. rewrite <- !app_assoc in Hx. rewrite skipn_app, skipn_all, Nat.sub_diag in Hx.
    cbn in Hx. destruct Hx as [<-|[<-|[<-|[<-|[]]]]]; reflexivity.
  - intros k fl Hp. subst plan.
    pose proof (fires_none _ k fl F0 eq_refl) as N0. pose proof (fires_none _ k fl F1 eq_refl) as N1.
    pose proof (fires_none _ k fl F2 eq_refl) as N2. pose proof (fires_none _ k fl F3 eq_refl) as N3.
    cbn in N0, N1, N2, N3. lia.
Qed.

Lemma content_chmod s f m p :
  content (st_fs (fst (step s (Chmod f m)))) p = content (st_fs s) p.
Proof.
  cbn [step]. destruct (lookup f (st_fs s)) as [f0|] eqn:El; [|reflexivity]. cbn [fst st_fs].
  unfold content. destruct (str_eqb p f) eqn:E.
  - apply str_eqb_spec in E. subst p. rewrite lookup_set_eq, El. reflexivity.
  - rewrite lookup_set_neq; [reflexivity|]. intro; subst. rewrite str_eqb_refl in E. discriminate.
Qed.

(* the mode fix: one system call; contents never change; an ERROR line exactly
   when the call failed (injected, or the file does not exist) *)
Lemma chmod_fix_cases w f mode :
  let w' := chmod_fix f mode w in
  w_plan w' = w_plan w /\ w_count w' = S (w_count w) /\ w_saved w' = w_saved w /\
  (forall p, content (st_fs (w_st w')) p = content (st_fs (w_st w)) p) /\
  ((fires w = None /\ w_st w' = fst (step (w_st w) (Chmod f (N.ldiff mode 73))) /\
    (snd (step (w_st w) (Chmod f (N.ldiff mode 73))) = None -> w_stderr w' = w_stderr w) /\
    exists extra, w_stderr w' = w_stderr w ++ extra) \/
   (exists fl, fires w = Some fl /\ w_st w' = w_st w /\ w_stderr w' = w_stderr w ++ [(CannotClearExec, f)])).
Proof.
  unfold chmod_fix. rewrite sys_unfold. destruct (fires w) as [fl|] eqn:F.
  - cbn [tech_error w_st w_count w_plan w_trace w_stderr w_saved step_fault].
    repeat split; try reflexivity. right. exists fl. repeat split; reflexivity.
  - destruct (snd (step (w_st w) (Chmod f (N.ldiff mode 73)))) as [e|] eqn:R;
      cbn [tech_error w_st w_count w_plan w_trace w_stderr w_saved].
    + repeat split; try reflexivity; [intro p; apply content_chmod|].
      left. repeat split; try reflexivity; [discriminate|]. eexists. reflexivity.
    + repeat split; try reflexivity; [intro p; apply content_chmod|].
      left. repeat split; try reflexivity. exists []. rewrite app_nil_r. reflexivity.
Qed.

(* ---------- summary of one action, as needed by the induction ---------- *)

Definition fired_in (w w' : world) : Prop :=
  exists k fl, w_plan w = Some (k, fl) /\ (w_count w <= k < w_count w')%nat.

Record action_sum (D : path -> Prop) (a : action) (w w' : world) : Prop := {
  as_plan : w_plan w' = w_plan w;
  as_count : (w_count w <= w_count w')%nat;
  as_rel : forall p, D p -> ok_rel [a] p (content (st_fs (w_st w)) p) (content (st_fs (w_st w')) p);
  as_err : exists extra, w_stderr w' = w_stderr w ++ extra /\ (fired_in w w' -> extra <> []);
  as_untouched : fired_in w w' -> forall p, D p -> content (st_fs (w_st w')) p = content (st_fs (w_st w)) p
}.

Lemma save_sum (D : path -> Prop) f new w b :
  (forall p, D p -> p <> tmp_name f) ->
  action_sum D (ASave f new) w (save_one f new w) /\ action_sum D (AIfSaved b f new) w (save_one f new w).
Proof.
  intro HD. destruct (save_one_cases w f new) as [Hp [Hc [C|[F Fs]]]].
  - assert (Hnf : ~ fired_in w (save_one f new w)).
    { intros [k [fl [Hpl Hk]]]. destruct (cs_plan _ _ _ _ C k fl Hpl); rewrite (cs_count _ _ _ _ C) in Hk; lia. }
    split; constructor; try exact Hp; try lia;
      try (intros p Hd; rewrite (cs_st _ _ _ _ C);
           apply (save_crash_ok (w_st w) f new _ p b (crash_of_full _) (HD p Hd)));
      try (exists []; split; [rewrite app_nil_r; apply (cs_err _ _ _ _ C)|intro; contradiction]);
      try (intro; contradiction).
  - assert (Hu : forall p, D p -> content (st_fs (w_st (save_one f new w))) p = content (st_fs (w_st w)) p).
    { intros p Hd. unfold content. rewrite (fa_fs _ _ _ _ F p (HD p Hd)). reflexivity. }
    destruct (fa_err _ _ _ _ F) as [kind He].
    split; constructor; try exact Hp; try lia;
      try (intros p Hd; rewrite (Hu p Hd); apply ok_rel_refl);
      try (eexists; split; [exact He|intros _; discriminate]);
      try (intros _; exact Hu).
Qed.

Lemma chmod_sum (D : path -> Prop) f mode w : action_sum D (AChmod f mode) w (chmod_fix f mode w).
Proof.
  destruct (chmod_fix_cases w f mode) as [Hp [Hc [Hs [Hcont Hcase]]]].
  constructor; try exact Hp; try lia.
  - intros p _. rewrite Hcont. apply ok_rel_refl.
  - destruct Hcase as [[Fn [_ [_ [extra He]]]]|[fl [Fs [_ He]]]].
    + exists extra. split; [exact He|]. intros [k [fl [Hpl Hk]]].
      exfalso. apply (fires_none w k fl Fn Hpl). lia.
    + eexists. split; [exact He|]. intros _. discriminate.
  - intros _ p _. apply Hcont.
Qed.

Lemma skip_sum (D : path -> Prop) a w : action_sum D a w w.
Proof.
  constructor; try reflexivity; try lia.
  - intros p _. apply ok_rel_refl.
  - exists []. split; [rewrite app_nil_r; reflexivity|]. intros [k [fl [_ Hk]]]. lia.
Qed.

Lemma run_action_sum (D : path -> Prop) a w :
  (forall f, In f (saved_paths [a]) -> forall p, D p -> p <> tmp_name f) ->
  action_sum D a w (run_action w a).
Proof.
  intro HD. destruct a as [f new|f m|b f new]; cbn [run_action].
  - apply (save_sum D f new w true). intros p Hd. apply (HD f); [left; reflexivity|exact Hd].
  - apply chmod_sum.
  - destruct (Bool.eqb (w_saved w) b).
    + apply (save_sum D f new w b). intros p Hd. apply (HD f); [left; reflexivity|exact Hd].
    + apply skip_sum.
Qed.

(* ---------- the whole run ---------- *)

Lemma run_cons a prog w : run (a :: prog) w = run prog (run_action w a).
Proof. reflexivity. Qed.

Lemma run_app p1 p2 w : run (p1 ++ p2) w = run p2 (run p1 w).
Proof. unfold run. apply fold_left_app. Qed.

Lemma saved_paths_app a b : saved_paths (a ++ b) = saved_paths a ++ saved_paths b.
Proof. induction a as [|[f n|f m|c f n] a IH]; simpl; congruence. Qed.

Lemma run_sum (D : path -> Prop) prog : forall w,
  (forall f, In f (saved_paths prog) -> forall p, D p -> p <> tmp_name f) ->
  w_plan (run prog w) = w_plan w /\ (w_count w <= w_count (run prog w))%nat /\
  (forall p, D p -> ok_rel prog p (content (st_fs (w_st w)) p) (content (st_fs (w_st (run prog w))) p)) /\
  (exists extra, w_stderr (run prog w) = w_stderr w ++ extra /\ (fired_in w (run prog w) -> extra <> [])).
Proof.
  induction prog as [|a prog IH]; intros w HD.
  - cbn [run fold_left]. split; [reflexivity|]. split; [lia|]. split; [intros; apply ok_rel_refl|].
    exists []. split; [rewrite app_nil_r; reflexivity|]. intros [k [fl [_ Hk]]]. lia.
  - rewrite run_cons.
    assert (HDa : forall f, In f (saved_paths [a]) -> forall p, D p -> p <> tmp_name f).
    { intros f Hf. apply HD. change (a :: prog) with ([a] ++ prog). rewrite saved_paths_app. apply in_or_app. left. exact Hf. }
    assert (HDp : forall f, In f (saved_paths prog) -> forall p, D p -> p <> tmp_name f).
    { intros f Hf. apply HD. change (a :: prog) with ([a] ++ prog). rewrite saved_paths_app. apply in_or_app. right. exact Hf. }
    pose proof (run_action_sum D a w HDa) as A.
    destruct (IH (run_action w a) HDp) as [Ip [Ic [Ir [ex2 [Ie If]]]]].
    destruct (as_err _ _ _ _ A) as [ex1 [Ae Af]].
    split; [rewrite Ip; apply (as_plan _ _ _ _ A)|].
    split; [pose proof (as_count _ _ _ _ A); lia|].
    split.
    + intros p Hd. change (a :: prog) with ([a] ++ prog).
      apply (ok_rel_trans [a] prog p _ _ _ (as_rel _ _ _ _ A p Hd) (Ir p Hd)).
    + exists (ex1 ++ ex2). split; [rewrite Ie, Ae, app_assoc; reflexivity|].
      intros [k [fl [Hpl Hk]]].
      destruct (Nat.lt_ge_cases k (w_count (run_action w a))) as [Hlt|Hge].
      * assert (ex1 <> []) by (apply Af; exists k, fl; split; [exact Hpl|lia]).
        destruct ex1; [contradiction|discriminate].
      * assert (ex2 <> []).
        { apply If. exists k, fl. split; [rewrite (as_plan _ _ _ _ A); exact Hpl|lia]. }
        destruct ex1; [exact H|discriminate].
Qed.

(* ---------- after the plan has fired, the rest runs as without a plan ---------- *)

Definition clear_plan (w : world) : world :=
  mkworld (w_st w) (w_count w) None (w_trace w) (w_stderr w) (w_saved w).

Definition spent (w : world) : Prop :=
  match w_plan w with Some (k, _) => (k < w_count w)%nat | None => True end.

Lemma spent_fires w : spent w -> fires w = None.
Proof.
  unfold spent, fires. destruct (w_plan w) as [[k fl]|]; [|reflexivity].
  intro H. rewrite (proj2 (Nat.eqb_neq _ _)) by lia. reflexivity.
Qed.

Lemma sys_clear o w : spent w ->
  sys o (clear_plan w) = (clear_plan (fst (sys o w)), snd (sys o w)) /\ spent (fst (sys o w)).
Proof.
  intro H. rewrite !sys_unfold. rewrite (spent_fires w H).
  assert (E : fires (clear_plan w) = None) by reflexivity. rewrite E.
  split; [reflexivity|]. cbn [fst]. unfold spent in *. cbn [w_plan w_count].
  destruct (w_plan w) as [[k fl]|]; [lia|exact I].
Qed.

Lemma write_file_clear name data perm w : spent w ->
  write_file name data perm (clear_plan w) =
    (clear_plan (fst (write_file name data perm w)), snd (write_file name data perm w)) /\
  spent (fst (write_file name data perm w)).
Proof.
  intro H. unfold write_file.
  destruct (sys_clear (Open 0 name perm) w H) as [C1 S1]. rewrite C1.
  destruct (sys (Open 0 name perm) w) as [w1 [e|]]; cbn [fst snd] in *.
  - split; [reflexivity|exact S1].
  - destruct (sys_clear (Write 0 data) w1 S1) as [C2 S2]. rewrite C2.
    destruct (sys (Write 0 data) w1) as [w2 err]; cbn [fst snd] in *.
    destruct (sys_clear (Close 0) w2 S2) as [C3 S3]. rewrite C3.
    destruct (sys (Close 0) w2) as [w3 err1]; cbn [fst snd] in *.
    split; [reflexivity|exact S3].
Qed.

Lemma save_one_clear f new w : spent w ->
  save_one f new (clear_plan w) = clear_plan (save_one f new w) /\ spent (save_one f new w).
Proof.
  intro H. unfold save_one.
  assert (H0 : spent (set_saved false w)) by exact H.
  change (set_saved false (clear_plan w)) with (clear_plan (set_saved false w)).
  destruct (write_file_clear (tmp_name f) new 438 _ H0) as [C1 S1]. rewrite C1.
  destruct (write_file (tmp_name f) new 438 (set_saved false w)) as [w1 [e|]]; cbn [fst snd] in *.
  - split; [reflexivity|exact S1].
  - destruct (sys_clear (Rename (tmp_name f) f) w1 S1) as [C2 S2]. rewrite C2.
    destruct (sys (Rename (tmp_name f) f) w1) as [w2 [e|]]; cbn [fst snd] in *.
    + split; [reflexivity|exact S2].
    + split; [reflexivity|exact S2].
Qed.

Lemma run_action_clear a w : spent w ->
  run_action (clear_plan w) a = clear_plan (run_action w a) /\ spent (run_action w a).
Proof.
  intro H. destruct a as [f new|f m|b f new]; cbn [run_action].
  - apply save_one_clear. exact H.
  - unfold chmod_fix. destruct (sys_clear (Chmod f (N.ldiff m 73)) w H) as [C1 S1]. rewrite C1.
    destruct (sys (Chmod f (N.ldiff m 73)) w) as [w1 [e|]]; cbn [fst snd] in *;
      (split; [reflexivity|exact S1]).
  - change (w_saved (clear_plan w)) with (w_saved w). destruct (Bool.eqb (w_saved w) b).
    + apply save_one_clear. exact H.
    + split; [reflexivity|exact H].
Qed.

Lemma run_clear prog : forall w, spent w -> run prog (clear_plan w) = clear_plan (run prog w).
Proof.
  induction prog as [|a prog IH]; intros w H; [reflexivity|].
  rewrite !run_cons. destruct (run_action_clear a w H) as [C S]. rewrite C. apply IH. exact S.
Qed.

(* ---------- the theorems ---------- *)

Definition orig (init : fsmap) (p : path) : Prop := exists f0, lookup p init = Some f0.

(* (1) old-or-new for every original file, whatever single system call fails and
   whatever it leaves behind; (2) if a call did fail, stderr has an ERROR line *)
Theorem fault_atomic : forall (s : state) (prog : list action) (k : nat) (fl : fault),
  tmp_free (st_fs s) prog ->
  let w := run prog (init_world s (Some (k, fl))) in
  atomic_at (st_fs s) prog (st_fs (w_st w)) /\
  ((k < w_count w)%nat -> w_stderr w <> []).
Proof.
  intros s prog k fl Hfree w.
  destruct (run_sum (orig (st_fs s)) prog (init_world s (Some (k, fl))) (tmp_free_D _ _ Hfree))
    as [_ [_ [Hr [extra [He Hf]]]]].
  fold w in Hr, He, Hf. split.
  - intros p f0 Hl. pose proof (Hr p (ex_intro _ f0 Hl)) as H. cbn [init_world w_st] in H.
    unfold content in H. rewrite Hl in H. cbn [option_map] in H.
    destruct (lookup p (st_fs (w_st w))) as [f1|] eqn:E; cbn [option_map] in H.
    + exists f1. split; [reflexivity|]. destruct H as [H|[v [Hv H]]].
      * left. congruence.
      * right. congruence.
    + destruct H as [H|[v [_ H]]]; discriminate.
  - intro Hk. cbn [init_world w_stderr] in He. rewrite He. cbn [app].
    apply Hf. exists k, fl. split; [reflexivity|]. cbn [init_world w_count]. lia.
Qed.

(* (3) the action during which the call fails leaves every original file as it
   was before that action, and (4) everything after it runs exactly as it would
   without any fault plan: later files are still processed *)
Theorem fault_local : forall (s : state) (pre post : list action) (a : action) (k : nat) (fl : fault),
  tmp_free (st_fs s) (pre ++ a :: post) ->
  let w1 := run pre (init_world s (Some (k, fl))) in
  let w2 := run_action w1 a in
  (w_count w1 <= k < w_count w2)%nat ->
  (forall p, orig (st_fs s) p -> content (st_fs (w_st w2)) p = content (st_fs (w_st w1)) p) /\
  clear_plan (run (pre ++ a :: post) (init_world s (Some (k, fl)))) = run post (clear_plan w2).
Proof.
  intros s pre post a k fl Hfree w1 w2 Hk.
  assert (HDa : forall f, In f (saved_paths [a]) -> forall p, orig (st_fs s) p -> p <> tmp_name f).
  { intros f Hf. apply (tmp_free_D _ _ Hfree). rewrite saved_paths_app. apply in_or_app. right.
    change (a :: post) with ([a] ++ post). rewrite saved_paths_app. apply in_or_app. left. exact Hf. }
  assert (HDpre : forall f, In f (saved_paths pre) -> forall p, orig (st_fs s) p -> p <> tmp_name f).
  { intros f Hf. apply (tmp_free_D _ _ Hfree). rewrite saved_paths_app. apply in_or_app. left. exact Hf. }
  destruct (run_sum (orig (st_fs s)) pre (init_world s (Some (k, fl))) HDpre) as [Hp1 _].
  fold w1 in Hp1. cbn [init_world w_plan] in Hp1.
  pose proof (run_action_sum (orig (st_fs s)) a w1 HDa) as A. fold w2 in A.
  assert (Hfired : fired_in w1 w2) by (exists k, fl; split; [exact Hp1|exact Hk]).
  split.
  - apply (as_untouched _ _ _ _ A Hfired).
  - rewrite run_app, run_cons. fold w1. fold w2. symmetry. apply run_clear.
    unfold spent. rewrite (as_plan _ _ _ _ A), Hp1. lia.
Qed.

(* ---------- without a fault the program issues exactly prog_ops ---------- *)

Lemma run_nofault prog : forall w,
  w_plan w = None ->
  let w' := run prog w in
  w_st w' = exec (prog_ops_from (w_saved w) prog) (w_st w) /\
  map fst (w_trace w') = map fst (w_trace w) ++ prog_ops_from (w_saved w) prog /\
  w_plan w' = None.
Proof.
  induction prog as [|a prog IH]; intros w Hp.
  - cbn. rewrite app_nil_r. auto.
  - rewrite run_cons.
    assert (Hsave : forall f new, let w1 := save_one f new w in
              w_plan w1 = None /\ w_saved w1 = true /\ w_st w1 = exec (save_ops f new) (w_st w) /\
              map fst (w_trace w1) = map fst (w_trace w) ++ save_ops f new).
    { intros f new. destruct (save_one_cases w f new) as [Hp' [_ [C|[F _]]]].
      - cbn zeta. rewrite Hp', Hp. split; [reflexivity|]. split; [apply (cs_saved _ _ _ _ C)|].
        split; [apply (cs_st _ _ _ _ C)|apply (cs_trace _ _ _ _ C)].
      - destruct (fa_plan _ _ _ _ F) as [k [fl [Hk _]]]. rewrite Hp in Hk. discriminate. }
    destruct a as [f new|f m|b f new]; cbn [run_action prog_ops_from].
    + destruct (Hsave f new) as [H1 [H2 [H3 H4]]]. destruct (IH _ H1) as [I1 [I2 I3]].
      cbn zeta. rewrite I1, I2, H2, H3, H4, exec_app, <- app_assoc. auto.
    + assert (Hc : w_plan (chmod_fix f m w) = None /\ w_saved (chmod_fix f m w) = w_saved w /\
                   w_st (chmod_fix f m w) = exec [Chmod f (N.ldiff m 73)] (w_st w) /\
                   map fst (w_trace (chmod_fix f m w)) = map fst (w_trace w) ++ [Chmod f (N.ldiff m 73)]).
      { unfold chmod_fix. rewrite sys_unfold. unfold fires. rewrite Hp.
        destruct (snd (step (w_st w) (Chmod f (N.ldiff m 73))));
          cbn [tech_error w_st w_count w_plan w_trace w_stderr w_saved]; rewrite map_app; auto. }
      destruct Hc as [H1 [H2 [H3 H4]]]. destruct (IH _ H1) as [I1 [I2 I3]].
      cbn zeta. rewrite I1, I2, H2, H3, H4. change (Chmod f (N.ldiff m 73) :: prog_ops_from (w_saved w) prog)
        with ([Chmod f (N.ldiff m 73)] ++ prog_ops_from (w_saved w) prog).
      rewrite exec_app, <- app_assoc. auto.
    + destruct (Bool.eqb (w_saved w) b).
      * destruct (Hsave f new) as [H1 [H2 [H3 H4]]]. destruct (IH _ H1) as [I1 [I2 I3]].
        cbn zeta. rewrite I1, I2, H2, H3, H4, exec_app, <- app_assoc. auto.
      * apply IH. exact Hp.
Qed.

Theorem run_is_prog_ops : forall (s : state) (prog : list action),
  let w := run prog (init_world s None) in
  w_st w = exec (prog_ops prog) s /\ map fst (w_trace w) = prog_ops prog.
Proof.
  intros s prog. destruct (run_nofault prog (init_world s None) eq_refl) as [H1 [H2 _]].
  cbn zeta. split; [exact H1|exact H2].
Qed.
