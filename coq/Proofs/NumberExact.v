(* number_exact: the automaton literal of makepat.Number() (regenerated into
   Gen/NumberAutomaton.v) accepts exactly the words of Spec/CNumber.v.

   A finite set R of pairs (regular expression, set of active automaton states)
   is computed; a boolean check, evaluated by vm_compute on the regenerated
   table, says that R contains the initial pair and is closed under every byte
   0..255 and under "any byte >= 256" (represented by 256), with matching
   acceptance.  The check is then lifted to all words by induction. *)
From PV Require Import Lib.Bytes Gen.NumberAutomaton Model.Makepat Spec.CNumber Proofs.CNumberRe.
From Coq Require Import ZifyBool ZifyN.
Open Scope N_scope.

(* ---------- decidable equalities ---------- *)

Fixpoint re_eqb (a b : re) : bool :=
  match a, b with
  | Empty, Empty => true
  | Eps, Eps => true
  | Chr l1 h1, Chr l2 h2 => (l1 =? l2) && (h1 =? h2)
  | Alt a1 a2, Alt b1 b2 => re_eqb a1 b1 && re_eqb a2 b2
  | Cat a1 a2, Cat b1 b2 => re_eqb a1 b1 && re_eqb a2 b2
  | Star a1, Star b1 => re_eqb a1 b1
  | _, _ => false
  end.

Lemma re_eqb_eq a b : re_eqb a b = true -> a = b.
Proof.
  revert b; induction a; intros [] H; simpl in H; try discriminate; try reflexivity.
  - apply andb_true_iff in H as [H1 H2]. apply N.eqb_eq in H1, H2. congruence.
  - apply andb_true_iff in H as [H1 H2]. f_equal; auto.
  - apply andb_true_iff in H as [H1 H2]. f_equal; auto.
  - f_equal; auto.
Qed.

Fixpoint lb_eqb (a b : list bool) : bool :=
  match a, b with
  | [], [] => true
  | x :: a', y :: b' => Bool.eqb x y && lb_eqb a' b'
  | _, _ => false
  end.

Lemma lb_eqb_eq a b : lb_eqb a b = true -> a = b.
Proof.
  revert b; induction a as [|x a IH]; intros [|y b] H; simpl in H; try discriminate; try reflexivity.
  apply andb_true_iff in H as [H1 H2]. apply Bool.eqb_prop in H1. f_equal; auto.
Qed.

Definition pair_eqb (p q : re * list bool) : bool := re_eqb (fst p) (fst q) && lb_eqb (snd p) (snd q).

Lemma pair_eqb_eq p q : pair_eqb p q = true -> p = q.
Proof.
  destruct p, q. unfold pair_eqb; simpl. intro H. apply andb_true_iff in H as [H1 H2].
  apply re_eqb_eq in H1. apply lb_eqb_eq in H2. congruence.
Qed.

Definition mem (p : re * list bool) (l : list (re * list bool)) : bool := existsb (pair_eqb p) l.

Lemma mem_In p l : mem p l = true -> In p l.
Proof.
  unfold mem. intro H. apply existsb_exists in H as (q & Hq & E). apply pair_eqb_eq in E. subst. exact Hq.
Qed.

(* ---------- bytes >= 256 behave like 256 ---------- *)

Fixpoint re_small (r : re) : bool :=
  match r with
  | Chr _ hi => hi <=? 255
  | Alt a b | Cat a b => re_small a && re_small b
  | Star a => re_small a
  | _ => true
  end.

Lemma deriv_big c r : re_small r = true -> 256 <= c -> deriv c r = deriv 256 r.
Proof.
  intros Hs Hc. induction r; simpl in *; try reflexivity.
  - assert ((c <=? hi) = false) by lia. assert ((256 <=? hi) = false) by lia.
    rewrite H, H0, !andb_false_r. reflexivity.
  - apply andb_true_iff in Hs as [H1 H2]. rewrite IHr1, IHr2 by assumption. reflexivity.
  - apply andb_true_iff in Hs as [H1 H2]. rewrite IHr1, IHr2 by assumption. reflexivity.
  - rewrite IHr by assumption. reflexivity.
Qed.

Definition trans_small (a : pattern) : bool :=
  forallb (fun st => forallb (fun t => tmax t <=? 255) (trans st)) a.

Lemma fires_big c t : tmax t <=? 255 = true -> 256 <= c -> fires c t = fires 256 t.
Proof. intros H Hc. unfold fires. assert ((c <=? tmax t) = false) by lia. assert ((256 <=? tmax t) = false) by lia.
  rewrite H0, H1, !andb_false_r. reflexivity. Qed.

Lemma step_trans_big c ts : forallb (fun t => tmax t <=? 255) ts = true -> 256 <= c ->
  forall next ok, step_trans ts c next ok = step_trans ts 256 next ok.
Proof.
  intros Hs Hc. induction ts as [|t ts IH]; intros next ok; simpl; [reflexivity|].
  simpl in Hs. apply andb_true_iff in Hs as [H1 H2].
  rewrite (fires_big c t H1 Hc). destruct (fires 256 t).
  - destruct (set_true next (tto t)); [apply IH; exact H2|reflexivity].
  - apply IH; exact H2.
Qed.

Lemma step_all_big c sts : trans_small sts = true -> 256 <= c ->
  forall curr next ok, step_all sts curr c next ok = step_all sts curr 256 next ok.
Proof.
  intros Hs Hc. induction sts as [|st sts IH]; intros curr next ok; simpl; [reflexivity|].
  unfold trans_small in Hs. simpl in Hs. apply andb_true_iff in Hs as [H1 H2].
  destruct curr as [|b curr]; [reflexivity|]. destruct b.
  - rewrite (step_trans_big c _ H1 Hc). destruct (step_trans (trans st) 256 next ok) as [[n o]|]; [|reflexivity].
    apply IH; exact H2.
  - apply IH; exact H2.
Qed.

(* ---------- the closure ---------- *)

Definition nstep (curr : list bool) (c : N) : option (list bool * bool) :=
  step_all number curr c (zeros_like false number) false.

(* 0, 1, ..., 256 *)
Fixpoint upto (n : nat) : list N :=
  match n with O => [0] | S k => upto k ++ [N.of_nat n] end.
Definition sweep : list N := upto 256.

Lemma sweep_complete c : c <= 256 -> In c sweep.
Proof.
  intro H. unfold sweep.
  assert (G : forall n, c <= N.of_nat n -> In c (upto n)).
  { induction n as [|n IH]; intro Hn.
    - left. simpl in Hn. lia.
    - simpl upto. apply in_or_app. destruct (N.eq_dec c (N.of_nat (S n))) as [->|Hne].
      + right. left. reflexivity.
      + left. apply IH. lia. }
  apply G. simpl. lia.
Qed.

Definition succs (p : re * list bool) : list (re * list bool) :=
  flat_map (fun c => match nstep (snd p) c with
                     | Some (next, _) => [(deriv c (fst p), next)]
                     | None => []
                     end) sweep.

Fixpoint add_new (ps seen : list (re * list bool)) : list (re * list bool) :=
  match ps with
  | [] => seen
  | p :: ps' => if mem p seen then add_new ps' seen else add_new ps' (seen ++ [p])
  end.

(* breadth-first: [seen] grows until a round adds nothing *)
Fixpoint explore (fuel : nat) (seen : list (re * list bool)) : list (re * list bool) :=
  match fuel with
  | O => seen
  | S f => let seen' := add_new (flat_map succs seen) seen in
           if Nat.eqb (length seen') (length seen) then seen else explore f seen'
  end.

Definition init_curr : list bool := true :: zeros_like false (tl number).
Definition init_pair : re * list bool := (c_number, init_curr).

Definition closed_at (R : list (re * list bool)) (p : re * list bool) : bool :=
  re_small (fst p)
  && Bool.eqb (nullable (fst p)) (any_end number (snd p))
  && forallb (fun c => match nstep (snd p) c with
                       | Some (next, ok) => mem (deriv c (fst p), next) R
                                            && (ok || re_eqb (deriv c (fst p)) Empty)
                       | None => false
                       end) sweep.

Definition closed (R : list (re * list bool)) : bool :=
  mem init_pair R && forallb (closed_at R) R && trans_small number.

(* ---------- lifting: any closed R will do ---------- *)

Definition clip (c : N) : N := if 256 <=? c then 256 else c.

Lemma clip_in_sweep c : In (clip c) sweep.
Proof. apply sweep_complete. unfold clip. destruct (256 <=? c) eqn:E; lia. Qed.

Lemma step_all_clip c sts : trans_small sts = true ->
  forall curr next ok, step_all sts curr c next ok = step_all sts curr (clip c) next ok.
Proof.
  intros H curr next ok. unfold clip. destruct (256 <=? c) eqn:E; [|reflexivity].
  apply step_all_big; [exact H|lia].
Qed.

Lemma deriv_clip c r : re_small r = true -> deriv c r = deriv (clip c) r.
Proof.
  intro H. unfold clip. destruct (256 <=? c) eqn:E; [|reflexivity]. apply deriv_big; [exact H|lia].
Qed.

Lemma closed_at_elim R r curr : closed_at R (r, curr) = true ->
  re_small r = true /\ nullable r = any_end number curr /\
  forall c, In c sweep ->
    match step_all number curr c (zeros_like false number) false with
    | Some (next, ok) => In (deriv c r, next) R /\ (ok = true \/ deriv c r = Empty)
    | None => False
    end.
Proof.
  unfold closed_at. cbn [fst snd]. intro H.
  apply andb_true_iff in H as [H Hsw]. apply andb_true_iff in H as [Hrs Hn].
  split; [exact Hrs|]. split; [apply Bool.eqb_prop; exact Hn|].
  intros c Hc. rewrite forallb_forall in Hsw. specialize (Hsw c Hc). unfold nstep in Hsw.
  destruct (step_all number curr c (zeros_like false number) false) as [[next ok]|]; [|discriminate].
  apply andb_true_iff in Hsw as [Hm Hok]. split; [apply mem_In; exact Hm|].
  destruct ok; [left; reflexivity|right; apply re_eqb_eq; exact Hok].
Qed.

Lemma closed_invariant R : closed R = true ->
  forall s p, In p R -> match_loop number (snd p) s = Ok (re_match (fst p) s).
Proof.
  unfold closed. intro HC.
  apply andb_true_iff in HC as [HC Hsmall]. apply andb_true_iff in HC as [_ HC].
  rewrite forallb_forall in HC.
  induction s as [|c s IH]; intros [r curr] Hin; cbn [fst snd match_loop re_match];
    destruct (closed_at_elim R r curr (HC _ Hin)) as (Hrs & Hn & Hsw).
  - rewrite Hn. reflexivity.
  - rewrite (step_all_clip c number Hsmall), (deriv_clip c r Hrs).
    specialize (Hsw _ (clip_in_sweep c)).
    destruct (step_all number curr (clip c) (zeros_like false number) false) as [[next ok]|];
      [|contradiction].
    destruct Hsw as [Hm [->|Hok]].
    + exact (IH _ Hm).
    + destruct ok; [exact (IH _ Hm)|]. rewrite Hok, re_match_empty. reflexivity.
Qed.

Lemma matchp_number s : matchp number s = match_loop number init_curr s.
Proof. reflexivity. Qed.

Lemma closed_number_exact R : closed R = true -> forall s : str, matchp number s = Ok (is_c_number s).
Proof.
  intros HC s. rewrite matchp_number.
  assert (Hin : In init_pair R).
  { unfold closed in HC. apply andb_true_iff in HC as [HC _]. apply andb_true_iff in HC as [HC _].
    apply mem_In; exact HC. }
  exact (closed_invariant R HC s init_pair Hin).
Qed.

(* ---------- the computation, on the regenerated table ---------- *)

Definition R : list (re * list bool) := explore 40 [init_pair].

Lemma closed_true : closed R = true.
Proof. vm_compute. reflexivity. Qed.

Theorem number_exact : forall s : str, matchp number s = Ok (is_c_number s).
Proof. exact (closed_number_exact R closed_true). Qed.

(* together with Proofs/CNumberRe.v: Number() accepts exactly the language of the grammar *)
Corollary number_lang : forall s : str, matchp number s = Ok true <-> lang c_number s.
Proof.
  intro s. rewrite number_exact. unfold is_c_number. rewrite <- re_match_spec.
  split; [intro H; injection H; auto|intros ->; reflexivity].
Qed.

Lemma c_number_is_grammar : forall s : str, is_c_number s = true <-> lang c_number s.
Proof. intro s. apply re_match_spec. Qed.
