(* C19: Clean, CleanDot and CleanPath keep the denotation. *)
From PV Require Import Lib.Bytes Model.Paths Spec.PathDenote Proofs.PathsBase.
Open Scope N_scope.

(* a real directory-entry name: not "", ".", "..", and slash-free *)
Definition good (c : str) : Prop := real_name c = true /\ noslash c.

Lemma good_names l : Forall good l -> forallb real_name l = true.
Proof. induction 1 as [|x l [H _] _ IH]; simpl; [reflexivity|]. rewrite H, IH. reflexivity. Qed.

Lemma good_noslash l : Forall good l -> Forall noslash l.
Proof. intro H. eapply Forall_impl; [|exact H]. intros a [_ Ha]; exact Ha. Qed.

Lemma good_rev l : Forall good l -> Forall good (rev l).
Proof. intro H. apply Forall_forall. intros x Hx. apply in_rev in Hx. revert x Hx. apply Forall_forall. exact H. Qed.

Lemma walk_good st l : Forall good l -> walk st l = rev l ++ st.
Proof. intro H. apply walk_names. apply good_names. exact H. Qed.

(* ---------- the state machine of path.Clean ---------- *)
Definition clean_state (p : str) : nat * list str :=
  fold_left (clean_step (rooted p)) (split_slash p) (O, []).

Lemma clean_unfold p :
  p <> [] ->
  clean p = let (dd, real) := clean_state p in
            let elems := repeat dotdot dd ++ rev real in
            if rooted p then slash :: join_slash elems
            else match elems with [] => dotstr | _ => join_slash elems end.
Proof. destruct p as [|c s]; [contradiction|]. intros _. reflexivity. Qed.

Lemma clean_step_cases rooted_ dd real c :
  noslash c ->
  (seg_is_name c = false /\ clean_step rooted_ (dd, real) c = (dd, real)) \/
  (c = dotdot /\ clean_step rooted_ (dd, real) c =
                 match real with _ :: r => (dd, r) | [] => if rooted_ then (dd, real) else (S dd, []) end) \/
  (good c /\ clean_step rooted_ (dd, real) c = (dd, c :: real)).
Proof.
  intro Hc. unfold clean_step.
  destruct (is_empty c || str_eqb c dotstr) eqn:E1.
  - left. split; [|reflexivity]. unfold seg_is_name.
    change (seg_is_empty c || seg_is_dot c = true) in E1.
    destruct (seg_is_empty c); simpl in *; [reflexivity|]. rewrite E1. reflexivity.
  - destruct (str_eqb c dotdot) eqn:E2.
    + right; left. apply str_eqb_spec in E2. subst. split; reflexivity.
    + right; right. split; [|reflexivity]. split; [|exact Hc].
      unfold real_name, seg_is_name.
      apply orb_false_iff in E1 as [E1a E1b].
      change (seg_is_empty c = false) in E1a. rewrite E1a.
      change (seg_is_dot c = false) in E1b. rewrite E1b.
      change (seg_is_dotdot c = false) in E2. rewrite E2. reflexivity.
Qed.

(* relative paths: after the elements seen so far, from any directory st the walk
   arrives at  real ++ (st with dd levels removed) *)
Lemma clean_fold_rel comps : Forall noslash comps ->
  forall dd real st, Forall good real ->
  let '(dd', real') := fold_left (clean_step false) comps (dd, real) in
  Forall good real' /\ walk (real ++ skipn dd st) comps = real' ++ skipn dd' st.
Proof.
  induction 1 as [|c comps Hc Hcs IH]; intros dd real st Hr.
  - simpl. split; [exact Hr|reflexivity].
  - cbn [fold_left]. rewrite walk_cons.
    destruct (clean_step_cases false dd real c Hc) as [[Hn ->]|[[-> ->]|[Hg ->]]].
    + rewrite walk_step_skip by exact Hn. apply IH; exact Hr.
    + rewrite walk_step_dotdot. destruct real as [|x r].
      * simpl app. rewrite tl_skipn. specialize (IH (S dd) [] st (Forall_nil _)). exact IH.
      * simpl tl. inversion Hr; subst. apply IH; assumption.
    + rewrite walk_step_name by (apply Hg).
      specialize (IH dd (c :: real) st). simpl app in IH. apply IH. constructor; assumption.
Qed.

(* rooted paths: the walk starts at the root, and ".." at the root stays there *)
Lemma clean_fold_abs comps : Forall noslash comps ->
  forall dd real, Forall good real ->
  let '(dd', real') := fold_left (clean_step true) comps (dd, real) in
  dd' = dd /\ Forall good real' /\ walk real comps = real'.
Proof.
  induction 1 as [|c comps Hc Hcs IH]; intros dd real Hr.
  - simpl. auto.
  - cbn [fold_left]. rewrite walk_cons.
    destruct (clean_step_cases true dd real c Hc) as [[Hn ->]|[[-> ->]|[Hg ->]]].
    + rewrite walk_step_skip by exact Hn. apply IH; exact Hr.
    + rewrite walk_step_dotdot. destruct real as [|x r].
      * simpl tl. apply IH; exact Hr.
      * simpl tl. inversion Hr; subst. apply IH; assumption.
    + rewrite walk_step_name by (apply Hg). apply IH. constructor; assumption.
Qed.

Lemma good_dotdot_noslash n : Forall noslash (repeat dotdot n).
Proof. induction n; simpl; constructor; [apply noslash_dotdot|assumption]. Qed.

Lemma elems_noslash dd real : Forall good real -> Forall noslash (repeat dotdot dd ++ rev real).
Proof.
  intro H. apply Forall_app. split; [apply good_dotdot_noslash|]. apply good_noslash, good_rev, H.
Qed.

Lemma walk_elems st dd real :
  Forall good real -> walk st (repeat dotdot dd ++ rev real) = real ++ skipn dd st.
Proof.
  intro H. rewrite walk_app, walk_dotdots, walk_good by (apply good_rev; exact H).
  rewrite rev_involutive. reflexivity.
Qed.

Lemma rooted_elems dd real x t :
  Forall good real -> repeat dotdot dd ++ rev real = x :: t -> rooted (join_slash (x :: t)) = false.
Proof.
  intros H E. assert (Hx : x <> [] /\ noslash x).
  { destruct dd as [|dd]; simpl in E.
    - assert (In x (rev real)) by (rewrite E; left; reflexivity).
      apply in_rev in H0. eapply Forall_forall in H; [|exact H0]. destruct H as [Hn Hs]. split; [|exact Hs].
      intros ->. discriminate.
    - inversion E; subst. split; [discriminate|apply noslash_dotdot]. }
  destruct Hx as [Hx1 Hx2]. rewrite rooted_join by exact Hx2. destruct x; [contradiction|reflexivity].
Qed.

(* the segments of clean p lead to the same place as those of p, from the same start *)
Lemma clean_rooted p : rooted (clean p) = rooted p.
Proof.
  destruct p as [|c s] eqn:Ep; [reflexivity|]. rewrite <- Ep. assert (Hne : p <> []) by (subst; discriminate).
  rewrite (clean_unfold p Hne). unfold clean_state.
  destruct (rooted p) eqn:R.
  - destruct (fold_left _ _ _) as [dd real]. reflexivity.
  - pose proof (clean_fold_rel (split_slash p) (split_noslash p) O [] [] (Forall_nil _)) as H.
    destruct (fold_left (clean_step false) (split_slash p) (O, [])) as [dd real]. destruct H as [Hg _].
    destruct (repeat dotdot dd ++ rev real) as [|x t] eqn:E; [reflexivity|].
    eapply rooted_elems; eauto.
Qed.

Lemma clean_walk p st :
  walk (if rooted p then [] else st) (segs (clean p)) = walk (if rooted p then [] else st) (segs p).
Proof.
  destruct p as [|c s] eqn:Ep; [reflexivity|]. rewrite <- Ep. assert (Hne : p <> []) by (subst; discriminate).
  rewrite (clean_unfold p Hne). unfold clean_state. rewrite (segs_split p).
  destruct (rooted p) eqn:R.
  - pose proof (clean_fold_abs (split_slash p) (split_noslash p) O [] (Forall_nil _)) as H.
    destruct (fold_left (clean_step true) (split_slash p) (O, [])) as [dd real]. destruct H as (-> & Hg & Hw).
    rewrite Hw. clear Hw. simpl repeat. simpl app.
    rewrite (segs_split (slash :: join_slash (rev real))).
    change (slash :: join_slash (rev real)) with ([] ++ slash :: join_slash (rev real)).
    rewrite split_app_slash. simpl split_slash at 1. rewrite walk_app. simpl walk at 2.
    destruct (rev real) as [|x t] eqn:E.
    + assert (real = []) by (destruct real; [reflexivity|]; simpl in E; destruct (rev real); discriminate).
      subst. reflexivity.
    + rewrite split_join; [|discriminate|]. 2:{ rewrite <- E. apply good_noslash, good_rev, Hg. }
      rewrite <- E. change (walk_step [] []) with (@nil str). rewrite walk_good by (apply good_rev; exact Hg).
      rewrite rev_involutive, app_nil_r. reflexivity.
  - pose proof (clean_fold_rel (split_slash p) (split_noslash p) O [] st (Forall_nil _)) as H.
    destruct (fold_left (clean_step false) (split_slash p) (O, [])) as [dd real]. destruct H as [Hg Hw].
    simpl in Hw. rewrite Hw. clear Hw.
    destruct (repeat dotdot dd ++ rev real) as [|x t] eqn:E.
    + destruct dd; [|discriminate]. simpl in E.
      assert (real = []) by (destruct real; [reflexivity|]; simpl in E; destruct (rev real); discriminate).
      subst. reflexivity.
    + rewrite (segs_split (join_slash (x :: t))). rewrite split_join; [|discriminate|].
      2:{ rewrite <- E. apply elems_noslash, Hg. }
      rewrite <- E. apply walk_elems. exact Hg.
Qed.

Theorem clean_denotes cwd p : denote cwd (clean p) = denote cwd p.
Proof.
  unfold denote. rewrite clean_rooted. f_equal. apply clean_walk.
Qed.

(* ---------- CleanDot ---------- *)
(* the only paths that go wrong: rooted and without a name, i.e. the root itself *)
Definition root_only (p : str) : bool := rooted p && match names p with [] => true | _ => false end.

Lemma components_root_only p : root_only p = true <-> components p = [[]].
Proof.
  unfold root_only, components. fold (names p). destruct (rooted p); simpl.
  - destruct (names p); split; intro H; try reflexivity; try discriminate.
  - split; [discriminate|]. intro H. exfalso.
    assert (In [] (names p)) by (rewrite H; left; reflexivity).
    unfold names in H0. apply filter_In in H0 as [_ H0]. discriminate.
Qed.

(* joining the Parts gives a path with the same start and the same walk *)
Lemma join_parts_rooted p : p <> [] -> root_only p = false -> rooted (join_slash (parts p)) = rooted p.
Proof.
  intros Hne Hr. rewrite parts_components by exact Hne. unfold root_only in Hr.
  pose proof (names_noslash p) as Hns. unfold components. fold (names p).
  destruct (rooted p) eqn:R; simpl in *.
  - destruct (names p) as [|y t]; [discriminate|]. reflexivity.
  - destruct (names p) as [|y t] eqn:E; [reflexivity|].
    inversion Hns; subst. rewrite rooted_join by assumption.
    assert (In y (names p)) by (rewrite E; left; reflexivity).
    unfold names in H. apply filter_In in H as [_ H]. destruct y; [discriminate|reflexivity].
Qed.

Lemma join_parts_walk p st : p <> [] -> walk st (segs (join_slash (parts p))) = walk st (segs p).
Proof.
  intro Hne. rewrite (segs_split (join_slash (parts p))).
  rewrite split_join; [apply walk_parts|apply parts_nonempty; exact Hne|apply parts_noslash].
Qed.

Lemma join_parts_denotes cwd p :
  p <> [] -> root_only p = false -> denote cwd (join_slash (parts p)) = denote cwd p.
Proof.
  intros Hne Hr. unfold denote. rewrite join_parts_rooted by assumption. f_equal. apply join_parts_walk. exact Hne.
Qed.

(* what CleanDot and CleanPath do with the parts: a spelling of the root is written "/" *)
Lemma match_not_root {A} (ps : list str) (a : A) (f : list str -> A) :
  ps <> [[]] -> match ps with [[]] => a | ps' => f ps' end = f ps.
Proof. destruct ps as [|[|c x] [|y t]]; intro H; try reflexivity. contradiction. Qed.

Lemma parts_root_only p : p <> [] -> (parts p = [[]] <-> root_only p = true).
Proof.
  intro Hne. rewrite components_root_only, parts_components by exact Hne.
  destruct (components p) as [|x t]; split; intro H; try discriminate; exact H.
Qed.

Lemma root_only_denote cwd p : root_only p = true -> denote cwd p = [].
Proof.
  intro H. pose proof H as Hc. apply components_root_only in Hc.
  unfold root_only in H. apply andb_true_iff in H as [Hr _].
  unfold denote. rewrite Hr, <- walk_components, Hc. reflexivity.
Qed.

Lemma parts_text_denotes cwd p :
  p <> [] ->
  denote cwd (match parts p with [[]] => [slash] | ps => join_slash ps end) = denote cwd p.
Proof.
  intro Hne. destruct (root_only p) eqn:Hr.
  - pose proof (proj2 (parts_root_only p Hne) Hr) as Hp. rewrite Hp.
    rewrite (root_only_denote cwd p Hr). reflexivity.
  - assert (Hp : parts p <> [[]]) by (intro Hp; apply (parts_root_only p Hne) in Hp; congruence).
    replace (match parts p with [[]] => [slash] | ps => join_slash ps end) with (join_slash (parts p)).
    + apply join_parts_denotes; assumption.
    + destruct (parts p) as [|[|c x] [|y t]]; try reflexivity. contradiction.
Qed.

Theorem clean_dot_denotes cwd p : denote cwd (clean_dot p) = denote cwd p.
Proof.
  unfold clean_dot. destruct (negb (existsb (N.eqb dot) p) && negb (has_double_slash p)); [reflexivity|].
  destruct p as [|c s] eqn:E; [reflexivity|]. rewrite <- E. apply parts_text_denotes. subst; discriminate.
Qed.

(* ---------- CleanPath ---------- *)
Lemma clean_path_loop_eq a b c d tl_ :
  clean_path_loop (a :: b :: c :: d :: tl_) =
  if negb (is_dotdot a) && negb (is_dotdot b) && is_dotdot c && is_dotdot d
     && match tl_ with [] => true | e :: _ => negb (is_dotdot e) end
  then clean_path_loop tl_ else a :: clean_path_loop (b :: c :: d :: tl_).
Proof. reflexivity. Qed.

Lemma clean_path_loop_walk l0 : forall st,
  Forall (fun c => seg_is_name c = true) l0 -> walk st (clean_path_loop l0) = walk st l0.
Proof.
  (* strong induction on the length: the loop recurses on rest[4:] and on rest[1:] *)
  assert (H : forall n rest, (length rest <= n)%nat -> forall st,
             Forall (fun c => seg_is_name c = true) rest -> walk st (clean_path_loop rest) = walk st rest).
  { induction n as [|n IH]; intros rest Hlen st Hall.
    - destruct rest; [reflexivity|simpl in Hlen; lia].
    - destruct rest as [|a [|b [|c [|d tl_]]]]; try reflexivity.
      rewrite clean_path_loop_eq.
      inversion Hall as [|? ? Ha Hall1]; subst. inversion Hall1 as [|? ? Hb Hall2]; subst.
      inversion Hall2 as [|? ? Hc Hall3]; subst. inversion Hall3 as [|? ? Hd Hall4]; subst.
      destruct (negb (is_dotdot a) && negb (is_dotdot b) && is_dotdot c && is_dotdot d
                && match tl_ with [] => true | e :: _ => negb (is_dotdot e) end) eqn:E.
      + repeat (apply andb_true_iff in E as [E ?]).
        apply str_eqb_spec in H0, H1. subst c d.
        rewrite IH; [|simpl in Hlen; lia|exact Hall4].
        rewrite 4 walk_cons.
        rewrite (walk_step_name st a) by (unfold real_name; rewrite Ha; exact E).
        rewrite (walk_step_name (a :: st) b) by (unfold real_name; rewrite Hb; exact H2).
        reflexivity.
      + rewrite (walk_cons st a), (walk_cons st a (b :: c :: d :: tl_)).
        apply IH; [simpl in *; lia|exact Hall1]. }
  intros st Hall. eapply H; [apply Nat.le_refl|exact Hall].
Qed.

Lemma parts_all_names p : components p <> [] ->
  Forall (fun c => seg_is_name c = true) (skipn 1 (parts p)) /\
  (rooted p = false -> Forall (fun c => seg_is_name c = true) (parts p)).
Proof.
  intro Hc. assert (Hne : p <> []) by (intros ->; apply Hc; reflexivity).
  rewrite parts_components by exact Hne.
  assert (Hn : Forall (fun c => seg_is_name c = true) (names p)).
  { apply Forall_forall. intros x Hx. unfold names in Hx. apply filter_In in Hx as [_ Hx]. exact Hx. }
  destruct (components p) as [|x t] eqn:E; [contradiction|]. rewrite <- E. clear E x t Hc.
  unfold components. fold (names p). destruct (rooted p); simpl.
  - split; [exact Hn|discriminate].
  - split; [|intros _; exact Hn]. destruct (names p); [constructor|]. inversion Hn; assumption.
Qed.

Lemma firstn_skipn_loop_walk ps st :
  Forall (fun c => seg_is_name c = true) (skipn 2 ps) ->
  walk st (firstn 2 ps ++ clean_path_loop (skipn 2 ps)) = walk st ps.
Proof.
  intro H. rewrite walk_app, clean_path_loop_walk by exact H.
  rewrite <- walk_app, firstn_skipn. reflexivity.
Qed.

Lemma clean_path_loop_noslash l : Forall noslash l -> Forall noslash (clean_path_loop l).
Proof.
  assert (H : forall n l, (length l <= n)%nat -> Forall noslash l -> Forall noslash (clean_path_loop l)).
  { induction n as [|n IH]; intros rest Hlen Hall.
    - destruct rest; [constructor|simpl in Hlen; lia].
    - destruct rest as [|a [|b [|c [|d tl_]]]]; try exact Hall.
      rewrite clean_path_loop_eq.
      inversion Hall as [|? ? Ha Hall1]; subst. inversion Hall1 as [|? ? Hb Hall2]; subst.
      inversion Hall2 as [|? ? Hc Hall3]; subst. inversion Hall3 as [|? ? Hd Hall4]; subst.
      destruct (negb (is_dotdot a) && negb (is_dotdot b) && is_dotdot c && is_dotdot d
                && match tl_ with [] => true | e :: _ => negb (is_dotdot e) end).
      + apply IH; [simpl in Hlen; lia|exact Hall4].
      + constructor; [exact Ha|]. apply IH; [simpl in *; lia|exact Hall1]. }
  intros Hall. eapply H; [apply Nat.le_refl|exact Hall].
Qed.

Theorem clean_path_denotes cwd p : denote cwd (clean_path p) = denote cwd p.
Proof.
  destruct p as [|c0 s0] eqn:Ep; [reflexivity|]. rewrite <- Ep in *.
  assert (Hne : p <> []) by (subst; discriminate).
  destruct (root_only p) eqn:Hr.
  { (* a spelling of the root: Parts = [""], the result is "/" *)
    unfold clean_path. rewrite (proj2 (parts_root_only p Hne) Hr). simpl.
    rewrite (root_only_denote cwd p Hr). reflexivity. }
  unfold clean_path. cbv zeta.
  pose proof (parts_nonempty p Hne) as Hpn. pose proof (parts_noslash p) as Hps.
  assert (Hnr : parts p <> [[]]) by (intro H; apply (parts_root_only p Hne) in H; congruence).
  set (ps := parts p) in *.
  assert (Hskip : Forall (fun c => seg_is_name c = true) (skipn 2 ps)).
  { destruct (components p) as [|x t] eqn:Ec.
    - subst ps. rewrite parts_components, Ec by exact Hne. constructor.
    - assert (Hc : components p <> []) by (rewrite Ec; discriminate).
      destruct (parts_all_names p Hc) as [H1 _]. fold ps in H1.
      destruct ps as [|y [|z r]]; simpl in *; try constructor. inversion H1; assumption. }
  set (l := firstn 2 ps ++ clean_path_loop (skipn 2 ps)).
  assert (Hl : exists x t, l = x :: t /\ hd [] ps = x /\ (t = [] -> tl ps = [])).
  { subst l. destruct ps as [|y [|z r]]; [contradiction| |].
    - exists y, []. simpl. auto.
    - exists y, (z :: clean_path_loop r). simpl. repeat split. discriminate. }
  destruct Hl as (x & t & El & Hhd & Htl).
  assert (Hln : Forall noslash l).
  { subst l. apply Forall_app. split.
    - apply Forall_forall. intros y Hy. eapply Forall_forall in Hps; [exact Hps|].
      rewrite <- (firstn_skipn 2 ps). apply in_or_app. left. exact Hy.
    - apply clean_path_loop_noslash. apply Forall_forall. intros y Hy. eapply Forall_forall in Hps; [exact Hps|].
      rewrite <- (firstn_skipn 2 ps). apply in_or_app. right. exact Hy. }
  assert (Hlr : l <> [[]]).
  { rewrite El. intro E. injection E as -> ->. specialize (Htl eq_refl).
    apply Hnr. destruct ps as [|y r]; [contradiction|]. simpl in Hhd, Htl. subst. reflexivity. }
  assert (Hwalk : forall st, walk st l = walk st ps).
  { intro st. subst l. apply firstn_skipn_loop_walk. exact Hskip. }
  clearbody l.
  destruct l as [|[|c1 x1] [|y1 t1]]; [discriminate El|contradiction| | |];
    cbv beta iota; rewrite El in *; clear El.
  all: unfold denote.
  all: assert (Hroot : rooted (join_slash (x :: t)) = rooted p);
    [ pose proof (proj1 (Forall_cons_iff _ _ _) Hln) as [Hx0 _]; rewrite rooted_join by assumption;
      subst ps; rewrite parts_components in Hhd, Htl by exact Hne;
      unfold root_only in Hr; unfold components in Hhd, Htl; fold (names p) in Hhd, Htl;
      destruct (rooted p) eqn:R; simpl in Hhd, Htl, Hr;
      [ subst x; simpl; destruct t; [|reflexivity]; specialize (Htl eq_refl);
        destruct (names p); discriminate
      | destruct (names p) as [|y r] eqn:En; simpl in Hhd;
        [ subst x; reflexivity
        | subst x; assert (Hy : In y (names p)) by (rewrite En; left; reflexivity);
          unfold names in Hy; apply filter_In in Hy as [_ Hy]; destruct y; [discriminate|reflexivity] ] ]
    | rewrite Hroot; f_equal;
      rewrite (segs_split (join_slash (x :: t))), split_join; [|discriminate|exact Hln];
      rewrite Hwalk; subst ps; apply walk_parts ].
Qed.
