(* C19, basic facts: splitting and joining at slashes, walking along segments,
   Parts versus the specification's component list. *)
From PV Require Import Lib.Bytes Model.Paths Spec.PathDenote.
Open Scope N_scope.

(* ---------- str_eqb as a decision ---------- *)
Lemma str_eqb_false a b : str_eqb a b = false <-> a <> b.
Proof.
  split.
  - intros H E. apply str_eqb_spec in E. congruence.
  - intros H. destruct (str_eqb a b) eqn:E; [|reflexivity]. apply str_eqb_spec in E. contradiction.
Qed.

Lemma str_eqb_sym a b : str_eqb a b = str_eqb b a.
Proof.
  destruct (str_eqb a b) eqn:E.
  - apply str_eqb_spec in E. subst. symmetry. apply str_eqb_refl.
  - symmetry. apply str_eqb_false. apply str_eqb_false in E. congruence.
Qed.

Lemma str_eqb_dec (a b : str) : {a = b} + {a <> b}.
Proof.
  destruct (str_eqb a b) eqn:E; [left; apply str_eqb_spec; exact E | right; apply str_eqb_false; exact E].
Qed.

(* ---------- slash-free strings ---------- *)
Definition noslash (s : str) : Prop := Forall (fun c => c <> slash) s.

Lemma noslash_cons c s : noslash (c :: s) <-> c <> slash /\ noslash s.
Proof. unfold noslash. split; [intro H; inversion H; auto | intros [H1 H2]; constructor; auto]. Qed.

Lemma noslash_dot : noslash dotstr.
Proof. repeat constructor; discriminate. Qed.
Lemma noslash_dotdot : noslash dotdot.
Proof. repeat constructor; discriminate. Qed.
Lemma noslash_nil : noslash [].
Proof. constructor. Qed.

(* ---------- split_slash ---------- *)
Lemma split_nonempty s : split_slash s <> [].
Proof.
  induction s as [|c s IH]; simpl; [discriminate|].
  destruct (c =? slash); [discriminate|]. destruct (split_slash s); [contradiction|discriminate].
Qed.

Lemma split_cons s : exists x t, split_slash s = x :: t.
Proof. destruct (split_slash s) eqn:E; [exfalso; eapply split_nonempty; eauto | eauto]. Qed.

Lemma segs_split s : segs s = split_slash s.
Proof.
  unfold segs. induction s as [|c s IH]; simpl; [reflexivity|].
  rewrite IH. reflexivity.
Qed.

Lemma split_noslash s : Forall noslash (split_slash s).
Proof.
  induction s as [|c s IH]; simpl.
  - repeat constructor.
  - destruct (N.eqb_spec c slash) as [->|Hne].
    + constructor; [constructor | exact IH].
    + destruct (split_slash s) as [|h t]; [repeat constructor; exact Hne|].
      inversion IH; subst. constructor; [|assumption]. apply noslash_cons. auto.
Qed.

Lemma split_of_noslash x : noslash x -> split_slash x = [x].
Proof.
  induction x as [|c x IH]; intro H; simpl; [reflexivity|].
  apply noslash_cons in H as [Hc Hx]. destruct (N.eqb_spec c slash); [contradiction|].
  rewrite (IH Hx). reflexivity.
Qed.

Lemma split_app_slash a b : split_slash (a ++ slash :: b) = split_slash a ++ split_slash b.
Proof.
  induction a as [|c a IH]; simpl.
  - reflexivity.
  - destruct (c =? slash).
    + rewrite IH. reflexivity.
    + rewrite IH. destruct (split_cons a) as (x & t & ->). reflexivity.
Qed.

Lemma split_join l : l <> [] -> Forall noslash l -> split_slash (join_slash l) = l.
Proof.
  induction l as [|x l IH]; intros Hne H; [contradiction|].
  inversion H; subst. destruct l as [|y l].
  - simpl. apply split_of_noslash; assumption.
  - change (join_slash (x :: y :: l)) with (x ++ slash :: join_slash (y :: l)).
    rewrite split_app_slash, IH; [|discriminate|assumption].
    rewrite split_of_noslash by assumption. reflexivity.
Qed.

Lemma split_head_empty c s x t :
  split_slash (c :: s) = x :: t -> is_empty x = (c =? slash).
Proof.
  simpl. destruct (c =? slash).
  - intro H; inversion H; reflexivity.
  - destruct (split_slash s); intro H; inversion H; reflexivity.
Qed.

Lemma join_split s : join_slash (split_slash s) = s.
Proof.
  induction s as [|c s IH]; simpl; [reflexivity|].
  destruct (N.eqb_spec c slash) as [->|Hne].
  - destruct (split_cons s) as (x & t & E). rewrite E in *.
    change (join_slash ([] :: x :: t)) with ([] ++ slash :: join_slash (x :: t)). rewrite IH. reflexivity.
  - destruct (split_cons s) as (x & t & E). rewrite E in *. destruct t as [|y t].
    + simpl in *. congruence.
    + change (join_slash ((c :: x) :: y :: t)) with ((c :: x) ++ slash :: join_slash (y :: t)).
      change (join_slash (x :: y :: t)) with (x ++ slash :: join_slash (y :: t)) in IH.
      rewrite <- IH. reflexivity.
Qed.

(* ---------- rooted ---------- *)
Lemma rooted_join x t :
  noslash x -> rooted (join_slash (x :: t)) = is_empty x && negb (match t with [] => true | _ => false end).
Proof.
  intro H. destruct t as [|y t].
  - simpl. destruct x as [|c x]; [reflexivity|]. simpl. apply noslash_cons in H as [Hc _].
    apply N.eqb_neq; exact Hc.
  - change (join_slash (x :: y :: t)) with (x ++ slash :: join_slash (y :: t)).
    destruct x as [|c x]; simpl; [reflexivity|]. apply noslash_cons in H as [Hc _].
    rewrite andb_false_r || idtac. apply N.eqb_neq; exact Hc.
Qed.

Lemma rooted_split p x t : p <> [] -> split_slash p = x :: t -> rooted p = is_empty x.
Proof.
  destruct p as [|c s]; [contradiction|]. intros _ H. simpl. symmetry. eapply split_head_empty; eauto.
Qed.

(* ---------- segment kinds ---------- *)
Definition real_name (s : str) : bool := seg_is_name s && negb (seg_is_dotdot s).

Lemma is_empty_seg s : is_empty s = seg_is_empty s.
Proof. reflexivity. Qed.

Lemma seg_is_dot_spec s : seg_is_dot s = true <-> s = dotstr.
Proof. apply str_eqb_spec. Qed.
Lemma seg_is_dotdot_spec s : seg_is_dotdot s = true <-> s = dotdot.
Proof. apply str_eqb_spec. Qed.

Lemma walk_step_skip st s : seg_is_name s = false -> walk_step st s = st.
Proof.
  unfold seg_is_name, walk_step. intro H.
  destruct (seg_is_empty s); [reflexivity|]. destruct (seg_is_dot s); [reflexivity|discriminate].
Qed.

Lemma walk_step_name st s : real_name s = true -> walk_step st s = s :: st.
Proof.
  unfold real_name, seg_is_name, walk_step. intro H.
  destruct (seg_is_empty s); [discriminate|]. destruct (seg_is_dot s); [discriminate|].
  destruct (seg_is_dotdot s); [discriminate|]. reflexivity.
Qed.

Lemma walk_step_dotdot st : walk_step st dotdot = tl st.
Proof. reflexivity. Qed.

Lemma walk_app st a b : walk st (a ++ b) = walk (walk st a) b.
Proof. apply fold_left_app. Qed.

Lemma walk_cons st a l : walk st (a :: l) = walk (walk_step st a) l.
Proof. reflexivity. Qed.

Lemma walk_filter st l : walk st (filter seg_is_name l) = walk st l.
Proof.
  revert st; induction l as [|x l IH]; intro st; simpl; [reflexivity|].
  destruct (seg_is_name x) eqn:E.
  - simpl. apply IH.
  - rewrite walk_step_skip by exact E. apply IH.
Qed.

Lemma walk_names st l : forallb real_name l = true -> walk st l = rev l ++ st.
Proof.
  revert st; induction l as [|x l IH]; intros st H; simpl; [reflexivity|].
  simpl in H. apply andb_true_iff in H as [Hx Hl].
  rewrite walk_step_name by exact Hx. rewrite IH by exact Hl. rewrite <- app_assoc. reflexivity.
Qed.

Lemma tl_skipn {A} n (l : list A) : tl (skipn n l) = skipn (S n) l.
Proof.
  revert l; induction n as [|n IH]; intro l.
  - destruct l; reflexivity.
  - destruct l as [|x l]; [reflexivity|].
    change (skipn (S n) (x :: l)) with (skipn n l). rewrite IH. reflexivity.
Qed.

Lemma walk_dotdots st n : walk st (repeat dotdot n) = skipn n st.
Proof.
  revert st; induction n as [|n IH]; intro st; [reflexivity|].
  change (repeat dotdot (S n)) with (dotdot :: repeat dotdot n).
  rewrite walk_cons, walk_step_dotdot, IH. destruct st as [|x st]; simpl.
  - destruct n; reflexivity.
  - reflexivity.
Qed.

(* ---------- names and components ---------- *)
Definition names (p : str) : list str := filter seg_is_name (segs p).

Lemma components_names p : components p = (if rooted p then [[]] else []) ++ names p.
Proof. reflexivity. Qed.

Lemma walk_components st p : walk st (components p) = walk st (segs p).
Proof.
  unfold components. destruct (rooted p); simpl; unfold names; apply walk_filter.
Qed.

Lemma names_noslash p : Forall noslash (names p).
Proof.
  unfold names. rewrite (segs_split p). apply Forall_forall. intros x Hx. apply filter_In in Hx as [Hx _].
  revert x Hx. apply Forall_forall. apply split_noslash.
Qed.

Lemma components_noslash p : Forall noslash (components p).
Proof.
  unfold components. apply Forall_app. split; [|apply names_noslash].
  destruct (rooted p); repeat constructor.
Qed.

(* Parts = the component list, except that "no component at all" is written ["."] *)
Lemma parts_keep_false l : parts_keep false l = filter seg_is_name l.
Proof.
  induction l as [|x l IH]; simpl; [reflexivity|]. rewrite IH.
  unfold seg_is_name, seg_is_dot, seg_is_empty, is_empty, dotstr. reflexivity.
Qed.

Lemma parts_components p :
  p <> [] -> parts p = match components p with [] => [dotstr] | l => l end.
Proof.
  intro Hne. unfold parts. destruct p as [|c s] eqn:Ep; [contradiction|]. rewrite <- Ep in *.
  assert (Hk : parts_keep true (split_slash p) = components p).
  { destruct (split_cons p) as (x & t & E). unfold components. rewrite (segs_split p), E.
    rewrite (rooted_split p x t Hne E). simpl. rewrite parts_keep_false.
    destruct x as [|d x]; simpl; [reflexivity|].
    unfold seg_is_name, seg_is_dot, dotstr. simpl. destruct ((d =? 46) && str_eqb x []); reflexivity. }
  rewrite Hk. reflexivity.
Qed.

Lemma parts_nil : parts [] = [].
Proof. reflexivity. Qed.

Lemma parts_noslash p : Forall noslash (parts p).
Proof.
  destruct p as [|c s] eqn:E; [constructor|]. rewrite <- E.
  rewrite parts_components by (subst; discriminate).
  pose proof (components_noslash p) as H. destruct (components p); [|exact H].
  repeat constructor; discriminate.
Qed.

Lemma parts_nonempty p : p <> [] -> parts p <> [].
Proof.
  intro H. rewrite parts_components by exact H. destruct (components p); discriminate.
Qed.

(* the denotation, seen through the components *)
Definition base_dir (cwd p : str) : list str := if rooted p then [] else walk [] (segs cwd).

Lemma denote_unfold cwd p : denote cwd p = rev (walk (base_dir cwd p) (segs p)).
Proof. reflexivity. Qed.

Lemma walk_parts st p : walk st (parts p) = walk st (segs p).
Proof.
  destruct p as [|c s] eqn:E; [reflexivity|]. rewrite <- E.
  rewrite parts_components by (subst; discriminate).
  rewrite <- (walk_components st p). destruct (components p); reflexivity.
Qed.
