(* Proofs for C09 (Model/Lines.v against Spec/LinesSpec.v). *)
From PV Require Import Lib.Bytes Model.Lines Spec.LinesSpec.
From Coq Require Import ZifyBool ZifyN ZifyNat.
Open Scope N_scope.

Lemma save_nothing_modified ls :
  existsb fix_modified ls = false -> save_autofix_changes ls = None.
Proof. unfold save_autofix_changes. intros ->. reflexivity. Qed.
