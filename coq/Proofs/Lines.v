(* Proofs for C09 (Model/Lines.v against Spec/LinesSpec.v), part 1:
   the Go library functions, and the decomposition of a physical line. *)
From PV Require Import Lib.Bytes Lib.LinesLib Model.Lines Spec.LinesSpec.
From Coq Require Import ZifyBool ZifyN ZifyNat.
Open Scope N_scope.

(* ---- has_suffix / trim_suffix / orig ------------------------------------ *)

Lemma has_suffix_nil c : has_suffix [c] [] = false.
Proof. reflexivity. Qed.

Lemma has_suffix_snoc c s d : has_suffix [c] (s ++ [d]) = (c =? d).
Proof.
  unfold has_suffix, has_prefix. rewrite rev_app_distr. simpl.
  destruct (c =? d); reflexivity.
Qed.

Lemma orig_is_content r : orig r = content r.
Proof.
  unfold orig, trim_suffix, content, ends_nl, is_nl.
  destruct (list_snoc_cases r) as [->|[r' [c ->]]]; [reflexivity|].
  rewrite has_suffix_snoc, last_snoc, removelast_snoc. unfold nl.
  rewrite N.eqb_sym. destruct (c =? 10); [|reflexivity].
  simpl length. apply firstn_snoc_len.
Qed.

(* ---- trailing_count = the backwards loop -------------------------------- *)

Lemma trailing_count_snoc p s c :
  trailing_count p (s ++ [c]) = if p c then S (trailing_count p s) else O.
Proof. unfold trailing_count. rewrite fold_left_app. reflexivity. Qed.

Lemma count_back_snoc p s c :
  count_back p (s ++ [c]) = if p c then S (count_back p s) else O.
Proof.
  unfold count_back. rewrite rev_app_distr. simpl.
  destruct (p c); [|reflexivity]. destruct (span p (rev s)); reflexivity.
Qed.

Lemma trailing_count_is_count_back p s : trailing_count p s = count_back p s.
Proof.
  induction s as [|c s IH] using rev_ind; [reflexivity|].
  rewrite trailing_count_snoc, count_back_snoc, IH. reflexivity.
Qed.

Lemma no_backslash_suffix_count o :
  has_suffix [backslash] o = false -> trailing_count is_bs o = O.
Proof.
  destruct (list_snoc_cases o) as [->|[o' [c ->]]]; [reflexivity|].
  rewrite has_suffix_snoc, trailing_count_snoc. unfold is_bs, backslash.
  rewrite N.eqb_sym. intros ->. reflexivity.
Qed.

(* ---- splitting off the bytes counted by a backwards loop ---------------- *)

Definition rfront (p : N -> bool) (s : str) : str := rev (snd (span p (rev s))).
Definition rback (p : N -> bool) (s : str) : str := rev (fst (span p (rev s))).

Lemma rfront_rback p s : rfront p s ++ rback p s = s.
Proof.
  unfold rfront, rback. rewrite <- rev_app_distr, span_app. apply rev_involutive.
Qed.

Lemma rback_length p s : length (rback p s) = count_back p s.
Proof. unfold rback, count_back. apply rev_length. Qed.

Lemma rback_all p s : forallb p (rback p s) = true.
Proof. unfold rback. rewrite forallb_rev. apply span_all. Qed.

Definition last_not (p : N -> bool) (s : str) : Prop := head_not p (rev s).

Lemma rfront_last_not p s : last_not p (rfront p s).
Proof. unfold last_not, rfront. rewrite rev_involutive. apply span_rest_head_not. Qed.

Lemma firstn_count_back p s : firstn (length s - count_back p s) s = rfront p s.
Proof.
  rewrite <- rback_length. rewrite <- (rfront_rback p s) at 1 3. apply firstn_app_len.
Qed.

Lemma skipn_count_back p s : skipn (length s - count_back p s) s = rback p s.
Proof.
  rewrite <- rback_length. rewrite <- (rfront_rback p s) at 1 3. apply skipn_app_len.
Qed.

(* X ++ w with w all-p and X not ending in p is a unique split *)
Lemma rsplit_unique p x1 w1 x2 w2 :
  x1 ++ w1 = x2 ++ w2 -> forallb p w1 = true -> forallb p w2 = true ->
  last_not p x1 -> last_not p x2 -> x1 = x2 /\ w1 = w2.
Proof.
  intros E H1 H2 L1 L2.
  assert (R : rev w1 ++ rev x1 = rev w2 ++ rev x2) by (rewrite <- !rev_app_distr; congruence).
  assert (S1 := span_app_exact p (rev w1) (rev x1)). assert (S2 := span_app_exact p (rev w2) (rev x2)).
  rewrite forallb_rev in S1, S2. specialize (S1 H1 L1). specialize (S2 H2 L2).
  rewrite R in S1. rewrite S1 in S2. inversion S2 as [[Hw Hx]].
  split; [rewrite <- (rev_involutive x1), Hx|rewrite <- (rev_involutive w1), Hw]; apply rev_involutive.
Qed.

(* a all-p and b not starting with p is a unique split *)
Lemma lsplit_unique p a1 b1 a2 b2 :
  a1 ++ b1 = a2 ++ b2 -> forallb p a1 = true -> forallb p a2 = true ->
  head_not p b1 -> head_not p b2 -> a1 = a2 /\ b1 = b2.
Proof.
  intros E H1 H2 L1 L2.
  assert (S1 := span_app_exact p a1 b1 H1 L1). assert (S2 := span_app_exact p a2 b2 H2 L2).
  rewrite E in S1. rewrite S1 in S2. inversion S2. split; reflexivity.
Qed.

(* ---- the decomposition -------------------------------------------------- *)

(* decomp_ok, read as a proposition *)
Definition cont_of (o : str) : str := if Nat.odd (trailing_count is_bs o) then [92] else [].

Record decomp (o : str) (p : parts) : Prop := {
  d_eq : o = p_indent p ++ p_body p ++ p_outdent p ++ p_cont p;
  d_indent : forallb is_hspace (p_indent p) = true;
  d_outdent : forallb is_hspace (p_outdent p) = true;
  d_cont : p_cont p = cont_of o;
  d_head : head_not is_hspace (p_body p);
  d_last : last_not is_hspace (p_body p);
  d_empty : p_body p = [] -> p_indent p = [] }.

Lemma head_is_not p s : negb (head_is p s) = true <-> head_not p s.
Proof. destruct s as [|c s]; simpl; [tauto|]. destruct (p c); simpl; split; congruence. Qed.

Lemma last_is_not p s : negb (last_is p s) = true <-> last_not p s.
Proof. apply head_is_not. Qed.

Lemma nilb_true s : nilb s = true <-> s = [].
Proof. destruct s; simpl; split; congruence. Qed.

Lemma decomp_ok_iff o p : decomp_ok o p = true <-> decomp o p.
Proof.
  unfold decomp_ok. rewrite !andb_true_iff.
  rewrite str_eqb_spec, head_is_not, last_is_not, orb_true_iff, negb_true_iff, nilb_true.
  split.
  - intros [[[[[[H1 H2] H3] H4] H5] H6] H7]. split; try assumption.
    + unfold cont_of. destruct (Nat.odd _); [apply str_eqb_spec|apply nilb_true]; exact H4.
    + intros Hb. destruct H7 as [H7|H7]; [rewrite Hb in H7; discriminate|exact H7].
  - intros [H1 H2 H3 H4 H5 H6 H7]. repeat split; try assumption.
    + unfold cont_of in H4. destruct (Nat.odd _); [apply str_eqb_spec|apply nilb_true]; exact H4.
    + destruct (p_body p) eqn:E; [right; apply H7; reflexivity|left; reflexivity].
Qed.

Lemma last_not_app_nonempty p a b : b <> [] -> last_not p b -> last_not p (a ++ b).
Proof.
  unfold last_not. rewrite rev_app_distr. intros Hb H.
  destruct (rev b) eqn:E; [|exact H].
  apply (f_equal (@rev N)) in E. rewrite rev_involutive in E. contradiction.
Qed.

Theorem decomp_unique o p q : decomp o p -> decomp o q -> p = q.
Proof.
  intros [P1 P2 P3 P4 P5 P6 P7] [Q1 Q2 Q3 Q4 Q5 Q6 Q7].
  destruct p as [pi pb po pc], q as [qi qb qo qc]; simpl in *.
  subst pc qc.
  assert (E : (pi ++ pb) ++ po = (qi ++ qb) ++ qo).
  { apply (app_inv_tail (cont_of o)). rewrite <- !app_assoc. rewrite <- P1. exact Q1. }
  assert (LP : last_not is_hspace (pi ++ pb)).
  { destruct pb as [|c pb]; [rewrite (P7 eq_refl); exact I|apply last_not_app_nonempty; [discriminate|exact P6]]. }
  assert (LQ : last_not is_hspace (qi ++ qb)).
  { destruct qb as [|c qb]; [rewrite (Q7 eq_refl); exact I|apply last_not_app_nonempty; [discriminate|exact Q6]]. }
  destruct (rsplit_unique _ _ _ _ _ E P3 Q3 LP LQ) as [E2 ->].
  destruct (lsplit_unique _ _ _ _ _ E2 P2 Q2 P5 Q5) as [-> ->]. reflexivity.
Qed.

Theorem decomp_ok_unique o p q : decomp_ok o p = true -> decomp_ok o q = true -> p = q.
Proof. rewrite !decomp_ok_iff. apply decomp_unique. Qed.

(* a generic constructor: strip cont, then blanks at the end, then blanks at the start *)
Lemma decomp_build o core stripped outdent :
  o = core ++ cont_of o -> core = stripped ++ outdent ->
  forallb is_hspace outdent = true -> last_not is_hspace stripped ->
  decomp o (mk_parts (fst (span is_hspace stripped)) (snd (span is_hspace stripped)) outdent (cont_of o)).
Proof.
  intros Ho Hc Hout Hlast.
  assert (Hs := span_app is_hspace stripped).
  split; simpl.
  - rewrite app_assoc, Hs. rewrite app_assoc, <- Hc. exact Ho.
  - apply span_all.
  - exact Hout.
  - reflexivity.
  - apply span_rest_head_not.
  - destruct (snd (span is_hspace stripped)) as [|c b] eqn:E; [exact I|].
    rewrite <- Hs in Hlast. unfold last_not in *.
    rewrite rev_app_distr in Hlast. destruct (rev (c :: b)) eqn:E2; [|exact Hlast].
    apply (f_equal (@rev N)) in E2. rewrite rev_involutive in E2. discriminate.
  - intros E. rewrite E, app_nil_r in Hs. unfold last_not in Hlast. rewrite <- Hs in Hlast.
    assert (A := span_all is_hspace stripped).
    destruct (fst (span is_hspace stripped)) as [|c a] eqn:E1; [reflexivity|exfalso].
    rewrite <- forallb_rev in A. destruct (rev (c :: a)) as [|d r] eqn:E2.
    + apply (f_equal (@rev N)) in E2. rewrite rev_involutive in E2. discriminate.
    + simpl in A, Hlast. rewrite Hlast in A. discriminate.
Qed.

(* ---- matchContinuationLine computes the decomposition -------------------- *)

Lemma mod2_odd k : Nat.modulo k 2 = if Nat.odd k then 1%nat else 0%nat.
Proof.
  rewrite (Nat.div2_odd k) at 1. rewrite Nat.add_comm, Nat.mul_comm, Nat.mod_add by lia.
  destruct (Nat.odd k); reflexivity.
Qed.

Lemma count_back_le p s : (count_back p s <= length s)%nat.
Proof.
  rewrite <- rback_length. rewrite <- (rfront_rback p s) at 2. rewrite app_length. lia.
Qed.

Lemma cont_of_length t : length (cont_of t) = Nat.modulo (count_back is_bs t) 2.
Proof.
  unfold cont_of. rewrite trailing_count_is_count_back, mod2_odd.
  destruct (Nat.odd _); reflexivity.
Qed.

Lemma skipn_cont t : skipn (length t - length (cont_of t)) t = cont_of t.
Proof.
  unfold cont_of. rewrite trailing_count_is_count_back.
  destruct (Nat.odd (count_back is_bs t)) eqn:E; simpl length.
  - destruct (list_snoc_cases t) as [->|[t' [c ->]]]; [cbv in E; discriminate|].
    rewrite count_back_snoc in E. destruct (is_bs c) eqn:Ec; [|cbv in E; discriminate].
    apply N.eqb_eq in Ec. subst c. apply (skipn_app_len t' [92]).
  - rewrite Nat.sub_0_r. apply skipn_all.
Qed.

Lemma core_cont t : t = firstn (length t - length (cont_of t)) t ++ cont_of t.
Proof. rewrite <- (skipn_cont t) at 2. symmetry. apply firstn_skipn. Qed.

Lemma firstn_app_exact {A} (a x : list A) : firstn (length a) (a ++ x) = a.
Proof. rewrite firstn_app, Nat.sub_diag, firstn_all. simpl. apply app_nil_r. Qed.

Lemma skipn_app_exact {A} (a x : list A) : skipn (length a) (a ++ x) = x.
Proof. rewrite skipn_app, Nat.sub_diag, skipn_all. reflexivity. Qed.

Definition mcl_core (t : str) : str := firstn (length t - length (cont_of t)) t.
Definition mcl_stripped (t : str) : str := rfront is_hspace (mcl_core t).

Lemma mcl_eq t :
  match_continuation_line t =
  (fst (span is_hspace (mcl_stripped t)), snd (span is_hspace (mcl_stripped t)),
   rback is_hspace (mcl_core t), cont_of t).
Proof.
  unfold match_continuation_line. cbv zeta. change is_backslash with is_bs.
  assert (Hk := count_back_le is_bs t).
  replace (length t - (length t - count_back is_bs t))%nat with (count_back is_bs t) by lia.
  rewrite <- cont_of_length.
  change (firstn (length t - length (cont_of t)) t) with (mcl_core t).
  set (J := (length t - length (cont_of t))%nat).
  assert (HJ : length (mcl_core t) = J).
  { unfold mcl_core. fold J. apply firstn_length_le. lia. }
  set (ts := (J - count_back is_hspace (mcl_core t))%nat).
  assert (F : firstn ts t = mcl_stripped t).
  { unfold mcl_stripped. rewrite <- firstn_count_back. rewrite HJ. fold ts.
    unfold mcl_core. fold J. rewrite firstn_firstn. f_equal. lia. }
  rewrite F.
  assert (T : t = mcl_stripped t ++ skipn ts t) by (rewrite <- F; symmetry; apply firstn_skipn).
  assert (AB : mcl_stripped t = fst (span is_hspace (mcl_stripped t)) ++ snd (span is_hspace (mcl_stripped t)))
    by (symmetry; apply span_app).
  set (a := fst (span is_hspace (mcl_stripped t))) in *.
  set (b := snd (span is_hspace (mcl_stripped t))) in *.
  clearbody a b.
  f_equal; [f_equal; [f_equal|]|].
  - rewrite T, AB, <- app_assoc. apply firstn_app_exact.
  - rewrite AB. apply skipn_app_exact.
  - unfold ts. rewrite <- HJ. apply skipn_count_back.
  - apply skipn_cont.
Qed.

Definition parts_of (q : str * str * str * str) : parts :=
  let '(a, b, c, d) := q in mk_parts a b c d.

Lemma mcl_decomp t : decomp t (parts_of (match_continuation_line t)).
Proof.
  rewrite mcl_eq. simpl. apply (decomp_build t (mcl_core t)).
  - apply core_cont.
  - symmetry. apply rfront_rback.
  - apply rback_all.
  - apply rfront_last_not.
Qed.

(* ---- the specification's spec_parts computes it too ---------------------- *)

Lemma last_not_cons p c r : r <> [] -> last_not p r -> last_not p (c :: r).
Proof. intros Hr H. apply (last_not_app_nonempty p [c] r Hr H). Qed.

Lemma drop_while_end_spec p s :
  (exists w, s = drop_while_end p s ++ w /\ forallb p w = true) /\ last_not p (drop_while_end p s).
Proof.
  induction s as [|c s [[w [Hs Hw]] Hl]]; simpl.
  - split; [exists []; split; reflexivity|exact I].
  - destruct (drop_while_end p s) as [|d r] eqn:E.
    + simpl in Hs. subst w. destruct (p c) eqn:Ec; simpl.
      * split; [exists (c :: s); simpl; rewrite Ec, Hw; split; reflexivity|exact I].
      * split; [exists s; split; [reflexivity|exact Hw]|exact Ec].
    + rewrite andb_false_r. split.
      * exists w. split; [simpl; f_equal; exact Hs|exact Hw].
      * apply last_not_cons; [discriminate|exact Hl].
Qed.

Lemma spec_parts_eq o :
  spec_parts o =
  mk_parts (fst (span is_hspace (drop_while_end is_hspace (mcl_core o))))
           (snd (span is_hspace (drop_while_end is_hspace (mcl_core o))))
           (skipn (length (drop_while_end is_hspace (mcl_core o))) (mcl_core o)) (cont_of o).
Proof.
  unfold spec_parts, mcl_core, cont_of. cbv zeta.
  destruct (span is_hspace _). reflexivity.
Qed.

Lemma spec_parts_decomp o : decomp o (spec_parts o).
Proof.
  rewrite spec_parts_eq.
  destruct (drop_while_end_spec is_hspace (mcl_core o)) as [[w [Hs Hw]] Hl].
  replace (skipn (length (drop_while_end is_hspace (mcl_core o))) (mcl_core o)) with w
    by (rewrite Hs at 2; symmetry; apply skipn_app_exact).
  apply (decomp_build o (mcl_core o)); [apply core_cont|exact Hs|exact Hw|exact Hl].
Qed.

Theorem spec_parts_ok o : decomp_ok o (spec_parts o) = true.
Proof. apply decomp_ok_iff, spec_parts_decomp. Qed.

Theorem mcl_is_spec_parts t : parts_of (match_continuation_line t) = spec_parts t.
Proof. apply (decomp_unique t); [apply mcl_decomp|apply spec_parts_decomp]. Qed.
