(* Proofs about Model/ShTok.v, part 5: on a text that is a sequence of simple words
   (Spec.ShWords) separated by single blanks, splitIntoShellTokens returns exactly
   these words and an empty rest. *)
From PV Require Import Lib.Bytes Model.ShTok Spec.ShPartition Spec.ShWords
  Proofs.ShTok Proofs.ShTokLoop Proofs.ShTokSpec Proofs.ShTokSplit.
From Coq Require Import ZifyBool ZifyN ZifyNat.
Open Scope N_scope.

(* what may follow a word: nothing, or a blank *)
Definition tail_ok (x : str) : Prop := x = [] \/ exists b x', x = b :: x' /\ is_hspace b = true.

Lemma hspace_cases b : is_hspace b = true -> b = 32 \/ b = 9.
Proof. unfold is_hspace. lia. Qed.

Lemma tail_ok_cases x : tail_ok x -> x = [] \/ (exists x', x = 32 :: x') \/ (exists x', x = 9 :: x').
Proof.
  intros [->|(b & x' & -> & Hb)]; [auto|]. destruct (hspace_cases b Hb) as [->| ->]; eauto.
Qed.

Lemma tail_ok_blank x' : tail_ok (32 :: x').
Proof. right. exists 32, x'. auto. Qed.

(* a span over a class that rejects blanks does not see what follows the word *)
Lemma span_app_tail f (a x : str) :
  (forall b x', x = b :: x' -> f b = false) ->
  span f (a ++ x) = (fst (span f a), snd (span f a) ++ x).
Proof.
  intro Hx. induction a as [|c a IH]; cbn [app].
  - destruct x as [|b x']; [reflexivity|]. cbn [span]. rewrite (Hx b x' eq_refl). reflexivity.
  - cbn [span]. destruct (f c); [|reflexivity].
    rewrite IH. destruct (span f a). reflexivity.
Qed.

Lemma tail_rejects f x : tail_ok x -> f 32 = false -> f 9 = false ->
  forall b x', x = b :: x' -> f b = false.
Proof.
  intros Hx H32 H9 b x' E. destruct (tail_ok_cases x Hx) as [->|[(y & ->)|(y & ->)]];
    try discriminate; injection E as <- _; assumption.
Qed.

Lemma span_app_inside f (a x : str) p c r :
  span f a = (p, c :: r) -> span f (a ++ x) = (p, (c :: r) ++ x).
Proof.
  revert p. induction a as [|b a IH]; intros p H; cbn [span] in H; [discriminate|].
  cbn [app span]. destruct (f b).
  - destruct (span f a) as [p' r'] eqn:E. injection H as <- ->. rewrite (IH p' eq_refl). reflexivity.
  - injection H as <- <- <-. reflexivity.
Qed.

Lemma snd_span_inside f (a x : str) c r :
  snd (span f a) = c :: r -> snd (span f (a ++ x)) = (c :: r) ++ x.
Proof.
  intro H. destruct (span f a) as [p r'] eqn:E. cbn [snd] in H. subst r'.
  rewrite (span_app_inside f a x p c r E). reflexivity.
Qed.

Lemma snd_span_tail f (a x : str) : tail_ok x -> f 32 = false -> f 9 = false ->
  snd (span f (a ++ x)) = snd (span f a) ++ x.
Proof.
  intros Hx H32 H9. rewrite (span_app_tail f a x (tail_rejects f x Hx H32 H9)). reflexivity.
Qed.

Lemma re_shvarname_ext w r x : re_shvarname w = Some r -> tail_ok x ->
  re_shvarname (w ++ x) = Some (r ++ x).
Proof.
  intros H Hx. destruct w as [|c t]; [discriminate|]. unfold re_shvarname in *. cbn [app].
  destruct (in_set [33; 35; 42; 45; 63; 64] c); [injection H as <-; reflexivity|].
  destruct (c =? 36).
  { destruct t as [|c1 t1]; [discriminate|]. cbn [app]. destruct (c1 =? 36); [|discriminate].
    injection H as <-. reflexivity. }
  destruct (is_alpha c || (c =? 95)).
  { injection H as <-. rewrite (snd_span_tail is_word_byte t x Hx eq_refl eq_refl). reflexivity. }
  destruct (is_digit c); [|discriminate].
  injection H as <-. rewrite (snd_span_tail is_digit t x Hx eq_refl eq_refl). reflexivity.
Qed.

Lemma re_shmodifier_ext w c r x : re_shmodifier w = Some (c :: r) ->
  re_shmodifier (w ++ x) = Some ((c :: r) ++ x).
Proof.
  intros H. destruct w as [|b t]; [discriminate|]. unfold re_shmodifier in *. cbn [app]. cbv zeta in *.
  assert (T : forall u, Some (snd (span is_shmod_byte u)) = Some (c :: r) ->
              Some (snd (span is_shmod_byte (u ++ x))) = Some ((c :: r) ++ x)).
  { intros u E. injection E as E. rewrite (snd_span_inside is_shmod_byte u x c r E). reflexivity. }
  assert (B : forall k u, Some (snd (span is_shmod_byte (match op_byte k u with Some t' => t' | None => u end))) = Some (c :: r) ->
              Some (snd (span is_shmod_byte (match op_byte k (u ++ x) with Some t' => t' | None => u ++ x end))) = Some ((c :: r) ++ x)).
  { intros k u E. destruct u as [|b1 u1].
    - cbn in E. discriminate.
    - cbn [app op_byte] in *. destruct (b1 =? k); [apply (T u1)|apply (T (b1 :: u1))]; exact E. }
  destruct (b =? 35); [apply B; exact H|].
  destruct (b =? 37); [apply B; exact H|].
  destruct (b =? 58).
  { destruct t as [|c1 t1]; [discriminate|]. cbn [app]. destruct (is_shmod_op c1); [|discriminate].
    apply T. exact H. }
  destruct (is_shmod_op b); [|discriminate]. apply T. exact H.
Qed.

Section Words.

Variable expr : str -> option (str * str).
Variable rx : str -> option str.

Notation wordp := (wordp rx).

(* ---------- spans stay inside the word and land on a word boundary ---------- *)

Lemma span_plain f x : tail_ok x -> f 32 = false -> f 9 = false ->
  f 34 = false -> f 39 = false -> f 92 = false -> f 36 = false ->
  forall u, wordp WPlain u ->
  exists p u', u = p ++ u' /\ span f (u ++ x) = (p, u' ++ x) /\ wordp WPlain u'.
Proof.
  intros Hx H32 H9 H34 H39 H92 H36. induction u as [|c u IH]; intro H.
  - exists [], []. split; [reflexivity|]. split; [|exact H]. cbn [app].
    destruct x as [|b x']; [reflexivity|]. cbn [span].
    rewrite (tail_rejects f _ Hx H32 H9 b x' eq_refl). reflexivity.
  - destruct (f c) eqn:Fc.
    + inversion H; subst; try congruence.
      destruct (IH H3) as (p & u' & E1 & E2 & E3).
      exists (c :: p), u'. split; [cbn; congruence|]. split; [|exact E3].
      cbn [app span]. rewrite Fc, E2. reflexivity.
    + exists [], (c :: u). split; [reflexivity|]. split; [|exact H].
      cbn [app span]. rewrite Fc. reflexivity.
Qed.

Lemma span_dq f x : f 34 = false -> f 92 = false -> f 36 = false ->
  forall u, wordp WDq u ->
  exists p u', u = p ++ u' /\ span f (u ++ x) = (p, u' ++ x) /\ wordp WDq u'.
Proof.
  intros H34 H92 H36. induction u as [|c u IH]; intro H; [inversion H|].
  destruct (f c) eqn:Fc.
  - inversion H; subst; try congruence.
    destruct (IH H3) as (p & u' & E1 & E2 & E3).
    exists (c :: p), u'. split; [cbn; congruence|]. split; [|exact E3].
    cbn [app span]. rewrite Fc, E2. reflexivity.
  - exists [], (c :: u). split; [reflexivity|]. split; [|exact H].
    cbn [app span]. rewrite Fc. reflexivity.
Qed.

Lemma span_sq f x : f 39 = false ->
  forall u, wordp WSq u ->
  exists p u', u = p ++ u' /\ span f (u ++ x) = (p, u' ++ x) /\ wordp WSq u'.
Proof.
  intros H39. induction u as [|c u IH]; intro H; [inversion H|].
  destruct (f c) eqn:Fc.
  - inversion H; subst; try congruence.
    destruct (IH H3) as (p & u' & E1 & E2 & E3).
    exists (c :: p), u'. split; [cbn; congruence|]. split; [|exact E3].
    cbn [app span]. rewrite Fc, E2. reflexivity.
  - exists [], (c :: u). split; [reflexivity|]. split; [|exact H].
    cbn [app span]. rewrite Fc. reflexivity.
Qed.

(* ---------- one iteration of the loop of shAtomInternal on a word ---------- *)

Definition dqf (q : wq) : bool := match q with WDq => true | _ => false end.
Definition sqf (q : wq) : bool := match q with WSq => true | _ => false end.
Definition Qq (q : wq) : quoting := match q with WPlain => QPlain | WDq => QDquot | WSq => QSquot end.

Lemma op_span_head_false f h t : f h = false -> op_span f (h :: t) = None.
Proof. intro H. unfold op_span. cbn [span]. rewrite H. reflexivity. Qed.

Lemma op_span_head_true f h t : f h = true -> op_span f (h :: t) = Some (snd (span f (h :: t))).
Proof. intro H. unfold op_span. cbn [span]. rewrite H. destruct (span f t). reflexivity. Qed.

Lemma strip_prefix_head_false p0 p h t : (p0 =? h) = false -> strip_prefix (p0 :: p) (h :: t) = None.
Proof. intro H. cbn [strip_prefix]. rewrite H. reflexivity. Qed.

Lemma op_byte_head_false b h t : (h =? b) = false -> op_byte b (h :: t) = None.
Proof. intro H. cbn [op_byte]. rewrite H. reflexivity. Qed.

Lemma re_bs_any_head_false h t : (h =? 92) = false -> re_bs_any (h :: t) = None.
Proof. intro H. unfold re_bs_any. destruct t; [reflexivity|]. rewrite H. reflexivity. Qed.

Lemma re_dollars_other_head_false h t : (h =? 36) = false -> re_dollars_other (h :: t) = false.
Proof. intro H. unfold re_dollars_other. destruct t as [|b [|c t]]; try reflexivity. rewrite H. reflexivity. Qed.

Lemma str_eqb_head_false h t p0 p : (h =? p0) = false -> str_eqb (h :: t) (p0 :: p) = false.
Proof. intro H. cbn [str_eqb]. rewrite H. reflexivity. Qed.

Lemma eqb_sym_false a b : (a =? b) = false -> (b =? a) = false.
Proof. rewrite N.eqb_sym. auto. Qed.

(* the loop stops in front of a byte that no case of the switch accepts *)
Lemma istep_none dq sq h t :
  is_text_byte h = false -> (dq = true -> is_dq_byte h = false) ->
  (sq = true -> (h =? 96) = false /\ is_sq_byte h = false) ->
  (h =? 92) = false -> (h =? 36) = false ->
  internal_step dq sq (h :: t) = Ok None.
Proof.
  intros Ht Hd Hs H92 H36. unfold internal_step, re_text, re_dq, re_sq.
  rewrite (op_span_head_false _ _ _ Ht).
  destruct dq.
  - rewrite (op_span_head_false _ _ _ (Hd eq_refl)).
    destruct sq.
    + destruct (Hs eq_refl) as [A B].
      rewrite (op_byte_head_false _ _ _ A), (op_span_head_false _ _ _ B).
      unfold op_string, dollars. rewrite (strip_prefix_head_false _ _ _ _ (eqb_sym_false _ _ H36)). reflexivity.
    + unfold op_string, bs_dollars. rewrite (strip_prefix_head_false _ _ _ _ (eqb_sym_false _ _ H92)).
      rewrite (re_bs_any_head_false _ _ H92), (re_dollars_other_head_false _ _ H36).
      unfold dollars. rewrite (str_eqb_head_false _ _ _ _ H36), (str_eqb_head_false _ _ _ _ H36). reflexivity.
  - destruct sq.
    + destruct (Hs eq_refl) as [A B].
      rewrite (op_byte_head_false _ _ _ A), (op_span_head_false _ _ _ B).
      unfold op_string, dollars. rewrite (strip_prefix_head_false _ _ _ _ (eqb_sym_false _ _ H36)). reflexivity.
    + unfold op_string, bs_dollars. rewrite (strip_prefix_head_false _ _ _ _ (eqb_sym_false _ _ H92)).
      rewrite (re_bs_any_head_false _ _ H92), (re_dollars_other_head_false _ _ H36).
      unfold dollars. rewrite (str_eqb_head_false _ _ _ _ H36), (str_eqb_head_false _ _ _ _ H36). reflexivity.
Qed.

Lemma istep_nil dq sq : internal_step dq sq [] = Ok None.
Proof. destruct dq, sq; reflexivity. Qed.

(* ... and in front of a dollar that starts a variable or a make expression *)
Lemma istep_dollar_none dq c t :
  (c =? 36) = false \/ (exists d t', t = d :: t' /\ is_shvar_start d = true) ->
  internal_step dq false (36 :: c :: t) = Ok None.
Proof.
  intro H. unfold internal_step, re_text, re_dq.
  rewrite (op_span_head_false is_text_byte 36 _ eq_refl).
  assert (Hdq : (if dq then op_span is_dq_byte (36 :: c :: t) else None) = None).
  { destruct dq; [|reflexivity]. apply op_span_head_false. reflexivity. }
  rewrite Hdq. lazy beta iota.
  unfold op_string, bs_dollars. rewrite (strip_prefix_head_false 92 _ 36 _ eq_refl).
  rewrite (re_bs_any_head_false 36 _ eq_refl).
  destruct H as [Hc | (d & t' & -> & Hd)].
  - assert (R : re_dollars_other (36 :: c :: t) = false).
    { unfold re_dollars_other. destruct t; [reflexivity|]. rewrite Hc. reflexivity. }
    rewrite R. unfold dollars. cbn [str_eqb]. rewrite Hc. cbn. reflexivity.
  - destruct (N.eqb_spec c 36) as [->|Hn].
    + unfold re_dollars_other. rewrite Hd. cbn. reflexivity.
    + assert (Hc : (c =? 36) = false) by (apply N.eqb_neq; exact Hn).
      unfold re_dollars_other. rewrite Hc. unfold dollars. cbn [str_eqb]. rewrite Hc. cbn. reflexivity.
Qed.

(* ---------- what the theorem assumes about the expression lexer ---------- *)

Definition dollar_start (s : str) : bool :=
  match s with a :: c :: _ => (a =? 36) && negb (c =? 36) | _ => false end.

(* Expr returns nil unless the text starts with a dollar followed by another byte than a dollar *)
Hypothesis Hnone : forall s, dollar_start s = false -> expr s = None.
(* what rx recognises, Expr takes, whatever follows *)
Hypothesis Hrx : forall w r x, rx (36 :: w) = Some r ->
  exists e, 36 :: w = e ++ r /\ e <> [] /\ expr ((36 :: w) ++ x) = Some (e, r ++ x).

Lemma rx_head w r : rx (36 :: w) = Some r -> exists c t, w = c :: t /\ (c =? 36) = false.
Proof.
  intro H. destruct (Hrx w r [] H) as (e & _ & _ & E).
  destruct (dollar_start ((36 :: w) ++ [])) eqn:D; [|rewrite (Hnone _ D) in E; discriminate].
  rewrite app_nil_r in D. destruct w as [|c t]; [discriminate|]. exists c, t. split; [reflexivity|].
  cbn in D. destruct (c =? 36); [discriminate|reflexivity].
Qed.

Lemma shvar_rest_head w r : shvar_rest w = Some r ->
  exists d t, w = d :: t /\ is_shvar_start d = true /\ (d =? 36) = false /\ (d =? 40) = false.
Proof.
  unfold shvar_rest. destruct w as [|d t]; [discriminate|]. intro H. exists d, t. split; [reflexivity|].
  unfold is_shvar_start.
  destruct (is_digit d) eqn:Dg; [unfold is_digit in Dg; repeat split; [rewrite !orb_true_r; cbn; lia|lia|lia]|].
  destruct (N.eqb_spec d 36) as [->|Hn]; [discriminate|].
  cbn [op_byte] in H. destruct (N.eqb_spec d 123) as [->|H123]; [repeat split; reflexivity|].
  unfold re_shvarname in H.
  destruct (in_set [33; 35; 42; 45; 63; 64] d) eqn:S1.
  { unfold in_set in *. cbn [existsb] in *. repeat split; lia. }
  destruct (d =? 36) eqn:E36; [apply N.eqb_eq in E36; contradiction|].
  destruct (is_alpha d || (d =? 95)) eqn:A.
  { unfold is_alpha, is_lower, is_upper in A. unfold in_set, is_lower, is_upper. cbn [existsb]. repeat split; lia. }
  rewrite Dg in H. discriminate.
Qed.

(* where one iteration of the loop lands *)
Ltac some_inj E r :=
  match type of E with
  | Ok (Some ?a) = Ok (Some r) => assert (Er : a = r) by congruence; clear E; subst r
  end.

Lemma istep_land q u x r : wordp q u -> tail_ok x ->
  internal_step (dqf q) (sqf q) (u ++ x) = Ok (Some r) ->
  exists c u', c <> [] /\ u = c ++ u' /\ r = u' ++ x /\ wordp q u'.
Proof.
  intros H Hx E. inversion H; subst; cbn [dqf sqf app] in E.
  - (* end of the word *)
    destruct (tail_ok_cases x Hx) as [->|[(y & ->)|(y & ->)]].
    + rewrite istep_nil in E. discriminate.
    + rewrite istep_none in E; try reflexivity; try discriminate.
    + rewrite istep_none in E; try reflexivity; try discriminate.
  - (* a text byte outside quotes *)
    unfold is_wtext in H0. apply andb_true_iff in H0 as [Ht _].
    unfold internal_step, re_text in E. rewrite (op_span_head_true _ _ _ Ht) in E.
    some_inj E r.
    destruct (span_plain is_text_byte x Hx eq_refl eq_refl eq_refl eq_refl eq_refl eq_refl (c :: u0) H)
      as (p & u' & E1 & E2 & E3).
    change (c :: u0 ++ x) with ((c :: u0) ++ x). rewrite E2. cbn [snd].
    exists p, u'. repeat split; auto.
    intros ->. cbn [app] in E1. subst u'. cbn [app span] in E2. rewrite Ht in E2.
    destruct (span is_text_byte (u0 ++ x)); discriminate.
  - rewrite istep_none in E; try reflexivity; try discriminate.
  - rewrite istep_none in E; try reflexivity; try discriminate.
  - rewrite istep_none in E; try reflexivity; try discriminate.
  - (* a byte inside double quotes *)
    unfold is_dq_inner in H0. unfold internal_step, re_text, re_dq in E.
    destruct (is_text_byte c) eqn:Ht.
    + rewrite (op_span_head_true _ _ _ Ht) in E. some_inj E r.
      destruct (span_dq is_text_byte x eq_refl eq_refl eq_refl (c :: u0) H) as (p & u' & E1 & E2 & E3).
      change (c :: u0 ++ x) with ((c :: u0) ++ x). rewrite E2. cbn [snd].
      exists p, u'. repeat split; auto.
      intros ->. cbn [app] in E1. subst u'. cbn [app span] in E2. rewrite Ht in E2.
      destruct (span is_text_byte (u0 ++ x)); discriminate.
    + cbn [orb] in H0. rewrite (op_span_head_false _ _ _ Ht) in E.
      rewrite (op_span_head_true _ _ _ H0) in E. some_inj E r.
      destruct (span_dq is_dq_byte x eq_refl eq_refl eq_refl (c :: u0) H) as (p & u' & E1 & E2 & E3).
      change (c :: u0 ++ x) with ((c :: u0) ++ x). rewrite E2. cbn [snd].
      exists p, u'. repeat split; auto.
      intros ->. cbn [app] in E1. subst u'. cbn [app span] in E2. rewrite H0 in E2.
      destruct (span is_dq_byte (u0 ++ x)); discriminate.
  - rewrite istep_none in E; try reflexivity; try discriminate; try (intros _; split; reflexivity).
  - (* a byte inside single quotes *)
    unfold is_sq_inner in H0. unfold internal_step, re_text, re_sq in E.
    destruct (is_text_byte c) eqn:Ht.
    + rewrite (op_span_head_true _ _ _ Ht) in E. some_inj E r.
      destruct (span_sq is_text_byte x eq_refl (c :: u0) H) as (p & u' & E1 & E2 & E3).
      change (c :: u0 ++ x) with ((c :: u0) ++ x). rewrite E2. cbn [snd].
      exists p, u'. repeat split; auto.
      intros ->. cbn [app] in E1. subst u'. cbn [app span] in E2. rewrite Ht in E2.
      destruct (span is_text_byte (u0 ++ x)); discriminate.
    + rewrite (op_span_head_false _ _ _ Ht) in E. lazy beta iota in E.
      destruct (N.eqb_spec c 96) as [->|H96].
      * cbn [op_byte] in E. cbn in E. some_inj E r.
        exists [96], u0. repeat split; auto. discriminate.
      * assert (F96 : (c =? 96) = false) by (apply N.eqb_neq; exact H96).
        rewrite (op_byte_head_false _ _ _ F96) in E. try rewrite F96 in H0. rewrite orb_false_r in H0. cbn [orb] in H0.
        rewrite (op_span_head_true _ _ _ H0) in E. some_inj E r.
        destruct (span_sq is_sq_byte x eq_refl (c :: u0) H) as (p & u' & E1 & E2 & E3).
        change (c :: u0 ++ x) with ((c :: u0) ++ x). rewrite E2. cbn [snd].
        exists p, u'. repeat split; auto.
        intros ->. cbn [app] in E1. subst u'. cbn [app span] in E2. rewrite H0 in E2.
        destruct (span is_sq_byte (u0 ++ x)); discriminate.
  - (* backslash + byte *)
    assert (Sq : sqf q = false) by (destruct q; [reflexivity|reflexivity|contradiction]).
    rewrite Sq in E. unfold internal_step, re_text, re_dq in E.
    rewrite (op_span_head_false is_text_byte 92 _ eq_refl) in E.
    assert (Hdq : (if dqf q then op_span is_dq_byte (92 :: d :: u0 ++ x) else None) = None).
    { destruct (dqf q); [|reflexivity]. apply op_span_head_false. reflexivity. }
    rewrite Hdq in E. lazy beta iota in E.
    unfold op_string, bs_dollars in E. cbn [strip_prefix] in E. rewrite N.eqb_refl in E.
    rewrite (eqb_sym_false _ _ H1) in E.
    unfold re_bs_any in E. rewrite N.eqb_refl, H1 in E.
    unfold utf8_width in E. assert (L : (d <? 194) = true) by lia. rewrite L in E.
    cbn [skipn] in E. some_inj E r.
    exists [92; d], u0. repeat split; auto. discriminate.
  - (* backslash dollar dollar *)
    assert (Sq : sqf q = false) by (destruct q; [reflexivity|reflexivity|contradiction]).
    rewrite Sq in E. unfold internal_step, re_text, re_dq in E.
    rewrite (op_span_head_false is_text_byte 92 _ eq_refl) in E.
    assert (Hdq : (if dqf q then op_span is_dq_byte (92 :: 36 :: 36 :: u0 ++ x) else None) = None).
    { destruct (dqf q); [|reflexivity]. apply op_span_head_false. reflexivity. }
    rewrite Hdq in E. lazy beta iota in E.
    unfold op_string, bs_dollars in E. cbn in E. some_inj E r.
    exists [92; 36; 36], u0. repeat split; auto. discriminate.
  - (* a shell variable: the loop stops in front of it *)
    assert (Sq : sqf q = false) by (destruct q; [reflexivity|reflexivity|contradiction]).
    rewrite Sq in E. destruct (shvar_rest_head _ _ H1) as (d & t & -> & Hd & _ & _).
    rewrite istep_dollar_none in E; [discriminate|]. right. exists d, (t ++ x). auto.
  - (* a make expression: the loop stops in front of it *)
    assert (Sq : sqf q = false) by (destruct q; [reflexivity|reflexivity|contradiction]).
    rewrite Sq in E. destruct (rx_head _ _ H1) as (c & t & -> & Hc).
    cbn [app] in E. rewrite istep_dollar_none in E; [discriminate|]. left. exact Hc.
Qed.

Lemma loop_land q x : tail_ok x -> forall fuel u r, wordp q u ->
  internal_loop fuel (dqf q) (sqf q) (u ++ x) = Ok r ->
  exists p u1, u = p ++ u1 /\ r = u1 ++ x /\ wordp q u1.
Proof.
  intros Hx. induction fuel as [|f IH]; intros u r H E; [discriminate|].
  cbn [internal_loop] in E.
  destruct (internal_step (dqf q) (sqf q) (u ++ x)) as [[r1|]| |] eqn:Es; cbn [bind] in E; try discriminate.
  - destruct (istep_land q u x r1 H Hx Es) as (c & u' & _ & -> & -> & H').
    destruct (IH u' r H' E) as (p & u1 & -> & -> & H1).
    exists (c ++ p), u1. rewrite <- app_assoc. auto.
  - injection E as <-. exists [], u. auto.
Qed.

(* the word continues with a piece of text (in the sense of the state q) *)
Definition text_item (q : wq) (u : str) : Prop :=
  match u with
  | [] => False
  | c :: _ =>
    (c =? 92) = true \/
    match q with
    | WPlain => is_wtext c = true
    | WDq => is_dq_inner c = true /\ (c =? 34) = false
    | WSq => is_sq_inner c = true /\ (c =? 39) = false
    end
  end.

Lemma wtext_facts c : is_wtext c = true ->
  is_text_byte c = true /\ (c =? 35) = false /\ (c =? 36) = false /\ (c =? 92) = false /\
  (c =? 34) = false /\ (c =? 39) = false /\ (c =? 96) = false /\ is_hspace c = false.
Proof. unfold is_wtext, is_text_byte, is_hspace. lia. Qed.

Lemma istep_some q u x : wordp q u -> tail_ok x -> text_item q u ->
  exists r, internal_step (dqf q) (sqf q) (u ++ x) = Ok (Some r).
Proof.
  intros H Hx Ht. pose proof (internal_step_ok (dqf q) (sqf q) (u ++ x)) as Ok1.
  destruct (internal_step (dqf q) (sqf q) (u ++ x)) as [[r|]| |] eqn:E; try contradiction; [eauto|].
  exfalso. inversion H; subst; cbn [text_item dqf sqf app] in *.
  - exact Ht.
  - destruct (wtext_facts _ H0) as (T & _). unfold internal_step, re_text in E.
    rewrite (op_span_head_true _ _ _ T) in E. discriminate.
  - destruct Ht as [Z|Z]; discriminate.
  - destruct Ht as [Z|Z]; discriminate.
  - destruct Ht as [Z|[_ Z]]; discriminate.
  - unfold is_dq_inner in H0. unfold internal_step, re_text, re_dq in E.
    destruct (is_text_byte c) eqn:T.
    + rewrite (op_span_head_true _ _ _ T) in E. discriminate.
    + cbn [orb] in H0. rewrite (op_span_head_false _ _ _ T), (op_span_head_true _ _ _ H0) in E. discriminate.
  - destruct Ht as [Z|[_ Z]]; discriminate.
  - unfold is_sq_inner in H0. unfold internal_step, re_text, re_sq in E.
    destruct (is_text_byte c) eqn:T.
    + rewrite (op_span_head_true _ _ _ T) in E. discriminate.
    + rewrite (op_span_head_false _ _ _ T) in E. lazy beta iota in E.
      destruct (N.eqb_spec c 96) as [->|H96]; [cbn in E; discriminate|].
      assert (F96 : (c =? 96) = false) by (apply N.eqb_neq; exact H96).
      rewrite (op_byte_head_false _ _ _ F96) in E. rewrite orb_false_r in H0. cbn [orb] in H0.
      rewrite (op_span_head_true _ _ _ H0) in E. discriminate.
  - (* backslash + byte *)
    assert (Sq : sqf q = false) by (destruct q; [reflexivity|reflexivity|contradiction]).
    rewrite Sq in E. unfold internal_step, re_text, re_dq in E.
    rewrite (op_span_head_false is_text_byte 92 _ eq_refl) in E.
    assert (Hdq : (if dqf q then op_span is_dq_byte (92 :: d :: u0 ++ x) else None) = None).
    { destruct (dqf q); [|reflexivity]. apply op_span_head_false. reflexivity. }
    rewrite Hdq in E. lazy beta iota in E.
    unfold op_string, bs_dollars in E. cbn [strip_prefix] in E. rewrite N.eqb_refl in E.
    rewrite (eqb_sym_false _ _ H1) in E.
    unfold re_bs_any in E. rewrite N.eqb_refl, H1 in E. discriminate.
  - assert (Sq : sqf q = false) by (destruct q; [reflexivity|reflexivity|contradiction]).
    rewrite Sq in E. unfold internal_step, re_text, re_dq in E.
    rewrite (op_span_head_false is_text_byte 92 _ eq_refl) in E.
    assert (Hdq : (if dqf q then op_span is_dq_byte (92 :: 36 :: 36 :: u0 ++ x) else None) = None).
    { destruct (dqf q); [|reflexivity]. apply op_span_head_false. reflexivity. }
    rewrite Hdq in E. lazy beta iota in E.
    unfold op_string, bs_dollars in E. cbn in E. discriminate.
  - destruct Ht as [Z|Z]; [discriminate|].
    destruct q; [| |contradiction]; cbn in Z; try discriminate. destruct Z; discriminate.
  - destruct Ht as [Z|Z]; [discriminate|].
    destruct q; [| |contradiction]; cbn in Z; try discriminate. destruct Z; discriminate.
Qed.

(* shAtomInternal on a piece of text: one text atom, which ends on a word boundary *)
Lemma internal_text q u x iw : wordp q u -> tail_ok x -> text_item q u ->
  exists p u1, p <> [] /\ u = p ++ u1 /\ wordp q u1 /\
    sh_atom_internal (Qq q) (dqf q) (sqf q) (iw, u ++ x)
    = Ok (Some (mk_atom ShtText p (Qq q)), (true, u1 ++ x)).
Proof.
  intros H Hx Ht.
  assert (Hd : op_string dollars (u ++ x) = None).
  { destruct u as [|c u0]; [contradiction|]. cbn [app]. unfold op_string, dollars.
    apply strip_prefix_head_false. cbn [text_item] in Ht.
    destruct Ht as [Z|Z]; [apply N.eqb_eq in Z; subst c; reflexivity|].
    destruct q.
    - destruct (wtext_facts _ Z) as (_ & _ & Z36 & _). rewrite N.eqb_sym. exact Z36.
    - destruct Z as [Z _]. destruct (N.eqb_spec 36 c) as [<-|]; [discriminate|reflexivity].
    - destruct Z as [Z _]. destruct (N.eqb_spec 36 c) as [<-|]; [discriminate|reflexivity]. }
  unfold sh_atom_internal, sh_expr. rewrite Hd. cbn [bind].
  destruct (istep_some q u x H Hx Ht) as (r1 & E1).
  destruct (istep_land q u x r1 H Hx E1) as (c1 & u' & Hc1 & -> & -> & H').
  cbn [internal_loop]. rewrite E1. cbn [bind].
  destruct (internal_loop_ok (dqf q) (sqf q) (length ((c1 ++ u') ++ x)) (u' ++ x)) as (c2 & r & E2 & _).
  { rewrite !app_length. destruct c1; [congruence|]. simpl. lia. }
  rewrite E2. cbn [bind].
  destruct (loop_land q x Hx _ _ _ H' E2) as (p' & u1 & -> & -> & H1).
  replace ((c1 ++ p' ++ u1) ++ x) with ((c1 ++ p') ++ u1 ++ x) by (rewrite <- !app_assoc; reflexivity).
  rewrite since_app. cbn [bind].
  destruct (c1 ++ p') as [|y z] eqn:Ey; [apply app_eq_nil in Ey as [-> _]; congruence|].
  exists (y :: z), u1. split; [discriminate|]. split; [rewrite <- Ey, <- app_assoc; reflexivity|].
  split; [exact H1|reflexivity].
Qed.

(* shExpr on a shell variable of the word *)
Lemma sh_expr_shvar q w r x : shvar_rest w = Some r -> tail_ok x ->
  exists v, w = v ++ r /\
    sh_expr q (36 :: 36 :: w ++ x) = Ok (Some (mk_atom ShtShExpr (36 :: 36 :: v) q, r ++ x)).
Proof.
  intros H Hx. unfold shvar_rest in H. destruct w as [|d t]; [discriminate|].
  unfold sh_expr. unfold op_string, dollars. cbn [strip_prefix app]. rewrite !N.eqb_refl.
  assert (G : forall v r0, d :: t = v ++ r0 ->
     bind (since (36 :: 36 :: d :: t ++ x) (r0 ++ x)) (fun text => Ok (Some (mk_atom ShtShExpr text q, r0 ++ x)))
     = Ok (Some (mk_atom ShtShExpr (36 :: 36 :: v) q, r0 ++ x))).
  { intros v r0 E. change (36 :: 36 :: d :: t ++ x) with ([36; 36] ++ (d :: t) ++ x). rewrite E.
    replace ([36; 36] ++ (v ++ r0) ++ x) with ((36 :: 36 :: v) ++ r0 ++ x) by (cbn; rewrite <- app_assoc; reflexivity).
    rewrite since_app. reflexivity. }
  destruct (is_digit d) eqn:Dg.
  - injection H as <-. exists [d]. split; [reflexivity|].
    cbn [skip length Nat.leb skipn bind].
    change (36 :: 36 :: d :: t ++ x) with ([36; 36; d] ++ t ++ x). rewrite since_app. reflexivity.
  - destruct (d =? 36) eqn:D36; [discriminate|].
    cbn [op_byte] in *. destruct (d =? 123) eqn:D123.
    + destruct (re_shvarname t) as [w2|] eqn:E2; [|discriminate].
      destruct (adv_re_shvarname _ _ E2) as (c2 & _ & Et).
      rewrite (re_shvarname_ext _ _ x E2 Hx).
      destruct (re_shmodifier w2) as [w3|] eqn:E3.
      * destruct w3 as [|b3 w3']; [discriminate|].
        destruct (adv_re_shmodifier _ _ E3) as (c3 & _ & E3').
        rewrite (re_shmodifier_ext _ _ _ x E3). cbn [app op_byte] in *.
        destruct (b3 =? 125) eqn:B; [|discriminate]. injection H as <-.
        apply N.eqb_eq in B. subst b3.
        exists (d :: c2 ++ c3 ++ [125]). split.
        { rewrite Et, E3'. cbn. rewrite <- !app_assoc. reflexivity. }
        apply G. rewrite Et, E3'. cbn. rewrite <- !app_assoc. reflexivity.
      * destruct w2 as [|b2 w2']; [discriminate|]. cbn [op_byte] in H.
        destruct (b2 =? 125) eqn:B; [|discriminate]. injection H as <-.
        apply N.eqb_eq in B. subst b2.
        assert (M : re_shmodifier ((125 :: w2') ++ x) = None) by reflexivity.
        rewrite M. cbn [app op_byte]. cbn.
        exists (d :: c2 ++ [125]). split.
        { rewrite Et. cbn. rewrite <- !app_assoc. reflexivity. }
        apply (G (d :: c2 ++ [125]) w2'). rewrite Et. cbn. rewrite <- !app_assoc. reflexivity.
    + destruct (adv_re_shvarname _ _ H) as (c2 & _ & Et).
      change (d :: t ++ x) with ((d :: t) ++ x). rewrite (re_shvarname_ext _ _ x H Hx).
      exists c2. split; [exact Et|]. apply G. exact Et.
Qed.

(* ---------- one call of ShAtom inside a word ---------- *)

Lemma expr_none_head c t : (c =? 36) = false -> expr (c :: t) = None.
Proof. intro H. apply Hnone. cbn. destruct t; [reflexivity|]. rewrite H. reflexivity. Qed.

Lemma expr_none_dd t : expr (36 :: 36 :: t) = None.
Proof. apply Hnone. reflexivity. Qed.

Lemma expr_none_tail x : tail_ok x -> expr x = None.
Proof.
  intro Hx. destruct (tail_ok_cases x Hx) as [->|[(y & ->)|(y & ->)]]; [apply Hnone; reflexivity| |];
    apply expr_none_head; reflexivity.
Qed.

(* the first byte of what is left of a word outside quotes (or of what follows the word) *)
Definition plain_head (h : N) : Prop :=
  is_wtext h = true \/ h = 34 \/ h = 39 \/ h = 92 \/ h = 36 \/ h = 32 \/ h = 9.

Lemma word_head u x h t : wordp WPlain u -> tail_ok x -> u ++ x = h :: t -> plain_head h.
Proof.
  intros H Hx E. unfold plain_head. inversion H; subst; cbn [app] in E.
  - destruct (tail_ok_cases x Hx) as [->|[(y & ->)|(y & ->)]]; try discriminate; injection E as <- _; auto 10.
  - injection E as <- _. auto.
  - injection E as <- _. auto 10.
  - injection E as <- _. auto 10.
  - injection E as <- _. auto 10.
  - injection E as <- _. auto 10.
  - injection E as <- _. auto 10.
  - injection E as <- _. auto 10.
Qed.

Lemma plain_head_facts h : plain_head h ->
  (h =? 124) = false /\ (h =? 38) = false /\ (h =? 59) = false /\ (h =? 10) = false /\
  (h =? 40) = false /\ (h =? 41) = false /\ (60 =? h) = false /\ (62 =? h) = false /\
  (h =? 96) = false /\ (h =? 35) = false.
Proof.
  unfold plain_head, is_wtext, is_text_byte.
  intros [H|[->|[->|[->|[->|[->| ->]]]]]]; repeat split; try reflexivity; lia.
Qed.

Lemma first_prefix_head h t : (60 =? h) = false -> (62 =? h) = false ->
  first_prefix redirect_ops (h :: t) = None.
Proof. intros A B. unfold redirect_ops. cbn [first_prefix strip_prefix]. rewrite A, B. reflexivity. Qed.

Lemma re_redirect_word u x : wordp WPlain u -> tail_ok x -> re_redirect (u ++ x) = None.
Proof.
  intros H Hx. unfold re_redirect.
  destruct (span_plain is_digit x Hx eq_refl eq_refl eq_refl eq_refl eq_refl eq_refl u H) as (p & u' & _ & E & H').
  rewrite E. cbn [snd]. destruct (u' ++ x) as [|h t] eqn:Eu; [reflexivity|].
  destruct (plain_head_facts h (word_head u' x h t H' Hx Eu)) as (_ & _ & _ & _ & _ & _ & A & B & _).
  apply first_prefix_head; assumption.
Qed.

Lemma sh_operator_word q u x : wordp WPlain u -> tail_ok x -> sh_operator q (u ++ x) = Ok None.
Proof.
  intros H Hx. pose proof (re_redirect_word u x H Hx) as R. unfold sh_operator.
  destruct (u ++ x) as [|h t] eqn:Eu.
  - cbn [first_alt op_string strip_prefix op_span span op_byte]. rewrite R. reflexivity.
  - destruct (plain_head_facts h (word_head u x h t H Hx Eu)) as (A & B & C & D & E & F & _).
    cbn [first_alt]. unfold op_string.
    rewrite (strip_prefix_head_false 124 _ h _ (eqb_sym_false _ _ A)).
    rewrite (strip_prefix_head_false 38 _ h _ (eqb_sym_false _ _ B)).
    rewrite (strip_prefix_head_false 59 _ h _ (eqb_sym_false _ _ C)).
    rewrite (op_span_head_false _ h t D).
    rewrite (op_byte_head_false 59 h t C), (op_byte_head_false 40 h t E), (op_byte_head_false 41 h t F),
            (op_byte_head_false 124 h t A), (op_byte_head_false 38 h t B).
    rewrite R. reflexivity.
Qed.

(* ShAtom outside quotes, in front of something that is neither a quote nor a blank:
   it comes down to shAtomInternal *)
Lemma plain_to_internal u x iw h t : wordp WPlain u -> tail_ok x -> u ++ x = h :: t ->
  (h =? 34) = false -> (h =? 39) = false -> is_hspace h = false ->
  (forall t', t = 36 :: 40 :: t' -> h <> 36) ->
  sh_atom_plain (iw, u ++ x) = sh_atom_internal QPlain false false (false, u ++ x).
Proof.
  intros H Hx Eu H34 H39 Hsp Hsub. unfold sh_atom_plain. rewrite (sh_operator_word QPlain u x H Hx). cbn [bind].
  destruct (plain_head_facts h (word_head u x h t H Hx Eu)) as (_ & _ & _ & _ & _ & _ & _ & _ & H96 & H35).
  rewrite Eu. cbn [first_alt]. unfold op_hspace.
  rewrite (op_span_head_false _ h t Hsp), (op_byte_head_false 34 h t H34), (op_byte_head_false 39 h t H39),
          (op_byte_head_false 96 h t H96). cbn [bind].
  rewrite H35. cbn [andb]. unfold alts_then_internal. cbn [first_alt]. unfold op_string, dollars_paren.
  assert (S : strip_prefix [36; 36; 40] (h :: t) = None).
  { cbn [strip_prefix]. destruct (N.eqb_spec 36 h) as [<-|]; [|reflexivity].
    destruct t as [|b t1]; [reflexivity|]. destruct (N.eqb_spec 36 b) as [<-|]; [|reflexivity].
    destruct t1 as [|b2 t2]; [reflexivity|]. destruct (N.eqb_spec 40 b2) as [<-|]; [|reflexivity].
    exfalso. exact (Hsub t2 eq_refl eq_refl). }
  rewrite S. cbn [bind]. reflexivity.
Qed.

(* rx does not take the expression that ShToken skips *)
Hypothesis Hul : forall r, rx (ulimit_cmd ++ r) = None.

Definition atom_step_result (q : wq) (u x : str) (iw : bool) : Prop :=
  exists a iw' q' u',
    sh_atom expr (Qq q) (iw, u ++ x) = Ok (Some a, (iw', u' ++ x)) /\
    a_quot a = Qq q' /\ wordp q' u' /\ u = a_text a ++ u' /\ a_text a <> [] /\
    is_word (a_type a) = true /\ a_text a <> ulimit_cmd.

Lemma not_ulimit_head h t : h <> 36 -> h :: t <> ulimit_cmd.
Proof. intros Hh E. injection E as E _. contradiction. Qed.

Lemma text_item_head q u : text_item q u -> exists c t, u = c :: t /\ (c =? 36) = false.
Proof.
  destruct u as [|c t]; [contradiction|]. intro H. exists c, t. split; [reflexivity|].
  cbn [text_item] in H. destruct H as [Z|Z]; [apply N.eqb_eq in Z; subst c; reflexivity|].
  destruct q.
  - destruct (wtext_facts _ Z) as (_ & _ & Z36 & _). exact Z36.
  - destruct Z as [Z _]. destruct (N.eqb_spec c 36) as [->|]; [discriminate|reflexivity].
  - destruct Z as [Z _]. destruct (N.eqb_spec c 36) as [->|]; [discriminate|reflexivity].
Qed.

(* a piece of text, in any of the three states *)
Lemma atom_step_text q u x iw : wordp q u -> tail_ok x -> text_item q u -> atom_step_result q u x iw.
Proof.
  intros H Hx Ht. destruct (text_item_head q u Ht) as (c & t & Eu & C36).
  assert (Ex : expr (u ++ x) = None) by (rewrite Eu; apply expr_none_head; exact C36).
  assert (Disp : exists iw0, sh_atom_dispatch (Qq q) (iw, u ++ x)
                 = sh_atom_internal (Qq q) (dqf q) (sqf q) (iw0, u ++ x)).
  { destruct q; cbn [Qq dqf sqf sh_atom_dispatch].
    - exists false. apply (plain_to_internal u x iw c (t ++ x) H Hx); [rewrite Eu; reflexivity| | | |].
      + subst u. cbn [text_item] in Ht. destruct Ht as [Z|Z]; [apply N.eqb_eq in Z; subst c; reflexivity|].
        apply (wtext_facts _ Z).
      + subst u. cbn [text_item] in Ht. destruct Ht as [Z|Z]; [apply N.eqb_eq in Z; subst c; reflexivity|].
        apply (wtext_facts _ Z).
      + subst u. cbn [text_item] in Ht. destruct Ht as [Z|Z]; [apply N.eqb_eq in Z; subst c; reflexivity|].
        apply (wtext_facts _ Z).
      + intros t' _ ->. discriminate.
    - exists iw. unfold sh_atom_dquot, alts_then_internal. rewrite Eu. cbn [app first_alt].
      subst u. cbn [text_item] in Ht.
      assert (A : (c =? 34) = false /\ (c =? 96) = false).
      { destruct Ht as [Z|[Z Z']]; [apply N.eqb_eq in Z; subst c; split; reflexivity|].
        split; [exact Z'|]. destruct (N.eqb_spec c 96) as [->|]; [discriminate|reflexivity]. }
      destruct A as [A B]. rewrite (op_byte_head_false 34 c _ A), (op_byte_head_false 96 c _ B). reflexivity.
    - exists iw. unfold sh_atom_squot, alts_then_internal. rewrite Eu. cbn [app first_alt].
      subst u. cbn [text_item] in Ht.
      assert (A : (c =? 39) = false).
      { destruct Ht as [Z|[Z Z']]; [apply N.eqb_eq in Z; subst c; reflexivity|exact Z']. }
      rewrite (op_byte_head_false 39 c _ A). reflexivity. }
  destruct Disp as (iw0 & Disp).
  destruct (internal_text q u x iw0 H Hx Ht) as (p & u1 & Hp & Eu1 & H1 & Ei).
  exists (mk_atom ShtText p (Qq q)), true, q, u1.
  split.
  { unfold sh_atom. rewrite Eu in *. cbn [app] in *. rewrite Ex, Disp, Ei. reflexivity. }
  cbn [a_quot a_text a_type is_word]. repeat split; auto.
  destruct p as [|y z]; [congruence|]. apply not_ulimit_head.
  rewrite Eu in Eu1. injection Eu1 as <- _. intros ->. discriminate.
Qed.

Lemma dq_inner_not_close c : is_dq_inner c = true -> (c =? 34) = false.
Proof. intro H. destruct (N.eqb_spec c 34) as [->|]; [discriminate|reflexivity]. Qed.
Lemma sq_inner_not_close c : is_sq_inner c = true -> (c =? 39) = false.
Proof. intro H. destruct (N.eqb_spec c 39) as [->|]; [discriminate|reflexivity]. Qed.

(* a single byte that only switches the quoting state *)
Lemma atom_step_quote q q' b u0 x iw :
  sh_atom_dispatch (Qq q) (iw, b :: u0 ++ x)
    = Ok (Some (mk_atom ShtText [b] (Qq q')), ((match q with WPlain => false | _ => iw end), u0 ++ x)) ->
  (b =? 36) = false -> wordp q' u0 -> atom_step_result q (b :: u0) x iw.
Proof.
  intros D B H'. exists (mk_atom ShtText [b] (Qq q')), (match q with WPlain => false | _ => iw end), q', u0.
  split.
  { unfold sh_atom. cbn [app]. rewrite (expr_none_head b _ B), D. reflexivity. }
  cbn [a_quot a_text a_type is_word]. repeat split; auto; try discriminate.
Qed.

Lemma atom_step q u x iw : wordp q u -> u <> [] -> tail_ok x -> atom_step_result q u x iw.
Proof.
  intros H Hne Hx. inversion H; subst.
  - congruence.
  - apply atom_step_text; auto. cbn. auto.
  - (* opening double quote *)
    apply (atom_step_quote WPlain WDq); auto.
    cbn [Qq sh_atom_dispatch]. unfold sh_atom_plain.
    change (34 :: u0 ++ x) with ((34 :: u0) ++ x). rewrite (sh_operator_word QPlain _ x H Hx). cbn [bind app].
    cbn [first_alt]. unfold op_hspace. rewrite (op_span_head_false is_hspace 34 _ eq_refl).
    cbn [op_byte]. rewrite N.eqb_refl. change (34 :: u0 ++ x) with ([34] ++ u0 ++ x). rewrite since_app. reflexivity.
  - (* opening single quote *)
    apply (atom_step_quote WPlain WSq); auto.
    cbn [Qq sh_atom_dispatch]. unfold sh_atom_plain.
    change (39 :: u0 ++ x) with ((39 :: u0) ++ x). rewrite (sh_operator_word QPlain _ x H Hx). cbn [bind app].
    cbn [first_alt]. unfold op_hspace. rewrite (op_span_head_false is_hspace 39 _ eq_refl).
    cbn [op_byte]. cbn [N.eqb Pos.eqb]. change (39 :: u0 ++ x) with ([39] ++ u0 ++ x). rewrite since_app. reflexivity.
  - (* closing double quote *)
    apply (atom_step_quote WDq WPlain); auto.
    cbn [Qq sh_atom_dispatch]. unfold sh_atom_dquot, alts_then_internal. cbn [first_alt op_byte]. rewrite N.eqb_refl.
    change (34 :: u0 ++ x) with ([34] ++ u0 ++ x). rewrite since_app. reflexivity.
  - apply atom_step_text; auto. cbn. right. split; [assumption|apply dq_inner_not_close; assumption].
  - (* closing single quote *)
    apply (atom_step_quote WSq WPlain); auto.
    cbn [Qq sh_atom_dispatch]. unfold sh_atom_squot, alts_then_internal. cbn [first_alt op_byte]. rewrite N.eqb_refl.
    change (39 :: u0 ++ x) with ([39] ++ u0 ++ x). rewrite since_app. reflexivity.
  - apply atom_step_text; auto. cbn. right. split; [assumption|apply sq_inner_not_close; assumption].
  - apply atom_step_text; auto. cbn. auto.
  - apply atom_step_text; auto. cbn. auto.
  - (* shell variable *)
    destruct (sh_expr_shvar (Qq q) w r x H1 Hx) as (v & Ew & Es).
    destruct (shvar_rest_head w r H1) as (d & t & Ed & _ & _ & D40).
    assert (Disp : exists iw0, sh_atom_dispatch (Qq q) (iw, (36 :: 36 :: w) ++ x)
                   = sh_atom_internal (Qq q) (dqf q) (sqf q) (iw0, (36 :: 36 :: w) ++ x)).
    { destruct q; [| |contradiction]; cbn [Qq dqf sqf sh_atom_dispatch].
      - exists false. apply (plain_to_internal _ x iw 36 (36 :: w ++ x) H Hx); try reflexivity.
        intros t' E. injection E as E. rewrite Ed in E. cbn [app] in E. injection E as E _. subst d. discriminate.
      - exists iw. unfold sh_atom_dquot, alts_then_internal. cbn [app first_alt op_byte]. reflexivity. }
    destruct Disp as (iw0 & Disp).
    exists (mk_atom ShtShExpr (36 :: 36 :: v) (Qq q)), true, q, r.
    split.
    { unfold sh_atom. cbn [app] in *. rewrite expr_none_dd, Disp.
      unfold sh_atom_internal. rewrite Es. reflexivity. }
    cbn [a_quot a_text a_type is_word]. repeat split; auto; try discriminate.
    cbn [app]. rewrite Ew. reflexivity.
  - (* make expression *)
    destruct (Hrx w r x H1) as (e & Ee & Hne' & Ex).
    exists (mk_atom ShtExpr e (Qq q)), true, q, r.
    split.
    { unfold sh_atom. cbn [app] in *. rewrite Ex. reflexivity. }
    cbn [a_quot a_text a_type is_word]. repeat split; auto.
    intros ->. rewrite Ee, Hul in H1. discriminate.
Qed.

(* ---------- the blank after a word ---------- *)

Lemma since1 a (r : str) : since (a :: r) r = Ok [a].
Proof. exact (since_app [a] r). Qed.
Lemma since2 a b (r : str) : since (a :: b :: r) r = Ok [a; b].
Proof. exact (since_app [a; b] r). Qed.
Lemma since3 a b c (r : str) : since (a :: b :: c :: r) r = Ok [a; b; c].
Proof. exact (since_app [a; b; c] r). Qed.

(* ShAtom in front of a blank, outside quotes: a space atom *)
Lemma space_atom iw b y : is_hspace b = true ->
  exists sp r, sh_atom expr QPlain (@pair bool str iw (b :: y)) = Ok (Some (mk_atom ShtSpace sp QPlain), (false, r)) /\
              b :: y = sp ++ r /\ sp <> [].
Proof.
  intro Hb. assert (B36 : (b =? 36) = false) by (unfold is_hspace in Hb; lia).
  unfold sh_atom. rewrite (expr_none_head b y B36). cbn [sh_atom_dispatch]. unfold sh_atom_plain.
  assert (Ho : sh_operator QPlain (b :: y) = Ok None).
  { change (b :: y) with ([] ++ b :: y). apply sh_operator_word; [constructor|].
    right. exists b, y. auto. }
  rewrite Ho. cbn [bind first_alt]. unfold op_hspace. rewrite (op_span_head_true _ _ _ Hb).
  pose proof (span_app is_hspace (b :: y)) as Es.
  destruct (span is_hspace (b :: y)) as [sp r] eqn:E. cbn [fst snd] in *.
  assert (Sx : since (b :: y) r = Ok sp) by (rewrite <- Es; apply since_app).
  rewrite Sx. cbn [bind].
  exists sp, r. split; [reflexivity|]. split; [auto|].
  intros ->. cbn [span] in E. rewrite Hb in E. destruct (span is_hspace y); discriminate.
Qed.

(* exactly one blank when the next byte is not a blank *)
Lemma space_atom_one iw y : (forall h t, y = h :: t -> is_hspace h = false) ->
  sh_atom expr QPlain (@pair bool str iw (32 :: y)) = Ok (Some (mk_atom ShtSpace [32] QPlain), (false, y)).
Proof.
  intro Hy. destruct (space_atom iw 32 y eq_refl) as (sp & r & E & Es & _). rewrite E.
  assert (S : span is_hspace (32 :: y) = ([32], y)).
  { cbn [span]. change (is_hspace 32) with true. cbn match.
    destruct y as [|h t]; [reflexivity|]. cbn [span]. rewrite (Hy h t eq_refl). reflexivity. }
  clear Es. unfold sh_atom in E. rewrite (expr_none_head 32 y eq_refl) in E. cbn [sh_atom_dispatch] in E.
  unfold sh_atom_plain in E.
  assert (Ho : sh_operator QPlain (32 :: y) = Ok None).
  { change (32 :: y) with ([] ++ 32 :: y). apply sh_operator_word; [constructor|apply tail_ok_blank]. }
  rewrite Ho in E. cbn [bind first_alt] in E. unfold op_hspace in E.
  rewrite (op_span_head_true is_hspace 32 y eq_refl), S in E. cbn [snd] in E. rewrite since1 in E.
  cbn [bind] in E. injection E as <- <-. reflexivity.
Qed.

(* ---------- collecting the atoms of a word ---------- *)

Lemma word_collect fuel : forall q u x k acc,
  wordp q u -> tail_ok x -> t_curr k = None -> t_q k = Qq q -> rest_of k = u ++ x ->
  (length (u ++ x) < fuel)%nat ->
  exists k2 more,
    collect_atoms expr fuel k acc = Ok (k2, acc ++ more) /\
    rest_of k2 = x /\ t_q k2 = QPlain /\ concat (map a_text more) = u.
Proof.
  induction fuel as [|f IH]; intros q u x k acc H Hx Hc Hq Hr Hf; [lia|].
  cbn [collect_atoms]. unfold peek. rewrite Hc, Hq.
  unfold rest_of in Hr. destruct (t_st k) as [iw s] eqn:Est. cbn [snd] in Hr. subst s.
  destruct u as [|c0 u0].
  - (* end of the word *)
    inversion H; subst. cbn [app Qq] in *.
    destruct x as [|b y].
    + cbn [sh_atom bind]. eexists _, []. rewrite app_nil_r. split; [reflexivity|]. repeat split.
    + assert (Hb : is_hspace b = true).
      { destruct Hx as [Z|(b' & y' & Z & Hb)]; [discriminate|]. injection Z as -> _. exact Hb. }
      destruct (space_atom iw b y Hb) as (sp & r & E & _ & _). rewrite E. cbn [bind t_curr].
      cbn [a_type is_word negb t_q a_quot quoting_eqb andb t_prevq].
      eexists _, []. rewrite app_nil_r. split; [reflexivity|]. repeat split.
  - destruct (atom_step q (c0 :: u0) x iw H ltac:(discriminate) Hx)
      as (a & iw' & q' & u' & E & Ea & H' & Eu & Hn & Hw & _).
    cbn [app] in E |- *. unfold str in *. rewrite E. cbn [bind t_curr]. rewrite Hw. cbn [negb andb].
    assert (Hl : (length (u' ++ x) < f)%nat).
    { rewrite Eu, !app_length in Hf. rewrite app_length. destruct (a_text a); [congruence|]. simpl in Hf. lia. }
    destruct (IH q' u' x (set_curr (mk_tkst (Some a) (a_quot a) (Qq q) (iw', u' ++ x)) None) (acc ++ [a])
                H' Hx eq_refl Ea eq_refl Hl) as (k2 & more & E2 & R2 & Q2 & C2).
    rewrite E2. exists k2, (a :: more). split; [rewrite <- app_assoc; reflexivity|].
    repeat split; auto. cbn [map concat]. rewrite C2. symmetry. exact Eu.
Qed.

(* ---------- ShToken on a word ---------- *)

(* the part of ShToken after the loop that skips the blanks *)
Definition tok_cont (f : nat) (k : tkst) (initial_mark : str) : res (option token * state) :=
  match t_curr k with
  | None => Ok (None, t_st k)
  | Some curr =>
    if str_eqb (a_text curr) ulimit_cmd then sh_token_fuel expr f (t_st k)
    else if negb (is_word (a_type curr)) && negb (quoting_eqb (t_q k) QSubsh) then
      bind (new_sh_token (a_text curr) [curr]) (fun t => Ok (Some t, t_st k))
    else
      bind (collect_atoms expr f k []) (fun '(k2, atoms) =>
      if negb (quoting_eqb (t_q k2) QPlain) then
        Ok (None, (fst (t_st k2), initial_mark))
      else
        bind (since initial_mark (snd (t_st k2))) (fun text =>
        bind (new_sh_token text atoms) (fun t => Ok (Some t, t_st k2))))
  end.

Lemma sh_token_fuel_S f st :
  sh_token_fuel expr (S f) st
  = bind (skip_spaces expr f (mk_tkst None QPlain QPlain st) (snd st)) (fun '(k, im) => tok_cont f k im).
Proof. reflexivity. Qed.

Lemma str_eqb_neq (a b : str) : a <> b -> str_eqb a b = false.
Proof. intro H. destruct (str_eqb a b) eqn:E; [apply str_eqb_eq in E; contradiction|reflexivity]. Qed.

Lemma word_nonblank w x : wordp WPlain w -> w <> [] -> forall h t, w ++ x = h :: t -> is_hspace h = false.
Proof.
  intros H Hne h t E. inversion H; subst; cbn [app] in E; try congruence; injection E as <- _; try reflexivity.
  apply (wtext_facts _ H0).
Qed.

(* a blank in front of a word is skipped *)
Lemma skip_blank_word f iw w x init : wordp WPlain w -> w <> [] ->
  skip_spaces expr (S f) (mk_tkst None QPlain QPlain (@pair bool str iw (32 :: w ++ x))) init
  = skip_spaces expr f (mk_tkst None QPlain QPlain (@pair bool str false (w ++ x))) (w ++ x).
Proof.
  intros H Hne. cbn [skip_spaces]. unfold peek. cbn [t_curr t_q t_st].
  rewrite (space_atom_one iw (w ++ x) (word_nonblank w x H Hne)). reflexivity.
Qed.

(* the loop that skips blanks stops at the first atom of the word *)
Lemma skip_word f iw w x init : wordp WPlain w -> w <> [] -> tail_ok x ->
  exists a iw' q' u',
    skip_spaces expr (S f) (mk_tkst None QPlain QPlain (@pair bool str iw (w ++ x))) init
    = Ok (mk_tkst (Some a) (a_quot a) QPlain (@pair bool str iw' (u' ++ x)), init) /\
    a_quot a = Qq q' /\ wordp q' u' /\ w = a_text a ++ u' /\ a_text a <> [] /\
    is_word (a_type a) = true /\ a_text a <> ulimit_cmd.
Proof.
  intros H Hne Hx.
  destruct (atom_step WPlain w x iw H Hne Hx) as (a & iw' & q' & u' & E & Ea & H' & Eu & Hn & Hw & Hu).
  exists a, iw', q', u'. split; [|auto 10].
  cbn [skip_spaces]. unfold peek. cbn [t_curr t_q t_st Qq] in *. unfold str in *. rewrite E. cbn [bind t_curr].
  destruct (a_type a); try discriminate; reflexivity.
Qed.

Lemma tok_cont_word f a iw' q' u' w x :
  a_quot a = Qq q' -> wordp q' u' -> w = a_text a ++ u' -> a_text a <> [] ->
  is_word (a_type a) = true -> a_text a <> ulimit_cmd -> tail_ok x ->
  (length (w ++ x) + 1 <= f)%nat ->
  exists atoms iw2,
    tok_cont f (mk_tkst (Some a) (a_quot a) QPlain (@pair bool str iw' (u' ++ x))) (w ++ x)
    = Ok (Some (mk_token w atoms), (iw2, x)).
Proof.
  intros Ea H' Ew Hn Hw Hu Hx Hf. unfold tok_cont. cbn [t_curr t_st t_q].
  rewrite (str_eqb_neq _ _ Hu), Hw. cbn [negb andb].
  destruct f as [|f']; [lia|]. cbn [collect_atoms]. unfold peek. cbn [t_curr bind]. rewrite Hw. cbn [negb andb].
  assert (Hl : (length (u' ++ x) < f')%nat).
  { rewrite Ew, !app_length in Hf. rewrite app_length. destruct (a_text a); [congruence|]. simpl in Hf. lia. }
  destruct (word_collect f' q' u' x (set_curr (mk_tkst (Some a) (a_quot a) QPlain (@pair bool str iw' (u' ++ x))) None)
              ([] ++ [a]) H' Hx eq_refl Ea eq_refl Hl) as (k2 & more & E2 & R2 & Q2 & C2).
  rewrite E2. cbn [bind]. rewrite Q2. cbn [quoting_eqb negb].
  unfold rest_of in R2. rewrite R2. rewrite since_app. cbn [bind].
  unfold new_sh_token. destruct w as [|w0 w']; [destruct (a_text a); [congruence|discriminate]|].
  cbn [app]. cbn [bind]. destruct (t_st k2) as [iw2 r2]. cbn [snd] in R2. subst r2.
  eexists _, iw2. reflexivity.
Qed.

Lemma word_token f iw w x : wordp WPlain w -> w <> [] -> tail_ok x ->
  (length (w ++ x) + 2 <= f)%nat ->
  exists atoms iw2, sh_token_fuel expr f (@pair bool str iw (w ++ x)) = Ok (Some (mk_token w atoms), (iw2, x)).
Proof.
  intros H Hne Hx Hf. destruct f as [|[|f]]; try lia. rewrite sh_token_fuel_S. cbn [snd].
  destruct (skip_word f iw w x (w ++ x) H Hne Hx) as (a & iw' & q' & u' & E & Ea & H' & Eu & Hn & Hw & Hu).
  rewrite E. cbn [bind]. apply tok_cont_word with (q' := q'); auto. lia.
Qed.

Lemma word_token_blank f iw w x : wordp WPlain w -> w <> [] -> tail_ok x ->
  (length (w ++ x) + 3 <= f)%nat ->
  exists atoms iw2, sh_token_fuel expr f (@pair bool str iw (32 :: w ++ x)) = Ok (Some (mk_token w atoms), (iw2, x)).
Proof.
  intros H Hne Hx Hf. destruct f as [|[|[|f]]]; try lia. rewrite sh_token_fuel_S. cbn [snd].
  rewrite (skip_blank_word (S f) iw w x _ H Hne).
  destruct (skip_word f false w x (w ++ x) H Hne Hx) as (a & iw' & q' & u' & E & Ea & H' & Eu & Hn & Hw & Hu).
  rewrite E. cbn [bind]. apply tok_cont_word with (q' := q'); auto. lia.
Qed.

(* ---------- operator words ---------- *)

Lemma span_all_then f (ds rest : str) :
  forallb f ds = true -> (forall h t, rest = h :: t -> f h = false) -> span f (ds ++ rest) = (ds, rest).
Proof.
  intros Hd Hr. induction ds as [|d ds IH]; cbn [app].
  - destruct rest as [|h t]; [reflexivity|]. cbn [span]. rewrite (Hr h t eq_refl). reflexivity.
  - cbn [forallb] in Hd. apply andb_true_iff in Hd as [H1 H2]. cbn [span]. rewrite H1, (IH H2). reflexivity.
Qed.

Lemma sh_operator_redirect q h t :
  (h =? 124) = false -> (h =? 38) = false -> (h =? 59) = false -> (h =? 10) = false ->
  (h =? 40) = false -> (h =? 41) = false ->
  sh_operator q (h :: t) = first_alt [ (re_redirect, ShtOperator, q) ] (h :: t).
Proof.
  intros A B C D E F. unfold sh_operator. cbn [first_alt]. unfold op_string.
  rewrite (strip_prefix_head_false 124 _ h _ (eqb_sym_false _ _ A)).
  rewrite (strip_prefix_head_false 38 _ h _ (eqb_sym_false _ _ B)).
  rewrite (strip_prefix_head_false 59 _ h _ (eqb_sym_false _ _ C)).
  rewrite (op_span_head_false _ h t D).
  rewrite (op_byte_head_false 59 h t C), (op_byte_head_false 40 h t E), (op_byte_head_false 41 h t F),
          (op_byte_head_false 124 h t A), (op_byte_head_false 38 h t B).
  reflexivity.
Qed.

Lemma redirect_prefix p x : In p redirect_ops -> tail_ok x -> first_prefix redirect_ops (p ++ x) = Some x.
Proof.
  intros Hin Hx. unfold redirect_ops in Hin. cbn [In] in Hin.
  destruct (tail_ok_cases x Hx) as [->|[(y & ->)|(y & ->)]];
    repeat (destruct Hin as [<-|Hin]; [reflexivity|]); contradiction.
Qed.

Lemma redirect_head p : In p redirect_ops -> exists h t, p = h :: t /\ (h = 60 \/ h = 62).
Proof.
  unfold redirect_ops. cbn [In]. intro Hin.
  repeat (destruct Hin as [<-|Hin]; [eexists _, _; split; [reflexivity|auto]|]). contradiction.
Qed.

Lemma existsb_str_eqb (w : str) l : existsb (str_eqb w) l = true -> In w l.
Proof.
  induction l as [|p l IH]; cbn [existsb]; [discriminate|]. intro H. apply orb_true_iff in H as [H|H].
  - left. symmetry. apply str_eqb_eq. exact H.
  - right. auto.
Qed.

Lemma operator_word_atom q o x : is_operator_word o = true -> tail_ok x ->
  sh_operator q (o ++ x) = Ok (Some (mk_atom ShtOperator o q, x)) /\
  exists h t, o = h :: t /\ (h =? 36) = false /\ is_hspace h = false.
Proof.
  intros Ho Hx. unfold is_operator_word in Ho. apply orb_true_iff in Ho as [Ho|Ho].
  - apply existsb_str_eqb in Ho. unfold plain_operators in Ho. cbn [In] in Ho.
    destruct (tail_ok_cases x Hx) as [->|[(y & ->)|(y & ->)]];
      repeat (destruct Ho as [<-|Ho];
              [split; [cbn -[since]; rewrite ?since1, ?since2; reflexivity
                      |eexists _, _; split; [reflexivity|split; reflexivity]]|]);
      contradiction.
  - apply existsb_str_eqb in Ho.
    pose proof (span_app is_digit o) as Eo. pose proof (span_all is_digit o) as Ed.
    destruct (span is_digit o) as [ds p] eqn:Es. cbn [fst snd] in *.
    destruct (redirect_head p Ho) as (ph & pt & Ep & Hph).
    assert (Hnd : forall h t, p ++ x = h :: t -> is_digit h = false).
    { intros h t E. rewrite Ep in E. cbn [app] in E. injection E as <- _. destruct Hph as [-> | ->]; reflexivity. }
    assert (Hhead : exists h t, o = h :: t /\ (is_digit h = true \/ h = 60 \/ h = 62)).
    { rewrite <- Eo. destruct ds as [|d ds'].
      - rewrite Ep. cbn [app]. eexists _, _. split; [reflexivity|auto].
      - cbn [forallb] in Ed. apply andb_true_iff in Ed as [Hd _]. cbn [app]. eexists _, _. split; [reflexivity|auto]. }
    destruct Hhead as (h & t & Eh & Hh).
    assert (Facts : (h =? 124) = false /\ (h =? 38) = false /\ (h =? 59) = false /\ (h =? 10) = false /\
                    (h =? 40) = false /\ (h =? 41) = false /\ (h =? 36) = false /\ is_hspace h = false).
    { unfold is_digit, is_hspace in *. destruct Hh as [Hh|[-> | ->]]; repeat split; try reflexivity; lia. }
    destruct Facts as (A & B & C & D & E & F & G & Hs).
    split; [|exists h, t; auto].
    rewrite Eh. cbn [app]. rewrite (sh_operator_redirect q h (t ++ x) A B C D E F). cbn [first_alt].
    change (h :: t ++ x) with ((h :: t) ++ x). rewrite <- Eh.
    assert (R : re_redirect (o ++ x) = Some x).
    { unfold re_redirect. rewrite <- Eo at 1. rewrite <- app_assoc, (span_all_then is_digit ds (p ++ x) Ed Hnd).
      cbn [snd]. apply redirect_prefix; assumption. }
    rewrite R, since_app. reflexivity.
Qed.

Lemma skip_blank_gen f iw (y : str) init : (forall h t, y = h :: t -> is_hspace h = false) ->
  skip_spaces expr (S f) (mk_tkst None QPlain QPlain (@pair bool str iw (32 :: y))) init
  = skip_spaces expr f (mk_tkst None QPlain QPlain (@pair bool str false y)) y.
Proof.
  intros Hy. cbn [skip_spaces]. unfold peek. cbn [t_curr t_q t_st].
  rewrite (space_atom_one iw y Hy). reflexivity.
Qed.

Definition op_atom (o : str) : atom := mk_atom ShtOperator o QPlain.

Lemma op_sh_atom iw o x : is_operator_word o = true -> tail_ok x ->
  sh_atom expr QPlain (@pair bool str iw (o ++ x)) = Ok (Some (op_atom o), (iw, x)).
Proof.
  intros Ho Hx. destruct (operator_word_atom QPlain o x Ho Hx) as (Ea & h & t & Eo & H36 & _).
  unfold sh_atom. rewrite Eo in *. cbn [app] in *. rewrite (expr_none_head h _ H36).
  cbn [sh_atom_dispatch]. unfold sh_atom_plain. unfold str in *. rewrite Ea. reflexivity.
Qed.

Lemma skip_operator f iw o x init : is_operator_word o = true -> tail_ok x ->
  skip_spaces expr (S f) (mk_tkst None QPlain QPlain (@pair bool str iw (o ++ x))) init
  = Ok (mk_tkst (Some (op_atom o)) QPlain QPlain (@pair bool str iw x), init).
Proof.
  intros Ho Hx. cbn [skip_spaces]. unfold peek. cbn [t_curr t_q t_st].
  rewrite (op_sh_atom iw o x Ho Hx). reflexivity.
Qed.

Lemma tok_cont_operator f iw o x init : is_operator_word o = true -> tail_ok x ->
  tok_cont f (mk_tkst (Some (op_atom o)) QPlain QPlain (@pair bool str iw x)) init
  = Ok (Some (mk_token o [op_atom o]), (iw, x)).
Proof.
  intros Ho Hx. destruct (operator_word_atom QPlain o x Ho Hx) as (_ & h & t & Eo & H36 & _).
  unfold tok_cont. cbn [t_curr op_atom a_text a_type is_word t_q].
  assert (U : str_eqb o ulimit_cmd = false).
  { apply str_eqb_neq. rewrite Eo. apply not_ulimit_head. intros ->. discriminate. }
  rewrite U. cbn [negb quoting_eqb andb]. unfold new_sh_token. rewrite Eo. reflexivity.
Qed.

Lemma operator_token f iw o x : is_operator_word o = true -> tail_ok x -> (2 <= f)%nat ->
  exists atoms iw2, sh_token_fuel expr f (@pair bool str iw (o ++ x)) = Ok (Some (mk_token o atoms), (iw2, x)).
Proof.
  intros Ho Hx Hf. destruct f as [|[|f]]; try lia. rewrite sh_token_fuel_S. cbn [snd].
  rewrite (skip_operator f iw o x _ Ho Hx). cbn [bind]. rewrite (tok_cont_operator _ iw o x _ Ho Hx). eauto.
Qed.

Lemma operator_token_blank f iw o x : is_operator_word o = true -> tail_ok x -> (3 <= f)%nat ->
  exists atoms iw2, sh_token_fuel expr f (@pair bool str iw (32 :: o ++ x)) = Ok (Some (mk_token o atoms), (iw2, x)).
Proof.
  intros Ho Hx Hf. destruct (operator_word_atom QPlain o x Ho Hx) as (_ & h & t & Eo & _ & Hs).
  destruct f as [|[|[|f]]]; try lia. rewrite sh_token_fuel_S. cbn [snd].
  rewrite (skip_blank_gen (S f) iw (o ++ x)).
  2:{ intros h' t' E. rewrite Eo in E. cbn [app] in E. injection E as <- _. exact Hs. }
  rewrite (skip_operator f false o x _ Ho Hx). cbn [bind]. rewrite (tok_cont_operator _ false o x _ Ho Hx). eauto.
Qed.

(* ---------- a sequence of simple words separated by single blanks ---------- *)

Lemma simple_token f iw w x : simple_word rx w -> tail_ok x -> (length (w ++ x) + 2 <= f)%nat ->
  exists atoms iw2, sh_token_fuel expr f (@pair bool str iw (w ++ x)) = Ok (Some (mk_token w atoms), (iw2, x)).
Proof.
  intros [Hne [H|H]] Hx Hf.
  - apply word_token; auto.
  - apply operator_token; auto. lia.
Qed.

Lemma simple_token_blank f iw w x : simple_word rx w -> tail_ok x -> (length (w ++ x) + 3 <= f)%nat ->
  exists atoms iw2, sh_token_fuel expr f (@pair bool str iw (32 :: w ++ x)) = Ok (Some (mk_token w atoms), (iw2, x)).
Proof.
  intros [Hne [H|H]] Hx Hf.
  - apply word_token_blank; auto.
  - apply operator_token_blank; auto. lia.
Qed.

Definition unwords_sp (ws : list str) : str := flat_map (fun w => 32 :: w) ws.

Lemma unwords_cons w ws : unwords (w :: ws) = w ++ unwords_sp ws.
Proof.
  revert w. induction ws as [|w' ws IH]; intro w; [cbn; rewrite app_nil_r; reflexivity|].
  change (unwords (w :: w' :: ws)) with (w ++ 32 :: unwords (w' :: ws)). rewrite IH. reflexivity.
Qed.

Lemma tail_ok_unwords_sp ws : tail_ok (unwords_sp ws).
Proof. destruct ws as [|w ws]; [left; reflexivity|apply tail_ok_blank]. Qed.

Lemma tokens_sp : forall ws fuel iw, Forall (simple_word rx) ws -> (length (unwords_sp ws) < fuel)%nat ->
  exists l iw', sh_tokens_loop expr fuel (@pair bool str iw (unwords_sp ws)) = Ok (l, (iw', [])) /\
               map (fun p => tok_text (fst p)) l = ws.
Proof.
  induction ws as [|w ws IH]; intros fuel iw Hs Hf.
  - destruct fuel as [|f]; [simpl in Hf; lia|]. exists [], iw. split; reflexivity.
  - inversion Hs as [|? ? Hw Hws]; subst.
    destruct fuel as [|f]; [lia|].
    change (unwords_sp (w :: ws)) with (32 :: w ++ unwords_sp ws) in *.
    cbn [sh_tokens_loop]. unfold sh_token. cbn [snd].
    destruct (simple_token_blank (length (32 :: w ++ unwords_sp ws) + 2) iw w (unwords_sp ws) Hw (tail_ok_unwords_sp ws))
      as (atoms & iw2 & E); [simpl; lia|].
    rewrite E. cbn [bind].
    destruct (IH f iw2 Hws) as (l & iw' & E' & Hl).
    { simpl in Hf. rewrite app_length in Hf. lia. }
    rewrite E'. cbn [bind snd]. eexists _, iw'. split; [reflexivity|]. cbn [map fst tok_text]. rewrite Hl. reflexivity.
Qed.

Theorem split_simple_words ws : Forall (simple_word rx) ws ->
  split_tokens expr (unwords ws) = Ok (ws, []).
Proof.
  intro Hs. unfold split_tokens, sh_tokens.
  destruct ws as [|w ws].
  - reflexivity.
  - inversion Hs as [|? ? Hw Hws]; subst. rewrite unwords_cons.
    cbn [sh_tokens_loop]. unfold sh_token. cbn [snd].
    destruct (simple_token (length (w ++ unwords_sp ws) + 2) false w (unwords_sp ws) Hw (tail_ok_unwords_sp ws))
      as (atoms & iw2 & E); [lia|].
    rewrite E. cbn [bind].
    destruct (tokens_sp ws (length (w ++ unwords_sp ws)) iw2 Hws) as (l & iw' & E' & Hl).
    { destruct Hw as [Hne _]. rewrite app_length. destruct w; [congruence|]. simpl. lia. }
    rewrite E'. cbn [bind snd map fst tok_text]. rewrite Hl. reflexivity.
Qed.

End Words.

(* ---------- the test word_scan is sound for the grammar wordp ---------- *)

Lemma word_scan_sound rx fuel : forall q u, word_scan rx fuel q u = true -> wordp rx q u.
Proof.
  induction fuel as [|f IH]; intros q u H; [discriminate|].
  cbn [word_scan] in H. destruct u as [|c t].
  - destruct q; try discriminate. constructor.
  - destruct q.
    + (* outside quotes *)
      destruct (N.eqb_spec c 34) as [->|]; [apply WP_dq, IH, H|].
      destruct (N.eqb_spec c 39) as [->|]; [apply WP_sq, IH, H|].
      destruct (N.eqb_spec c 92) as [->|].
      { destruct t as [|d t1]; [discriminate|].
        destruct (d =? 36) eqn:D.
        - destruct t1 as [|e t2]; [discriminate|]. apply andb_true_iff in H as [E H].
          apply N.eqb_eq in D, E. subst d e. apply W_escdd; [discriminate|apply IH, H].
        - apply andb_true_iff in H as [L H]. apply W_esc; auto; discriminate. }
      destruct (N.eqb_spec c 36) as [->|].
      { destruct t as [|d w]; [discriminate|]. destruct (N.eqb_spec d 36) as [->|].
        - destruct (shvar_rest w) as [r|] eqn:S; [|discriminate]. apply (W_shvar rx WPlain w r); auto; discriminate.
        - destruct (rx (36 :: d :: w)) as [r|] eqn:R; [|discriminate]. apply (W_mk rx WPlain (d :: w) r); auto; discriminate. }
      apply andb_true_iff in H as [T H]. apply WP_text; auto.
    + (* inside double quotes *)
      destruct (N.eqb_spec c 34) as [->|]; [apply WD_close, IH, H|].
      cbn match in H.
      destruct (N.eqb_spec c 92) as [->|].
      { destruct t as [|d t1]; [discriminate|].
        destruct (d =? 36) eqn:D.
        - destruct t1 as [|e t2]; [discriminate|]. apply andb_true_iff in H as [E H].
          apply N.eqb_eq in D, E. subst d e. apply W_escdd; [discriminate|apply IH, H].
        - apply andb_true_iff in H as [L H]. apply W_esc; auto; discriminate. }
      destruct (N.eqb_spec c 36) as [->|].
      { destruct t as [|d w]; [discriminate|]. destruct (N.eqb_spec d 36) as [->|].
        - destruct (shvar_rest w) as [r|] eqn:S; [|discriminate]. apply (W_shvar rx WDq w r); auto; discriminate.
        - destruct (rx (36 :: d :: w)) as [r|] eqn:R; [|discriminate]. apply (W_mk rx WDq (d :: w) r); auto; discriminate. }
      apply andb_true_iff in H as [T H]. apply WD_byte; auto.
    + (* inside single quotes *)
      destruct (N.eqb_spec c 39) as [->|]; [apply WS_close, IH, H|].
      apply andb_true_iff in H as [T H]. apply WS_byte; auto.
Qed.

Lemma simple_word_b_sound rx w : simple_word_b rx w = true -> simple_word rx w.
Proof.
  unfold simple_word_b, simple_word. intro H. apply andb_true_iff in H as [Hn H].
  split; [destruct w; [discriminate|discriminate]|].
  apply orb_true_iff in H as [H|H]; [left; exact (word_scan_sound rx _ _ _ H)|right; exact H].
Qed.
