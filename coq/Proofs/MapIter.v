(* Permutation independence of the audited map-iteration patterns (C07). *)
From Coq Require Import Permutation Sorted.
From PV Require Import Lib.Bytes Model.MapIter.
Import ListNotations.
Open Scope N_scope.

(* ------------------------------------------------------------------ *)
(* Go's string order is a total order                                   *)

Lemma str_cmp_refl a : str_cmp a a = Eq.
Proof. induction a as [|x a IH]; simpl; [reflexivity|]. rewrite N.compare_refl. exact IH. Qed.

Lemma str_cmp_eq a : forall b, str_cmp a b = Eq -> a = b.
Proof.
  induction a as [|x a IH]; intros [|y b]; simpl; intros H; try discriminate; auto.
  destruct (N.compare_spec x y); try discriminate. subst. f_equal. auto.
Qed.

Lemma str_cmp_opp a : forall b, str_cmp b a = CompOpp (str_cmp a b).
Proof.
  induction a as [|x a IH]; intros [|y b]; simpl; auto.
  rewrite (N.compare_antisym x y). destruct (x ?= y); simpl; auto.
Qed.

Lemma str_cmp_lt_trans a : forall b c, str_cmp a b = Lt -> str_cmp b c = Lt -> str_cmp a c = Lt.
Proof.
  induction a as [|x a IH]; intros [|y b] [|z c]; simpl; intros H1 H2; try discriminate; auto.
  destruct (N.compare_spec x y), (N.compare_spec y z), (N.compare_spec x z);
    try discriminate; try lia; auto.
  eapply IH; eauto.
Qed.

Lemma str_leb_total a b : str_leb a b = true \/ str_leb b a = true.
Proof. unfold str_leb. rewrite (str_cmp_opp a b). destruct (str_cmp a b); simpl; auto. Qed.

Lemma str_leb_antisym a b : str_leb a b = true -> str_leb b a = true -> a = b.
Proof.
  unfold str_leb. rewrite (str_cmp_opp a b). destruct (str_cmp a b) eqn:E; simpl; try discriminate.
  intros _ _. apply str_cmp_eq; exact E.
Qed.

Lemma str_leb_trans a b c : str_leb a b = true -> str_leb b c = true -> str_leb a c = true.
Proof.
  unfold str_leb.
  destruct (str_cmp a b) eqn:E1; try discriminate; destruct (str_cmp b c) eqn:E2; try discriminate; intros _ _.
  - apply str_cmp_eq in E1. apply str_cmp_eq in E2. subst. rewrite str_cmp_refl. reflexivity.
  - apply str_cmp_eq in E1. subst. rewrite E2. reflexivity.
  - apply str_cmp_eq in E2. subst. rewrite E1. reflexivity.
  - rewrite (str_cmp_lt_trans _ _ _ E1 E2). reflexivity.
Qed.

(* ------------------------------------------------------------------ *)
(* sorting: the result does not depend on the order of the input        *)

Section SortFacts.
  Context {A : Type} (leb : A -> A -> bool).
  Hypothesis leb_total : forall x y, leb x y = true \/ leb y x = true.
  Hypothesis leb_trans : forall x y z, leb x y = true -> leb y z = true -> leb x z = true.
  Let le x y := leb x y = true.

  Lemma insert_by_perm x l : Permutation (insert_by leb x l) (x :: l).
  Proof.
    induction l as [|y l IH]; simpl; [apply Permutation_refl|].
    destruct (leb x y); [apply Permutation_refl|].
    eapply Permutation_trans; [apply perm_skip; exact IH|apply perm_swap].
  Qed.

  Lemma isort_perm l : Permutation (isort leb l) l.
  Proof.
    induction l as [|x l IH]; simpl; [apply perm_nil|].
    eapply Permutation_trans; [apply insert_by_perm|apply perm_skip; exact IH].
  Qed.

  Lemma insert_by_sorted x l : StronglySorted le l -> StronglySorted le (insert_by leb x l).
  Proof.
    induction l as [|y l IH]; simpl; intros S.
    - constructor; constructor.
    - inversion S as [|? ? S' F]; subst. destruct (leb x y) eqn:E.
      + constructor; [exact S|]. constructor; [exact E|].
        eapply Forall_impl; [|exact F]. intros z Hz. eapply leb_trans; [exact E|exact Hz].
      + constructor; [apply IH; exact S'|].
        eapply Permutation_Forall; [apply Permutation_sym, insert_by_perm|].
        constructor; [|exact F].
        destruct (leb_total x y) as [H|H]; [rewrite H in E; discriminate|exact H].
  Qed.

  Lemma isort_sorted l : StronglySorted le (isort leb l).
  Proof. induction l; simpl; [constructor|apply insert_by_sorted; assumption]. Qed.

  (* two sorted lists with the same elements are equal, as soon as the order is
     antisymmetric on those elements *)
  Lemma sorted_perm_eq l : forall l',
    (forall x y, In x l -> In y l -> leb x y = true -> leb y x = true -> x = y) ->
    StronglySorted le l -> StronglySorted le l' -> Permutation l l' -> l = l'.
  Proof.
    induction l as [|a l IH]; intros l' AS S1 S2 P.
    - apply Permutation_nil in P. auto.
    - destruct l' as [|b l']; [apply Permutation_sym, Permutation_nil in P; discriminate|].
      inversion S1 as [|? ? S1' F1]; inversion S2 as [|? ? S2' F2]; subst.
      assert (E : a = b).
      { assert (Ha : In a (b :: l')) by (eapply Permutation_in; [exact P|left; reflexivity]).
        assert (Hb : In b (a :: l)) by (eapply Permutation_in; [apply Permutation_sym; exact P|left; reflexivity]).
        destruct Ha as [Ha|Ha]; [auto|]. destruct Hb as [Hb|Hb]; [auto|].
        rewrite Forall_forall in F1, F2.
        apply AS; [left; reflexivity|right; exact Hb|apply F1; exact Hb|apply F2; exact Ha]. }
      subst b. f_equal. apply IH; auto.
      + intros x y Hx Hy. apply AS; right; assumption.
      + eapply Permutation_cons_inv; exact P.
  Qed.

  Theorem isort_perm_eq l l' :
    (forall x y, In x l -> In y l -> leb x y = true -> leb y x = true -> x = y) ->
    Permutation l l' -> isort leb l = isort leb l'.
  Proof.
    intros AS P. apply sorted_perm_eq.
    - intros x y Hx Hy. apply AS; eapply Permutation_in; try apply isort_perm; assumption.
    - apply isort_sorted.
    - apply isort_sorted.
    - eapply Permutation_trans; [apply isort_perm|].
      eapply Permutation_trans; [exact P|apply Permutation_sym, isort_perm].
  Qed.
End SortFacts.

(* sort.Strings *)
Theorem sort_perm (l l' : list str) : Permutation l l' -> sort_strings l = sort_strings l'.
Proof.
  intros P. unfold sort_strings. apply isort_perm_eq; [| | |exact P].
  - apply str_leb_total.
  - apply str_leb_trans.
  - intros x y _ _. apply str_leb_antisym.
Qed.

(* the model of sort.Strings really sorts: sorted, same elements *)
Theorem sort_strings_spec (l : list str) :
  StronglySorted (fun a b => str_leb a b = true) (sort_strings l) /\ Permutation (sort_strings l) l.
Proof.
  split; [apply isort_sorted; [apply str_leb_total|apply str_leb_trans]|apply isort_perm].
Qed.

Theorem keys_sorted_perm {V} (m m' : gomap V) : Permutation m m' -> keys_sorted m = keys_sorted m'.
Proof. intros P. unfold keys_sorted, keys. apply sort_perm. apply Permutation_map. exact P. Qed.

Theorem keys_joined_perm {V} (m m' : gomap V) : Permutation m m' -> keys_joined m = keys_joined m'.
Proof. intros P. unfold keys_joined. rewrite (keys_sorted_perm m m' P). reflexivity. Qed.

(* collect keys, sort, then call back: the sequence of callbacks (key and the
   value looked up in the map itself) is the same for every iteration order *)
Theorem for_each_sorted_perm {V} (m order order' : gomap V) :
  Permutation order order' -> for_each_sorted m order = for_each_sorted m order'.
Proof. intros P. unfold for_each_sorted. rewrite (keys_sorted_perm order order' P). reflexivity. Qed.

(* sort.Slice by a key that is injective on the entries (histogram.go: (count, string)) *)
Lemma NoDup_map_inj {A B} (f : A -> B) (l : list A) :
  NoDup (map f l) -> forall x y, In x l -> In y l -> f x = f y -> x = y.
Proof.
  induction l as [|a l IH]; simpl; intros ND x y Hx Hy E; [contradiction|].
  inversion ND as [|? ? Hn ND']; subst.
  destruct Hx as [->|Hx], Hy as [->|Hy]; auto.
  - exfalso. apply Hn. rewrite E. apply in_map. exact Hy.
  - exfalso. apply Hn. rewrite <- E. apply in_map. exact Hx.
Qed.

Theorem sort_by_perm {A K} (key : A -> K) (kleb : K -> K -> bool) (l l' : list A) :
  (forall x y, kleb x y = true \/ kleb y x = true) ->
  (forall x y z, kleb x y = true -> kleb y z = true -> kleb x z = true) ->
  (forall x y, kleb x y = true -> kleb y x = true -> x = y) ->
  NoDup (map key l) ->
  Permutation l l' -> sort_by key kleb l = sort_by key kleb l'.
Proof.
  intros T Tr AS ND P. unfold sort_by. apply isort_perm_eq; [| | |exact P].
  - intros x y. apply T.
  - intros x y z. apply Tr.
  - intros x y Hx Hy H1 H2. eapply NoDup_map_inj; eauto.
Qed.

(* ------------------------------------------------------------------ *)
(* commutative accumulation                                             *)

Theorem fold_commutative_perm_on {A B} (step : B -> A -> B) (l l' : list A) :
  NoDup l ->
  (forall x y, In x l -> In y l -> x <> y -> forall b, step (step b x) y = step (step b y) x) ->
  Permutation l l' -> forall init, range_fold step init l = range_fold step init l'.
Proof.
  unfold range_fold. intros ND C P. induction P as [|x l l' P IH|x y l|l l' l'' P1 IH1 P2 IH2]; intros init; simpl.
  - reflexivity.
  - inversion ND; subst. apply IH; auto. intros; apply C; auto; right; assumption.
  - inversion ND as [|? ? Hn ND']; subst. rewrite C; auto.
    + left; reflexivity.
    + right; left; reflexivity.
    + intros E. apply Hn. left. auto.
  - rewrite IH1; auto. apply IH2.
    + eapply Permutation_NoDup; eauto.
    + intros x y Hx Hy. apply C; eapply Permutation_in; try apply Permutation_sym; eauto.
Qed.

Theorem fold_commutative_perm {A B} (step : B -> A -> B) (l l' : list A) :
  (forall b x y, step (step b x) y = step (step b y) x) ->
  Permutation l l' -> forall init, range_fold step init l = range_fold step init l'.
Proof.
  unfold range_fold. intros C P. induction P; intros init; simpl; auto.
  - rewrite C. reflexivity.
  - rewrite IHP1. apply IHP2.
Qed.

(* arg-max of a measure that is injective on the matching entries *)
Lemma argmax_step_comm {A} (p : A -> bool) (m : A -> N) (x y : A) :
  (p x = true -> p y = true -> m x <> m y) ->
  forall b, argmax_step p m (argmax_step p m b x) y = argmax_step p m (argmax_step p m b y) x.
Proof.
  intros H b. unfold argmax_step.
  destruct (p x) eqn:Px, (p y) eqn:Py; try reflexivity.
  specialize (H eq_refl eq_refl).
  destruct b as [b|].
  - destruct (N.ltb_spec (m b) (m x)), (N.ltb_spec (m b) (m y));
      repeat match goal with |- context [?a <? ?c] => destruct (N.ltb_spec a c) end;
      try reflexivity; exfalso; lia.
  - destruct (N.ltb_spec (m x) (m y)), (N.ltb_spec (m y) (m x)); try reflexivity; exfalso; lia.
Qed.

Theorem argmax_perm {A} (p : A -> bool) (m : A -> N) (l l' : list A) :
  NoDup l ->
  (forall x y, In x l -> In y l -> p x = true -> p y = true -> m x = m y -> x = y) ->
  Permutation l l' -> range_argmax p m l = range_argmax p m l'.
Proof.
  intros ND Inj P. unfold range_argmax.
  apply (fold_commutative_perm_on (argmax_step p m) l l' ND); [|exact P].
  intros x y Hx Hy Hne b. apply argmax_step_comm.
  intros Px Py E. apply Hne. apply Inj; assumption.
Qed.

(* ------------------------------------------------------------------ *)
(* existence tests, lookups, set insertion, map copy                    *)

Theorem exists_perm {A} (p : A -> bool) (l l' : list A) :
  Permutation l l' -> range_exists p l = range_exists p l'.
Proof.
  unfold range_exists. intros P. induction P; simpl; auto.
  - rewrite IHP. reflexivity.
  - destruct (p x), (p y); reflexivity.
  - rewrite IHP1. exact IHP2.
Qed.

Theorem forall_perm {A} (p : A -> bool) (l l' : list A) :
  Permutation l l' -> range_forall p l = range_forall p l'.
Proof.
  unfold range_forall. intros P. induction P; simpl; auto.
  - rewrite IHP. reflexivity.
  - destruct (p x), (p y); reflexivity.
  - rewrite IHP1. exact IHP2.
Qed.

Theorem lookup_perm {V} (k : str) (m m' : gomap V) :
  NoDup (keys m) -> Permutation m m' -> lookup k m = lookup k m'.
Proof.
  unfold keys. intros ND P. induction P as [|[k1 v1] l l' P IH|[k1 v1] [k2 v2] l|l l' l'' P1 IH1 P2 IH2]; simpl.
  - reflexivity.
  - simpl in ND. inversion ND; subst. rewrite IH; auto.
  - simpl in ND. inversion ND as [|? ? Hn ND']; subst.
    destruct (str_eqb k k2) eqn:E2, (str_eqb k k1) eqn:E1; auto.
    apply str_eqb_spec in E1. apply str_eqb_spec in E2. subst. exfalso. apply Hn. left. reflexivity.
  - rewrite IH1; auto. apply IH2. eapply Permutation_NoDup; [apply Permutation_map; exact P1|exact ND].
Qed.

Lemma range_set_insert_char {A} (f : A -> str) (l : list A) : forall s0 x,
  range_set_insert f s0 l x = existsb (fun a => str_eqb x (f a)) l || s0 x.
Proof.
  unfold range_set_insert. induction l as [|a l IH]; intros s0 x; simpl; [reflexivity|].
  rewrite IH. unfold set_add. destruct (str_eqb x (f a)); simpl.
  - rewrite orb_true_r. reflexivity.
  - reflexivity.
Qed.

Theorem set_insert_perm {A} (f : A -> str) (s0 : str -> bool) (l l' : list A) :
  Permutation l l' -> forall x, range_set_insert f s0 l x = range_set_insert f s0 l' x.
Proof.
  intros P x. rewrite !range_set_insert_char.
  pose proof (exists_perm (fun a => str_eqb x (f a)) l l' P) as E. unfold range_exists in E.
  rewrite E. reflexivity.
Qed.

Lemma lookup_notin {V} (k : str) (m : gomap V) : ~ In k (keys m) -> lookup k m = None.
Proof.
  unfold keys. induction m as [|[k1 v1] m IH]; simpl; intros H; [reflexivity|].
  destruct (str_eqb k k1) eqn:E.
  - apply str_eqb_spec in E. subst. exfalso. apply H. left. reflexivity.
  - apply IH. intros H'. apply H. right. exact H'.
Qed.

Lemma range_copy_char {V} (m : gomap V) : NoDup (keys m) -> forall c0 x,
  range_copy c0 m x = match lookup x m with Some v => Some v | None => c0 x end.
Proof.
  unfold range_copy, keys. induction m as [|[k v] m IH]; simpl; intros ND c0 x; [reflexivity|].
  inversion ND as [|? ? Hn ND']; subst. rewrite IH; auto. unfold map_put. simpl.
  destruct (str_eqb x k) eqn:E.
  - apply str_eqb_spec in E. subst. rewrite (lookup_notin k m Hn). reflexivity.
  - reflexivity.
Qed.

Theorem range_copy_perm {V} (c0 : str -> option V) (m m' : gomap V) :
  NoDup (keys m) -> Permutation m m' -> forall x, range_copy c0 m x = range_copy c0 m' x.
Proof.
  intros ND P x. rewrite !range_copy_char; auto.
  - rewrite (lookup_perm x m m' ND P). reflexivity.
  - unfold keys. eapply Permutation_NoDup; [apply Permutation_map; exact P|exact ND].
Qed.

(* ------------------------------------------------------------------ *)
(* the order-dependent shapes                                           *)

Definition sa : str := [97].
Definition sb : str := [98].

(* printing inside an unsorted range IS order dependent *)
Theorem output_order_dependent_refuted :
  ~ (forall (line : str -> str) (l l' : list str), NoDup l -> Permutation l l' -> range_print line l = range_print line l').
Proof.
  intros H. specialize (H (fun s => s) [sa; sb] [sb; sa]).
  assert (ND : NoDup [sa; sb]).
  { constructor; [|constructor; [|constructor]]; simpl; intuition discriminate. }
  specialize (H ND (perm_swap sb sa [])). vm_compute in H. discriminate.
Qed.

(* "the first match wins" (urlchecker.go CheckFetchURL): order dependent ... *)
Definition first_match_full : Prop :=
  forall (p : str -> bool) (l l' : list str), NoDup l -> Permutation l l' -> range_first p l = range_first p l'.
Theorem first_match_refuted : ~ first_match_full.
Proof.
  intros H. specialize (H (fun _ => true) [sa; sb] [sb; sa]).
  assert (ND : NoDup [sa; sb]).
  { constructor; [|constructor; [|constructor]]; simpl; intuition discriminate. }
  specialize (H ND (perm_swap sb sa [])). vm_compute in H. discriminate.
Qed.
(* ... unless at most one entry matches *)
Theorem first_match_partial {A} (p : A -> bool) (l l' : list A) :
  (forall x y, In x l -> In y l -> p x = true -> p y = true -> x = y) ->
  Permutation l l' -> range_first p l = range_first p l'.
Proof.
  unfold range_first. intros U P. induction P as [|x l l' P IH|x y l|l l' l'' P1 IH1 P2 IH2]; simpl.
  - reflexivity.
  - destruct (p x); [reflexivity|]. apply IH. intros; apply U; auto; right; assumption.
  - destruct (p y) eqn:Ey, (p x) eqn:Ex; auto.
    f_equal. apply U; auto; [left; reflexivity|right; left; reflexivity].
  - rewrite IH1; auto. apply IH2.
    intros x y Hx Hy. apply U; eapply Permutation_in; try apply Permutation_sym; eauto.
Qed.

(* sorting by a key with ties (changes.go: IsAbove compares date and line number
   but not the file): the result depends on the order the entries were collected in *)
Definition sort_ties_full : Prop :=
  forall (l l' : list (N * str)), NoDup l -> Permutation l l' ->
    sort_by fst N.leb l = sort_by fst N.leb l'.
Theorem sort_ties_refuted : ~ sort_ties_full.
Proof.
  intros H. specialize (H [(1, sa); (1, sb)] [(1, sb); (1, sa)]).
  assert (ND : NoDup [(1, sa); (1, sb)]).
  { constructor; [|constructor; [|constructor]]; simpl; intuition discriminate. }
  specialize (H ND (perm_swap _ _ [])). vm_compute in H. discriminate.
Qed.
