(* Proofs about RedundantScope on makefiles with directives (Model/RedundantDir.v)
   and about the evaluator with directives (Spec/MakeEvalDir.v). *)
From Coq Require Import List Bool Arith Lia.
From PV Require Import Lib.Bytes Model.Redundant Model.RedundantCond Model.RedundantDir
  Spec.MakeEval Spec.MakeEvalDir Spec.VerdictSound Spec.VerdictSoundDir
  Proofs.RedundantCond Proofs.RedundantPaths Proofs.RedundantSound.
Import ListNotations.

(* ---------- is_cond through one line ---------- *)

Lemma add_refs_is_cond s y ws x : is_cond (add_refs s y ws) x = is_cond s x.
Proof.
  unfold add_refs. destruct ws; [reflexivity|]. unfold is_cond; simpl. unfold upd.
  destruct (str_eqb y x) eqn:E; [apply str_eqb_spec in E; subst; reflexivity|reflexivity].
Qed.

Lemma undef_one_is_cond s y x : is_cond (undef_one s y) x = is_cond s x || str_eqb y x.
Proof.
  unfold is_cond, undef_one; simpl; unfold upd.
  destruct (str_eqb y x) eqn:E; [rewrite orb_true_r|rewrite orb_false_r]; reflexivity.
Qed.

Lemma fold_undef_is_cond xs : forall s x,
  is_cond (fold_left undef_one xs s) x = is_cond s x || existsb (fun y => str_eqb y x) xs.
Proof.
  induction xs as [|y xs IH]; intros s x; simpl; [rewrite orb_false_r; reflexivity|].
  rewrite IH, undef_one_is_cond, orb_assoc. reflexivity.
Qed.

(* what one line does to "nothing more is said about x" *)
Lemma check_line_d_is_cond g s lv i l s' lv' vs x :
  check_line_d g s lv i l = Ok (s', lv', vs) ->
  (is_cond s x = true -> is_cond s' x = true) /\ (d_undefs x l = true -> is_cond s' x = true).
Proof.
  unfold check_line_d, d_undefs.
  destruct (update_include_path s (dplain l)) as [s1| |] eqn:E1; try discriminate.
  rewrite <- (update_include_path_is_cond s _ s1 x E1).
  destruct (dl_body l) as [a| | |xs|n c| | |u n|].
  - destruct (handle_varassign s1 i a _) as [[s2 vs2]| |] eqn:E2; try discriminate.
    destruct (handle_expr _ a) as [s3| |] eqn:E3; try discriminate.
    intro H; inversion H; subst. split; [|discriminate].
    rewrite (handle_expr_is_cond _ _ _ x E3), add_refs_is_cond, (handle_varassign_is_cond _ _ _ _ _ _ x E2).
    destruct (str_eqb (a_var a) x); intro Hc; rewrite Hc; reflexivity.
  - intro H; inversion H; subst. split; [tauto|discriminate].
  - intro H; inversion H; subst. split; [tauto|discriminate].
  - intro H; inversion H; subst. rewrite fold_undef_is_cond. split; intro Hc; rewrite Hc; [reflexivity|apply orb_true_r].
  - destruct (dl_infra l).
    + intro H; inversion H; subst. split; [tauto|discriminate].
    + destruct (handle_expr s1 _) as [s2| |] eqn:E3; try discriminate.
      intro H; inversion H; subst. rewrite (handle_expr_is_cond _ _ _ x E3). split; [tauto|discriminate].
  - intro H; inversion H; subst. split; [tauto|discriminate].
  - intro H; inversion H; subst. split; [tauto|discriminate].
  - destruct (dl_infra l).
    + intro H; inversion H; subst. split; [tauto|discriminate].
    + destruct (handle_expr s1 _) as [s2| |] eqn:E3; try discriminate.
      intro H; inversion H; subst. rewrite (handle_expr_is_cond _ _ _ x E3). split; [tauto|discriminate].
  - intro H; inversion H; subst. split; [tauto|discriminate].
Qed.

Lemma check_line_d_sticky g s lv i l s' lv' vs x :
  is_cond s x = true -> d_assigns x l = true -> check_line_d g s lv i l = Ok (s', lv', vs) -> vs = [].
Proof.
  unfold check_line_d, d_assigns. intros Hc Ha.
  destruct (update_include_path s (dplain l)) as [s1| |] eqn:E1; try discriminate.
  rewrite <- (update_include_path_is_cond s _ s1 x E1) in Hc.
  destruct (dl_body l) as [a| | |xs|n c| | |u n|]; try discriminate.
  apply str_eqb_spec in Ha. subst x.
  destruct (handle_varassign s1 i a _) as [[s2 vs2]| |] eqn:E2; try discriminate.
  apply (handle_varassign_sticky _ _ _ _ _ _ Hc) in E2. subst vs2.
  destruct (handle_expr _ a); try discriminate. intro H; inversion H; reflexivity.
Qed.

(* an assignment inside a conditional section: nothing is emitted *)
Lemma check_line_d_conditional g s lv i l a s' lv' vs :
  dl_body l = DAssign a -> is_conditional lv = true ->
  check_line_d g s lv i l = Ok (s', lv', vs) -> vs = [].
Proof.
  unfold check_line_d. intros Hb Hc. rewrite Hb. simpl. rewrite Hc.
  destruct (update_include_path s (dplain l)) as [s1| |]; try discriminate.
  destruct (handle_varassign s1 i a true) as [[s2 vs2]| |] eqn:E2; try discriminate.
  apply handle_varassign_cond in E2. subst vs2.
  destruct (handle_expr _ a); try discriminate. intro H; inversion H; reflexivity.
Qed.

(* ---------- .undef forgets ---------- *)

Lemma silent_once_cond g x : forall p s lv idx per,
  check_from_d g s lv idx p = Ok per -> is_cond s x = true ->
  forall j l2, nth_error p j = Some l2 -> d_assigns x l2 = true -> nth_error per j = Some [].
Proof.
  induction p as [|l0 p IH]; intros s lv idx per H Hc j l2 Hn Ha; [destruct j; discriminate|].
  simpl in H. destruct (check_line_d g s lv idx l0) as [[[s' lv'] vs]| |] eqn:E; try discriminate.
  destruct (check_from_d g s' lv' (S idx) p) as [rest| |] eqn:E2; try discriminate.
  inversion H; subst per. destruct j as [|j]; simpl in *.
  - inversion Hn; subst. apply (check_line_d_sticky _ _ _ _ _ _ _ _ x Hc Ha) in E. subst; reflexivity.
  - eapply IH; try eassumption. destruct (check_line_d_is_cond _ _ _ _ _ _ _ _ x E) as [M _]. apply M; assumption.
Qed.

Lemma undef_forgets_from g x l rest : forall pre s lv idx per,
  check_from_d g s lv idx (pre ++ l :: rest) = Ok per -> d_undefs x l = true ->
  forall j l2, nth_error rest j = Some l2 -> d_assigns x l2 = true ->
  nth_error per (S (length pre + j)) = Some [].
Proof.
  induction pre as [|l0 pre IH]; intros s lv idx per H Hu j l2 Hn Ha; simpl in H.
  - destruct (check_line_d g s lv idx l) as [[[s' lv'] vs]| |] eqn:E; try discriminate.
    destruct (check_from_d g s' lv' (S idx) rest) as [r| |] eqn:E2; try discriminate.
    inversion H; subst per. simpl.
    eapply silent_once_cond; try eassumption. destruct (check_line_d_is_cond _ _ _ _ _ _ _ _ x E) as [_ M]. apply M; assumption.
  - destruct (check_line_d g s lv idx l0) as [[[s' lv'] vs]| |] eqn:E; try discriminate.
    destruct (check_from_d g s' lv' (S idx) (pre ++ l :: rest)) as [r| |] eqn:E2; try discriminate.
    inversion H; subst per. simpl. eapply IH; eassumption.
Qed.

(* After ".undef x" (in a package file or in a file from mk/, conditional or
   not), no assignment to x gets or causes a verdict: no verdict relates lines
   across the .undef, whatever stands in between. *)
Theorem undef_forgets g pre l rest per x j l2 :
  check_lines_d g (pre ++ l :: rest) = Ok per -> d_undefs x l = true ->
  nth_error rest j = Some l2 -> d_assigns x l2 = true ->
  nth_error per (S (length pre + j)) = Some [].
Proof. unfold check_lines_d. intros. eapply undef_forgets_from; eassumption. Qed.

(* ---------- a line inside a conditional section is silent ---------- *)

Lemma existsb_map {A B} (f : B -> bool) (h : A -> B) l : existsb f (map h l) = existsb (fun a => f (h a)) l.
Proof. induction l; simpl; [reflexivity|]. rewrite IHl. reflexivity. Qed.

Lemma is_conditional_guards g lv stack :
  map lv_guard lv = map (is_guard_line g) stack ->
  is_conditional lv = existsb (fun o => negb (is_guard_line g o)) stack.
Proof.
  intro H. unfold is_conditional.
  rewrite <- (existsb_map negb lv_guard), H, existsb_map. reflexivity.
Qed.

Definition step_stack (idx : nat) (stack : list nat) (b : dbody) : list nat :=
  match b with
  | DIf _ _ | DFor _ _ => idx :: stack
  | DEndif | DEndfor => match stack with [] => [] | _ :: s => s end
  | _ => stack
  end.

Lemma open_sections_from_step idx stack l r :
  open_sections_from idx stack (l :: r) = open_sections_from (S idx) (step_stack idx stack (dl_body l)) r.
Proof. simpl. unfold step_stack. destruct (dl_body l); reflexivity. Qed.

Lemma track_guards g lv stack idx b :
  map lv_guard lv = map (is_guard_line g) stack ->
  map lv_guard (track_after (track_before g lv idx b) b) = map (is_guard_line g) (step_stack idx stack b).
Proof.
  intro H. destruct b; simpl; try assumption.
  - rewrite H. reflexivity.
  - destruct lv, stack; simpl in *; try discriminate; [reflexivity|]. injection H as _ H2. exact H2.
  - rewrite H. reflexivity.
  - destruct lv, stack; simpl in *; try discriminate; [reflexivity|]. injection H as _ H2. exact H2.
Qed.

Lemma check_line_d_levels g s lv i l s' lv' vs :
  check_line_d g s lv i l = Ok (s', lv', vs) ->
  lv' = track_after (track_before g lv i (dl_body l)) (dl_body l).
Proof.
  unfold check_line_d. destruct (update_include_path s (dplain l)); try discriminate.
  destruct (dl_body l) eqn:Eb; try (intro H; inversion H; reflexivity).
  - destruct (handle_varassign _ _ _ _) as [[? ?]| |]; try discriminate.
    destruct (handle_expr _ _); try discriminate. intro H; inversion H; reflexivity.
  - destruct (dl_infra l); [intro H; inversion H; reflexivity|].
    destruct (handle_expr _ _); try discriminate. intro H; inversion H; reflexivity.
  - destruct (dl_infra l); [intro H; inversion H; reflexivity|].
    destruct (handle_expr _ _); try discriminate. intro H; inversion H; reflexivity.
Qed.

Lemma conditional_silent_from g : forall p s lv idx stack per,
  check_from_d g s lv idx p = Ok per -> map lv_guard lv = map (is_guard_line g) stack ->
  forall j l a, nth_error p j = Some l -> dl_body l = DAssign a ->
  existsb (fun o => negb (is_guard_line g o)) (open_sections_from idx stack (firstn j p)) = true ->
  nth_error per j = Some [].
Proof.
  induction p as [|l0 p IH]; intros s lv idx stack per H Hg j l a Hn Hb Hc; [destruct j; discriminate|].
  simpl in H. destruct (check_line_d g s lv idx l0) as [[[s' lv'] vs]| |] eqn:E; try discriminate.
  destruct (check_from_d g s' lv' (S idx) p) as [rest| |] eqn:E2; try discriminate.
  inversion H; subst per. destruct j as [|j].
  - simpl in Hn. inversion Hn; subst l0. simpl in Hc.
    rewrite <- (is_conditional_guards g lv stack Hg) in Hc.
    apply (check_line_d_conditional _ _ _ _ _ _ _ _ _ Hb Hc) in E. subst; reflexivity.
  - simpl in Hn. rewrite firstn_cons, open_sections_from_step in Hc. simpl.
    eapply IH; try eassumption.
    rewrite (check_line_d_levels _ _ _ _ _ _ _ _ E). apply track_guards. assumption.
Qed.

(* An assignment that lies inside an .if/.for section other than the
   multiple-inclusion guard of its MkLines - whatever the condition is and
   whether make takes it or not - gets no verdict and causes none. *)
Theorem conditional_line_silent_d g p per j l a :
  check_lines_d g p = Ok per -> nth_error p j = Some l -> dl_body l = DAssign a ->
  in_conditional_section g (firstn j p) = true -> nth_error per j = Some [].
Proof.
  unfold check_lines_d, in_conditional_section, open_sections. intros.
  eapply (conditional_silent_from g p new_scope [] 0 []); try eassumption. reflexivity.
Qed.

(* ---------- the evaluator with directives extends the old one ---------- *)

Lemma unroll_lift p : forall out, unroll_from [] out (lift p) = Some (rev out ++ lift p).
Proof.
  induction p as [|l p IH]; intro out; simpl; [rewrite app_nil_r; reflexivity|].
  destruct l; simpl; rewrite IH; simpl; rewrite <- app_assoc; reflexivity.
Qed.

Lemma exec_d_lift fuel p : forall st,
  fold_left (exec_dline fuel) (lift p) (mkD st [] false) = mkD (fold_left (exec_line fuel) p st) [] false.
Proof. induction p as [|l p IH]; intro st; simpl; [reflexivity|]. destruct l; simpl; apply IH. Qed.

Theorem evaldir_conservative fuel p x : final_d fuel (lift p) x = final fuel p x.
Proof.
  unfold final_d, unroll. rewrite unroll_lift. simpl. unfold exec_d, dinit.
  rewrite exec_d_lift. reflexivity.
Qed.

(* removing a line = reading nothing in its place *)
Lemma blank_from_lift (i : nat) : forall (p : sprogram) (idx : nat) st fuel,
  fold_left (exec_dline fuel) (blank_from idx [(idx + i)%nat] (lift p)) (mkD st [] false)
  = mkD (fold_left (exec_line fuel) (delete_nth i p) st) [] false.
Proof.
  induction i as [|i IH]; intros p idx st fuel.
  - destruct p as [|l p]; simpl; [reflexivity|]. rewrite Nat.add_0_r, Nat.eqb_refl. simpl.
    assert (G : forall q k st', (idx < k)%nat ->
              fold_left (exec_dline fuel) (blank_from k [idx] (lift q)) (mkD st' [] false)
              = mkD (fold_left (exec_line fuel) q st') [] false).
    { induction q as [|l' q IHq]; intros k st' Hk; simpl; [reflexivity|].
      destruct (Nat.eqb_spec k idx); [lia|]. simpl. destruct l'; simpl; apply IHq; lia. }
    apply G. lia.
  - destruct p as [|l p]; simpl; [reflexivity|].
    destruct (Nat.eqb_spec idx (idx + S i)%nat); [lia|]. simpl.
    replace (idx + S i)%nat with (S idx + i)%nat by lia.
    destruct l; simpl; apply IH.
Qed.

Lemma unroll_blank_lift is p : forall idx out,
  unroll_from [] out (blank_from idx is (lift p)) = Some (rev out ++ blank_from idx is (lift p)).
Proof.
  induction p as [|l p IH]; intros idx out; simpl; [rewrite app_nil_r; reflexivity|].
  destruct (existsb (Nat.eqb idx) is); [|destruct l]; simpl; rewrite IH; simpl; rewrite <- app_assoc; reflexivity.
Qed.

Lemma final_d_blank_lift fuel i p x : final_d fuel (blank [i] (lift p)) x = final fuel (delete_nth i p) x.
Proof.
  unfold final_d, unroll, blank. rewrite unroll_blank_lift. simpl. unfold exec_d, dinit.
  rewrite (blank_from_lift i p 0). reflexivity.
Qed.

Lemma to_spec_d_embed p : to_spec_d (embed p) = lift (to_spec p).
Proof.
  unfold to_spec_d, embed, lift, to_spec. rewrite !map_map. apply map_ext. intro l.
  unfold spec_dline, embed_line, spec_line. simpl. destruct (l_body l); reflexivity.
Qed.

(* on makefiles without directives "deletable" means what it meant *)
Theorem deletable_d_embed p i : deletable_d (embed p) [i] <-> deletable p i.
Proof.
  unfold deletable_d, deletable. split; intros H fuel x; specialize (H fuel x);
    rewrite to_spec_d_embed, final_d_blank_lift, evaldir_conservative, <- to_spec_delete in *; assumption.
Qed.

(* ---------- the model with directives extends the old one ---------- *)

Lemma check_line_d_embed g s i l :
  check_line_d g s [] i (embed_line l)
  = match check_line s i l with
    | Ok (s', vs) => Ok (s', [], vs)
    | Panic => Panic
    | OutOfFuel => OutOfFuel
    end.
Proof.
  unfold check_line_d, check_line, embed_line, dplain. simpl.
  replace (mkLine (l_file l) (l_lineno l) None) with (mkLine (l_file l) (l_lineno l) None) by reflexivity.
  assert (U : update_include_path s (mkLine (l_file l) (l_lineno l) None) = update_include_path s l)
    by reflexivity.
  rewrite U. destruct (update_include_path s l) as [s1| |]; try reflexivity.
  destruct (l_body l) as [a|]; simpl; [|reflexivity].
  destruct (handle_varassign s1 i a false) as [[s2 vs]| |]; try reflexivity.
  simpl. destruct (handle_expr s2 a); reflexivity.
Qed.

Lemma check_from_d_embed g p : forall s i,
  check_from_d g s [] i (embed p)
  = match check_from s i p with
    | Ok vs => match check_from_c s i (plain p) with Ok per => Ok per | Panic => Panic | OutOfFuel => OutOfFuel end
    | Panic => Panic
    | OutOfFuel => OutOfFuel
    end.
Proof.
  induction p as [|l p IH]; intros s i; simpl; [reflexivity|].
  rewrite check_line_d_embed, check_line_c_false.
  destruct (check_line s i l) as [[s' vs]| |]; try reflexivity.
  rewrite IH. destruct (check_from s' (S i) p); try reflexivity.
  destruct (check_from_c s' (S i) (plain p)); reflexivity.
Qed.

Lemma check_from_concat p : forall s i,
  match check_from_c s i (plain p) with
  | Ok per => check_from s i p = Ok (concat per)
  | Panic => check_from s i p = Panic
  | OutOfFuel => check_from s i p = OutOfFuel
  end.
Proof.
  induction p as [|l p IH]; intros s i; simpl; [reflexivity|].
  rewrite check_line_c_false. destruct (check_line s i l) as [[s' vs]| |]; try reflexivity.
  specialize (IH s' (S i)). destruct (check_from_c s' (S i) (plain p)); rewrite IH; reflexivity.
Qed.

Theorem check_d_embed g p : check_d g (embed p) = check p.
Proof.
  unfold check_d, check_lines_d, check. rewrite check_from_d_embed.
  pose proof (check_from_concat p new_scope 0) as H.
  destruct (check_from_c new_scope 0 (plain p)); rewrite H; reflexivity.
Qed.

Lemma infra_at_embed p i : infra_at (embed p) i = false.
Proof.
  unfold infra_at, embed. rewrite nth_error_map. destruct (nth_error p i); reflexivity.
Qed.

Theorem check_pkg_embed p : check_pkg (embed p) = check p.
Proof.
  unfold check_pkg. rewrite check_d_embed. destruct (check p) as [vs| |]; try reflexivity.
  f_equal. induction vs as [|v vs IH]; simpl; [reflexivity|]. rewrite infra_at_embed. simpl. f_equal. exact IH.
Qed.

(* ---------- soundness with directives: false in general, true on the old fragment ---------- *)

Definition verdict_sound_dir_full : Prop :=
  forall (p : dprogram) (vs : list verdict) (vd : verdict),
    check_pkg p = Ok vs -> In vd vs -> deletable_d p [vd_flagged vd].

(* cat/pa/Makefile: VA= a / .include "../../mk/reset.mk" / VA= b
   mk/reset.mk:     .if defined(VA) / VB= a / .endif *)
Definition w_VA : var := [86; 65].
Definition w_VB : var := [86; 66].
Definition witness_infra_condition : dprogram :=
  [ mkDLine 0 1 false (DAssign (mkAssign w_VA OpAssign [Lit [97]]));
    mkDLine 0 2 false DInclude;
    mkDLine 1 1 true (DIf false (DCDefined w_VA));
    mkDLine 1 2 true (DAssign (mkAssign w_VB OpAssign [Lit [97]]));
    mkDLine 1 3 true DEndif;
    mkDLine 0 3 false (DAssign (mkAssign w_VA OpAssign [Lit [98]])) ].

Lemma witness_infra_condition_verdict :
  check_pkg witness_infra_condition = Ok [mkVerdict 0 5 KOverwritten].
Proof. vm_compute. reflexivity. Qed.

Theorem verdict_sound_dir_refuted : ~ verdict_sound_dir_full.
Proof.
  intro H.
  specialize (H witness_infra_condition _ (mkVerdict 0 5 KOverwritten) witness_infra_condition_verdict (or_introl eq_refl)).
  specialize (H 5%nat w_VB). vm_compute in H. discriminate.
Qed.

(* the same program with the condition in a file of the package: no verdict *)
Definition witness_package_condition : dprogram :=
  map (fun l => mkDLine (dl_file l) (dl_lineno l) false (dl_body l)) witness_infra_condition.
Lemma package_condition_is_a_read : check_pkg witness_package_condition = Ok [].
Proof. vm_compute. reflexivity. Qed.

Theorem verdict_sound_dir_partial p vs vd :
  wf_program p = true -> check_pkg (embed p) = Ok vs -> In vd vs -> guard p vd = true ->
  deletable_d (embed p) [vd_flagged vd].
Proof.
  intros Hwf Hc Hin Hg. rewrite check_pkg_embed in Hc. apply deletable_d_embed.
  eapply (verdict_sound_partial p vs vd); eassumption.
Qed.

(* ---------- the guard line of a file, and why it may be exempted when the file is read on its own ---------- *)

Lemma find_guard_from_shape : forall p idx g,
  find_guard_from idx p = Some g ->
  exists pre x post,
    p = pre ++ DIf true (DCDefined x) :: post /\ Forall (eq DComment) pre /\
    g = (idx + length pre)%nat /\ guard_name_ok x = true /\ closes_at_end [true] post = true.
Proof.
  induction p as [|b p IH]; intros idx g H; simpl in H; [discriminate|].
  destruct b; try discriminate.
  - apply IH in H. destruct H as (pre & x & post & -> & Hf & -> & Hn & Hc).
    exists (DComment :: pre), x, post. simpl. repeat split; auto; try lia.
  - destruct neg; try discriminate. destruct c; try discriminate.
    destruct (guard_name_ok x && closes_at_end [true] p) eqn:E; try discriminate.
    apply andb_prop in E. destruct E as [En Ec]. inversion H; subst g.
    exists [], x, p. simpl. repeat split; auto.
Qed.

(* what findGuardLine finds: a line ".if !defined(NAME)" that is preceded by
   comments and empty lines only *)
Theorem find_guard_shape p g :
  find_guard p = Some g ->
  exists pre l x post,
    p = pre ++ l :: post /\ length pre = g /\ dl_body l = DIf true (DCDefined x) /\
    guard_name_ok x = true /\ Forall (fun l0 => dl_body l0 = DComment) pre.
Proof.
  unfold find_guard. intro H. apply find_guard_from_shape in H.
  destruct H as (bpre & x & bpost & Hm & Hf & -> & Hn & _).
  apply map_eq_app in Hm. destruct Hm as (pre & rest & -> & Hpre & Hrest).
  destruct rest as [|l post]; [discriminate|]. simpl in Hrest. inversion Hrest as [[Hl Hpost]].
  exists pre, l, x, post. repeat split; auto.
  - rewrite <- Hpre. rewrite map_length. reflexivity.
  - subst bpre. clear -Hf. induction pre as [|a pre IH]; constructor.
    + inversion Hf; subst. symmetry. assumption.
    + apply IH. inversion Hf; assumption.
Qed.

Lemma exec_comments fuel pre : Forall (fun l0 => dl_body l0 = DComment) pre ->
  forall s, fold_left (exec_dline fuel) (to_spec_d pre) s = s.
Proof.
  induction 1 as [|l pre Hl _ IH]; intro s; simpl; [reflexivity|].
  unfold spec_dline at 1. rewrite Hl.
  assert (E : exec_dline fuel s SDNop = s) by (unfold exec_dline; destruct (d_err s); reflexivity).
  rewrite E. apply IH.
Qed.

(* When a file with a guard line is read on its own (closed world: nothing was
   read before it), make takes the guard: after the guard line the body is
   active and the variable table is still empty.  This is why NewMkLines may
   treat the body as unconditional for ONE file - and why the same exemption is
   wrong for the whole-package scan, where other lines come first. *)
Theorem guard_taken_when_read_alone p g fuel :
  find_guard p = Some g ->
  fold_left (exec_dline fuel) (to_spec_d (firstn (S g) p)) dinit
  = mkD empty_store [mkFrame true true false] false.
Proof.
  intro H. apply find_guard_shape in H. destruct H as (pre & l & x & post & -> & <- & Hl & _ & Hf).
  replace (S (length pre)) with (length (pre ++ [l])) by (rewrite app_length; simpl; lia).
  replace (pre ++ l :: post) with ((pre ++ [l]) ++ post) by (rewrite <- app_assoc; reflexivity).
  rewrite firstn_app, firstn_all, Nat.sub_diag. simpl. rewrite app_nil_r.
  unfold to_spec_d. rewrite map_app, fold_left_app. fold (to_spec_d pre).
  rewrite (exec_comments fuel pre Hf). simpl. unfold spec_dline. rewrite Hl. reflexivity.
Qed.
