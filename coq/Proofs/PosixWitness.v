(* Concrete programs: one that exercises most constructs inside the proved
   fragment, and the witnesses that refute the unguarded statement. *)
From Coq Require Import NArith ZArith List Bool.
From PV Require Import Lib.Bytes Gen.ShellGrammar Model.ShellLex Model.ShellLR Spec.PosixSh Spec.Derivation.
Import ListNotations.

(* the executable reading of "pkglint accepts": lexer model, then the table-driven parser *)
Definition model_accepts (p : program) : bool :=
  match shell_lex (tokens p) with Lexed ts => lr_accepts ts | _ => false end.

Definition wd (s : str) : tok := mkTok s WkPlain.
Definition w_x := wd [120]%N.                       (* x *)
Definition w_a := wd [97]%N.                        (* a *)
Definition w_b := wd [98]%N.                        (* b *)
Definition w_i := wd [105]%N.                       (* i *)
Definition w_f := wd [102]%N.                       (* f *)
Definition w_echo := wd [101; 99; 104; 111]%N.      (* echo *)
Definition w_out := wd [111; 117; 116]%N.           (* out *)
Definition w_esac := wd s_esac.                     (* esac, as an argument *)
Definition w_in := wd s_in.                         (* in, as an argument *)
Definition w_var := wd [86; 61; 36; 36; 120]%N.     (* V=$$x *)
Definition w_dollar := wd [36; 36; 120]%N.          (* $$x *)

Definition simple (ws : list tok) : cmd := CSimple [] (map SWord ws).
Definition one (c : cmd) : seq := QOne (AOne false (PCmd c)).
Definition semi (c : cmd) : clist := CL (one c) (Some SepSemi).
Definition bare (c : cmd) : clist := CL (one c) None.

(* if a ; then for i in x in ; do case $$x in ( a | b ) echo esac ;; x ) V=$$x echo ; esac ; done ; fi > out 2>> out
   && f ( ) { echo ; } | ( ! echo & ) ; while a ; do echo ; done *)
Definition ex_case : cmd :=
  CCompound (KCase w_dollar
    (CICons true w_a [w_b] (BSome (bare (simple [w_echo; w_esac])))
      (CILast false w_x [] (BSome (semi (CSimple [w_var] [SWord w_echo])))))) [].
Definition ex_for : cmd := CCompound (KFor w_i (ForIn [w_x; w_in]) (semi ex_case)) [].
Definition ex_if : cmd :=
  CCompound (KIf (semi (simple [w_a])) (semi ex_for) ENone)
    [mkRedir None RGt w_out; mkRedir (Some [50]%N) RGtGt w_out].
Definition ex_fun : cmd := CFuncDef w_f (KBrace (semi (simple [w_echo]))) [].
Definition ex_sub : cmd :=
  CCompound (KSubshell (CL (QOne (AOne true (PCmd (simple [w_echo])))) (Some SepAmp))) [].
Definition ex_while : cmd := CCompound (KWhile (semi (simple [w_a])) (semi (simple [w_echo]))) [].
Definition ex_program : program :=
  CL (QSeq (QOne (AAnd (AOne false (PCmd ex_if)) false (PPipe (PCmd ex_fun) ex_sub))) SepSemi
       (AOne false (PCmd ex_while))) None.

Lemma ex_program_ok :
  wf_words ex_program = true /\ supported ex_program = true /\ faithful ex_program = true /\
  length (tokens ex_program) = 58%nat /\ model_accepts ex_program = true /\
  lr_accepts_certified (terms ex_program) = true.
Proof. repeat split; vm_compute; reflexivity. Qed.

(* ---- the former counterexamples: found by this check on the pinned tree, repaired in /repo,
   now accepted by lexer model + regenerated tables ---- *)

Definition w_fi := wd s_fi.
Definition w_if := wd s_if.
Definition w_bc := wd [98; 61; 99]%N.               (* b=c *)

(* for i ; do echo ; done *)
Definition was_for_semi : program := bare (CCompound (KFor w_i ForSemiDo (semi (simple [w_echo]))) []).
(* V=$$x fi        -- POSIX: a command named fi, run with V set *)
Definition was_name_after_assignment : program := bare (CSimple [w_var] [SWord w_fi]).
(* case x in a ) ;; if ) echo ;; b=c | esac2... : reserved word / assignment-shaped word as pattern *)
Definition was_reserved_pattern : program :=
  bare (CCompound (KCase w_x (CICons false w_a [] BNone
                              (CICons false w_if [w_bc] (BSome (bare (simple [w_echo])))
                               (CICons false w_bc [] BNone CINil)))) []).
(* { case x in esac } *)
Definition was_after_esac : program :=
  bare (CCompound (KBrace (bare (CCompound (KCase w_x CINil) []))) []).
(* case x in esac | { echo ; } *)
Definition was_pipe_after_case : program :=
  CL (QOne (AOne false (PPipe (PCmd (CCompound (KCase w_x CINil) []))
                              (CCompound (KBrace (semi (simple [w_echo]))) [])))) None.
(* case x in a ) echo ;; esac ; ( { echo ; } ) *)
Definition was_paren_after_case : program :=
  CL (QSeq (one (CCompound (KCase w_x (CICons false w_a [] (BSome (bare (simple [w_echo]))) CINil)) []))
           SepSemi
           (AOne false (PCmd (CCompound (KSubshell (bare (CCompound (KBrace (semi (simple [w_echo]))) []))) []))))
     None.
(* > out echo esac *)
Definition was_initial_counters : program :=
  bare (CSimple [] [SRedir (mkRedir None RGt w_out); SWord w_echo; SWord w_esac]).

Definition former_witnesses : list program :=
  [was_for_semi; was_name_after_assignment; was_reserved_pattern; was_after_esac;
   was_pipe_after_case; was_paren_after_case; was_initial_counters].

Lemma repaired_accepted :
  forallb (fun p => wf_words_posix p && faithful p && model_accepts p && lr_accepts_certified (terms p))
          former_witnesses = true.
Proof. vm_compute. reflexivity. Qed.
