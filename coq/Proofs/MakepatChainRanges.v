(* every transition of a compiled pattern is a non-empty range of bytes *)
From PV Require Import Lib.Bytes Lib.ByteRange Gen.NumberAutomaton Model.Makepat
  Proofs.MakepatBasics Proofs.MakepatNFA Proofs.MakepatReach Proofs.MakepatChain Proofs.MakepatClass.
From Coq Require Import ZifyBool ZifyN ZifyNat.
Open Scope N_scope.

Lemma runs_from_bounds chars : forall i run lo hi,
  (forall st, run = Some st -> st < i) ->
  In (lo, hi) (runs_from chars i run) -> lo <= hi /\ hi < i + nlen chars.
Proof.
  induction chars as [|b chars IH]; intros i run lo hi Hrun H; cbn [runs_from] in H.
  - destruct run as [st|]; [|destruct H]. destruct H as [E|[]]. injection E as <- <-.
    specialize (Hrun st eq_refl). cbn [nlen]. lia.
  - rewrite nlen_cons. destruct run as [st|].
    + specialize (Hrun st eq_refl). destruct b.
      * apply IH in H; [lia|]. intros st' E; injection E as <-; lia.
      * destruct H as [E|H]; [injection E as <- <-; lia|]. apply IH in H; [lia|intros ? ?; discriminate].
    + destruct b.
      * apply IH in H; [lia|]. intros st' E; injection E as <-; lia.
      * apply IH in H; [lia|intros ? ?; discriminate].
Qed.

Lemma runs_bounds chars lo hi : nlen chars = 256 -> In (lo, hi) (runs chars) -> lo <= hi /\ hi < 256.
Proof.
  intros L H. unfold runs in H. apply runs_from_bounds in H; [lia|intros ? ?; discriminate].
Qed.

Lemma class_loop_nlen n : forall r cs chars rest2, (length r <= n)%nat ->
  class_loop r cs = Some (chars, rest2) -> nlen chars = nlen cs.
Proof.
  induction n as [|n IH]; intros r cs chars rest2 Hn H.
  - destruct r; [discriminate|cbn in Hn; lia].
  - destruct r as [|ch q1]; [discriminate|]. cbn [class_loop] in H.
    destruct (ch =? 93); [injection H as <- _; reflexivity|].
    destruct q1 as [|d q2]; [discriminate|].
    destruct (d =? 45).
    + destruct q2 as [|mx q3]; [discriminate|]. cbn [length] in Hn.
      destruct (mx <? ch); apply IH in H; try (cbn [length]; lia); rewrite H; apply set_range_nlen.
    + apply IH in H; [|cbn [length] in *; lia]. rewrite H. apply set_range_nlen.
Qed.

Definition elem_ok (e : elem) : Prop :=
  match e with EStar => True | ERanges rs => forall lo hi, In (lo, hi) rs -> lo <= hi /\ hi < 256 end.

Lemma skip_byte_bytes b r n r1 : skip_byte b r = (n, r1) -> is_bytes r -> is_bytes r1.
Proof.
  intros E Hr. unfold skip_byte in E. destruct r as [|x r']; [injection E as _ <-; exact Hr|].
  destruct (x =? b); injection E as _ <-; [inversion Hr; assumption|exact Hr].
Qed.

Lemma class_loop_bytes n : forall r cs ch r2, (length r <= n)%nat ->
  class_loop r cs = Some (ch, r2) -> is_bytes r -> is_bytes r2.
Proof.
  induction n as [|n IHn]; intros r cs ch r2 Hn E Hr.
  - destruct r; [discriminate|cbn in Hn; lia].
  - destruct r as [|x q1]; [discriminate|]. cbn [class_loop] in E. inversion Hr as [|? ? _ Hq1]; subst.
    destruct (x =? 93); [injection E as _ <-; exact Hq1|].
    destruct q1 as [|d q2]; [discriminate|]. inversion Hq1 as [|? ? _ Hq2]; subst.
    destruct (d =? 45).
    + destruct q2 as [|mx q3]; [discriminate|]. inversion Hq2 as [|? ? _ Hq3]; subst. cbn [length] in Hn.
      destruct (mx <? x); eapply IHn; try exact E; try exact Hq3; cbn [length]; lia.
    + eapply IHn; [|exact E|exact Hq1]. cbn [length] in *. lia.
Qed.

Lemma single_ok c : c < 256 -> elem_ok (ERanges [(c, c)]).
Proof. intros H lo hi [E|[]]. injection E as <- <-. lia. Qed.

Lemma parses_elems_ok p es : parses p es -> is_bytes p -> Forall elem_ok es.
Proof.
  induction 1 as [|rest es P IH|rest es P IH|c rest es P IH|rest neg r1 chars rest2 es Hsk Hcl P IH
                  |c rest es H42 H63 H92 H91 P IH]; intro Hb.
  - constructor.
  - inversion Hb; subst. constructor; [exact I|auto].
  - inversion Hb; subst. constructor; [|auto]. intros lo hi [E|[]]. injection E as <- <-. lia.
  - inversion Hb as [|? ? _ Hb1]; subst. inversion Hb1 as [|? ? Hc Hb2]; subst.
    constructor; [apply single_ok; exact Hc|auto].
  - inversion Hb as [|? ? _ Hb1]; subst. constructor.
    + intros lo hi I. apply runs_bounds in I; [exact I|].
      pose proof (class_loop_nlen _ _ _ _ _ (le_n _) Hcl) as L. rewrite chars_empty_nlen in L.
      destruct neg; [rewrite map_negb_nlen|]; exact L.
    + apply IH. eapply class_loop_bytes; [apply le_n|exact Hcl|]. eapply skip_byte_bytes; [exact Hsk|exact Hb1].
  - inversion Hb as [|? ? Hc Hb1]; subst. constructor; [apply single_ok; exact Hc|auto].
Qed.

Lemma chain_ranges es : Forall elem_ok es -> forall n cur,
  (forall t, In t cur -> tmin t <= tmax t /\ tmax t < 256) ->
  forall st, In st (chain_from n cur es) -> forall t, In t (trans st) -> tmin t <= tmax t /\ tmax t < 256.
Proof.
  induction 1 as [|e es He Hes IH]; intros n cur Hcur st Ist t It.
  - cbn [chain_from] in Ist. destruct Ist as [<-|[]]. exact (Hcur t It).
  - destruct e as [|rs]; cbn [chain_from] in Ist.
    + apply (IH n (cur ++ [mkT 0 255 n])) with (st := st); [|exact Ist|exact It].
      intros t' I. apply in_app_or in I as [I|[<-|[]]]; [exact (Hcur t' I)|cbn; lia].
    + destruct Ist as [<-|Ist].
      * cbn [trans] in It. apply in_app_or in It as [I|I]; [exact (Hcur t I)|].
        apply in_map_iff in I as ([lo hi] & <- & I). cbn [mk_trans tmin tmax fst snd]. exact (He lo hi I).
      * apply (IH (n + 1) []) with (st := st); [intros ? []|exact Ist|exact It].
Qed.

Theorem compile_ranges p a : is_bytes p -> compile p = Ok (Some a) -> ranges_ok a.
Proof.
  intros Hb Hc. destruct (compile_chain p a Hc) as (es & P & ->).
  intros st Ist t It. exact (chain_ranges es (parses_elems_ok p es P Hb) 0 [] (fun t (H : In t []) => match H with end) st Ist t It).
Qed.
