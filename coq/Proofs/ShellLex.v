(* Lemmas about single calls of Model.ShellLex.Lex: what it returns, and the
   lexer state it leaves, for each class of token of the specification. *)
From Coq Require Import NArith ZArith List Bool Lia.
From PV Require Import Lib.Bytes Gen.ShellGrammar Model.ShellLex Spec.PosixSh.
Import ListNotations.
Open Scope Z_scope.

(* ---------- running Lex several times ---------- *)

Definition prepend (ts : list term) (r : lexed) : lexed :=
  match r with Lexed l => Lexed (ts ++ l) | other => other end.

(* [steps lx ts lx']: starting in lx, the next |ts| calls of Lex return ts and leave lx' *)
Definition steps (lx : lexer) (ts : list term) (lx' : lexer) : Prop :=
  forall fuel, lex_stream (length ts + fuel) lx = prepend ts (lex_stream fuel lx').

Lemma prepend_nil r : prepend [] r = r.
Proof. destruct r; reflexivity. Qed.

Lemma prepend_app a b r : prepend (a ++ b) r = prepend a (prepend b r).
Proof. destruct r; simpl; try reflexivity. rewrite app_assoc. reflexivity. Qed.

Lemma steps_nil lx : steps lx [] lx.
Proof. intro fuel. simpl. rewrite prepend_nil. reflexivity. Qed.

Lemma steps_one lx t lx' : Lex lx = LexTok t lx' -> steps lx [t] lx'.
Proof.
  intros H fuel. simpl. rewrite H. destruct (lex_stream fuel lx'); reflexivity.
Qed.

Lemma steps_app a ts1 b ts2 c : steps a ts1 b -> steps b ts2 c -> steps a (ts1 ++ ts2) c.
Proof.
  intros H1 H2 fuel. rewrite app_length, <- Nat.add_assoc, H1, H2, prepend_app. reflexivity.
Qed.

Lemma steps_cons a t b ts c : Lex a = LexTok t b -> steps b ts c -> steps a (t :: ts) c.
Proof. intros H1 H2. apply (steps_app a [t] b ts c); [apply steps_one; exact H1 | exact H2]. Qed.

(* ---------- the counters ---------- *)

(* neither counter can reach the values at which `in`, `do`, `esac` are special *)
Definition safe (f c : Z) : Prop := (f < 0 \/ 2 <= f) /\ (c < 0 \/ 3 <= c).

Definition bumpv (z : Z) : Z := if 0 <=? z then z + 1 else z.

Lemma safe_bump f c : safe f c -> safe (bumpv f) (bumpv c).
Proof. unfold safe, bumpv. intros [Hf Hc]. destruct (Z.leb_spec 0 f), (Z.leb_spec 0 c); lia. Qed.

Lemma safe_m1 : safe (-1) (-1).
Proof. unfold safe. lia. Qed.

Lemma bump_mk io rem a f c i :
  bump (mkLexer io rem a f c i) = mkLexer io rem a (bumpv f) (bumpv c) i.
Proof. unfold bump, bumpv. simpl. destruct (0 <=? f); simpl; destruct (0 <=? c); reflexivity. Qed.

(* ---------- specification predicates vs. the tables of the model ---------- *)

Ltac split_orb H :=
  repeat match type of H with
  | (_ || _)%bool = false => let H1 := fresh "Hne" in apply orb_false_iff in H; destruct H as [H1 H]
  end.

Ltac rewrite_neq :=
  repeat match goal with
  | H : str_eqb ?s ?k = false |- context [str_eqb ?s ?k] => rewrite H
  end.

Lemma not_operator_lookup s : is_operator s = false -> lookup operator_table s = None.
Proof.
  unfold is_operator, mem, operator_texts. cbn [existsb]. intro H. split_orb H.
  cbn [lookup operator_table]. rewrite_neq. reflexivity.
Qed.

Lemma not_reserved_lookup s : is_reserved s = false ->
  lookup keyword_table s = None /\ str_eqb s s_esac = false /\ str_eqb s s_in = false /\ str_eqb s s_do = false.
Proof.
  unfold is_reserved, mem, reserved_texts. cbn [existsb]. intro H. split_orb H.
  repeat split; try assumption.
  cbn [lookup keyword_table]. rewrite_neq. reflexivity.
Qed.

Lemma not_io_number s : io_number_shaped s = false -> match_io_number s = None.
Proof.
  unfold io_number_shaped, match_io_number. destruct (span is_digit s) as [ds r].
  destruct ds as [| d ds]; [reflexivity |]. cbn [negb andb].
  unfold mem, redirect_texts, redirect_ops. cbn [existsb]. intro H. split_orb H.
  rewrite_neq. reflexivity.
Qed.

Lemma assignment_like_shaped s : assignment_like s = assignment_shaped s.
Proof. reflexivity. Qed.

Lemma comment_like_hash s : comment_like s = starts_with_hash s.
Proof. reflexivity. Qed.

Lemma assignment_not_reserved s : assignment_like s = true -> is_reserved s = false.
Proof.
  intro Ha. destruct (is_reserved s) eqn:Hr; [| reflexivity].
  unfold is_reserved, mem in Hr. apply existsb_exists in Hr. destruct Hr as (k & Hin & Heq).
  apply str_eqb_spec in Heq. subst k.
  unfold reserved_texts in Hin. simpl in Hin.
  repeat (destruct Hin as [<- | Hin]; [vm_compute in Ha; discriminate |]). destruct Hin.
Qed.

(* unfolding arg_ok *)
Lemma arg_ok_inv w : arg_ok w = true ->
  t_kind w = WkPlain /\ lookup operator_table (t_text w) = None /\
  match_io_number (t_text w) = None /\ starts_with_hash (t_text w) = false.
Proof.
  unfold arg_ok. intro H.
  repeat (apply andb_true_iff in H; destruct H as [H ?]).
  repeat match goal with Hn : negb _ = true |- _ => apply negb_true_iff in Hn end.
  split; [destruct (t_kind w); (reflexivity || discriminate) |].
  split; [apply not_operator_lookup; assumption |].
  split; [apply not_io_number; assumption |].
  rewrite <- comment_like_hash. assumption.
Qed.

Lemma name_ok_inv w : name_ok w = true ->
  arg_ok w = true /\ is_reserved (t_text w) = false /\ assignment_shaped (t_text w) = false.
Proof.
  unfold name_ok. intro H.
  apply andb_true_iff in H. destruct H as [H Ha].
  apply andb_true_iff in H. destruct H as [H Hr].
  apply negb_true_iff in Ha. apply negb_true_iff in Hr.
  rewrite <- assignment_like_shaped. auto.
Qed.

Lemma name_ok_arg_ok w : name_ok w = true -> arg_ok w = true.
Proof. intro H. apply name_ok_inv in H. tauto. Qed.

(* ---------- Lex, unfolded for a lexer without pending io operator ---------- *)

Lemma Lex_unfold w rest a f c i :
  Lex (mkLexer [] (w :: rest) a f c i) =
  match lookup operator_table (t_text w) with
  | Some (t, eff) => LexTok t (eff (mkLexer [] rest a f c i))
  | None =>
    match match_io_number (t_text w) with
    | Some (_, op) => LexTok tkIO_NUMBER (mkLexer op rest a f c i)
    | None =>
      if a then
        match lookup keyword_table (t_text w) with
        | Some (t, eff) => LexTok t (eff (mkLexer [] rest true (-1) (-1) i))
        | None => lex_word (t_text w) (t_kind w) (mkLexer [] rest true (-1) (-1) i)
        end
      else lex_word (t_text w) (t_kind w) (mkLexer [] rest false (bumpv f) (bumpv c) i)
    end
  end.
Proof.
  unfold Lex. cbv beta iota delta [remaining ioRedirect].
  destruct (lookup operator_table (t_text w)) as [[t eff] |]; [reflexivity |].
  destruct (match_io_number (t_text w)) as [[ds op] |]; [reflexivity |].
  destruct a.
  - destruct (lookup keyword_table (t_text w)) as [[t eff] |]; reflexivity.
  - cbv beta iota delta [atCommandStart set_io set_remaining ioRedirect remaining sinceFor sinceCase inCasePattern].
    rewrite bump_mk. reflexivity.
Qed.

Lemma lex_word_mk token kind rest a f c i :
  lex_word token kind (mkLexer [] rest a f c i) =
  if (f =? 2) && str_eqb token s_in then LexTok tkIN (mkLexer [] rest false f c i)
  else if (f =? 2) && str_eqb token s_do then LexTok tkDO (mkLexer [] rest true f c i)
  else if (c =? 2) && str_eqb token s_in then LexTok tkIN (mkLexer [] rest false f c true)
  else if (a || (c =? 3)) && str_eqb token s_esac then LexTok tkESAC (mkLexer [] rest true f c false)
  else if a && assignment_shaped token then LexTok tkASSIGNMENT_WORD (mkLexer [] rest a f c i)
  else if starts_with_hash token then LexEOF (mkLexer [] rest a f c i)
  else if 0 <=? c then
    match kind with
    | WkNil => LexPanic
    | WkLoopExpr => LexTok tkWORD (mkLexer [] rest true f c i)
    | WkPlain => LexTok tkWORD (mkLexer [] rest false f c i)
    end
  else LexTok tkWORD (mkLexer [] rest false f c i).
Proof. reflexivity. Qed.

Lemma eqb_false a b : a <> b -> (a =? b) = false.
Proof. apply Z.eqb_neq. Qed.

(* ---------- words ---------- *)

(* a word in argument position (not at command start), counters out of the danger zone *)
Lemma lex_arg w rest f c i :
  arg_ok w = true -> safe f c ->
  Lex (mkLexer [] (w :: rest) false f c i) = LexTok tkWORD (mkLexer [] rest false (bumpv f) (bumpv c) i).
Proof.
  intros Hw Hs. destruct (arg_ok_inv w Hw) as (Hk & Hop & Hio & Hh).
  pose proof (safe_bump f c Hs) as [Hf' Hc'].
  rewrite Lex_unfold, Hop, Hio, lex_word_mk.
  rewrite (eqb_false (bumpv f) 2), (eqb_false (bumpv c) 2), (eqb_false (bumpv c) 3)
    by (unfold safe, bumpv in *; destruct (Z.leb_spec 0 f), (Z.leb_spec 0 c); lia).
  cbn [andb orb]. rewrite Hh, Hk.
  destruct (0 <=? bumpv c); reflexivity.
Qed.

(* the same when a counter is about to reach 1: the `for` variable (f = 0) and the
   `case` subject (c = 0) *)
Lemma lex_arg_for_name w rest i :
  arg_ok w = true ->
  Lex (mkLexer [] (w :: rest) false 0 (-1) i) = LexTok tkWORD (mkLexer [] rest false 1 (-1) i).
Proof.
  intros Hw. destruct (arg_ok_inv w Hw) as (Hk & Hop & Hio & Hh).
  rewrite Lex_unfold, Hop, Hio, lex_word_mk.
  change (bumpv 0) with 1. change (bumpv (-1)) with (-1).
  cbn [Z.eqb andb orb Pos.eqb Z.leb Z.compare]. rewrite Hh. reflexivity.
Qed.

Lemma lex_arg_case_subject w rest i :
  arg_ok w = true ->
  Lex (mkLexer [] (w :: rest) false (-1) 0 i) = LexTok tkWORD (mkLexer [] rest false (-1) 1 i).
Proof.
  intros Hw. destruct (arg_ok_inv w Hw) as (Hk & Hop & Hio & Hh).
  rewrite Lex_unfold, Hop, Hio, lex_word_mk.
  change (bumpv 0) with 1. change (bumpv (-1)) with (-1).
  cbn [Z.eqb andb orb Pos.eqb Z.leb Z.compare]. rewrite Hh, Hk. reflexivity.
Qed.

(* the first pattern of a case clause: sinceCase goes from 2 to 3, where `esac` is special *)
Lemma lex_first_pattern w rest i :
  name_ok w = true ->
  Lex (mkLexer [] (w :: rest) false (-1) 2 i) = LexTok tkWORD (mkLexer [] rest false (-1) 3 i).
Proof.
  intros Hn. destruct (name_ok_inv w Hn) as (Hw & Hr & Has).
  destruct (arg_ok_inv w Hw) as (Hk & Hop & Hio & Hh).
  destruct (not_reserved_lookup _ Hr) as (_ & Hesac & _ & _).
  rewrite Lex_unfold, Hop, Hio, lex_word_mk.
  change (bumpv 2) with 3. change (bumpv (-1)) with (-1).
  cbn [Z.eqb andb orb Pos.eqb Z.leb Z.compare]. rewrite Hesac, Hh, Hk. reflexivity.
Qed.

(* a word in command position: command name, function name, pattern after `;;` *)
Lemma lex_name w rest f c i :
  name_ok w = true ->
  Lex (mkLexer [] (w :: rest) true f c i) = LexTok tkWORD (mkLexer [] rest false (-1) (-1) i).
Proof.
  intros Hn. destruct (name_ok_inv w Hn) as (Hw & Hr & Has).
  destruct (arg_ok_inv w Hw) as (Hk & Hop & Hio & Hh).
  destruct (not_reserved_lookup _ Hr) as (Hkw & Hesac & _ & _).
  rewrite Lex_unfold, Hop, Hio, Hkw, lex_word_mk.
  cbn [Z.eqb andb orb Z.leb Z.compare]. rewrite Hesac, Has, Hh. reflexivity.
Qed.

(* an assignment word in command position; the lexer stays at command start *)
Lemma lex_assign w rest f c i :
  assign_ok w = true ->
  Lex (mkLexer [] (w :: rest) true f c i) = LexTok tkASSIGNMENT_WORD (mkLexer [] rest true (-1) (-1) i).
Proof.
  unfold assign_ok. intro H. apply andb_true_iff in H. destruct H as [Hw Ha].
  destruct (arg_ok_inv w Hw) as (Hk & Hop & Hio & Hh).
  destruct (not_reserved_lookup _ (assignment_not_reserved _ Ha)) as (Hkw & Hesac & _ & _).
  rewrite assignment_like_shaped in Ha.
  rewrite Lex_unfold, Hop, Hio, Hkw, lex_word_mk.
  cbn [Z.eqb andb orb Z.leb Z.compare]. rewrite Hesac, Ha. reflexivity.
Qed.

(* ---------- operators and reserved words: by computation ---------- *)

Definition kt (s : str) : tok := mkTok s WkPlain.

Lemma lex_semi rest a f c i :
  Lex (mkLexer [] (kt s_semi :: rest) a f c i) = LexTok tkSEMI (mkLexer [] rest true f c i).
Proof. reflexivity. Qed.
Lemma lex_amp rest a f c i :
  Lex (mkLexer [] (kt s_amp :: rest) a f c i) = LexTok tkBACKGROUND (mkLexer [] rest true f c i).
Proof. reflexivity. Qed.
Lemma lex_andand rest a f c i :
  Lex (mkLexer [] (kt s_andand :: rest) a f c i) = LexTok tkAND (mkLexer [] rest true f c i).
Proof. reflexivity. Qed.
Lemma lex_oror rest a f c i :
  Lex (mkLexer [] (kt s_oror :: rest) a f c i) = LexTok tkOR (mkLexer [] rest true f c i).
Proof. reflexivity. Qed.
Lemma lex_semisemi rest a f c i :
  Lex (mkLexer [] (kt s_semisemi :: rest) a f c i) = LexTok tkSEMISEMI (mkLexer [] rest true f c true).
Proof. reflexivity. Qed.
Lemma lex_pipe rest a f c i :
  Lex (mkLexer [] (kt s_pipe :: rest) a f c i) = LexTok tkPIPE (mkLexer [] rest (negb i) f c i).
Proof. reflexivity. Qed.
Lemma lex_lparen rest a f c i :
  Lex (mkLexer [] (kt s_lparen :: rest) a f c i) = LexTok tkLPAREN (mkLexer [] rest (negb i) f c i).
Proof. reflexivity. Qed.
Lemma lex_rparen rest a f c i :
  Lex (mkLexer [] (kt s_rparen :: rest) a f c i) = LexTok tkRPAREN (mkLexer [] rest true f c false).
Proof. reflexivity. Qed.

(* reserved words in command position *)
Lemma lex_if rest f c i :
  Lex (mkLexer [] (kt s_if :: rest) true f c i) = LexTok tkIF (mkLexer [] rest true (-1) (-1) i).
Proof. reflexivity. Qed.
Lemma lex_then rest f c i :
  Lex (mkLexer [] (kt s_then :: rest) true f c i) = LexTok tkTHEN (mkLexer [] rest true (-1) (-1) i).
Proof. reflexivity. Qed.
Lemma lex_elif rest f c i :
  Lex (mkLexer [] (kt s_elif :: rest) true f c i) = LexTok tkELIF (mkLexer [] rest true (-1) (-1) i).
Proof. reflexivity. Qed.
Lemma lex_else rest f c i :
  Lex (mkLexer [] (kt s_else :: rest) true f c i) = LexTok tkELSE (mkLexer [] rest true (-1) (-1) i).
Proof. reflexivity. Qed.
Lemma lex_fi rest f c i :
  Lex (mkLexer [] (kt s_fi :: rest) true f c i) = LexTok tkFI (mkLexer [] rest true (-1) (-1) i).
Proof. reflexivity. Qed.
Lemma lex_while rest f c i :
  Lex (mkLexer [] (kt s_while :: rest) true f c i) = LexTok tkWHILE (mkLexer [] rest true (-1) (-1) i).
Proof. reflexivity. Qed.
Lemma lex_until rest f c i :
  Lex (mkLexer [] (kt s_until :: rest) true f c i) = LexTok tkUNTIL (mkLexer [] rest true (-1) (-1) i).
Proof. reflexivity. Qed.
Lemma lex_do rest f c i :
  Lex (mkLexer [] (kt s_do :: rest) true f c i) = LexTok tkDO (mkLexer [] rest true (-1) (-1) i).
Proof. reflexivity. Qed.
Lemma lex_done rest f c i :
  Lex (mkLexer [] (kt s_done :: rest) true f c i) = LexTok tkDONE (mkLexer [] rest true (-1) (-1) i).
Proof. reflexivity. Qed.
Lemma lex_lbrace rest f c i :
  Lex (mkLexer [] (kt s_lbrace :: rest) true f c i) = LexTok tkLBRACE (mkLexer [] rest true (-1) (-1) i).
Proof. reflexivity. Qed.
Lemma lex_rbrace rest f c i :
  Lex (mkLexer [] (kt s_rbrace :: rest) true f c i) = LexTok tkRBRACE (mkLexer [] rest true (-1) (-1) i).
Proof. reflexivity. Qed.
Lemma lex_bang rest f c i :
  Lex (mkLexer [] (kt s_bang :: rest) true f c i) = LexTok tkEXCLAM (mkLexer [] rest true (-1) (-1) i).
Proof. reflexivity. Qed.
Lemma lex_for rest f c i :
  Lex (mkLexer [] (kt s_for :: rest) true f c i) = LexTok tkFOR (mkLexer [] rest false 0 (-1) i).
Proof. reflexivity. Qed.
Lemma lex_case rest f c i :
  Lex (mkLexer [] (kt s_case :: rest) true f c i) = LexTok tkCASE (mkLexer [] rest false (-1) 0 i).
Proof. reflexivity. Qed.
Lemma lex_esac_cmdstart rest f c i :
  Lex (mkLexer [] (kt s_esac :: rest) true f c i) = LexTok tkESAC (mkLexer [] rest true (-1) (-1) false).
Proof. reflexivity. Qed.

(* `in` and `do` after the `for` variable, `in` after the `case` subject, `esac`
   directly after that `in`: recognised by the counters, not by the position *)
Lemma lex_for_in rest i :
  Lex (mkLexer [] (kt s_in :: rest) false 1 (-1) i) = LexTok tkIN (mkLexer [] rest false 2 (-1) i).
Proof. reflexivity. Qed.
Lemma lex_for_do rest i :
  Lex (mkLexer [] (kt s_do :: rest) false 1 (-1) i) = LexTok tkDO (mkLexer [] rest true 2 (-1) i).
Proof. reflexivity. Qed.
Lemma lex_case_in rest i :
  Lex (mkLexer [] (kt s_in :: rest) false (-1) 1 i) = LexTok tkIN (mkLexer [] rest false (-1) 2 true).
Proof. reflexivity. Qed.
Lemma lex_case_in_esac rest i :
  Lex (mkLexer [] (kt s_esac :: rest) false (-1) 2 i) = LexTok tkESAC (mkLexer [] rest true (-1) 3 false).
Proof. reflexivity. Qed.

(* ---------- redirections ---------- *)

Lemma lex_rop o rest a f c i :
  Lex (mkLexer [] (kt (rop_text o) :: rest) a f c i) = LexTok (rop_term o) (mkLexer [] rest false f c i).
Proof. destruct o; reflexivity. Qed.

(* the pending operator of an io-number token *)
Lemma lex_pending_rop o t rest a f c i :
  Lex (mkLexer (rop_text o) (t :: rest) a f c i) = LexTok (rop_term o) (mkLexer [] (t :: rest) false f c i).
Proof. destruct o; reflexivity. Qed.

Lemma span_digits_app ds r :
  forallb is_digit ds = true -> match r with [] => True | x :: _ => is_digit x = false end ->
  span is_digit (ds ++ r) = (ds, r).
Proof.
  induction ds as [| d ds IH]; intros Hd Hr; simpl.
  - destruct r as [| x r]; [reflexivity |]. simpl. rewrite Hr. reflexivity.
  - simpl in Hd. apply andb_true_iff in Hd. destruct Hd as [Hd1 Hd2].
    rewrite Hd1, (IH Hd2 Hr). reflexivity.
Qed.

Lemma digit_first_not_operator d ds r :
  is_digit d = true -> lookup operator_table ((d :: ds) ++ r) = None.
Proof.
  intro Hd. cbn [lookup operator_table app].
  assert (H : forall k ks, is_digit k = false -> str_eqb (d :: ds ++ r) (k :: ks) = false).
  { intros k ks Hk. simpl. destruct (N.eqb_spec d k) as [-> |]; [congruence | reflexivity]. }
  unfold s_semi, s_semisemi, s_nl, s_amp, s_pipe, s_lparen, s_rparen, s_andand, s_oror, s_gt, s_gtand,
    s_lt, s_ltand, s_ltgt, s_gtgt, s_ltlt, s_ltltdash, s_gtpipe.
  rewrite !H by reflexivity. reflexivity.
Qed.

Lemma lex_io_number ds o rest a f c i :
  ds <> [] -> forallb is_digit ds = true ->
  Lex (mkLexer [] (kt (ds ++ rop_text o) :: rest) a f c i)
  = LexTok tkIO_NUMBER (mkLexer (rop_text o) rest a f c i).
Proof.
  intros Hne Hd. destruct ds as [| d ds]; [congruence |].
  unfold Lex. cbn [remaining ioRedirect set_io set_remaining kt t_text t_kind].
  rewrite digit_first_not_operator by (simpl in Hd; apply andb_true_iff in Hd; tauto).
  unfold match_io_number. rewrite span_digits_app; [| exact Hd | destruct o; reflexivity].
  destruct o; reflexivity.
Qed.
