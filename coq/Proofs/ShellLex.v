(* Lemmas about single calls of Model.ShellLex.Lex: what it returns, and the
   lexer state it leaves, for each class of token of the specification. *)
From Coq Require Import NArith ZArith List Bool Lia.
From PV Require Import Lib.Bytes Gen.ShellGrammar Model.ShellLex Spec.PosixSh.
Import ListNotations.
Open Scope Z_scope.

(* ---------- running Lex several times ---------- *)

Definition prepend (ts : list term) (r : lexed) : lexed :=
  match r with Lexed l => Lexed (ts ++ l) | other => other end.

(* [steps lx ts lx']: starting in lx, the next |ts| calls of Lex return ts and leave lx' *)
Definition steps (lx : lexer) (ts : list term) (lx' : lexer) : Prop :=
  forall fuel, lex_stream (length ts + fuel) lx = prepend ts (lex_stream fuel lx').

Lemma prepend_nil r : prepend [] r = r.
Proof. destruct r; reflexivity. Qed.

Lemma prepend_app a b r : prepend (a ++ b) r = prepend a (prepend b r).
Proof. destruct r; simpl; try reflexivity. rewrite app_assoc. reflexivity. Qed.

Lemma steps_nil lx : steps lx [] lx.
Proof. intro fuel. simpl. rewrite prepend_nil. reflexivity. Qed.

Lemma steps_one lx t lx' : Lex lx = LexTok t lx' -> steps lx [t] lx'.
Proof.
  intros H fuel. simpl. rewrite H. destruct (lex_stream fuel lx'); reflexivity.
Qed.

Lemma steps_app a ts1 b ts2 c : steps a ts1 b -> steps b ts2 c -> steps a (ts1 ++ ts2) c.
Proof.
  intros H1 H2 fuel. rewrite app_length, <- Nat.add_assoc, H1, H2, prepend_app. reflexivity.
Qed.

Lemma steps_cons a t b ts c : Lex a = LexTok t b -> steps b ts c -> steps a (t :: ts) c.
Proof. intros H1 H2. apply (steps_app a [t] b ts c); [apply steps_one; exact H1 | exact H2]. Qed.

(* ---------- the counters ---------- *)

(* neither counter can reach the values at which `in`, `do`, `esac` are special *)
Definition safe (f c : Z) : Prop := (f < 0 \/ 2 <= f) /\ (c < 0 \/ 3 <= c).

Definition bumpv (z : Z) : Z := if 0 <=? z then z + 1 else z.

Lemma safe_bump f c : safe f c -> safe (bumpv f) (bumpv c).
Proof. unfold safe, bumpv. intros [Hf Hc]. destruct (Z.leb_spec 0 f), (Z.leb_spec 0 c); lia. Qed.

Lemma safe_m1 : safe (-1) (-1).
Proof. unfold safe. lia. Qed.

Lemma bump_mk io rem a f c i g :
  bump (mkLx io rem a f c i g) = mkLx io rem a (bumpv f) (bumpv c) i g.
Proof. unfold bump, bumpv. simpl. destruct (0 <=? f); simpl; destruct (0 <=? c); reflexivity. Qed.

(* ---------- specification predicates vs. the tables of the model ---------- *)

Ltac split_orb H :=
  repeat match type of H with
  | (_ || _)%bool = false => let H1 := fresh "Hne" in apply orb_false_iff in H; destruct H as [H1 H]
  end.

Ltac rewrite_neq :=
  repeat match goal with
  | H : str_eqb ?s ?k = false |- context [str_eqb ?s ?k] => rewrite H
  end.

Lemma not_operator_lookup s : is_operator s = false -> lookup operator_table s = None.
Proof.
  unfold is_operator, mem, operator_texts. cbn [existsb]. intro H. split_orb H.
  cbn [lookup operator_table]. rewrite_neq. reflexivity.
Qed.

Lemma not_reserved_lookup s : is_reserved s = false ->
  lookup keyword_table s = None /\ str_eqb s s_esac = false /\ str_eqb s s_in = false /\ str_eqb s s_do = false.
Proof.
  unfold is_reserved, mem, reserved_texts. cbn [existsb]. intro H. split_orb H.
  repeat split; try assumption.
  cbn [lookup keyword_table]. rewrite_neq. reflexivity.
Qed.

Lemma not_io_number s : io_number_shaped s = false -> match_io_number s = None.
Proof.
  unfold io_number_shaped, match_io_number. destruct (span is_digit s) as [ds r].
  destruct ds as [| d ds]; [reflexivity |]. cbn [negb andb].
  unfold mem, redirect_texts, redirect_ops. cbn [existsb]. intro H. split_orb H.
  rewrite_neq. reflexivity.
Qed.

Lemma assignment_like_shaped s : assignment_like s = assignment_shaped s.
Proof. reflexivity. Qed.

Lemma comment_like_hash s : comment_like s = starts_with_hash s.
Proof. reflexivity. Qed.

Lemma assignment_not_reserved s : assignment_like s = true -> is_reserved s = false.
Proof.
  intro Ha. destruct (is_reserved s) eqn:Hr; [| reflexivity].
  unfold is_reserved, mem in Hr. apply existsb_exists in Hr. destruct Hr as (k & Hin & Heq).
  apply str_eqb_spec in Heq. subst k.
  unfold reserved_texts in Hin. simpl in Hin.
  repeat (destruct Hin as [<- | Hin]; [vm_compute in Ha; discriminate |]). destruct Hin.
Qed.

(* unfolding arg_ok *)
Lemma arg_ok_inv w : arg_ok w = true ->
  t_kind w = WkPlain /\ lookup operator_table (t_text w) = None /\
  match_io_number (t_text w) = None /\ starts_with_hash (t_text w) = false.
Proof.
  unfold arg_ok. intro H.
  repeat (apply andb_true_iff in H; destruct H as [H ?]).
  repeat match goal with Hn : negb _ = true |- _ => apply negb_true_iff in Hn end.
  split; [destruct (t_kind w); (reflexivity || discriminate) |].
  split; [apply not_operator_lookup; assumption |].
  split; [apply not_io_number; assumption |].
  rewrite <- comment_like_hash. assumption.
Qed.

Lemma name_ok_inv w : name_ok w = true ->
  arg_ok w = true /\ is_reserved (t_text w) = false /\ assignment_shaped (t_text w) = false.
Proof.
  unfold name_ok. intro H.
  apply andb_true_iff in H. destruct H as [H Ha].
  apply andb_true_iff in H. destruct H as [H Hr].
  apply negb_true_iff in Ha. apply negb_true_iff in Hr.
  rewrite <- assignment_like_shaped. auto.
Qed.

Lemma name_ok_arg_ok w : name_ok w = true -> arg_ok w = true.
Proof. intro H. apply name_ok_inv in H. tauto. Qed.

(* ---------- Lex, unfolded for a lexer without pending io operator ---------- *)

(* g = afterAssign on entry; it is cleared before anything else and only passed on
   to the reserved-word test and to the final switch *)
Lemma Lex_unfold w rest a f c i g :
  Lex (mkLx [] (w :: rest) a f c i g) =
  match lookup operator_table (t_text w) with
  | Some (t, eff) => LexTok t (eff (mkLx [] rest a f c i false))
  | None =>
    match match_io_number (t_text w) with
    | Some (_, op) => LexTok tkIO_NUMBER (mkLx op rest a f c i false)
    | None =>
      if a then
        match (if negb i && negb g then lookup keyword_table (t_text w) else None) with
        | Some (t, eff) => LexTok t (eff (mkLx [] rest true (-1) (-1) i false))
        | None => lex_word (t_text w) (t_kind w) g (mkLx [] rest true (-1) (-1) i false)
        end
      else lex_word (t_text w) (t_kind w) g (mkLx [] rest false (bumpv f) (bumpv c) i false)
    end
  end.
Proof.
  unfold Lex. cbv beta iota delta [remaining ioRedirect].
  destruct (lookup operator_table (t_text w)) as [[t eff] |]; [reflexivity |].
  destruct (match_io_number (t_text w)) as [[ds op] |]; [reflexivity |].
  destruct a.
  - cbv beta iota delta [atCommandStart set_io set_remaining set_aa set_for set_case ioRedirect remaining
      sinceFor sinceCase inCasePattern afterAssign andb].
    destruct (negb i && negb g)%bool.
    + destruct (lookup keyword_table (t_text w)) as [[t eff] |]; reflexivity.
    + reflexivity.
  - cbv beta iota delta [atCommandStart set_io set_remaining set_aa ioRedirect remaining sinceFor sinceCase
      inCasePattern afterAssign andb].
    rewrite bump_mk. reflexivity.
Qed.

Lemma lex_word_mk token kind g rest a f c i :
  lex_word token kind g (mkLx [] rest a f c i false) =
  if (f =? 2) && str_eqb token s_in then LexTok tkIN (mkLx [] rest false f c i false)
  else if (f =? 2) && str_eqb token s_do then LexTok tkDO (mkLx [] rest true f c i false)
  else if (c =? 2) && str_eqb token s_in then LexTok tkIN (mkLx [] rest false f c true false)
  else if ((a && negb g) || (c =? 3)) && str_eqb token s_esac then LexTok tkESAC (mkLx [] rest true f c false false)
  else if a && negb i && assignment_shaped token then LexTok tkASSIGNMENT_WORD (mkLx [] rest a f c i true)
  else if starts_with_hash token then LexEOF (mkLx [] rest a f c i false)
  else if 0 <=? c then
    match kind with
    | WkNil => LexPanic
    | WkLoopExpr => LexTok tkWORD (mkLx [] rest true f c i false)
    | WkPlain => LexTok tkWORD (mkLx [] rest false f c i false)
    end
  else LexTok tkWORD (mkLx [] rest false f c i false).
Proof. reflexivity. Qed.

Lemma eqb_false a b : a <> b -> (a =? b) = false.
Proof. apply Z.eqb_neq. Qed.

(* ---------- words ---------- *)

(* a word in argument position (not at command start), counters out of the danger zone *)
Lemma lex_arg w rest f c i g :
  arg_ok w = true -> safe f c ->
  Lex (mkLx [] (w :: rest) false f c i g) = LexTok tkWORD (mkLx [] rest false (bumpv f) (bumpv c) i false).
Proof.
  intros Hw Hs. destruct (arg_ok_inv w Hw) as (Hk & Hop & Hio & Hh).
  pose proof (safe_bump f c Hs) as [Hf' Hc'].
  rewrite Lex_unfold, Hop, Hio, lex_word_mk.
  rewrite (eqb_false (bumpv f) 2), (eqb_false (bumpv c) 2), (eqb_false (bumpv c) 3)
    by (unfold safe, bumpv in *; destruct (Z.leb_spec 0 f), (Z.leb_spec 0 c); lia).
  cbn [andb orb]. rewrite Hh, Hk.
  destruct (0 <=? bumpv c); reflexivity.
Qed.

(* the same when a counter is about to reach 1: the `for` variable (f = 0) and the
   `case` subject (c = 0) *)
Lemma lex_arg_for_name w rest i :
  arg_ok w = true ->
  Lex (mkLx [] (w :: rest) false 0 (-1) i false) = LexTok tkWORD (mkLx [] rest false 1 (-1) i false).
Proof.
  intros Hw. destruct (arg_ok_inv w Hw) as (Hk & Hop & Hio & Hh).
  rewrite Lex_unfold, Hop, Hio, lex_word_mk.
  change (bumpv 0) with 1. change (bumpv (-1)) with (-1).
  cbn [Z.eqb andb orb Pos.eqb Z.leb Z.compare]. rewrite Hh. reflexivity.
Qed.

Lemma lex_arg_case_subject w rest i :
  arg_ok w = true ->
  Lex (mkLx [] (w :: rest) false (-1) 0 i false) = LexTok tkWORD (mkLx [] rest false (-1) 1 i false).
Proof.
  intros Hw. destruct (arg_ok_inv w Hw) as (Hk & Hop & Hio & Hh).
  rewrite Lex_unfold, Hop, Hio, lex_word_mk.
  change (bumpv 0) with 1. change (bumpv (-1)) with (-1).
  cbn [Z.eqb andb orb Pos.eqb Z.leb Z.compare]. rewrite Hh, Hk. reflexivity.
Qed.

Lemma pattern_ok_inv w : pattern_ok w = true -> arg_ok w = true /\ str_eqb (t_text w) s_esac = false.
Proof.
  unfold pattern_ok. intro H. apply andb_true_iff in H. destruct H as [Ha He].
  apply negb_true_iff in He. auto.
Qed.

(* the first pattern of a case clause: sinceCase goes from 2 to 3, where `esac` is special *)
Lemma lex_first_pattern w rest i :
  pattern_ok w = true ->
  Lex (mkLx [] (w :: rest) false (-1) 2 i false) = LexTok tkWORD (mkLx [] rest false (-1) 3 i false).
Proof.
  intros Hn. destruct (pattern_ok_inv w Hn) as (Hw & Hesac).
  destruct (arg_ok_inv w Hw) as (Hk & Hop & Hio & Hh).
  rewrite Lex_unfold, Hop, Hio, lex_word_mk.
  change (bumpv 2) with 3. change (bumpv (-1)) with (-1).
  cbn [Z.eqb andb orb Pos.eqb Z.leb Z.compare]. rewrite Hesac, Hh, Hk. reflexivity.
Qed.

(* a pattern directly after `;;`: at command start, but inCasePattern protects it from the
   reserved-word switch and from the assignment-word arm *)
Lemma lex_pattern_after_dsemi w rest f c :
  pattern_ok w = true ->
  Lex (mkLx [] (w :: rest) true f c true false) = LexTok tkWORD (mkLx [] rest false (-1) (-1) true false).
Proof.
  intros Hn. destruct (pattern_ok_inv w Hn) as (Hw & Hesac).
  destruct (arg_ok_inv w Hw) as (Hk & Hop & Hio & Hh).
  rewrite Lex_unfold, Hop, Hio. cbn [negb andb]. rewrite lex_word_mk.
  cbn [Z.eqb andb orb negb Z.leb Z.compare]. rewrite Hesac, Hh. reflexivity.
Qed.

(* the first word of a command: command name, function name *)
Lemma lex_name w rest f c i :
  name_ok w = true ->
  Lex (mkLx [] (w :: rest) true f c i false) = LexTok tkWORD (mkLx [] rest false (-1) (-1) i false).
Proof.
  intros Hn. destruct (name_ok_inv w Hn) as (Hw & Hr & Has).
  destruct (arg_ok_inv w Hw) as (Hk & Hop & Hio & Hh).
  destruct (not_reserved_lookup _ Hr) as (Hkw & Hesac & _ & _).
  rewrite Lex_unfold, Hop, Hio, Hkw. replace (if (negb i && negb false)%bool then None else None) with (@None (term * (lexer -> lexer)))
    by (destruct i; reflexivity).
  rewrite lex_word_mk.
  cbn [Z.eqb andb orb Z.leb Z.compare]. rewrite Hesac, Has, Hh. rewrite !andb_false_r. reflexivity.
Qed.

(* a command name after an assignment word: not subject to the reserved-word switch *)
Lemma lex_name_after_assign w rest f c :
  later_name_ok w = true ->
  Lex (mkLx [] (w :: rest) true f c false true) = LexTok tkWORD (mkLx [] rest false (-1) (-1) false false).
Proof.
  unfold later_name_ok. intro H. apply andb_true_iff in H. destruct H as [Hw Has].
  apply negb_true_iff in Has. rewrite assignment_like_shaped in Has.
  destruct (arg_ok_inv w Hw) as (Hk & Hop & Hio & Hh).
  rewrite Lex_unfold, Hop, Hio. cbn [negb andb]. rewrite lex_word_mk.
  cbn [Z.eqb andb orb negb Z.leb Z.compare]. rewrite Has, Hh. reflexivity.
Qed.

(* an assignment word in command position (not in a case pattern); the lexer stays at
   command start and remembers the assignment *)
Lemma lex_assign w rest f c g :
  assign_ok w = true ->
  Lex (mkLx [] (w :: rest) true f c false g) = LexTok tkASSIGNMENT_WORD (mkLx [] rest true (-1) (-1) false true).
Proof.
  unfold assign_ok. intro H. apply andb_true_iff in H. destruct H as [Hw Ha].
  destruct (arg_ok_inv w Hw) as (Hk & Hop & Hio & Hh).
  destruct (not_reserved_lookup _ (assignment_not_reserved _ Ha)) as (Hkw & Hesac & _ & _).
  rewrite assignment_like_shaped in Ha.
  rewrite Lex_unfold, Hop, Hio. rewrite Hkw.
  replace (if (negb false && negb g)%bool then None else None) with (@None (term * (lexer -> lexer)))
    by (destruct g; reflexivity).
  rewrite lex_word_mk.
  cbn [Z.eqb andb orb negb Z.leb Z.compare]. rewrite Hesac, Ha. rewrite !andb_false_r. reflexivity.
Qed.

(* ---------- operators and reserved words: by computation ---------- *)

Definition kt (s : str) : tok := mkTok s WkPlain.

Lemma lex_semi rest a f c i g :
  Lex (mkLx [] (kt s_semi :: rest) a f c i g) = LexTok tkSEMI (mkLx [] rest true f c i false).
Proof. reflexivity. Qed.
Lemma lex_amp rest a f c i g :
  Lex (mkLx [] (kt s_amp :: rest) a f c i g) = LexTok tkBACKGROUND (mkLx [] rest true f c i false).
Proof. reflexivity. Qed.
Lemma lex_andand rest a f c i g :
  Lex (mkLx [] (kt s_andand :: rest) a f c i g) = LexTok tkAND (mkLx [] rest true f c i false).
Proof. reflexivity. Qed.
Lemma lex_oror rest a f c i g :
  Lex (mkLx [] (kt s_oror :: rest) a f c i g) = LexTok tkOR (mkLx [] rest true f c i false).
Proof. reflexivity. Qed.
Lemma lex_semisemi rest a f c i g :
  Lex (mkLx [] (kt s_semisemi :: rest) a f c i g) = LexTok tkSEMISEMI (mkLx [] rest true f c true false).
Proof. reflexivity. Qed.
Lemma lex_pipe rest a f c i g :
  Lex (mkLx [] (kt s_pipe :: rest) a f c i g) = LexTok tkPIPE (mkLx [] rest (negb i) f c i false).
Proof. reflexivity. Qed.
Lemma lex_lparen rest a f c i g :
  Lex (mkLx [] (kt s_lparen :: rest) a f c i g) = LexTok tkLPAREN (mkLx [] rest (negb i) f c i false).
Proof. reflexivity. Qed.
Lemma lex_rparen rest a f c i g :
  Lex (mkLx [] (kt s_rparen :: rest) a f c i g) = LexTok tkRPAREN (mkLx [] rest true f c false false).
Proof. reflexivity. Qed.

(* reserved words in command position *)
Lemma lex_if rest f c :
  Lex (mkLx [] (kt s_if :: rest) true f c false false) = LexTok tkIF (mkLx [] rest true (-1) (-1) false false).
Proof. reflexivity. Qed.
Lemma lex_then rest f c :
  Lex (mkLx [] (kt s_then :: rest) true f c false false) = LexTok tkTHEN (mkLx [] rest true (-1) (-1) false false).
Proof. reflexivity. Qed.
Lemma lex_elif rest f c :
  Lex (mkLx [] (kt s_elif :: rest) true f c false false) = LexTok tkELIF (mkLx [] rest true (-1) (-1) false false).
Proof. reflexivity. Qed.
Lemma lex_else rest f c :
  Lex (mkLx [] (kt s_else :: rest) true f c false false) = LexTok tkELSE (mkLx [] rest true (-1) (-1) false false).
Proof. reflexivity. Qed.
Lemma lex_fi rest f c :
  Lex (mkLx [] (kt s_fi :: rest) true f c false false) = LexTok tkFI (mkLx [] rest true (-1) (-1) false false).
Proof. reflexivity. Qed.
Lemma lex_while rest f c :
  Lex (mkLx [] (kt s_while :: rest) true f c false false) = LexTok tkWHILE (mkLx [] rest true (-1) (-1) false false).
Proof. reflexivity. Qed.
Lemma lex_until rest f c :
  Lex (mkLx [] (kt s_until :: rest) true f c false false) = LexTok tkUNTIL (mkLx [] rest true (-1) (-1) false false).
Proof. reflexivity. Qed.
Lemma lex_do rest f c :
  Lex (mkLx [] (kt s_do :: rest) true f c false false) = LexTok tkDO (mkLx [] rest true (-1) (-1) false false).
Proof. reflexivity. Qed.
Lemma lex_done rest f c :
  Lex (mkLx [] (kt s_done :: rest) true f c false false) = LexTok tkDONE (mkLx [] rest true (-1) (-1) false false).
Proof. reflexivity. Qed.
Lemma lex_lbrace rest f c :
  Lex (mkLx [] (kt s_lbrace :: rest) true f c false false) = LexTok tkLBRACE (mkLx [] rest true (-1) (-1) false false).
Proof. reflexivity. Qed.
Lemma lex_rbrace rest f c :
  Lex (mkLx [] (kt s_rbrace :: rest) true f c false false) = LexTok tkRBRACE (mkLx [] rest true (-1) (-1) false false).
Proof. reflexivity. Qed.
Lemma lex_bang rest f c :
  Lex (mkLx [] (kt s_bang :: rest) true f c false false) = LexTok tkEXCLAM (mkLx [] rest true (-1) (-1) false false).
Proof. reflexivity. Qed.
Lemma lex_for rest f c :
  Lex (mkLx [] (kt s_for :: rest) true f c false false) = LexTok tkFOR (mkLx [] rest false 0 (-1) false false).
Proof. reflexivity. Qed.
Lemma lex_case rest f c :
  Lex (mkLx [] (kt s_case :: rest) true f c false false) = LexTok tkCASE (mkLx [] rest false (-1) 0 false false).
Proof. reflexivity. Qed.
Lemma lex_esac_cmdstart rest f c i :
  Lex (mkLx [] (kt s_esac :: rest) true f c i false) = LexTok tkESAC (mkLx [] rest true (-1) (-1) false false).
Proof. destruct i; reflexivity. Qed.

(* `in` and `do` after the `for` variable, `in` after the `case` subject, `esac`
   directly after that `in`: recognised by the counters, not by the position *)
Lemma lex_for_in rest i :
  Lex (mkLx [] (kt s_in :: rest) false 1 (-1) i false) = LexTok tkIN (mkLx [] rest false 2 (-1) i false).
Proof. reflexivity. Qed.
Lemma lex_for_do rest i :
  Lex (mkLx [] (kt s_do :: rest) false 1 (-1) i false) = LexTok tkDO (mkLx [] rest true 2 (-1) i false).
Proof. reflexivity. Qed.
Lemma lex_case_in rest i :
  Lex (mkLx [] (kt s_in :: rest) false (-1) 1 i false) = LexTok tkIN (mkLx [] rest false (-1) 2 true false).
Proof. reflexivity. Qed.
Lemma lex_case_in_esac rest i :
  Lex (mkLx [] (kt s_esac :: rest) false (-1) 2 i false) = LexTok tkESAC (mkLx [] rest true (-1) 3 false false).
Proof. reflexivity. Qed.

(* ---------- redirections ---------- *)

Lemma lex_rop o rest a f c i g :
  Lex (mkLx [] (kt (rop_text o) :: rest) a f c i g) = LexTok (rop_term o) (mkLx [] rest false f c i false).
Proof. destruct o; reflexivity. Qed.

(* the pending operator of an io-number token *)
Lemma lex_pending_rop o t rest a f c i :
  Lex (mkLx (rop_text o) (t :: rest) a f c i false) = LexTok (rop_term o) (mkLx [] (t :: rest) false f c i false).
Proof. destruct o; reflexivity. Qed.

Lemma span_digits_app ds r :
  forallb is_digit ds = true -> match r with [] => True | x :: _ => is_digit x = false end ->
  span is_digit (ds ++ r) = (ds, r).
Proof.
  induction ds as [| d ds IH]; intros Hd Hr; simpl.
  - destruct r as [| x r]; [reflexivity |]. simpl. rewrite Hr. reflexivity.
  - simpl in Hd. apply andb_true_iff in Hd. destruct Hd as [Hd1 Hd2].
    rewrite Hd1, (IH Hd2 Hr). reflexivity.
Qed.

Lemma digit_first_not_operator d ds r :
  is_digit d = true -> lookup operator_table ((d :: ds) ++ r) = None.
Proof.
  intro Hd. cbn [lookup operator_table app].
  assert (H : forall k ks, is_digit k = false -> str_eqb (d :: ds ++ r) (k :: ks) = false).
  { intros k ks Hk. simpl. destruct (N.eqb_spec d k) as [-> |]; [congruence | reflexivity]. }
  unfold s_semi, s_semisemi, s_nl, s_amp, s_pipe, s_lparen, s_rparen, s_andand, s_oror, s_gt, s_gtand,
    s_lt, s_ltand, s_ltgt, s_gtgt, s_ltlt, s_ltltdash, s_gtpipe.
  rewrite !H by reflexivity. reflexivity.
Qed.

Lemma lex_io_number ds o rest a f c i g :
  ds <> [] -> forallb is_digit ds = true ->
  Lex (mkLx [] (kt (ds ++ rop_text o) :: rest) a f c i g)
  = LexTok tkIO_NUMBER (mkLx (rop_text o) rest a f c i false).
Proof.
  intros Hne Hd. destruct ds as [| d ds]; [congruence |].
  unfold Lex. cbn [remaining ioRedirect set_io set_remaining kt t_text t_kind].
  rewrite digit_first_not_operator by (simpl in Hd; apply andb_true_iff in Hd; tauto).
  unfold match_io_number. rewrite span_digits_app; [| exact Hd | destruct o; reflexivity].
  destruct o; reflexivity.
Qed.
