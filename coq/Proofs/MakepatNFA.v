(* Match is the textbook acceptance of a nondeterministic automaton:
   for a well-formed pattern,  matchp a s = Ok (accepts a 0 s). *)
From PV Require Import Lib.Bytes Gen.NumberAutomaton Model.Makepat Proofs.MakepatBasics.
From Coq Require Import ZifyBool ZifyN ZifyNat.
Open Scope N_scope.

(* every transition leads to an existing state; at least one state *)
Definition targets_ok (n : N) (sts : list state) : Prop :=
  forall st, In st sts -> forall t, In t (trans st) -> tto t < n.
Definition wf (a : pattern) : Prop := a <> [] /\ targets_ok (nlen a) a.

(* is there a run from state q that consumes s and ends in an end state? *)
Fixpoint accepts (a : pattern) (q : N) (s : str) : bool :=
  match nth_n a q with
  | None => false
  | Some st =>
    match s with
    | [] => fin st
    | c :: s' => existsb (fun t => fires c t && accepts a (tto t) s') (trans st)
    end
  end.

Definition on (l : list bool) (q : N) : Prop := nth_n l q = Some true.

Lemma on_cons b l q : on (b :: l) q <-> (q = 0 /\ b = true) \/ (q <> 0 /\ on l (N.pred q)).
Proof.
  unfold on. rewrite nth_n_cons. destruct (N.eqb_spec q 0) as [->|H].
  - split; [intro E; injection E; auto|intros [[_ ->]|[C _]]; [reflexivity|contradiction]].
  - split; [auto|intros [[C _]|[_ E]]; [contradiction|exact E]].
Qed.

Lemma on_zeros {A} (l : list A) q : ~ on (zeros_like false l) q.
Proof.
  unfold on, zeros_like. revert q; induction l as [|x l IH]; intros q; cbn [map].
  - cbn. discriminate.
  - rewrite nth_n_cons. destruct (q =? 0); [discriminate|apply IH].
Qed.

Lemma set_true_spec l i l' : set_true l i = Some l' ->
  nlen l' = nlen l /\ forall q, on l' q <-> on l q \/ q = i.
Proof.
  unfold set_true. intro H. apply upd_n_some in H as (Hi & Hl & Hn). split; [exact Hl|].
  intro q. unfold on. rewrite Hn. destruct (N.eqb_spec q i) as [->|Hq].
  - destruct (nth_n_lt l i Hi) as [b E]. rewrite E. cbn. split; auto.
  - split; [auto|intros [E|E]; [exact E|contradiction]].
Qed.

(* one state's transitions *)
Lemma step_trans_spec c ts : forall next ok, (forall t, In t ts -> tto t < nlen next) ->
  exists next' ok', step_trans ts c next ok = Some (next', ok') /\ nlen next' = nlen next
    /\ (forall q, on next' q <-> on next q \/ exists t, In t ts /\ fires c t = true /\ tto t = q)
    /\ (ok' = true <-> ok = true \/ exists t, In t ts /\ fires c t = true).
Proof.
  induction ts as [|t ts IH]; intros next ok Ht; cbn [step_trans].
  - exists next, ok. split; [reflexivity|]. split; [reflexivity|]. split.
    + intro q. split; [auto|]. intros [H|(t & F & _)]; [exact H|destruct F].
    + split; [auto|]. intros [H|(t & F & _)]; [exact H|destruct F].
  - destruct (fires c t) eqn:F.
    + assert (L : tto t < nlen next) by (apply Ht; left; reflexivity).
      destruct (upd_n_lt next (tto t) (fun _ => true) L) as [next1 E]. unfold set_true at 1. rewrite E.
      destruct (set_true_spec _ _ _ E) as (L1 & O1).
      destruct (IH next1 true) as (next' & ok' & E' & L' & O' & K').
      { intros t' Hin. rewrite L1. apply Ht. right; exact Hin. }
      exists next', ok'. split; [exact E'|]. split; [lia|]. split.
      * intro q. rewrite O', O1. split.
        -- intros [[H| ->]|(t' & Hin & F' & Q)]; [auto|right; exists t; cbn; auto|right; exists t'; cbn; auto].
        -- intros [H|(t' & [->|Hin] & F' & Q)]; [auto|auto|right; exists t'; auto].
      * rewrite K'. split; [intros _; right; exists t; cbn; auto|auto].
    + destruct (IH next ok) as (next' & ok' & E' & L' & O' & K').
      { intros t' Hin. apply Ht. right; exact Hin. }
      exists next', ok'. split; [exact E'|]. split; [exact L'|]. split.
      * intro q. rewrite O'. split.
        -- intros [H|(t' & Hin & F' & Q)]; [auto|right; exists t'; cbn; auto].
        -- intros [H|(t' & [->|Hin] & F' & Q)]; [auto|congruence|right; exists t'; auto].
      * rewrite K'. split.
        -- intros [H|(t' & Hin & F')]; [auto|right; exists t'; cbn; auto].
        -- intros [H|(t' & [->|Hin] & F')]; [auto|congruence|right; exists t'; auto].
Qed.

(* a transition of an active state fires on c *)
Definition fired (sts : list state) (curr : list bool) (c : N) (t : transition) : Prop :=
  exists i st, nth_n sts i = Some st /\ on curr i /\ In t (trans st) /\ fires c t = true.

Lemma fired_cons st sts b curr c t :
  fired (st :: sts) (b :: curr) c t <->
  (b = true /\ In t (trans st) /\ fires c t = true) \/ fired sts curr c t.
Proof.
  unfold fired. split.
  - intros (i & st' & N & O & I & F). rewrite nth_n_cons in N. apply on_cons in O.
    destruct (N.eqb_spec i 0) as [->|Hi].
    + injection N as <-. destruct O as [[_ ->]|[C _]]; [|contradiction]. left; auto.
    + destruct O as [[C _]|[_ O]]; [contradiction|]. right. exists (N.pred i), st'. auto.
  - intros [(-> & I & F)|(i & st' & N & O & I & F)].
    + exists 0, st. rewrite nth_n_cons. cbn. split; [reflexivity|]. split; [apply on_cons; left; auto|auto].
    + exists (N.succ i), st'. rewrite nth_n_cons. destruct (N.eqb_spec (N.succ i) 0); [lia|].
      rewrite N.pred_succ. split; [exact N|]. split; [|auto].
      apply on_cons. right. split; [lia|]. rewrite N.pred_succ. exact O.
Qed.

Lemma fired_nil_l curr c t : ~ fired [] curr c t.
Proof. intros (i & st & N & _). discriminate. Qed.

Lemma fired_nil_r sts c t : ~ fired sts [] c t.
Proof. intros (i & st & _ & O & _). discriminate. Qed.

Lemma step_all_spec c sts : forall curr next ok, targets_ok (nlen next) sts ->
  exists next' ok', step_all sts curr c next ok = Some (next', ok') /\ nlen next' = nlen next
    /\ (forall q, on next' q <-> on next q \/ exists t, fired sts curr c t /\ tto t = q)
    /\ (ok' = true <-> ok = true \/ exists t, fired sts curr c t).
Proof.
  induction sts as [|st sts IH]; intros curr next ok Ht.
  - cbn [step_all]. exists next, ok. split; [reflexivity|]. split; [reflexivity|]. split.
    + intro q. split; [auto|intros [H|(t & F & _)]; [exact H|destruct (fired_nil_l _ _ _ F)]].
    + split; [auto|intros [H|(t & F)]; [exact H|destruct (fired_nil_l _ _ _ F)]].
  - destruct curr as [|b curr].
    + cbn [step_all]. exists next, ok. split; [reflexivity|]. split; [reflexivity|]. split.
      * intro q. split; [auto|intros [H|(t & F & _)]; [exact H|destruct (fired_nil_r _ _ _ F)]].
      * split; [auto|intros [H|(t & F)]; [exact H|destruct (fired_nil_r _ _ _ F)]].
    + cbn [step_all]. assert (Ht' : targets_ok (nlen next) sts).
      { intros st' Hin. apply Ht. right; exact Hin. }
      destruct b.
      * destruct (step_trans_spec c (trans st) next ok) as (next1 & ok1 & E1 & L1 & O1 & K1).
        { apply Ht. left; reflexivity. }
        rewrite E1. destruct (IH curr next1 ok1) as (next' & ok' & E' & L' & O' & K').
        { rewrite L1. exact Ht'. }
        exists next', ok'. split; [exact E'|]. split; [lia|]. split.
        -- intro q. rewrite O', O1. split.
           ++ intros [[H|(t & I & F & Q)]|(t & F & Q)]; [auto| |].
              ** right. exists t. split; [apply fired_cons; left; auto|exact Q].
              ** right. exists t. split; [apply fired_cons; right; exact F|exact Q].
           ++ intros [H|(t & F & Q)]; [auto|]. apply fired_cons in F as [(_ & I & F)|F].
              ** left. right. exists t. auto.
              ** right. exists t. auto.
        -- rewrite K', K1. split.
           ++ intros [[H|(t & I & F)]|(t & F)]; [auto| |].
              ** right. exists t. apply fired_cons; left; auto.
              ** right. exists t. apply fired_cons; right; exact F.
           ++ intros [H|(t & F)]; [auto|]. apply fired_cons in F as [(_ & I & F)|F].
              ** left. right. exists t. auto.
              ** right. exists t. exact F.
      * destruct (IH curr next ok Ht') as (next' & ok' & E' & L' & O' & K').
        exists next', ok'. split; [exact E'|]. split; [exact L'|]. split.
        -- intro q. rewrite O'. split.
           ++ intros [H|(t & F & Q)]; [auto|]. right. exists t. split; [apply fired_cons; right; exact F|exact Q].
           ++ intros [H|(t & F & Q)]; [auto|]. apply fired_cons in F as [(C & _)|F]; [discriminate|].
              right. exists t. auto.
        -- rewrite K'. split.
           ++ intros [H|(t & F)]; [auto|]. right. exists t. apply fired_cons; right; exact F.
           ++ intros [H|(t & F)]; [auto|]. apply fired_cons in F as [(C & _)|F]; [discriminate|].
              right. exists t. exact F.
Qed.

Lemma any_end_spec sts : forall curr,
  any_end sts curr = true <-> exists i st, nth_n sts i = Some st /\ on curr i /\ fin st = true.
Proof.
  induction sts as [|st sts IH]; intros curr.
  - cbn. split; [discriminate|intros (i & st & N & _); discriminate].
  - destruct curr as [|b curr].
    + cbn. split; [discriminate|intros (i & st' & _ & O & _); discriminate].
    + cbn [any_end]. rewrite orb_true_iff, andb_true_iff, IH. split.
      * intros [[-> F]|(i & st' & N & O & F)].
        -- exists 0, st. rewrite nth_n_cons. cbn. split; [reflexivity|]. split; [apply on_cons; left; auto|exact F].
        -- exists (N.succ i), st'. rewrite nth_n_cons. destruct (N.eqb_spec (N.succ i) 0); [lia|].
           rewrite N.pred_succ. split; [exact N|]. split; [|exact F].
           apply on_cons. right. split; [lia|]. rewrite N.pred_succ. exact O.
      * intros (i & st' & N & O & F). rewrite nth_n_cons in N. apply on_cons in O.
        destruct (N.eqb_spec i 0) as [->|Hi].
        -- injection N as <-. destruct O as [[_ ->]|[C _]]; [|contradiction]. left; auto.
        -- destruct O as [[C _]|[_ O]]; [contradiction|]. right. exists (N.pred i), st'. auto.
Qed.

Lemma accepts_nil a q : accepts a q [] = match nth_n a q with Some st => fin st | None => false end.
Proof. reflexivity. Qed.

Lemma accepts_cons a q c s :
  accepts a q (c :: s) = match nth_n a q with
                         | Some st => existsb (fun t => fires c t && accepts a (tto t) s) (trans st)
                         | None => false
                         end.
Proof. reflexivity. Qed.

(* the simulation *)
Lemma match_loop_spec a : targets_ok (nlen a) a -> forall s curr,
  exists b, match_loop a curr s = Ok b /\
            (b = true <-> exists q, on curr q /\ accepts a q s = true).
Proof.
  intros Hwf. induction s as [|c s IH]; intros curr; cbn [match_loop].
  - eexists; split; [reflexivity|]. rewrite any_end_spec. split.
    + intros (i & st & N & O & F). exists i. split; [exact O|]. rewrite accepts_nil, N. exact F.
    + intros (q & O & A). rewrite accepts_nil in A. destruct (nth_n a q) as [st|] eqn:N; [|discriminate].
      exists q, st. auto.
  - destruct (step_all_spec c a curr (zeros_like false a) false) as (next & ok & E & L & O & K).
    { rewrite zeros_like_nlen. exact Hwf. }
    rewrite E.
    assert (Hstep : (exists q, on curr q /\ accepts a q (c :: s) = true)
                    <-> exists q', on next q' /\ accepts a q' s = true).
    { split.
      - intros (q & Oq & A). rewrite accepts_cons in A. destruct (nth_n a q) as [st|] eqn:N; [|discriminate].
        apply existsb_exists in A as (t & I & A). apply andb_true_iff in A as [F A].
        exists (tto t). split; [|exact A]. apply O. right. exists t. split; [|reflexivity].
        exists q, st. auto.
      - intros (q' & Oq & A). apply O in Oq as [Oq|(t & (i & st & N & Oi & I & F) & Q)].
        + destruct (on_zeros _ _ Oq).
        + exists i. split; [exact Oi|]. rewrite accepts_cons, N. apply existsb_exists. exists t.
          split; [exact I|]. rewrite F, Q. exact A. }
    destruct ok.
    + destruct (IH next) as (b & Eb & Hb). exists b. split; [exact Eb|]. rewrite Hb, Hstep. tauto.
    + exists false. split; [reflexivity|]. split; [discriminate|].
      intro H. apply Hstep in H as (q' & Oq & _). apply O in Oq as [Oq|(t & F & _)].
      * destruct (on_zeros _ _ Oq).
      * assert (false = true) by (apply K; right; exists t; exact F). discriminate.
Qed.

Theorem matchp_accepts a s : wf a -> matchp a s = Ok (accepts a 0 s).
Proof.
  intros [Hne Hwf]. destruct a as [|st0 a']; [contradiction|]. unfold matchp.
  destruct (match_loop_spec (st0 :: a') Hwf s (true :: zeros_like false a')) as (b & E & Hb).
  rewrite E. f_equal.
  assert (Hq : (exists q, on (true :: zeros_like false a') q /\ accepts (st0 :: a') q s = true)
               <-> accepts (st0 :: a') 0 s = true).
  { split.
    - intros (q & O & A). apply on_cons in O as [[-> _]|[_ O]]; [exact A|destruct (on_zeros _ _ O)].
    - intro A. exists 0. split; [apply on_cons; left; auto|exact A]. }
  rewrite Hq in Hb. destruct b, (accepts (st0 :: a') 0 s); try reflexivity.
  - symmetry. apply Hb. reflexivity.
  - apply Hb. reflexivity.
Qed.
