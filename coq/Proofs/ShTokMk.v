(* Proofs about Model/ShTok.v, part 6: the expression lexer of part C10mk
   (Model/MkLexer.v: Expr) as the `expr` of the shell tokenizer.  With it the
   theorems of Props/C10sh.v hold without a hypothesis about MkLexer.Expr. *)
From PV Require Model.MkLexPrim Model.MkLexer Proofs.MkLexPrim Proofs.MkLexer Spec.MkPartition Gen.MkByteSets.
From PV Require Import Lib.Bytes Model.ShTok Spec.ShPartition Spec.ShWords
  Proofs.ShTok Proofs.ShTokLoop Proofs.ShTokSpec Proofs.ShTokSplit Proofs.ShTokWords.
From Coq Require Import ZifyBool ZifyN ZifyNat.
Open Scope N_scope.

Module MP := PV.Model.MkLexPrim.
Module MM := PV.Model.MkLexer.
Module BS := PV.Gen.MkByteSets.

(* MkLexer.Expr in the shape the shell tokenizer model expects: the text it consumed and the rest *)
Definition mk_expr (s : str) : option (str * str) :=
  match MM.Expr s with
  | MP.Ok (Some r) => Some (firstn (length s - length r) s, r)
  | _ => None
  end.

Lemma mk_expr_contract : expr_contract mk_expr.
Proof.
  intros s t r H. unfold mk_expr in H.
  destruct (PV.Proofs.MkLexer.expr_advance s) as [E|(r' & E & (c & Hc & Es))]; rewrite E in H; [discriminate|].
  injection H as <- <-. subst s. rewrite app_length.
  replace (length c + length r' - length r')%nat with (length c) by lia.
  rewrite firstn_app, Nat.sub_diag, firstn_all. cbn [firstn]. rewrite app_nil_r. auto.
Qed.

Lemma expr_body_nodollar E c0 t : (c0 =? 36) = false -> MM.expr_body E (c0 :: t) = MP.Ok None.
Proof. intro H. unfold MM.expr_body. destruct t; [reflexivity|]. rewrite H. reflexivity. Qed.

Lemma mk_expr_none s : dollar_start s = false -> mk_expr s = None.
Proof.
  intro H. unfold mk_expr.
  assert (E : MM.Expr s = MP.Ok None).
  { unfold MM.Expr. cbn [MM.expr]. destruct s as [|c0 [|c t]]; try reflexivity.
    unfold dollar_start in H. unfold MM.expr_body.
    destruct (c0 =? 36); [|reflexivity]. cbn [andb negb] in H.
    destruct (N.eqb_spec c 36) as [->|]; [reflexivity|discriminate]. }
  rewrite E. reflexivity.
Qed.

(* ---------- Expr on ${NAME} ---------- *)

Lemma name_byte_sets c : is_name_byte c = true ->
  MP.in_set BS.builtin_variable_spec c = false /\ MP.in_set BS.varbase_spec c = true /\ (c =? 46) = false.
Proof.
  unfold is_name_byte, is_alnum, is_alpha, is_lower, is_upper, is_digit. intro H.
  unfold BS.builtin_variable_spec, BS.varbase_spec. cbn [MP.in_set]. repeat split; lia.
Qed.

Lemma iterate_name (E : MM.exprfn) set name y fuel :
  name <> [] -> forallb (MP.in_set set) name = true -> MP.in_set set 125 = false ->
  E (125 :: y) = MP.Ok None ->
  MP.iterate (MM.bytes_or_expr E set) (S (S fuel)) (name ++ 125 :: y) = MP.Ok (125 :: y).
Proof.
  intros Hn Hf H125 HE. cbn [MP.iterate]. unfold MM.bytes_or_expr at 1. unfold MP.orelse, MP.st_bytes.
  rewrite (span_all_then (MP.in_set set) name (125 :: y) Hf).
  2:{ intros h t E0. injection E0 as <- _. exact H125. }
  destruct name as [|c name']; [congruence|].
  unfold MM.bytes_or_expr, MP.orelse, MP.st_bytes. cbn [span]. rewrite H125, HE. reflexivity.
Qed.

Lemma iterate_stop (E : MM.exprfn) set y fuel :
  MP.in_set set 125 = false -> E (125 :: y) = MP.Ok None ->
  MP.iterate (MM.bytes_or_expr E set) (S fuel) (125 :: y) = MP.Ok (125 :: y).
Proof.
  intros H125 HE. cbn [MP.iterate]. unfold MM.bytes_or_expr, MP.orelse, MP.st_bytes. cbn [span].
  rewrite H125, HE. reflexivity.
Qed.

Lemma expr_mkvar name y : name <> [] -> forallb is_name_byte name = true ->
  MM.Expr (36 :: 123 :: name ++ 125 :: y) = MP.Ok (Some y).
Proof.
  intros Hn Hf. unfold MM.Expr.
  set (n := length (36 :: 123 :: name ++ 125 :: y)).
  change (MM.expr (S n) (36 :: 123 :: name ++ 125 :: y))
    with (MM.expr_body (MM.expr n) (36 :: 123 :: name ++ 125 :: y)).
  set (E := MM.expr n).
  assert (HE : E (125 :: y) = MP.Ok None).
  { unfold E, n. cbn [length MM.expr]. apply expr_body_nodollar. reflexivity. }
  unfold MM.expr_body. cbn [N.eqb Pos.eqb negb orb]. 
  unfold MM.expr_brace. cbn [MP.skip length Nat.leb skipn MP.bind].
  destruct name as [|c name'] eqn:En; [congruence|]. rewrite <- En in *.
  assert (Hc : is_name_byte c = true).
  { rewrite En in Hf. cbn [forallb] in Hf. apply andb_true_iff in Hf as [Hc _]. exact Hc. }
  destruct (name_byte_sets c Hc) as (B1 & B2 & B3).
  assert (Hfb : forallb (MP.in_set BS.varbase_spec) name = true).
  { apply forallb_forall. intros b Hb. rewrite forallb_forall in Hf. apply (name_byte_sets b (Hf b Hb)). }
  (* Varname *)
  assert (V : exists v, MM.varname E (name ++ 125 :: y) = MP.Ok (v, 125 :: y)).
  { unfold MM.varname. rewrite En. cbn [app]. rewrite B1.
    unfold MP.skip_byte_opt, MP.skip_byte. rewrite B3.
    change (c :: name' ++ 125 :: y) with ((c :: name') ++ 125 :: y). rewrite <- En.
    unfold MP.loop. rewrite app_length. cbn [length]. rewrite Nat.add_succ_r.
    rewrite (iterate_name E BS.varbase_spec name y _ Hn Hfb eq_refl HE). cbn [MP.bind].
    cbn [N.eqb Pos.eqb].
    destruct (has_prefix _ _).
    - rewrite (iterate_stop E BS.varparam_spec y _ eq_refl HE). cbn [MP.bind]. eauto.
    - eauto. }
  destruct V as (v & V). rewrite V. cbn [MP.bind].
  (* exprText *)
  assert (T : exists t, MM.expr_text E 125 (125 :: y) = MP.Ok (t, 125 :: y)).
  { unfold MM.expr_text, MP.loop. cbn [MP.iterate]. unfold MP.orelse. rewrite HE.
    unfold MP.st_opt, MP.re_text, MP.skip_re_esc. cbn [MP.re_esc_plus N.eqb Pos.eqb orb].
    rewrite Nat.ltb_irrefl. cbn [MP.bind]. eauto. }
  destruct T as (t & T). rewrite T. cbn [MP.bind].
  (* ExprModifiers *)
  unfold MM.expr_modifiers. cbn [length Nat.mul Nat.add MM.expr_modifiers_loop MP.skip_byte N.eqb Pos.eqb MP.bind].
  reflexivity.
Qed.

Lemma mkvar_rx_ok w r x : mkvar_rx (36 :: w) = Some r ->
  exists e, 36 :: w = e ++ r /\ e <> [] /\ mk_expr ((36 :: w) ++ x) = Some (e, r ++ x).
Proof.
  unfold mkvar_rx. destruct w as [|b t]; [discriminate|]. rewrite N.eqb_refl. cbn [andb].
  destruct (N.eqb_spec b 123) as [->|]; [|discriminate].
  destruct (span is_name_byte t) as [nm rest] eqn:Es.
  destruct nm as [|c name]; [discriminate|]. destruct rest as [|d r0]; [discriminate|].
  destruct (N.eqb_spec d 125) as [->|]; [|discriminate]. cbn [andb].
  destruct (negb _); [|discriminate]. intro H. injection H as <-.
  pose proof (span_eq _ _ _ _ Es) as Et. pose proof (span_all is_name_byte t) as Ea. rewrite Es in Ea. cbn [fst] in Ea.
  exists (36 :: 123 :: (c :: name) ++ [125]). split; [|split; [discriminate|]].
  - rewrite Et. cbn. rewrite <- app_assoc. reflexivity.
  - assert (Ex : (36 :: 123 :: t) ++ x = 36 :: 123 :: (c :: name) ++ 125 :: (r0 ++ x)).
    { rewrite Et. cbn. rewrite <- app_assoc. reflexivity. }
    unfold mk_expr. rewrite Ex, (expr_mkvar (c :: name) (r0 ++ x) ltac:(discriminate) Ea).
    f_equal. f_equal.
    replace (36 :: 123 :: (c :: name) ++ 125 :: r0 ++ x) with ((36 :: 123 :: (c :: name) ++ [125]) ++ (r0 ++ x))
      by (cbn; rewrite <- app_assoc; reflexivity).
    generalize (36 :: 123 :: (c :: name) ++ [125]) (r0 ++ x). intros e z.
    rewrite app_length.
    replace (length e + length z - length z)%nat with (length e) by lia.
    rewrite firstn_app, Nat.sub_diag, firstn_all. cbn [firstn]. rewrite app_nil_r. reflexivity.
Qed.

Lemma mkvar_rx_ulimit r : mkvar_rx (ulimit_cmd ++ r) = None.
Proof. reflexivity. Qed.

(* ---------- the theorems with the expression lexer of C10mk plugged in ---------- *)

Theorem split_tokens_mk (text : str) :
  exists toks rest, split_tokens mk_expr text = Ok (toks, rest) /\ split_result mk_expr text toks rest.
Proof. exact (split_tokens_ok mk_expr mk_expr_contract text). Qed.

Theorem split_simple_words_mk ws : Forall (simple_word mkvar_rx) ws ->
  split_tokens mk_expr (unwords ws) = Ok (ws, []).
Proof. exact (split_simple_words mk_expr mkvar_rx mk_expr_none mkvar_rx_ok mkvar_rx_ulimit ws). Qed.

Theorem split_simple_words_mk_b ws : forallb (simple_word_b mkvar_rx) ws = true ->
  split_tokens mk_expr (unwords ws) = Ok (ws, []).
Proof.
  intro H. apply split_simple_words_mk. apply Forall_forall. intros w Hw.
  apply simple_word_b_sound. rewrite forallb_forall in H. auto.
Qed.
