(* Intersect, part 3: the product accepts a word iff both factors do. *)
From PV Require Import Lib.Bytes Lib.ByteRange Gen.NumberAutomaton Model.Makepat
  Proofs.MakepatBasics Proofs.MakepatNFA Proofs.MakepatReach
  Proofs.MakepatIntersect1 Proofs.MakepatIntersect2.
From Coq Require Import ZifyBool ZifyN ZifyNat.
Open Scope N_scope.

Lemma fires_edge c u1 u2 to : fires c (edge_of u1 u2 to) = fires c u1 && fires c u2.
Proof.
  unfold fires, edge_of, bmax, bmin. cbn [tmin tmax].
  destruct (N.ltb_spec (tmin u2) (tmin u1)); destruct (N.ltb_spec (tmax u1) (tmax u2)); lia.
Qed.

Section Sim.
Variables a b : pattern.
Variable st : istate.
Hypothesis Hj : J a b st.
Hypothesis Hall : forall x, In x (work a b) -> has_edge st x.

Lemma sim s : forall s1 s2 id, In (s1, s2, id) (imap st) ->
  accepts (ires st) id s = accepts a s1 s && accepts b s2 s.
Proof.
  induction s as [|c s IH]; intros s1 s2 id I.
  - destruct (j_fin _ _ _ Hj _ _ _ I) as (x & x1 & x2 & Nx & N1 & N2 & F).
    rewrite !accepts_nil, Nx, N1, N2. exact F.
  - destruct (j_fin _ _ _ Hj _ _ _ I) as (x & x1 & x2 & Nx & N1 & N2 & _).
    rewrite !accepts_cons, Nx, N1, N2.
    apply eq_true_iff_eq. rewrite andb_true_iff, !existsb_exists. split.
    + intros (t & It & H). apply andb_true_iff in H as [Hf Ha].
      destruct (j_sound _ _ _ Hj _ _ _ Nx It) as (k1 & k2 & y1 & y2 & u1 & u2 & I' & Ny1 & Ny2 & I1 & I2 & _ & I3 & E).
      assert (K : (k1, k2) = (s1, s2)) by exact (ids_inj _ (j_ids _ _ _ Hj) _ _ _ I' I).
      injection K as -> ->. rewrite N1 in Ny1. rewrite N2 in Ny2. injection Ny1 as <-. injection Ny2 as <-.
      rewrite E, fires_edge in Hf. apply andb_true_iff in Hf as [F1 F2].
      rewrite (IH _ _ _ I3) in Ha. apply andb_true_iff in Ha as [A1 A2].
      split; [exists u1|exists u2]; (split; [assumption|]); [rewrite F1, A1|rewrite F2, A2]; reflexivity.
    + intros [(u1 & I1 & H1) (u2 & I2 & H2)].
      apply andb_true_iff in H1 as [F1 A1]. apply andb_true_iff in H2 as [F2 A2].
      assert (W : In (s1, s2, u1, u2) (work a b)) by (apply work_In; exists x1, x2; auto).
      assert (O : overlap u1 u2).
      { unfold overlap. unfold fires in F1, F2. unfold bmax, bmin.
        destruct (N.ltb_spec (tmin u2) (tmin u1)); destruct (N.ltb_spec (tmax u1) (tmax u2)); lia. }
      destruct (Hall _ W O) as (id1 & id' & y & J1 & J2 & Ny & Ie).
      assert (K : id1 = id) by exact (nodup_fun _ (j_nodup _ _ _ Hj) _ _ _ J1 I). subst id1.
      rewrite Nx in Ny. injection Ny as <-.
      exists (edge_of u1 u2 id'). split; [exact Ie|].
      rewrite fires_edge, F1, F2. cbn [andb edge_of tto]. rewrite (IH _ _ _ J2), A1, A2. reflexivity.
Qed.

Lemma product_wf : imap st <> [] -> wf (ires st).
Proof.
  intro Hne. split.
  - intro E. pose proof (j_len _ _ _ Hj) as L. rewrite E in L. destruct (imap st); [contradiction|].
    cbn [nlen] in L. lia.
  - intros x Ix t It. destruct (In_nth_n _ _ Ix) as [id Nx].
    destruct (j_sound _ _ _ Hj _ _ _ Nx It) as (k1 & k2 & y1 & y2 & u1 & u2 & _ & _ & _ & _ & _ & _ & I3 & _).
    pose proof (ids_lt _ (j_ids _ _ _ Hj) _ I3) as L. cbn [snd] in L. rewrite (j_len _ _ _ Hj). exact L.
Qed.

Lemma product_ranges : ranges_ok a -> ranges_ok (ires st).
Proof.
  intros Hr x Ix t It. destruct (In_nth_n _ _ Ix) as [id Nx].
  destruct (j_sound _ _ _ Hj _ _ _ Nx It) as (k1 & k2 & y1 & y2 & u1 & u2 & _ & Ny1 & _ & I1 & _ & O & _ & E).
  destruct (Hr y1 (nth_n_In _ _ _ Ny1) u1 I1) as [_ R2].
  rewrite E. unfold edge_of. cbn [tmin tmax]. split; [exact O|].
  unfold bmin. destruct (N.ltb_spec (tmax u1) (tmax u2)); lia.
Qed.

Lemma product_ranges_r : ranges_ok b -> ranges_ok (ires st).
Proof.
  intros Hr x Ix t It. destruct (In_nth_n _ _ Ix) as [id Nx].
  destruct (j_sound _ _ _ Hj _ _ _ Nx It) as (k1 & k2 & y1 & y2 & u1 & u2 & _ & _ & Ny2 & _ & I2 & O & _ & E).
  destruct (Hr y2 (nth_n_In _ _ _ Ny2) u2 I2) as [_ R2].
  rewrite E. unfold edge_of. cbn [tmin tmax]. split; [exact O|].
  unfold bmin. destruct (N.ltb_spec (tmax u1) (tmax u2)); lia.
Qed.

End Sim.

Theorem intersect_exact a b : wf a -> wf b ->
  exists i, intersect a b = Ok i /\ wf i /\ (ranges_ok a \/ ranges_ok b -> ranges_ok i)
            /\ forall s, matchp i s = Ok (accepts a 0 s && accepts b 0 s).
Proof.
  intros Hwa Hwb.
  assert (La : 0 < nlen a) by (destruct Hwa as [H _]; destruct a; [contradiction|rewrite nlen_cons; lia]).
  assert (Lb : 0 < nlen b) by (destruct Hwb as [H _]; destruct b; [contradiction|rewrite nlen_cons; lia]).
  assert (J0 : J a b (mkI [] [])).
  { constructor; cbn [ires imap].
    - intros ? ? ? [].
    - exact I.
    - reflexivity.
    - constructor.
    - intros ? ? ? [].
    - intros id x t N0. discriminate. }
  destruct (state_for_spec a b (mkI [] []) 0 0 J0 La Lb) as (st0 & id0 & E0 & Hj0 & _ & I0).
  unfold intersect. rewrite E0.
  assert (Hid0 : In (0, 0, 0) (imap st0)).
  { unfold state_for in E0. cbn [lookup imap ires] in E0.
    destruct (nth_n a 0) as [x1|]; [|discriminate]. destruct (nth_n b 0) as [x2|]; [|discriminate].
    rewrite add_state_spec in E0. cbn [nlen] in E0. injection E0 as <- <-. left. reflexivity. }
  rewrite isect_flat.
  destruct (ofold_spec a b Hwa Hwb (work a b) st0 [] Hj0 (fun x H => H) (fun x (H : In x []) => match H with end))
    as (st & E & Hj & [X _] & Hall).
  rewrite E. exists (ires st).
  assert (Hall' : forall x, In x (work a b) -> has_edge st x).
  { intros x Ix. apply Hall. apply in_or_app. left; exact Ix. }
  assert (Hne : imap st <> []) by (intro C; specialize (X _ Hid0); rewrite C in X; destruct X).
  pose proof (product_wf a b st Hj Hne) as Hwi.
  split; [reflexivity|]. split; [exact Hwi|].
  split; [intros [Hr|Hr]; [exact (product_ranges a b st Hj Hr)|exact (product_ranges_r a b st Hj Hr)]|].
  intro s. rewrite matchp_accepts by exact Hwi. f_equal.
  exact (sim a b st Hj Hall' s 0 0 0 (X _ Hid0)).
Qed.

(* in terms of Match alone *)
Corollary intersect_match a b : wf a -> wf b ->
  exists i, intersect a b = Ok i /\
    forall s, exists x y, matchp a s = Ok x /\ matchp b s = Ok y /\ matchp i s = Ok (x && y).
Proof.
  intros Hwa Hwb. destruct (intersect_exact a b Hwa Hwb) as (i & E & _ & _ & H).
  exists i. split; [exact E|]. intro s. exists (accepts a 0 s), (accepts b 0 s).
  split; [apply matchp_accepts; exact Hwa|]. split; [apply matchp_accepts; exact Hwb|apply H].
Qed.

(* the form stated in Props/C13.v *)
Theorem intersect_exact_match a b : wf a -> wf b ->
  exists i, intersect a b = Ok i /\ wf i /\ (ranges_ok a \/ ranges_ok b -> ranges_ok i) /\
    forall s, exists x y, matchp a s = Ok x /\ matchp b s = Ok y /\ matchp i s = Ok (x && y).
Proof.
  intros Hwa Hwb. destruct (intersect_exact a b Hwa Hwb) as (i & E & W & R & H).
  exists i. split; [exact E|]. split; [exact W|]. split; [exact R|].
  intro s. exists (accepts a 0 s), (accepts b 0 s).
  split; [apply matchp_accepts; exact Hwa|]. split; [apply matchp_accepts; exact Hwb|apply H].
Qed.
