(* Witnesses by computation: where the full statements fail. *)
From PV Require Import Lib.Bytes Gen.NumberAutomaton Model.Makepat Spec.StrMatch Spec.CNumber.
Open Scope N_scope.

(* the Go result as an option, to compare with the spec *)
Definition res_to_option {A} (r : res A) : option A :=
  match r with Ok a => Some a | _ => None end.

Definition match_is_strmatch_full : Prop :=
  forall (p : str) (a : pattern) (s : str),
    compile p = Ok (Some a) -> res_to_option (matchp a s) = str_match p s.

Definition tricky_pat : str := [91; 97; 45; 93; 93].   (* [a-]] *)
Definition tricky_str : str := [97].                   (* a *)

Lemma tricky_witness :
  exists a, compile tricky_pat = Ok (Some a) /\ matchp a tricky_str = Ok true
            /\ str_match tricky_pat tricky_str = Some false
            /\ matchp a (tricky_str ++ [93]) = Ok false
            /\ str_match tricky_pat (tricky_str ++ [93]) = Some true.
Proof. eexists. split; [vm_compute; reflexivity|]. repeat split; vm_compute; reflexivity. Qed.

Lemma match_is_strmatch_refuted : ~ match_is_strmatch_full.
Proof.
  intro H. destruct tricky_witness as (a & Hc & Hm & Hs & _).
  specialize (H _ _ tricky_str Hc). rewrite Hm, Hs in H. discriminate.
Qed.
