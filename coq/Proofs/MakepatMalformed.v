(* compile never panics or runs out of fuel, and it returns an error exactly
   for the patterns Spec/StrMatch.v calls malformed. *)
From PV Require Import Lib.Bytes Gen.NumberAutomaton Model.Makepat Spec.StrMatch Proofs.MakepatBasics.
From Coq Require Import ZifyBool ZifyN ZifyNat.
Open Scope N_scope.

(* the negation flag does not influence well-formedness *)
Definition erase (st : pstate) : pstate :=
  match st with
  | PElem _ => PElem false
  | PChar _ => PChar false
  | PDash _ => PDash false
  | _ => st
  end.

Lemma erase_pnext st c : erase (pnext st c) = erase (pnext (erase st) c).
Proof.
  destruct st; cbn [erase pnext]; try reflexivity;
    repeat match goal with |- context [if ?b then _ else _] => destruct b end; reflexivity.
Qed.

Lemma malformed_erase pat : forall st st', erase st = erase st' -> malformed_from st pat = malformed_from st' pat.
Proof.
  induction pat as [|c pat IH]; intros st st' H; cbn [malformed_from].
  - destruct st, st'; cbn in H; try discriminate; reflexivity.
  - apply IH. rewrite erase_pnext, H, <- erase_pnext. reflexivity.
Qed.

(* the list scanner of the model against the well-formedness automaton of the spec *)
Lemma class_loop_malformed n : forall rest chars neg, (length rest <= n)%nat ->
  match class_loop rest chars with
  | None => malformed_from (PElem neg) rest = true
  | Some (_, rest') => malformed_from (PElem neg) rest = malformed_from PTop rest'
                       /\ (length rest' < length rest)%nat
  end.
Proof.
  induction n as [|n IH]; intros rest chars neg Hn.
  - destruct rest; [reflexivity|cbn in Hn; lia].
  - destruct rest as [|ch r1]; [reflexivity|].
    cbn [class_loop malformed_from pnext]. destruct (N.eqb_spec ch 93) as [->|Hch].
    + split; [reflexivity|cbn; lia].
    + destruct r1 as [|d r2].
      * reflexivity.
      * cbn [malformed_from pnext]. destruct (N.eqb_spec d 45) as [->|Hd].
        -- destruct r2 as [|mx r3]; [reflexivity|].
           cbn [malformed_from pnext].
           assert (L : (length r3 <= n)%nat) by (cbn in Hn; lia).
           destruct (mx <? ch).
           ++ specialize (IH r3 (set_range chars mx ch) neg L).
              destruct (class_loop r3 (set_range chars mx ch)) as [[cs rest']|]; [|exact IH].
              destruct IH as [E Lr]. split; [exact E|cbn; lia].
           ++ specialize (IH r3 (set_range chars ch mx) neg L).
              destruct (class_loop r3 (set_range chars ch mx)) as [[cs rest']|]; [|exact IH].
              destruct IH as [E Lr]. split; [exact E|cbn; lia].
        -- (* d starts the next element: PChar on d behaves like PElem on d *)
           assert (L : (length (d :: r2) <= n)%nat) by (cbn in Hn; cbn; lia).
           specialize (IH (d :: r2) (set_range chars ch ch) neg L).
           assert (E0 : malformed_from (if d =? 93 then PTop else PChar neg) r2
                        = malformed_from (PElem neg) (d :: r2)) by reflexivity.
           rewrite E0.
           destruct (class_loop (d :: r2) (set_range chars ch ch)) as [[cs rest']|]; [|exact IH].
           destruct IH as [E Lr]. split; [exact E|cbn in *; lia].
Qed.

Lemma compile_single_lt p s lo hi : s < nlen p ->
  exists p2 next, compile_single p s lo hi = Some (p2, next) /\ next < nlen p2.
Proof.
  intro H. unfold compile_single. rewrite add_state_spec.
  destruct (add_transition_lt (p ++ [mkS [] false]) s (mkT lo hi (to_state_id (nlen p)))) as (p2 & E & L).
  { rewrite nlen_app. cbn. lia. }
  rewrite E. exists p2, (to_state_id (nlen p)). split; [reflexivity|].
  rewrite L, nlen_app. cbn. pose proof (to_state_id_le (nlen p)). lia.
Qed.

Lemma compile_char_class_spec p rest s : s < nlen p ->
  match compile_char_class p rest s with
  | Ok None => malformed_from PList0 rest = true
  | Ok (Some (p2, next, rest2)) => next < nlen p2 /\ (length rest2 < length rest)%nat
                                   /\ malformed_from PList0 rest = malformed_from PTop rest2
  | _ => False
  end.
Proof.
  intro H. unfold compile_char_class.
  assert (S : exists neg rest1, skip_byte 94 rest = (neg, rest1)
              /\ malformed_from PList0 rest = malformed_from (PElem neg) rest1
              /\ (length rest1 <= length rest)%nat).
  { destruct rest as [|c r]; cbn [skip_byte].
    - exists false, []. auto.
    - destruct (N.eqb_spec c 94) as [->|Hc].
      + exists true, r. split; [reflexivity|]. split; [reflexivity|cbn; lia].
      + exists false, (c :: r). split; [reflexivity|]. split; [|lia].
        cbn [malformed_from pnext]. destruct (N.eqb_spec c 94); [contradiction|]. reflexivity. }
  destruct S as (neg & rest1 & -> & Em & Lr). rewrite add_state_spec.
  pose proof (class_loop_malformed (length rest1) rest1 chars_empty neg (le_n _)) as C.
  destruct (class_loop rest1 chars_empty) as [[chars rest2]|].
  - destruct C as [C1 C2].
    destruct (add_transitions_list_lt (runs (if neg then map negb chars else chars))
                (p ++ [mkS [] false]) s (to_state_id (nlen p))) as (p2 & E & L).
    { rewrite nlen_app. cbn. lia. }
    unfold add_transitions. rewrite E. split; [|split; [lia|congruence]].
    rewrite L, nlen_app. cbn. pose proof (to_state_id_le (nlen p)). lia.
  - congruence.
Qed.

Lemma compile_loop_spec fuel : forall rest p s, (length rest < fuel)%nat -> s < nlen p ->
  exists r, compile_loop fuel p s rest = Ok r /\ (r = None <-> malformed_from PTop rest = true).
Proof.
  induction fuel as [|f IH]; intros rest p s Hf Hs; [lia|].
  destruct rest as [|ch rest1]; cbn [compile_loop].
  - unfold set_end. destruct (upd_n_lt p s (fun st => mkS (trans st) true) Hs) as [p' E]. rewrite E.
    eexists; split; [reflexivity|]. cbn. split; discriminate.
  - cbn [length] in Hf.
    destruct (N.eqb_spec ch 42) as [->|H42].
    { destruct (add_transition_lt p s (mkT 0 255 s) Hs) as (p1 & E & L). rewrite E.
      destruct (IH rest1 p1 s) as (r & Er & Hr); [lia|lia|]. exists r. split; [exact Er|exact Hr]. }
    destruct (N.eqb_spec ch 63) as [->|H63].
    { destruct (compile_single_lt p s 0 255 Hs) as (p2 & next & E & L). rewrite E.
      destruct (IH rest1 p2 next) as (r & Er & Hr); [lia|lia|]. exists r. split; [exact Er|exact Hr]. }
    destruct (N.eqb_spec ch 92) as [->|H92].
    { destruct rest1 as [|ch2 rest2].
      - exists None. split; [reflexivity|]. cbn. tauto.
      - destruct (compile_single_lt p s ch2 ch2 Hs) as (p2 & next & E & L). rewrite E.
        destruct (IH rest2 p2 next) as (r & Er & Hr); [cbn in Hf; lia|lia|]. exists r. split; [exact Er|exact Hr]. }
    destruct (N.eqb_spec ch 91) as [->|H91].
    { pose proof (compile_char_class_spec p rest1 s Hs) as C.
      destruct (compile_char_class p rest1 s) as [[[[p2 next] rest2]|]| |]; try contradiction.
      - destruct C as (L & Lr & Em).
        destruct (IH rest2 p2 next) as (r & Er & Hr); [lia|lia|]. exists r. split; [exact Er|].
        rewrite Hr. cbn [malformed_from pnext]. cbn. rewrite Em. tauto.
      - exists None. split; [reflexivity|]. cbn [malformed_from pnext]. cbn. rewrite C. tauto. }
    destruct (compile_single_lt p s ch ch Hs) as (p2 & next & E & L). rewrite E.
    destruct (IH rest1 p2 next) as (r & Er & Hr); [lia|lia|]. exists r. split; [exact Er|].
    rewrite Hr. cbn [malformed_from pnext].
    destruct (N.eqb_spec ch 92); [contradiction|]. destruct (N.eqb_spec ch 91); [contradiction|]. tauto.
Qed.

(* Compile never panics and never runs out of fuel *)
Theorem compile_total : forall pat : str, exists r, compile pat = Ok r.
Proof.
  intro pat. unfold compile. rewrite add_state_spec. cbn [app nlen].
  destruct (compile_loop_spec (S (length pat)) pat [mkS [] false] (to_state_id 0)) as (r & E & _).
  - lia.
  - rewrite to_state_id_id. cbn [nlen]. lia.
  - eauto.
Qed.

(* Compile returns an error exactly for the malformed patterns *)
Theorem compile_fails_iff_malformed : forall pat : str, compile pat = Ok None <-> malformed pat = true.
Proof.
  intro pat. unfold compile, malformed. rewrite add_state_spec. cbn [app nlen].
  destruct (compile_loop_spec (S (length pat)) pat [mkS [] false] (to_state_id 0)) as (r & E & H).
  - lia.
  - rewrite to_state_id_id. cbn [nlen]. lia.
  - rewrite E. rewrite <- H. split; [intro G; injection G; auto|intros ->; reflexivity].
Qed.
