(* C14, file level: isDefined -- as fed by the line-by-line scan of Model/CondFile.v -- is
   right for every environment that Spec/PrefsFile.v holds possible after the lines read so
   far; hence the rewrites keep the value in the file. *)
From Coq Require Import List NArith Bool Lia.
From PV Require Import Lib.Bytes Gen.CondSimpSets Spec.BmakeCond Spec.PrefsFile Model.CondSimp Model.CondFile
  Proofs.CondSimpA Proofs.CondSimpB Proofs.CondSimpC Proofs.CondSimpWords Proofs.CondSimpD Proofs.CondFileA.
Import ListNotations.
Open Scope N_scope.

(* pkglint's declarations (vardefs.go) are right about bmake and bsd.prefs.mk:
   AlwaysInScope|DefinedIfInScope = defined in every makefile at load time;
   DefinedIfInScope + usable at load time = defined once the preferences are loaded *)
Definition decl_right (decl : str -> varinfo) (always by_prefs : str -> bool) : Prop :=
  forall v,
    (vi_always_in_scope (decl v) && vi_defined_if_in_scope (decl v) = true -> always v = true) /\
    (vi_use_loadtime (decl v) && vi_defined_if_in_scope (decl v) = true -> by_prefs v = true).

Definition sure0 : sure := mksure false [] [] [].

(* ---------- the scan of the model against the spec's reading, line by line ---------- *)

Definition scan_inv (st : fstate) (s : sure) : Prop :=
  fs_levels st = su_open s /\
  (fs_seen_prefs st = true -> su_prefs s = true) /\
  (forall v, in_file st v = true -> in_strs v (su_assigned s) = true).

Lemma conditional_not_sure : forall l, existsb negb l = negb (forallb (fun g : bool => g) l).
Proof. induction l as [|[|] l IH]; simpl; auto. Qed.

Lemma scan_line_inv st s l :
  scan_inv st s ->
  (match l with FInclude p => negb (executed_for_sure s) && really_loads_prefs p | _ => false end) = false ->
  scan_inv (scan_line st l) (sure_step s l).
Proof.
  intros (Hl & Hp & Hd) Hc. destruct l as [p|v|g| |u|]; unfold scan_inv; simpl.
  - destruct (loads_prefs p) eqn:Elp; simpl.
    + repeat split; auto. intros _.
      apply loads_prefs_sound in Elp. rewrite Elp in Hc. rewrite andb_true_r in Hc.
      apply negb_false_iff in Hc. rewrite Hc, Elp. simpl. apply orb_true_r.
    + repeat split; auto. intros H. rewrite (Hp H). reflexivity.
  - unfold is_conditional, executed_for_sure. rewrite Hl, conditional_not_sure.
    destruct (forallb (fun g : bool => g) (su_open s)); simpl.
    + repeat split; auto. intros w. unfold in_file, in_strs. simpl.
      intros H. apply orb_true_iff in H as [H|H].
      * rewrite H. reflexivity.
      * apply orb_true_iff. right. apply (Hd w). exact H.
    + repeat split; auto.
  - repeat split; auto. simpl. rewrite Hl. reflexivity.
  - repeat split; auto. simpl. rewrite Hl. reflexivity.
  - repeat split; auto.
  - repeat split; auto.
Qed.

Lemma scan_inv_all : forall ls st s,
  scan_inv st s -> conditional_prefs_include s ls = false ->
  scan_inv (fold_left scan_line ls st) (fold_left sure_step ls s).
Proof.
  induction ls as [|l ls IH]; intros st s Hi Hc; simpl; auto.
  simpl in Hc. apply orb_false_iff in Hc as [Hc1 Hc2].
  apply IH; auto. apply scan_line_inv; auto.
Qed.

Lemma scan_inv_init : scan_inv (init_state false) sure0.
Proof. unfold scan_inv, init_state, sure0, in_file. simpl. repeat split; auto; discriminate. Qed.

(* ---------- isDefined is right in the file ---------- *)
Lemma is_defined_sound_in_file : forall decl mmn always by_prefs pre e v,
  decl_right decl always by_prefs ->
  conditional_prefs_include sure0 pre = false ->
  possible_env always by_prefs pre e ->
  in_strs v (su_undef (sure_after pre)) = false ->
  let cx := file_ctx decl mmn (scan (init_state false) pre) in
  is_defined (cx_seen_prefs cx) (cx_var cx v) = true -> e v <> None.
Proof.
  intros decl mmn always by_prefs pre e v Hd Hc He Hu cx.
  pose proof (scan_inv_all pre _ _ scan_inv_init Hc) as (_ & Hp & Hf).
  destruct (He v Hu) as (Ha & Hs & Hb). destruct (Hd v) as (Hd1 & Hd2).
  unfold cx, file_ctx, is_defined, with_in_file; simpl.
  destruct (vi_always_in_scope (decl v) && vi_defined_if_in_scope (decl v)) eqn:E1.
  - intros _. apply Ha. apply Hd1. reflexivity.
  - destruct (in_file (scan (init_state false) pre) v) eqn:E2.
    + intros _. apply Hs. apply (Hf v). exact E2.
    + intros H. apply andb_true_iff in H as [H H3]. apply andb_true_iff in H as [H1 H2].
      apply Hb.
      * apply Hp. exact H1.
      * apply Hd2. rewrite H2, H3. reflexivity.
Qed.

(* simplifyMatch only offers a rewrite when isDefined says "defined" *)
Lemma simplify_match_defined : forall cx v mods fe neg rw,
  In rw (simplify_match cx v mods fe neg) -> is_defined (cx_seen_prefs cx) (cx_var cx v) = true.
Proof.
  intros cx v mods fe neg rw. unfold simplify_match.
  destruct mods as [|m0 ms]; [intros []|].
  destruct (match_match (last (m0 :: ms) [])) as [[[ok positive] pattern] exact].
  repeat match goal with
         | |- In _ (if ?c then _ else _) -> _ => destruct c eqn:?; [intros []|]
         end.
  intros _. match goal with H : negb (is_defined _ _) = false |- _ => apply negb_false_iff in H; exact H end.
Qed.

(* ---------- the rewrites keep the value in the file ---------- *)
Section InFile.
  Variables (decl : str -> varinfo) (mmn : str -> mmn) (always by_prefs : str -> bool) (pre : list fline).
  Hypothesis Hdecl : decl_right decl always by_prefs.
  Hypothesis Hcond : conditional_prefs_include sure0 pre = false.
  Let cx := file_ctx decl mmn (scan (init_state false) pre).

  Lemma word_M_sound_in_file : forall v mods fe neg rw e,
    In rw (simplify_word cx v mods fe neg) ->
    (exists pat, last mods [] = 77 :: pat) ->
    possible_env always by_prefs pre e ->
    in_strs v (su_undef (sure_after pre)) = false ->
    exists f t, rw_from_c rw = Some f /\ rw_to_c rw = Some t /\
      ((forall d s, eval_expr e v (map classify_mod (removelast mods)) = Some (d, s) -> wordlike s) ->
       preserves e f t).
  Proof.
    intros v mods fe neg rw e Hin Hm He Hu.
    destruct (word_rewrite_M_preserves cx v mods fe neg rw e Hin Hm) as (f & t & Hf & Ht & H).
    exists f, t. repeat split; auto. intros Hw. apply H; auto.
    apply (is_defined_sound_in_file decl mmn always by_prefs pre e v Hdecl Hcond He Hu).
  Qed.

  Lemma yesno_sound_in_file : forall v mods fe neg rw e,
    In rw (fst (simplify_yesno cx v mods fe neg)) ->
    possible_env always by_prefs pre e ->
    in_strs v (su_undef (sure_after pre)) = false ->
    exists f t, rw_from_c rw = Some f /\ rw_to_c rw = Some t /\
      ((vi_nonempty_if_defined (decl v) = true -> e v <> Some []) ->
       (forall d s, eval_expr e v (map classify_mod (removelast mods)) = Some (d, s) -> wordlike s) ->
       preserves e f t).
  Proof.
    intros v mods fe neg rw e Hin He Hu.
    destruct (yesno_rewrite_preserves cx v mods fe neg rw e Hin) as (f & t & Hf & Ht & H).
    exists f, t. repeat split; auto. intros Hn Hw. apply H; auto.
    apply (is_defined_sound_in_file decl mmn always by_prefs pre e v Hdecl Hcond He Hu).
  Qed.

  Lemma match_sound_in_file : forall v mods fe neg rw e,
    In rw (simplify_match cx v mods fe neg) ->
    possible_env always by_prefs pre e ->
    in_strs v (su_undef (sure_after pre)) = false ->
    exists f t pat, rw_from_c rw = Some f /\ rw_to_c rw = Some t /\ last mods [] = 77 :: pat /\
      (forall d s, eval_expr e v (map classify_mod (removelast mods)) = Some (d, s) ->
         clean s ->
         (mmn pat <> MmnYes ->
          forall w, w <> [] -> wordlike w -> str_match w pat = true -> try_parse_number w = None) ->
         equivalent e f t).
  Proof.
    intros v mods fe neg rw e Hin He Hu.
    destruct (match_rewrite_equivalent_words cx v mods fe neg rw e Hin) as (f & t & pat & Hf & Ht & Hl & H).
    exists f, t, pat. repeat split; auto. apply H.
    apply (is_defined_sound_in_file decl mmn always by_prefs pre e v Hdecl Hcond He Hu).
    apply (simplify_match_defined cx v mods fe neg rw Hin).
  Qed.
End InFile.

(* ---------- without the guard it is false: a prefs include that may or may not happen ---------- *)
(* .if defined(OTHER) / .include "bsd.prefs.mk" / .endif / .if !empty(V:Malpha) *)
Definition ex_bsd_prefs : str := [98; 115; 100; 46; 112; 114; 101; 102; 115; 46; 109; 107].
Definition ex_cond_pre : list fline := [FOpen false; FInclude ex_bsd_prefs; FClose].
Definition ex_decl_P : str -> varinfo := fun _ => mkvarinfo true false false false true false true false.
Definition ex_mmn : str -> mmn := fun _ => MmnNo.
Definition ex_undef_env : env := fun _ => None.

Definition word_in_file_full : Prop :=
  forall decl mmn always by_prefs pre v mods fe neg rw e,
    decl_right decl always by_prefs ->
    In rw (simplify_word (file_ctx decl mmn (scan (init_state false) pre)) v mods fe neg) ->
    (exists pat, last mods [] = 77 :: pat) ->
    possible_env always by_prefs pre e ->
    in_strs v (su_undef (sure_after pre)) = false ->
    exists f t, rw_from_c rw = Some f /\ rw_to_c rw = Some t /\
      ((forall d s, eval_expr e v (map classify_mod (removelast mods)) = Some (d, s) -> wordlike s) ->
       preserves e f t).

Lemma cond_include_cex :
  exists rw f t,
    simplify_word (file_ctx ex_decl_P ex_mmn (scan (init_state false) ex_cond_pre)) ex_var ex_Malpha_mods true true = [rw] /\
    rw_from_c rw = Some f /\ rw_to_c rw = Some t /\
    eval ex_undef_env f = Some TFalse /\ eval ex_undef_env t = Some TMalformed.
Proof. apply rewrite_values_sound. vm_compute. reflexivity. Qed.

Theorem word_in_file_full_refuted : ~ word_in_file_full.
Proof.
  destruct cond_include_cex as (rw & f & t & Hl & Hf & Ht & Ef & Et). intros H.
  destruct (H ex_decl_P ex_mmn (fun _ => false) (fun _ => true) ex_cond_pre ex_var ex_Malpha_mods true true rw ex_undef_env)
    as (f' & t' & Hf' & Ht' & Hp).
  - intros v. split; [discriminate | reflexivity].
  - rewrite Hl. left. reflexivity.
  - exists ex_alpha. reflexivity.
  - intros v _. repeat split; intros; discriminate.
  - reflexivity.
  - rewrite Hf in Hf'. rewrite Ht in Ht'. injection Hf' as <-. injection Ht' as <-.
    assert (Hw : forall d s, eval_expr ex_undef_env ex_var (map classify_mod (removelast ex_Malpha_mods)) = Some (d, s) -> wordlike s).
    { intros d s. vm_compute. intros E. injection E as _ <-. apply wordlike_nil. }
    destruct (Hp Hw TFalse Ef) as (r' & Hr & Heq). rewrite Et in Hr. injection Hr as <-.
    specialize (Heq ltac:(discriminate)). discriminate.
Qed.

(* the guard is satisfiable and the theorem has content: after an unconditional include of
   bsd.prefs.mk the ':U' is dropped, and the rewritten condition has the same value *)
Definition ex_sure_pre : list fline := [FOther; FInclude ex_bsd_prefs].
Example in_file_example :
  conditional_prefs_include sure0 ex_sure_pre = false /\
  su_prefs (sure_after ex_sure_pre) = true /\
  fs_seen_prefs (scan (init_state false) ex_sure_pre) = true /\
  (exists rw f t,
    simplify_word (file_ctx ex_decl_P ex_mmn (scan (init_state false) ex_sure_pre)) ex_var ex_Malpha_mods true true = [rw] /\
    rw_from_c rw = Some f /\ rw_to_c rw = Some t /\
    eval (env1 ex_var (Some ex_alpha)) f = Some TTrue /\ eval (env1 ex_var (Some ex_alpha)) t = Some TTrue).
Proof. repeat split; try reflexivity. apply rewrite_values_sound. vm_compute. reflexivity. Qed.

(* ---------- ... and without the guard "no .undef of the variable": V= x / .undef V / .if !empty(V:Malpha) ---------- *)
Definition ex_undef_pre : list fline := [FAssign ex_var; FUndef ex_var].
Definition ex_decl_U : str -> varinfo := fun _ => mkvarinfo true false false false false false true false.

Definition word_in_file_undef_full : Prop :=
  forall decl mmn always by_prefs pre v mods fe neg rw e,
    decl_right decl always by_prefs ->
    conditional_prefs_include sure0 pre = false ->
    In rw (simplify_word (file_ctx decl mmn (scan (init_state false) pre)) v mods fe neg) ->
    (exists pat, last mods [] = 77 :: pat) ->
    possible_env always by_prefs pre e ->
    exists f t, rw_from_c rw = Some f /\ rw_to_c rw = Some t /\
      ((forall d s, eval_expr e v (map classify_mod (removelast mods)) = Some (d, s) -> wordlike s) ->
       preserves e f t).

Lemma undef_cex :
  exists rw f t,
    simplify_word (file_ctx ex_decl_U ex_mmn (scan (init_state false) ex_undef_pre)) ex_var ex_Malpha_mods true true = [rw] /\
    rw_from_c rw = Some f /\ rw_to_c rw = Some t /\
    eval ex_undef_env f = Some TFalse /\ eval ex_undef_env t = Some TMalformed.
Proof. apply rewrite_values_sound. vm_compute. reflexivity. Qed.

Theorem word_in_file_undef_full_refuted : ~ word_in_file_undef_full.
Proof.
  destruct undef_cex as (rw & f & t & Hl & Hf & Ht & Ef & Et). intros H.
  destruct (H ex_decl_U ex_mmn (fun _ => false) (fun _ => false) ex_undef_pre ex_var ex_Malpha_mods true true rw ex_undef_env)
    as (f' & t' & Hf' & Ht' & Hp).
  - intros v. split; discriminate.
  - reflexivity.
  - rewrite Hl. left. reflexivity.
  - exists ex_alpha. reflexivity.
  - intros v Hu. repeat split; try (intros; discriminate).
    intros Ha. change (su_assigned (sure_after ex_undef_pre)) with [ex_var] in Ha.
    change (su_undef (sure_after ex_undef_pre)) with [ex_var] in Hu. congruence.
  - rewrite Hf in Hf'. rewrite Ht in Ht'. injection Hf' as <-. injection Ht' as <-.
    assert (Hw : forall d s, eval_expr ex_undef_env ex_var (map classify_mod (removelast ex_Malpha_mods)) = Some (d, s) -> wordlike s).
    { intros d s. vm_compute. intros E. injection E as _ <-. apply wordlike_nil. }
    destruct (Hp Hw TFalse Ef) as (r' & Hr & Heq). rewrite Et in Hr. injection Hr as <-.
    specialize (Heq ltac:(discriminate)). discriminate.
Qed.

(* all hypotheses of the file-level theorems hold together, with isDefined = true *)
Definition ex_decl_one : str -> varinfo := fun n =>
  if str_eqb n ex_var then mkvarinfo true false false false true false true false
  else mkvarinfo false false false false false false false false.
Example in_file_hypotheses_satisfiable :
  decl_right ex_decl_one (fun _ => false) (fun n => str_eqb n ex_var) /\
  conditional_prefs_include sure0 ex_sure_pre = false /\
  possible_env (fun _ => false) (fun n => str_eqb n ex_var) ex_sure_pre (env1 ex_var (Some ex_alpha)) /\
  in_strs ex_var (su_undef (sure_after ex_sure_pre)) = false /\
  is_defined (cx_seen_prefs (file_ctx ex_decl_one ex_mmn (scan (init_state false) ex_sure_pre)))
             (cx_var (file_ctx ex_decl_one ex_mmn (scan (init_state false) ex_sure_pre)) ex_var) = true.
Proof.
  repeat split; try reflexivity.
  - unfold ex_decl_one. destruct (str_eqb v ex_var); simpl; intros; discriminate.
  - unfold ex_decl_one. destruct (str_eqb v ex_var); simpl; intros; [reflexivity|discriminate].
  - discriminate.
  - change (su_assigned (sure_after ex_sure_pre)) with (@nil str). discriminate.
  - intros _ Hb. unfold env1. rewrite Hb. discriminate.
Qed.

(* a near miss leaves SeenPrefs alone: buildlink3.mk, builtin.mk, Makefile.common *)
Example near_misses_do_not_load :
  forallb (fun p => negb (loads_prefs p))
    [[46; 46; 47; 46; 46; 47; 100; 47; 108; 47; 98; 117; 105; 108; 100; 108; 105; 110; 107; 51; 46; 109; 107];  (* ../../d/l/buildlink3.mk *)
     [46; 46; 47; 46; 46; 47; 100; 47; 108; 47; 98; 117; 105; 108; 116; 105; 110; 46; 109; 107];                (* ../../d/l/builtin.mk *)
     [77; 97; 107; 101; 102; 105; 108; 101; 46; 99; 111; 109; 109; 111; 110]] = true.                          (* Makefile.common *)
Proof. vm_compute. reflexivity. Qed.
