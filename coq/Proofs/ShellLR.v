(* Facts about the regenerated goyacc tables, and soundness of the trace checker. *)
From Coq Require Import ZArith List Bool.
From PV Require Import Gen.ShellGrammar Gen.ShellTables Model.ShellLR Spec.Derivation
  Proofs.ShellGrammar.
Import ListNotations.
Open Scope Z_scope.

(* no state has a shift on `error`: the error-recovery block of shyyParse can only
   pop the whole stack and return 1, as Model/ShellLR.v assumes *)
Lemma no_error_shift : existsb (Z.eqb shyyErrCode) shyyChk = false.
Proof. vm_compute. reflexivity. Qed.

(* the tables were generated from this grammar: left-hand sides and lengths of the
   right-hand sides of all productions are the ones of shell.y *)
Lemma tables_shape :
  shyyR1 = 0 :: map (fun p => nt_number (fst p)) productions /\
  shyyR2 = 0 :: map (fun p => Z.of_nat (length (snd p))) productions.
Proof. split; vm_compute; reflexivity. Qed.

(* terminals and nonterminals are numbered injectively *)
Lemma numbering_injective :
  NoDup (map tok_internal all_terms) /\ NoDup (map nt_number all_nonterms) /\
  map tok_code all_terms = map (fun t => shyyPrivate + tok_internal t - 2) all_terms.
Proof.
  split; [| split].
  - vm_compute. repeat (constructor; [ simpl; intuition discriminate | ]). constructor.
  - vm_compute. repeat (constructor; [ simpl; intuition discriminate | ]). constructor.
  - vm_compute. reflexivity.
Qed.

(* ---- check_trace ---- *)

Lemma gderives_list_app a b w1 w2 :
  gderives_list a w1 -> gderives_list b w2 -> gderives_list (a ++ b) (w1 ++ w2).
Proof.
  intros Ha Hb. induction Ha; simpl.
  - exact Hb.
  - rewrite <- app_assoc. apply GDL_cons; assumption.
Qed.

Lemma gderives_list_app_inv a : forall b w,
  gderives_list (a ++ b) w ->
  exists w1 w2, w = w1 ++ w2 /\ gderives_list a w1 /\ gderives_list b w2.
Proof.
  induction a as [| s a IH]; intros b w H; simpl in H.
  - exists [], w. repeat split; [constructor | exact H].
  - inversion H as [| s0 ss0 w0 ws0 Hs Hrest]; subst.
    destruct (IH _ _ Hrest) as (w1 & w2 & -> & Ha & Hb).
    exists (w0 ++ w1), w2. rewrite app_assoc. repeat split; [constructor; assumption | exact Hb].
Qed.

Lemma symbol_beq_eq a b : symbol_beq a b = true -> a = b.
Proof.
  destruct a, b; simpl; intro H; try discriminate.
  - f_equal. apply internal_term_dec_bl. exact H.
  - f_equal. apply internal_nonterm_dec_bl. exact H.
Qed.

Lemma pop_rhs_spec l : forall stack stack', pop_rhs l stack = Some stack' -> stack = l ++ stack'.
Proof.
  induction l as [| s l IH]; intros stack stack' H; simpl in H.
  - injection H as ->. reflexivity.
  - destruct stack as [| x stack]; [discriminate |].
    destruct (symbol_beq s x) eqn:E; [| discriminate].
    apply symbol_beq_eq in E. subst x. simpl. f_equal. apply IH. exact H.
Qed.

Lemma production_no_in k lhs rhs : production_no k = Some (lhs, rhs) -> In (lhs, rhs) productions.
Proof.
  unfold production_no. destruct (k <=? 0); [discriminate |]. apply nth_error_In.
Qed.

Lemma check_trace_inv : forall tr input stack w,
  check_trace tr input stack = true ->
  gderives_list (rev stack) w ->
  gderives (NT start_symbol) (w ++ input).
Proof.
  induction tr as [| a tr IH]; intros input stack w H Hst; simpl in H.
  - destruct input; [| discriminate].
    destruct stack as [| [t | s] [| ? ?]]; try discriminate.
    apply internal_nonterm_dec_bl in H. subst s.
    simpl in Hst. inversion Hst as [| s0 ss0 w0 ws0 Hs Hnil]; subst.
    inversion Hnil; subst. rewrite !app_nil_r. exact Hs.
  - destruct a as [k | k].
    + destruct input as [| t input']; [discriminate |].
      apply andb_true_iff in H. destruct H as [_ H].
      replace (w ++ t :: input') with ((w ++ [t]) ++ input') by (rewrite <- app_assoc; reflexivity).
      apply (IH _ _ _ H). simpl. apply gderives_list_app; [exact Hst |].
      apply GDL_last. apply GD_term.
    + destruct (production_no k) as [[lhs rhs] |] eqn:Ep; [| discriminate].
      destruct (pop_rhs (rev rhs) stack) as [stack' |] eqn:Es; [| discriminate].
      apply pop_rhs_spec in Es. subst stack.
      rewrite rev_app_distr, rev_involutive in Hst.
      apply gderives_list_app_inv in Hst. destruct Hst as (w1 & w2 & -> & H1 & H2).
      apply (IH _ _ _ H). simpl. apply gderives_list_app; [exact H1 |].
      apply GDL_last. apply GD_prod with (rhs := rhs); [exact (production_no_in _ _ _ Ep) | exact H2].
Qed.

(* a trace that passes the check is a derivation of the input in shell.y *)
Theorem check_trace_sound : forall tr ts,
  check_trace tr ts [] = true -> derives start_symbol ts.
Proof.
  intros tr ts H. apply gderives_derives.
  apply (check_trace_inv tr ts [] [] H). constructor.
Qed.

Theorem lr_accepts_certified_sound : forall ts,
  lr_accepts_certified ts = true -> derives start_symbol ts.
Proof.
  intros ts H. unfold lr_accepts_certified in H.
  destruct (lr_parse_terms ts); try discriminate.
  exact (check_trace_sound _ _ H).
Qed.
