(* The generated inductive [derives] (one constructor per production of
   shell.y) and the generic derivation relation [gderives] over the generated
   production list are the same relation. *)
From Coq Require Import List.
From PV Require Import Gen.ShellGrammar Spec.Derivation.
Import ListNotations.

Lemma GDL_last s w : gderives s w -> gderives_list [s] w.
Proof. intro H. rewrite <- (app_nil_r w). apply GDL_cons; [exact H | apply GDL_nil]. Qed.

(* membership in the production list, trying the productions one after the other
   (backtracks when the right-hand side chosen does not fit the yield) *)
Ltac in_productions :=
  cbv [productions];
  let rec go := ((left; reflexivity) + (right; go)) in go.

Ltac build_gdl :=
  repeat first
    [ apply GDL_nil
    | apply GDL_last; first [ apply GD_term | eassumption ]
    | match goal with
      | |- gderives_list (T ?t :: _) (?t :: ?ws) =>
          apply (GDL_cons (T t) _ [t] ws); [ apply GD_term | ]
      | |- gderives_list (NT _ :: _) (_ ++ _) => apply GDL_cons; [ eassumption | ]
      end ].

Theorem derives_gderives : forall n w, derives n w -> gderives (NT n) w.
Proof.
  induction 1;
    (eapply GD_prod; [ in_productions | solve [ build_gdl ] ]).
Qed.

(* the converse *)
Inductive dl : list symbol -> list term -> Prop :=
| dl_nil : dl [] []
| dl_T : forall t ss ws, dl ss ws -> dl (T t :: ss) (t :: ws)
| dl_NT : forall n ss w ws, derives n w -> dl ss ws -> dl (NT n :: ss) (w ++ ws).

Ltac inv_dl :=
  repeat match goal with
  | H : dl (_ :: _) _ |- _ => inversion H; subst; clear H
  | H : dl [] _ |- _ => inversion H; subst; clear H
  end.

Lemma production_sound : forall lhs rhs w, In (lhs, rhs) productions -> dl rhs w -> derives lhs w.
Proof.
  intros lhs rhs w Hin Hdl. cbv [productions] in Hin.
  repeat (destruct Hin as [Hin | Hin];
    [ injection Hin as <- <-; inv_dl; rewrite ?app_nil_r; econstructor; eassumption | ]).
  destruct Hin.
Qed.

Scheme gderives_mut := Induction for gderives Sort Prop
  with gderives_list_mut := Induction for gderives_list Sort Prop.

Theorem gderives_derives : forall n w, gderives (NT n) w -> derives n w.
Proof.
  intros n w H.
  refine (gderives_mut
    (fun s w _ => match s with NT n => derives n w | T t => w = [t] end)
    (fun ss ws _ => dl ss ws) _ _ _ _ (NT n) w H).
  - reflexivity.
  - intros lhs rhs w0 Hin _ Hdl. exact (production_sound lhs rhs w0 Hin Hdl).
  - apply dl_nil.
  - intros s ss w0 ws _ Hs _ Hss. destruct s as [t | m].
    + subst w0. apply dl_T. exact Hss.
    + apply dl_NT; assumption.
Qed.

Theorem derives_iff_gderives : forall n w, derives n w <-> gderives (NT n) w.
Proof. split; [apply derives_gderives | apply gderives_derives]. Qed.
