(* The read marks of the model against the references in the program text
   (C17_verdict_sound_partial3): when RedundantScope flags an EARLIER line for
   variable x, no ':=' / '!=' line strictly between the two lines reaches x --
   handleExpr would have marked x as read (repair 02) and handleVarassign gives
   no verdict for a variable whose last action is a read.

   Invariants carried along the lines:
   - Var.Refs() of z contains every variable named in a text assigned to z so far
   - if the last action on x is not a read, the lines after the last assignment
     to x do not reach x (in the sense of Spec/VerdictSound2.v) *)
From PV Require Import Lib.Bytes Model.Redundant Spec.MakeEval Spec.VerdictSound Spec.VerdictSound2
  Proofs.MakeEvalLemmas Proofs.Redundant Proofs.RedundantSound Proofs.RedundantSound2.

Definition li (s : scope) (x : var) : action := vi_last (s_vars s x).

(* ---------- StringSet ---------- *)

Lemma set_add_old l w z : In z l -> In z (set_add l w).
Proof. unfold set_add. destruct (existsb (str_eqb w) l); intro H; [exact H|apply in_or_app; left; exact H]. Qed.

Lemma set_add_new l w : In w (set_add l w).
Proof.
  unfold set_add. destruct (existsb (str_eqb w) l) eqn:E.
  - apply existsb_exists in E as (y & Hy & E). apply str_eqb_spec in E. subst y. exact Hy.
  - apply in_or_app. right. simpl. auto.
Qed.

Lemma set_add_all_old : forall ws l z, In z l -> In z (set_add_all l ws).
Proof.
  unfold set_add_all. induction ws as [|w ws IH]; intros l z H; simpl; [exact H|].
  apply IH. apply set_add_old. exact H.
Qed.

Lemma set_add_all_new : forall ws l z, In z ws -> In z (set_add_all l ws).
Proof.
  induction ws as [|w ws IH]; intros l z H; [destruct H|].
  unfold set_add_all. simpl. destruct H as [E|H].
  - subst z. apply (set_add_all_old ws). apply set_add_new.
  - apply IH. exact H.
Qed.

Lemma closure_rounds_ext : forall n s ws z, In z ws -> In z (closure_rounds n s ws).
Proof.
  induction n as [|n IH]; intros s ws z H; simpl; [exact H|].
  apply IH. unfold closure_step. apply set_add_all_old. exact H.
Qed.

Lemma closure_ok n s ws c :
  closure n s ws = Ok c ->
  (forall a b, In a c -> In b (refs_of s a) -> In b c) /\ incl ws c.
Proof.
  unfold closure. destruct (forallb _ _) eqn:E; [|discriminate]. intro H. inversion H; subst. split.
  - intros a b Ha Hb. rewrite forallb_forall in E.
    assert (Hin : In b (flat_map (refs_of s) (closure_rounds n s ws))) by (apply in_flat_map; exists a; auto).
    specialize (E b Hin). apply existsb_exists in E as (y & Hy & Ey). apply str_eqb_spec in Ey. subst y. exact Hy.
  - intros z Hz. apply closure_rounds_ext. exact Hz.
Qed.

(* ---------- what a line does to lastAction and to Var.Refs() ---------- *)

Lemma li_read_one s w x : li (read_one s w) x = if str_eqb w x then ARead else li s x.
Proof. unfold li, read_one. simpl. unfold upd. destruct (str_eqb w x); reflexivity. Qed.

Lemma refs_read_one s w z : refs_of (read_one s w) z = refs_of s z.
Proof.
  unfold refs_of, read_one. simpl. unfold upd. destruct (str_eqb w z) eqn:E; [|reflexivity].
  apply str_eqb_spec in E. subst z. reflexivity.
Qed.

Lemma fold_read_refs : forall us s z, refs_of (fold_left read_one us s) z = refs_of s z.
Proof.
  induction us as [|w us IH]; intros s z; simpl; [reflexivity|]. rewrite IH. apply refs_read_one.
Qed.

Lemma fold_read_li : forall us s x,
  li (fold_left read_one us s) x <> ARead -> ~ In x us /\ li s x <> ARead.
Proof.
  induction us as [|w us IH]; intros s x H; simpl in *; [split; [tauto|exact H]|].
  destruct (IH _ _ H) as [H1 H2]. rewrite li_read_one in H2.
  destruct (str_eqb w x) eqn:E; [congruence|]. split; [|exact H2].
  intros [E'|H']; [|contradiction]. subst w. rewrite str_eqb_refl in E. discriminate.
Qed.

Definition closed_refs (s : scope) (c : list var) : Prop :=
  forall a b, In a c -> In b (refs_of s a) -> In b c.

Lemma closed_refs_ext s s' c : (forall z, refs_of s' z = refs_of s z) -> closed_refs s c -> closed_refs s' c.
Proof. intros E H a b Ha Hb. rewrite E in Hb. eapply H; eauto. Qed.

Definition expr_facts (s : scope) (a : assign) (s' : scope) : Prop :=
  (forall z, refs_of s' z = refs_of s z) /\
  (forall x, li s' x <> ARead -> li s x <> ARead /\ ~ In x (uses (a_val a))) /\
  (is_eager (a_op a) = true ->
     exists c, closed_refs s c /\ incl (uses (a_val a)) c /\ forall x, li s' x <> ARead -> ~ In x c).

Lemma eager_branch s a s' :
  is_eager (a_op a) = true ->
  match closure (length (s_names (fold_left read_one (uses (a_val a)) s)))
                (fold_left read_one (uses (a_val a)) s) (set_add_all [] (uses (a_val a))) with
  | Ok c => Ok (fold_left read_one c (fold_left read_one (uses (a_val a)) s))
  | Panic => Panic
  | OutOfFuel => OutOfFuel
  end = Ok s' -> expr_facts s a s'.
Proof.
  intros He H. set (s1 := fold_left read_one (uses (a_val a)) s) in *.
  destruct (closure _ s1 _) as [c| |] eqn:Ec; try discriminate. inversion H; subst s'. clear H.
  destruct (closure_ok _ _ _ _ Ec) as [Hcl Hinc]. split; [|split].
  - intro z. rewrite fold_read_refs. unfold s1. apply fold_read_refs.
  - intros x Hx. destruct (fold_read_li _ _ _ Hx) as [_ H1]. destruct (fold_read_li _ _ _ H1) as [H2 H3]. auto.
  - intros _. exists c. split; [|split].
    + eapply closed_refs_ext; [|exact Hcl]. intro z. symmetry. unfold s1. apply fold_read_refs.
    + intros w Hw. apply Hinc. apply set_add_all_new. exact Hw.
    + intros x Hx. destruct (fold_read_li _ _ _ Hx) as [H1 _]. exact H1.
Qed.

Lemma handle_expr_facts s a s' : handle_expr s a = Ok s' -> expr_facts s a s'.
Proof.
  unfold handle_expr. destruct (a_op a) eqn:Eo;
    try (apply eager_branch; rewrite Eo; reflexivity);
    intro H; inversion H; subst s'; (split; [|split]);
    try (intro z; apply fold_read_refs);
    try (intros x Hx; destruct (fold_read_li _ _ _ Hx); auto);
    try (rewrite Eo; discriminate).
Qed.

Lemma var_write_refs v idx a d :
  v_refs (var_write v idx a d) = set_add_all (v_refs v) (uses (a_val a)).
Proof.
  unfold var_write, var_update_constant. simpl.
  destruct (cstate_eqb (v_state v) C3); [reflexivity|].
  destruct (v_cond v || d); [reflexivity|].
  destruct (a_op a); simpl; try reflexivity.
  - destruct (has_make_vars (a_val a)); reflexivity.
  - destruct (cstate_eqb (v_state v) C0); reflexivity.
Qed.

(* no verdict for a variable whose last action is a read *)
Lemma handle_varassign_last s idx a s' vs vd :
  handle_varassign s idx a false = Ok (s', vs) -> In vd vs -> li s (a_var a) <> ARead.
Proof.
  unfold handle_varassign, li. intros H Hin E.
  destruct (rev (v_writes (vi_var (s_vars s (a_var a))))); [inversion H; subst; destruct Hin|].
  destruct (v_cond (vi_var (s_vars s (a_var a))) || false); [inversion H; subst; destruct Hin|].
  rewrite E in H. inversion H; subst. destruct Hin.
Qed.

Definition line_facts (s : scope) (l : line) (s' : scope) : Prop :=
  (forall z w, In w (refs_of s z) -> In w (refs_of s' z)) /\
  (forall a w, l_body l = Some a -> In w (uses (a_val a)) -> In w (refs_of s' (a_var a))) /\
  (forall x, li s' x <> ARead -> assigns x l = false ->
     li s x <> ARead /\
     forall a, l_body l = Some a -> is_eager (a_op a) = true ->
       exists c, closed_refs s' c /\ incl (uses (a_val a)) c /\ ~ In x c).

Lemma check_line_facts s idx l s' vs :
  check_line s idx l = Ok (s', vs) -> line_facts s l s'.
Proof.
  unfold check_line. destruct (update_include_path s l) as [s1| |] eqn:E1; try discriminate.
  apply update_include_path_vars in E1.
  assert (Hr1 : forall z, refs_of s1 z = refs_of s z) by (intro z; unfold refs_of; rewrite E1; reflexivity).
  assert (Hl1 : forall x, li s1 x = li s x) by (intro x; unfold li; rewrite E1; reflexivity).
  destruct (l_body l) as [a|] eqn:Eb.
  - destruct (handle_varassign s1 idx a false) as [[s2 vs2]| |] eqn:E2; try discriminate.
    destruct (handle_expr s2 a) as [s3| |] eqn:E3; try discriminate.
    intro H; inversion H; subst s' vs. clear H.
    apply handle_varassign_scope in E2.
    destruct (handle_expr_facts _ _ _ E3) as (F1 & F2 & F3).
    assert (Hr2 : forall z, refs_of s2 z =
              if str_eqb (a_var a) z then set_add_all (refs_of s1 (a_var a)) (uses (a_val a)) else refs_of s1 z).
    { intro z. subst s2. unfold refs_of. simpl. unfold upd. destruct (str_eqb (a_var a) z); [|reflexivity].
      simpl. apply var_write_refs. }
    assert (Hl2 : forall x, li s2 x = if str_eqb (a_var a) x then AWrite else li s1 x).
    { intro x. subst s2. unfold li. simpl. unfold upd. destruct (str_eqb (a_var a) x); reflexivity. }
    split; [|split].
    + intros z w Hw. rewrite F1, Hr2. destruct (str_eqb (a_var a) z) eqn:E.
      * apply str_eqb_spec in E. subst z. apply set_add_all_old. rewrite Hr1. exact Hw.
      * rewrite Hr1. exact Hw.
    + intros a0 w Ha0 Hw. rewrite Eb in Ha0. injection Ha0 as Ea0; subst a0. rewrite F1, Hr2, str_eqb_refl.
      apply set_add_all_new. exact Hw.
    + intros x Hx Hna. unfold assigns in Hna. rewrite Eb in Hna. destruct (F2 x Hx) as [G1 G2].
      rewrite Hl2, Hna, Hl1 in G1. split; [exact G1|].
      intros a0 Ha0 He. rewrite Eb in Ha0. injection Ha0 as Ea0; subst a0.
      destruct (F3 He) as (c & C1 & C2 & C3). exists c. split; [|split; [exact C2|apply C3; exact Hx]].
      eapply closed_refs_ext; [|exact C1]. exact F1.
  - intro H; inversion H; subst s' vs. split; [|split].
    + intros z w Hw. rewrite Hr1. exact Hw.
    + intros a w Ha. congruence.
    + intros x Hx _. rewrite Hl1 in Hx. split; [exact Hx|]. intros a Ha. congruence.
Qed.

Lemma check_line_verdict_last s idx l s' vs vd a :
  check_line s idx l = Ok (s', vs) -> In vd vs -> l_body l = Some a -> li s (a_var a) <> ARead.
Proof.
  unfold check_line. destruct (update_include_path s l) as [s1| |] eqn:E1; try discriminate.
  apply update_include_path_vars in E1. intros H Hin Hb. rewrite Hb in H.
  destruct (handle_varassign s1 idx a false) as [[s2 vs2]| |] eqn:E2; try discriminate.
  destruct (handle_expr s2 a) as [s3| |]; try discriminate.
  inversion H; subst. pose proof (handle_varassign_last _ _ _ _ _ _ E2 Hin) as HL.
  unfold li in *. rewrite E1 in HL. exact HL.
Qed.

(* ---------- the two invariants ---------- *)

Definition Rinv (pre : program) (s : scope) : Prop :=
  forall z w, In w (direct pre z) -> In w (refs_of s z).

Definition good_tail (x : var) (pre : program) : Prop :=
  forall pre1 lp mid, pre = pre1 ++ lp :: mid -> assigns x lp = true ->
    forallb (fun l0 => negb (assigns x l0)) mid = true -> indep_linesP x (pre1 ++ [lp]) mid.

Definition Jinv (pre : program) (s : scope) : Prop :=
  forall x, li s x <> ARead -> good_tail x pre.

Lemma Rinv_init : Rinv [] new_scope.
Proof. intros z w H. destruct H. Qed.

Lemma Jinv_init : Jinv [] new_scope.
Proof. intros x _ pre1 lp mid E. destruct pre1; discriminate. Qed.

Lemma direct_app a b z : direct (a ++ b) z = direct a z ++ direct b z.
Proof. unfold direct. apply flat_map_app. Qed.

Lemma Rinv_step pre s l s' vs :
  Rinv pre s -> check_line s (length pre) l = Ok (s', vs) -> Rinv (pre ++ [l]) s'.
Proof.
  intros HR Hck z w Hw. destruct (check_line_facts _ _ _ _ _ Hck) as (F1 & F2 & _).
  rewrite direct_app in Hw. apply in_app_or in Hw as [Hw|Hw].
  - apply F1. apply HR. exact Hw.
  - unfold direct in Hw. simpl in Hw. rewrite app_nil_r in Hw.
    destruct (l_body l) as [a|] eqn:Eb; [|destruct Hw].
    destruct (str_eqb (a_var a) z) eqn:E; [|destruct Hw].
    apply str_eqb_spec in E. subst z. apply (F2 a w eq_refl Hw).
Qed.

Lemma Jinv_step pre s l s' vs :
  Jinv pre s -> Rinv (pre ++ [l]) s' -> check_line s (length pre) l = Ok (s', vs) -> Jinv (pre ++ [l]) s'.
Proof.
  intros HJ HR Hck x Hx pre1 lp mid E Hlp Hmid.
  destruct (check_line_facts _ _ _ _ _ Hck) as (_ & _ & F3).
  destruct mid as [|m0 mid0] using rev_ind; [exact I|]. clear IHmid0.
  replace (pre1 ++ lp :: mid0 ++ [m0]) with ((pre1 ++ lp :: mid0) ++ [m0]) in E
    by (rewrite <- app_assoc; reflexivity).
  apply app_inj_tail in E as [Epre El]. subst m0.
  rewrite forallb_app in Hmid. apply andb_true_iff in Hmid as [Hm0 Hml].
  simpl in Hml. rewrite andb_true_r in Hml. apply negb_true_iff in Hml.
  destruct (F3 x Hx Hml) as [G1 G2].
  apply indep_linesP_app. split; [apply (HJ x G1 pre1 lp mid0 Epre Hlp Hm0)|].
  simpl. split; [|exact I].
  replace ((pre1 ++ [lp]) ++ mid0) with pre by (rewrite Epre, <- app_assoc; reflexivity).
  intros a Hb He _. destruct (G2 a Hb He) as (c & C1 & C2 & C3).
  exists c. split; [|split; assumption].
  intros a' b Ha' Hb'. apply (C1 a' b Ha'). apply HR. rewrite direct_app. apply in_or_app. left. exact Hb'.
Qed.

(* ---------- soundness with nothing asked of the lines in between ---------- *)

Lemma line_sound3 pre l post s s' vs vd :
  (forall x fuel, inv_x fuel pre s x) -> Jinv pre s ->
  check_line s (length pre) l = Ok (s', vs) -> In vd vs ->
  wf_program (pre ++ l :: post) = true ->
  guard3 (pre ++ l :: post) vd = true ->
  deletable (pre ++ l :: post) (vd_flagged vd).
Proof.
  intros Hinv HJ Hck Hin Hwf Hg. eapply line_sound_core; eauto.
  - intros a pre1 lp mid Eb Epre Hlp Hmid Hf Hb. split.
    + apply (HJ (a_var a)); auto. eapply check_line_verdict_last; eauto.
    + intros _. unfold guard3 in Hg. rewrite Hf, Hb in Hg.
      assert (Hlt : Nat.ltb (length pre1) (length pre) = true) by (subst pre; apply ltb_mid).
      rewrite Hlt, nth_error_mid, firstn_mid in Hg.
      assert (Hlv : line_var (pre ++ l :: post) (length pre1) = a_var a).
      { subst pre. rewrite <- app_assoc. simpl app. unfold line_var. rewrite nth_error_mid.
        unfold assigns in Hlp. destruct (l_body lp) as [ap|]; [|discriminate].
        apply str_eqb_spec in Hlp. exact Hlp. }
      rewrite Hlv in Hg. apply indep_line_P. exact Hg.
  - unfold fwd_ok. intro Hge. unfold guard3 in Hg. rewrite Hge in Hg. exact Hg.
Qed.

Lemma sound_gen3 : forall ls pre s vs,
  (forall x fuel, inv_x fuel pre s x) -> Rinv pre s -> Jinv pre s ->
  check_from s (length pre) ls = Ok vs ->
  wf_program (pre ++ ls) = true ->
  forall vd, In vd vs -> guard3 (pre ++ ls) vd = true ->
  deletable (pre ++ ls) (vd_flagged vd).
Proof.
  induction ls as [|l ls IH]; intros pre s vs Hinv HR HJ Hck Hwf vd Hin Hg.
  - simpl in Hck. inversion Hck; subst. destruct Hin.
  - simpl in Hck. destruct (check_line s (length pre) l) as [[s' vs0]| |] eqn:E1; try discriminate.
    destruct (check_from s' (S (length pre)) ls) as [rest| |] eqn:E2; try discriminate.
    inversion Hck; subst vs. apply in_app_or in Hin as [Hin|Hin].
    + eapply line_sound3; eauto.
    + assert (Hok : line_ok l = true).
      { unfold wf_program in Hwf. rewrite forallb_app in Hwf. apply andb_true_iff in Hwf as [_ Hwf].
        simpl in Hwf. apply andb_true_iff in Hwf as [Hwf _]. exact Hwf. }
      pose proof (Rinv_step _ _ _ _ _ HR E1) as HR'.
      pose proof (Jinv_step _ _ _ _ _ HJ HR' E1) as HJ'.
      replace (pre ++ l :: ls) with ((pre ++ [l]) ++ ls) in * by (rewrite <- app_assoc; reflexivity).
      apply (IH (pre ++ [l]) s' rest); auto.
      * intros x fuel. apply (inv_x_step fuel pre s l s' vs0 x); auto.
      * rewrite app_length. simpl. rewrite Nat.add_1_r. exact E2.
Qed.

(* Every verdict inside guard3 flags a deletable line: an earlier flagged line
   needs a condition on the later line only. *)
Theorem verdict_sound_partial3 : verdict_sound_on (fun p vd => guard3 p vd = true).
Proof.
  intros p vs vd Hwf Hck Hin Hg.
  apply (sound_gen3 p [] new_scope vs); auto.
  - intros x fuel. apply inv_x_init.
  - apply Rinv_init.
  - apply Jinv_init.
Qed.

(* ---------- the later line: a '!=' that makes a constant variable's last
   definition redundant cannot reach the variable, because a constant variable
   whose last action is not a read has never been read at all ---------- *)

Definition st (s : scope) (x : var) : cstate := v_state (vi_var (s_vars s x)).

(* Phi: what is known about x while it has never been read *)
Definition KP (Phi : Prop) (s : scope) (x : var) : Prop :=
  (st s x = C0 \/ st s x = C1 -> Phi) /\ (st s x = C2 -> li s x = ARead).

Definition was_read (s : scope) (x : var) : Prop := st s x = C2 \/ st s x = C3.

Lemma st_read_one s w x : st (read_one s w) x = if str_eqb w x then read_table (st s x) else st s x.
Proof.
  unfold st, read_one. simpl. unfold upd. destruct (str_eqb w x) eqn:E; [|reflexivity].
  apply str_eqb_spec in E. subst w. reflexivity.
Qed.

Lemma read_one_KP Phi s w x : KP Phi s x -> KP Phi (read_one s w) x.
Proof.
  intros [K1 K2]. unfold KP. rewrite st_read_one, li_read_one.
  destruct (str_eqb w x); [|split; assumption]. split.
  - intros [E|E]; destruct (st s x); discriminate.
  - reflexivity.
Qed.

Lemma fold_read_KP Phi : forall us s x, KP Phi s x -> KP Phi (fold_left read_one us s) x.
Proof.
  induction us as [|w us IH]; intros s x H; simpl; [exact H|]. apply IH. apply read_one_KP. exact H.
Qed.

Lemma read_one_was_read s w x : was_read s x -> was_read (read_one s w) x.
Proof.
  unfold was_read. rewrite st_read_one. destruct (str_eqb w x); [|tauto].
  intros [E|E]; rewrite E; simpl; auto.
Qed.

Lemma fold_read_was_read_keep : forall us s x, was_read s x -> was_read (fold_left read_one us s) x.
Proof.
  induction us as [|w us IH]; intros s x H; simpl; [exact H|]. apply IH. apply read_one_was_read. exact H.
Qed.

Lemma fold_read_was_read : forall us s x, In x us -> was_read (fold_left read_one us s) x.
Proof.
  induction us as [|w us IH]; intros s x H; [destruct H|]. simpl.
  destruct (str_eqb w x) eqn:E.
  - apply fold_read_was_read_keep. unfold was_read. rewrite st_read_one, E.
    destruct (st s x); simpl; auto.
  - destruct H as [H|H]; [subst w; rewrite str_eqb_refl in E; discriminate|]. apply IH. exact H.
Qed.

Lemma KP_was_read Phi Phi' s x : KP Phi s x -> was_read s x -> KP Phi' s x.
Proof.
  intros [_ K2] [E|E]; split; auto; intros [F|F]; rewrite E in F; discriminate.
Qed.

Lemma KP_mono (Phi Phi' : Prop) s x : (Phi -> Phi') -> KP Phi s x -> KP Phi' s x.
Proof. intros H [K1 K2]. split; auto. Qed.

Lemma handle_expr_shape s a s' :
  handle_expr s a = Ok s' -> exists us, s' = fold_left read_one (uses (a_val a) ++ us) s.
Proof.
  unfold handle_expr. intro H.
  destruct (a_op a);
    try (inversion H; subst; exists []; rewrite app_nil_r; reflexivity);
    destruct (closure _ _ _) as [c| |]; try discriminate;
    inversion H; subst; exists c; rewrite fold_left_app; reflexivity.
Qed.

Lemma var_write_state2 v idx a :
  (v_state (var_write v idx a false) = C1 /\ (v_state v = C0 \/ v_state v = C1)) \/
  v_state (var_write v idx a false) = C3.
Proof.
  unfold var_write, var_update_constant. simpl.
  destruct (v_state v) eqn:Es; simpl; try (right; reflexivity);
    destruct (v_cond v || false); simpl; try (right; reflexivity);
    destruct (a_op a); simpl; auto;
    try (destruct (has_make_vars (a_val a)); simpl; auto).
Qed.

Definition never_named (pre : program) (x : var) : Prop := forall z, ~ In x (direct pre z).

Definition Kinv (pre : program) (s : scope) : Prop := forall x, KP (never_named pre x) s x.

Lemma Kinv_init : Kinv [] new_scope.
Proof. intro x. split; [intros _ z H; destruct H|]. unfold st. simpl. discriminate. Qed.

Lemma Kinv_step pre s l s' vs :
  Kinv pre s -> check_line s (length pre) l = Ok (s', vs) -> Kinv (pre ++ [l]) s'.
Proof.
  intros HK Hck x. specialize (HK x). unfold check_line in Hck.
  destruct (update_include_path s l) as [s1| |] eqn:E1; try discriminate.
  apply update_include_path_vars in E1.
  assert (K1 : KP (never_named pre x) s1 x).
  { unfold KP, st, li in *. rewrite E1. exact HK. }
  destruct (l_body l) as [a|] eqn:Eb.
  - destruct (handle_varassign s1 (length pre) a false) as [[s2 vs2]| |] eqn:E2; try discriminate.
    destruct (handle_expr s2 a) as [s3| |] eqn:E3; try discriminate.
    inversion Hck; subst s' vs. clear Hck.
    apply handle_varassign_scope in E2.
    assert (K2 : KP (never_named pre x) s2 x).
    { subst s2. unfold KP, st, li in *. simpl. unfold upd. destruct (str_eqb (a_var a) x) eqn:E; [|exact K1].
      apply str_eqb_spec in E. subst x. simpl.
      destruct (var_write_state2 (vi_var (s_vars s1 (a_var a))) (length pre) a) as [[W1 W2]|W]; split.
      - intros _. apply K1. exact W2.
      - rewrite W1. discriminate.
      - intros [F|F]; rewrite W in F; discriminate.
      - rewrite W. discriminate. }
    destruct (handle_expr_shape _ _ _ E3) as [us Hs3]. subst s3.
    pose proof (fold_read_KP _ (uses (a_val a) ++ us) s2 x K2) as K3.
    destruct (mem x (uses (a_val a))) eqn:Em.
    + apply mem_in in Em. eapply KP_was_read; [exact K3|].
      apply fold_read_was_read. apply in_or_app. left. exact Em.
    + eapply KP_mono; [|exact K3]. intros Hn z Hz. rewrite direct_app in Hz.
      apply in_app_or in Hz as [Hz|Hz]; [exact (Hn z Hz)|].
      unfold direct in Hz. simpl in Hz. rewrite Eb, app_nil_r in Hz.
      destruct (str_eqb (a_var a) z); [|destruct Hz].
      apply mem_in in Hz. rewrite Hz in Em. discriminate.
  - inversion Hck; subst s' vs. eapply KP_mono; [|exact K1].
    intros Hn z Hz. rewrite direct_app in Hz. apply in_app_or in Hz as [Hz|Hz]; [exact (Hn z Hz)|].
    unfold direct in Hz. simpl in Hz. rewrite Eb in Hz. destruct Hz.
Qed.

(* the '!=' case of handleVarassign *)
Lemma handle_varassign_shell s idx a s' vs vd :
  handle_varassign s idx a false = Ok (s', vs) -> In vd vs -> a_op a = OpShell ->
  is_constant (vi_var (s_vars s (a_var a))) = true /\
  existsb (str_eqb (a_var a)) (uses (a_val a)) = false.
Proof.
  unfold handle_varassign. intros H Hin Ho. rewrite Ho in H. simpl in H.
  destruct (rev (v_writes (vi_var (s_vars s (a_var a))))); [inversion H; subst; destruct Hin|].
  destruct (v_cond (vi_var (s_vars s (a_var a))) || false); [inversion H; subst; destruct Hin|].
  destruct (vi_last (s_vars s (a_var a)));
    try (inversion H; subst; destruct Hin; fail);
    destruct (included_by_or_equals_all _ _); try (inversion H; subst; destruct Hin; fail);
    destruct (is_constant _); simpl in H; try (inversion H; subst; destruct Hin; fail);
    destruct (existsb _ _); simpl in H; try (inversion H; subst; destruct Hin; fail); auto.
Qed.

Lemma check_line_shell s idx l s' vs vd a :
  check_line s idx l = Ok (s', vs) -> In vd vs -> l_body l = Some a -> a_op a = OpShell ->
  is_constant (vi_var (s_vars s (a_var a))) = true /\
  existsb (str_eqb (a_var a)) (uses (a_val a)) = false.
Proof.
  unfold check_line. destruct (update_include_path s l) as [s1| |] eqn:E1; try discriminate.
  apply update_include_path_vars in E1. intros H Hin Hb Ho. rewrite Hb in H.
  destruct (handle_varassign s1 idx a false) as [[s2 vs2]| |] eqn:E2; try discriminate.
  destruct (handle_expr s2 a) as [s3| |]; try discriminate.
  inversion H; subst. rewrite <- E1. eapply handle_varassign_shell; eauto.
Qed.

Lemma direct_in_vars pre z w : In w (direct pre z) -> In w (vars_of pre).
Proof.
  unfold direct, vars_of. intro H. apply in_flat_map in H as (l & Hl & Hw).
  apply in_flat_map. exists l. split; [exact Hl|]. unfold vars_of_line.
  destruct (l_body l) as [a|]; [|destruct Hw].
  destruct (str_eqb (a_var a) z); [|destruct Hw]. right. exact Hw.
Qed.

(* a variable that no text names cannot be reached *)
Lemma never_named_unreached pre ws x :
  never_named pre x -> ~ In x ws -> unreached pre ws x.
Proof.
  intros Hn Hx.
  exists (filter (fun w => negb (str_eqb x w)) (vars_of pre ++ ws)). split; [|split].
  - intros a b _ Hb. apply filter_In. split.
    + apply in_or_app. left. eapply direct_in_vars; eauto.
    + apply negb_true_iff. apply str_eqb_neq. intro E. subst b. exact (Hn a Hb).
  - intros w Hw. apply filter_In. split; [apply in_or_app; right; exact Hw|].
    apply negb_true_iff. apply str_eqb_neq. intro E. subst w. contradiction.
  - intro H. apply filter_In in H as [_ H]. rewrite str_eqb_refl in H. discriminate.
Qed.

Lemma line_sound4 pre l post s s' vs vd :
  (forall x fuel, inv_x fuel pre s x) -> Jinv pre s -> Kinv pre s ->
  check_line s (length pre) l = Ok (s', vs) -> In vd vs ->
  wf_program (pre ++ l :: post) = true ->
  guard4 (pre ++ l :: post) vd = true ->
  deletable (pre ++ l :: post) (vd_flagged vd).
Proof.
  intros Hinv HJ HK Hck Hin Hwf Hg. eapply line_sound_core; eauto.
  - intros a pre1 lp mid Eb Epre Hlp Hmid Hf Hb.
    pose proof (check_line_verdict_last _ _ _ _ _ _ _ Hck Hin Eb) as Hlast.
    split; [apply (HJ (a_var a)); auto|].
    intros Ho a0 Eb0 _ _. rewrite Eb in Eb0. injection Eb0 as E0. subst a0.
    destruct (check_line_shell _ _ _ _ _ _ _ Hck Hin Eb Ho) as [Hc Hu].
    destruct (HK (a_var a)) as [K1 K2].
    apply never_named_unreached.
    + apply K1. unfold is_constant in Hc. unfold st in *.
      destruct (v_state (vi_var (s_vars s (a_var a)))) eqn:Es; try discriminate; auto.
      exfalso. apply Hlast. apply K2. reflexivity.
    + intro Hx. apply mem_in in Hx. unfold mem in Hx. rewrite Hx in Hu. discriminate.
  - unfold fwd_ok. intro Hge. unfold guard4 in Hg. rewrite Hge in Hg. exact Hg.
Qed.

Lemma sound_gen4 : forall ls pre s vs,
  (forall x fuel, inv_x fuel pre s x) -> Rinv pre s -> Jinv pre s -> Kinv pre s ->
  check_from s (length pre) ls = Ok vs ->
  wf_program (pre ++ ls) = true ->
  forall vd, In vd vs -> guard4 (pre ++ ls) vd = true ->
  deletable (pre ++ ls) (vd_flagged vd).
Proof.
  induction ls as [|l ls IH]; intros pre s vs Hinv HR HJ HK Hck Hwf vd Hin Hg.
  - simpl in Hck. inversion Hck; subst. destruct Hin.
  - simpl in Hck. destruct (check_line s (length pre) l) as [[s' vs0]| |] eqn:E1; try discriminate.
    destruct (check_from s' (S (length pre)) ls) as [rest| |] eqn:E2; try discriminate.
    inversion Hck; subst vs. apply in_app_or in Hin as [Hin|Hin].
    + eapply line_sound4; eauto.
    + assert (Hok : line_ok l = true).
      { unfold wf_program in Hwf. rewrite forallb_app in Hwf. apply andb_true_iff in Hwf as [_ Hwf].
        simpl in Hwf. apply andb_true_iff in Hwf as [Hwf _]. exact Hwf. }
      pose proof (Rinv_step _ _ _ _ _ HR E1) as HR'.
      pose proof (Jinv_step _ _ _ _ _ HJ HR' E1) as HJ'.
      pose proof (Kinv_step _ _ _ _ _ HK E1) as HK'.
      replace (pre ++ l :: ls) with ((pre ++ [l]) ++ ls) in * by (rewrite <- app_assoc; reflexivity).
      apply (IH (pre ++ [l]) s' rest); auto.
      * intros x fuel. apply (inv_x_step fuel pre s l s' vs0 x); auto.
      * rewrite app_length. simpl. rewrite Nat.add_1_r. exact E2.
Qed.

(* Every verdict inside guard4 flags a deletable line. *)
Theorem verdict_sound_partial4 : verdict_sound_on (fun p vd => guard4 p vd = true).
Proof.
  intros p vs vd Hwf Hck Hin Hg.
  apply (sound_gen4 p [] new_scope vs); auto.
  - intros x fuel. apply inv_x_init.
  - apply Rinv_init.
  - apply Jinv_init.
  - apply Kinv_init.
Qed.

(* In plain terms: a verdict that flags the EARLIER of its two lines is sound. *)
Theorem earlier_line_sound :
  forall (p : program) (vs : list verdict) (vd : verdict),
    wf_program p = true -> check p = Ok vs -> In vd vs ->
    (vd_flagged vd < vd_because vd)%nat -> deletable p (vd_flagged vd).
Proof.
  intros p vs vd Hwf Hck Hin Hlt. apply (verdict_sound_partial4 p vs vd Hwf Hck Hin).
  unfold guard4. apply Nat.ltb_lt in Hlt. rewrite Hlt. reflexivity.
Qed.
