(* The regenerated list of package-level variables (Gen/GlobalsAudit.v, written by gen/c07globals.go
   from /repo/v23 and audit/globals.json) is fully classified: every variable has a known class (no
   0 = new / removed-and-renamed / changed declaration / changed writer set / changed writer or
   pinned function / inconsistent or unjustified class), the list has the announced length, NO
   variable is a `finding` (class 7: survives a run and reaches the output of a later one), and the
   scanner really visited the module (floors below the 143 variables in 73 non-test files of today).
   Split so that a recorded finding fails in glob_audit_no_finding and a stale audit in
   glob_audit_complete. *)
From PV Require Import Lib.Bytes Gen.GlobalsAudit.
Import ListNotations.
Open Scope N_scope.

Definition glob_class_known (c : N) : bool := (1 <=? c) && (c <=? 7).
Definition glob_count_class (c : N) (l : list N) : N := N.of_nat (length (filter (N.eqb c) l)).

Lemma glob_audit_complete :
  forallb glob_class_known global_classes = true
  /\ N.of_nat (length global_classes) = global_count
  /\ (100 <=? global_count) = true
  /\ (60 <=? global_files_scanned) = true.
Proof. vm_compute. repeat split; reflexivity. Qed.

Definition glob_audit_full : Prop :=
  forallb glob_class_known global_classes = true
  /\ N.of_nat (length global_classes) = global_count
  /\ glob_count_class 7 global_classes = 0
  /\ (100 <=? global_count) = true
  /\ (60 <=? global_files_scanned) = true.

Lemma glob_audit_no_finding : glob_count_class 7 global_classes = 0.
Proof. vm_compute. reflexivity. Qed.

Lemma glob_audit_classified : glob_audit_full.
Proof.
  destruct glob_audit_complete as (Hknown & Hcount & Hn & Hfiles).
  exact (conj Hknown (conj Hcount (conj glob_audit_no_finding (conj Hn Hfiles)))).
Qed.
