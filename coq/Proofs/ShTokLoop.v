(* Proofs about Model/ShTok.v, part 2: the loops ShAtoms and ShToken (and the
   driver loop that calls ShToken repeatedly). *)
From PV Require Import Lib.Bytes Model.ShTok Proofs.ShTok.
From Coq Require Import ZifyBool ZifyN ZifyNat.
Open Scope N_scope.

Section WithExpr.

Variable expr : str -> option (str * str).
Hypothesis Hexpr : expr_contract expr.

Definition texts (l : list atom) : list str := map a_text l.
Definition all_nonempty (l : list atom) : Prop := Forall (fun a => a_text a <> []) l.

(* ---------- ShAtoms ---------- *)

Lemma sh_atoms_loop_ok fuel : forall q iw (s : str), (length s < fuel)%nat ->
  exists atoms iw' r,
    sh_atoms_loop expr fuel q (iw, s) = Ok (atoms, (iw', r)) /\
    s = concat (texts atoms) ++ r /\ all_nonempty atoms.
Proof.
  induction fuel as [|f IH]; intros q iw s Hf; [lia|].
  cbn [sh_atoms_loop].
  destruct (sh_atom_spec expr Hexpr q iw s) as (iw' & [E | (a & r & E & Hs & Hn & _)]); rewrite E; cbn [bind].
  - exists [], iw', s. repeat split. constructor.
  - assert (Hl : (length r < f)%nat).
    { rewrite Hs, app_length in Hf. destruct (a_text a); [congruence|]. simpl in Hf. lia. }
    destruct (IH (a_quot a) iw' r Hl) as (l & iw'' & r' & E' & Hs' & Hn').
    rewrite E'. cbn [bind]. exists (a :: l), iw'', r'. split; [reflexivity|]. split.
    + unfold texts in *. cbn [map concat]. rewrite <- app_assoc, <- Hs'. exact Hs.
    + constructor; assumption.
Qed.

Theorem sh_atoms_from_ok q iw (s : str) :
  exists atoms iw' r,
    sh_atoms_from expr q (iw, s) = Ok (atoms, (iw', r)) /\
    s = concat (texts atoms) ++ r /\ all_nonempty atoms.
Proof. unfold sh_atoms_from. apply sh_atoms_loop_ok. simpl. lia. Qed.

(* ---------- ShToken ---------- *)

Definition rest_of (k : tkst) : str := snd (t_st k).

Lemma peek_none k : t_curr k = None ->
  exists k1, peek expr k = Ok k1 /\
    ((t_curr k1 = None /\ rest_of k1 = rest_of k /\ t_q k1 = t_q k /\ t_prevq k1 = t_prevq k) \/
     exists a, t_curr k1 = Some a /\ atom_good (rest_of k) a (rest_of k1) /\
               t_q k1 = a_quot a /\ t_prevq k1 = t_q k).
Proof.
  intro Hc. unfold peek. rewrite Hc. unfold rest_of.
  destruct (t_st k) as [iw s].
  destruct (sh_atom_spec expr Hexpr (t_q k) iw s) as (iw' & [E | (a & r & E & Hg)]); rewrite E; cbn [bind].
  - eexists. split; [reflexivity|]. left. cbn. auto.
  - eexists. split; [reflexivity|]. right. exists a. cbn. auto.
Qed.

Lemma peek_some k a : t_curr k = Some a -> peek expr k = Ok k.
Proof. intro H. unfold peek. rewrite H. reflexivity. Qed.

Definition blank (p : str) : Prop := p <> [] /\ forallb is_hspace p = true.

Lemma is_space_type_true t : is_space_type t = true -> t = ShtSpace.
Proof. destruct t; simpl; congruence. Qed.

Lemma skip_spaces_ok fuel : forall k, t_curr k = None -> (length (rest_of k) < fuel)%nat ->
  exists k1 init1 blanks,
    skip_spaces expr fuel k (rest_of k) = Ok (k1, init1) /\
    rest_of k = concat blanks ++ init1 /\ Forall blank blanks /\
    ((t_curr k1 = None /\ rest_of k1 = init1) \/
     exists a, t_curr k1 = Some a /\ is_space_type (a_type a) = false /\
               atom_good init1 a (rest_of k1) /\ t_q k1 = a_quot a).
Proof.
  induction fuel as [|f IH]; intros k Hc Hf; [lia|].
  cbn [skip_spaces].
  destruct (peek_none k Hc) as (k1 & E & [(Hc1 & Hr & _) | (a & Hc1 & Hg & Hq & _)]); rewrite E; cbn [bind]; rewrite Hc1.
  - exists k1, (rest_of k), []. repeat split; auto.
  - destruct (is_space_type (a_type a)) eqn:Sp.
    + destruct Hg as (Hs & Hn & Hh).
      assert (Hl : (length (rest_of (set_curr k1 None)) < f)%nat).
      { change (rest_of (set_curr k1 None)) with (rest_of k1).
        rewrite Hs, app_length in Hf. destruct (a_text a); [congruence|]. simpl in Hf. lia. }
      destruct (IH (set_curr k1 None) eq_refl Hl) as (k2 & init1 & blanks & E2 & Hs2 & Hb & Hfin).
      change (rest_of (set_curr k1 None)) with (rest_of k1) in *.
      change (snd (t_st k1)) with (rest_of k1). rewrite E2.
      exists k2, init1, (a_text a :: blanks). split; [reflexivity|]. split.
      * cbn [concat]. rewrite <- app_assoc, <- Hs2. exact Hs.
      * split; [|exact Hfin]. constructor; [|exact Hb]. split; [exact Hn|].
        apply Hh. apply is_space_type_true. exact Sp.
    + exists k1, (rest_of k), []. split; [reflexivity|]. split; [reflexivity|]. split; [constructor|].
      right. exists a. auto.
Qed.

Lemma collect_none fuel : forall k acc, t_curr k = None -> (length (rest_of k) < fuel)%nat ->
  exists k2 more,
    collect_atoms expr fuel k acc = Ok (k2, acc ++ more) /\
    rest_of k = concat (texts more) ++ rest_of k2 /\ all_nonempty more.
Proof.
  induction fuel as [|f IH]; intros k acc Hc Hf; [lia|].
  cbn [collect_atoms]. change (snd (t_st k)) with (rest_of k).
  destruct (peek_none k Hc) as (k1 & E & [(Hc1 & Hr & _) | (a & Hc1 & Hg & Hq & _)]); rewrite E; cbn [bind]; rewrite Hc1.
  - exists (reset_rest k1 (rest_of k)), []. rewrite app_nil_r. repeat split. constructor.
  - match goal with |- context [if ?b then _ else _] => destruct b end.
    + exists (reset_rest k1 (rest_of k)), []. rewrite app_nil_r. repeat split. constructor.
    + destruct Hg as (Hs & Hn & _).
      assert (Hl : (length (rest_of (set_curr k1 None)) < f)%nat).
      { change (rest_of (set_curr k1 None)) with (rest_of k1).
        rewrite Hs, app_length in Hf. destruct (a_text a); [congruence|]. simpl in Hf. lia. }
      destruct (IH (set_curr k1 None) (acc ++ [a]) eq_refl Hl) as (k2 & more & E2 & Hs2 & Hn2).
      change (rest_of (set_curr k1 None)) with (rest_of k1) in *.
      rewrite E2. exists k2, (a :: more). split; [rewrite <- app_assoc; reflexivity|]. split.
      * unfold texts in *. cbn [map concat]. rewrite <- app_assoc, <- Hs2. exact Hs.
      * constructor; assumption.
Qed.

(* what ShToken skips without reporting it: blanks and the expression ${_ULIMIT_CMD} *)
Definition skipped_piece (p : str) : Prop :=
  p <> [] /\ (forallb is_hspace p = true \/ p = ulimit_cmd).

Definition token_good (t : token) : Prop :=
  tok_text t = concat (texts (tok_atoms t)) /\ tok_atoms t <> [] /\ all_nonempty (tok_atoms t).

(* one call of ShToken on the rest s *)
Definition token_result (s : str) (x : res (option token * state)) : Prop :=
  exists pieces iw' r, Forall skipped_piece pieces /\
    ((x = Ok (None, (iw', r)) /\ s = concat pieces ++ r) \/
     exists t, x = Ok (Some t, (iw', r)) /\ s = concat pieces ++ tok_text t ++ r /\
               tok_text t <> [] /\ token_good t).

Lemma blank_skipped p : blank p -> skipped_piece p.
Proof. intros [? ?]. split; auto. Qed.

Lemma sh_token_fuel_ok fuel : forall iw (s : str), (length s + 2 <= fuel)%nat ->
  token_result s (sh_token_fuel expr fuel (iw, s)).
Proof.
  induction fuel as [|f IH]; intros iw s Hf; [lia|].
  cbn [sh_token_fuel]. cbn [snd].
  set (k0 := mk_tkst None QPlain QPlain (iw, s)).
  assert (Hl : (length (rest_of k0) < f)%nat) by (cbn; lia).
  destruct (skip_spaces_ok f k0 eq_refl Hl) as (k & init1 & blanks & E & Hs & Hb & Hfin).
  change (rest_of k0) with s in *. rewrite E. cbn [bind].
  assert (Hb' : Forall skipped_piece blanks) by (eapply Forall_impl; [|exact Hb]; apply blank_skipped).
  destruct Hfin as [(Hc & Hr) | (a & Hc & Hsp & (Hi & Hn & _) & Hq)]; rewrite Hc.
  - (* no atom after the blanks *)
    unfold rest_of in Hr. destruct (t_st k) as [iw1 r1]. cbn [snd] in Hr. subst r1.
    exists blanks, iw1, init1. split; [exact Hb'|]. left. auto.
  - assert (Hlen : (length (rest_of k) + 1 <= length s)%nat).
    { rewrite Hs, Hi, !app_length. destruct (a_text a); [congruence|]. simpl. lia. }
    destruct (str_eqb (a_text a) ulimit_cmd) eqn:U.
    { (* ${_ULIMIT_CMD}: skipped, ShToken calls itself *)
      apply str_eqb_eq in U.
      unfold rest_of in *. destruct (t_st k) as [iw1 r1]. cbn [snd] in *.
      destruct (IH iw1 r1 ltac:(lia)) as (pieces & iw' & r & Hp & Hres).
      exists (blanks ++ [a_text a] ++ pieces), iw', r. split.
      { apply Forall_app. split; [exact Hb'|]. constructor; [|exact Hp]. split; auto. }
      assert (Hc2 : forall z, r1 = concat pieces ++ z ->
                s = concat (blanks ++ [a_text a] ++ pieces) ++ z).
      { intros z Hz. rewrite !concat_app. cbn [concat]. rewrite app_nil_r, <- !app_assoc.
        rewrite <- Hz, <- Hi. exact Hs. }
      destruct Hres as [(Ex & Hz) | (t & Ex & Hz & Ht)]; rewrite Ex.
      - left. auto.
      - right. exists t. auto. }
    destruct (negb (is_word (a_type a)) && negb (quoting_eqb (t_q k) QSubsh)) eqn:W.
    { (* an operator, comment, ...: a token of its own *)
      unfold new_sh_token. destruct (a_text a) as [|x tx] eqn:Ta; [congruence|]. cbn [bind].
      unfold rest_of in *. destruct (t_st k) as [iw1 r1]. cbn [snd] in *.
      exists blanks, iw1, r1. split; [exact Hb'|]. right. eexists. split; [reflexivity|].
      unfold token_good. cbn [tok_text tok_atoms]. split; [rewrite Hs, Hi; reflexivity|]. split; [discriminate|].
      split; [|split].
      - unfold texts. cbn [map concat]. rewrite Ta, app_nil_r. reflexivity.
      - discriminate.
      - constructor; [rewrite Ta; discriminate|constructor]. }
    (* a word: collect the atoms of the word *)
    destruct f as [|f']; [lia|].
    cbn [collect_atoms]. rewrite (peek_some k a Hc). cbn [bind]. rewrite Hc.
    assert (Stop : negb (is_word (a_type a)) && quoting_eqb (t_q k) QPlain
                   && negb (quoting_eqb (t_prevq k) QSubsh) = false).
    { destruct (is_word (a_type a)); [reflexivity|]. destruct (t_q k); simpl in *; congruence. }
    rewrite Stop.
    assert (Hl2 : (length (rest_of (set_curr k None)) < f')%nat).
    { change (rest_of (set_curr k None)) with (rest_of k). lia. }
    destruct (collect_none f' (set_curr k None) ([] ++ [a]) eq_refl Hl2) as (k2 & more & E2 & Hs2 & Hn2).
    change (rest_of (set_curr k None)) with (rest_of k) in *. rewrite E2. cbn [bind].
    unfold rest_of in *. destruct (t_st k2) as [iw2 r2]. cbn [snd fst] in *.
    destruct (negb (quoting_eqb (t_q k2) QPlain)).
    { exists blanks, iw2, init1. split; [exact Hb'|]. left. auto. }
    assert (Ei : init1 = (a_text a ++ concat (texts more)) ++ r2).
    { rewrite <- app_assoc, <- Hs2. exact Hi. }
    rewrite Ei at 1. rewrite since_app. cbn [bind].
    unfold new_sh_token. cbn [app].
    destruct (a_text a ++ concat (texts more)) as [|x tx] eqn:Tx.
    { apply app_eq_nil in Tx as [Tx _]. congruence. }
    cbn [bind].
    exists blanks, iw2, r2. split; [exact Hb'|]. right. eexists. split; [reflexivity|].
    unfold token_good. cbn [tok_text tok_atoms]. split; [rewrite Hs, Ei; reflexivity|]. split; [discriminate|].
    split; [|split].
    + unfold texts in *. cbn [map concat]. symmetry. exact Tx.
    + discriminate.
    + constructor; assumption.
Qed.

Theorem sh_token_ok iw (s : str) : token_result s (sh_token expr (iw, s)).
Proof. unfold sh_token. cbn [snd]. apply sh_token_fuel_ok. lia. Qed.

(* ---------- the driver loop: ShToken until nil ---------- *)

(* tokens with the rest after each call; `before` is the rest before the first call *)
Fixpoint tokens_chain (before : str) (l : list (token * str)) (final : str) : Prop :=
  match l with
  | [] => exists pieces, Forall skipped_piece pieces /\ before = concat pieces ++ final
  | (t, after) :: tl =>
    (exists pieces, Forall skipped_piece pieces /\ before = concat pieces ++ tok_text t ++ after) /\
    tok_text t <> [] /\ token_good t /\ tokens_chain after tl final
  end.

Lemma sh_tokens_loop_ok fuel : forall iw (s : str), (length s < fuel)%nat ->
  exists l iw' r, sh_tokens_loop expr fuel (iw, s) = Ok (l, (iw', r)) /\ tokens_chain s l r.
Proof.
  induction fuel as [|f IH]; intros iw s Hf; [lia|].
  cbn [sh_tokens_loop].
  destruct (sh_token_ok iw s) as (pieces & iw' & r & Hp & [(E & Hs) | (t & E & Hs & Hn & Hg)]); rewrite E; cbn [bind].
  - exists [], iw', r. split; [reflexivity|]. exists pieces. auto.
  - assert (Hl : (length r < f)%nat).
    { rewrite Hs, !app_length in Hf. destruct (tok_text t); [congruence|]. simpl in Hf. lia. }
    destruct (IH iw' r Hl) as (l & iw'' & r' & E' & Hc). rewrite E'. cbn [bind snd].
    exists ((t, r) :: l), iw'', r'. split; [reflexivity|]. cbn [tokens_chain].
    split; [exists pieces; auto|]. auto.
Qed.

Theorem sh_tokens_ok (s : str) :
  exists l iw' r, sh_tokens expr s = Ok (l, (iw', r)) /\ tokens_chain s l r.
Proof. unfold sh_tokens. apply sh_tokens_loop_ok. lia. Qed.

End WithExpr.
