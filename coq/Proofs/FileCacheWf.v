(* The cache's own bookkeeping: table and mapping stay in bijection, the table
   never exceeds its capacity, and what removeOldEntries evicts does not depend
   on which sorted permutation the unstable sort.Slice produced. *)
From PV Require Import Lib.Bytes Model.FileCache Proofs.FileCacheLists.
From Coq Require Import Permutation Sorting.Sorted Arith.
Open Scope N_scope.
Arguments map_set : simpl never.

(* ---------- the store: only counts change ---------- *)

Definition shape (e : entry) : N * N * list nat := (e_key e, e_opts e, e_lines e).

Definition same_shape (st st' : list entry) : Prop :=
  length st' = length st /\ forall i, shape (entry_at st' i) = shape (entry_at st i).

Lemma same_shape_refl st : same_shape st st.
Proof. split; auto. Qed.

Lemma same_shape_trans a b c : same_shape a b -> same_shape b c -> same_shape a c.
Proof. intros [L1 H1] [L2 H2]. split; [congruence|]. intros i. rewrite H2, H1; auto. Qed.

Lemma entry_at_upd_same st i e : (i < length st)%nat -> entry_at (upd i e st) i = e.
Proof. apply nth_upd_same. Qed.

Lemma entry_at_upd_other st i j e : i <> j -> entry_at (upd i e st) j = entry_at st j.
Proof. apply nth_upd_other. Qed.

Lemma same_shape_upd st i e : shape e = shape (entry_at st i) -> same_shape st (upd i e st).
Proof.
  intros H. split; [apply upd_length|]. intros j.
  destruct (Nat.eq_dec i j) as [<-|Hne].
  - destruct (Nat.lt_ge_cases i (length st)).
    + rewrite entry_at_upd_same; auto.
    + rewrite upd_beyond; auto.
  - rewrite entry_at_upd_other; auto.
Qed.

Lemma halve_all_shape tbl st : same_shape st (halve_all st tbl).
Proof.
  unfold halve_all. revert st; induction tbl as [|x t IH]; intros st; simpl; [apply same_shape_refl|].
  eapply same_shape_trans; [|apply IH]. apply same_shape_upd. reflexivity.
Qed.

Lemma halve_all_at tbl : forall st x, NoDup tbl ->
  entry_at (halve_all st tbl) x =
  if in_dec Nat.eq_dec x tbl then
    (if Nat.ltb x (length st) then halve_entry (entry_at st x) else entry_at st x)
  else entry_at st x.
Proof.
  unfold halve_all. induction tbl as [|y t IH]; intros st x Hnd; simpl; auto.
  inversion Hnd as [|? ? Hny Hnd']; subst.
  rewrite IH by auto. rewrite upd_length.
  destruct (Nat.eq_dec y x) as [->|Hne].
  - destruct (in_dec Nat.eq_dec x t); [tauto|].
    destruct (Nat.ltb_spec x (length st)).
    + rewrite entry_at_upd_same; auto.
    + rewrite upd_beyond; auto.
  - rewrite entry_at_upd_other by auto.
    destruct (in_dec Nat.eq_dec x t); auto.
Qed.

Lemma entry_at_beyond st i : (length st <= i)%nat -> entry_at st i = dummy_entry.
Proof. intros; apply nth_overflow; auto. Qed.

Lemma halve_all_perm t1 t2 st : NoDup t1 -> Permutation t1 t2 -> halve_all st t1 = halve_all st t2.
Proof.
  intros Hnd P.
  assert (Hnd2 : NoDup t2) by (eapply Permutation_NoDup; eauto).
  apply (nth_ext _ _ dummy_entry dummy_entry).
  - destruct (halve_all_shape t1 st), (halve_all_shape t2 st). congruence.
  - intros i _. change (entry_at (halve_all st t1) i = entry_at (halve_all st t2) i).
    rewrite !halve_all_at by auto.
    destruct (in_dec Nat.eq_dec i t1) as [H1|H1], (in_dec Nat.eq_dec i t2) as [H2|H2]; auto.
    + exfalso; apply H2; eapply Permutation_in; eauto.
    + exfalso; apply H1; eapply Permutation_in; [apply Permutation_sym|]; eauto.
Qed.

(* ---------- the sort ---------- *)

Definition desc_sorted (st : list entry) (l : list nat) : Prop :=
  StronglySorted (fun a b => count_of st b <= count_of st a) l.
Definition asc_sorted (st : list entry) (l : list nat) : Prop :=
  StronglySorted (fun a b => count_of st a <= count_of st b) l.

Lemma insert_desc_perm st x l : Permutation (x :: l) (insert_desc st x l).
Proof.
  induction l as [|y t IH]; simpl; auto.
  destruct (count_of st y <? count_of st x); auto.
  eapply Permutation_trans; [apply perm_swap|]. auto.
Qed.

Lemma sort_desc_perm st l : Permutation l (sort_desc st l).
Proof.
  unfold sort_desc. induction l as [|x t IH]; simpl; auto.
  eapply Permutation_trans; [|apply insert_desc_perm]. auto.
Qed.

Lemma insert_desc_sorted st x l : desc_sorted st l -> desc_sorted st (insert_desc st x l).
Proof.
  unfold desc_sorted. induction l as [|y t IH]; simpl; intros H.
  - constructor; constructor.
  - inversion H as [|? ? Hs Hall]; subst.
    destruct (N.ltb_spec (count_of st y) (count_of st x)).
    + constructor; auto. constructor; [lia|].
      rewrite Forall_forall in *. intros z Hz. specialize (Hall z Hz). lia.
    + constructor; auto.
      rewrite Forall_forall in *. intros z Hz.
      apply (Permutation_in _ (Permutation_sym (insert_desc_perm st x t))) in Hz.
      destruct Hz as [<-|Hz]; auto.
Qed.

Lemma sort_desc_sorted st l : desc_sorted st (sort_desc st l).
Proof.
  unfold sort_desc. induction l; simpl; [constructor|]. apply insert_desc_sorted; auto.
Qed.

Lemma strongly_sorted_app {A} (R : A -> A -> Prop) l1 l2 :
  StronglySorted R l1 -> StronglySorted R l2 -> (forall a b, In a l1 -> In b l2 -> R a b) ->
  StronglySorted R (l1 ++ l2).
Proof.
  induction l1 as [|x t IH]; simpl; intros H1 H2 H; auto.
  inversion H1; subst. constructor; [apply IH; auto|].
  rewrite Forall_forall in *. intros y Hy. apply in_app_or in Hy. destruct Hy; auto.
Qed.

Lemma desc_rev_asc st l : desc_sorted st l -> asc_sorted st (rev l).
Proof.
  unfold desc_sorted, asc_sorted. induction l as [|x t IH]; simpl; intros H; [constructor|].
  inversion H as [|? ? Hs Hall]; subst. apply strongly_sorted_app; auto.
  - constructor; constructor.
  - intros a b Ha [<-|[]]. rewrite Forall_forall in Hall. apply Hall. apply in_rev; auto.
Qed.

(* ---------- strip_min on an ascending table ---------- *)

Definition keys_of (st : list entry) (l : list nat) : list N := map (fun x => e_key (entry_at st x)) l.

Lemma strip_min_asc st minc l : forall m,
  asc_sorted st l -> (forall x, In x l -> minc <= count_of st x) ->
  strip_min st minc l m =
  (filter (fun x => negb (count_of st x =? minc)) l,
   map_dels (keys_of st (filter (fun x => count_of st x =? minc) l)) m).
Proof.
  induction l as [|x t IH]; intros m Hs Hmin; simpl; auto.
  inversion Hs as [|? ? Hs' Hall]; subst.
  destruct (N.eqb_spec (count_of st x) minc) as [E|Hne]; simpl.
  - rewrite IH; auto. intros; apply Hmin; right; auto.
  - assert (Hgt : forall y, In y t -> count_of st y =? minc = false).
    { intros y Hy. rewrite Forall_forall in Hall. specialize (Hall y Hy).
      specialize (Hmin x (or_introl eq_refl)). apply N.eqb_neq. lia. }
    f_equal.
    + f_equal. clear - Hgt. induction t as [|y t IH]; simpl; auto.
      rewrite Hgt by (left; auto). simpl. f_equal. apply IH. intros; apply Hgt; right; auto.
    + replace (filter (fun x0 => count_of st x0 =? minc) t) with (@nil nat); auto.
      clear - Hgt. induction t as [|y t IH]; simpl; auto.
      rewrite Hgt by (left; auto). apply IH. intros; apply Hgt; right; auto.
Qed.

Lemma asc_head_min st x t : asc_sorted st (x :: t) -> forall y, In y (x :: t) -> count_of st x <= count_of st y.
Proof.
  intros H y [<-|Hy]; [lia|]. inversion H as [|? ? _ Hall]; subst.
  rewrite Forall_forall in Hall. auto.
Qed.

(* removeOldEntries, described without the sort: minc is the least count in the
   table, everything with that count goes, the rest is kept (in some order) and halved *)
Lemma remove_old_sorted_spec c s :
  desc_sorted (c_store c) s -> s <> [] ->
  exists lst minc,
    In lst s /\ minc = count_of (c_store c) lst /\
    (forall x, In x s -> minc <= count_of (c_store c) x) /\
    remove_old_entries_sorted c s =
    Ok (mkCache (halve_all (c_store c) (rev (filter (fun x => negb (count_of (c_store c) x =? minc)) (rev s))))
                (rev (filter (fun x => negb (count_of (c_store c) x =? minc)) (rev s)))
                (map_dels (keys_of (c_store c) (filter (fun x => count_of (c_store c) x =? minc) (rev s))) (c_map c))
                (c_cap c) (c_hits c) (c_misses c)).
Proof.
  intros Hs Hne. unfold remove_old_entries_sorted.
  pose proof (desc_rev_asc _ _ Hs) as Ha.
  destruct (rev s) as [|lst r] eqn:E.
  - exfalso. apply Hne. rewrite <- (rev_involutive s), E. auto.
  - exists lst, (count_of (c_store c) lst).
    assert (Hin : forall x, In x s <-> In x (lst :: r)) by (intros; rewrite <- E; apply in_rev).
    split; [apply Hin; left; auto|]. split; auto.
    assert (Hmin : forall x, In x (lst :: r) -> count_of (c_store c) lst <= count_of (c_store c) x)
      by (apply asc_head_min; auto).
    split; [intros x Hx; apply Hmin, Hin; auto|].
    rewrite strip_min_asc; auto.
Qed.

(* ---------- evicted_set_order_independent ---------- *)

Lemma min_count_unique st s1 s2 l1 l2 :
  Permutation s1 s2 ->
  In l1 s1 -> (forall x, In x s1 -> count_of st l1 <= count_of st x) ->
  In l2 s2 -> (forall x, In x s2 -> count_of st l2 <= count_of st x) ->
  count_of st l1 = count_of st l2.
Proof.
  intros P H1 M1 H2 M2.
  assert (count_of st l1 <= count_of st l2) by (apply M1; eapply Permutation_in; [apply Permutation_sym|]; eauto).
  assert (count_of st l2 <= count_of st l1) by (apply M2; eapply Permutation_in; eauto).
  lia.
Qed.

Lemma filter_perm {A} (f : A -> bool) l1 l2 : Permutation l1 l2 -> Permutation (filter f l1) (filter f l2).
Proof.
  induction 1; simpl; auto.
  - destruct (f x); auto.
  - destruct (f x), (f y); auto. apply perm_swap.
  - eapply Permutation_trans; eauto.
Qed.

Theorem evicted_set_order_independent : forall c s1 s2 c1 c2,
  NoDup (c_table c) ->
  Permutation (c_table c) s1 -> desc_sorted (c_store c) s1 ->
  Permutation (c_table c) s2 -> desc_sorted (c_store c) s2 ->
  remove_old_entries_sorted c s1 = Ok c1 ->
  remove_old_entries_sorted c s2 = Ok c2 ->
  c_map c1 = c_map c2 /\ c_store c1 = c_store c2 /\ Permutation (c_table c1) (c_table c2) /\
  c_cap c1 = c_cap c2 /\ c_hits c1 = c_hits c2 /\ c_misses c1 = c_misses c2.
Proof.
  intros c s1 s2 c1 c2 Hnd P1 S1 P2 S2 R1 R2.
  assert (P : Permutation s1 s2) by (eapply Permutation_trans; [apply Permutation_sym|]; eauto).
  destruct s1 as [|a1 t1].
  { unfold remove_old_entries_sorted in R1; simpl in R1; discriminate. }
  destruct s2 as [|a2 t2].
  { unfold remove_old_entries_sorted in R2; simpl in R2; discriminate. }
  destruct (remove_old_sorted_spec c (a1 :: t1) S1 ltac:(discriminate)) as (l1 & m1 & I1 & E1 & M1 & Q1).
  destruct (remove_old_sorted_spec c (a2 :: t2) S2 ltac:(discriminate)) as (l2 & m2 & I2 & E2 & M2 & Q2).
  assert (Hm : m1 = m2).
  { rewrite E1, E2. eapply min_count_unique; eauto; intros; rewrite <- ?E1, <- ?E2; auto. }
  rewrite <- Hm in Q2. clear E2 Hm M2. rewrite Q1 in R1. rewrite Q2 in R2.
  injection R1 as R1; injection R2 as R2; rewrite <- R1, <- R2; simpl.
  assert (Pr : Permutation (rev (a1 :: t1)) (rev (a2 :: t2))).
  { eapply Permutation_trans; [apply Permutation_sym, Permutation_rev|].
    eapply Permutation_trans; [apply P|apply Permutation_rev]. }
  assert (Pk : Permutation (rev (filter (fun x => negb (count_of (c_store c) x =? m1)) (rev (a1 :: t1))))
                           (rev (filter (fun x => negb (count_of (c_store c) x =? m1)) (rev (a2 :: t2))))).
  { eapply Permutation_trans; [apply Permutation_sym, Permutation_rev|].
    eapply Permutation_trans; [|apply Permutation_rev]. apply filter_perm; auto. }
  split; [|split; [|split; auto]].
  - apply map_dels_perm. unfold keys_of. apply Permutation_map. apply filter_perm; auto.
  - apply halve_all_perm; auto.
    eapply Permutation_NoDup; [apply Permutation_rev|].
    apply NoDup_filter. eapply Permutation_NoDup; [|apply Hnd].
    eapply Permutation_trans; [apply P1|apply Permutation_rev].
Qed.

(* the model's own choice is one of the admissible results of the sort *)
Lemma model_sort_admissible c :
  Permutation (c_table c) (sort_desc (c_store c) (c_table c)) /\
  desc_sorted (c_store c) (sort_desc (c_store c) (c_table c)).
Proof. split; [apply sort_desc_perm | apply sort_desc_sorted]. Qed.

(* ---------- well-formed caches ---------- *)

Record wf_cache (c : cache) : Prop := {
  wf_get_in : forall k eid, map_get k (c_map c) = Some eid ->
    In eid (c_table c) /\ e_key (entry_at (c_store c) eid) = k;
  wf_in_get : forall eid, In eid (c_table c) ->
    (eid < length (c_store c))%nat /\
    map_get (e_key (entry_at (c_store c) eid)) (c_map c) = Some eid;
  wf_nodup : NoDup (c_table c);
  wf_keys : NoDup (map fst (c_map c));
  wf_cap : (length (c_table c) <= c_cap c)%nat
}.

Lemma wf_new size : wf_cache (new_file_cache size).
Proof.
  constructor; simpl; try (intros; discriminate); try tauto; try constructor; lia.
Qed.

(* changing anything but the keys of the stored entries *)
Definition same_keys (st st' : list entry) : Prop :=
  length st' = length st /\ forall i, e_key (entry_at st' i) = e_key (entry_at st i).

Lemma same_shape_keys st st' : same_shape st st' -> same_keys st st'.
Proof. intros [HL HS]. split; auto. intros i. specialize (HS i). unfold shape in HS. congruence. Qed.

Lemma wf_same_keys c st' h m :
  wf_cache c -> same_keys (c_store c) st' ->
  wf_cache (mkCache st' (c_table c) (c_map c) (c_cap c) h m).
Proof.
  intros W [HL Hk]. destruct W as [G I ND K C].
  constructor; simpl; auto.
  - intros k eid H. rewrite Hk. auto.
  - intros eid H. rewrite Hk, HL. auto.
Qed.

Lemma wf_counters c h m :
  wf_cache c -> wf_cache (mkCache (c_store c) (c_table c) (c_map c) (c_cap c) h m).
Proof. intros [G I ND K C]. constructor; simpl; auto. Qed.

Lemma NoDup_app_intro_r (l : list nat) x : NoDup l -> ~ In x l -> NoDup (l ++ [x]).
Proof.
  intros ND Hn. induction l as [|y t IH]; simpl; [constructor; auto; constructor|].
  inversion ND; subst. constructor.
  - intros H. apply in_app_or in H. destruct H as [H|[<-|[]]]; auto. apply Hn; left; auto.
  - apply IH; auto. intros H; apply Hn; right; auto.
Qed.

(* Evict *)
Lemma wf_evict c k : wf_cache c -> wf_cache (evict c k).
Proof.
  intros W. unfold evict. destruct (map_get k (c_map c)) as [eid|] eqn:E; auto.
  destruct W as [G I ND K C]. destruct (G _ _ E) as [Hin Hkey].
  constructor; simpl.
  - intros k' eid' H. apply map_get_del_some in H. destruct H as [Hne H].
    destruct (G _ _ H) as [Hin' Hkey']. split; auto.
    apply swap_remove_in; auto. split; auto. intros ->. congruence.
  - intros eid' H. apply swap_remove_in in H; auto. destruct H as [H Hne].
    destruct (I _ H) as [HL HG]. split; auto.
    rewrite map_get_del_other; auto. intros Heq. rewrite Heq in HG. congruence.
  - apply swap_remove_nodup; auto.
  - apply map_del_nodup; auto.
  - pose proof (swap_remove_length_le eid (c_table c)). lia.
Qed.

Lemma evict_no_key c k : wf_cache c ->
  map_get k (c_map (evict c k)) = None /\
  forall eid, In eid (c_table (evict c k)) -> e_key (entry_at (c_store (evict c k)) eid) <> k.
Proof.
  intros W. pose proof (wf_evict c k W) as W'.
  assert (H : map_get k (c_map (evict c k)) = None).
  { unfold evict. destruct (map_get k (c_map c)) eqn:E; simpl; auto. apply map_get_del_same. }
  split; auto. intros eid Hin Hk. destruct (wf_in_get _ W' _ Hin) as [_ HG]. congruence.
Qed.

Lemma evict_table_incl c k eid : wf_cache c -> In eid (c_table (evict c k)) -> In eid (c_table c).
Proof.
  intros W. unfold evict. destruct (map_get k (c_map c)); simpl; auto.
  intros H. apply swap_remove_in in H; [tauto|apply W].
Qed.

Lemma evict_store c k : c_store (evict c k) = c_store c.
Proof. unfold evict. destruct (map_get k (c_map c)); auto. Qed.

Lemma evict_cap c k : c_cap (evict c k) = c_cap c.
Proof. unfold evict. destruct (map_get k (c_map c)); auto. Qed.

(* removeOldEntries on a full, non-empty table *)
Lemma wf_remove_old c : wf_cache c -> c_table c <> [] ->
  exists c1, remove_old_entries c = Ok c1 /\ wf_cache c1 /\
    (length (c_table c1) < length (c_table c))%nat /\ c_cap c1 = c_cap c /\
    same_shape (c_store c) (c_store c1) /\
    (forall eid, In eid (c_table c1) -> In eid (c_table c)) /\
    (forall k, map_get k (c_map c1) = None \/ map_get k (c_map c1) = map_get k (c_map c)).
Proof.
  intros W Hne. unfold remove_old_entries.
  destruct (model_sort_admissible c) as [P S].
  set (s := sort_desc (c_store c) (c_table c)) in *.
  assert (Hsne : s <> []).
  { intros E. rewrite E in P. apply Permutation_sym, Permutation_nil in P. auto. }
  destruct (remove_old_sorted_spec c s S Hsne) as (lst & minc & Hl & Em & Hmin & Q).
  rewrite Q. eexists; split; [reflexivity|].
  set (keepf := fun x => negb (count_of (c_store c) x =? minc)) in *.
  set (remf := fun x => count_of (c_store c) x =? minc) in *.
  destruct W as [G I ND K C].
  assert (Hins : forall x, In x (rev s) <-> In x (c_table c)).
  { intros x. rewrite <- in_rev. split; intros H; [eapply Permutation_in; [apply Permutation_sym|]|eapply Permutation_in]; eauto. }
  assert (Hkeep : forall x, In x (rev (filter keepf (rev s))) <-> In x (c_table c) /\ keepf x = true).
  { intros x. rewrite <- in_rev, filter_In, Hins. tauto. }
  assert (NDs : NoDup (rev s)).
  { eapply Permutation_NoDup; [|apply ND]. eapply Permutation_trans; [apply P|apply Permutation_rev]. }
  assert (Hshape : same_shape (c_store c) (halve_all (c_store c) (rev (filter keepf (rev s)))))
    by apply halve_all_shape.
  assert (Hk : forall i, e_key (entry_at (halve_all (c_store c) (rev (filter keepf (rev s)))) i)
                        = e_key (entry_at (c_store c) i)).
  { intros i. destruct Hshape as [_ HS]. specialize (HS i). unfold shape in HS. congruence. }
  assert (Hdel : forall k, map_get k (map_dels (keys_of (c_store c) (filter remf (rev s))) (c_map c)) =
                 if existsb (N.eqb k) (keys_of (c_store c) (filter remf (rev s))) then None else map_get k (c_map c))
    by (intros; apply map_get_dels).
  split; [|split; [|split; [|split; [|split]]]]; simpl; auto.
  - constructor; simpl.
    + intros k eid H. rewrite Hdel in H.
      destruct (existsb (N.eqb k) (keys_of (c_store c) (filter remf (rev s)))) eqn:Ex; [discriminate|].
      destruct (G _ _ H) as [Hin Hkey]. rewrite Hk. split; auto.
      apply Hkeep. split; auto.
      destruct (keepf eid) eqn:Ek; auto. exfalso.
      assert (existsb (N.eqb k) (keys_of (c_store c) (filter remf (rev s))) = true); [|congruence].
      apply existsb_exists. exists k. split; [|apply N.eqb_refl].
      unfold keys_of. apply in_map_iff. exists eid. split; auto.
      apply filter_In. split; [apply Hins; auto|]. unfold keepf, remf in *. destruct (count_of (c_store c) eid =? minc); auto; discriminate.
    + intros eid H. apply Hkeep in H. destruct H as [Hin Hkp].
      destruct (I _ Hin) as [HL HG]. destruct Hshape as [HLen _]. rewrite HLen, Hk. split; auto.
      rewrite Hdel.
      destruct (existsb (N.eqb (e_key (entry_at (c_store c) eid))) (keys_of (c_store c) (filter remf (rev s)))) eqn:Ex; auto.
      exfalso. apply existsb_exists in Ex. destruct Ex as (k' & Hin' & Heq). apply N.eqb_eq in Heq. subst k'.
      unfold keys_of in Hin'. apply in_map_iff in Hin'. destruct Hin' as (y & Hy & Hyin).
      apply filter_In in Hyin. destruct Hyin as [Hyin Hrem].
      apply Hins in Hyin. destruct (I _ Hyin) as [_ HGy]. rewrite Hy in HGy.
      assert (y = eid) by congruence. subst y.
      unfold keepf, remf in *. rewrite Hrem in Hkp. discriminate.
    + apply NoDup_rev. apply NoDup_filter. auto.
    + clear - K. generalize (keys_of (c_store c) (filter remf (rev s))). intros ks.
      unfold map_dels. revert K. generalize (c_map c). induction ks as [|a t IH]; intros m K; simpl; auto.
      apply IH. apply map_del_nodup; auto.
    + assert (length (rev (filter keepf (rev s))) <= length (c_table c))%nat; [|lia].
      rewrite rev_length. eapply Nat.le_trans; [apply filter_len_le|].
      rewrite rev_length. rewrite (Permutation_length P). auto.
  - (* strictly shorter: lst is removed *)
    rewrite rev_length.
    assert (Hlen : length (rev s) = length (c_table c)) by (rewrite rev_length; symmetry; apply Permutation_length; auto).
    rewrite <- Hlen.
    assert (Hl' : In lst (rev s)) by (apply in_rev in Hl; auto).
    clear - Hl' Em. induction (rev s) as [|x t IH]; simpl in *; [tauto|].
    destruct Hl' as [->|Hl'].
    + unfold keepf. rewrite <- Em, N.eqb_refl. simpl.
      pose proof (filter_len_le (fun x => negb (count_of (c_store c) x =? minc)) t). lia.
    + specialize (IH Hl'). destruct (keepf x); simpl; lia.
  - intros eid H. apply Hkeep in H. tauto.
  - intros k. rewrite Hdel. destruct (existsb _ _); auto.
Qed.

(* Put *)
Lemma entry_at_app_l st e i : (i < length st)%nat -> entry_at (st ++ [e]) i = entry_at st i.
Proof. intros; apply app_nth1; auto. Qed.
Lemma entry_at_app_new st e : entry_at (st ++ [e]) (length st) = e.
Proof. unfold entry_at. rewrite app_nth2, Nat.sub_diag; auto. Qed.

Lemma wf_put c k o ls : wf_cache c -> (1 <= c_cap c)%nat ->
  exists c' eid, put c k o ls = Ok c' /\ wf_cache c' /\ c_cap c' = c_cap c /\
    map_get k (c_map c') = Some eid /\ entry_at (c_store c') eid = mkEntry 1 k o ls /\
    (forall eid', In eid' (c_table c') -> eid' <> eid ->
       In eid' (c_table c) /\ shape (entry_at (c_store c') eid') = shape (entry_at (c_store c) eid')).
Proof.
  intros W Hcap. unfold put.
  destruct (map_get k (c_map c)) as [eid|] eqn:E.
  - exists (mkCache (upd eid (mkEntry 1 k o ls) (c_store c)) (c_table c) (c_map c) (c_cap c) (c_hits c) (c_misses c)), eid.
    destruct (wf_get_in _ W _ _ E) as [Hin Hkey].
    destruct (wf_in_get _ W _ Hin) as [HL _].
    split; [reflexivity|]. split; [|split; [auto|split; [auto|split]]]; simpl.
    + apply wf_same_keys; auto. split; [apply upd_length|]. intros i.
      destruct (Nat.eq_dec eid i) as [<-|Hne].
      * rewrite entry_at_upd_same; auto.
      * rewrite entry_at_upd_other; auto.
    + apply entry_at_upd_same; auto.
    + intros eid' H Hne. split; auto. rewrite entry_at_upd_other; auto.
  - assert (H1 : exists c1, (if Nat.eqb (length (c_table c)) (c_cap c) then remove_old_entries c else Ok c) = Ok c1 /\
              wf_cache c1 /\ (length (c_table c1) < c_cap c)%nat /\ c_cap c1 = c_cap c /\
              same_shape (c_store c) (c_store c1) /\
              (forall eid, In eid (c_table c1) -> In eid (c_table c)) /\
              map_get k (c_map c1) = None).
    { destruct (Nat.eqb_spec (length (c_table c)) (c_cap c)) as [Heq|Hne].
      - assert (Hne : c_table c <> []) by (destruct (c_table c); simpl in *; [lia|discriminate]).
        destruct (wf_remove_old c W Hne) as (c1 & R & W1 & HL & HC & HS & HI & HM).
        exists c1. split; auto. split; auto. split; [lia|]. split; auto. split; auto. split; auto.
        destruct (HM k) as [H|H]; [auto|rewrite H; auto].
      - exists c. pose proof (wf_cap _ W). split; auto. split; auto. split; [lia|]. split; auto. split; [apply same_shape_refl|]. split; auto. }
    destruct H1 as (c1 & R & W1 & HL & HC & HS & HI & HM). rewrite R. cbn [bind].
    eexists; exists (length (c_store c1)). split; [reflexivity|].
    destruct W1 as [G I ND K C].
    assert (Hnew : ~ In (length (c_store c1)) (c_table c1)).
    { intros H. destruct (I _ H). lia. }
    split; [|split; [auto|split; [|split]]]; cbn [c_store c_table c_map c_cap c_hits c_misses].
    + constructor; cbn [c_store c_table c_map c_cap c_hits c_misses].
      * intros k' eid' H. destruct (N.eq_dec k' k) as [->|Hne].
        -- rewrite map_get_set_same in H. inversion H; subst. split; [apply in_or_app; right; left; auto|].
           rewrite entry_at_app_new; auto.
        -- rewrite map_get_set_other in H by auto. destruct (G _ _ H) as [Hin Hkey].
           split; [apply in_or_app; auto|]. destruct (I _ Hin). rewrite entry_at_app_l; auto.
      * intros eid' H. rewrite app_length; cbn [length]. apply in_app_or in H. destruct H as [H|[<-|[]]].
        -- destruct (I _ H) as [HLt HG]. split; [lia|]. rewrite entry_at_app_l by auto.
           rewrite map_get_set_other; auto. intros Heq. rewrite Heq in HG. congruence.
        -- split; [lia|]. rewrite entry_at_app_new. cbn [e_key]. apply map_get_set_same.
      * apply NoDup_app_intro_r; auto.
      * apply map_set_nodup; auto.
      * rewrite app_length; cbn [length]. lia.
    + apply map_get_set_same.
    + apply entry_at_app_new.
    + intros eid' H Hne. apply in_app_or in H. destruct H as [H|[<-|[]]]; [|congruence].
      split; auto. destruct (I _ H). rewrite entry_at_app_l by auto. destruct HS as [_ HS]. apply HS.
Qed.

(* Get *)
Lemma wf_get c h fn o c' h' r : wf_cache c -> get c h fn o = (c', h', r) ->
  wf_cache c' /\ c_cap c' = c_cap c /\ c_table c' = c_table c /\ c_map c' = c_map c /\
  same_shape (c_store c) (c_store c').
Proof.
  intros W. unfold get.
  destruct (map_get (key fn) (c_map c)) as [eid|] eqn:E.
  - destruct (e_opts (entry_at (c_store c) eid) =? o).
    + intros H; inversion H; subst; clear H. simpl.
      assert (HS : same_shape (c_store c) (upd eid
                 (mkEntry (e_count (entry_at (c_store c) eid) + 1) (e_key (entry_at (c_store c) eid))
                          (e_opts (entry_at (c_store c) eid)) (e_lines (entry_at (c_store c) eid))) (c_store c)))
        by (apply same_shape_upd; reflexivity).
      split; [apply wf_same_keys; auto; apply same_shape_keys; auto|]. auto.
    + intros H; inversion H; subst; clear H. simpl.
      split; [apply wf_counters; auto|]. repeat split; auto.
  - intros H; inversion H; subst; clear H. simpl.
    split; [apply wf_counters; auto|]. repeat split; auto.
Qed.
