(* Whole histories: under the protocol guard the machine with the cache shows
   exactly what the machine without a cache (nothing is ever Put) shows. *)
From PV Require Import Lib.Bytes Model.FileCache Spec.FreshLoad
  Proofs.FileCacheLists Proofs.FileCacheWf Proofs.FileCacheInv Proofs.FileCache.
From Coq Require Import Arith.
Open Scope N_scope.
Arguments map_set : simpl never.

Definition no_mk (k : N) : bool := false.

Section Sim.
Variable convert : str -> N -> list lval.
Variable is_mk : N -> bool.

(* the Line objects a cache-less Load creates *)
Definition fresh_lines (disk : list (N * str)) (fn : fname) (o : N) : option (list line) :=
  match map_get (key fn) disk with
  | None => None
  | Some raw => if (is_empty raw && has_opt o NotEmpty)%bool then None
                else Some (map (new_line fn) (convert raw o))
  end.

(* "res is what a cache-less Load does to heap, views, disk and pending of s" *)
Definition load_like (s : state) (fn : fname) (o : N) (res : FileCache.res (state * option nat)) : Prop :=
  match fresh_lines (st_disk s) fn o with
  | None =>
    if has_opt o MustSucceed then res = Stop Fatal
    else exists c, res = Ok (mkState c (st_heap s) (st_views s) (st_disk s) (st_pending s), None)
  | Some nl =>
    exists c, res = Ok (mkState c (st_heap s ++ nl)
                                (st_views s ++ [(fn, seq (length (st_heap s)) (length nl))])
                                (st_disk s) (st_pending s),
                        Some (length (st_views s)))
  end.

(* a Load that misses, as an equation *)
Lemma load_miss_eq mk s fn o :
  (forall eid, map_get (key fn) (c_map (st_cache s)) = Some eid ->
               e_opts (entry_at (c_store (st_cache s)) eid) <> o) ->
  exists c1, c_map c1 = c_map (st_cache s) /\ c_table c1 = c_table (st_cache s) /\
    c_store c1 = c_store (st_cache s) /\ c_cap c1 = c_cap (st_cache s) /\
  load convert mk s fn o =
  match fresh_lines (st_disk s) fn o with
  | None =>
    if has_opt o MustSucceed then Stop Fatal
    else Ok (mkState c1 (st_heap s) (st_views s) (st_disk s) (st_pending s), None)
  | Some nl =>
    bind (if mk (key fn) then put c1 (key fn) o (seq (length (st_heap s)) (length nl)) else Ok c1)
      (fun c2 => Ok (mkState c2 (st_heap s ++ nl)
                             (st_views s ++ [(fn, seq (length (st_heap s)) (length nl))])
                             (st_disk s) (st_pending s),
                     Some (length (st_views s))))
  end.
Proof.
  intros Hmiss. unfold load, fresh_lines.
  destruct (get (st_cache s) (st_heap s) fn o) as [[c1 h1] r0] eqn:G.
  destruct (get_spec _ _ _ _ _ _ _ G) as [(eid & E & Ho & _)|(-> & -> & _)].
  { exfalso. eapply Hmiss; eauto. }
  exists c1.
  assert (Hc1 : c_map c1 = c_map (st_cache s) /\ c_table c1 = c_table (st_cache s) /\
                c_store c1 = c_store (st_cache s) /\ c_cap c1 = c_cap (st_cache s)).
  { revert G. unfold get. destruct (map_get (key fn) (c_map (st_cache s))) as [eid|] eqn:E.
    - destruct (N.eqb_spec (e_opts (entry_at (c_store (st_cache s)) eid)) o) as [Ho|Ho].
      + exfalso. eapply Hmiss; eauto.
      + intros H; inversion H; subst; simpl; auto.
    - intros H; inversion H; subst; simpl; auto. }
  destruct Hc1 as (H1 & H2 & H3 & H4). repeat (split; auto).
  destruct (map_get (key fn) (st_disk s)) as [raw|]; auto.
  destruct (is_empty raw && has_opt o NotEmpty)%bool; auto.
  rewrite map_length. auto.
Qed.

(* the machine without a cache *)
Lemma nocache_load_like s fn o : c_map (st_cache s) = [] ->
  load_like s fn o (load convert no_mk s fn o) /\
  forall s' r, load convert no_mk s fn o = Ok (s', r) -> c_map (st_cache s') = [].
Proof.
  intros Hm.
  destruct (load_miss_eq no_mk s fn o) as (c1 & M1 & _ & _ & _ & EQ).
  { rewrite Hm. discriminate. }
  rewrite EQ. unfold load_like. destruct (fresh_lines (st_disk s) fn o) as [nl|]; simpl.
  - split; [eauto|]. intros s' r H; inversion H; subst; simpl. congruence.
  - destruct (has_opt o MustSucceed); split; auto; try discriminate; eauto.
    intros s' r H; inversion H; subst; simpl. congruence.
Qed.

(* the machine with the cache, in a reachable state, when the guard holds *)
Lemma guarded_load_like md cap disk s fn o : (1 <= cap)%nat -> reach convert is_mk md cap disk s ->
  guard_step s (OLoad fn o) = true ->
  load_like s fn o (load convert is_mk s fn o).
Proof.
  intros Hc R Gd. destruct (reach_Inv_cap _ _ _ _ _ _ Hc R) as [I _].
  assert (Miss : (forall eid, map_get (key fn) (c_map (st_cache s)) = Some eid ->
                    e_opts (entry_at (c_store (st_cache s)) eid) <> o) ->
                 load_like s fn o (load convert is_mk s fn o)).
  { intros Hmiss. destruct (load_miss_eq is_mk s fn o Hmiss) as (c1 & M1 & M2 & M3 & M4 & EQ).
    rewrite EQ. unfold load_like. destruct (fresh_lines (st_disk s) fn o) as [nl|].
    - destruct (is_mk (key fn)); [|simpl; eauto].
      assert (W1 : wf_cache c1).
      { destruct (inv_wf _ _ I) as [G IG ND K C]. constructor; rewrite ?M1, ?M2, ?M3, ?M4; auto. }
      destruct (wf_put c1 (key fn) o (seq (length (st_heap s)) (length nl)) W1) as (c2 & e0 & P & _).
      { rewrite M4. apply (inv_cap _ _ I). }
      rewrite P. simpl. eauto.
    - destruct (has_opt o MustSucceed); eauto. }
  destruct (map_get (key fn) (c_map (st_cache s))) as [eid|] eqn:E.
  2: { apply Miss. intros; congruence. }
  destruct (N.eq_dec (e_opts (entry_at (c_store (st_cache s)) eid)) o) as [Ho|Ho].
  2: { apply Miss. intros eid' H. congruence. }
  (* served by the cache: the entry is clean *)
  destruct (wf_get_in _ (inv_wf _ _ I) _ _ E) as [Hin Hkey].
  set (e := entry_at (c_store (st_cache s)) eid) in *.
  assert (Hclean : forall a, In a (e_lines e) -> is_modified (line_at (st_heap s) a) = false).
  { intros a Ha. destruct (is_modified (line_at (st_heap s) a)) eqn:M; auto. exfalso.
    destruct (inv_pending _ _ I _ _ Hin Ha M) as (v & fv & av & V & Hav & P).
    destruct (inv_first _ _ I _ Hin) as (u & fu & U & Hk).
    assert (v = u) by (eapply (inv_disj _ _ I); eauto). subst u.
    rewrite V in U. inversion U; subst fu.
    eapply guard_no_pending; eauto. fold e in Hk. congruence. }
  destruct (inv_clean _ _ I _ Hin Hclean) as (raw & R1 & R2 & R3). fold e in R1, R2, R3.
  rewrite Ho in R2, R3.
  unfold load_like, fresh_lines. rewrite <- Hkey, R1, R2.
  unfold load.
  destruct (get (st_cache s) (st_heap s) fn o) as [[c1 h1] r0] eqn:G.
  destruct (get_spec _ _ _ _ _ _ _ G) as [(eid' & E' & _ & -> & ->)|(_ & _ & [N|(eid' & E' & Ho')])];
    [|congruence|exfalso; assert (eid' = eid) by congruence; subst eid'; apply Ho'; exact Ho].
  assert (eid' = eid) by congruence. subst eid'. fold e.
  assert (Hcopy : map (fresh_copy fn (st_heap s)) (e_lines e) = map (new_line fn) (convert raw o)).
  { rewrite <- R3, map_map. apply map_ext. intros a. reflexivity. }
  exists c1. rewrite <- Hcopy, map_length. reflexivity.
Qed.

(* ---------- simulation ---------- *)

Definition sim (s1 s2 : state) : Prop :=
  st_heap s1 = st_heap s2 /\ st_views s1 = st_views s2 /\ st_disk s1 = st_disk s2 /\
  st_pending s1 = st_pending s2.

Lemma sim_view_lines s1 s2 v : sim s1 s2 -> view_lines s1 v = view_lines s2 v.
Proof. intros (H1 & H2 & _). unfold view_lines. rewrite H1, H2. auto. Qed.

Lemma load_like_sim s1 s2 fn o r1 r2 : sim s1 s2 -> load_like s1 fn o r1 -> load_like s2 fn o r2 ->
  match r1, r2 with
  | Ok (s1', v1), Ok (s2', v2) => sim s1' s2' /\ v1 = v2
  | Stop w1, Stop w2 => w1 = w2
  | _, _ => False
  end.
Proof.
  intros (H1 & H2 & H3 & H4). unfold load_like. rewrite H1, H2, H3, H4.
  destruct (fresh_lines (st_disk s2) fn o) as [nl|].
  - intros (c1 & ->) (c2 & ->). unfold sim; simpl. auto.
  - destruct (has_opt o MustSucceed).
    + intros -> ->. auto.
    + intros (c1 & ->) (c2 & ->). unfold sim; simpl. auto.
Qed.

(* SaveAutofixChanges: disk and report do not depend on the cache *)
Lemma save_lines_cache_free md fl c1 c2 d ls :
  snd (fst (save_lines md fl c1 d ls)) = snd (fst (save_lines md fl c2 d ls)) /\
  snd (save_lines md fl c1 d ls) = snd (save_lines md fl c2 d ls).
Proof.
  unfold save_lines. destruct (negb (opt_autofix md)); simpl; auto.
  rewrite !save_autofix_fold. simpl. auto.
Qed.

Lemma evicts_empty ks : forall c, c_map c = [] -> c_map (evicts ks c) = [].
Proof.
  unfold evicts. induction ks as [|k t IH]; intros c H; simpl; auto.
  apply IH. unfold evict. rewrite H. simpl. auto.
Qed.

Lemma save_lines_empty md fl c d ls : c_map c = [] -> c_map (fst (fst (save_lines md fl c d ls))) = [].
Proof.
  intros H. destruct (save_lines md fl c d ls) as [[c' d'] w] eqn:S.
  destruct (save_lines_spec _ _ _ _ _ _ _ _ S) as (ks & -> & _). simpl. apply evicts_empty; auto.
Qed.

(* one step *)
Lemma step_sim md cap disk s1 s2 o : (1 <= cap)%nat -> reach convert is_mk md cap disk s1 ->
  sim s1 s2 -> c_map (st_cache s2) = [] -> guard_step s1 o = true ->
  match step convert is_mk md s1 o, step convert no_mk md s2 o with
  | Ok (s1', ob1), Ok (s2', ob2) => sim s1' s2' /\ ob1 = ob2 /\ c_map (st_cache s2') = []
  | Stop w1, Stop w2 => w1 = w2
  | _, _ => False
  end.
Proof.
  intros Hc R S M Gd. destruct o as [fn opts|v i f|v fl|k x].
  - (* Load *)
    pose proof (guarded_load_like md cap disk s1 fn opts Hc R Gd) as L1.
    destruct (nocache_load_like s2 fn opts M) as [L2 M2].
    pose proof (load_like_sim _ _ _ _ _ _ S L1 L2) as LS.
    simpl. destruct (load convert is_mk s1 fn opts) as [[s1' r1]|w1];
      destruct (load convert no_mk s2 fn opts) as [[s2' r2]|w2]; simpl; auto.
    destruct LS as [S' ->]. split; auto. split; [|eapply M2; eauto].
    destruct r2; auto. rewrite (sim_view_lines _ _ _ S'). auto.
  - (* Fix *)
    destruct S as (H1 & H2 & H3 & H4). simpl. rewrite <- H1, <- H2, <- H4.
    destruct (nth_error (st_views s1) v) as [[fn addrs]|]; [|split; [unfold sim; auto|auto]].
    destruct (nth_error addrs i) as [a|]; [|split; [unfold sim; auto|auto]].
    destruct (fix_line md (line_at (st_heap s1) a) f) as [[l' acted]|w]; simpl; auto.
    split; [unfold sim; simpl; auto|auto].
  - (* Save *)
    simpl. rewrite <- (sim_view_lines _ _ v S).
    destruct (view_lines s1 v) as [[fn ls]|]; [|split; auto].
    destruct S as (H1 & H2 & H3 & H4).
    destruct (save_lines_cache_free md fl (st_cache s1) (st_cache s2) (st_disk s1) ls) as [E1 E2].
    pose proof (save_lines_empty md fl (st_cache s2) (st_disk s1) ls M) as E3.
    rewrite <- H3.
    destruct (save_lines md fl (st_cache s1) (st_disk s1) ls) as [[c1' d1'] w1].
    destruct (save_lines md fl (st_cache s2) (st_disk s1) ls) as [[c2' d2'] w2].
    simpl in *. subst. split; [unfold sim; simpl; rewrite H4; auto|auto].
  - (* Modify *)
    destruct S as (H1 & H2 & H3 & H4). simpl. rewrite H3.
    split; [unfold sim; simpl; auto|]. split; auto.
    unfold evict. rewrite M. simpl. auto.
Qed.

(* the guard along a history of the machine with the cache *)
Fixpoint guarded (md : mode) (s : state) (h : list op) : bool :=
  match h with
  | [] => true
  | o :: t =>
    guard_step s o &&
    match step convert is_mk md s o with
    | Ok (s', _) => guarded md s' t
    | Stop _ => true
    end
  end.

Lemma run_sim md cap disk h : (1 <= cap)%nat -> forall s1 s2,
  reach convert is_mk md cap disk s1 -> sim s1 s2 -> c_map (st_cache s2) = [] ->
  guarded md s1 h = true ->
  snd (fst (run convert is_mk md s1 h)) = snd (fst (run convert no_mk md s2 h)) /\
  snd (run convert is_mk md s1 h) = snd (run convert no_mk md s2 h) /\
  st_disk (fst (fst (run convert is_mk md s1 h))) = st_disk (fst (fst (run convert no_mk md s2 h))).
Proof.
  intros Hc. induction h as [|o t IH]; intros s1 s2 R S M G; simpl.
  - destruct S as (_ & _ & H3 & _). auto.
  - simpl in G. apply andb_true_iff in G. destruct G as [G1 G2].
    pose proof (step_sim md cap disk s1 s2 o Hc R S M G1) as SS.
    destruct (step convert is_mk md s1 o) as [[s1' ob1]|w1] eqn:E1;
      destruct (step convert no_mk md s2 o) as [[s2' ob2]|w2] eqn:E2; try tauto.
    + destruct SS as (S' & -> & M').
      assert (R' : reach convert is_mk md cap disk s1') by (econstructor; eauto).
      specialize (IH s1' s2' R' S' M' G2).
      destruct (run convert is_mk md s1' t) as [[a1 b1] c1].
      destruct (run convert no_mk md s2' t) as [[a2 b2] c2]. simpl in *.
      destruct IH as (I1 & I2 & I3). subst. auto.
    + subst. simpl. destruct S as (_ & _ & H3 & _). auto.
Qed.

Theorem cache_unobservable : forall md cap disk h, (1 <= cap)%nat ->
  guarded md (init_state cap disk) h = true ->
  snd (fst (run convert is_mk md (init_state cap disk) h)) =
  snd (fst (run convert no_mk md (init_state cap disk) h)) /\
  snd (run convert is_mk md (init_state cap disk) h) = snd (run convert no_mk md (init_state cap disk) h) /\
  st_disk (fst (fst (run convert is_mk md (init_state cap disk) h))) =
  st_disk (fst (fst (run convert no_mk md (init_state cap disk) h))).
Proof.
  intros md cap disk h Hc G. apply (run_sim md cap disk h Hc); auto.
  - apply reach_init.
  - unfold sim; auto.
Qed.

End Sim.
