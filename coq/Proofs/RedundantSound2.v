(* Soundness of the "earlier line flagged" verdicts with ':=' / '!=' lines that
   carry a '$' between the two lines (C17_verdict_sound_partial2).

   1. texts as lists of pieces (a byte other than '$', or a reference ${z}):
      tokenize is the inverse of flattening
   2. the invariant of the reference store: every stored text is such a list,
      and the references left in the text stored for z are reachable from z
      along [direct pre] (the texts of the lines executed so far)
   3. two stores that agree off x expand a text to the same result when the
      text's references lie in a set that is closed under [direct pre] and does
      not contain x
   4. the semantic argument of Proofs/RedundantSound.v again, with this in place
      of "the lines in between are plain" *)
From PV Require Import Lib.Bytes Model.Redundant Spec.MakeEval Spec.VerdictSound Spec.VerdictSound2
  Proofs.MakeEvalLemmas Proofs.Redundant Proofs.RedundantSound.

(* ---------- 1. pieces ---------- *)

Inductive piece := PB (b : N) | PR (z : str).

Definition rname_ok (z : str) : bool :=
  forallb (fun c => negb ((c =? 125) || (c =? 36) || (c =? 123) || (c =? 58))) z.
Definition piece_ok (pc : piece) : bool :=
  match pc with PB b => negb (b =? 36) | PR z => rname_ok z end.
Definition flat_piece (pc : piece) : str :=
  match pc with PB b => [b] | PR z => ref_text z end.
Definition flat (ps : list piece) : str := flat_map flat_piece ps.
Definition tok_of (pc : piece) : tok := match pc with PB b => TByte b | PR z => TRef z end.
Definition prefs (ps : list piece) : list var :=
  flat_map (fun pc => match pc with PB _ => [] | PR z => [z] end) ps.

Lemma tokenize_from_some acc c t :
  tokenize_from (Some acc) (c :: t) =
    if c =? 125 then TRef (rev acc) :: tokenize_from None t
    else if (c =? 36) || (c =? 123) || (c =? 58) then [TBad]
    else tokenize_from (Some (c :: acc)) t.
Proof. reflexivity. Qed.

Lemma tokenize_from_none c t :
  tokenize_from None (c :: t) =
    if c =? 36 then
      match t with
      | d :: t'' => if d =? 123 then tokenize_from (Some []) t'' else [TBad]
      | [] => [TBad]
      end
    else TByte c :: tokenize_from None t.
Proof. reflexivity. Qed.

Lemma tokenize_ref z : rname_ok z = true -> forall acc rest,
  tokenize_from (Some acc) (z ++ 125 :: rest) = TRef (rev acc ++ z) :: tokenize_from None rest.
Proof.
  induction z as [|c z IH]; intros H acc rest.
  - simpl app. rewrite tokenize_from_some. rewrite app_nil_r. reflexivity.
  - simpl in H. apply andb_true_iff in H as [Hc Hz]. apply negb_true_iff in Hc.
    apply orb_false_iff in Hc as [Hc H58]. apply orb_false_iff in Hc as [Hc H123].
    apply orb_false_iff in Hc as [H125 H36].
    simpl app. rewrite tokenize_from_some, H125, H36, H123, H58. simpl orb. cbv iota.
    rewrite (IH Hz). simpl rev. rewrite <- app_assoc. reflexivity.
Qed.

Lemma tokenize_flat ps :
  forallb piece_ok ps = true -> tokenize (flat ps) = map tok_of ps.
Proof.
  unfold tokenize. induction ps as [|[b|z] ps IH]; intro H; [reflexivity| |];
    simpl in H; apply andb_true_iff in H as [Hc Hps].
  - apply negb_true_iff in Hc. unfold flat. simpl flat_map. simpl app.
    rewrite tokenize_from_none, Hc. fold (flat ps). rewrite (IH Hps). reflexivity.
  - unfold flat. simpl flat_map. fold (flat ps). unfold ref_text.
    rewrite <- !app_assoc. simpl app.
    rewrite tokenize_from_none. simpl. rewrite (tokenize_ref z Hc). rewrite (IH Hps). reflexivity.
Qed.

Lemma flat_app a b : flat (a ++ b) = flat a ++ flat b.
Proof. unfold flat. apply flat_map_app. Qed.
Lemma prefs_app a b : prefs (a ++ b) = prefs a ++ prefs b.
Proof. unfold prefs. apply flat_map_app. Qed.

(* the text of a parsed value *)
Definition pieces_chunk (c : chunk) : list piece :=
  match c with Lit s => map PB s | Ref w => [PR w] end.
Definition pieces (v : value) : list piece := flat_map pieces_chunk v.

Lemma flat_bytes s : flat (map PB s) = s.
Proof. induction s as [|c s IH]; [reflexivity|]. unfold flat in *. simpl. rewrite IH. reflexivity. Qed.
Lemma prefs_bytes s : prefs (map PB s) = [].
Proof. induction s as [|c s IH]; [reflexivity|]. unfold prefs in *. simpl. exact IH. Qed.
Lemma ok_bytes s : no_dollar s = true -> forallb piece_ok (map PB s) = true.
Proof.
  induction s as [|c s IH]; intro H; [reflexivity|]. simpl in *.
  apply andb_true_iff in H as [H1 H2]. rewrite H1, (IH H2). reflexivity.
Qed.

Lemma render_pieces v : render v = flat (pieces v).
Proof.
  induction v as [|c v IH]; [reflexivity|].
  unfold render, pieces in *. simpl. rewrite flat_app, IH. f_equal.
  destruct c as [s|w]; simpl.
  - symmetry. apply flat_bytes.
  - unfold flat. simpl. rewrite app_nil_r. reflexivity.
Qed.

Lemma uses_pieces v : prefs (pieces v) = uses v.
Proof.
  induction v as [|c v IH]; [reflexivity|].
  unfold uses, pieces in *. simpl. rewrite prefs_app, IH. f_equal.
  destruct c as [s|w]; simpl; [apply prefs_bytes|reflexivity].
Qed.

Lemma name_ok_rname w : name_ok w = true -> rname_ok w = true.
Proof.
  unfold name_ok, rname_ok. destruct w as [|c0 w0]; [reflexivity|].
  intro H. apply forallb_forall. intros c Hin.
  rewrite forallb_forall in H. specialize (H c Hin).
  destruct (c =? 125), (c =? 36), (c =? 123), (c =? 58); simpl in *; congruence.
Qed.

Lemma pieces_ok v : forallb chunk_ok v = true -> forallb piece_ok (pieces v) = true.
Proof.
  induction v as [|c v IH]; intro H; [reflexivity|].
  simpl in H. apply andb_true_iff in H as [Hc Hv].
  unfold pieces in *. simpl. rewrite forallb_app, (IH Hv), andb_true_r.
  destruct c as [s|w]; simpl in *.
  - apply ok_bytes; exact Hc.
  - rewrite (name_ok_rname _ Hc). reflexivity.
Qed.

(* ---------- 2. the invariant of the reference store ---------- *)

Section Reach.
Variable D : var -> list var.

Inductive reachP : var -> var -> Prop :=
| r1 z w : In w (D z) -> reachP z w
| rS z m w : In m (D z) -> reachP m w -> reachP z w.

Lemma reachP_snoc y a b : reachP y a -> In b (D a) -> reachP y b.
Proof.
  induction 1 as [z w H|z m w H _ IH]; intro Hb.
  - eapply rS; [exact H|apply r1; exact Hb].
  - eapply rS; [exact H|apply IH; exact Hb].
Qed.

(* a text made of good pieces whose references satisfy Q *)
Definition good (Q : var -> Prop) (e : str) : Prop :=
  exists ps, e = flat ps /\ forallb piece_ok ps = true /\ forall w, In w (prefs ps) -> Q w.

Lemma good_nil Q : good Q [].
Proof. exists []. repeat split; auto. intros w []. Qed.

Lemma good_app Q a b : good Q a -> good Q b -> good Q (a ++ b).
Proof.
  intros (pa & Ea & Oa & Qa) (pb & Eb & Ob & Qb). exists (pa ++ pb).
  rewrite flat_app, forallb_app, Oa, Ob, Ea, Eb. repeat split; auto.
  intros w H. rewrite prefs_app in H. apply in_app_or in H as [H|H]; auto.
Qed.

Lemma good_byte Q b : (b =? 36) = false -> good Q [b].
Proof.
  intro H. exists [PB b]. simpl. rewrite H. repeat split; auto. intros w [].
Qed.

Lemma good_cons Q b e : (b =? 36) = false -> good Q e -> good Q (b :: e).
Proof. intros H He. change (b :: e) with ([b] ++ e). apply good_app; [apply good_byte; exact H|exact He]. Qed.

Lemma good_ref (Q : var -> Prop) z : rname_ok z = true -> Q z -> good Q (ref_text z).
Proof.
  intros H Hq. exists [PR z]. unfold flat. simpl. rewrite H, app_nil_r. repeat split; auto.
  intros w [E|[]]. subst w. exact Hq.
Qed.

Lemma good_weaken (Q Q' : var -> Prop) e : (forall w, Q w -> Q' w) -> good Q e -> good Q' e.
Proof. intros H (ps & E & O & HQ). exists ps. repeat split; auto. Qed.

Definition store_ok (st : store) : Prop :=
  forall z t, st z = Some (Txt t) -> good (reachP z) t.

Definition edge_closed (Q : var -> Prop) : Prop := forall a b, Q a -> In b (D a) -> Q b.

Lemma edge_closed_reach Q a b : edge_closed Q -> Q a -> reachP a b -> Q b.
Proof.
  intros Hc Ha H. induction H as [z w H|z m w H _ IH].
  - eapply Hc; eauto.
  - apply IH. eapply Hc; eauto.
Qed.

(* expanding good pieces in a good store gives good pieces *)
Definition expand_ok_at (fuel : nat) (st : store) (Q : var -> Prop) : Prop :=
  forall keep ps e,
    forallb piece_ok ps = true -> (forall w, In w (prefs ps) -> Q w) ->
    expand fuel keep st (map tok_of ps) = Some e -> good Q e.

Lemma expand_ok_step fuel st Q :
  store_ok st -> edge_closed Q ->
  match fuel with O => True | S f => expand_ok_at f st Q end ->
  expand_ok_at fuel st Q.
Proof.
  intros Hst Hcl Hrec keep ps.
  induction ps as [|[b|z] ps IH]; intros e Hok HQ He; simpl map in He; rewrite expand_unfold in He.
  - inversion He. apply good_nil.
  - simpl in Hok. apply andb_true_iff in Hok as [Hb Hok]. apply negb_true_iff in Hb.
    destruct (expand fuel keep st (map tok_of ps)) as [e'|] eqn:E; [|discriminate].
    inversion He; subst. apply good_cons; [exact Hb|]. apply (IH e'); auto.
  - simpl in Hok. apply andb_true_iff in Hok as [Hz Hok].
    assert (HQz : Q z) by (apply HQ; simpl; auto).
    assert (HQr : forall w, In w (prefs ps) -> Q w) by (intros w Hw; apply HQ; simpl; auto).
    destruct (st z) as [[t|]|] eqn:Ez; [|discriminate|].
    + destruct fuel as [|f]; [discriminate|].
      destruct (Hst z t Ez) as (pt & Et & Ot & Qt).
      rewrite Et, (tokenize_flat _ Ot) in He.
      destruct (expand f keep st (map tok_of pt)) as [e1|] eqn:E1; [|discriminate].
      destruct (expand (S f) keep st (map tok_of ps)) as [e2|] eqn:E2; [|discriminate].
      inversion He; subst. apply good_app.
      * apply (Hrec keep pt e1 Ot); [|exact E1].
        intros w Hw. eapply edge_closed_reach; eauto.
      * apply (IH e2); auto.
    + destruct (expand fuel keep st (map tok_of ps)) as [e'|] eqn:E; [|discriminate].
      inversion He; subst. apply good_app; [|apply (IH e'); auto].
      destruct keep; [apply good_ref; assumption|apply good_nil].
Qed.

Lemma expand_ok fuel st Q : store_ok st -> edge_closed Q -> expand_ok_at fuel st Q.
Proof.
  intros Hst Hcl. induction fuel as [|f IH]; apply expand_ok_step; auto.
Qed.

Lemma store_ok_supd st y t : store_ok st -> good (reachP y) t -> store_ok (supd st y (Txt t)).
Proof.
  intros Hst Hg z t' H. unfold supd in H. destruct (str_eqb y z) eqn:E.
  - apply str_eqb_spec in E. subst z. inversion H; subst. exact Hg.
  - apply Hst; exact H.
Qed.

Lemma store_ok_supd_err st y : store_ok st -> store_ok (supd st y Err).
Proof.
  intros Hst z t' H. unfold supd in H. destruct (str_eqb y z); [discriminate|]. apply Hst; exact H.
Qed.

Lemma reach_edge_closed y : edge_closed (reachP y).
Proof. intros a b Ha Hb. eapply reachP_snoc; eauto. Qed.

(* the text of an assignment whose references are recorded in D *)
Lemma good_text a :
  assign_ok a = true -> incl (uses (a_val a)) (D (a_var a)) ->
  good (reachP (a_var a)) (render (a_val a)).
Proof.
  intros Hok Hin. unfold assign_ok in Hok. apply andb_true_iff in Hok as [Hok _].
  apply andb_true_iff in Hok as [_ Hok].
  exists (pieces (a_val a)). split; [apply render_pieces|]. split; [apply pieces_ok; exact Hok|].
  intros w Hw. rewrite uses_pieces in Hw. apply r1. apply Hin. exact Hw.
Qed.

Lemma tokenize_text a :
  assign_ok a = true -> tokenize (render (a_val a)) = map tok_of (pieces (a_val a)).
Proof.
  intro Hok. unfold assign_ok in Hok. apply andb_true_iff in Hok as [Hok _].
  apply andb_true_iff in Hok as [_ Hok].
  rewrite render_pieces. apply tokenize_flat. apply pieces_ok; exact Hok.
Qed.

Lemma exec_assign_store_ok fuel st a :
  store_ok st -> assign_ok a = true -> incl (uses (a_val a)) (D (a_var a)) ->
  store_ok (exec_assign fuel st (spec_assign a)).
Proof.
  intros Hst Hok Hin.
  pose proof (good_text a Hok Hin) as Hg.
  assert (Hexp : forall keep st0 e, store_ok st0 ->
            expand fuel keep st0 (tokenize (render (a_val a))) = Some e -> good (reachP (a_var a)) e).
  { intros keep st0 e Hst0 He. rewrite (tokenize_text a Hok) in He.
    apply (expand_ok fuel st0 (reachP (a_var a)) Hst0 (reach_edge_closed _) keep (pieces (a_val a)) e); auto.
    - unfold assign_ok in Hok. apply andb_true_iff in Hok as [Hok _].
      apply andb_true_iff in Hok as [_ Hok]. apply pieces_ok; exact Hok.
    - intros w Hw. rewrite uses_pieces in Hw. apply r1. apply Hin. exact Hw. }
  unfold exec_assign, spec_assign. simpl.
  destruct (a_op a); simpl.
  - apply store_ok_supd; assumption.
  - destruct (expand fuel false st (tokenize (render (a_val a)))) as [e|] eqn:E.
    + apply store_ok_supd; [exact Hst|]. unfold sh_output.
      apply good_app; [apply good_byte; reflexivity|].
      apply good_app; [apply (Hexp false st e Hst E)|apply good_byte; reflexivity].
    + apply store_ok_supd_err; exact Hst.
  - match goal with |- context [expand fuel true ?s0 _] => set (st0 := s0) end.
    assert (Hst0 : store_ok st0).
    { unfold st0. destruct (st (a_var a)); [exact Hst|]. apply store_ok_supd; [exact Hst|apply good_nil]. }
    destruct (expand fuel true st0 (tokenize (render (a_val a)))) as [e|] eqn:E.
    + apply store_ok_supd; [exact Hst|]. apply (Hexp true st0 e Hst0 E).
    + apply store_ok_supd_err; exact Hst.
  - destruct (st (a_var a)) as [[old|]|] eqn:Eo; [|exact Hst|apply store_ok_supd; assumption].
    apply store_ok_supd; [exact Hst|].
    apply good_app; [exact (Hst _ _ Eo)|]. simpl app. apply good_cons; [reflexivity|exact Hg].
  - destruct (st (a_var a)); [exact Hst|apply store_ok_supd; assumption].
Qed.

Definition recorded (l : line) : Prop :=
  forall a, l_body l = Some a -> incl (uses (a_val a)) (D (a_var a)).

Lemma exec_line_store_ok fuel st l :
  store_ok st -> line_ok l = true -> recorded l -> store_ok (exec_line fuel st (spec_line l)).
Proof.
  intros Hst Hok Hrec. unfold spec_line, line_ok in *. destruct (l_body l) as [a|] eqn:Eb; simpl; [|exact Hst].
  apply exec_assign_store_ok; auto.
Qed.

Lemma exec_from_store_ok fuel ls : forall st,
  store_ok st -> forallb line_ok ls = true -> (forall l, In l ls -> recorded l) ->
  store_ok (exec_from fuel st (to_spec ls)).
Proof.
  induction ls as [|l ls IH]; intros st Hst Hok Hrec; simpl; [exact Hst|].
  simpl in Hok. apply andb_true_iff in Hok as [H1 H2].
  apply IH; [|exact H2|intros l' Hl'; apply Hrec; simpl; auto].
  apply exec_line_store_ok; auto. apply Hrec. simpl. auto.
Qed.

(* ---------- 3. stores that agree off x ---------- *)

Definition expand_agree_at (fuel : nat) (s1 s2 : store) (c : list var) : Prop :=
  forall keep ps, (forall w, In w (prefs ps) -> In w c) ->
    expand fuel keep s1 (map tok_of ps) = expand fuel keep s2 (map tok_of ps).

Lemma expand_agree_step fuel x s1 s2 c :
  store_ok s1 -> agree_off x s1 s2 -> edge_closed (fun w => In w c) -> ~ In x c ->
  match fuel with O => True | S f => expand_agree_at f s1 s2 c end ->
  expand_agree_at fuel s1 s2 c.
Proof.
  intros Hst Hag Hcl Hx Hrec keep ps.
  induction ps as [|[b|z] ps IH]; intro HQ; simpl map;
    rewrite (expand_unfold _ _ s1), (expand_unfold _ _ s2); [reflexivity| |].
  - rewrite IH; [reflexivity|exact HQ].
  - assert (Hz : In z c) by (apply HQ; simpl; auto).
    assert (Hr : forall w, In w (prefs ps) -> In w c) by (intros w Hw; apply HQ; simpl; auto).
    assert (Ezx : z <> x) by (intro E; subst z; contradiction).
    rewrite <- (Hag z Ezx). rewrite (IH Hr).
    destruct (s1 z) as [[t|]|] eqn:Ez; try reflexivity.
    destruct fuel as [|f]; [reflexivity|].
    destruct (Hst z t Ez) as (pt & Et & Ot & Qt).
    rewrite Et, (tokenize_flat _ Ot).
    rewrite (Hrec keep pt); [reflexivity|].
    intros w Hw. apply (edge_closed_reach (fun w => In w c) z w Hcl Hz). apply Qt; exact Hw.
Qed.

Lemma expand_agree fuel x s1 s2 c :
  store_ok s1 -> agree_off x s1 s2 -> edge_closed (fun w => In w c) -> ~ In x c ->
  expand_agree_at fuel s1 s2 c.
Proof.
  intros Hst Hag Hcl Hx. induction fuel as [|f IH]; eapply expand_agree_step; eauto.
Qed.

End Reach.

(* ---------- 4. the guard, and the semantic argument ---------- *)

Lemma mem_in w l : mem w l = true <-> In w l.
Proof.
  unfold mem. rewrite existsb_exists. split.
  - intros (y & Hy & E). apply str_eqb_spec in E. subst y. exact Hy.
  - intro H. exists w. split; [exact H|apply str_eqb_refl].
Qed.

Lemma closed_under_spec pre c :
  closed_under pre c = true -> edge_closed (direct pre) (fun w => In w c).
Proof.
  unfold closed_under, edge_closed. intros H a b Ha Hb.
  rewrite forallb_forall in H. apply mem_in. apply H. apply in_flat_map. exists a. split; assumption.
Qed.

Lemma reaches_false pre ws x :
  reaches pre ws x = false ->
  exists c, edge_closed (direct pre) (fun w => In w c) /\ incl ws c /\ ~ In x c.
Proof.
  unfold reaches. intro H. apply orb_false_iff in H as [H1 H2].
  apply negb_false_iff in H1. apply andb_true_iff in H1 as [Hc Hi].
  exists (reach pre ws). split; [apply closed_under_spec; exact Hc|]. split.
  - intros w Hw. rewrite forallb_forall in Hi. apply mem_in. apply Hi. exact Hw.
  - intro Hx. apply mem_in in Hx. rewrite Hx in H2. discriminate.
Qed.

Lemma direct_recorded pre l : In l pre -> recorded (direct pre) l.
Proof.
  intros Hin a Hb w Hw. unfold direct. apply in_flat_map. exists l. split; [exact Hin|].
  rewrite Hb, str_eqb_refl. exact Hw.
Qed.

Lemma empty_store_ok D : store_ok D empty_store.
Proof. intros z t H. discriminate. Qed.

(* the reference store after the lines pre holds, for every variable, a text
   whose references are reachable from it along the texts of pre *)
Lemma store_after_ok fuel pre :
  wf_program pre = true -> store_ok (direct pre) (store_after fuel pre).
Proof.
  intro Hwf. unfold store_after. apply exec_from_store_ok; [apply empty_store_ok|exact Hwf|].
  intros l Hl. apply direct_recorded; exact Hl.
Qed.

(* x cannot be reached from the variables ws along the texts of pre *)
Definition unreached (pre : program) (ws : list var) (x : var) : Prop :=
  exists c, edge_closed (direct pre) (fun w => In w c) /\ incl ws c /\ ~ In x c.

Definition indep_lineP (pre : program) (x : var) (l : line) : Prop :=
  forall a, l_body l = Some a -> is_eager (a_op a) = true ->
    no_dollar (render (a_val a)) = false -> unreached pre (uses (a_val a)) x.

Lemma indep_line_P pre x l : indep_line pre x l = true -> indep_lineP pre x l.
Proof.
  unfold indep_line. intros H a Hb He Hd. rewrite Hb, He, Hd in H. simpl in H.
  apply negb_true_iff in H. apply reaches_false; exact H.
Qed.

Lemma expand_indep fuel x pre s1 s2 a keep :
  store_ok (direct pre) s1 -> agree_off x s1 s2 -> assign_ok a = true ->
  unreached pre (uses (a_val a)) x ->
  expand fuel keep s1 (tokenize (render (a_val a))) = expand fuel keep s2 (tokenize (render (a_val a))).
Proof.
  intros Hst Hag Hok (c & Hcl & Hinc & Hx).
  rewrite (tokenize_text a Hok).
  apply (expand_agree (direct pre) fuel x s1 s2 c Hst Hag Hcl Hx).
  intros w Hw. rewrite uses_pieces in Hw. apply Hinc; exact Hw.
Qed.

Lemma agree_off_supd x s1 s2 y v : agree_off x s1 s2 -> agree_off x (supd s1 y v) (supd s2 y v).
Proof. intros H z Hz. unfold supd. destruct (str_eqb y z); [reflexivity|apply H; exact Hz]. Qed.

Lemma agree_off_supd_x x s1 s2 v : agree_off x s1 s2 -> ext_eq (supd s1 x v) (supd s2 x v).
Proof.
  intros H z. unfold supd. destruct (str_eqb x z) eqn:E; [reflexivity|].
  apply H. intro Ez. subst z. rewrite str_eqb_refl in E. discriminate.
Qed.

(* a line that does not assign x and does not reach x keeps the two stores equal off x *)
Lemma exec_line_indep fuel x pre s1 s2 l :
  store_ok (direct pre) s1 -> agree_off x s1 s2 -> line_ok l = true ->
  assigns x l = false -> indep_lineP pre x l ->
  agree_off x (exec_line fuel s1 (spec_line l)) (exec_line fuel s2 (spec_line l)).
Proof.
  intros Hst Hag Hok Hna Hind.
  destruct (eager_plain_line l) eqn:Hpl.
  { apply exec_line_agree_off; [rewrite splain_spec_line; exact Hpl|exact Hag]. }
  unfold indep_lineP in Hind. unfold eager_plain_line in Hpl. unfold assigns in Hna.
  unfold line_ok in Hok. unfold spec_line.
  destruct (l_body l) as [a|]; [|discriminate]. simpl option_map. simpl exec_line.
  destruct (is_eager (a_op a)) eqn:He; [|discriminate].
  specialize (Hind a eq_refl He Hpl).
  assert (Hyx : a_var a <> x).
  { intro E. rewrite E, str_eqb_refl in Hna. discriminate. }
  unfold exec_assign, spec_assign. simpl.
  destruct (a_op a); try discriminate; simpl.
  - (* != *)
    rewrite (expand_indep fuel x pre s1 s2 a false Hst Hag Hok Hind).
    destruct (expand fuel false s2 _); apply agree_off_supd; exact Hag.
  - (* := *)
    rewrite <- (Hag (a_var a) Hyx).
    match goal with |- context [expand fuel true ?s0 _] => set (st1 := s0) end.
    match goal with |- context [expand fuel true ?s0 ?t] =>
      lazymatch s0 with st1 => fail | _ => set (st2 := s0) end end.
    assert (Hst1 : store_ok (direct pre) st1).
    { unfold st1. destruct (s1 (a_var a)); [exact Hst|]. apply store_ok_supd; [exact Hst|apply good_nil]. }
    assert (Hag1 : agree_off x st1 st2).
    { unfold st1, st2. destruct (s1 (a_var a)); [exact Hag|apply agree_off_supd; exact Hag]. }
    rewrite (expand_indep fuel x pre st1 st2 a true Hst1 Hag1 Hok Hind).
    destruct (expand fuel true st2 _); apply agree_off_supd; exact Hag.
Qed.

Lemma wf_app a b : wf_program (a ++ b) = true -> wf_program a = true /\ wf_program b = true.
Proof. unfold wf_program. rewrite forallb_app. intro H. apply andb_true_iff in H. exact H. Qed.

Fixpoint indep_linesP (x : var) (pre : program) (ls : program) : Prop :=
  match ls with
  | [] => True
  | l :: r => indep_lineP pre x l /\ indep_linesP x (pre ++ [l]) r
  end.

Lemma indep_lines_P x : forall ls pre, indep_lines x pre ls = true -> indep_linesP x pre ls.
Proof.
  induction ls as [|l r IH]; intros pre H; simpl; [exact I|].
  simpl in H. apply andb_true_iff in H as [H1 H2]. split; [apply indep_line_P; exact H1|apply IH; exact H2].
Qed.

Lemma exec_from_indep fuel x : forall mid pre s2,
  wf_program (pre ++ mid) = true ->
  agree_off x (store_after fuel pre) s2 ->
  forallb (fun l => negb (assigns x l)) mid = true ->
  indep_linesP x pre mid ->
  agree_off x (store_after fuel (pre ++ mid)) (exec_from fuel s2 (to_spec mid)).
Proof.
  induction mid as [|l r IH]; intros pre s2 Hwf Hag Hna Hind.
  - rewrite app_nil_r. exact Hag.
  - simpl in Hna, Hind. apply andb_true_iff in Hna as [Hn1 Hn2]. destruct Hind as [Hi1 Hi2].
    apply negb_true_iff in Hn1.
    replace (pre ++ l :: r) with ((pre ++ [l]) ++ r) in * by (rewrite <- app_assoc; reflexivity).
    simpl to_spec. simpl exec_from. apply IH; auto.
    rewrite store_after_snoc.
    destruct (wf_app _ _ Hwf) as [Hwf1 _]. destruct (wf_app _ _ Hwf1) as [Hwf0 Hwfl].
    apply (exec_line_indep fuel x pre); auto.
    + apply store_after_ok; exact Hwf0.
    + simpl in Hwfl. apply andb_true_iff in Hwfl as [H _]. exact H.
Qed.

Lemma indep_lines_app x : forall a pre b,
  indep_lines x pre (a ++ b) = indep_lines x pre a && indep_lines x (pre ++ a) b.
Proof.
  induction a as [|l a IH]; intros pre b; simpl.
  - rewrite app_nil_r. reflexivity.
  - rewrite IH, <- app_assoc, andb_assoc. reflexivity.
Qed.

(* the flagged line lp is an earlier line, the lines in between do not reach x *)
Lemma bwd_core pre1 lp ap mid l post x :
  wf_program (pre1 ++ lp :: mid ++ l :: post) = true ->
  l_body lp = Some ap -> a_var ap = x ->
  forallb (fun l => negb (assigns x l)) mid = true ->
  indep_linesP x (pre1 ++ [lp]) mid ->
  (forall fuel,
     agree_off x (store_after fuel (pre1 ++ lp :: mid))
                 (exec_from fuel (store_after fuel pre1) (to_spec mid)) ->
     ext_eq (exec_line fuel (store_after fuel (pre1 ++ lp :: mid)) (spec_line l))
            (exec_line fuel (exec_from fuel (store_after fuel pre1) (to_spec mid)) (spec_line l))) ->
  deletable (pre1 ++ lp :: mid ++ l :: post) (length pre1).
Proof.
  intros Hwf Hlb Hlv Hmid Hind H. apply bwd_deletable. intro fuel.
  rewrite <- store_after_split. apply H.
  replace (pre1 ++ lp :: mid) with ((pre1 ++ [lp]) ++ mid) by (rewrite <- app_assoc; reflexivity).
  apply exec_from_indep; auto.
  - replace (pre1 ++ lp :: mid ++ l :: post) with (((pre1 ++ [lp]) ++ mid) ++ l :: post) in Hwf
      by (rewrite <- !app_assoc; reflexivity).
    apply wf_app in Hwf as [Hwf _]. exact Hwf.
  - rewrite store_after_snoc. intros y Hy. apply exec_line_other.
    rewrite sassigns_spec_line. unfold assigns. rewrite Hlb. apply str_eqb_neq. congruence.
Qed.

(* a '!=' line whose command does not reach x sets x to the same value in both stores *)
Lemma shell_line_indep fuel x pre s1 s2 a :
  store_ok (direct pre) s1 -> agree_off x s1 s2 -> assign_ok a = true ->
  a_var a = x -> a_op a = OpShell ->
  (no_dollar (render (a_val a)) = false -> unreached pre (uses (a_val a)) x) ->
  ext_eq (exec_assign fuel s1 (spec_assign a)) (exec_assign fuel s2 (spec_assign a)).
Proof.
  intros Hst Hag Hok Hv Ho Hind.
  assert (E : expand fuel false s1 (tokenize (render (a_val a))) =
              expand fuel false s2 (tokenize (render (a_val a)))).
  { destruct (no_dollar (render (a_val a))) eqn:Hd.
    - rewrite !expand_plain by exact Hd. reflexivity.
    - apply (expand_indep fuel x pre); auto. }
  unfold exec_assign, spec_assign. simpl. rewrite Ho. simpl. rewrite E, Hv.
  destruct (expand fuel false s2 _); apply agree_off_supd_x; exact Hag.
Qed.

(* what the verdicts of line l = p[length pre] need, semantically: for an earlier
   flagged line, that the lines after it up to l do not reach the variable *)
Definition bwd_ok (p : program) (vd : verdict) : Prop :=
  Nat.ltb (vd_flagged vd) (vd_because vd) = true ->
  indep_linesP (line_var p (vd_flagged vd)) (firstn (S (vd_flagged vd)) p)
               (firstn (vd_because vd - vd_flagged vd) (skipn (S (vd_flagged vd)) p)).
Definition fwd_ok (p : program) (vd : verdict) : Prop :=
  Nat.ltb (vd_flagged vd) (vd_because vd) = false ->
  match line_op p (vd_flagged vd) with
  | Some OpDefault => true
  | _ => negb (after_eval_ref (writes_of (line_var p (vd_flagged vd)) 0 (firstn (vd_flagged vd) p)))
  end = true.

Lemma indep_linesP_app x : forall a pre b,
  indep_linesP x pre (a ++ b) <-> indep_linesP x pre a /\ indep_linesP x (pre ++ a) b.
Proof.
  induction a as [|l a IH]; intros pre b; simpl.
  - rewrite app_nil_r. tauto.
  - rewrite IH, <- app_assoc. simpl. tauto.
Qed.

(* the same condition, in terms of the decomposition of the lines before l *)
Definition bwd_ok_at (pre : program) (l : line) (vd : verdict) : Prop :=
  forall a pre1 lp mid,
    l_body l = Some a -> pre = pre1 ++ lp :: mid -> assigns (a_var a) lp = true ->
    forallb (fun l0 => negb (assigns (a_var a) l0)) mid = true ->
    vd_flagged vd = length pre1 -> vd_because vd = length pre ->
    indep_linesP (a_var a) (pre1 ++ [lp]) mid /\
    (a_op a = OpShell -> indep_lineP pre (a_var a) l).

Lemma line_sound_core pre l post s s' vs vd :
  (forall x fuel, inv_x fuel pre s x) ->
  check_line s (length pre) l = Ok (s', vs) -> In vd vs ->
  wf_program (pre ++ l :: post) = true ->
  bwd_ok_at pre l vd -> fwd_ok (pre ++ l :: post) vd ->
  deletable (pre ++ l :: post) (vd_flagged vd).
Proof.
  intros Hinv Hck Hin Hwf Hgb Hgf.
  unfold check_line in Hck.
  destruct (update_include_path s l) as [s1| |] eqn:E1; try discriminate.
  apply update_include_path_vars in E1.
  destruct (l_body l) as [a|] eqn:Eb; [|inversion Hck; subst; destruct Hin].
  destruct (handle_varassign s1 (length pre) a false) as [[s2 vs2]| |] eqn:E2; try discriminate.
  destruct (handle_expr s2 a) as [s3| |]; try discriminate.
  inversion Hck; subst s' vs; clear Hck.
  destruct (handle_varassign_verdicts _ _ _ _ _ _ E2 Hin) as (prev & rest & Hrev & Hcases).
  rewrite E1 in Hrev, Hcases. clear E2 Hin.
  set (x := a_var a) in *.
  set (v := vi_var (s_vars s x)) in *.
  assert (HinvX : forall fuel, inv_var (store_after fuel pre) (writes_of x 0 pre) (known (writes_of x 0 pre)) x v)
    by (intro fuel; exact (Hinv x fuel)).
  destruct (HinvX 0%nat) as (W1 & _). rewrite W1 in Hrev, Hcases.
  destruct prev as [pidx ap].
  destruct (writes_of_last _ _ _ _ _ _ Hrev) as (pre1 & lp & mid & Epre & Hp & Hlb & Hlv & Hmid & _).
  simpl in Hp. subst pidx.
  assert (Hwne : writes_of x 0 pre <> []) by (intro E; rewrite E in Hrev; discriminate).
  assert (Hsl : spec_line l = Some (spec_assign a)) by (unfold spec_line; rewrite Eb; reflexivity).
  assert (Hwf_l : assign_ok a = true).
  { unfold wf_program in Hwf. rewrite forallb_app in Hwf. apply andb_true_iff in Hwf as [_ Hwf].
    simpl in Hwf. apply andb_true_iff in Hwf as [Hwf _]. unfold line_ok in Hwf. rewrite Eb in Hwf. exact Hwf. }
  assert (Hwf_a : trimmed (render (a_val a)) = true).
  { unfold assign_ok in Hwf_l. apply andb_true_iff in Hwf_l as [_ H]. exact H. }
  assert (Hwf_c : forallb chunk_ok (a_val a) = true).
  { unfold assign_ok in Hwf_l. apply andb_true_iff in Hwf_l as [H _]. apply andb_true_iff in H as [_ H]. exact H. }
  assert (Hplain : (a_op a = OpDefault \/ a_op a = OpAssign \/ (a_op a = OpEval /\ has_make_vars (a_val a) = false)) ->
                   splain (Some (spec_assign a)) = true).
  { intros [Ho|[Ho|[Ho Hm]]]; simpl; rewrite Ho; simpl; auto. apply no_vars_plain; assumption. }
  assert (Hlt : Nat.ltb (length pre1) (length pre) = true) by (subst pre; apply ltb_mid).
  assert (Hgt : Nat.ltb (length pre) (length pre1) = false).
  { clear - Hlt. apply Nat.ltb_ge. apply Nat.ltb_lt in Hlt. lia. }
  (* what the guard says when the earlier line is the flagged one *)
  assert (Hbwd : vd_flagged vd = length pre1 -> vd_because vd = length pre ->
                 indep_linesP x (pre1 ++ [lp]) mid /\ (a_op a = OpShell -> indep_lineP pre x l)).
  { intros Hf Hb. apply (Hgb a pre1 lp mid Eb Epre); auto.
    unfold assigns. rewrite Hlb. fold x. rewrite Hlv. apply str_eqb_refl. }
  assert (Hwf' : wf_program (pre1 ++ lp :: mid ++ l :: post) = true).
  { subst pre. rewrite <- app_assoc in Hwf. exact Hwf. }
  (* the semantic core of the "earlier line flagged" cases with a plain later line *)
  assert (Hback : indep_linesP x (pre1 ++ [lp]) mid -> splain (Some (spec_assign a)) = true ->
                  (forall fuel o1 o2,
                      o1 = store_after fuel pre x ->
                      o2 = exec_from fuel (store_after fuel pre1) (to_spec mid) x ->
                      plain_step o1 (spec_assign a) = plain_step o2 (spec_assign a)) ->
                  deletable (pre ++ l :: post) (length pre1)).
  { intros Hep_mid Hpl Hstep. subst pre. rewrite <- app_assoc. simpl app.
    apply (bwd_core pre1 lp ap mid l post x); auto. intros fuel Hag y.
    rewrite Hsl. simpl exec_line.
    rewrite !(exec_assign_plain fuel _ _ Hpl). simpl s_name.
    destruct (str_eqb (a_var a) y) eqn:Ey.
    - apply (Hstep fuel); reflexivity.
    - apply Hag. intro E. subst y. unfold x in Ey. rewrite str_eqb_refl in Ey. discriminate. }
  destruct Hcases as [[Hvd Hop]|[[Hvd Hop]|[(Hvd & Hop & Hk & Hcv)|(Hvd & Hop & Hk)]]]; subst vd.
  - (* overwritten: the earlier line lp is flagged *)
    simpl vd_flagged. destruct (Hbwd eq_refl eq_refl) as [Hep_mid Hep_l].
    apply Hback; [exact Hep_mid|apply Hplain; tauto|].
    intros fuel o1 o2 _ _. apply plain_step_const. simpl.
    destruct Hop as [Ho|[Ho _]]; rewrite Ho; auto.
  - (* the current line is flagged *)
    simpl vd_flagged. apply fwd_deletable. intro fuel.
    destruct (HinvX fuel) as (_ & _ & _ & _ & _ & Hdef & Hval).
    rewrite Hsl. simpl exec_line.
    destruct Hop as [Ho|(Ho & Hsh & Hv)].
    + unfold exec_assign. simpl. rewrite Ho. simpl. fold x.
      destruct (store_after fuel pre x) eqn:Ex; [apply ext_eq_refl|]. exfalso. apply (Hdef Hwne). reflexivity.
    + unfold fwd_ok in Hgf. simpl vd_flagged in Hgf. simpl vd_because in Hgf. specialize (Hgf Hgt).
      unfold line_op, line_var in Hgf. rewrite nth_error_mid, Eb in Hgf.
      simpl in Hgf. rewrite firstn_mid in Hgf. fold x in Hgf.
      assert (Hev : after_eval_ref (writes_of x 0 pre) = false).
      { destruct Ho as [Ho|[Ho _]]; rewrite Ho in Hgf; apply negb_true_iff in Hgf; exact Hgf. }
      assert (Hkn : known (writes_of x 0 pre) = true) by (unfold known; rewrite Hsh, Hev; reflexivity).
      destruct (Hval Hkn Hwne) as (t & Ht & Hvt).
      apply str_eqb_spec in Hv.
      assert (Et : render (a_val a) = t).
      { destruct Hvt as [Hvt|Hvt]; [congruence|].
        rewrite Hvt in Hv. rewrite <- Hv in Hwf_a. discriminate. }
      assert (Hpl : splain (Some (spec_assign a)) = true) by (apply Hplain; tauto).
      intro y. rewrite (exec_assign_plain fuel _ _ Hpl). simpl s_name.
      destruct (str_eqb (a_var a) y) eqn:Ey; [|reflexivity].
      apply str_eqb_spec in Ey. subst y. fold x. rewrite Ht.
      unfold plain_step. simpl. destruct Ho as [Ho|[Ho _]]; rewrite Ho; simpl; rewrite Et; reflexivity.
  - (* an earlier line is flagged because the current line assigns the constant value again *)
    simpl vd_flagged. destruct (Hbwd eq_refl eq_refl) as [Hep_mid Hep_l].
    apply Hback; [exact Hep_mid|apply Hplain; tauto|].
    intros fuel o1 o2 Ho1 Ho2.
    destruct Hop as [[Ho Hone]|Ho].
    + destruct (HinvX fuel) as (_ & _ & _ & Hc & _). destruct (Hc Hk) as [_ Hs].
      apply str_eqb_spec in Hcv. rewrite Hcv in Hs. rewrite Hs in Ho1.
      assert (Hund : o2 = None).
      { subst o2. rewrite Epre in Hone.
        assert (H0 : writes_of x 0 pre1 = []) by (eapply writes_of_single; eauto).
        rewrite exec_from_untouched.
        - unfold store_after. rewrite exec_from_untouched; [reflexivity|].
          rewrite (forallb_map_spec _ (fun l0 => negb (assigns x l0)));
            [exact (writes_of_nil_inv _ _ _ H0)|].
          intro l0. rewrite sassigns_spec_line. reflexivity.
        - rewrite (forallb_map_spec _ (fun l0 => negb (assigns x l0))); [exact Hmid|].
          intro l0. rewrite sassigns_spec_line. reflexivity. }
      rewrite Ho1, Hund. unfold plain_step. simpl. rewrite Ho. reflexivity.
    + apply plain_step_const. simpl. destruct Ho as [Ho|[Ho _]]; rewrite Ho; auto.
  - (* an earlier line is flagged because of a shell assignment *)
    simpl vd_flagged. destruct (Hbwd eq_refl eq_refl) as [Hep_mid Hep_l].
    subst pre. rewrite <- app_assoc. simpl app.
    apply (bwd_core pre1 lp ap mid l post x); auto. intros fuel Hag.
    rewrite Hsl. simpl exec_line.
    apply (shell_line_indep fuel x (pre1 ++ lp :: mid)); auto.
    + apply store_after_ok.
      replace (pre1 ++ lp :: mid ++ l :: post) with ((pre1 ++ lp :: mid) ++ l :: post) in Hwf'
        by (rewrite <- app_assoc; reflexivity).
      apply wf_app in Hwf' as [H _]. exact H.
    + intro Hd. apply (Hep_l Hop a Eb); [rewrite Hop; reflexivity|exact Hd].
Qed.

Lemma assigns_decomp_unique x (pre1 pre1' : program) lp lp' mid mid' :
  pre1 ++ lp :: mid = pre1' ++ lp' :: mid' ->
  assigns x lp = true -> assigns x lp' = true ->
  forallb (fun l0 => negb (assigns x l0)) mid = true ->
  forallb (fun l0 => negb (assigns x l0)) mid' = true ->
  pre1 = pre1' /\ lp = lp' /\ mid = mid'.
Proof.
  revert pre1'. induction pre1 as [|y pre1 IH]; intros [|y' pre1'] E H1 H2 M1 M2; simpl in E.
  - inversion E; subst. auto.
  - inversion E; subst. exfalso. rewrite forallb_app in M1. apply andb_true_iff in M1 as [_ M1].
    simpl in M1. rewrite H2 in M1. discriminate.
  - inversion E; subst. exfalso. rewrite forallb_app in M2. apply andb_true_iff in M2 as [_ M2].
    simpl in M2. rewrite H1 in M2. discriminate.
  - inversion E; subst. destruct (IH pre1' H3 H1 H2 M1 M2) as (A & B & C). subst. auto.
Qed.

Lemma line_sound2 pre l post s s' vs vd :
  (forall x fuel, inv_x fuel pre s x) ->
  check_line s (length pre) l = Ok (s', vs) -> In vd vs ->
  wf_program (pre ++ l :: post) = true ->
  bwd_ok (pre ++ l :: post) vd -> fwd_ok (pre ++ l :: post) vd ->
  deletable (pre ++ l :: post) (vd_flagged vd).
Proof.
  intros Hinv Hck Hin Hwf Hgb Hgf. eapply line_sound_core; eauto.
  intros a pre1 lp mid Eb Epre Hlp Hmid Hf Hb.
  assert (Hlt : Nat.ltb (length pre1) (length pre) = true) by (subst pre; apply ltb_mid).
  unfold bwd_ok in Hgb. rewrite Hf, Hb in Hgb. specialize (Hgb Hlt).
  subst pre. rewrite <- app_assoc in Hgb. simpl app in Hgb.
  unfold line_var in Hgb. rewrite nth_error_mid in Hgb.
  unfold assigns in Hlp. destruct (l_body lp) as [ap|]; [|discriminate].
  apply str_eqb_spec in Hlp. rewrite Hlp in Hgb.
  rewrite firstn_S_mid, skipn_S_mid in Hgb.
  replace (length (pre1 ++ lp :: mid) - length pre1)%nat with (S (length mid)) in Hgb
    by (rewrite app_length; simpl; lia).
  rewrite firstn_S_mid in Hgb. apply indep_linesP_app in Hgb as [G1 G2].
  split; [exact G1|]. intros _. simpl in G2. destruct G2 as [G2 _].
  rewrite <- app_assoc in G2. exact G2.
Qed.

Lemma sound_gen2 : forall ls pre s vs,
  (forall x fuel, inv_x fuel pre s x) ->
  check_from s (length pre) ls = Ok vs ->
  wf_program (pre ++ ls) = true ->
  forall vd, In vd vs -> bwd_ok (pre ++ ls) vd -> fwd_ok (pre ++ ls) vd ->
  deletable (pre ++ ls) (vd_flagged vd).
Proof.
  induction ls as [|l ls IH]; intros pre s vs Hinv Hck Hwf vd Hin Hgb Hgf.
  - simpl in Hck. inversion Hck; subst. destruct Hin.
  - simpl in Hck. destruct (check_line s (length pre) l) as [[s' vs0]| |] eqn:E1; try discriminate.
    destruct (check_from s' (S (length pre)) ls) as [rest| |] eqn:E2; try discriminate.
    inversion Hck; subst vs. apply in_app_or in Hin as [Hin|Hin].
    + eapply line_sound2; eauto.
    + assert (Hok : line_ok l = true).
      { unfold wf_program in Hwf. rewrite forallb_app in Hwf. apply andb_true_iff in Hwf as [_ Hwf].
        simpl in Hwf. apply andb_true_iff in Hwf as [Hwf _]. exact Hwf. }
      replace (pre ++ l :: ls) with ((pre ++ [l]) ++ ls) in * by (rewrite <- app_assoc; reflexivity).
      apply (IH (pre ++ [l]) s' rest); auto.
      * intros x fuel. apply (inv_x_step fuel pre s l s' vs0 x); auto.
      * rewrite app_length. simpl. rewrite Nat.add_1_r. exact E2.
Qed.

Lemma guard2_ok p vd : guard2 p vd = true -> bwd_ok p vd /\ fwd_ok p vd.
Proof.
  unfold guard2, bwd_ok, fwd_ok. destruct (Nat.ltb (vd_flagged vd) (vd_because vd)); intro H; split; intro E;
    try discriminate; auto. apply indep_lines_P; exact H.
Qed.

(* Every verdict inside the weaker guard flags a deletable line. *)
Theorem verdict_sound_partial2 : verdict_sound_on (fun p vd => guard2 p vd = true).
Proof.
  intros p vs vd Hwf Hck Hin Hg. destruct (guard2_ok _ _ Hg) as [Hb Hf].
  apply (sound_gen2 p [] new_scope vs); auto.
  intros x fuel. apply inv_x_init.
Qed.

(* ----- the new guard lets a program through that the old one excludes -----
   VA= a / VC= c / VB:= ${VC} / VA= b : "VA in line 1 is overwritten in line 4";
   line 3 is a ':=' with a '$' between the two lines, and does not reach VA. *)
Definition prog_between : program :=
  [ mkLine 0 1 (Some (mkAssign [86; 65]%N OpAssign [Lit [97]%N]));
    mkLine 0 2 (Some (mkAssign [86; 67]%N OpAssign [Lit [99]%N]));
    mkLine 0 3 (Some (mkAssign [86; 66]%N OpEval [Ref [86; 67]%N]));
    mkLine 0 4 (Some (mkAssign [86; 65]%N OpAssign [Lit [98]%N])) ].
Lemma prog_between_facts :
  wf_program prog_between = true /\
  check prog_between = Ok [mkVerdict 0 3 KOverwritten] /\
  guard prog_between (mkVerdict 0 3 KOverwritten) = false /\
  guard2 prog_between (mkVerdict 0 3 KOverwritten) = true.
Proof. repeat split; vm_compute; reflexivity. Qed.
