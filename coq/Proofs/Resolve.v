From Coq Require Import List NArith Bool Lia Arith.
From PV Require Import Lib.Bytes Lib.PanicRes Model.Resolve Spec.ResolveSpec.
Import ListNotations.

Lemma match_at_spec s name : match_at s = Some name ->
  exists rest, s = expr_text name ++ rest.
Proof.
  unfold match_at. destruct s as [|a [|b r]]; try discriminate.
  destruct (N.eqb_spec a 36); [|discriminate]. destruct (N.eqb_spec b 123); [|discriminate].
  cbn [andb]. pose proof (span_app is_varchar r) as Happ.
  destruct (span is_varchar r) as [nm rest]. cbn [fst snd] in Happ.
  destruct nm as [|n nm]; [discriminate|]. destruct rest as [|c rest]; [discriminate|].
  destruct (N.eqb_spec c 125); [|discriminate]. intros H; inversion H; subst.
  exists rest. unfold expr_text. cbn [app]. rewrite <- app_assoc. reflexivity.
Qed.

(* weighted number of keys not yet visited *)
Fixpoint wsum (f : str -> nat) (l : list str) (vis : list str) : nat :=
  match l with
  | [] => O
  | k :: t => if mem k vis then wsum f t vis else (f k + wsum f t vis)%nat
  end.

Lemma wsum_mono f l x vis : (wsum f l (x :: vis) <= wsum f l vis)%nat.
Proof.
  induction l as [|k t IH]; cbn [wsum mem]; [lia|].
  destruct (str_eqb x k); cbn [orb]; destruct (mem k vis); lia.
Qed.

Lemma wsum_drop f l x vis : In x l -> mem x vis = false ->
  (wsum f l (x :: vis) + f x <= wsum f l vis)%nat.
Proof.
  intros Hin Hm. induction l as [|k t IH]; [contradiction|].
  cbn [wsum mem]. destruct Hin as [->|Hin].
  - rewrite str_eqb_refl. cbn [orb]. rewrite Hm. pose proof (wsum_mono f t x vis). lia.
  - specialize (IH Hin). destruct (str_eqb x k); cbn [orb]; destruct (mem k vis); lia.
Qed.

Lemma wsum_nil f l : wsum f l [] = fold_right (fun k acc => (f k + acc)%nat) O l.
Proof. induction l as [|k t IH]; [reflexivity|]. cbn [wsum mem fold_right]. rewrite IH. reflexivity. Qed.

Lemma wsum_one_nil l : wsum (fun _ => 1%nat) l [] = length l.
Proof. induction l as [|k t IH]; [reflexivity|]. cbn [wsum mem length]. rewrite IH. reflexivity. Qed.

Lemma rlookup_in sc k x : rlookup sc k = Some x -> In k (keys sc).
Proof.
  unfold keys. intros H. apply nodup_In.
  induction sc as [|[k0 x0] t IH]; [discriminate|]. cbn [rlookup] in H. cbn [map fst].
  destruct (str_eqb k0 k) eqn:E; [left; apply str_eqb_spec; exact E | right; auto].
Qed.

Section Pass.
Variable sc : rscope.
Let K := keys sc.
Let one : str -> nat := fun _ => 1%nat.

Lemma expr_text_length name : length (expr_text name) = (length name + 3)%nat.
Proof. unfold expr_text. cbn [length]. rewrite app_length. cbn [length]. lia. Qed.

Lemma replace1_mono g vis name vis1 repl : replace1 sc vis name = (vis1, repl) ->
  (wsum g K vis1 <= wsum g K vis)%nat.
Proof.
  unfold replace1. destruct (mem name vis); intros H; inversion H; subst; [lia|apply wsum_mono].
Qed.

Lemma replace1_len vis name vis1 repl : replace1 sc vis name = (vis1, repl) ->
  (length repl + wsum (vlen sc) K vis1 <= length (expr_text name) + wsum (vlen sc) K vis)%nat.
Proof.
  unfold replace1. destruct (mem name vis) eqn:Hm; intros H; inversion H; subst; [lia|].
  destruct (rlookup sc name) as [x|] eqn:Hl.
  - pose proof (wsum_drop (vlen sc) K name vis (rlookup_in _ _ _ Hl) Hm) as Hd.
    unfold vlen at 2 in Hd. rewrite Hl in Hd. lia.
  - pose proof (wsum_mono (vlen sc) K name vis). lia.
Qed.

Lemma replace1_changed vis name vis1 repl : replace1 sc vis name = (vis1, repl) ->
  repl <> expr_text name -> (wsum one K vis1 < wsum one K vis)%nat.
Proof.
  unfold replace1. destruct (mem name vis) eqn:Hm; intros H Hne; inversion H; subst; [congruence|].
  destruct (rlookup sc name) as [x|] eqn:Hl; [|congruence].
  pose proof (wsum_drop one K name vis (rlookup_in _ _ _ Hl) Hm) as Hd. unfold one at 2 in Hd. lia.
Qed.

Lemma pass_spec s : forall skip vis vis' out, pass sc vis skip s = (vis', out) ->
  (forall g, wsum g K vis' <= wsum g K vis)%nat /\
  (length out + wsum (vlen sc) K vis' <= length (skipn skip s) + wsum (vlen sc) K vis)%nat /\
  (out <> skipn skip s -> (wsum one K vis' < wsum one K vis)%nat).
Proof.
  induction s as [|c t IH]; intros skip vis vis' out H.
  - cbn [pass] in H. inversion H; subst. rewrite skipn_nil. repeat split; try lia. congruence.
  - cbn [pass] in H. destruct skip as [|k].
    + destruct (match_at (c :: t)) as [name|] eqn:Hm.
      * destruct (replace1 sc vis name) as [vis1 repl] eqn:Hr.
        destruct (pass sc vis1 (length name + 2) t) as [vis2 out2] eqn:Hp.
        inversion H; subst. clear H.
        destruct (match_at_spec _ _ Hm) as [rest Hs].
        assert (Ht : t = 123%N :: name ++ 125%N :: rest).
        { unfold expr_text in Hs. cbn [app] in Hs. inversion Hs. rewrite <- app_assoc. reflexivity. }
        assert (Hsk : skipn (length name + 2) t = rest).
        { rewrite Ht. replace (length name + 2)%nat with (S (length name + 1)) by lia.
          cbn [skipn]. rewrite skipn_app.
          rewrite skipn_all2 by lia. cbn [app].
          replace (length name + 1 - length name)%nat with 1%nat by lia. reflexivity. }
        destruct (IH _ _ _ _ Hp) as (M2 & L2 & C2). rewrite Hsk in L2, C2.
        pose proof (replace1_len _ _ _ _ Hr) as L1. rewrite expr_text_length in L1.
        cbn [skipn]. rewrite Hs at 1 2. rewrite !app_length, expr_text_length.
        split; [|split].
        -- intros g. pose proof (replace1_mono g _ _ _ _ Hr). specialize (M2 g). lia.
        -- lia.
        -- intros Hne. destruct (str_eq_dec repl (expr_text name)) as [->|Hd].
           ++ assert (out2 <> rest) by (intros ->; apply Hne; reflexivity).
              pose proof (replace1_mono one _ _ _ _ Hr). specialize (C2 H). lia.
           ++ pose proof (replace1_changed _ _ _ _ Hr Hd). specialize (M2 one). lia.
      * destruct (pass sc vis 0 t) as [vis2 out2] eqn:Hp. inversion H; subst. clear H.
        destruct (IH _ _ _ _ Hp) as (M2 & L2 & C2). cbn [skipn] in *.
        split; [exact M2|split]; [cbn [length]; lia|].
        intros Hne. apply C2. intros ->. apply Hne. reflexivity.
    + cbn [skipn]. apply IH. exact H.
Qed.

Lemma loop_terminates : forall fuel vis s, (wsum one K vis < fuel)%nat ->
  exists r, resolve_loop fuel sc vis s = Ok r.
Proof.
  induction fuel as [|f IH]; intros vis s Hlt; [lia|].
  cbn [resolve_loop]. destruct (pass sc vis 0 s) as [vis' replaced] eqn:Hp.
  destruct (str_eqb replaced s) eqn:E; [eauto|].
  destruct (pass_spec _ _ _ _ _ Hp) as (_ & _ & C). cbn [skipn] in C.
  apply IH. assert (replaced <> s) by (intros ->; rewrite str_eqb_refl in E; discriminate).
  specialize (C H). lia.
Qed.

Lemma loop_bounded : forall fuel vis s r, resolve_loop fuel sc vis s = Ok r ->
  (length r <= length s + wsum (vlen sc) K vis)%nat.
Proof.
  induction fuel as [|f IH]; intros vis s r H; [discriminate|].
  cbn [resolve_loop] in H. destruct (pass sc vis 0 s) as [vis' replaced] eqn:Hp.
  destruct (pass_spec _ _ _ _ _ Hp) as (_ & L & _). cbn [skipn] in L.
  destruct (str_eqb replaced s) eqn:E.
  - inversion H; subst. lia.
  - specialize (IH _ _ _ H). lia.
Qed.

(* the result is a fixed point of one more pass (whatever was visited so far) *)
Lemma loop_stable : forall fuel vis s r, resolve_loop fuel sc vis s = Ok r ->
  exists vis', stable sc vis' r.
Proof.
  induction fuel as [|f IH]; intros vis s r H; [discriminate|].
  cbn [resolve_loop] in H. destruct (pass sc vis 0 s) as [vis' replaced] eqn:Hp.
  destruct (str_eqb replaced s) eqn:E.
  - inversion H; subst. apply str_eqb_spec in E. subst s. exists vis. unfold stable. rewrite Hp. reflexivity.
  - eapply IH; eauto.
Qed.
End Pass.

Lemma resolve_terminates : forall (has_expr : bool) (sc : rscope) (text : str),
  exists r, resolve_exprs has_expr sc text = Ok r.
Proof.
  intros. unfold resolve_exprs. destruct has_expr; cbn [negb]; [|eauto].
  apply loop_terminates. rewrite wsum_one_nil. unfold resolve_fuel. lia.
Qed.

(* more fuel than |distinct variables| + 1 is never needed, less can be too little *)
Lemma resolve_fuel_sufficient : forall (sc : rscope) (text : str) (fuel : nat),
  (length (keys sc) < fuel)%nat -> exists r, resolve_loop fuel sc [] text = Ok r.
Proof. intros. apply loop_terminates. rewrite wsum_one_nil. exact H. Qed.

Lemma resolve_output_bounded : forall (has_expr : bool) (sc : rscope) (text r : str),
  resolve_exprs has_expr sc text = Ok r ->
  (length r <= length text + value_budget sc)%nat.
Proof.
  intros he sc text r. unfold resolve_exprs. destruct he; cbn [negb].
  - intros H. apply loop_bounded in H. rewrite wsum_nil in H. exact H.
  - intros H; inversion H; subst. lia.
Qed.

Lemma resolve_result_stable : forall (sc : rscope) (text r : str),
  resolve_exprs true sc text = Ok r -> exists vis, stable sc vis r.
Proof. intros sc text r H. unfold resolve_exprs in H. cbn [negb] in H. eapply loop_stable; eauto. Qed.

Lemma resolve_no_expr_identity : forall sc text, resolve_exprs false sc text = Ok text.
Proof. reflexivity. Qed.
