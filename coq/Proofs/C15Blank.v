(* C15: the blank class is byte-exact.  "Blank" = the two bytes 32 (space) and 9 (tab), nothing else:
   a raw line that ends in any other byte (form feed, vertical tab, carriage return, the last byte of
   U+00A0 / U+0085 / U+2028, a lone 0x85 or 0xA0 ...) is left alone by CheckTrailingWhitespace. *)
From PV Require Import Lib.Bytes Model.Tabs Model.Varalign Model.LayoutFix Proofs.LayoutFix.
From Coq Require Import ZifyBool ZifyN ZifyNat Lia.
Open Scope Z_scope.

Lemma is_hspace_iff c : is_hspace c = true <-> (c = 32 \/ c = 9)%N.
Proof. unfold is_hspace. rewrite Bool.orb_true_iff, !N.eqb_eq. tauto. Qed.

Lemma blankb_iff s : blankb s = true <-> Forall (fun c => c = 32 \/ c = 9)%N s.
Proof.
  unfold blankb. rewrite forallb_forall, Forall_forall.
  split; intros H x Hx; apply is_hspace_iff, H, Hx.
Qed.

Lemma strip_blanks_spec s :
  strip_blanks s = filter (fun c => negb ((c =? 32) || (c =? 9))%N) s.
Proof. reflexivity. Qed.

Lemma rtrim_nonblank_end t c : is_hspace c = false -> rtrimHspace (t ++ [c]) = t ++ [c].
Proof.
  intro Hc. induction t as [|a t IH]; cbn [app rtrimHspace].
  - rewrite Hc. reflexivity.
  - rewrite IH. destruct (t ++ [c]) eqn:E; [destruct t; discriminate|reflexivity].
Qed.

Lemma trim_raw_nonblank_end t c : is_hspace c = false -> trim_raw (t ++ [c]) = Ok (t ++ [c]).
Proof.
  intro H. rewrite trim_raw_spec. unfold trim_result. rewrite (rtrim_nonblank_end t c H).
  destruct (ends_backslash (t ++ [c])); reflexivity.
Qed.

Lemma trailing_nonblank_end_untouched raws t c :
  last raws [] = t ++ [c] -> c <> 32%N -> c <> 9%N -> checkTrailingWhitespace raws = Ok raws.
Proof.
  intros HL H1 H2.
  assert (Hc : is_hspace c = false).
  { destruct (is_hspace c) eqn:E; [|reflexivity]. apply is_hspace_iff in E. tauto. }
  clear H1 H2. induction raws as [|a r IH].
  - cbn in HL. symmetry in HL. apply app_eq_nil in HL. destruct HL; discriminate.
  - destruct r as [|b r'].
    + cbn in HL. subst a. cbn [checkTrailingWhitespace]. rewrite (trim_raw_nonblank_end t c Hc). reflexivity.
    + change (last (a :: b :: r') []) with (last (b :: r') []) in HL.
      specialize (IH HL). cbn [checkTrailingWhitespace] in *. rewrite IH. reflexivity.
Qed.
