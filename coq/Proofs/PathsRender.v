(* C19: the shape of a cleaned path, and that cleaning it again changes nothing. *)
From PV Require Import Lib.Bytes Model.Paths Spec.PathDenote Proofs.PathsBase Proofs.PathsClean.
Open Scope N_scope.

(* ---------- which bytes can occur in the results ---------- *)
Definition nocolon (s : str) : Prop := ~ In colon s.

Lemma split_chars p : forall x c, In x (split_slash p) -> In c x -> In c p.
Proof.
  induction p as [|d p IH]; intros x c Hx Hc; simpl in Hx.
  - destruct Hx as [<-|[]]. destruct Hc.
  - destruct (d =? slash).
    + destruct Hx as [<-|Hx]; [destruct Hc|]. right. eapply IH; eauto.
    + destruct (split_cons p) as (h & t & E). rewrite E in *. destruct Hx as [<-|Hx].
      * destruct Hc as [<-|Hc]; [left; reflexivity|]. right. apply (IH h c); [left; reflexivity|exact Hc].
      * right. apply (IH x c); [right; exact Hx|exact Hc].
Qed.

Lemma join_chars l : forall c, In c (join_slash l) -> c = slash \/ exists x, In x l /\ In c x.
Proof.
  induction l as [|x l IH]; intros c Hc; [destruct Hc|]. destruct l as [|y l].
  - right. exists x. split; [left; reflexivity|exact Hc].
  - change (join_slash (x :: y :: l)) with (x ++ slash :: join_slash (y :: l)) in Hc.
    apply in_app_or in Hc as [Hc|[Hc|Hc]].
    + right. exists x. split; [left; reflexivity|exact Hc].
    + left. symmetry. exact Hc.
    + destruct (IH c Hc) as [H|(z & Hz & Hcz)]; [left; exact H|]. right. exists z. split; [right; exact Hz|exact Hcz].
Qed.

Lemma nocolon_join l : Forall nocolon l -> nocolon (join_slash l).
Proof.
  intros H Hc. apply join_chars in Hc as [Hc|(x & Hx & Hcx)]; [discriminate|].
  eapply Forall_forall in H; [|exact Hx]. exact (H Hcx).
Qed.

Lemma nocolon_split p : nocolon p -> Forall nocolon (split_slash p).
Proof. intro H. apply Forall_forall. intros x Hx Hc. apply H. eapply split_chars; eauto. Qed.

Lemma nocolon_dotdot : nocolon dotdot.
Proof. intros [H|[H|[]]]; discriminate. Qed.
Lemma nocolon_dot : nocolon dotstr.
Proof. intros [H|[]]; discriminate. Qed.

Lemma nocolon_app a b : nocolon a -> nocolon b -> nocolon (a ++ b).
Proof. intros Ha Hb H. apply in_app_or in H as [H|H]; auto. Qed.

Lemma nocolon_cons c s : c <> colon -> nocolon s -> nocolon (c :: s).
Proof. intros Hc Hs [H|H]; [congruence|auto]. Qed.

Lemma nocolon_is_abs p : nocolon p -> is_abs p = rooted p.
Proof.
  intro H. destruct p as [|c0 [|c1 [|c2 r]]]; try reflexivity; simpl; try (rewrite orb_false_r; reflexivity).
  destruct (N.eqb_spec c1 colon) as [->|Hne].
  - exfalso. apply H. right. left. reflexivity.
  - simpl. rewrite orb_false_r. reflexivity.
Qed.

(* ---------- rendering a list of elements as a clean path ---------- *)
Definition render (rt : bool) (e : list str) : str :=
  if rt then slash :: join_slash e else match e with [] => dotstr | _ => join_slash e end.

(* the elements of a clean path: ".." elements first (none if rooted), then real names *)
Definition shape (rt : bool) (e : list str) : Prop :=
  exists dd ns, e = repeat dotdot dd ++ ns /\ Forall good ns /\ (rt = true -> dd = O).

Lemma good_nonempty x : good x -> x <> [].
Proof. intros [H _] ->. discriminate. Qed.

Lemma shape_elems rt e : shape rt e -> Forall (fun x => x <> [] /\ noslash x) e.
Proof.
  intros (dd & ns & -> & Hns & _). apply Forall_app. split.
  - apply Forall_forall. intros x Hx. apply repeat_spec in Hx. subst. split; [discriminate|apply noslash_dotdot].
  - eapply Forall_impl; [|exact Hns]. intros a Ha. split; [apply good_nonempty; exact Ha|apply Ha].
Qed.

Lemma shape_noslash rt e : shape rt e -> Forall noslash e.
Proof. intro H. eapply Forall_impl; [|apply (shape_elems rt e H)]. intros a [_ Ha]. exact Ha. Qed.

Lemma rooted_render rt e : shape rt e -> rooted (render rt e) = rt.
Proof.
  intro H. destruct rt; [reflexivity|]. simpl. destruct e as [|x t]; [reflexivity|].
  pose proof (shape_elems false _ H) as He. inversion He as [|? ? [Hx Hs] _]; subst.
  rewrite rooted_join by exact Hs. destruct x; [contradiction|reflexivity].
Qed.

Lemma render_nonempty rt e : shape rt e -> render rt e <> [].
Proof.
  intro H. destruct rt; simpl; [discriminate|]. destruct e as [|x t]; [discriminate|].
  pose proof (shape_elems false _ H) as He. inversion He as [|? ? [Hx _] _]; subst.
  destruct x; [contradiction|]. destruct t; simpl; discriminate.
Qed.

(* ---------- clean p is the rendering of some elements ---------- *)
Lemma clean_fold_incl rt comps : forall dd real,
  let '(dd', real') := fold_left (clean_step rt) comps (dd, real) in
  forall x, In x real' -> In x real \/ In x comps.
Proof.
  induction comps as [|c comps IH]; intros dd real; simpl.
  - auto.
  - destruct (is_empty c || str_eqb c dotstr).
    + specialize (IH dd real). destruct (fold_left _ comps (dd, real)) as [dd' real'].
      intros x Hx. destruct (IH x Hx); auto.
    + destruct (str_eqb c dotdot).
      * destruct real as [|y r].
        -- destruct rt.
           ++ specialize (IH dd []). destruct (fold_left _ comps (dd, [])) as [dd' real'].
              intros x Hx. destruct (IH x Hx); auto.
           ++ specialize (IH (S dd) []). destruct (fold_left _ comps (S dd, [])) as [dd' real'].
              intros x Hx. destruct (IH x Hx); auto.
        -- specialize (IH dd r). destruct (fold_left _ comps (dd, r)) as [dd' real'].
           intros x Hx. destruct (IH x Hx); [left; right; assumption|auto].
      * specialize (IH dd (c :: real)). destruct (fold_left _ comps (dd, c :: real)) as [dd' real'].
        intros x Hx. destruct (IH x Hx) as [[<-|H]|H]; auto.
Qed.

Lemma clean_render p :
  exists e, shape (rooted p) e /\ clean p = render (rooted p) e
            /\ (forall st, walk (if rooted p then [] else st) e = walk (if rooted p then [] else st) (segs p))
            /\ (forall x, In x e -> x = dotdot \/ In x (split_slash p)).
Proof.
  destruct p as [|c0 s0] eqn:Ep.
  { exists []. split; [exists O, []; repeat split; auto|]. split; [reflexivity|]. split; [reflexivity|intros x []]. }
  rewrite <- Ep. assert (Hne : p <> []) by (subst; discriminate). clear Ep c0 s0.
  rewrite (clean_unfold p Hne). unfold clean_state.
  pose proof (clean_fold_incl (rooted p) (split_slash p) O []) as Hincl.
  destruct (rooted p) eqn:R.
  - pose proof (clean_fold_abs (split_slash p) (split_noslash p) O [] (Forall_nil _)) as H.
    destruct (fold_left (clean_step true) (split_slash p) (O, [])) as [dd real]. destruct H as (-> & Hg & Hw).
    exists (rev real). split; [exists O, (rev real); repeat split; auto; apply good_rev; exact Hg|].
    split; [reflexivity|]. split.
    + intros _. rewrite (segs_split p), Hw. rewrite walk_good by (apply good_rev; exact Hg).
      rewrite rev_involutive, app_nil_r. reflexivity.
    + intros x Hx. right. apply in_rev in Hx. destruct (Hincl x Hx) as [[]|H]; exact H.
  - pose proof (clean_fold_rel (split_slash p) (split_noslash p) O []) as H.
    destruct (fold_left (clean_step false) (split_slash p) (O, [])) as [dd real].
    exists (repeat dotdot dd ++ rev real).
    destruct (H [] (Forall_nil _)) as [Hg _].
    split; [exists dd, (rev real); repeat split; auto; [apply good_rev; exact Hg|discriminate]|].
    split; [reflexivity|]. split.
    + intro st. destruct (H st (Forall_nil _)) as [_ Hw]. simpl in Hw.
      rewrite (segs_split p), Hw. apply walk_elems. exact Hg.
    + intros x Hx. apply in_app_or in Hx as [Hx|Hx].
      * left. apply repeat_spec in Hx. exact Hx.
      * right. apply in_rev in Hx. destruct (Hincl x Hx) as [[]|H1]; exact H1.
Qed.

Lemma clean_nonempty p : clean p <> [].
Proof. destruct (clean_render p) as (e & Hs & -> & _). apply render_nonempty. exact Hs. Qed.

Lemma nocolon_clean p : nocolon p -> nocolon (clean p).
Proof.
  intro H. destruct (clean_render p) as (e & _ & -> & _ & Hin).
  assert (He : Forall nocolon e).
  { apply Forall_forall. intros x Hx. destruct (Hin x Hx) as [->|Hs]; [apply nocolon_dotdot|].
    eapply Forall_forall in Hs; [exact Hs|]. apply nocolon_split. exact H. }
  unfold render. destruct (rooted p).
  - apply nocolon_cons; [discriminate|apply nocolon_join; exact He].
  - destruct e; [apply nocolon_dot|apply nocolon_join; exact He].
Qed.

(* ---------- cleaning a rendered path ---------- *)
Lemma clean_step_good rt dd real c : good c -> clean_step rt (dd, real) c = (dd, c :: real).
Proof.
  intros [Hn _]. unfold real_name, seg_is_name in Hn.
  apply andb_true_iff in Hn as [Hn H3]. apply andb_true_iff in Hn as [H1 H2].
  apply negb_true_iff in H1, H2, H3. unfold clean_step.
  change (is_empty c) with (seg_is_empty c). change (str_eqb c dotstr) with (seg_is_dot c).
  change (str_eqb c dotdot) with (seg_is_dotdot c). rewrite H1, H2, H3. reflexivity.
Qed.

Lemma fold_good rt l : Forall good l -> forall dd real,
  fold_left (clean_step rt) l (dd, real) = (dd, rev l ++ real).
Proof.
  induction 1 as [|c l Hc _ IH]; intros dd real; [reflexivity|].
  cbn [fold_left]. rewrite clean_step_good by exact Hc. rewrite IH. simpl. rewrite <- app_assoc. reflexivity.
Qed.

Lemma fold_dotdots n : forall dd,
  fold_left (clean_step false) (repeat dotdot n) (dd, []) = ((n + dd)%nat, []).
Proof.
  induction n as [|n IH]; intro dd; [reflexivity|].
  cbn [repeat fold_left]. change (clean_step false (dd, []) dotdot) with (S dd, @nil str).
  rewrite IH. f_equal. lia.
Qed.

Lemma clean_of_render rt e : shape rt e -> clean (render rt e) = render rt e.
Proof.
  intros Hs. pose proof (rooted_render rt e Hs) as Hr. pose proof (render_nonempty rt e Hs) as Hne.
  rewrite (clean_unfold _ Hne). unfold clean_state. rewrite Hr.
  destruct Hs as (dd & ns & -> & Hns & Hdd). destruct rt.
  - rewrite (Hdd eq_refl). simpl repeat. simpl app. unfold render.
    change (slash :: join_slash ns) with ([] ++ slash :: join_slash ns). rewrite split_app_slash.
    simpl split_slash at 1. simpl app. cbn [fold_left]. change (clean_step true (O, []) []) with (O, @nil str).
    destruct ns as [|x t].
    + reflexivity.
    + rewrite split_join; [|discriminate|apply good_noslash; exact Hns].
      rewrite fold_good by exact Hns. rewrite app_nil_r, rev_involutive. reflexivity.
  - unfold render. destruct (repeat dotdot dd ++ ns) as [|x t] eqn:E.
    + reflexivity.
    + rewrite <- E. rewrite split_join; [|rewrite E; discriminate|].
      2:{ apply Forall_app. split; [apply good_dotdot_noslash|apply good_noslash; exact Hns]. }
      rewrite fold_left_app, fold_dotdots, fold_good by exact Hns.
      rewrite app_nil_r, rev_involutive, Nat.add_0_r. rewrite E. rewrite <- E. reflexivity.
Qed.

Lemma clean_idempotent p : clean (clean p) = clean p.
Proof. destruct (clean_render p) as (e & Hs & -> & _). apply clean_of_render. exact Hs. Qed.
