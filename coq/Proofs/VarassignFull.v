(* With VaralignSplitter.parseVarnameOp parsing the same text as matchVarassign,
   the alignment prefix (MkLine.ValueAlign()), the value, the space before the
   comment and the comment of every accepted assignment recombine to the line. *)
From PV Require Import Lib.Bytes Gen.MkByteSets Model.MkLexPrim Model.MkLexer Model.MkTokensLexer
  Model.MkLineSplit Model.VaralignSplit Spec.MkPartition
  Proofs.MkLexPrim Proofs.MkLexer Proofs.MkLineSplit Proofs.VaralignSplit Proofs.Varassign.
From Coq Require Import ZifyBool ZifyN ZifyNat.
Open Scope N_scope.

Notation U := unescape_hash.

(* ---- unescape_hash and blanks ---- *)

Lemma hspace_not_bs c : is_hspace c = true -> c <> 92.
Proof. intros H ->. discriminate. Qed.

Lemma hspace_not_hash c : is_hspace c = true -> c <> 35.
Proof. intros H ->. discriminate. Qed.

Lemma uh_nil_inv z : U z = [] -> z = [].
Proof.
  destruct z as [|c t]; [reflexivity|]. cbn [unescape_hash].
  destruct t as [|d t']; [discriminate|]. destruct ((c =? 92) && (d =? 35)); discriminate.
Qed.

(* how U acts on the first byte *)
Lemma uh_head c t : (exists t', c = 92 /\ t = 35 :: t' /\ U (c :: t) = 35 :: U t') \/
                    (U (c :: t) = c :: U t /\ ~ (c = 92 /\ exists t', t = 35 :: t')).
Proof.
  destruct t as [|d t'].
  - right. split; [reflexivity|]. intros (_ & t' & H); discriminate.
  - destruct (N.eqb_spec c 92) as [->|Hc].
    + destruct (N.eqb_spec d 35) as [->|Hd].
      * left. exists t'. auto.
      * right. split; [apply uh_bs_other; exact Hd|]. intros (_ & t'' & H). inversion H; congruence.
    + right. split; [apply uh_cons_ne; exact Hc|]. intros (H & _); congruence.
Qed.

Lemma uh_blanks_prefix b : forallb is_hspace b = true ->
  forall z w, U z = b ++ w -> exists z', z = b ++ z' /\ U z' = w.
Proof.
  induction b as [|b0 b IH]; intros Hb z w H; [exists z; auto|].
  cbn [forallb] in Hb. apply andb_true_iff in Hb as [Hb0 Hb].
  destruct z as [|c t]; [discriminate|].
  destruct (uh_head c t) as [(t' & -> & -> & E)|[E _]]; rewrite E in H; inversion H; subst.
  - discriminate.
  - destruct (IH Hb t w) as (z' & -> & Hz'); [assumption|]. exists z'. auto.
Qed.

Lemma uh_all_blanks b z : forallb is_hspace b = true -> U z = b -> z = b.
Proof.
  intros Hb H. destruct (uh_blanks_prefix b Hb z []) as (z' & -> & Hz'); [rewrite app_nil_r; exact H|].
  apply uh_nil_inv in Hz'. subst. apply app_nil_r.
Qed.

Lemma uh_trailing_blanks b : forallb is_hspace b = true ->
  forall z w, U z = w ++ b -> exists z', z = z' ++ b /\ U z' = w.
Proof.
  intros Hb z. remember (length z) as k eqn:Hk. revert z Hk.
  induction k as [k IH] using lt_wf_ind. intros z Hk w H.
  destruct z as [|c t].
  { destruct w; [|discriminate]. simpl in H. subst b. exists []. auto. }
  destruct (uh_head c t) as [(t' & -> & -> & E)|[E Hn]]; rewrite E in H.
  - destruct w as [|w0 w'].
    + simpl in H. subst b. simpl in Hb. discriminate.
    + inversion H; subst.
      destruct (IH (length t') ltac:(simpl; lia) t' eq_refl w') as (z' & -> & Hz'); [assumption|].
      exists (92 :: 35 :: z'). split; [reflexivity|]. rewrite uh_bs_hash, Hz'. reflexivity.
  - destruct w as [|w0 w'].
    + simpl in H. assert (Hz : c :: t = b) by (apply uh_all_blanks; [exact Hb|rewrite E; exact H]).
      exists []. split; [exact Hz|reflexivity].
    + inversion H; subst.
      destruct (IH (length t) ltac:(simpl; lia) t eq_refl w') as (z' & -> & Hz'); [assumption|].
      exists (w0 :: z'). split; [reflexivity|].
      destruct (uh_head w0 z') as [(t' & -> & -> & _)|[E' _]].
      * exfalso. apply Hn. split; [reflexivity|]. eexists. reflexivity.
      * rewrite E', Hz'. reflexivity.
Qed.

(* ---- getRawValueAlign walks the raw text along a prefix of the unescaped text ---- *)

Lemma raw_value_align_walk : forall fuel p r0 tail m2,
  U r0 = p ++ m2 -> (length p < fuel)%nat ->
  exists ra r1, r0 = ra ++ r1 /\
    raw_value_align_loop fuel (r0 ++ tail) p = Ok (r1 ++ tail) /\ U ra = p /\ U r1 = m2.
Proof.
  induction fuel as [|f IH]; intros p r0 tail m2 H Hf; [lia|].
  destruct p as [|pch p1].
  { exists [], r0. cbn [raw_value_align_loop]. auto. }
  destruct r0 as [|c t]; [discriminate|].
  destruct (uh_head c t) as [(t' & -> & -> & E)|[E Hn]]; rewrite E in H; inversion H; subst.
  - destruct (IH p1 t' tail m2) as (ra & r1 & -> & E1 & Ua & U1); [assumption|simpl in Hf; lia|].
    exists (92 :: 35 :: ra), r1. split; [reflexivity|]. split; [|split; [rewrite uh_bs_hash, Ua; reflexivity|exact U1]].
    cbn [raw_value_align_loop app]. change (35 =? 92) with false. cbn [is_hspace orb negb].
    change (35 =? 32) with false. change (35 =? 9) with false. cbn [orb].
    change (35 =? 35) with true. cbn [negb skip_string strip_prefix]. change (92 =? 92) with true.
    change (35 =? 35) with true. cbn iota. exact E1.
  - destruct (IH p1 t tail m2) as (ra & r1 & -> & E1 & Ua & U1); [assumption|simpl in Hf; lia|].
    exists (pch :: ra), r1. split; [reflexivity|]. split; [|split; [|exact U1]].
    + cbn [raw_value_align_loop app]. rewrite N.eqb_refl. rewrite skip_ok by (simpl; lia).
      cbn [bind skipn]. exact E1.
    + destruct (uh_head pch ra) as [(t' & -> & -> & _)|[E' _]].
      * exfalso. apply Hn. split; [reflexivity|]. eexists. reflexivity.
      * rewrite E', Ua. reflexivity.
Qed.

Lemma get_raw_value_align_exact pre tail p m2 : U pre = p ++ m2 ->
  exists ra r1, pre = ra ++ r1 /\ get_raw_value_align (pre ++ tail) p = Ok ra /\ U ra = p /\ U r1 = m2.
Proof.
  intro H. destruct (raw_value_align_walk (S (length p)) p pre tail m2 H ltac:(lia)) as (ra & r1 & -> & E & Ua & U1).
  exists ra, r1. split; [reflexivity|]. split; [|auto].
  unfold get_raw_value_align. rewrite E. cbn [bind]. rewrite <- app_assoc, since_app. reflexivity.
Qed.

(* ---- the new parseVarnameOp, given what matchVarassign found in the same text ---- *)

Lemma span_blanks_stop b x : forallb is_hspace b = true ->
  match x with [] => True | c :: _ => is_hspace c = false end ->
  span is_hspace (b ++ x) = (b, x).
Proof.
  intros Hb Hx. induction b as [|b0 b IH].
  - destruct x as [|c t]; [reflexivity|]. cbn [app span]. rewrite Hx. reflexivity.
  - cbn [forallb] in Hb. apply andb_true_iff in Hb as [H0 Hb].
    cbn [app span]. rewrite H0, (IH Hb). reflexivity.
Qed.

Lemma span_hspace_parts s : forallb is_hspace (fst (span is_hspace s)) = true /\
  match snd (span is_hspace s) with [] => True | c :: _ => is_hspace c = false end.
Proof. split; [apply span_all|apply span_rest_head]. Qed.

Lemma parse_varname_op_core s1 main0 c0 v m1 m3 :
  unescape_comment s1 = Ok (main0, c0) ->
  Varname (rtrim_hspace main0) = Ok (v, m1) ->
  mk_op (snd (next_bytes is_hspace m1)) = Some m3 ->
  exists vo sbv mid sbc',
    parse_varname_op true s1 = Ok (vo, sbv, mid ++ sbc' ++ c0) /\
    s1 = vo ++ sbv ++ mid ++ sbc' ++ c0 /\
    U mid = ltrim_hspace m3 /\
    forallb is_hspace sbc' = true /\
    (ltrim_hspace m3 <> [] -> rtrim_hspace main0 ++ sbc' = main0) /\
    (ltrim_hspace m3 = [] -> sbc' = []).
Proof.
  intros Hu Hv Hop.
  destruct (unescape_comment_exact _ _ _ Hu) as (pre & Hs1 & Hmain & Hc0).
  destruct (rtrim_hspace_app main0) as (sbc & Hsbc & Bsbc).
  set (M := rtrim_hspace main0) in *.
  (* M = P ++ m3 *)
  destruct (varname_partition M) as (v' & m1' & Ev & HvM). rewrite Hv in Ev. inversion Ev; subst v' m1'. clear Ev.
  pose proof (next_bytes_app is_hspace m1) as Hm1.
  destruct (mk_op_chops _ _ Hop) as (opc & _ & Hm2).
  assert (HM : M = (v ++ fst (next_bytes is_hspace m1) ++ opc) ++ m3).
  { rewrite <- HvM, <- Hm1 at 1. rewrite Hm2. rewrite <- !app_assoc. reflexivity. }
  set (P := v ++ fst (next_bytes is_hspace m1) ++ opc) in *.
  assert (HP : since M m3 = P) by (rewrite HM; apply since_app).
  assert (HU : U pre = P ++ (m3 ++ sbc)).
  { rewrite <- Hmain, Hsbc, HM, <- app_assoc. reflexivity. }
  destruct (get_raw_value_align_exact pre c0 P (m3 ++ sbc) HU) as (ra & r1 & Hpre & Era & Ura & Ur1).
  (* the value and the blanks around it *)
  assert (Hparts : exists hs2 value, m3 = hs2 ++ value /\ forallb is_hspace hs2 = true /\
            match value with [] => True | c :: _ => is_hspace c = false end /\ ltrim_hspace m3 = value).
  { destruct (span_hspace_parts m3) as [B V]. exists (fst (span is_hspace m3)), (snd (span is_hspace m3)).
    split; [symmetry; apply span_app|]. auto. }
  destruct Hparts as (hs2 & value & Hm3 & Bhs2 & Hval & Hlt).
  rewrite Hm3, <- app_assoc in Ur1.
  destruct (uh_blanks_prefix hs2 Bhs2 r1 (value ++ sbc) Ur1) as (r1' & Hr1 & Ur1').
  (* unfold the function *)
  unfold parse_varname_op. cbn [negb]. rewrite Hu. cbn [bind]. fold M. rewrite Hv. cbn [bind].
  rewrite Hop. rewrite HP. rewrite Hs1, Era. cbn [bind].
  assert (Hskip : skip (length ra) (pre ++ c0) = Ok (r1 ++ c0)).
  { rewrite skip_ok by (rewrite Hpre, !app_length; lia).
    rewrite Hpre, <- app_assoc, skipn_app, Nat.sub_diag, skipn_all. reflexivity. }
  rewrite Hskip. cbn [bind].
  assert (Hsince : since (pre ++ c0) (r1 ++ c0) = ra).
  { rewrite Hpre, <- app_assoc. apply since_app. }
  rewrite Hsince. rewrite Hlt.
  assert (Hc0' : match c0 with [] => True | c :: _ => is_hspace c = false end).
  { destruct Hc0 as [->|(t & ->)]; [exact I|reflexivity]. }
  destruct value as [|x value'] eqn:Eval.
  - (* empty value: only blanks up to the comment *)
    simpl in Ur1'. apply (uh_all_blanks sbc) in Ur1'; [|exact Bsbc]. subst r1' r1.
    exists ra, (hs2 ++ sbc), [], [].
    assert (Hspan : next_bytes is_hspace ((hs2 ++ sbc) ++ c0) = (hs2 ++ sbc, c0)).
    { apply span_blanks_stop; [rewrite forallb_app, Bhs2, Bsbc; reflexivity|exact Hc0']. }
    rewrite Hspan. split; [reflexivity|]. split.
    + rewrite Hpre. cbn [app]. rewrite <- !app_assoc. reflexivity.
    + repeat split; try reflexivity. congruence.
  - destruct (uh_trailing_blanks sbc Bsbc r1' (x :: value') Ur1') as (mid & Hmid & Umid).
    assert (Hmid0 : match mid ++ sbc ++ c0 with [] => True | c :: _ => is_hspace c = false end).
    { destruct mid as [|c t]; [discriminate|]. cbn [app].
      destruct (uh_head c t) as [(t' & -> & _ & _)|[E' _]]; [reflexivity|].
      rewrite E' in Umid. inversion Umid; subst. exact Hval. }
    exists ra, hs2, mid, sbc.
    assert (Hspan : next_bytes is_hspace (r1 ++ c0) = (hs2, mid ++ sbc ++ c0)).
    { rewrite Hr1, Hmid, <- !app_assoc. apply span_blanks_stop; [exact Bhs2|exact Hmid0]. }
    rewrite Hspan. split; [reflexivity|]. split.
    + rewrite Hpre, Hr1, Hmid, <- !app_assoc. reflexivity.
    + split; [exact Umid|]. split; [exact Bsbc|]. split; [intros _; symmetry; exact Hsbc|discriminate].
Qed.

(* ---- what follows the first text token ---- *)

(* Expr returns nil only at the end, before a byte other than $, and at $$ *)
Lemma Expr_none_inv c0 c t : Expr (c0 :: c :: t) = Ok None -> c0 <> 36 \/ c = 36.
Proof.
  unfold Expr. set (n := length (c0 :: c :: t)).
  change (expr (S n) (c0 :: c :: t)) with (expr_body (expr n) (c0 :: c :: t)).
  unfold expr_body. destruct (N.eqb_spec c0 36) as [->|Hc0]; [|auto]. cbn [negb].
  destruct ((c =? 123) || (c =? 40)).
  { assert (Hn : n = S (S (length t))) by reflexivity.
    destruct (expr_brace_ok (expr n) (S (length t))) with (round := c =? 40) (s := 36 :: c :: t) as (r & E & _).
    - rewrite Hn. apply expr_ok.
    - simpl; lia.
    - simpl; lia.
    - rewrite E. discriminate. }
  destruct (N.eqb_spec c 36); [auto|].
  assert (Hskip : (r <- skip 2 (36 :: c :: t) ;; Ok (Some r)) <> Ok None).
  { rewrite skip_ok by (simpl; lia). discriminate. }
  destruct (existsb (N.eqb c) [62; 33; 60; 37; 63; 42; 64]); [intro H; contradiction|].
  unfold expr_alnum. destruct (fst (next_bytes (in_set alnum_u_spec) (c :: t))); cbn [bind].
  - intro H; contradiction.
  - rewrite skip_ok by (simpl; lia). cbn [bind]. discriminate.
Qed.

Definition starts_dollar_or_empty (s : str) : Prop :=
  match s with [] => True | c :: _ => c = 36 end.

Lemma tokenize_first_text s t rest : tokenize s = Ok ((t, false) :: rest) ->
  starts_dollar_or_empty (concat (map fst rest)).
Proof.
  unfold tokenize. cbn [tokenize_loop]. destruct s as [|c0 s']; [discriminate|].
  destruct (expr_advance (c0 :: s')) as [E0|(r & E0 & _)]; rewrite E0; cbn [bind].
  2:{ destruct (tokenize_loop Expr (length (c0 :: s')) r); cbn [bind]; discriminate. }
  destruct (loop_ok parse_other_step (length (c0 :: s')) (c0 :: s') (parse_other_step_ok _) ltac:(lia))
    as (s1 & E1 & S1 & N1).
  rewrite E1. cbn [bind].
  assert (Rest : forall s2 toks, tokenize_loop Expr (length (c0 :: s')) s2 = Ok toks ->
            (length s2 < length (c0 :: s'))%nat -> concat (map fst toks) = s2).
  { intros s2 toks Ht Hl.
    destruct (tokenize_loop_ok Expr (length s2) (Expr_ok _) (length (c0 :: s')) s2 ltac:(lia) Hl) as (toks' & Et & P & _).
    rewrite Ht in Et. injection Et as <-. rewrite app_nil_r in P. exact P. }
  destruct (since (c0 :: s') s1) as [|x other] eqn:Es.
  - assert (s1 = c0 :: s').
    { apply is_suffix_antisym_length; [exact S1|].
      pose proof (since_suffix _ _ S1) as Q. rewrite Es in Q. simpl in Q. rewrite Q. reflexivity. }
    subst s1. destruct (parse_other_none _ N1) as [?|(t' & Ht)]; [discriminate|].
    inversion Ht; subst c0 s'. cbn [skip_byte]. change (36 =? 36) with true. cbn iota.
    destruct (tokenize_loop Expr (length (36 :: t')) t') as [toks| |] eqn:Et; cbn [bind]; try discriminate.
    intro H; inversion H; subst. rewrite (Rest t' rest Et ltac:(simpl; lia)).
    destruct t' as [|c t'']; [exact I|].
    destruct (Expr_none_inv 36 c t'' E0) as [Hx|Hx]; [congruence|]. subst c.
    (* $$ would have been consumed by parseOther *)
    exfalso. unfold parse_other_step, orelse, st_string in N1. simpl in N1. discriminate.
  - destruct (tokenize_loop Expr (length (c0 :: s')) s1) as [toks| |] eqn:Et; cbn [bind]; try discriminate.
    intro H; inversion H; subst.
    assert (Hl : (length s1 < length (c0 :: s'))%nat).
    { assert (C : chops (c0 :: s') s1) by (apply since_nonempty_chops; [exact S1|rewrite Es; discriminate]).
      apply chops_length; exact C. }
    rewrite (Rest s1 rest Et Hl).
    destruct (parse_other_none _ N1) as [Hx|(t' & Hx)]; subst s1; [exact I|reflexivity].
Qed.

Lemma Expr_some_dollar s r : Expr s = Ok (Some r) -> exists t, s = 36 :: t.
Proof.
  unfold Expr. set (n := length s).
  change (expr (S n) s) with (expr_body (expr n) s). unfold expr_body.
  destruct s as [|c0 [|c t]]; try discriminate.
  destruct (N.eqb_spec c0 36) as [->|]; [eauto|]. discriminate.
Qed.

Lemma tokenize_first_expr s t rest : tokenize s = Ok ((t, true) :: rest) -> exists s', s = 36 :: s'.
Proof.
  unfold tokenize. cbn [tokenize_loop]. destruct s as [|c0 s']; [discriminate|].
  destruct (Expr (c0 :: s')) as [[r|]| |] eqn:E0; cbn [bind]; try discriminate.
  - intros _. eapply Expr_some_dollar; exact E0.
  - destruct (loop parse_other_step (c0 :: s')) as [s1| |]; cbn [bind]; try discriminate.
    destruct (since (c0 :: s') s1).
    + destruct (skip_byte 36 (c0 :: s')) as [s2|]; [|discriminate].
      destruct (tokenize_loop Expr (length (c0 :: s')) s2); cbn [bind]; discriminate.
    + destruct (tokenize_loop Expr (length (c0 :: s')) s1); cbn [bind]; discriminate.
Qed.

Lemma skip_spaces_app t R : match R with [] => True | c :: _ => c <> 32 end ->
  skip_spaces (t ++ R) = skip_spaces t ++ R.
Proof.
  intro HR. induction t as [|c t IH].
  - destruct R as [|c R']; [reflexivity|]. cbn [app skip_spaces].
    destruct (N.eqb_spec c 32); [contradiction|reflexivity].
  - cbn [app skip_spaces]. destruct (c =? 32); [exact IH|reflexivity].
Qed.

(* the text that matchVarassign hands to Varname *)
Lemma lexer1_rest (commented : bool) main toks : tokenize main = Ok toks ->
  tl_rest (if commented then tl_new toks else tl_lift skip_spaces (tl_new toks)) =
  (if commented then main else skip_spaces main).
Proof.
  intro Ht. destruct (tokenize_partition main) as (toks' & Et & P & _). rewrite Ht in Et.
  injection Et as <-. rewrite app_nil_r in P.
  destruct commented; [rewrite tl_rest_new; exact P|].
  destruct toks as [|[t [|]] rest].
  - simpl in P. subst main. reflexivity.
  - destruct (tokenize_first_expr _ _ _ Ht) as (s' & ->).
    unfold tl_new, tl_next, tl_lift, tl_rest. cbn [fst snd skip_spaces app].
    change (36 =? 32) with false. cbn iota. exact P.
  - pose proof (tokenize_first_text _ _ _ Ht) as HR.
    unfold tl_new, tl_next, tl_lift, tl_rest. cbn [fst snd].
    rewrite <- P. cbn [map concat fst]. symmetry. apply skip_spaces_app.
    destruct (concat (map fst rest)) as [|c R]; [exact I|]. simpl in HR. subst c. discriminate.
Qed.

(* SkipMixed(n) chops exactly n bytes off Rest() *)
Lemma tl_skip_mixed_length : forall fuel k m m', tl_skip_mixed fuel k m = Ok m' -> (0 <= k)%Z ->
  (Z.of_nat (length (tl_rest m')) + k = Z.of_nat (length (tl_rest m)))%Z.
Proof.
  induction fuel as [|f IH]; intros k m m' H Hk; [discriminate|].
  cbn [tl_skip_mixed] in H. destruct (Z.leb_spec k 0).
  { inversion H; subst. lia. }
  destruct (tl_next_expr m) as [[[text e] m1]|] eqn:En.
  - destruct (Z.ltb_spec (k - Z.of_nat (length text)) 0); [discriminate|].
    apply tl_next_expr_rest in En as [_ Er]. rewrite Er, app_length.
    specialize (IH _ _ _ H ltac:(lia)). cbn [fst]. lia.
  - destruct (Z.leb_spec (Z.min (Z.of_nat (length (fst m))) k) 0); [discriminate|].
    specialize (IH _ _ _ H ltac:(lia)).
    unfold tl_rest in *. cbn [fst snd] in *. rewrite !app_length in *. rewrite skipn_length in IH. lia.
Qed.

Lemma suffix_same_length a b s : is_suffix a s -> is_suffix b s -> length a = length b -> a = b.
Proof.
  intros (x & ->) (y & Hy) Hl.
  assert (Hxy : length x = length y).
  { apply (f_equal (@length N)) in Hy. rewrite !app_length in Hy. lia. }
  revert y Hy Hxy. induction x as [|c x IH]; intros [|d y] Hy Hxy; simpl in *; try lia; [auto|].
  inversion Hy; subst. eapply IH; eauto.
Qed.

(* the operator that matchVarassign finds in the current text token is the one that
   MkParser.Op finds in the whole rest *)
Lemma op_in_cur cur3 cur5 R :
  skip_byte 61 (match cur3 with
                | c :: t => if (c =? 33) || (c =? 43) || (c =? 58) || (c =? 63) then t else cur3
                | [] => cur3
                end) = Some cur5 ->
  match cur3 ++ R with [] => True | c :: _ => is_hspace c = false end /\
  mk_op (cur3 ++ R) = Some (cur5 ++ R).
Proof.
  destruct cur3 as [|c t]; [discriminate|].
  destruct (N.eqb_spec c 33) as [->|N1].
  { cbn [orb]. intro H. apply skip_byte_some in H. subst t. split; reflexivity. }
  destruct (N.eqb_spec c 43) as [->|N2].
  { cbn [orb]. intro H. apply skip_byte_some in H. subst t. split; reflexivity. }
  destruct (N.eqb_spec c 58) as [->|N3].
  { cbn [orb]. intro H. apply skip_byte_some in H. subst t. split; reflexivity. }
  destruct (N.eqb_spec c 63) as [->|N4].
  { cbn [orb]. intro H. apply skip_byte_some in H. subst t. split; reflexivity. }
  cbn [orb]. intro H. apply skip_byte_some in H. inversion H; subst. split; reflexivity.
Qed.

Lemma ltrim_blanks_app b x : forallb is_hspace b = true -> ltrim_hspace (b ++ x) = ltrim_hspace x.
Proof.
  intro Hb. induction b as [|b0 b IH]; [reflexivity|].
  cbn [forallb] in Hb. apply andb_true_iff in Hb as [H0 Hb].
  unfold ltrim_hspace in *. cbn [app span]. rewrite H0.
  destruct (span is_hspace (b ++ x)) eqn:E. cbn [snd]. rewrite <- (IH Hb). reflexivity.
Qed.

Lemma ltrim_ltrim_app y R : ltrim_hspace (ltrim_hspace y ++ R) = ltrim_hspace (y ++ R).
Proof.
  pose proof (span_app is_hspace y) as A. pose proof (span_all is_hspace y) as B.
  unfold ltrim_hspace at 2. rewrite <- A at 2. rewrite <- app_assoc.
  symmetry. apply ltrim_blanks_app. exact B.
Qed.

Lemma match_varassign_tail_facts (commented : bool) text T sr a :
  split T true = Ok sr ->
  match_varassign_tail commented text sr = Ok (Some a) ->
  exists v m1 m3,
    Varname (if commented then sr_main sr else skip_spaces (sr_main sr)) = Ok (v, m1) /\
    v <> [] /\
    mk_op (snd (next_bytes is_hspace m1)) = Some m3 /\
    va_value a = ltrim_hspace m3 /\
    comment_tail (va_split a) = comment_tail sr /\
    (va_value a = [] -> sr_space_before_comment (va_split a) = []) /\
    (va_value a <> [] -> sr_space_before_comment (va_split a) = sr_space_before_comment sr).
Proof.
  intros Hsplit Hdef. unfold match_varassign_tail in Hdef.
  destruct (tokenize (sr_main sr)) as [toks| |] eqn:Et; cbn [bind] in Hdef; try discriminate.
  cbv zeta in Hdef.
  pose proof (lexer1_rest commented (sr_main sr) toks Et) as HM.
  set (lexer1 := if commented then tl_new toks else tl_lift skip_spaces (tl_new toks)) in *.
  set (M := if commented then sr_main sr else skip_spaces (sr_main sr)) in *.
  assert (SM : is_suffix M (sr_main sr)).
  { unfold M. destruct commented; [apply is_suffix_refl|apply skip_spaces_suffix]. }
  rewrite HM in Hdef.
  destruct (varname_partition M) as (vname & mkrest & Ev & Hv). rewrite Ev in Hdef. cbn [bind] in Hdef.
  destruct (tl_skip_mixed _ _ lexer1) as [lexer2| |] eqn:E2; cbn [bind] in Hdef; try discriminate.
  assert (H2 : tl_rest lexer2 = mkrest).
  { apply (suffix_same_length _ _ M).
    - rewrite <- HM. eapply tl_skip_mixed_suffix; exact E2.
    - exists vname. symmetry; exact Hv.
    - pose proof (tl_skip_mixed_length _ _ _ _ E2) as L. rewrite HM in L.
      assert (Hl : (length mkrest <= length M)%nat) by (rewrite <- Hv, app_length; lia).
      specialize (L ltac:(lia)). lia. }
  destruct vname as [|v0 vname]; [discriminate|].
  destruct (next_bytes is_hspace (fst lexer2)) as [sav cur3] eqn:E3.
  pose proof (next_bytes_eq _ _ _ _ E3) as Hcur.
  assert (Bsav : forallb is_hspace sav = true).
  { pose proof (span_all is_hspace (fst lexer2)) as B. unfold next_bytes in E3. rewrite E3 in B. exact B. }
  match type of Hdef with context [skip_byte 61 ?c4] => destruct (skip_byte 61 c4) as [cur5|] eqn:E5 end; [|discriminate].
  set (R2 := concat (map fst (snd lexer2))).
  destruct (op_in_cur cur3 cur5 R2 E5) as [Hhead Hop].
  assert (Hm1 : mkrest = sav ++ cur3 ++ R2).
  { rewrite <- H2. unfold tl_rest. fold R2. rewrite Hcur, <- app_assoc. reflexivity. }
  assert (Hspan : next_bytes is_hspace mkrest = (sav, cur3 ++ R2)).
  { rewrite Hm1. apply span_blanks_stop; assumption. }
  exists (v0 :: vname), mkrest, (cur5 ++ R2).
  split; [exact Ev|]. split; [discriminate|]. split; [rewrite Hspan; exact Hop|].
  (* the value *)
  match type of Hdef with (if ?c then Panic else _) = _ => destruct c; [discriminate|] end.
  match type of Hdef with (let '(_, _) := ?c in _) = _ => destruct c as [vname' op] end.
  destruct (get_raw_value_align _ _) as [align| |]; cbn [bind] in Hdef; try discriminate.
  set (rest6 := tl_rest (tl_lift (fun s => snd (next_bytes is_hspace s)) (cur5, snd lexer2))) in *.
  assert (Hr6 : rest6 = ltrim_hspace cur5 ++ R2) by reflexivity.
  (* main is trimmed on the right, so is every suffix of it *)
  destruct (split_recombines _ _ _ Hsplit) as (pre & _ & _ & _ & Hrt & _).
  assert (Hmt : rtrim_hspace (sr_main sr) = sr_main sr) by (rewrite <- Hrt at 1; rewrite rtrim_idem; exact Hrt).
  assert (S5 : is_suffix (cur5 ++ R2) (sr_main sr)).
  { eapply is_suffix_trans; [|exact SM]. rewrite <- Hv, Hm1.
    destruct (mk_op_chops _ _ Hop) as (opc & _ & Hopc). rewrite Hopc.
    exists ((v0 :: vname) ++ sav ++ opc). rewrite <- !app_assoc. reflexivity. }
  assert (Hval : trim_hspace rest6 = ltrim_hspace (cur5 ++ R2)).
  { unfold trim_hspace. rewrite Hr6, ltrim_ltrim_app.
    apply (rtrim_suffix_fixed (sr_main sr)); [exact Hmt|].
    eapply is_suffix_trans; [|exact S5]. unfold ltrim_hspace. apply next_bytes_suffix. }
  rewrite Hval in Hdef.
  destruct (ltrim_hspace (cur5 ++ R2)) as [|x value']; inversion Hdef; subst a; cbn;
    repeat split; try reflexivity; congruence.
Qed.

(* ---- unescapeComment and leading blanks ---- *)

Lemma unescape_comment_loop_fuel_irrel : forall f1 f2 s, (length s < f1)%nat -> (length s < f2)%nat ->
  unescape_comment_loop f1 s = unescape_comment_loop f2 s.
Proof.
  induction f1 as [|f1 IH]; intros f2 s H1 H2; [lia|]. destruct f2 as [|f2]; [lia|].
  cbn [unescape_comment_loop].
  destruct (next_bytes comment_safe s) as [plain r] eqn:Esp.
  pose proof (next_bytes_eq _ _ _ _ Esp) as Eq.
  assert (Rec : forall r', (length r' < length s)%nat ->
            unescape_comment_loop f1 r' = unescape_comment_loop f2 r') by (intros; apply IH; lia).
  destruct plain as [|p0 plain'].
  2:{ rewrite Rec; [reflexivity|]. rewrite Eq, app_length. simpl. lia. }
  clear Eq Esp.
  destruct (skip_string [92; 35] s) as [r1|] eqn:E1.
  { rewrite Rec; [reflexivity|]. apply skip_string_some in E1. subst s. simpl. lia. }
  destruct (peek_is s 92 && (2 <=? length s)%nat) eqn:E2.
  { apply andb_true_iff in E2 as [_ Hl]. apply Nat.leb_le in Hl.
    rewrite skip_ok by exact Hl. cbn [bind]. rewrite Rec; [reflexivity|]. rewrite skipn_length. lia. }
  destruct (skip_byte 92 s) as [r3|] eqn:E3.
  { rewrite Rec; [reflexivity|]. apply skip_byte_some in E3. subst s. simpl. lia. }
  destruct (skip_string [91; 35] s) as [r4|] eqn:E4.
  { rewrite Rec; [reflexivity|]. apply skip_string_some in E4. subst s. simpl. lia. }
  destruct (skip_byte 91 s) as [r5|] eqn:E5.
  { rewrite Rec; [reflexivity|]. apply skip_byte_some in E5. subst s. simpl. lia. }
  reflexivity.
Qed.

Lemma uc_loop_step_safe f c s : comment_safe c = true ->
  unescape_comment_loop (S f) (c :: s) =
  (let (a, r) := span comment_safe s in
   '(m, cm) <- unescape_comment_loop f r ;; Ok ((c :: a) ++ m, cm)).
Proof.
  intro Hc. cbn [unescape_comment_loop]. unfold next_bytes. cbn [span]. rewrite Hc.
  destruct (span comment_safe s); reflexivity.
Qed.

Lemma uc_loop_step_run f s a0 a' r : span comment_safe s = (a0 :: a', r) ->
  unescape_comment_loop (S f) s = ('(m, cm) <- unescape_comment_loop f r ;; Ok ((a0 :: a') ++ m, cm)).
Proof. intro H. cbn [unescape_comment_loop]. unfold next_bytes. rewrite H. reflexivity. Qed.

Lemma unescape_comment_cons_safe c s : comment_safe c = true ->
  unescape_comment (c :: s) = ('(m, cm) <- unescape_comment s ;; Ok (c :: m, cm)).
Proof.
  intro Hc. unfold unescape_comment.
  change (S (length (c :: s))) with (S (S (length s))).
  rewrite (uc_loop_step_safe _ c s Hc).
  destruct (span comment_safe s) as [a r] eqn:Esp.
  pose proof (next_bytes_eq comment_safe s a r Esp) as Eq.
  destruct a as [|a0 a'].
  - simpl in Eq. subst r. destruct (unescape_comment_loop (S (length s)) s) as [[m cm]| |]; reflexivity.
  - rewrite (uc_loop_step_run (length s) s a0 a' r Esp).
    rewrite (unescape_comment_loop_fuel_irrel (S (length s)) (length s) r).
    + destruct (unescape_comment_loop (length s) r) as [[m cm]| |]; reflexivity.
    + rewrite Eq, app_length. simpl. lia.
    + rewrite Eq, app_length. simpl. lia.
Qed.

Lemma hspace_comment_safe c : is_hspace c = true -> comment_safe c = true.
Proof.
  unfold is_hspace. intro H. apply orb_true_iff in H as [H|H]; apply N.eqb_eq in H; subst; reflexivity.
Qed.

Lemma unescape_comment_leading_blanks lc s1 m c : forallb is_hspace lc = true ->
  unescape_comment (lc ++ s1) = Ok (m, c) ->
  exists m', m = lc ++ m' /\ unescape_comment s1 = Ok (m', c).
Proof.
  intro Hb. revert m. induction lc as [|b lc IH]; intros m H; [exists m; auto|].
  cbn [forallb] in Hb. apply andb_true_iff in Hb as [Hb0 Hb].
  cbn [app] in H. rewrite (unescape_comment_cons_safe b (lc ++ s1) (hspace_comment_safe b Hb0)) in H.
  destruct (unescape_comment (lc ++ s1)) as [[m0 c0]| |] eqn:E; cbn [bind] in H; try discriminate.
  inversion H; subst. destruct (IH Hb m0 eq_refl) as (m' & -> & Hm'). exists m'. auto.
Qed.

(* ---- gluing matchVarassign and VaralignSplitter.split ---- *)

Lemma split_true_inv T sr : split T true = Ok sr ->
  exists main0 c0, unescape_comment T = Ok (main0, c0) /\ sr_main sr = rtrim_hspace main0 /\
    main0 = sr_main sr ++ sr_space_before_comment sr /\ comment_tail sr = c0 /\
    sr_comment sr = skipn 1 c0 /\ sr_has_comment sr = nonempty c0 /\ peek_is T 9 = false.
Proof.
  unfold split. destruct (peek_is T 9); [discriminate|].
  destruct (unescape_comment T) as [[main0 c0]| |] eqn:Eu; cbn [bind]; try discriminate.
  intro H; inversion H; subst sr; clear H. exists main0, c0. cbn.
  destruct (unescape_comment_exact _ _ _ Eu) as (pre & _ & _ & Hc0).
  split; [reflexivity|]. split; [reflexivity|]. split; [apply rtrim_hspace_skipn|].
  split; [|split; [|auto]].
  - unfold comment_tail. cbn. destruct Hc0 as [->|(t & ->)]; reflexivity.
  - destruct c0; reflexivity.
Qed.

Lemma varalign_split_of_parts text lc s1 vo sbv rest :
  ~ In 10 text -> parse_leading_comment true text = (lc, s1) ->
  parse_varname_op true s1 = Ok (vo, sbv, rest) ->
  exists p, varalign_split text true = Ok p /\ vp_leading_comment p = lc /\
            vp_varname_op p = vo /\ vp_space_before_value p = sbv.
Proof.
  intros Hn Hlc Hvo. unfold varalign_split.
  destruct (has_suffix [10] text) eqn:Hs; [exfalso; apply Hn, has_suffix_nl_in; exact Hs|].
  rewrite Hlc, Hvo. cbn [bind].
  pose proof (parse_leading_comment_app _ _ _ _ Hlc) as E1.
  pose proof (parse_varname_op_post true s1) as P2. rewrite Hvo in P2.
  pose proof (parse_value_post rest) as P3.
  destruct (parse_value rest) as [[[v sa] c]| |]; cbn [bind]; [eexists; cbn; eauto|contradiction|].
  exfalso. apply Hn. rewrite E1, P2. apply in_or_app; right. apply in_or_app; right.
  apply in_or_app; right. exact P3.
Qed.

Lemma Expr_nondollar c t : c <> 36 -> Expr (c :: t) = Ok None.
Proof.
  intro Hc. unfold Expr. set (n := length (c :: t)).
  change (expr (S n) (c :: t)) with (expr_body (expr n) (c :: t)). unfold expr_body.
  destruct t as [|d t']; [reflexivity|].
  destruct (N.eqb_spec c 36); [contradiction|]. reflexivity.
Qed.

(* a text that starts with a byte that cannot start a variable name *)
Lemma Varname_no_start c t :
  in_set builtin_variable_spec c = false -> c <> 46 -> in_set varbase_spec c = false -> c <> 36 ->
  Varname (c :: t) = Ok ([], c :: t).
Proof.
  intros Hb Hdot Hvb Hd. unfold Varname, varname. rewrite Hb.
  assert (H46 : skip_byte 46 (c :: t) = None).
  { cbn [skip_byte]. destruct (N.eqb_spec c 46); [contradiction|reflexivity]. }
  unfold skip_byte_opt. rewrite H46.
  assert (Hloop : loop (bytes_or_expr Expr varbase_spec) (c :: t) = Ok (c :: t)).
  { unfold loop. cbn [iterate]. unfold bytes_or_expr at 1, orelse, st_bytes. cbn [span]. rewrite Hvb.
    rewrite (Expr_nondollar c t Hd). reflexivity. }
  rewrite Hloop. cbn [bind]. rewrite H46. rewrite since_self. reflexivity.
Qed.

Lemma Varname_hspace_head c t : is_hspace c = true -> Varname (c :: t) = Ok ([], c :: t).
Proof.
  unfold is_hspace. intro H. apply orb_true_iff in H as [H|H]; apply N.eqb_eq in H; subst c;
    apply Varname_no_start; try reflexivity; discriminate.
Qed.

Lemma Varname_nil : Varname [] = Ok ([], []).
Proof. reflexivity. Qed.

Lemma rtrim_all_blanks b : forallb is_hspace b = true -> rtrim_hspace b = [].
Proof.
  induction b as [|c b IH]; intro H; [reflexivity|].
  cbn [forallb] in H. apply andb_true_iff in H as [Hc Hb].
  cbn [rtrim_hspace]. rewrite (IH Hb), Hc. reflexivity.
Qed.

Lemma rtrim_app_blanks_front b y : rtrim_hspace y <> [] -> rtrim_hspace (b ++ y) = b ++ rtrim_hspace y.
Proof.
  intro Hy. induction b as [|c b IH]; [reflexivity|].
  cbn [app rtrim_hspace]. rewrite IH.
  destruct (b ++ rtrim_hspace y) eqn:E; [|reflexivity].
  apply app_eq_nil in E as [_ E]. contradiction.
Qed.

Lemma rtrim_nil_blanks y : rtrim_hspace y = [] -> forallb is_hspace y = true.
Proof.
  induction y as [|c y IH]; intro H; [reflexivity|].
  cbn [rtrim_hspace] in H. destruct (rtrim_hspace y) eqn:R; [|discriminate].
  destruct (is_hspace c) eqn:Hc; [|discriminate]. cbn [forallb]. rewrite Hc, IH; reflexivity.
Qed.

Lemma skip_spaces_blanks lc x : forallb is_hspace lc = true ->
  match x with [] => True | c :: _ => is_hspace c = false end ->
  skip_spaces (lc ++ x) = x \/ exists t, skip_spaces (lc ++ x) = 9 :: t.
Proof.
  intros Hb Hx. induction lc as [|b lc IH].
  - left. destruct x as [|c t]; [reflexivity|]. cbn [app skip_spaces].
    destruct (N.eqb_spec c 32) as [->|]; [discriminate|reflexivity].
  - cbn [forallb] in Hb. apply andb_true_iff in Hb as [Hb0 Hb].
    cbn [app skip_spaces]. destruct (N.eqb_spec b 32) as [->|Nb]; [exact (IH Hb)|].
    right. unfold is_hspace in Hb0. apply orb_true_iff in Hb0 as [H|H]; apply N.eqb_eq in H; [contradiction|].
    subst b. eauto.
Qed.

Lemma rtrim_head y c t : rtrim_hspace y = c :: t -> exists t', y = c :: t'.
Proof.
  intro H. destruct (rtrim_hspace_app y) as (sp & E & _). rewrite H in E. eexists. exact E.
Qed.

Definition va_full_law (text : str) (a : varassign) : Prop :=
  exists (p : varalign_parts) (mid : str),
    varalign_split text true = Ok p /\
    text = (vp_leading_comment p ++ vp_varname_op p ++ vp_space_before_value p) ++ mid ++
           sr_space_before_comment (va_split a) ++ comment_tail (va_split a) /\
    unescape_hash mid = va_value a.

Lemma assemble (commented : bool) text lc s1 T sr a main0' c0 :
  ~ In 10 text ->
  parse_leading_comment true text = (lc, s1) ->
  unescape_comment s1 = Ok (main0', c0) ->
  (if commented then sr_main sr else skip_spaces (sr_main sr)) = rtrim_hspace main0' ->
  main0' = rtrim_hspace main0' ++ sr_space_before_comment sr ->
  comment_tail sr = c0 ->
  split T true = Ok sr ->
  match_varassign_tail commented text sr = Ok (Some a) ->
  va_full_law text a.
Proof.
  intros Hn Hlc Hs1 HM Hsbc Hct Hsplit Htail.
  destruct (match_varassign_tail_facts commented text T sr a Hsplit Htail)
    as (v & m1 & m3 & Hv & _ & Hop & Hval & Hct' & Hsb0 & Hsb1).
  rewrite HM in Hv.
  destruct (parse_varname_op_core s1 main0' c0 v m1 m3 Hs1 Hv Hop)
    as (vo & sbv & mid & sbc' & Hpvo & Hs1eq & Umid & _ & Hne & Hnil).
  destruct (varalign_split_of_parts text lc s1 vo sbv _ Hn Hlc Hpvo) as (p & Hp & P1 & P2 & P3).
  exists p, mid. split; [exact Hp|]. rewrite P1, P2, P3, Hct', Hct, Umid. split; [|symmetry; exact Hval].
  assert (Hsbc' : sbc' = sr_space_before_comment (va_split a)).
  { destruct (va_value a) as [|x val] eqn:Ev.
    - rewrite Hsb0 by reflexivity. apply Hnil. rewrite <- Hval. reflexivity.
    - rewrite Hsb1 by discriminate.
      assert (Hx : rtrim_hspace main0' ++ sbc' = main0') by (apply Hne; rewrite <- Hval; discriminate).
      rewrite Hsbc in Hx at 2. apply app_inv_head in Hx. exact Hx. }
  rewrite <- Hsbc'. rewrite (parse_leading_comment_app _ _ _ _ Hlc), Hs1eq, <- !app_assoc. reflexivity.
Qed.

(* the whole law, for every accepted single-raw-line assignment without newline *)
Lemma varassign_recombines text a : ~ In 10 text -> parse_varassign text = Ok (Some a) -> va_full_law text a.
Proof.
  intros Hn. unfold parse_varassign.
  destruct (split text true) as [first| |] eqn:E1; cbn [bind]; try discriminate.
  destruct (split_true_inv _ _ E1) as (main0 & c0 & Eu & Hmain & Hm0 & Hct & Hcm & Hhc & Htab).
  pose proof (unescape_comment_post text) as Post. rewrite Eu in Post.
  destruct Post as (pre & Htext & HUpre & Hc0 & Hprehash).
  unfold match_varassign.
  destruct (negb (nonempty (sr_main first)) && sr_has_comment first && has_prefix [35] text) eqn:C.
  - (* a commented assignment: #VAR= value *)
    apply andb_true_iff in C as [C Hp]. apply andb_true_iff in C as [_ Hhas].
    apply has_prefix_app in Hp as (t1 & Ht1). cbn [app] in Ht1.
    (* the comment is the whole line *)
    assert (Hpre : pre = []).
    { destruct pre as [|c pre']; [reflexivity|]. exfalso. rewrite Ht1 in Htext. cbn [app] in Htext.
      inversion Htext; subst c. eapply Hprehash; reflexivity. }
    subst pre. cbn [app] in Htext.
    assert (Hcomment : sr_comment first = t1) by (rewrite Hcm, <- Htext, Ht1; reflexivity).
    rewrite Hcomment.
    destruct (next_bytes is_hspace t1) as [hs crest] eqn:Ehs.
    destruct (nonempty hs || negb (nonempty crest)) eqn:Cond; [discriminate|].
    apply orb_false_iff in Cond as [Chs Ccr]. destruct hs; [|discriminate].
    pose proof (next_bytes_eq _ _ _ _ Ehs) as Et1. cbn [app] in Et1. subst crest.
    assert (Hhead : match t1 with [] => False | c :: _ => is_hspace c = false end).
    { destruct t1 as [|c t1']; [discriminate|].
      pose proof (span_rest_head is_hspace (c :: t1')) as H. unfold next_bytes in Ehs. rewrite Ehs in H. exact H. }
    rewrite Ht1. rewrite skip_ok by (simpl; lia). cbn [bind skipn].
    destruct (split t1 true) as [sr| |] eqn:E2; cbn [bind]; try discriminate.
    intro Htail.
    destruct (split_true_inv _ _ E2) as (main1 & c1 & Eu1 & Hmain1 & Hm1 & Hct1 & _).
    assert (Hlc : parse_leading_comment true (35 :: t1) = ([35], t1)).
    { unfold parse_leading_comment. destruct t1 as [|c t1']; [contradiction|].
      assert (Hc32 : (c =? 32) = false).
      { unfold is_hspace in Hhead. apply orb_false_iff in Hhead as [H _]. exact H. }
      unfold has_prefix. cbn [strip_prefix]. change (35 =? 35) with true. cbn iota.
      rewrite N.eqb_sym, Hc32. reflexivity. }
    rewrite <- Ht1 in *.
    apply (assemble true text [35] t1 t1 sr a main1 c1 Hn); try assumption.
    rewrite Hmain1 in Hm1. exact Hm1.
  - (* an ordinary assignment, possibly indented with spaces *)
    intro Htail.
    (* the line does not start with # *)
    assert (Hnohash : forall t, text <> 35 :: t).
    { intros t Ht. assert (Hpre : pre = []).
      { destruct pre as [|c pre']; [reflexivity|]. exfalso. rewrite Ht in Htext. cbn [app] in Htext.
        inversion Htext; subst c. eapply Hprehash; reflexivity. }
      subst pre. cbn [app] in Htext. cbn in HUpre.
      assert (Hm : sr_main first = []) by (rewrite Hmain, HUpre; reflexivity).
      rewrite Hm, Hhc, <- Htext, Ht in C. cbn in C. discriminate. }
    destruct (parse_leading_comment true text) as [lc s1] eqn:Hlc.
    pose proof (parse_leading_comment_app _ _ _ _ Hlc) as Htx.
    (* lc consists of blanks and s1 does not start with a blank *)
    assert (Hshape : forallb is_hspace lc = true /\ match s1 with [] => True | c :: _ => is_hspace c = false end).
    { unfold parse_leading_comment in Hlc.
      destruct (has_prefix [35; 32] text) eqn:Hp.
      { apply has_prefix_app in Hp as (r & Hr). exfalso. eapply Hnohash. exact Hr. }
      destruct (skip_string [35] text) as [r|] eqn:Hs.
      { apply skip_string_some in Hs. exfalso. eapply Hnohash. exact Hs. }
      destruct (skip_byte 32 text) as [r1|] eqn:H32.
      - apply skip_byte_some in H32. inversion Hlc; subst s1 lc.
        pose proof (next_bytes_app is_hspace r1) as A.
        assert (Hsince : since text (snd (next_bytes is_hspace r1)) = 32 :: fst (next_bytes is_hspace r1)).
        { rewrite H32. rewrite <- A at 1.
          change (32 :: (fst (next_bytes is_hspace r1) ++ snd (next_bytes is_hspace r1)))
            with ((32 :: fst (next_bytes is_hspace r1)) ++ snd (next_bytes is_hspace r1)).
          apply since_app. }
        rewrite Hsince. split; [|apply span_rest_head].
        cbn [forallb]. unfold next_bytes. rewrite (span_all is_hspace r1). reflexivity.
      - inversion Hlc; subst s1 lc. rewrite since_self. split; [reflexivity|].
        destruct text as [|c t]; [exact I|].
        unfold is_hspace. apply orb_false_iff. split.
        + cbn [skip_byte] in H32. destruct (c =? 32); [discriminate|reflexivity].
        + cbn [peek_is] in Htab. exact Htab. }
    destruct Hshape as [Blc Hs1head].
    rewrite Htx in Eu.
    destruct (unescape_comment_leading_blanks lc s1 main0 c0 Blc Eu) as (main0' & Hm0' & Eu1).
    (* the text that matchVarassign parses is the one that the splitter parses *)
    destruct (match_varassign_tail_facts false text text first a E1 Htail)
      as (v & m1 & m3 & Hv & Hvne & Hop & _).
    assert (HM : skip_spaces (sr_main first) = rtrim_hspace main0' /\ rtrim_hspace main0' <> []).
    { destruct (rtrim_hspace main0') as [|x0 x'] eqn:Ex.
      - (* only blanks: no variable name *)
        exfalso. pose proof (rtrim_nil_blanks _ Ex) as Bm.
        assert (Hall : rtrim_hspace main0 = []).
        { apply rtrim_all_blanks. rewrite Hm0', forallb_app, Blc, Bm. reflexivity. }
        rewrite Hmain, Hall in Hv. cbn [skip_spaces] in Hv. rewrite Varname_nil in Hv.
        inversion Hv; subst. contradiction.
      - assert (Hrt : rtrim_hspace main0 = lc ++ x0 :: x').
        { rewrite Hm0', rtrim_app_blanks_front by (rewrite Ex; discriminate). rewrite Ex. reflexivity. }
        assert (Hx0 : is_hspace x0 = false).
        { destruct (rtrim_head _ _ _ Ex) as (t' & Hm').
          destruct (unescape_comment_exact _ _ _ Eu1) as (pre1 & Hs1 & HU1 & _).
          destruct pre1 as [|c1 pre1']; [simpl in HU1; rewrite HU1 in Hm'; discriminate|].
          rewrite Hs1 in Hs1head. cbn [app] in Hs1head.
          rewrite HU1 in Hm'.
          destruct (uh_head c1 pre1') as [(t'' & _ & _ & E)|[E _]]; rewrite E in Hm'; inversion Hm'; subst.
          + reflexivity.
          + exact Hs1head. }
        rewrite Hmain, Hrt.
        destruct (skip_spaces_blanks lc (x0 :: x') Blc Hx0) as [Hss|(t & Hss)].
        + split; [exact Hss|discriminate].
        + exfalso. rewrite Hmain, Hrt, Hss in Hv. rewrite Varname_hspace_head in Hv by reflexivity.
          inversion Hv; subst. contradiction. }
    destruct HM as [HM Hxne].
    apply (assemble false text lc s1 text first a main0' c0 Hn); try assumption.
    (* main0' = rtrim main0' ++ spaceBeforeComment *)
    assert (Hrt : rtrim_hspace main0 = lc ++ rtrim_hspace main0').
    { rewrite Hm0'. apply rtrim_app_blanks_front. exact Hxne. }
    rewrite Hmain, Hrt, Hm0', <- app_assoc in Hm0. apply app_inv_head in Hm0. exact Hm0.
Qed.
