(* C14, part C: the four rewrite kinds (on trees), then the link to the model:
   whatever simplify_word / simplify_yesno / simplify_match / check_and return
   has the shape the theorems are about. *)
From PV Require Import Lib.Bytes Gen.CondSimpSets Spec.BmakeCond Model.CondSimp
  Proofs.CondSimpA Proofs.CondSimpB Proofs.CondSimpNum.
From Coq Require Import ZifyBool ZifyN ZifyNat.
Open Scope N_scope.

(* ================= on trees ================= *)

(* ---- :Mword / :Nword  ->  == word / != word ---- *)
Theorem word_tree_preserves e v pms pat positive from_empty neg add_u quoted d s :
  no_dollar pat = true ->
  forallb plain_byte pat = true -> pat <> [] ->
  (quoted = true \/ try_parse_number pat = None) ->
  eval_expr e v pms = Some (d, s) -> wordlike s ->
  (add_u = false -> from_empty = true -> d <> DUndef) ->
  (from_empty = false -> positive = true -> truthy pat false = true) ->
  (positive = false -> s <> [] /\ (from_empty = false -> truthy s false = true)) ->
  preserves e
    (from_shape neg from_empty v (pms ++ [if positive then ModM pat else ModN pat]))
    (CCmp (LExpr v (u_mods add_u ++ pms)) (Bool.eqb neg positive) (rhs_leaf quoted pat)).
Proof.
  intros Hnd Hlit Hne Hq Hev Hs Hdef Hbare HN.
  apply (core_preserves e v pms pms pat pat (fun x => x) positive from_empty neg add_u quoted) with (d := d) (s := s);
    auto.
  - apply expand_pat_literal. exact Hnd.
  - intros x _. apply str_match_literal. exact Hlit.
  - intros Hfe Hpos Hm. rewrite str_match_literal in Hm by exact Hlit.
    apply str_eqb_spec in Hm. subst s. auto.
Qed.

(* a pattern made of [xX] classes has no nested reference *)
Lemma yn_pattern_no_dollar p ls : yn_pattern p ls -> no_dollar p = true.
Proof.
  induction 1 as [|a b l p ls H _ IH]; [reflexivity|].
  repeat (apply no_dollar_cons; split); try exact IH; unfold is_upper, is_lower in H; lia.
Qed.

(* ---- :M[yY][eE][sS]  ->  :tl} == yes ---- *)
Theorem yesno_tree_preserves e v pms pat ls positive from_empty neg add_u d s :
  yn_pattern pat ls -> ls <> [] ->
  eval_expr e v pms = Some (d, s) -> wordlike s ->
  (add_u = false -> from_empty = true -> d <> DUndef) ->
  (positive = false -> s <> [] /\ (from_empty = false -> truthy s false = true)) ->
  preserves e
    (from_shape neg from_empty v (pms ++ [if positive then ModM pat else ModN pat]))
    (CCmp (LExpr v (u_mods add_u ++ pms ++ [ModTl])) (Bool.eqb neg positive) (rhs_leaf false ls)).
Proof.
  intros Hyn Hne Hev Hs Hdef HN.
  pose proof (yn_pattern_lower _ _ Hyn) as Hlow.
  apply (core_preserves e v pms (pms ++ [ModTl]) pat ls lower positive from_empty neg add_u false) with (d := d) (s := s);
    auto.
  - apply expand_pat_literal. eapply yn_pattern_no_dollar. exact Hyn.
  - intros x _. apply str_match_yn. exact Hyn.
  - intros d0 s0 H. rewrite app_assoc. rewrite (eval_expr_snoc _ _ _ ModTl _ _ H). reflexivity.
  - right. apply alpha_not_number; [exact Hne|]. apply lower_is_alpha. exact Hlow.
  - (* a word that matches consists of letters: as a bare expression it is "true" *)
    intros _ _ Hm. rewrite (str_match_yn _ _ _ Hyn) in Hm. apply str_eqb_spec in Hm.
    assert (Hal : forallb is_alpha s = true) by (eapply lower_alpha_of_lower; eassumption).
    assert (Hsne : s <> []) by (intros ->; simpl in Hm; congruence).
    unfold truthy. rewrite (alpha_not_number s Hsne Hal). destruct s; [congruence|reflexivity].
Qed.

(* ---- !empty(V:Mpat) -> ${V:Mpat} [!= ""] ---- *)
Theorem match_tree_equivalent e v ms (neg may : bool) d r :
  eval_expr e v ms = Some (d, r) ->
  d <> DUndef ->                                  (* the variable is defined, as pkglint assumed *)
  nonempty (skip_cspace r) = nonempty r ->         (* no leading \v \f \r *)
  (may = false -> r <> [] -> truthy r false = true) ->   (* what mayMatchNumber = false promises *)
  equivalent e
    (if neg then CNot (CEmpty v ms) else CEmpty v ms)
    (let inner := if may then CCmp (LExpr v ms) false (LQuoted []) else CLeaf (LExpr v ms) in
     if neg then inner else CNot inner).
Proof.
  intros Hev Hd Hsp Hmay. unfold equivalent.
  assert (He : eval e (CEmpty v ms) = Some (tri_of_bool (negb (nonempty r)))).
  { rewrite (eval_empty _ _ _ _ _ Hev). rewrite Hsp. reflexivity. }
  assert (Hi : eval e (if may then CCmp (LExpr v ms) false (LQuoted []) else CLeaf (LExpr v ms))
               = Some (tri_of_bool (nonempty r))).
  { destruct may.
    - rewrite (eval_cmp_empty _ _ _ _ _ _ Hev). rewrite tri_of_def_defined by exact Hd.
      destruct r; reflexivity.
    - rewrite (eval_bare _ _ _ _ _ Hev). rewrite tri_of_def_defined by exact Hd.
      destruct r as [|c r]; [reflexivity|]. rewrite Hmay by (reflexivity || discriminate). reflexivity. }
  cbv zeta. destruct neg; rewrite ?eval_not, He, Hi; destruct (nonempty r); reflexivity.
Qed.

(* ---- defined(V) && !empty(V...)  ->  !empty(V...) ---- *)
Theorem and_tree_equivalent e v ms :
  (e v = None -> forall d r, eval_expr e v ms = Some (d, r) -> skip_cspace r = []) ->
  equivalent e (CAnd (CDefined v) (CNot (CEmpty v ms))) (CNot (CEmpty v ms)).
Proof.
  intros H. unfold equivalent. cbn [eval]. destruct (e v) as [x|] eqn:Ev; cbn [tri_of_bool].
  - reflexivity.
  - destruct (eval_expr e v ms) as [[d r]|] eqn:Ee; [|reflexivity].
    rewrite (H eq_refl d r eq_refl). reflexivity.
Qed.

(* modifiers that cannot make a value out of nothing: everything in the fragment
   except :U with a non-empty default *)
Definition keeps_empty (m : modifier) : bool :=
  match m with ModU dflt => match dflt with [] => true | _ => false end | _ => true end.

Lemma apply_mods_keeps_empty e ms : forallb keeps_empty ms = true ->
  forall d0 d r, d0 <> DRegular -> apply_mods e ms (d0, []) = Some (d, r) -> r = [].
Proof.
  induction ms as [|m ms IH]; intros Hk d0 d r Hd0 H; simpl in *.
  - congruence.
  - apply andb_true_iff in Hk as [Hm Hk]. destruct m; simpl in *; try discriminate.
    + destruct (expand_pat e pat); [|discriminate]. eapply IH; [exact Hk|exact Hd0|exact H].
    + destruct (expand_pat e pat); [|discriminate]. eapply IH; [exact Hk|exact Hd0|exact H].
    + eapply IH; [exact Hk|exact Hd0|exact H].
    + destruct dflt; [|discriminate]. destruct d0; [congruence| |];
        (eapply IH; [exact Hk| |exact H]; discriminate).
Qed.

Theorem and_tree_equivalent_fragment e v ms :
  forallb keeps_empty ms = true ->
  equivalent e (CAnd (CDefined v) (CNot (CEmpty v ms))) (CNot (CEmpty v ms)).
Proof.
  intros Hk. apply and_tree_equivalent. intros Hv d r H.
  unfold eval_expr in H. rewrite Hv in H.
  rewrite (apply_mods_keeps_empty e ms Hk DUndef d r) by (assumption || discriminate). reflexivity.
Qed.

(* ================= the model's rewrites have these shapes ================= *)

Lemma in_set_false_In set c : in_set set c = false -> ~ In c set.
Proof.
  unfold in_set. intros H Hin. assert (existsb (N.eqb c) set = true).
  { apply existsb_exists. exists c. split; [exact Hin|apply N.eqb_refl]. }
  congruence.
Qed.

Lemma in_set_true_In set c : in_set set c = true -> In c set.
Proof.
  unfold in_set. intros H. apply existsb_exists in H as (x & Hin & Hx). apply N.eqb_eq in Hx. subst. exact Hin.
Qed.

(* a pattern over a byte set that lacks '$' has no nested reference *)
Lemma set_no_dollar set : in_set set 36 = false ->
  forall p, forallb (in_set set) p = true -> no_dollar p = true.
Proof.
  intros Hset. induction p as [|c p IH]; [reflexivity|]. cbn [forallb]. intros H.
  apply andb_true_iff in H as [Hc Hp]. apply no_dollar_cons. split; [|apply IH; exact Hp].
  intros ->. congruence.
Qed.

(* the byte-set gates as coded today: neither lets a '$' through *)
Lemma lit_pattern_no_dollar p : forallb (in_set lit_pattern_set) p = true -> no_dollar p = true.
Proof. apply set_no_dollar. vm_compute. reflexivity. Qed.

Lemma simple_mod_no_dollar p : forallb (in_set simple_mod_set) p = true -> no_dollar p = true.
Proof. apply set_no_dollar. vm_compute. reflexivity. Qed.

(* MatchMatch's "exact" means: none of the bytes Str_Match treats specially *)
Lemma exact_plain p : existsb (in_set match_special_set) p = false -> forallb plain_byte p = true.
Proof.
  induction p as [|c p IH]; [reflexivity|]. cbn [existsb forallb]. intros H. apply orb_false_iff in H as [Hc Hp].
  rewrite (IH Hp), andb_true_r. apply in_set_false_In in Hc. unfold plain_byte.
  assert (Hall : forall x, In x [42; 63; 91; 92] -> In x match_special_set).
  { intros x Hx. unfold match_special_set. simpl in *. intuition. }
  destruct (N.eqb_spec c 42) as [->|]; [exfalso; apply Hc, Hall; simpl; auto|].
  destruct (N.eqb_spec c 63) as [->|]; [exfalso; apply Hc, Hall; simpl; auto|].
  destruct (N.eqb_spec c 91) as [->|]; [exfalso; apply Hc, Hall; simpl; auto|].
  destruct (N.eqb_spec c 92) as [->|]; [exfalso; apply Hc, Hall; simpl; auto 6|].
  reflexivity.
Qed.

(* the bytes simplifyWord accepts in a pattern are not white space *)
Lemma lit_pattern_wordlike p : forallb (in_set lit_pattern_set) p = true -> wordlike p.
Proof.
  assert (Hset : forallb (fun c => negb (is_cspace c)) lit_pattern_set = true) by (vm_compute; reflexivity).
  rewrite forallb_forall in Hset.
  induction p as [|c p IH]; [reflexivity|]. cbn [forallb]. intros H. apply andb_true_iff in H as [Hc Hp].
  apply wordlike_cons. split; [|apply IH; exact Hp].
  apply in_set_true_In in Hc. specialize (Hset c Hc). destruct (is_cspace c); [discriminate|reflexivity].
Qed.

Lemma match_match_inv m ok positive pattern exact :
  match_match m = (ok, positive, pattern, exact) -> ok = true ->
  m = (if positive then 77 else 78) :: pattern /\
  exact = negb (existsb (in_set match_special_set) pattern).
Proof.
  unfold match_match. destruct m as [|c p]; [intros H; inversion H; discriminate|].
  destruct ((c =? 77) || (c =? 78)) eqn:E; intros H; inversion H; subst; [|discriminate].
  intros _. split; [|reflexivity].
  destruct (N.eqb_spec c 77) as [->|]; [reflexivity|].
  destruct (N.eqb_spec c 78) as [->|]; [reflexivity|]. simpl in E. discriminate.
Qed.

Lemma classify_mod_MN (positive : bool) pat :
  classify_mod ((if positive then 77 else 78) :: pat) = if positive then ModM pat else ModN pat.
Proof. destruct positive; reflexivity. Qed.

Lemma has_U_classify ms : has_modifier s_U ms = true -> existsb is_ModU (map classify_mod ms) = true.
Proof.
  unfold has_modifier. induction ms as [|m ms IH]; [discriminate|]. cbn [existsb map]. intros H.
  apply orb_true_iff in H as [H|H]; [|rewrite (IH H); apply orb_true_r].
  unfold has_prefix, s_U in H. destruct m as [|c m']; cbn [strip_prefix] in H; [discriminate|].
  destruct (N.eqb_spec 85 c) as [<-|]; [reflexivity|discriminate].
Qed.

(* without a modifier that starts with U there is no :U in the chain *)
Lemma no_U_keeps_empty ms : has_modifier s_U ms = false -> forallb keeps_empty (map classify_mod ms) = true.
Proof.
  unfold has_modifier. induction ms as [|m ms IH]; [reflexivity|]. cbn [existsb map forallb]. intros H.
  apply orb_false_iff in H as [Hm H]. rewrite (IH H), andb_true_r.
  unfold has_prefix, s_U in Hm. destruct m as [|c m']; [reflexivity|]. cbn [strip_prefix] in Hm.
  destruct (N.eqb_spec 85 c) as [<-|Hc]; [discriminate|].
  destruct (classify_mod (c :: m')) as [? | ? | | d | ?] eqn:E; try reflexivity.
  (* classify_mod gives :U only for a modifier that starts with U *)
  exfalso. apply Hc. unfold classify_mod in E.
  repeat match type of E with
         | context [match ?x with _ => _ end] => destruct x; try discriminate E
         end.
  reflexivity.
Qed.

(* a pattern that simplifyWord does not take for a number is not one *)
Lemma numeric_head_false_not_number pat :
  numeric_head pat = false -> forallb (in_set lit_pattern_set) pat = true -> pat <> [] ->
  try_parse_number pat = None.
Proof.
  destruct pat as [|c r]; [congruence|]. intros Hn Hl _.
  cbn [forallb] in Hl. apply andb_true_iff in Hl as [Hc _].
  assert (Hsp : is_cspace c = false).
  { pose proof (lit_pattern_wordlike [c]) as W. cbn [forallb] in W. rewrite Hc in W.
    specialize (W eq_refl). apply wordlike_cons in W as [W _]. exact W. }
  apply head_not_number. unfold head_ok. rewrite Hsp.
  unfold numeric_head, in_set, numeric_head_set in Hn. cbn [existsb] in Hn.
  unfold is_digit. lia.
Qed.

Lemma from_cond_shape neg fe positive v prefix pat :
  from_cond neg fe positive v prefix pat =
  from_shape neg fe v (map classify_mod prefix ++ [if positive then ModM pat else ModN pat]).
Proof. reflexivity. Qed.

(* what a rewrite returned by simplifyWord looks like *)
Lemma simplify_word_inv cx v mods fe neg rw :
  In rw (simplify_word cx v mods fe neg) ->
  exists pat (positive : bool),
    last mods [] = (if positive then 77 else 78) :: pat /\ mods <> [] /\
    forallb plain_byte pat = true /\ pat <> [] /\ wordlike pat /\
    is_list (cx_var cx v) = No /\
    (positive = false -> is_defined (cx_seen_prefs cx) (cx_var cx v) = true) /\
    (positive = false -> removelast mods = []) /\
    (fe = false -> numeric_head pat = false) /\
    forallb (in_set lit_pattern_set) pat = true /\
    let add_u := negb (is_defined (cx_seen_prefs cx) (cx_var cx v)) && negb (has_modifier s_U mods) in
    rw_kind rw = KWord /\
    rw_from_c rw = Some (from_shape neg fe v
                           (map classify_mod (removelast mods) ++ [if positive then ModM pat else ModN pat])) /\
    rw_to_c rw = Some (CCmp (LExpr v (u_mods add_u ++ map classify_mod (removelast mods)))
                            (Bool.eqb neg positive) (rhs_leaf (needs_quotes pat) pat)).
Proof.
  unfold simplify_word. destruct mods as [|m0 mods']; [contradiction|].
  set (mods := m0 :: mods') in *.
  destruct (is_list (cx_var cx v)) eqn:El; try contradiction.
  destruct (match_match (last mods [])) as [[[ok positive] pattern] exact] eqn:Emm.
  destruct (negb ok || negb positive && negb (Nat.eqb (length mods) 1) || negb exact
            || match pattern with [] => true | _ => false end) eqn:E1; [contradiction|].
  destruct (negb (forallb (in_set lit_pattern_set) pattern)) eqn:E2; [contradiction|].
  destruct (numeric_head pattern && negb fe) eqn:Enum; [contradiction|].
  destruct (negb (is_defined (cx_seen_prefs cx) (cx_var cx v)) && negb positive) eqn:E3; [contradiction|].
  intros [<-|[]].
  apply orb_false_iff in E1 as [E1 Ene]. apply orb_false_iff in E1 as [E1 Eex].
  apply orb_false_iff in E1 as [Eok Elen].
  apply negb_false_iff in Eok, Eex, E2.
  destruct (match_match_inv _ _ _ _ _ Emm Eok) as [Hlast Hexact].
  exists pattern, positive.
  assert (Hpl : forallb plain_byte pattern = true).
  { apply exact_plain. rewrite Hexact in Eex. apply negb_true_iff in Eex. exact Eex. }
  split; [exact Hlast|]. split; [discriminate|]. split; [exact Hpl|].
  split; [destruct pattern; discriminate|].
  split; [apply lit_pattern_wordlike; exact E2|]. split; [reflexivity|].
  split; [intros ->; destruct (is_defined (cx_seen_prefs cx) (cx_var cx v)); [reflexivity|discriminate]|].
  split.
  { intros ->. simpl in Elen. apply negb_false_iff in Elen. apply Nat.eqb_eq in Elen.
    subst mods. destruct mods'; [reflexivity|discriminate]. }
  split; [intros ->; destruct (numeric_head pattern); [discriminate|reflexivity]|].
  split; [exact E2|].
  cbv zeta. split; [reflexivity|]. split; [reflexivity|].
  cbn [rw_to_c]. unfold u_mods, rhs_leaf.
  destruct (negb (is_defined (cx_seen_prefs cx) (cx_var cx v)) && negb (has_modifier s_U mods));
    destruct (needs_quotes pattern); reflexivity.
Qed.

(* toLower accepts exactly the [xX]... patterns *)
Lemma yesno_lower_yn n : forall p l, (length p <= n)%nat -> yesno_lower p = Some l -> yn_pattern p l.
Proof.
  induction n as [|n IH]; intros p l Hlen H.
  - destruct p; [|simpl in Hlen; lia]. simpl in H. injection H as <-. constructor.
  - destruct p as [|a [|b [|c [|d r']]]]; simpl in H; try discriminate.
    + injection H as <-. constructor.
    + destruct ((a =? 91) && (d =? 93)) eqn:E; [|discriminate].
      apply andb_true_iff in E as [Ea Ed]. apply N.eqb_eq in Ea, Ed. subst a d.
      destruct (is_upper b && (c =? b + 32)) eqn:E1.
      * destruct (yesno_lower r') as [l'|] eqn:Er; [|discriminate]. simpl in H. injection H as <-.
        apply andb_true_iff in E1 as [Hu Hc]. apply N.eqb_eq in Hc.
        constructor; [left; auto|]. apply IH; [simpl in Hlen; lia|exact Er].
      * destruct (is_lower b && (c + 32 =? b)) eqn:E2; [|discriminate].
        destruct (yesno_lower r') as [l'|] eqn:Er; [|discriminate]. simpl in H. injection H as <-.
        apply andb_true_iff in E2 as [Hl Hc]. apply N.eqb_eq in Hc.
        constructor; [right; auto|]. apply IH; [simpl in Hlen; lia|exact Er].
Qed.

Lemma to_lower_pat_yn p : to_lower_pat p <> [] -> yn_pattern p (to_lower_pat p).
Proof.
  unfold to_lower_pat. destruct (yesno_lower p) as [l|] eqn:E; [|congruence].
  intros _. apply (yesno_lower_yn (length p)); [lia|exact E].
Qed.

Lemma simplify_yesno_inv cx v mods fe neg rw :
  In rw (fst (simplify_yesno cx v mods fe neg)) ->
  exists pat ls (positive : bool),
    last mods [] = (if positive then 77 else 78) :: pat /\ mods <> [] /\
    yn_pattern pat ls /\ ls <> [] /\
    is_list (cx_var cx v) = No /\
    (positive = false -> is_defined (cx_seen_prefs cx) (cx_var cx v) = true /\ fe = true
                         /\ vi_nonempty_if_defined (cx_var cx v) = true) /\
    (positive = false -> removelast mods = []) /\
    let add_u := negb (is_defined (cx_seen_prefs cx) (cx_var cx v)) && negb (has_modifier s_U mods) in
    rw_kind rw = KYesNo /\
    rw_from_c rw = Some (from_shape neg fe v
                           (map classify_mod (removelast mods) ++ [if positive then ModM pat else ModN pat])) /\
    rw_to_c rw = Some (CCmp (LExpr v (u_mods add_u ++ map classify_mod (removelast mods) ++ [ModTl]))
                            (Bool.eqb neg positive) (rhs_leaf false ls)).
Proof.
  unfold simplify_yesno. destruct mods as [|m0 mods']; [contradiction|].
  set (mods := m0 :: mods') in *.
  destruct (is_list (cx_var cx v)) eqn:El; try contradiction.
  destruct (match_match (last mods [])) as [[[ok positive] pattern] exact] eqn:Emm.
  destruct (negb ok || negb positive && negb (Nat.eqb (length mods) 1) || exact) eqn:E1; [contradiction|].
  destruct (to_lower_pat pattern) as [|l0 ls0] eqn:Elow; [contradiction|].
  destruct (negb positive && negb (is_defined (cx_seen_prefs cx) (cx_var cx v) && fe
                                   && vi_nonempty_if_defined (cx_var cx v))) eqn:E3; [contradiction|].
  cbn [fst]. intros [<-|[]].
  apply orb_false_iff in E1 as [E1 Eex]. apply orb_false_iff in E1 as [Eok Elen].
  apply negb_false_iff in Eok.
  destruct (match_match_inv _ _ _ _ _ Emm Eok) as [Hlast _].
  exists pattern, (l0 :: ls0), positive.
  split; [exact Hlast|]. split; [discriminate|].
  split; [rewrite <- Elow; apply to_lower_pat_yn; rewrite Elow; discriminate|].
  split; [discriminate|]. split; [reflexivity|].
  split.
  { intros ->. cbn [negb andb] in E3. apply negb_false_iff in E3.
    apply andb_true_iff in E3 as [E3 E3c]. apply andb_true_iff in E3 as [E3a E3b]. auto. }
  split.
  { intros ->. simpl in Elen. apply negb_false_iff in Elen. apply Nat.eqb_eq in Elen.
    subst mods. destruct mods'; [reflexivity|discriminate]. }
  cbv zeta. split; [reflexivity|]. split; [reflexivity|].
  cbn [rw_to_c]. unfold u_mods, rhs_leaf.
  destruct (negb (is_defined (cx_seen_prefs cx) (cx_var cx v)) && negb (has_modifier s_U mods)); reflexivity.
Qed.

Lemma forallb_mods_text_last f mods :
  forallb f (mods_text mods) = true -> mods <> [] -> forallb f (last mods []) = true.
Proof.
  induction mods as [|m ms IH]; [congruence|]. intros H _.
  unfold mods_text in *. cbn [map concat] in H. rewrite forallb_app in H.
  apply andb_true_iff in H as [Hm Hms]. cbn [forallb] in Hm. apply andb_true_iff in Hm as [_ Hm].
  destruct ms as [|m1 ms']; [exact Hm|]. apply IH; [exact Hms|discriminate].
Qed.

(* simplifyMatch's regex is on the whole modifier text, so it also restricts the pattern *)
Lemma simple_mod_text_last mods pat :
  mods <> [] -> last mods [] = 77 :: pat -> simple_mod_text (mods_text mods) = true -> no_dollar pat = true.
Proof.
  intros Hne Hl H. unfold simple_mod_text in H.
  assert (Hall : forallb (in_set simple_mod_set) (mods_text mods) = true).
  { destruct (mods_text mods); [discriminate|exact H]. }
  pose proof (forallb_mods_text_last _ _ Hall Hne) as Hlast. unfold str in *. rewrite Hl in Hlast.
  cbn [forallb] in Hlast. apply andb_true_iff in Hlast as [_ Hp].
  apply simple_mod_no_dollar. exact Hp.
Qed.

Lemma simplify_match_inv cx v mods fe neg rw :
  In rw (simplify_match cx v mods fe neg) ->
  exists pat,
    last mods [] = 77 :: pat /\ mods <> [] /\ fe = true /\
    is_defined (cx_seen_prefs cx) (cx_var cx v) = true /\ pat <> [] /\
    no_dollar pat = true /\        (* the regex on expr.Mod() lets no '$' through *)
    let ms := map classify_mod (removelast mods) ++ [ModM pat] in
    let may := match cx_mmn cx pat with MmnYes => true | _ => false end in
    rw_kind rw = KMatch /\
    rw_from_c rw = Some (if neg then CNot (CEmpty v ms) else CEmpty v ms) /\
    rw_to_c rw = Some (let inner := if may then CCmp (LExpr v ms) false (LQuoted []) else CLeaf (LExpr v ms) in
                       if neg then inner else CNot inner).
Proof.
  unfold simplify_match. destruct mods as [|m0 mods']; [contradiction|].
  set (mods := m0 :: mods') in *.
  destruct (match_match (last mods [])) as [[[ok positive] pattern] exact] eqn:Emm.
  destruct (negb ok || negb positive && negb (Nat.eqb (length mods) 1)) eqn:E1; [contradiction|].
  destruct (negb fe) eqn:Efe; [contradiction|].
  destruct (negb positive) eqn:Epos; [contradiction|].
  destruct exact eqn:Eex; [contradiction|].
  destruct (negb (vi_typed (cx_var cx v))) eqn:Ety; [contradiction|].
  destruct (negb (is_defined (cx_seen_prefs cx) (cx_var cx v))) eqn:Edef; [contradiction|].
  destruct (negb (simple_mod_text (mods_text mods))) eqn:Esimple; [contradiction|].
  apply orb_false_iff in E1 as [Eok _]. apply negb_false_iff in Eok, Efe, Epos, Edef.
  destruct (match_match_inv _ _ _ _ _ Emm Eok) as [Hlast Hexact]. rewrite Epos in Hlast.
  intros Hin. exists pattern.
  split; [exact Hlast|]. split; [discriminate|]. split; [exact Efe|]. split; [exact Edef|].
  destruct pattern as [|pc pr]; [discriminate Hexact|]. split; [discriminate|].
  split.
  { apply negb_false_iff in Esimple.
    apply (simple_mod_text_last mods (pc :: pr)); [discriminate|exact Hlast|exact Esimple]. }
  cbv zeta.
  destruct (cx_mmn cx (pc :: pr)); [contradiction| |]; destruct Hin as [<-|[]]; repeat split; reflexivity.
Qed.

Lemma check_and_inv cs rw :
  In rw (check_and cs) ->
  exists v ms, cs = [MDefined v; MNot (MEmpty v ms)] /\ rw_kind rw = KAnd /\
               rw_from rw = s_defined_lp ++ v ++ s_rp_and /\ rw_to rw = [] /\
               has_modifier s_U ms = false.
Proof.
  unfold check_and.
  repeat match goal with
         | |- In _ (match ?x with _ => _ end) -> _ =>
           lazymatch type of x with bool => fail | _ => destruct x; try contradiction end
         end.
  match goal with |- In _ (if ?c then _ else _) -> _ => destruct c eqn:E; [|contradiction] end.
  intros [<-|[]]. apply andb_true_iff in E as [E EU]. apply andb_true_iff in E as [E _].
  apply str_eqb_spec in E. apply negb_true_iff in EU. subst.
  do 2 eexists. repeat split; try reflexivity. exact EU.
Qed.
