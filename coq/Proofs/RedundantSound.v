(* Soundness of the model's verdicts under the guard, part 2: the semantic
   argument (see Proofs/Redundant.v for parts 1-3). *)
From PV Require Import Lib.Bytes Model.Redundant Spec.MakeEval Spec.VerdictSound
  Proofs.MakeEvalLemmas Proofs.Redundant.

(* ---------- 4. the semantic argument ---------- *)

Lemma delete_nth_app {A} (a : list A) x b : delete_nth (length a) (a ++ x :: b) = a ++ b.
Proof. induction a as [|y a IH]; simpl; [reflexivity|]. rewrite IH. reflexivity. Qed.

Lemma final_of_app fuel a b x :
  final fuel (to_spec (a ++ b)) x =
  expand (S fuel) false (exec_from fuel (store_after fuel a) (to_spec b)) [TRef x].
Proof.
  unfold final, exec, store_after, to_spec. rewrite map_app.
  change (fold_left (exec_line fuel) (map spec_line a ++ map spec_line b) empty_store)
    with (exec_from fuel empty_store (map spec_line a ++ map spec_line b)).
  rewrite exec_from_app. reflexivity.
Qed.

(* the flagged line is the current line and it leaves the store as it is *)
Lemma fwd_deletable pre l post :
  (forall fuel, ext_eq (exec_line fuel (store_after fuel pre) (spec_line l)) (store_after fuel pre)) ->
  deletable (pre ++ l :: post) (length pre).
Proof.
  intros H fuel x. rewrite delete_nth_app, !final_of_app.
  apply expand_ext. simpl to_spec. simpl exec_from.
  apply exec_from_ext. intro y. symmetry. apply H.
Qed.

(* the flagged line lp is an earlier line; after the current line l the stores
   with and without lp agree *)
Lemma bwd_deletable pre1 lp mid l post :
  (forall fuel,
     ext_eq (exec_line fuel (exec_from fuel (exec_line fuel (store_after fuel pre1) (spec_line lp)) (to_spec mid)) (spec_line l))
            (exec_line fuel (exec_from fuel (store_after fuel pre1) (to_spec mid)) (spec_line l))) ->
  deletable (pre1 ++ lp :: mid ++ l :: post) (length pre1).
Proof.
  intros H fuel x. rewrite delete_nth_app, !final_of_app.
  apply expand_ext. unfold to_spec. simpl map. rewrite !map_app. simpl map.
  simpl exec_from. rewrite !exec_from_app. simpl exec_from.
  apply exec_from_ext. intro y. symmetry. apply H.
Qed.

Lemma store_after_split fuel pre1 lp mid :
  store_after fuel (pre1 ++ lp :: mid) =
  exec_from fuel (exec_line fuel (store_after fuel pre1) (spec_line lp)) (to_spec mid).
Proof.
  unfold store_after, to_spec. rewrite map_app. simpl map. rewrite exec_from_app. reflexivity.
Qed.

Lemma plain_step_const o1 o2 a :
  (s_op a = SAssign \/ s_op a = SEval \/ s_op a = SShell) -> plain_step o1 a = plain_step o2 a.
Proof. unfold plain_step. intros [H|[H|H]]; rewrite H; reflexivity. Qed.

Lemma forallb_map_spec (f : option sassign -> bool) (g : line -> bool) ls :
  (forall l, f (spec_line l) = g l) -> forallb f (to_spec ls) = forallb g ls.
Proof.
  intro H. unfold to_spec. induction ls as [|l ls IH]; simpl; [reflexivity|]. rewrite H, IH. reflexivity.
Qed.

Lemma nth_error_mid {A} (a : list A) x b : nth_error (a ++ x :: b) (length a) = Some x.
Proof. induction a; simpl; auto. Qed.

Lemma firstn_mid {A} (a b : list A) : firstn (length a) (a ++ b) = a.
Proof. induction a as [|x a IH]; simpl; [destruct b; reflexivity|]. rewrite IH. reflexivity. Qed.

Lemma trimmed_not_space t : trimmed (32 :: t) = false.
Proof. reflexivity. Qed.

Lemma ltb_mid {A} (a : list A) x b : Nat.ltb (length a) (length (a ++ x :: b)) = true.
Proof. apply Nat.ltb_lt. rewrite app_length. simpl. lia. Qed.

Lemma firstn_S_mid {A} (a : list A) x b : firstn (S (length a)) (a ++ x :: b) = a ++ [x].
Proof. induction a as [|y a IH]; simpl; [destruct b; reflexivity|]. simpl in IH. rewrite IH. reflexivity. Qed.

Lemma skipn_S_mid {A} (a : list A) x b : skipn (S (length a)) (a ++ x :: b) = b.
Proof. induction a as [|y a IH]; simpl; [reflexivity|]. exact IH. Qed.

Lemma forallb_firstn {A} (f : A -> bool) n l : forallb f l = true -> forallb f (firstn n l) = true.
Proof.
  revert n; induction l as [|x l IH]; intros [|n] H; simpl; try reflexivity.
  simpl in H. apply andb_true_iff in H as [H1 H2]. rewrite H1, IH; auto.
Qed.

Lemma forallb_skipn {A} (f : A -> bool) n l : forallb f l = true -> forallb f (skipn n l) = true.
Proof.
  revert n; induction l as [|x l IH]; intros [|n] H; simpl; try reflexivity; try exact H.
  simpl in H. apply andb_true_iff in H as [H1 H2]. apply IH; exact H2.
Qed.

(* in a program whose eager lines are plain, every recorded ':=' is plain *)
Lemma writes_of_plain x : forall ls idx,
  forallb eager_plain_line ls = true ->
  Forall (fun w => a_op (snd w) = OpEval -> no_dollar (render (a_val (snd w))) = true) (writes_of x idx ls).
Proof.
  induction ls as [|l ls IH]; intros idx H; simpl; [constructor|].
  simpl in H. apply andb_true_iff in H as [H1 H2]. apply Forall_app. split; [|apply IH; exact H2].
  unfold entry. unfold eager_plain_line in H1. destruct (l_body l) as [a|]; [|constructor].
  destruct (str_eqb (a_var a) x); [|constructor]. constructor; [|constructor].
  simpl. intro E. rewrite E in H1. exact H1.
Qed.

Lemma after_eval_ref_plain ws :
  Forall (fun w => a_op (snd w) = OpEval -> no_dollar (render (a_val (snd w))) = true) ws ->
  after_eval_ref ws = false.
Proof.
  induction ws as [|w ws IH] using rev_ind; intro H; [reflexivity|].
  apply Forall_app in H as [H1 H2]. inversion H2; subst.
  rewrite after_eval_ref_snoc. destruct (a_op (snd w)) eqn:E; auto.
  rewrite H3 by reflexivity. reflexivity.
Qed.

Lemma writes_of_nil_inv x : forall ls idx,
  writes_of x idx ls = [] -> forallb (fun l => negb (assigns x l)) ls = true.
Proof.
  induction ls as [|l ls IH]; intros idx H; simpl; [reflexivity|].
  simpl in H. apply app_eq_nil in H as [H1 H2]. rewrite (IH _ H2), andb_true_r.
  unfold entry in H1. unfold assigns. destruct (l_body l) as [a|]; [|reflexivity].
  destruct (str_eqb (a_var a) x); [discriminate|reflexivity].
Qed.

Lemma writes_of_single x pre1 lp mid ap :
  l_body lp = Some ap -> a_var ap = x ->
  length (writes_of x 0 (pre1 ++ lp :: mid)) = 1%nat -> writes_of x 0 pre1 = [].
Proof.
  intros Hb Hv. rewrite writes_of_app. simpl. unfold entry. rewrite Hb, Hv, str_eqb_refl.
  rewrite !app_length. simpl. destruct (writes_of x 0 pre1); [reflexivity|]. simpl. lia.
Qed.

Lemma between_mid {A} (pre1 : list A) lp mid l post :
  firstn (length (pre1 ++ lp :: mid) - S (length pre1)) (skipn (S (length pre1)) ((pre1 ++ lp :: mid) ++ l :: post)) = mid.
Proof.
  rewrite <- app_assoc. simpl app. rewrite skipn_S_mid.
  replace (length (pre1 ++ lp :: mid) - S (length pre1))%nat with (length mid)
    by (rewrite app_length; simpl; lia).
  apply firstn_mid.
Qed.

(* the verdicts emitted while processing line l = p[length pre] *)
Lemma line_sound pre l post s s' vs vd :
  (forall x fuel, inv_x fuel pre s x) ->
  check_line s (length pre) l = Ok (s', vs) -> In vd vs ->
  wf_program (pre ++ l :: post) = true ->
  guard (pre ++ l :: post) vd = true ->
  deletable (pre ++ l :: post) (vd_flagged vd).
Proof.
  intros Hinv Hck Hin Hwf Hg.
  unfold check_line in Hck.
  destruct (update_include_path s l) as [s1| |] eqn:E1; try discriminate.
  apply update_include_path_vars in E1.
  destruct (l_body l) as [a|] eqn:Eb; [|inversion Hck; subst; destruct Hin].
  destruct (handle_varassign s1 (length pre) a false) as [[s2 vs2]| |] eqn:E2; try discriminate.
  destruct (handle_expr s2 a) as [s3| |]; try discriminate.
  inversion Hck; subst s' vs; clear Hck.
  destruct (handle_varassign_verdicts _ _ _ _ _ _ E2 Hin) as (prev & rest & Hrev & Hcases).
  rewrite E1 in Hrev, Hcases. clear E2 Hin.
  set (x := a_var a) in *.
  set (v := vi_var (s_vars s x)) in *.
  assert (HinvX : forall fuel, inv_var (store_after fuel pre) (writes_of x 0 pre) (known (writes_of x 0 pre)) x v)
    by (intro fuel; exact (Hinv x fuel)).
  destruct (HinvX 0%nat) as (W1 & _). rewrite W1 in Hrev, Hcases.
  destruct prev as [pidx ap].
  destruct (writes_of_last _ _ _ _ _ _ Hrev) as (pre1 & lp & mid & Epre & Hp & Hlb & Hlv & Hmid & _).
  simpl in Hp. subst pidx.
  assert (Hwne : writes_of x 0 pre <> []) by (intro E; rewrite E in Hrev; discriminate).
  assert (Hsl : spec_line l = Some (spec_assign a)) by (unfold spec_line; rewrite Eb; reflexivity).
  assert (Hwf_l : assign_ok a = true).
  { unfold wf_program in Hwf. rewrite forallb_app in Hwf. apply andb_true_iff in Hwf as [_ Hwf].
    simpl in Hwf. apply andb_true_iff in Hwf as [Hwf _]. unfold line_ok in Hwf. rewrite Eb in Hwf. exact Hwf. }
  assert (Hwf_a : trimmed (render (a_val a)) = true).
  { unfold assign_ok in Hwf_l. apply andb_true_iff in Hwf_l as [_ H]. exact H. }
  assert (Hwf_c : forallb chunk_ok (a_val a) = true).
  { unfold assign_ok in Hwf_l. apply andb_true_iff in Hwf_l as [H _]. apply andb_true_iff in H as [_ H]. exact H. }
  (* '=' and ':=' without make variables are plain *)
  assert (Hplain : (a_op a = OpDefault \/ a_op a = OpAssign \/ (a_op a = OpEval /\ has_make_vars (a_val a) = false)) ->
                   splain (Some (spec_assign a)) = true).
  { intros [Ho|[Ho|[Ho Hm]]]; simpl; rewrite Ho; simpl; auto. apply no_vars_plain; assumption. }
  assert (Hlt : Nat.ltb (length pre1) (length pre) = true) by (subst pre; apply ltb_mid).
  assert (Hgt : Nat.ltb (length pre) (length pre1) = false).
  { clear - Hlt. apply Nat.ltb_ge. apply Nat.ltb_lt in Hlt. lia. }
  (* what the guard says when the earlier line is the flagged one *)
  assert (Hbwd : vd_flagged vd = length pre1 -> vd_because vd = length pre ->
                 eager_plain mid = true /\ eager_plain_line l = true).
  { intros Hf Hb. unfold guard in Hg. rewrite Hf, Hb, Hlt in Hg.
    apply andb_true_iff in Hg as [Hg1 Hg2]. unfold between in Hg1. subst pre.
    rewrite between_mid in Hg1. unfold line_plain in Hg2. rewrite nth_error_mid in Hg2. auto. }
  (* the semantic core of the three "earlier line flagged" cases *)
  assert (Hback : eager_plain mid = true -> splain (Some (spec_assign a)) = true ->
                  (forall fuel o1 o2,
                      o1 = store_after fuel pre x ->
                      o2 = exec_from fuel (store_after fuel pre1) (to_spec mid) x ->
                      plain_step o1 (spec_assign a) = plain_step o2 (spec_assign a)) ->
                  deletable (pre ++ l :: post) (length pre1)).
  { intros Hep_mid Hpl Hstep. subst pre. rewrite <- app_assoc. simpl app.
    apply bwd_deletable. intros fuel y.
    rewrite Hsl. simpl exec_line.
    rewrite !(exec_assign_plain fuel _ _ Hpl). simpl s_name.
    destruct (str_eqb (a_var a) y) eqn:Ey.
    - apply (Hstep fuel); [rewrite store_after_split|]; reflexivity.
    - apply (exec_from_agree_off fuel x).
      + rewrite (forallb_map_spec splain eager_plain_line); [exact Hep_mid|apply splain_spec_line].
      + intros z Hz. apply exec_line_other. rewrite sassigns_spec_line. unfold assigns. rewrite Hlb.
        apply str_eqb_neq. congruence.
      + intro E. subst y. unfold x in Ey. rewrite str_eqb_refl in Ey. discriminate. }
  destruct Hcases as [[Hvd Hop]|[[Hvd Hop]|[(Hvd & Hop & Hk & Hcv)|(Hvd & Hop & Hk)]]]; subst vd.
  - (* overwritten: the earlier line lp is flagged *)
    simpl vd_flagged. destruct (Hbwd eq_refl eq_refl) as [Hep_mid Hep_l].
    apply Hback; [exact Hep_mid|apply Hplain; tauto|].
    intros fuel o1 o2 _ _. apply plain_step_const. simpl.
    destruct Hop as [Ho|[Ho _]]; rewrite Ho; auto.
  - (* the current line is flagged *)
    simpl vd_flagged. apply fwd_deletable. intro fuel.
    destruct (HinvX fuel) as (_ & _ & _ & _ & _ & Hdef & Hval).
    rewrite Hsl. simpl exec_line.
    destruct Hop as [Ho|(Ho & Hsh & Hv)].
    + (* a default assignment to a defined variable *)
      unfold exec_assign. simpl. rewrite Ho. simpl. fold x.
      destruct (store_after fuel pre x) eqn:Ex; [apply ext_eq_refl|]. exfalso. apply (Hdef Hwne). reflexivity.
    + (* the same text again *)
      unfold guard in Hg. simpl vd_flagged in Hg. simpl vd_because in Hg. rewrite Hgt in Hg.
      unfold line_op, line_var in Hg. rewrite nth_error_mid, Eb in Hg.
      simpl in Hg. rewrite firstn_mid in Hg. fold x in Hg.
      assert (Hev : after_eval_ref (writes_of x 0 pre) = false).
      { destruct Ho as [Ho|[Ho _]]; rewrite Ho in Hg; apply negb_true_iff in Hg; exact Hg. }
      assert (Hkn : known (writes_of x 0 pre) = true) by (unfold known; rewrite Hsh, Hev; reflexivity).
      destruct (Hval Hkn Hwne) as (t & Ht & Hvt).
      apply str_eqb_spec in Hv.
      assert (Et : render (a_val a) = t).
      { destruct Hvt as [Hvt|Hvt]; [congruence|].
        rewrite Hvt in Hv. rewrite <- Hv in Hwf_a. discriminate. }
      assert (Hpl : splain (Some (spec_assign a)) = true) by (apply Hplain; tauto).
      intro y. rewrite (exec_assign_plain fuel _ _ Hpl). simpl s_name.
      destruct (str_eqb (a_var a) y) eqn:Ey; [|reflexivity].
      apply str_eqb_spec in Ey. subst y. fold x. rewrite Ht.
      unfold plain_step. simpl. destruct Ho as [Ho|[Ho _]]; rewrite Ho; simpl; rewrite Et; reflexivity.
  - (* an earlier line is flagged because the current line assigns the constant value again *)
    simpl vd_flagged. destruct (Hbwd eq_refl eq_refl) as [Hep_mid Hep_l].
    apply Hback; [exact Hep_mid|apply Hplain; tauto|].
    intros fuel o1 o2 Ho1 Ho2.
    destruct Hop as [[Ho Hone]|Ho].
    + (* default: with lp the variable holds the text, without lp it is undefined *)
      destruct (HinvX fuel) as (_ & _ & _ & Hc & _). destruct (Hc Hk) as [_ Hs].
      apply str_eqb_spec in Hcv. rewrite Hcv in Hs. rewrite Hs in Ho1.
      assert (Hund : o2 = None).
      { subst o2. rewrite Epre in Hone.
        assert (H0 : writes_of x 0 pre1 = []) by (eapply writes_of_single; eauto).
        rewrite exec_from_untouched.
        - unfold store_after. rewrite exec_from_untouched; [reflexivity|].
          rewrite (forallb_map_spec _ (fun l0 => negb (assigns x l0)));
            [exact (writes_of_nil_inv _ _ _ H0)|].
          intro l0. rewrite sassigns_spec_line. reflexivity.
        - rewrite (forallb_map_spec _ (fun l0 => negb (assigns x l0))); [exact Hmid|].
          intro l0. rewrite sassigns_spec_line. reflexivity. }
      rewrite Ho1, Hund. unfold plain_step. simpl. rewrite Ho. reflexivity.
    + apply plain_step_const. simpl. destruct Ho as [Ho|[Ho _]]; rewrite Ho; auto.
  - (* an earlier line is flagged because of a shell assignment *)
    simpl vd_flagged. destruct (Hbwd eq_refl eq_refl) as [Hep_mid Hep_l].
    apply Hback; [exact Hep_mid| |].
    + rewrite <- Hsl, splain_spec_line. exact Hep_l.
    + intros fuel o1 o2 _ _. apply plain_step_const. simpl. rewrite Hop. auto.
Qed.

(* all lines: the invariant is carried along the prefix *)
Lemma sound_gen : forall ls pre s vs,
  (forall x fuel, inv_x fuel pre s x) ->
  check_from s (length pre) ls = Ok vs ->
  wf_program (pre ++ ls) = true ->
  forall vd, In vd vs -> guard (pre ++ ls) vd = true -> deletable (pre ++ ls) (vd_flagged vd).
Proof.
  induction ls as [|l ls IH]; intros pre s vs Hinv Hck Hwf vd Hin Hg.
  - simpl in Hck. inversion Hck; subst. destruct Hin.
  - simpl in Hck. destruct (check_line s (length pre) l) as [[s' vs0]| |] eqn:E1; try discriminate.
    destruct (check_from s' (S (length pre)) ls) as [rest| |] eqn:E2; try discriminate.
    inversion Hck; subst vs. apply in_app_or in Hin as [Hin|Hin].
    + eapply line_sound; eauto.
    + assert (Hok : line_ok l = true).
      { unfold wf_program in Hwf. rewrite forallb_app in Hwf. apply andb_true_iff in Hwf as [_ Hwf].
        simpl in Hwf. apply andb_true_iff in Hwf as [Hwf _]. exact Hwf. }
      replace (pre ++ l :: ls) with ((pre ++ [l]) ++ ls) in * by (rewrite <- app_assoc; reflexivity).
      apply (IH (pre ++ [l]) s' rest); auto.
      * intros x fuel. apply (inv_x_step fuel pre s l s' vs0 x); auto.
      * rewrite app_length. simpl. rewrite Nat.add_1_r. exact E2.
Qed.

(* Every verdict inside the guard flags a deletable line. *)
Theorem verdict_sound_partial : verdict_sound_on (fun p vd => guard p vd = true).
Proof.
  intros p vs vd Hwf Hck Hin Hg.
  apply (sound_gen p [] new_scope vs); auto.
  intros x fuel. apply inv_x_init.
Qed.

(* In particular: if no ':=' and no '!=' has a '$' in its text, every verdict is
   sound -- for any number of files. *)
Lemma guard_of_eager_plain p vs vd :
  check p = Ok vs -> In vd vs -> eager_plain p = true -> guard p vd = true.
Proof.
  intros _ _ Hep. unfold guard.
  destruct (Nat.ltb (vd_flagged vd) (vd_because vd)).
  - apply andb_true_iff. split.
    + unfold between, eager_plain. apply forallb_firstn, forallb_skipn. exact Hep.
    + unfold line_plain. destruct (nth_error p (vd_because vd)) as [l|] eqn:E; [|reflexivity].
      unfold eager_plain in Hep. rewrite forallb_forall in Hep. apply Hep.
      eapply nth_error_In; eauto.
  - destruct (line_op p (vd_flagged vd)) as [[| | | |]|]; try reflexivity;
      apply negb_true_iff; apply after_eval_ref_plain; apply writes_of_plain;
      apply forallb_firstn; exact Hep.
Qed.

Theorem eager_plain_sound :
  forall (p : program) (vs : list verdict) (vd : verdict),
    wf_program p = true -> eager_plain p = true ->
    check p = Ok vs -> In vd vs -> deletable p (vd_flagged vd).
Proof.
  intros p vs vd Hwf Hep Hck Hin.
  apply (verdict_sound_partial p vs vd Hwf Hck Hin). eapply guard_of_eager_plain; eauto.
Qed.
