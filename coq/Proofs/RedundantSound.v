(* Soundness of the model's verdicts under the guard, part 2: the semantic
   argument (see Proofs/Redundant.v for parts 1-3). *)
From PV Require Import Lib.Bytes Model.Redundant Spec.MakeEval Spec.VerdictSound
  Proofs.MakeEvalLemmas Proofs.Redundant.

(* ---------- 4. the semantic argument ---------- *)

Lemma delete_nth_app {A} (a : list A) x b : delete_nth (length a) (a ++ x :: b) = a ++ b.
Proof. induction a as [|y a IH]; simpl; [reflexivity|]. rewrite IH. reflexivity. Qed.

Lemma final_of_app fuel a b x :
  final fuel (to_spec (a ++ b)) x =
  expand (S fuel) false (exec_from fuel (store_after fuel a) (to_spec b)) [TRef x].
Proof.
  unfold final, exec, store_after, to_spec. rewrite map_app.
  change (fold_left (exec_line fuel) (map spec_line a ++ map spec_line b) empty_store)
    with (exec_from fuel empty_store (map spec_line a ++ map spec_line b)).
  rewrite exec_from_app. reflexivity.
Qed.

(* the flagged line is the current line and it leaves the store as it is *)
Lemma fwd_deletable pre l post :
  (forall fuel, ext_eq (exec_line fuel (store_after fuel pre) (spec_line l)) (store_after fuel pre)) ->
  deletable (pre ++ l :: post) (length pre).
Proof.
  intros H fuel x. rewrite delete_nth_app, !final_of_app.
  apply expand_ext. simpl to_spec. simpl exec_from.
  apply exec_from_ext. intro y. symmetry. apply H.
Qed.

(* the flagged line lp is an earlier line; after the current line l the stores
   with and without lp agree *)
Lemma bwd_deletable pre1 lp mid l post :
  (forall fuel,
     ext_eq (exec_line fuel (exec_from fuel (exec_line fuel (store_after fuel pre1) (spec_line lp)) (to_spec mid)) (spec_line l))
            (exec_line fuel (exec_from fuel (store_after fuel pre1) (to_spec mid)) (spec_line l))) ->
  deletable (pre1 ++ lp :: mid ++ l :: post) (length pre1).
Proof.
  intros H fuel x. rewrite delete_nth_app, !final_of_app.
  apply expand_ext. unfold to_spec. simpl map. rewrite !map_app. simpl map.
  simpl exec_from. rewrite !exec_from_app. simpl exec_from.
  apply exec_from_ext. intro y. symmetry. apply H.
Qed.

Lemma store_after_split fuel pre1 lp mid :
  store_after fuel (pre1 ++ lp :: mid) =
  exec_from fuel (exec_line fuel (store_after fuel pre1) (spec_line lp)) (to_spec mid).
Proof.
  unfold store_after, to_spec. rewrite map_app. simpl map. rewrite exec_from_app. reflexivity.
Qed.

Lemma plain_step_const o1 o2 a :
  (s_op a = SAssign \/ s_op a = SEval \/ s_op a = SShell) -> plain_step o1 a = plain_step o2 a.
Proof. unfold plain_step. intros [H|[H|H]]; rewrite H; reflexivity. Qed.

Lemma forallb_map_spec (f : option sassign -> bool) (g : line -> bool) ls :
  (forall l, f (spec_line l) = g l) -> forallb f (to_spec ls) = forallb g ls.
Proof.
  intro H. unfold to_spec. induction ls as [|l ls IH]; simpl; [reflexivity|]. rewrite H, IH. reflexivity.
Qed.

Lemma nth_error_mid {A} (a : list A) x b : nth_error (a ++ x :: b) (length a) = Some x.
Proof. induction a; simpl; auto. Qed.

Lemma firstn_mid {A} (a b : list A) : firstn (length a) (a ++ b) = a.
Proof. induction a as [|x a IH]; simpl; [destruct b; reflexivity|]. rewrite IH. reflexivity. Qed.

Lemma trimmed_not_space t : trimmed (32 :: t) = false.
Proof. reflexivity. Qed.

Lemma ltb_mid {A} (a : list A) x b : Nat.ltb (length a) (length (a ++ x :: b)) = true.
Proof. apply Nat.ltb_lt. rewrite app_length. simpl. lia. Qed.

Lemma firstn_S_mid {A} (a : list A) x b : firstn (S (length a)) (a ++ x :: b) = a ++ [x].
Proof. induction a as [|y a IH]; simpl; [destruct b; reflexivity|]. simpl in IH. rewrite IH. reflexivity. Qed.

Lemma skipn_S_mid {A} (a : list A) x b : skipn (S (length a)) (a ++ x :: b) = b.
Proof. induction a as [|y a IH]; simpl; [reflexivity|]. exact IH. Qed.

(* what the guard says about a verdict that involves lines length pre1 < length pre,
   both assigning x *)
Lemma guard_facts pre1 lp mid l post x vd ap a :
  l_body lp = Some ap -> a_var ap = x -> l_body l = Some a -> a_var a = x ->
  ((vd_flagged vd = length (pre1 ++ lp :: mid) /\ vd_because vd = length pre1) \/
   (vd_flagged vd = length pre1 /\ vd_because vd = length (pre1 ++ lp :: mid))) ->
  guard ((pre1 ++ lp :: mid) ++ l :: post) vd = true ->
  plain_on x (pre1 ++ lp :: mid) = true /\ eager_plain_line l = true /\
  (vd_flagged vd = length pre1 -> eager_plain mid = true) /\
  backward_default_ok ((pre1 ++ lp :: mid) ++ l :: post) vd = true /\
  forward_same_ok ((pre1 ++ lp :: mid) ++ l :: post) vd = true.
Proof.
  intros Hlb Hlv Eb Ex Hcase Hg.
  assert (Hlen : (length pre1 < length (pre1 ++ lp :: mid))%nat) by (rewrite app_length; simpl; lia).
  unfold guard in Hg.
  apply andb_true_iff in Hg as [Hg Hfwd]. apply andb_true_iff in Hg as [Hg Hbwd].
  apply andb_true_iff in Hg as [Hpo Hmid].
  assert (Hmax : Nat.max (vd_flagged vd) (vd_because vd) = length (pre1 ++ lp :: mid))
    by (destruct Hcase as [[-> ->]|[-> ->]]; lia).
  assert (Hmin : Nat.min (vd_flagged vd) (vd_because vd) = length pre1)
    by (destruct Hcase as [[-> ->]|[-> ->]]; lia).
  assert (Hvar : line_var ((pre1 ++ lp :: mid) ++ l :: post) (vd_flagged vd) = x).
  { unfold line_var. destruct Hcase as [[-> _]|[-> _]].
    - rewrite nth_error_mid, Eb. exact Ex.
    - rewrite <- app_assoc. simpl app. rewrite nth_error_mid, Hlb. exact Hlv. }
  rewrite Hmax, Hvar, firstn_S_mid, plain_on_app in Hpo.
  apply andb_true_iff in Hpo as [Hpo Hl]. unfold plain_on in Hl. simpl in Hl.
  rewrite andb_true_r in Hl. unfold assigns in Hl. rewrite Eb, Ex, str_eqb_refl in Hl. simpl in Hl.
  repeat split; auto.
  intro Hf. rewrite Hmax, Hmin in Hmid. rewrite Hf in Hmid. destruct Hcase as [[Hc _]|[_ Hc]]; [lia|].
  rewrite Hc in Hmid. apply Nat.ltb_lt in Hlen. rewrite Hlen in Hmid.
  unfold between in Hmid.
  rewrite <- app_assoc in Hmid. simpl app in Hmid. rewrite skipn_S_mid in Hmid.
  replace (length (pre1 ++ lp :: mid) - S (length pre1))%nat with (length mid) in Hmid
    by (rewrite app_length; simpl; lia).
  rewrite firstn_mid in Hmid. exact Hmid.
Qed.

(* the verdicts emitted while processing line l = p[length pre] *)
Lemma line_sound pre l post s s' vs vd :
  inv_struct pre s ->
  (forall x, plain_on x pre = true -> forall fuel, inv_x fuel pre s x) ->
  check_line s (length pre) l = Ok (s', vs) -> In vd vs ->
  wf_program (pre ++ l :: post) = true ->
  guard (pre ++ l :: post) vd = true ->
  deletable (pre ++ l :: post) (vd_flagged vd).
Proof.
  intros Hstruct Hinv Hck Hin Hwf Hg.
  unfold check_line in Hck.
  destruct (update_include_path s l) as [s1|] eqn:E1; [|discriminate].
  apply update_include_path_vars in E1.
  destruct (l_body l) as [a|] eqn:Eb; [|inversion Hck; subst; destruct Hin].
  destruct (handle_varassign s1 (length pre) a false) as [[s2 vs2]|] eqn:E2; [|discriminate].
  inversion Hck; subst s' vs; clear Hck.
  destruct (handle_varassign_verdicts _ _ _ _ _ _ E2 Hin) as (prev & rest & Hrev & Hcases).
  rewrite E1 in Hrev, Hcases. clear E2 Hin.
  set (x := a_var a) in *.
  set (v := vi_var (s_vars s x)) in *.
  destruct (Hstruct x) as (W1 & _). unfold mv in W1. fold v in W1. rewrite W1 in Hrev.
  destruct prev as [pidx ap].
  destruct (writes_of_last _ _ _ _ _ _ Hrev) as (pre1 & lp & mid & Epre & Hp & Hlb & Hlv & Hmid & _).
  simpl in Hp. subst pidx.
  assert (Hwne : writes_of x 0 pre <> []) by (intro E; rewrite E in Hrev; discriminate).
  assert (Hsl : spec_line l = Some (spec_assign a)) by (unfold spec_line; rewrite Eb; reflexivity).
  assert (Hwf_a : trimmed (render (a_val a)) = true).
  { unfold wf_program in Hwf. rewrite forallb_app in Hwf. apply andb_true_iff in Hwf as [_ Hwf].
    simpl in Hwf. apply andb_true_iff in Hwf as [Hwf _]. unfold line_ok in Hwf. rewrite Eb in Hwf.
    unfold assign_ok in Hwf. apply andb_true_iff in Hwf as [_ Hwf]. exact Hwf. }
  assert (Hfacts :
    ((vd_flagged vd = length pre /\ vd_because vd = length pre1) \/
     (vd_flagged vd = length pre1 /\ vd_because vd = length pre)) ->
    plain_on x pre = true /\ eager_plain_line l = true /\
    (vd_flagged vd = length pre1 -> eager_plain mid = true) /\
    backward_default_ok (pre ++ l :: post) vd = true /\
    forward_same_ok (pre ++ l :: post) vd = true).
  { intro Hc. subst pre. apply (guard_facts pre1 lp mid l post x vd ap a); auto. }
  assert (Hfl : (vd_flagged vd = length pre /\ vd_because vd = length pre1) \/
                (vd_flagged vd = length pre1 /\ vd_because vd = length pre)).
  { destruct Hcases as [[Hvd _]|[[Hvd _]|[(Hvd & _)|(Hvd & _)]]]; subst vd; simpl; auto. }
  destruct (Hfacts Hfl) as (Hpo & Hep_l & Hep_mid0 & Hbwd & Hfwd). clear Hfacts Hg.
  assert (HinvX : forall fuel, inv_var (store_after fuel pre) (writes_of x 0 pre) (no_shell_on x pre) x v)
    by (intro fuel; exact (Hinv x Hpo fuel)).
  assert (Hpl : splain (spec_line l) = true) by (rewrite splain_spec_line; exact Hep_l).
  destruct Hcases as [[Hvd Hop]|[[Hvd Hop]|[(Hvd & Hop & Hk & Hcv)|(Hvd & Hop & Hk)]]]; subst vd.
  - (* overwritten: the earlier line lp is flagged *)
    simpl vd_flagged. subst pre. rewrite <- app_assoc. simpl app.
    apply bwd_deletable. intros fuel y.
    rewrite Hsl. simpl exec_line.
    assert (Hep_mid : eager_plain mid = true) by (apply Hep_mid0; reflexivity).
    rewrite Hsl in Hpl.
    rewrite !(exec_assign_plain fuel _ _ Hpl). simpl s_name.
    destruct (str_eqb (a_var a) y) eqn:Ey.
    + apply plain_step_const. simpl. destruct Hop as [Ho|Ho]; rewrite Ho; auto.
    + apply (exec_from_agree_off fuel x).
      * rewrite (forallb_map_spec splain eager_plain_line); [exact Hep_mid|apply splain_spec_line].
      * intros z Hz. apply exec_line_other. rewrite sassigns_spec_line. unfold assigns. rewrite Hlb.
        apply str_eqb_neq. congruence.
      * intro E. subst y. unfold x in Ey. rewrite str_eqb_refl in Ey. discriminate.
  - (* the current line is flagged *)
    simpl vd_flagged. apply fwd_deletable. intro fuel.
    destruct (HinvX fuel) as (_ & _ & _ & _ & _ & Hdef & Hval).
    rewrite Hsl. simpl exec_line.
    destruct Hop as [Ho|[Ho Hv]].
    + (* a default assignment to a defined variable *)
      unfold exec_assign. simpl. rewrite Ho. simpl. fold x.
      destruct (store_after fuel pre x) eqn:Ex; [apply ext_eq_refl|]. exfalso. apply (Hdef Hwne). reflexivity.
    + (* the same text again *)
      unfold forward_same_ok in Hfwd. simpl in Hfwd.
      assert (Hlt : Nat.ltb (length pre1) (length pre) = true).
      { subst pre. apply ltb_mid. }
      rewrite Hlt in Hfwd. unfold line_op, line_var in Hfwd. rewrite nth_error_mid, Eb in Hfwd.
      simpl in Hfwd. rewrite firstn_mid in Hfwd.
      assert (Hns : no_shell_on x pre = true).
      { destruct Ho as [Ho|Ho]; rewrite Ho in Hfwd; exact Hfwd. }
      destruct (Hval Hns Hwne) as (t & Ht & Hvt).
      apply str_eqb_spec in Hv.
      assert (Et : render (a_val a) = t).
      { destruct Hvt as [Hvt|Hvt]; [congruence|].
        rewrite Hvt in Hv. rewrite <- Hv in Hwf_a. discriminate. }
      intro y. rewrite Hsl in Hpl. rewrite (exec_assign_plain fuel _ _ Hpl). simpl s_name.
      destruct (str_eqb (a_var a) y) eqn:Ey; [|reflexivity].
      apply str_eqb_spec in Ey. subst y. fold x. rewrite Ht.
      unfold plain_step. simpl. destruct Ho as [Ho|Ho]; rewrite Ho; simpl; rewrite Et; reflexivity.
  - (* an earlier line is flagged because the current line assigns the constant value again *)
    simpl vd_flagged.
    assert (Hstx : forall fuel, store_after fuel pre x = Some (Txt (render (a_val a)))).
    { intro fuel. destruct (HinvX fuel) as (_ & _ & _ & Hc & _). destruct (Hc Hk) as [_ Hs].
      apply str_eqb_spec in Hcv. rewrite <- Hcv. exact Hs. }
    (* the guard: if the current line is a default assignment, lp is the first assignment *)
    assert (Hfirst : a_op a = OpDefault -> forallb (fun l0 => negb (assigns x l0)) pre1 = true).
    { intro Ho. unfold backward_default_ok in Hbwd. simpl vd_flagged in Hbwd. simpl vd_because in Hbwd.
      assert (Hlt : Nat.ltb (length pre1) (length pre) = true).
      { subst pre. apply ltb_mid. }
      rewrite Hlt in Hbwd.
      assert (Hlo : line_op (pre ++ l :: post) (length pre) = Some OpDefault).
      { unfold line_op. rewrite nth_error_mid, Eb. simpl. rewrite Ho. reflexivity. }
      rewrite Hlo in Hbwd.
      assert (Hkind : vd_kind (on_redundant (length pre1, ap) (length pre, a)) <> KOverwritten).
      { unfold on_redundant. simpl. destruct (op_eqb (a_op ap) OpDefault); discriminate. }
      destruct (vd_kind (on_redundant (length pre1, ap) (length pre, a))); try contradiction;
        apply Nat.eqb_eq in Hbwd; unfold writes_before, line_var in Hbwd;
        subst pre; rewrite <- app_assoc in Hbwd; simpl app in Hbwd;
        rewrite nth_error_mid, Hlb, firstn_mid in Hbwd; rewrite Hlv in Hbwd;
        apply filter_nil_forallb; apply length_zero_iff_nil; exact Hbwd. }
    subst pre. rewrite <- app_assoc. simpl app.
    apply bwd_deletable. intros fuel y.
    rewrite Hsl. simpl exec_line.
    assert (Hep_mid : eager_plain mid = true) by (apply Hep_mid0; reflexivity).
    rewrite Hsl in Hpl.
    rewrite !(exec_assign_plain fuel _ _ Hpl). simpl s_name.
    destruct (str_eqb (a_var a) y) eqn:Ey.
    + destruct Hop as [Ho|Ho].
      * (* default: with lp the variable holds the text, without lp it is undefined *)
        specialize (Hstx fuel). rewrite store_after_split in Hstx. fold x. rewrite Hstx.
        assert (Hund : exec_from fuel (store_after fuel pre1) (to_spec mid) x = None).
        { rewrite exec_from_untouched.
          - unfold store_after. rewrite exec_from_untouched; [reflexivity|].
            rewrite (forallb_map_spec _ (fun l0 => negb (assigns x l0))); [exact (Hfirst Ho)|].
            intro l0. rewrite sassigns_spec_line. reflexivity.
          - rewrite (forallb_map_spec _ (fun l0 => negb (assigns x l0))); [exact Hmid|].
            intro l0. rewrite sassigns_spec_line. reflexivity. }
        rewrite Hund. unfold plain_step. simpl. rewrite Ho. reflexivity.
      * apply plain_step_const. simpl. destruct Ho as [Ho|Ho]; rewrite Ho; auto.
    + apply (exec_from_agree_off fuel x).
      * rewrite (forallb_map_spec splain eager_plain_line); [exact Hep_mid|apply splain_spec_line].
      * intros z Hz. apply exec_line_other. rewrite sassigns_spec_line. unfold assigns. rewrite Hlb.
        apply str_eqb_neq. congruence.
      * intro E. subst y. unfold x in Ey. rewrite str_eqb_refl in Ey. discriminate.
  - (* an earlier line is flagged because of a shell assignment *)
    simpl vd_flagged. subst pre. rewrite <- app_assoc. simpl app.
    apply bwd_deletable. intros fuel y.
    rewrite Hsl. simpl exec_line.
    assert (Hep_mid : eager_plain mid = true) by (apply Hep_mid0; reflexivity).
    rewrite Hsl in Hpl.
    rewrite !(exec_assign_plain fuel _ _ Hpl). simpl s_name.
    destruct (str_eqb (a_var a) y) eqn:Ey.
    + apply plain_step_const. simpl. rewrite Hop. auto.
    + apply (exec_from_agree_off fuel x).
      * rewrite (forallb_map_spec splain eager_plain_line); [exact Hep_mid|apply splain_spec_line].
      * intros z Hz. apply exec_line_other. rewrite sassigns_spec_line. unfold assigns. rewrite Hlb.
        apply str_eqb_neq. congruence.
      * intro E. subst y. unfold x in Ey. rewrite str_eqb_refl in Ey. discriminate.
Qed.

(* all lines: the invariant is carried along the prefix *)
Lemma sound_gen : forall ls pre s vs,
  inv_struct pre s ->
  (forall x, plain_on x pre = true -> forall fuel, inv_x fuel pre s x) ->
  check_from s (length pre) ls = Ok vs ->
  wf_program (pre ++ ls) = true ->
  forall vd, In vd vs -> guard (pre ++ ls) vd = true -> deletable (pre ++ ls) (vd_flagged vd).
Proof.
  induction ls as [|l ls IH]; intros pre s vs Hstruct Hinv Hck Hwf vd Hin Hg.
  - simpl in Hck. inversion Hck; subst. destruct Hin.
  - simpl in Hck. destruct (check_line s (length pre) l) as [[s' vs0]|] eqn:E1; [|discriminate].
    destruct (check_from s' (S (length pre)) ls) as [rest|] eqn:E2; [|discriminate].
    inversion Hck; subst vs. apply in_app_or in Hin as [Hin|Hin].
    + eapply line_sound; eauto.
    + replace (pre ++ l :: ls) with ((pre ++ [l]) ++ ls) in * by (rewrite <- app_assoc; reflexivity).
      apply (IH (pre ++ [l]) s' rest); auto.
      * eapply inv_struct_step; eauto.
      * intros x Hpo fuel. rewrite plain_on_app in Hpo. apply andb_true_iff in Hpo as [Hpo Hl].
        apply (inv_x_step fuel pre s l s' vs0 x); auto.
        intro Ha. unfold plain_on in Hl. simpl in Hl. rewrite Ha, andb_true_r in Hl. exact Hl.
      * rewrite app_length. simpl. rewrite Nat.add_1_r. exact E2.
Qed.

(* Every verdict inside the guard flags a deletable line. *)
Theorem verdict_sound_partial : verdict_sound_on (fun p vd => guard p vd = true).
Proof.
  intros p vs vd Hwf Hck Hin Hg.
  apply (sound_gen p [] new_scope vs); auto.
  - apply inv_struct_init.
  - intros x _ fuel. apply inv_x_init.
Qed.
