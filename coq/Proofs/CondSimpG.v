(* The spec's reader maps the texts of the model's rewrites to the trees the
   model says they mean: parse_cond (rw_from rw) = rw_from_c rw and
   parse_cond (rw_to rw) = rw_to_c rw, for every rewrite of simplify_word,
   simplify_yesno and simplify_match, under explicit conditions on the variable
   name and on the modifiers ([name_ok], [mods_ok]). *)
From PV Require Import Lib.Bytes Gen.CondSimpSets Spec.BmakeCond Model.CondSimp
  Proofs.CondSimpA Proofs.CondSimpC.
From Coq Require Import ZifyBool ZifyN ZifyNat.
Open Scope N_scope.

(* ---------- the hypotheses ---------- *)

(* a name the reader takes as one variable name: non-empty, name bytes only *)
Definition name_ok (v : str) : bool := nonempty v && forallb is_name_char v.

(* a modifier the reader takes as one segment: scanned alone it is consumed to the
   end (plain bytes, i.e. none of : $ \ ( ) { } and the double quote, and nested
   references ${NAME}), and '$' occurs only if it starts with M or N ([seg_ok]) *)
Definition mod_readable (m : str) : bool :=
  let (seg, r) := scan_seg (S (length m)) 125 m in
  str_eqb seg m && negb (nonempty r) && seg_ok m.
Definition mods_ok (ms : list str) : bool := forallb mod_readable ms.

(* sufficient for [mod_readable] (lemma [mod_ok_readable]): plain bytes only *)
Definition mod_ok (m : str) : bool := forallb (plain_mod_char 125) m.

(* ---------- small facts ---------- *)

Lemma span_app_stop f a rest :
  forallb f a = true -> match rest with [] => True | c :: _ => f c = false end ->
  span f (a ++ rest) = (a, rest).
Proof.
  intros Ha Hr. induction a as [|c a IH]; cbn [app].
  - destruct rest as [|c r]; [reflexivity|]. cbn [span]. rewrite Hr. reflexivity.
  - cbn [forallb] in Ha. apply andb_true_iff in Ha as [Hc Ha]. cbn [span].
    rewrite Hc, (IH Ha). reflexivity.
Qed.

Lemma plain_mod_41 c : plain_mod_char 41 c = plain_mod_char 125 c.
Proof. unfold plain_mod_char. lia. Qed.

Lemma forallb_ext_eq (f g : N -> bool) l : (forall c, f c = g c) -> forallb f l = forallb g l.
Proof. intros H. induction l as [|c l IH]; [reflexivity|]. cbn [forallb]. rewrite H, IH. reflexivity. Qed.

Lemma plain_no_dollar close m :
  forallb (plain_mod_char close) m = true -> existsb (N.eqb 36) m = false.
Proof.
  induction m as [|c m IH]; [reflexivity|]. cbn [forallb existsb]. intros H.
  apply andb_true_iff in H as [Hc Hm]. rewrite (IH Hm). unfold plain_mod_char in Hc. lia.
Qed.

Lemma plain_seg_ok close m : forallb (plain_mod_char close) m = true -> seg_ok m = true.
Proof. intros H. unfold seg_ok. rewrite (plain_no_dollar close m H). reflexivity. Qed.

Lemma mods_text_cons m ms : mods_text (m :: ms) = 58 :: m ++ mods_text ms.
Proof. reflexivity. Qed.

Lemma mods_text_app a b : mods_text (a ++ b) = mods_text a ++ mods_text b.
Proof. unfold mods_text. rewrite map_app, concat_app. reflexivity. Qed.

Lemma mods_text_length ms : (length ms <= length (mods_text ms))%nat.
Proof.
  induction ms as [|m ms IH]; [simpl; lia|]. rewrite mods_text_cons. cbn [length].
  rewrite app_length. lia.
Qed.

Lemma mods_then_close_head close ms rest :
  exists c r, mods_text ms ++ close :: rest = c :: r /\ (c = 58 \/ c = close).
Proof.
  destruct ms as [|m ms].
  - exists close, rest. split; [reflexivity|right; reflexivity].
  - rewrite mods_text_cons. eexists 58, _. split; [reflexivity|left; reflexivity].
Qed.

(* ---------- the reader on  name (":" modifier)* close ---------- *)

Lemma scan_seg_plain close m : forall fuel rest,
  forallb (plain_mod_char close) m = true ->
  match rest with [] => True | c :: _ => plain_mod_char close c = false /\ c <> 36 end ->
  (length m < fuel)%nat -> scan_seg fuel close (m ++ rest) = (m, rest).
Proof.
  induction m as [|c m IH]; intros fuel rest Hm Hr Hf.
  - destruct fuel as [|f]; [simpl in Hf; lia|]. cbn [app].
    destruct rest as [|c r]; [reflexivity|]. destruct Hr as [Hp Hd]. cbn [scan_seg]. rewrite Hp.
    destruct (N.eqb_spec c 36); [contradiction|reflexivity].
  - destruct fuel as [|f]; [simpl in Hf; lia|]. cbn [forallb] in Hm. apply andb_true_iff in Hm as [Hc Hm].
    cbn [app scan_seg]. rewrite Hc. rewrite (IH f rest Hm Hr); [reflexivity|simpl in Hf; lia].
Qed.

Definition stop_head (close : N) (rest : str) : Prop :=
  match rest with [] => True | c :: _ => plain_mod_char close c = false /\ c <> 36 end.

Lemma scan_seg_stop fuel close rest : stop_head close rest -> scan_seg fuel close rest = ([], rest).
Proof.
  destruct fuel; [reflexivity|]. destruct rest as [|c r]; [reflexivity|]. intros [Hp Hd].
  cbn [scan_seg]. rewrite Hp. destruct (N.eqb_spec c 36); [contradiction|reflexivity].
Qed.

(* a text that is one segment by itself is one segment in front of ":" or the closer *)
Lemma scan_seg_ext close : forall fuel m fuel' rest,
  scan_seg fuel close m = (m, []) -> (fuel <= fuel')%nat -> stop_head close rest ->
  scan_seg fuel' close (m ++ rest) = (m, rest).
Proof.
  induction fuel as [|f IH]; intros m fuel' rest H Hle Hstop.
  - cbn [scan_seg] in H. injection H as H1 H2. subst m. cbn [app]. apply scan_seg_stop, Hstop.
  - destruct m as [|c r]; [cbn [app]; apply scan_seg_stop, Hstop|].
    destruct fuel' as [|f']; [lia|].
    revert H. cbn [app scan_seg].
    destruct (plain_mod_char close c) eqn:Ep.
    + destruct (scan_seg f close r) as [seg r'] eqn:Es. intros H. injection H as H1 H2. subst seg r'.
      rewrite (IH r f' rest Es); [reflexivity|lia|exact Hstop].
    + destruct (N.eqb_spec c 36) as [->|_]; [|discriminate].
      destruct r as [|b r1]; [discriminate|]. cbn [app].
      destruct (N.eqb_spec b 123) as [->|_]; [|discriminate].
      pose proof (span_app is_name_char r1) as Happ. pose proof (span_all is_name_char r1) as Hall.
      destruct (span is_name_char r1) as [name r2] eqn:Esp. cbn [fst snd] in Happ, Hall.
      destruct name as [|n0 name']; [discriminate|]. destruct r2 as [|d r3]; [discriminate|].
      destruct (N.eqb_spec d 125) as [->|_]; [|discriminate].
      destruct (scan_seg f close r3) as [seg r'] eqn:Es. intros H. injection H as H1 H2. subst r'.
      assert (seg = r3) as ->.
      { rewrite <- Happ in H1. change (n0 :: name' ++ 125 :: seg) with ((n0 :: name') ++ 125 :: seg) in H1.
        apply app_inv_head in H1. injection H1 as H1. exact H1. }
      rewrite <- Happ, <- app_assoc. change ((125 :: r3) ++ rest) with (125 :: r3 ++ rest).
      rewrite (span_app_stop is_name_char (n0 :: name') (125 :: r3 ++ rest) Hall eq_refl).
      rewrite N.eqb_refl, (IH r3 f' rest Es); [reflexivity|lia|exact Hstop].
Qed.

Lemma scan_seg_41 : forall fuel s, scan_seg fuel 41 s = scan_seg fuel 125 s.
Proof.
  induction fuel as [|f IH]; intros s; [reflexivity|]. cbn [scan_seg].
  destruct s as [|c r]; [reflexivity|]. rewrite plain_mod_41.
  destruct (plain_mod_char 125 c); [rewrite IH; reflexivity|].
  destruct (c =? 36); [|reflexivity]. destruct r as [|b r1]; [reflexivity|].
  destruct (b =? 123); [|reflexivity]. destruct (span is_name_char r1) as [name r2].
  destruct name; [reflexivity|]. destruct r2 as [|d r3]; [reflexivity|].
  destruct (d =? 125); [|reflexivity]. rewrite IH. reflexivity.
Qed.

Lemma mod_readable_inv m :
  mod_readable m = true -> scan_seg (S (length m)) 125 m = (m, []) /\ seg_ok m = true.
Proof.
  unfold mod_readable. destruct (scan_seg (S (length m)) 125 m) as [seg r]. intros H.
  apply andb_true_iff in H as [H Hok]. apply andb_true_iff in H as [Hs Hr].
  apply str_eqb_spec in Hs. subst seg. destruct r; [|discriminate]. split; [reflexivity|exact Hok].
Qed.

Lemma mod_readable_scan close m fuel rest : close = 125 \/ close = 41 ->
  mod_readable m = true -> (length m < fuel)%nat -> stop_head close rest ->
  scan_seg fuel close (m ++ rest) = (m, rest).
Proof.
  intros Hc Hm Hf Hstop. apply mod_readable_inv in Hm as [Hm _].
  apply (scan_seg_ext close (S (length m))); [|lia|exact Hstop].
  destruct Hc as [->| ->]; [exact Hm|]. rewrite scan_seg_41. exact Hm.
Qed.

(* plain bytes only: a readable modifier *)
Lemma mod_ok_readable m : mod_ok m = true -> mod_readable m = true.
Proof.
  intros H. unfold mod_ok in H. unfold mod_readable.
  pose proof (scan_seg_plain 125 m (S (length m)) [] H I (Nat.lt_succ_diag_r _)) as Hs.
  rewrite app_nil_r in Hs. rewrite Hs, str_eqb_refl, (plain_seg_ok 125 m H). reflexivity.
Qed.

Lemma parse_mods_text close ms : close = 125 \/ close = 41 -> forall fuel rest,
  mods_ok ms = true ->
  (length ms < fuel)%nat ->
  parse_mods fuel close (mods_text ms ++ close :: rest) = Some (map classify_mod ms, rest).
Proof.
  intros Hclose. unfold mods_ok. induction ms as [|m ms IH]; intros fuel rest Hms Hf.
  - destruct fuel; [simpl in Hf; lia|]. cbn [mods_text map concat app parse_mods].
    rewrite N.eqb_refl. reflexivity.
  - destruct fuel as [|f]; [simpl in Hf; lia|]. rewrite mods_text_cons. cbn [app parse_mods].
    cbn [forallb] in Hms. apply andb_true_iff in Hms as [Hm Hms].
    destruct (N.eqb_spec 58 close) as [E|_]; [lia|]. rewrite N.eqb_refl.
    rewrite <- app_assoc.
    rewrite (mod_readable_scan close m _ _ Hclose Hm).
    + destruct (mod_readable_inv m Hm) as [_ Hok]. rewrite Hok. cbn [negb].
      rewrite (IH f rest Hms); [reflexivity|simpl in Hf; lia].
    + rewrite app_length. lia.
    + destruct (mods_then_close_head close ms rest) as (c & r & -> & Hc).
      unfold stop_head, plain_mod_char. lia.
Qed.

Lemma parse_name_mods_text close v ms rest : close = 125 \/ close = 41 ->
  name_ok v = true -> mods_ok ms = true ->
  parse_name_mods close (v ++ mods_text ms ++ close :: rest) = Some (v, map classify_mod ms, rest).
Proof.
  intros Hclose Hv Hms. unfold name_ok in Hv. apply andb_true_iff in Hv as [Hne Hv].
  unfold parse_name_mods. rewrite (span_app_stop is_name_char v _ Hv).
  - destruct v as [|c0 v0]; [discriminate|].
    rewrite (parse_mods_text close ms Hclose _ rest Hms); [reflexivity|].
    rewrite app_length. pose proof (mods_text_length ms) as HL. unfold str in *. cbn [length]. lia.
  - destruct (mods_then_close_head close ms rest) as (c & r & -> & Hc).
    unfold is_name_char, is_alnum, is_alpha, is_lower, is_upper, is_digit. lia.
Qed.

(* ---------- parse_or's inner loops, named ---------- *)

(* what parse_term does after it has read a leaf *)
Definition after_leaf (l : leaf) (r1 : str) : option (cond * str) :=
  let r2 := skip_hspace r1 in
  match r2 with
  | o1 :: o2 :: r3 =>
    if ((o1 =? 61) || (o1 =? 33)) && (o2 =? 61) then
      match parse_leaf (skip_hspace r3) with
      | Some (rl, r4) => Some (CCmp l (o1 =? 61) rl, r4)
      | None => None
      end
    else if (o1 =? 60) || (o1 =? 62) then
      let orEqual := o2 =? 61 in
      match parse_leaf (skip_hspace (if orEqual then r3 else o2 :: r3)) with
      | Some (rl, r4) => Some (CCmpOrd l (o1 =? 60) orEqual rl, r4)
      | None => None
      end
    else Some (CLeaf l, r1)
  | _ => Some (CLeaf l, r1)
  end.

Definition pterm (f : nat) : nat -> str -> option (cond * str) :=
  fix parse_term (g : nat) (s : str) : option (cond * str) :=
    match g with
    | O => None
    | S g' =>
      let s := skip_hspace s in
      match s with
      | [] => None
      | c :: r =>
        if (c =? 33) && negb (match r with d :: _ => d =? 61 | [] => false end) then
          match parse_term g' r with
          | Some (t, r1) => Some (CNot t, r1)
          | None => None
          end
        else if c =? 40 then
          match parse_or f r with
          | Some (t, r1) =>
            match skip_hspace r1 with
            | d :: r2 => if d =? 41 then Some (t, r2) else None
            | [] => None
            end
          | None => None
          end
        else match strip_prefix str_defined_lp s with
        | Some r1 =>
          let (name, r2) := span is_name_char r1 in
          match name, r2 with
          | _ :: _, d :: r3 => if d =? 41 then Some (CDefined name, r3) else None
          | _, _ => None
          end
        | None =>
        match strip_prefix str_empty_lp s with
        | Some r1 =>
          match parse_name_mods 41 r1 with
          | Some (v, ms, r2) => Some (CEmpty v ms, r2)
          | None => None
          end
        | None =>
          match parse_leaf s with
          | Some (l, r1) => after_leaf l r1
          | None => None
          end
        end
        end
      end
    end.

Definition pand (f : nat) : nat -> str -> option (cond * str) :=
  fix parse_and (g : nat) (s : str) : option (cond * str) :=
    match g with
    | O => None
    | S g' =>
      match pterm f f s with
      | Some (t, r) =>
        match skip_hspace r with
        | a :: b :: r1 =>
          if (a =? 38) && (b =? 38) then
            match parse_and g' r1 with
            | Some (t2, r2) => Some (CAnd t t2, r2)
            | None => None
            end
          else Some (t, r)
        | _ => Some (t, r)
        end
      | None => None
      end
    end.

Lemma parse_or_S f s :
  parse_or (S f) s =
  match pand f f s with
  | Some (t, r) =>
    match skip_hspace r with
    | a :: b :: r1 =>
      if (a =? 124) && (b =? 124) then
        match parse_or f r1 with
        | Some (t2, r2) => Some (COr t t2, r2)
        | None => None
        end
      else Some (t, r)
    | _ => Some (t, r)
    end
  | None => None
  end.
Proof. reflexivity. Qed.

Lemma pand_done f g s t : pterm f f s = Some (t, []) -> pand f (S g) s = Some (t, []).
Proof. intros H. cbn [pand]. rewrite H. reflexivity. Qed.

(* a text that parse_term reads completely as t is read by parse_cond as t *)
Lemma parse_cond_term s t :
  s <> [] -> (forall f g, pterm f (S (S g)) s = Some (t, [])) -> parse_cond s = Some t.
Proof.
  intros Hs H. unfold parse_cond. destruct s as [|c s']; [congruence|]. cbn [length].
  rewrite parse_or_S, (pand_done _ _ _ t (H _ _)). reflexivity.
Qed.

Lemma pterm_S f g s :
  pterm f (S g) s =
      let s := skip_hspace s in
      match s with
      | [] => None
      | c :: r =>
        if (c =? 33) && negb (match r with d :: _ => d =? 61 | [] => false end) then
          match pterm f g r with
          | Some (t, r1) => Some (CNot t, r1)
          | None => None
          end
        else if c =? 40 then
          match parse_or f r with
          | Some (t, r1) =>
            match skip_hspace r1 with
            | d :: r2 => if d =? 41 then Some (t, r2) else None
            | [] => None
            end
          | None => None
          end
        else match strip_prefix str_defined_lp s with
        | Some r1 =>
          let (name, r2) := span is_name_char r1 in
          match name, r2 with
          | _ :: _, d :: r3 => if d =? 41 then Some (CDefined name, r3) else None
          | _, _ => None
          end
        | None =>
        match strip_prefix str_empty_lp s with
        | Some r1 =>
          match parse_name_mods 41 r1 with
          | Some (v, ms, r2) => Some (CEmpty v ms, r2)
          | None => None
          end
        | None =>
          match parse_leaf s with
          | Some (l, r1) => after_leaf l r1
          | None => None
          end
        end
        end
      end.
Proof. reflexivity. Qed.

Lemma pterm_bang f g c r : c <> 61 ->
  pterm f (S g) (33 :: c :: r) =
  match pterm f g (c :: r) with Some (t, r1) => Some (CNot t, r1) | None => None end.
Proof.
  intros Hc. rewrite pterm_S.
  change (skip_hspace (33 :: c :: r)) with (33 :: c :: r). cbv zeta. cbv iota.
  destruct (N.eqb_spec c 61); [contradiction|]. reflexivity.
Qed.

Lemma pterm_empty f g X :
  pterm f (S g) (str_empty_lp ++ X) =
  match parse_name_mods 41 X with Some (v, ms, r2) => Some (CEmpty v ms, r2) | None => None end.
Proof. reflexivity. Qed.

Lemma pterm_expr f g X :
  pterm f (S g) (36 :: 123 :: X) =
  match parse_name_mods 125 X with Some (v, ms, r2) => after_leaf (LExpr v ms) r2 | None => None end.
Proof.
  rewrite pterm_S. change (skip_hspace (36 :: 123 :: X)) with (36 :: 123 :: X). cbv zeta.
  change (parse_leaf (36 :: 123 :: X)) with
    (match parse_name_mods 125 X with Some (v, ms, r2) => Some (LExpr v ms, r2) | None => None end).
  cbn [N.eqb Pos.eqb andb strip_prefix str_defined_lp str_empty_lp].
  destruct (parse_name_mods 125 X) as [[[v ms] r2]|]; reflexivity.
Qed.

Lemma after_leaf_end l : after_leaf l [] = Some (CLeaf l, []).
Proof. reflexivity. Qed.

(* " == " or " != " and a right-hand side *)
Lemma after_leaf_cmp l (is_eq : bool) c R : is_hspace c = false ->
  after_leaf l ([32] ++ cond_str is_eq s_eq s_ne ++ [32] ++ c :: R) =
  match parse_leaf (c :: R) with Some (rl, r4) => Some (CCmp l is_eq rl, r4) | None => None end.
Proof.
  intros Hc. unfold after_leaf.
  assert (Hs : skip_hspace (32 :: c :: R) = c :: R) by (cbn [skip_hspace]; rewrite Hc; reflexivity).
  destruct is_eq; cbn [cond_str s_eq s_ne app].
  - change (skip_hspace (32 :: 61 :: 61 :: 32 :: c :: R)) with (61 :: 61 :: 32 :: c :: R).
    cbv zeta iota. change ((61 =? 61) || (61 =? 33)) with true. change (61 =? 61) with true.
    cbn [andb]. rewrite Hs. reflexivity.
  - change (skip_hspace (32 :: 33 :: 61 :: 32 :: c :: R)) with (33 :: 61 :: 32 :: c :: R).
    cbv zeta iota. change ((33 =? 61) || (33 =? 33)) with true. change (61 =? 61) with true.
    change (33 =? 61) with false.
    cbn [andb]. rewrite Hs. reflexivity.
Qed.

(* ---------- the two atoms, with and without "!" ---------- *)

Lemma read_empty (bang : bool) v ms f g : name_ok v = true -> mods_ok ms = true ->
  pterm f (S (S g)) (cond_str bang s_bang [] ++ s_empty_lp ++ v ++ mods_text ms ++ [41]) =
  Some (let a := CEmpty v (map classify_mod ms) in if bang then CNot a else a, []).
Proof.
  intros Hv Hms.
  pose proof (parse_name_mods_text 41 v ms [] (or_intror eq_refl) Hv Hms) as HP.
  destruct bang; cbn [cond_str].
  - change (s_bang ++ s_empty_lp ++ v ++ mods_text ms ++ [41])
      with (33 :: 101 :: [109; 112; 116; 121; 40] ++ v ++ mods_text ms ++ [41]).
    rewrite pterm_bang by (intro; discriminate).
    change (101 :: [109; 112; 116; 121; 40] ++ v ++ mods_text ms ++ [41])
      with (str_empty_lp ++ v ++ mods_text ms ++ [41]).
    rewrite pterm_empty, HP. reflexivity.
  - change ([] ++ s_empty_lp ++ v ++ mods_text ms ++ [41])
      with (str_empty_lp ++ v ++ mods_text ms ++ [41]).
    rewrite pterm_empty, HP. reflexivity.
Qed.

Lemma read_expr (bang : bool) v ms tail f g : name_ok v = true -> mods_ok ms = true ->
  pterm f (S (S g)) (cond_str bang s_bang [] ++ s_dollar_lbrace ++ v ++ mods_text ms ++ 125 :: tail) =
  match after_leaf (LExpr v (map classify_mod ms)) tail with
  | Some (t, r) => Some (if bang then CNot t else t, r)
  | None => None
  end.
Proof.
  intros Hv Hms.
  pose proof (parse_name_mods_text 125 v ms tail (or_introl eq_refl) Hv Hms) as HP.
  destruct bang; cbn [cond_str].
  - change (s_bang ++ s_dollar_lbrace ++ v ++ mods_text ms ++ 125 :: tail)
      with (33 :: 36 :: 123 :: v ++ mods_text ms ++ 125 :: tail).
    rewrite pterm_bang by (intro; discriminate).
    rewrite pterm_expr, HP. reflexivity.
  - change ([] ++ s_dollar_lbrace ++ v ++ mods_text ms ++ 125 :: tail)
      with (36 :: 123 :: v ++ mods_text ms ++ 125 :: tail).
    rewrite pterm_expr, HP. destruct (after_leaf _ _) as [[t r]|]; reflexivity.
Qed.

(* ---------- right-hand sides ---------- *)

Lemma forallb_in_set (f : N -> bool) set p :
  forallb f set = true -> forallb (in_set set) p = true -> forallb f p = true.
Proof.
  intros Hset. rewrite forallb_forall in Hset.
  induction p as [|c p IH]; [reflexivity|]. cbn [forallb]. intros H.
  apply andb_true_iff in H as [Hc Hp]. rewrite (IH Hp), andb_true_r.
  apply Hset, in_set_true_In, Hc.
Qed.

Lemma parse_leaf_word w : w <> [] -> forallb word_char w = true -> parse_leaf w = Some (LWord w, []).
Proof.
  intros Hne Hw. destruct w as [|c r]; [congruence|].
  assert (Hc : word_char c = true) by (cbn [forallb] in Hw; apply andb_true_iff in Hw as [Hc _]; exact Hc).
  pose proof (span_app_stop word_char (c :: r) [] Hw I) as Hs. rewrite app_nil_r in Hs.
  unfold parse_leaf.
  destruct (N.eqb_spec c 36) as [->|_]; [vm_compute in Hc; discriminate|].
  destruct (N.eqb_spec c 34) as [->|_]; [vm_compute in Hc; discriminate|].
  rewrite Hs. reflexivity.
Qed.

Lemma parse_leaf_quoted p : p <> [] -> forallb plain_quoted_char p = true ->
  parse_leaf (34 :: p ++ [34]) = Some (LQuoted [PLit p], []).
Proof.
  intros Hne Hp.
  change (parse_leaf (34 :: p ++ [34])) with
    (match parse_quoted (S (length (p ++ [34]))) (p ++ [34]) with
     | Some (ps, r1) => Some (LQuoted ps, r1) | None => None end).
  pose proof (span_app_stop plain_quoted_char p [34] Hp eq_refl) as Hs.
  destruct p as [|c r]; [congruence|].
  assert (Hc : plain_quoted_char c = true) by (cbn [forallb] in Hp; apply andb_true_iff in Hp as [Hc _]; exact Hc).
  cbn [app length] in *. rewrite app_length. cbn [length]. rewrite Nat.add_1_r.
  cbn [parse_quoted].
  destruct (N.eqb_spec c 34) as [->|_]; [vm_compute in Hc; discriminate|].
  destruct (N.eqb_spec c 36) as [->|_]; [vm_compute in Hc; discriminate|].
  destruct (N.eqb_spec c 92) as [->|_]; [vm_compute in Hc; discriminate|].
  rewrite Hs. reflexivity.
Qed.

Lemma lit_unquoted_word_bytes : forallb word_char lit_unquoted_set = true.
Proof. vm_compute. reflexivity. Qed.

Lemma lit_pattern_plain_quoted : forallb plain_quoted_char lit_pattern_set = true.
Proof. vm_compute. reflexivity. Qed.

Lemma lit_pattern_mod_ok pat : forallb (in_set lit_pattern_set) pat = true -> mod_ok pat = true.
Proof. apply forallb_in_set. vm_compute. reflexivity. Qed.

Lemma word_char_not_hspace c : word_char c = true -> is_hspace c = false.
Proof. unfold word_char. destruct (is_hspace c); [discriminate|reflexivity]. Qed.

Lemma rhs_read l is_eq pat :
  pat <> [] -> forallb (in_set lit_pattern_set) pat = true ->
  after_leaf l ([32] ++ cond_str is_eq s_eq s_ne ++ [32]
                ++ cond_str (needs_quotes pat) s_quote [] ++ pat ++ cond_str (needs_quotes pat) s_quote []) =
  Some (CCmp l is_eq (if needs_quotes pat then LQuoted [PLit pat] else LWord pat), []).
Proof.
  intros Hne Hpat. destruct (needs_quotes pat) eqn:Eq; cbn [cond_str].
  - change (s_quote ++ pat ++ s_quote) with (34 :: pat ++ [34]).
    rewrite after_leaf_cmp by reflexivity.
    rewrite parse_leaf_quoted; [reflexivity|exact Hne|].
    exact (forallb_in_set _ _ _ lit_pattern_plain_quoted Hpat).
  - unfold needs_quotes in Eq. apply orb_false_iff in Eq as [Eq _]. apply orb_false_iff in Eq as [Eq _].
    apply negb_false_iff in Eq.
    pose proof (forallb_in_set _ _ _ lit_unquoted_word_bytes Eq) as Hw.
    change ([] ++ pat ++ []) with (pat ++ []). rewrite app_nil_r. destruct pat as [|c r]; [congruence|].
    rewrite after_leaf_cmp.
    + rewrite parse_leaf_word; [reflexivity|discriminate|exact Hw].
    + cbn [forallb] in Hw. apply andb_true_iff in Hw as [Hc _]. apply word_char_not_hspace, Hc.
Qed.

(* ---------- the texts of the rewrites, regrouped ---------- *)

Definition mn (positive : bool) : N := if positive then 77 else 78.

Lemma mods_text_snoc prefix (positive : bool) pat tail :
  mods_text prefix ++ cond_str positive s_colon_M s_colon_N ++ pat ++ tail =
  mods_text (prefix ++ [mn positive :: pat]) ++ tail.
Proof.
  rewrite mods_text_app, <- app_assoc. f_equal.
  change (mods_text [mn positive :: pat]) with ((58 :: mn positive :: pat) ++ []).
  rewrite app_nil_r. destruct positive; reflexivity.
Qed.

Lemma classify_snoc prefix (positive : bool) pat :
  map classify_mod (prefix ++ [mn positive :: pat]) =
  map classify_mod prefix ++ [if positive then ModM pat else ModN pat].
Proof. rewrite map_app. destruct positive; reflexivity. Qed.

Lemma mods_ok_app a b : mods_ok (a ++ b) = mods_ok a && mods_ok b.
Proof. apply forallb_app. Qed.

Lemma mods_ok_snoc prefix (positive : bool) pat :
  mods_ok prefix = true -> mod_ok pat = true -> mods_ok (prefix ++ [mn positive :: pat]) = true.
Proof.
  intros Hp Hm. rewrite mods_ok_app, Hp. unfold mods_ok. cbn [forallb andb]. rewrite andb_true_r.
  apply mod_ok_readable. unfold mod_ok in *. cbn [forallb]. rewrite Hm. destruct positive; reflexivity.
Qed.

(* the from-text of simplifyWord / simplifyYesNo *)
Lemma from_text_read neg fe positive v prefix pat :
  name_ok v = true -> mods_ok prefix = true -> mod_ok pat = true ->
  parse_cond (from_text neg fe positive v (mods_text prefix) pat) =
  Some (from_cond neg fe positive v prefix pat).
Proof.
  intros Hv Hp Hm. pose proof (mods_ok_snoc prefix positive pat Hp Hm) as Hall.
  unfold from_text, from_cond. rewrite mods_text_snoc, <- classify_snoc.
  apply parse_cond_term.
  { destruct (negb (Bool.eqb neg fe)), fe; discriminate. }
  intros f g. destruct fe.
  - replace (cond_str (negb (Bool.eqb neg true)) [] s_bang) with (cond_str neg s_bang [])
      by (destruct neg; reflexivity).
    cbn [cond_str]. rewrite (read_empty neg v _ f g Hv Hall). destruct neg; reflexivity.
  - replace (cond_str (negb (Bool.eqb neg false)) [] s_bang) with (cond_str (negb neg) s_bang [])
      by (destruct neg; reflexivity).
    cbn [cond_str]. change [125] with (125 :: @nil N).
    rewrite (read_expr (negb neg) v _ [] f g Hv Hall), after_leaf_end. destruct neg; reflexivity.
Qed.

(* the to-text of simplifyWord / simplifyYesNo up to the closing brace *)
Lemma to_text_shape v (add_u : bool) ms tail :
  s_dollar_lbrace ++ v ++ cond_str add_u s_colon_U [] ++ mods_text ms ++ tail =
  cond_str false s_bang [] ++ s_dollar_lbrace ++ v
  ++ mods_text ((if add_u then [s_U] else []) ++ ms) ++ tail.
Proof. rewrite mods_text_app, <- app_assoc. destruct add_u; reflexivity. Qed.

Lemma classify_u (add_u : bool) ms :
  map classify_mod ((if add_u then [s_U] else []) ++ ms) =
  (if add_u then [ModU []] else []) ++ map classify_mod ms.
Proof. destruct add_u; reflexivity. Qed.

Lemma mods_ok_u (add_u : bool) ms : mods_ok ms = true -> mods_ok ((if add_u then [s_U] else []) ++ ms) = true.
Proof. intros H. rewrite mods_ok_app, H. destruct add_u; reflexivity. Qed.

(* ---------- simplifyWord ---------- *)

Lemma simplify_word_texts cx v mods fe neg rw :
  In rw (simplify_word cx v mods fe neg) ->
  exists pat (positive add_u : bool),
    pat <> [] /\ forallb (in_set lit_pattern_set) pat = true /\
    rw = mkrw KWord
      (from_text neg fe positive v (mods_text (removelast mods)) pat)
      (s_dollar_lbrace ++ v ++ cond_str add_u s_colon_U [] ++ mods_text (removelast mods)
       ++ [125; 32] ++ cond_str (Bool.eqb neg positive) s_eq s_ne ++ [32]
       ++ cond_str (needs_quotes pat) s_quote [] ++ pat ++ cond_str (needs_quotes pat) s_quote [])
      (Some (from_cond neg fe positive v (removelast mods) pat))
      (Some (CCmp (LExpr v ((if add_u then [ModU []] else []) ++ map classify_mod (removelast mods)))
                  (Bool.eqb neg positive)
                  (if needs_quotes pat then LQuoted [PLit pat] else LWord pat))).
Proof.
  unfold simplify_word. destruct mods as [|m0 mods']; [contradiction|].
  set (mods := m0 :: mods') in *.
  destruct (is_list (cx_var cx v)) eqn:El; try contradiction.
  destruct (match_match (last mods [])) as [[[ok positive] pattern] exact] eqn:Emm.
  destruct (negb ok || negb positive && negb (Nat.eqb (length mods) 1) || negb exact
            || match pattern with [] => true | _ => false end) eqn:E1; [contradiction|].
  destruct (negb (forallb (in_set lit_pattern_set) pattern)) eqn:E2; [contradiction|].
  destruct (numeric_head pattern && negb fe) eqn:Enum; [contradiction|].
  destruct (negb (is_defined (cx_seen_prefs cx) (cx_var cx v)) && negb positive) eqn:E3; [contradiction|].
  intros [<-|[]].
  apply orb_false_iff in E1 as [_ Ene]. apply negb_false_iff in E2.
  exists pattern, positive,
    (negb (is_defined (cx_seen_prefs cx) (cx_var cx v)) && negb (has_modifier s_U mods)).
  split; [destruct pattern; discriminate|]. split; [exact E2|]. reflexivity.
Qed.

Theorem word_text_is_tree : forall cx v mods fe neg rw,
  In rw (simplify_word cx v mods fe neg) ->
  name_ok v = true -> mods_ok (removelast mods) = true ->
  parse_cond (rw_from rw) = rw_from_c rw /\ parse_cond (rw_to rw) = rw_to_c rw.
Proof.
  intros cx v mods fe neg rw Hin Hv Hp.
  destruct (simplify_word_texts _ _ _ _ _ _ Hin) as (pat & positive & add_u & Hne & Hpat & ->).
  cbn [rw_from rw_to rw_from_c rw_to_c]. split.
  - apply from_text_read; [exact Hv|exact Hp|apply lit_pattern_mod_ok, Hpat].
  - rewrite to_text_shape. apply parse_cond_term; [discriminate|]. intros f g.
    change ([125; 32] ++ cond_str (Bool.eqb neg positive) s_eq s_ne ++ [32]
            ++ cond_str (needs_quotes pat) s_quote [] ++ pat ++ cond_str (needs_quotes pat) s_quote [])
      with (125 :: ([32] ++ cond_str (Bool.eqb neg positive) s_eq s_ne ++ [32]
            ++ cond_str (needs_quotes pat) s_quote [] ++ pat ++ cond_str (needs_quotes pat) s_quote [])).
    rewrite (read_expr false v _ _ f g Hv (mods_ok_u add_u _ Hp)).
    rewrite (rhs_read _ _ pat Hne Hpat), classify_u. reflexivity.
Qed.

(* ---------- simplifyYesNo ---------- *)

Lemma yn_pattern_mod_ok p ls : yn_pattern p ls -> mod_ok p = true.
Proof.
  unfold mod_ok. induction 1 as [|a b l p ls H _ IH]; [reflexivity|].
  cbn [forallb]. rewrite IH. unfold plain_mod_char, is_upper, is_lower in *. lia.
Qed.

Lemma lower_word_chars ls : forallb is_lower ls = true -> forallb word_char ls = true.
Proof.
  induction ls as [|c ls IH]; [reflexivity|]. cbn [forallb]. intros H.
  apply andb_true_iff in H as [Hc Hl]. rewrite (IH Hl), andb_true_r.
  unfold word_char, is_hspace, is_lower in *. lia.
Qed.

Lemma mods_text_tl prefix tail :
  mods_text prefix ++ s_colon_tl ++ tail = mods_text (prefix ++ [[116; 108]]) ++ tail.
Proof. rewrite mods_text_app, <- app_assoc. reflexivity. Qed.

Lemma simplify_yesno_texts cx v mods fe neg rw :
  In rw (fst (simplify_yesno cx v mods fe neg)) ->
  exists pat ls (positive add_u : bool),
    ls <> [] /\ yn_pattern pat ls /\
    rw = mkrw KYesNo
      (from_text neg fe positive v (mods_text (removelast mods)) pat)
      (s_dollar_lbrace ++ v ++ cond_str add_u s_colon_U [] ++ mods_text (removelast mods)
       ++ s_colon_tl ++ [125; 32] ++ cond_str (Bool.eqb neg positive) s_eq s_ne ++ [32] ++ ls)
      (Some (from_cond neg fe positive v (removelast mods) pat))
      (Some (CCmp (LExpr v ((if add_u then [ModU []] else [])
                            ++ map classify_mod (removelast mods) ++ [ModTl]))
                  (Bool.eqb neg positive) (LWord ls))).
Proof.
  unfold simplify_yesno. destruct mods as [|m0 mods']; [contradiction|].
  set (mods := m0 :: mods') in *.
  destruct (is_list (cx_var cx v)) eqn:El; try contradiction.
  destruct (match_match (last mods [])) as [[[ok positive] pattern] exact] eqn:Emm.
  destruct (negb ok || negb positive && negb (Nat.eqb (length mods) 1) || exact) eqn:E1; [contradiction|].
  destruct (to_lower_pat pattern) as [|l0 ls0] eqn:Elow; [contradiction|].
  destruct (negb positive && negb (is_defined (cx_seen_prefs cx) (cx_var cx v) && fe
                                   && vi_nonempty_if_defined (cx_var cx v))) eqn:E3; [contradiction|].
  cbn [fst]. intros [<-|[]].
  exists pattern, (l0 :: ls0), positive,
    (negb (is_defined (cx_seen_prefs cx) (cx_var cx v)) && negb (has_modifier s_U mods)).
  split; [discriminate|].
  split; [rewrite <- Elow; apply to_lower_pat_yn; rewrite Elow; discriminate|]. reflexivity.
Qed.

Theorem yesno_text_is_tree : forall cx v mods fe neg rw,
  In rw (fst (simplify_yesno cx v mods fe neg)) ->
  name_ok v = true -> mods_ok (removelast mods) = true ->
  parse_cond (rw_from rw) = rw_from_c rw /\ parse_cond (rw_to rw) = rw_to_c rw.
Proof.
  intros cx v mods fe neg rw Hin Hv Hp.
  destruct (simplify_yesno_texts _ _ _ _ _ _ Hin) as (pat & ls & positive & add_u & Hne & Hyn & ->).
  cbn [rw_from rw_to rw_from_c rw_to_c]. split.
  - apply from_text_read; [exact Hv|exact Hp|exact (yn_pattern_mod_ok _ _ Hyn)].
  - rewrite mods_text_tl, to_text_shape. apply parse_cond_term; [discriminate|]. intros f g.
    change ([125; 32] ++ cond_str (Bool.eqb neg positive) s_eq s_ne ++ [32] ++ ls)
      with (125 :: ([32] ++ cond_str (Bool.eqb neg positive) s_eq s_ne ++ [32] ++ ls)).
    assert (Hp' : mods_ok (removelast mods ++ [[116; 108]]) = true)
      by (rewrite mods_ok_app, Hp; reflexivity).
    rewrite (read_expr false v _ _ f g Hv (mods_ok_u add_u _ Hp')).
    pose proof (lower_word_chars ls (yn_pattern_lower _ _ Hyn)) as Hw.
    destruct ls as [|c r]; [congruence|].
    rewrite after_leaf_cmp.
    + rewrite parse_leaf_word; [|discriminate|exact Hw]. rewrite classify_u, map_app. reflexivity.
    + cbn [forallb] in Hw. apply andb_true_iff in Hw as [Hc _]. apply word_char_not_hspace, Hc.
Qed.

(* ---------- simplifyMatch ---------- *)

(* simplifyMatch's regex lets ':' through: a modifier that contains one is read as two *)
Definition no_colon (m : str) : bool := negb (existsb (N.eqb 58) m).

Lemma forallb_mods_text f ms : forallb f (mods_text ms) = true -> forallb (forallb f) ms = true.
Proof.
  induction ms as [|m ms IH]; [reflexivity|]. rewrite mods_text_cons. cbn [forallb].
  rewrite forallb_app. intros H. apply andb_true_iff in H as [_ H]. apply andb_true_iff in H as [Hm Hms].
  rewrite Hm, (IH Hms). reflexivity.
Qed.

Lemma simple_no_colon_ok m :
  forallb (in_set simple_mod_set) m = true -> no_colon m = true -> mod_ok m = true.
Proof.
  assert (Hset : forallb (fun c => (c =? 58) || plain_mod_char 125 c) simple_mod_set = true)
    by (vm_compute; reflexivity).
  rewrite forallb_forall in Hset. unfold mod_ok, no_colon.
  induction m as [|c m IH]; [reflexivity|]. cbn [forallb existsb]. intros H Hn.
  apply andb_true_iff in H as [Hc Hm]. apply negb_true_iff, orb_false_iff in Hn as [Hn1 Hn2].
  rewrite IH; [|exact Hm|rewrite Hn2; reflexivity]. rewrite andb_true_r.
  specialize (Hset c (in_set_true_In _ _ Hc)). lia.
Qed.

Lemma simple_mods_ok ms :
  simple_mod_text (mods_text ms) = true -> forallb no_colon ms = true -> mods_ok ms = true.
Proof.
  intros H Hn. unfold simple_mod_text in H.
  assert (Hall : forallb (in_set simple_mod_set) (mods_text ms) = true)
    by (destruct (mods_text ms); [discriminate|exact H]).
  apply forallb_mods_text in Hall. unfold mods_ok. clear H.
  induction ms as [|m ms IH]; [reflexivity|]. cbn [forallb] in *.
  apply andb_true_iff in Hall as [Hm Hms]. apply andb_true_iff in Hn as [Hn Hns].
  rewrite (mod_ok_readable m (simple_no_colon_ok m Hm Hn)), IH; auto.
Qed.

Lemma simplify_match_texts cx v mods fe neg rw :
  In rw (simplify_match cx v mods fe neg) ->
  exists pat (may : bool),
    mods = removelast mods ++ [77 :: pat] /\ simple_mod_text (mods_text mods) = true /\
    let fixed := v ++ mods_text (removelast mods) ++ s_colon_M ++ pat in
    let ms := map classify_mod (removelast mods) ++ [ModM pat] in
    let inner := if may then CCmp (LExpr v ms) false (LQuoted []) else CLeaf (LExpr v ms) in
    rw = mkrw KMatch
      (cond_str neg s_bang [] ++ s_empty_lp ++ fixed ++ [41])
      (cond_str neg [] s_bang ++ s_dollar_lbrace ++ fixed ++ [125] ++ cond_str may s_ne_empty [])
      (Some (if neg then CNot (CEmpty v ms) else CEmpty v ms))
      (Some (if neg then inner else CNot inner)).
Proof.
  unfold simplify_match. destruct mods as [|m0 mods']; [contradiction|].
  set (mods := m0 :: mods') in *.
  destruct (match_match (last mods [])) as [[[ok positive] pattern] exact] eqn:Emm.
  destruct (negb ok || negb positive && negb (Nat.eqb (length mods) 1)) eqn:E1; [contradiction|].
  destruct (negb fe) eqn:Efe; [contradiction|].
  destruct (negb positive) eqn:Epos; [contradiction|].
  destruct exact eqn:Eex; [contradiction|].
  destruct (negb (vi_typed (cx_var cx v))) eqn:Ety; [contradiction|].
  destruct (negb (is_defined (cx_seen_prefs cx) (cx_var cx v))) eqn:Edef; [contradiction|].
  destruct (negb (simple_mod_text (mods_text mods))) eqn:Esimple; [contradiction|].
  apply orb_false_iff in E1 as [Eok _]. apply negb_false_iff in Eok, Epos, Esimple.
  destruct (match_match_inv _ _ _ _ _ Emm Eok) as [Hlast _]. rewrite Epos in Hlast.
  assert (Hsplit : mods = removelast mods ++ [77 :: pattern]).
  { rewrite <- Hlast. apply app_removelast_last. discriminate. }
  destruct (match pattern with [] => MmnNo | _ :: _ => cx_mmn cx pattern end) eqn:Em;
    [contradiction| |]; intros [<-|[]].
  - exists pattern, false. split; [exact Hsplit|]. split; [exact Esimple|]. reflexivity.
  - exists pattern, true. split; [exact Hsplit|]. split; [exact Esimple|]. reflexivity.
Qed.

Theorem match_text_is_tree : forall cx v mods fe neg rw,
  In rw (simplify_match cx v mods fe neg) ->
  name_ok v = true -> forallb no_colon mods = true ->
  parse_cond (rw_from rw) = rw_from_c rw /\ parse_cond (rw_to rw) = rw_to_c rw.
Proof.
  intros cx v mods fe neg rw Hin Hv Hn.
  destruct (simplify_match_texts _ _ _ _ _ _ Hin) as (pat & may & Hsplit & Hsimple & Hrw).
  pose proof (simple_mods_ok mods Hsimple Hn) as Hok.
  set (prefix := removelast mods) in *. cbv zeta in Hrw. subst rw.
  cbn [rw_from rw_to rw_from_c rw_to_c].
  rewrite <- !app_assoc.
  rewrite (mods_text_snoc prefix true pat [41] : mods_text prefix ++ s_colon_M ++ pat ++ [41] = _).
  rewrite (mods_text_snoc prefix true pat ([125] ++ cond_str may s_ne_empty [])
           : mods_text prefix ++ s_colon_M ++ pat ++ [125] ++ cond_str may s_ne_empty [] = _).
  rewrite <- (classify_snoc prefix true pat).
  change (mn true) with 77. unfold str in *. rewrite <- !Hsplit. split.
  - apply parse_cond_term; [destruct neg; discriminate|]. intros f g.
    rewrite (read_empty neg v mods f g Hv Hok). destruct neg; reflexivity.
  - apply parse_cond_term; [destruct neg; discriminate|]. intros f g.
    replace (cond_str neg [] s_bang) with (cond_str (negb neg) s_bang []) by (destruct neg; reflexivity).
    change ([125] ++ cond_str may s_ne_empty []) with (125 :: cond_str may s_ne_empty []).
    rewrite (read_expr (negb neg) v mods _ f g Hv Hok).
    destruct may; cbn [cond_str].
    + change s_ne_empty with ([32] ++ cond_str false s_eq s_ne ++ [32] ++ 34 :: [34]).
      rewrite after_leaf_cmp by reflexivity.
      change (parse_leaf [34; 34]) with (Some (LQuoted [], @nil N)).
      destruct neg; reflexivity.
    + rewrite after_leaf_end. destruct neg; reflexivity.
Qed.
