(* C15: the 72-column clause under the guard the code itself uses ("the line fits into 72 columns
   with its present separator, or with a single space if it has none"). *)
From PV Require Import Lib.Bytes Model.Tabs Model.Varalign Proofs.Tabs Proofs.VaralignBlanks Proofs.VaralignSingle.
From Coq Require Import ZifyBool ZifyN ZifyNat Lia.
Open Scope Z_scope.

(* tabWidthSlice(leadingComment, varnameOp, condStr(oldSpace == "", " ", oldSpace), value) *)
Definition width_with_room (p : parts) : Z :=
  width_with p (if is_nil (sbv p) then [SP] else sbv p).

Lemma width_with_nil_le_sp p : width_with p [] <= width_with p [SP].
Proof. apply width_with_mono. unfold twa0. simpl. lia. Qed.

Lemma aligned_fits_room W p : 0 <= W -> W mod 8 = 0 -> sav p = [] -> cont p = [] ->
  width_with_room p <= 72 -> line_width (aligned W p) <= 72.
Proof.
  intros HW Hm SA CO H72. unfold width_with_room in H72.
  rewrite (line_width_plain (aligned W p)) by assumption.
  change (width_with (aligned W p)) with (width_with p). unfold aligned. cbn [sbv set_sbv].
  assert (OLD : width_with p (sbv p) <= 72).
  { destruct (sbv p) eqn:E; cbn [is_nil] in H72; [pose proof (width_with_nil_le_sp p); lia|exact H72]. }
  assert (SPC : width_with p [SP] <= 72).
  { destruct (sbv p) eqn:E; cbn [is_nil] in H72; [exact H72|].
    assert (NB : sbv p <> []) by (rewrite E; discriminate).
    pose proof (width_with_sp_le p NB). rewrite E in *. lia. }
  unfold new_sbv. destruct (Z.leb_spec W 0); [exact OLD|].
  destruct (Z.leb_spec W (w0 p)).
  - destruct (isCanonicalInitial p W); lia.
  - destruct (blockedb W p) eqn:B.
    + destruct (keeps_tabs p); lia.
    + unfold blockedb in B.
      destruct (Z.leb_spec (width_with p (if is_nil (sbv p) then [SP] else sbv p)) 72); [|lia]. cbn [andb] in B.
      destruct (Z.ltb_spec 72 (width_with p (tabs_to W p))); [discriminate|lia].
Qed.

Theorem no_widen_72_room para para' :
  Forall single_ok para -> para <> [] ->
  realign_lines para = Ok para' ->
  Forall2 (fun p p' => sav p = [] -> width_with_room p <= 72 -> line_width p' <= 72) para para'.
Proof.
  intros S NE H. rewrite realign_lines_spec in H by assumption. inversion H; subst; clear H.
  destruct (varnameOpWidths para) as [mvow out] eqn:EV.
  destruct (optimalWidth_facts para mvow out (conts_of para S) NE EV) as (W0 & Wm & _).
  remember (optimalWidth para) as W eqn:EW. clear EW. clear NE EV.
  induction S as [|p para [Cp _] _ IH]; simpl; constructor; [|exact IH].
  intros SA. apply aligned_fits_room; assumption.
Qed.

(* the guard is also necessary: a line that fits but has no room for a single space
   (sbv = "", width_with_room > 72) is the refuting case of C15_no_widen_72_full *)
Lemma room_of_separated p : sbv p <> [] -> sav p = [] -> cont p = [] ->
  line_width p <= 72 -> width_with_room p <= 72.
Proof.
  intros NB SA CO H. rewrite line_width_plain in H by assumption. unfold width_with_room.
  destruct (sbv p) eqn:E; [contradiction|]. cbn [is_nil]. exact H.
Qed.
