(* C05: the save protocol is crash-atomic.  Lemmas about the map, about one save,
   then induction over the list of actions. *)
From PV Require Import Lib.Bytes Model.FsProto Spec.CrashSpec.
Open Scope N_scope.

(* ---------- the finite map ---------- *)

Lemma str_eqb_neq a b : a <> b -> str_eqb a b = false.
Proof.
  intro H. destruct (str_eqb a b) eqn:E; [|reflexivity].
  apply str_eqb_spec in E. contradiction.
Qed.

Lemma str_eqb_sym a b : str_eqb a b = str_eqb b a.
Proof.
  destruct (str_eqb a b) eqn:E.
  - apply str_eqb_spec in E. subst. symmetry. apply str_eqb_refl.
  - destruct (str_eqb b a) eqn:E2; [|reflexivity].
    apply str_eqb_spec in E2. subst. rewrite str_eqb_refl in E. discriminate.
Qed.

Lemma lookup_remove_eq p m : lookup p (remove p m) = None.
Proof.
  induction m as [|[q f] m IH]; simpl; [reflexivity|].
  destruct (str_eqb q p) eqn:E; [exact IH|]. simpl. rewrite E. exact IH.
Qed.

Lemma lookup_remove_neq p q m : p <> q -> lookup p (remove q m) = lookup p m.
Proof.
  intro H. induction m as [|[r f] m IH]; simpl; [reflexivity|].
  destruct (str_eqb r q) eqn:E.
  - apply str_eqb_spec in E. subst r.
    rewrite (str_eqb_neq q p) by congruence. exact IH.
  - simpl. destruct (str_eqb r p); [reflexivity|exact IH].
Qed.

Lemma lookup_set_eq p v m : lookup p (set p v m) = Some v.
Proof. unfold set. simpl. rewrite str_eqb_refl. reflexivity. Qed.

Lemma lookup_set_neq p q v m : p <> q -> lookup p (set q v m) = lookup p m.
Proof.
  intro H. unfold set. simpl. rewrite (str_eqb_neq q p) by congruence.
  apply lookup_remove_neq. exact H.
Qed.

Lemma fd_lookup_set_eq fd v t : fd_lookup fd (fd_set fd v t) = Some v.
Proof. unfold fd_set. simpl. rewrite N.eqb_refl. reflexivity. Qed.

Lemma tmp_name_neq f : tmp_name f <> f.
Proof.
  unfold tmp_name. intro H. apply (f_equal (@length N)) in H.
  rewrite app_length in H. simpl in H. lia.
Qed.

(* ---------- contents ---------- *)

Definition content (m : fsmap) (p : path) : option str := option_map f_data (lookup p m).

(* ---------- one save, step by step ---------- *)

Section OneSave.
  Variable s : state.
  Variable f : path.
  Variable new : str.

  Definition tmpmode : N :=
    match lookup (tmp_name f) (st_fs s) with
    | Some old => f_mode old
    | None => N.ldiff 438 (st_umask s)
    end.

  (* after open and a write of d: only the temporary file differs *)
  Definition st_written (d : str) : state :=
    mkstate (set (tmp_name f) (mkfile d tmpmode) (set (tmp_name f) (mkfile [] tmpmode) (st_fs s)))
            (fd_set 0 (Some (tmp_name f)) (st_fds s)) (st_umask s).

  Lemma exec_open :
    exec [Open 0 (tmp_name f) 438] s =
    mkstate (set (tmp_name f) (mkfile [] tmpmode) (st_fs s)) (fd_set 0 (Some (tmp_name f)) (st_fds s)) (st_umask s).
  Proof.
    unfold exec, tmpmode. cbn [fold_left step fst].
    destruct (lookup (tmp_name f) (st_fs s)); reflexivity.
  Qed.

  Lemma step_open_ok : snd (step s (Open 0 (tmp_name f) 438)) = None.
  Proof. reflexivity. Qed.

  Lemma exec_open_write d :
    exec [Open 0 (tmp_name f) 438; Write 0 d] s = st_written d.
  Proof.
    change (exec [Open 0 (tmp_name f) 438; Write 0 d] s)
      with (fst (step (exec [Open 0 (tmp_name f) 438] s) (Write 0 d))).
    rewrite exec_open. cbn [step st_fds st_fs st_umask].
    rewrite fd_lookup_set_eq, lookup_set_eq. reflexivity.
  Qed.

  Lemma step_write_ok d : snd (step (exec [Open 0 (tmp_name f) 438] s) (Write 0 d)) = None.
  Proof.
    rewrite exec_open. cbn [step st_fds st_fs st_umask].
    rewrite fd_lookup_set_eq, lookup_set_eq. reflexivity.
  Qed.

  Definition st_closed (d : str) : state :=
    mkstate (st_fs (st_written d)) (fd_remove 0 (st_fds (st_written d))) (st_umask s).

  Lemma step_close d : step (st_written d) (Close 0) = (st_closed d, None).
  Proof.
    unfold st_written, st_closed. cbn [step st_fds st_fs st_umask].
    rewrite fd_lookup_set_eq. reflexivity.
  Qed.

  Lemma exec_open_write_close d :
    exec [Open 0 (tmp_name f) 438; Write 0 d; Close 0] s = st_closed d.
  Proof.
    change (exec [Open 0 (tmp_name f) 438; Write 0 d; Close 0] s)
      with (fst (step (exec [Open 0 (tmp_name f) 438; Write 0 d] s) (Close 0))).
    rewrite exec_open_write, step_close. reflexivity.
  Qed.

  Lemma lookup_written_tmp d : lookup (tmp_name f) (st_fs (st_written d)) = Some (mkfile d tmpmode).
  Proof. unfold st_written. cbn [st_fs]. apply lookup_set_eq. Qed.

  Lemma lookup_written_other d p : p <> tmp_name f -> lookup p (st_fs (st_written d)) = lookup p (st_fs s).
  Proof.
    intro H. unfold st_written. cbn [st_fs].
    rewrite lookup_set_neq by exact H. apply lookup_set_neq. exact H.
  Qed.

  Definition st_saved : state :=
    mkstate (set f (mkfile new tmpmode) (remove (tmp_name f) (st_fs (st_written new))))
            (fd_renamed (tmp_name f) f (st_fds (st_closed new))) (st_umask s).

  Lemma step_rename : step (st_closed new) (Rename (tmp_name f) f) = (st_saved, None).
  Proof.
    unfold st_closed at 1. cbn [step st_fs].
    rewrite lookup_written_tmp.
    rewrite (str_eqb_neq _ _ (tmp_name_neq f)). reflexivity.
  Qed.

  Lemma exec_save : exec (save_ops f new) s = st_saved.
  Proof.
    unfold save_ops.
    change (exec [Open 0 (tmp_name f) 438; Write 0 new; Close 0; Rename (tmp_name f) f] s)
      with (fst (step (exec [Open 0 (tmp_name f) 438; Write 0 new; Close 0] s) (Rename (tmp_name f) f))).
    rewrite exec_open_write_close, step_rename. reflexivity.
  Qed.

  Lemma lookup_saved_f : lookup f (st_fs st_saved) = Some (mkfile new tmpmode).
  Proof. unfold st_saved. cbn [st_fs]. apply lookup_set_eq. Qed.

  Lemma lookup_saved_tmp : lookup (tmp_name f) (st_fs st_saved) = None.
  Proof.
    unfold st_saved. cbn [st_fs]. rewrite lookup_set_neq by apply tmp_name_neq.
    apply lookup_remove_eq.
  Qed.

  Lemma lookup_saved_other p :
    p <> tmp_name f -> p <> f -> lookup p (st_fs st_saved) = lookup p (st_fs s).
  Proof.
    intros H1 H2. unfold st_saved. cbn [st_fs].
    rewrite lookup_set_neq by exact H2. rewrite lookup_remove_neq by exact H1.
    apply lookup_written_other. exact H1.
  Qed.

  (* every crash point of one save: a path other than the temporary one has its
     previous entry, or (after the rename) p = f holds exactly `new` *)
  Lemma save_crash t p :
    crash_of (save_ops f new) t -> p <> tmp_name f ->
    lookup p (st_fs (exec t s)) = lookup p (st_fs s) \/
    (t = save_ops f new /\ p = f /\ content (st_fs (exec t s)) p = Some new).
  Proof.
    intros Hc Hp. inversion Hc as [k|k fd data n Hn]; subst.
    - destruct k as [|[|[|[|k]]]];
        [cbn [firstn save_ops] | cbn [firstn save_ops] | cbn [firstn save_ops] | cbn [firstn save_ops] |
         replace (firstn (S (S (S (S k)))) (save_ops f new)) with (save_ops f new)
           by (symmetry; apply firstn_all2; simpl; lia)].
      + left. reflexivity.
      + left. rewrite exec_open. cbn [st_fs]. apply lookup_set_neq. exact Hp.
      + left. rewrite exec_open_write. apply lookup_written_other. exact Hp.
      + left. rewrite exec_open_write_close. unfold st_closed. cbn [st_fs].
        apply lookup_written_other. exact Hp.
      + rewrite exec_save.
        destruct (str_eqb p f) eqn:E.
        * apply str_eqb_spec in E. subst p. right. split; [reflexivity|]. split; [reflexivity|].
          unfold content. rewrite lookup_saved_f. reflexivity.
        * left. apply lookup_saved_other; [exact Hp|].
          intro; subst. rewrite str_eqb_refl in E. discriminate.
    - destruct k as [|[|[|[|k]]]]; cbn [nth_error save_ops] in Hn; try discriminate.
      + inversion Hn; subst. cbn [firstn save_ops app]. left.
        rewrite exec_open_write. apply lookup_written_other. exact Hp.
      + destruct k; discriminate.
  Qed.
End OneSave.

(* ---------- crash points of a concatenation ---------- *)

Lemma exec_app a b s : exec (a ++ b) s = exec b (exec a s).
Proof. unfold exec. apply fold_left_app. Qed.

Lemma crash_of_nil t : crash_of [] t -> t = [].
Proof.
  intro H. inversion H as [k|k fd data n Hn]; subst.
  - destruct k; reflexivity.
  - destruct k; discriminate.
Qed.

Lemma crash_of_app a b t :
  crash_of (a ++ b) t -> crash_of a t \/ exists t', t = a ++ t' /\ crash_of b t'.
Proof.
  intro H. inversion H as [k|k fd data n Hn]; subst.
  - rewrite firstn_app. destruct (Nat.le_gt_cases k (length a)) as [Hk|Hk].
    + left. replace (k - length a)%nat with 0%nat by lia. cbn [firstn]. rewrite app_nil_r.
      apply crash_prefix.
    + right. exists (firstn (k - length a) b). split.
      * rewrite firstn_all2 by lia. reflexivity.
      * apply crash_prefix.
  - destruct (Nat.lt_ge_cases k (length a)) as [Hk|Hk].
    + left. rewrite nth_error_app1 in Hn by exact Hk.
      rewrite firstn_app. replace (k - length a)%nat with 0%nat by lia.
      cbn [firstn]. rewrite app_nil_r. apply crash_partial. exact Hn.
    + right. rewrite nth_error_app2 in Hn by exact Hk.
      exists (firstn (k - length a) b ++ [Write fd (firstn n data)]). split.
      * rewrite firstn_app, firstn_all2 by lia. rewrite app_assoc. reflexivity.
      * apply crash_partial. exact Hn.
Qed.

Lemma crash_of_full a : crash_of a a.
Proof. rewrite <- (firstn_all a) at 2. apply crash_prefix. Qed.

(* ---------- the relation "old or one of the new contents" ---------- *)

Definition ok_rel (prog : list action) (p : path) (c0 c : option str) : Prop :=
  c = c0 \/ exists v, In v (versions prog p) /\ c = Some v.

Lemma versions_app a b p : versions (a ++ b) p = versions a p ++ versions b p.
Proof.
  induction a as [|[f new|f m|c f new] a IH]; simpl; [reflexivity| | |];
    try (destruct (str_eqb f p); simpl; rewrite IH; reflexivity); exact IH.
Qed.

Lemma ok_rel_refl prog p c : ok_rel prog p c c.
Proof. left. reflexivity. Qed.

Lemma ok_rel_trans a b p c0 c1 c2 :
  ok_rel a p c0 c1 -> ok_rel b p c1 c2 -> ok_rel (a ++ b) p c0 c2.
Proof.
  intros [H1|[v [Hv H1]]] [H2|[w [Hw H2]]]; subst.
  - left. reflexivity.
  - right. exists w. split; [|reflexivity]. rewrite versions_app. apply in_or_app. right. exact Hw.
  - right. exists v. split; [|reflexivity]. rewrite versions_app. apply in_or_app. left. exact Hv.
  - right. exists w. split; [|reflexivity]. rewrite versions_app. apply in_or_app. right. exact Hw.
Qed.

Lemma ok_rel_weaken_r a b p c0 c : ok_rel b p c0 c -> ok_rel (a ++ b) p c0 c.
Proof. intro H. apply (ok_rel_trans a b p c0 c0 c); [apply ok_rel_refl|exact H]. Qed.

Lemma ok_rel_weaken_l a b p c0 c : ok_rel a p c0 c -> ok_rel (a ++ b) p c0 c.
Proof. intro H. apply (ok_rel_trans a b p c0 c c); [exact H|apply ok_rel_refl]. Qed.

(* crash points of one save, in terms of contents *)
Lemma save_crash_ok s f new t p b :
  crash_of (save_ops f new) t -> p <> tmp_name f ->
  ok_rel [AIfSaved b f new] p (content (st_fs s) p) (content (st_fs (exec t s)) p) /\
  ok_rel [ASave f new] p (content (st_fs s) p) (content (st_fs (exec t s)) p).
Proof.
  intros Hc Hp. destruct (save_crash s f new t p Hc Hp) as [H|[_ [-> H]]].
  - unfold content. rewrite H. split; apply ok_rel_refl.
  - split; right; exists new; (split; [simpl; rewrite str_eqb_refl; left; reflexivity|exact H]).
Qed.

(* ---------- all crash points of a whole run ---------- *)

Lemma crash_run (D : path -> Prop) prog : forall saved s t,
  (forall f, In f (saved_paths prog) -> forall p, D p -> p <> tmp_name f) ->
  crash_of (prog_ops_from saved prog) t ->
  forall p, D p -> ok_rel prog p (content (st_fs s) p) (content (st_fs (exec t s)) p).
Proof.
  induction prog as [|a prog IH]; intros saved s t HD Hc p Hp.
  - apply crash_of_nil in Hc. subst. apply ok_rel_refl.
  - assert (HD' : forall f, In f (saved_paths prog) -> forall p, D p -> p <> tmp_name f).
    { intros f Hf. apply HD. destruct a; simpl; auto. }
    destruct a as [f new|f m|c f new]; cbn [prog_ops_from] in Hc.
    + (* ASave *)
      assert (Hpf : p <> tmp_name f) by (apply (HD f); [left; reflexivity|exact Hp]).
      apply crash_of_app in Hc. destruct Hc as [Hc|[t' [-> Hc]]].
      * apply (ok_rel_weaken_l [ASave f new] prog). apply (save_crash_ok s f new t p true Hc Hpf).
      * rewrite exec_app. apply (ok_rel_trans [ASave f new] prog p _ (content (st_fs (exec (save_ops f new) s)) p)).
        -- apply (save_crash_ok s f new _ p true (crash_of_full _) Hpf).
        -- apply (IH true _ t' HD' Hc p Hp).
    + (* AChmod *)
      change (Chmod f (N.ldiff m 73) :: prog_ops_from saved prog)
        with ([Chmod f (N.ldiff m 73)] ++ prog_ops_from saved prog) in Hc.
      assert (Hch : forall s0, content (st_fs (exec [Chmod f (N.ldiff m 73)] s0)) p = content (st_fs s0) p).
      { intro s0. unfold exec. cbn [fold_left step fst].
        destruct (lookup f (st_fs s0)) as [f0|] eqn:El; [|reflexivity]. cbn [fst st_fs].
        unfold content. destruct (str_eqb p f) eqn:E.
        - apply str_eqb_spec in E. subst p. rewrite lookup_set_eq, El. reflexivity.
        - rewrite lookup_set_neq; [reflexivity|]. intro; subst. rewrite str_eqb_refl in E. discriminate. }
      apply crash_of_app in Hc. destruct Hc as [Hc|[t' [-> Hc]]].
      * left. inversion Hc as [k|k fd data n Hn]; subst.
        -- destruct k as [|k]; cbn [firstn]; [reflexivity|].
           replace (firstn k []) with (@nil op) by (destruct k; reflexivity). apply Hch.
        -- destruct k as [|k]; cbn [nth_error] in Hn; [discriminate|destruct k; discriminate].
      * rewrite exec_app. apply (ok_rel_weaken_r [AChmod f m] prog). rewrite <- (Hch s).
        apply (IH saved _ t' HD' Hc p Hp).
    + (* AIfSaved *)
      assert (Hpf : p <> tmp_name f) by (apply (HD f); [left; reflexivity|exact Hp]).
      destruct (Bool.eqb saved c).
      * apply crash_of_app in Hc. destruct Hc as [Hc|[t' [-> Hc]]].
        -- apply (ok_rel_weaken_l [AIfSaved c f new] prog). apply (save_crash_ok s f new t p c Hc Hpf).
        -- rewrite exec_app. apply (ok_rel_trans [AIfSaved c f new] prog p _ (content (st_fs (exec (save_ops f new) s)) p)).
           ++ apply (save_crash_ok s f new _ p c (crash_of_full _) Hpf).
           ++ apply (IH true _ t' HD' Hc p Hp).
      * apply (ok_rel_weaken_r [AIfSaved c f new] prog). apply (IH saved s t HD' Hc p Hp).
Qed.

(* ---------- the theorems ---------- *)

Lemma tmp_free_D init prog :
  tmp_free init prog ->
  forall f, In f (saved_paths prog) -> forall p, (exists f0, lookup p init = Some f0) -> p <> tmp_name f.
Proof.
  intros H f Hf p [f0 Hl] ->. rewrite (H f Hf) in Hl. discriminate.
Qed.

Theorem crash_atomic : forall (s : state) (prog : list action) (t : list op),
  tmp_free (st_fs s) prog ->
  crash_of (prog_ops prog) t ->
  atomic_at (st_fs s) prog (st_fs (exec t s)).
Proof.
  intros s prog t Hfree Hc p f0 Hl.
  pose proof (crash_run (fun p => exists f0, lookup p (st_fs s) = Some f0) prog false s t
                (tmp_free_D _ _ Hfree) Hc p (ex_intro _ f0 Hl)) as H.
  unfold content in H. rewrite Hl in H. cbn [option_map] in H.
  destruct (lookup p (st_fs (exec t s))) as [f1|] eqn:E; cbn [option_map] in H.
  - exists f1. split; [reflexivity|]. destruct H as [H|[v [Hv H]]].
    + left. congruence.
    + right. congruence.
  - destruct H as [H|[v [_ H]]]; discriminate.
Qed.

Theorem no_file_disappears : forall (s : state) (prog : list action) (t : list op),
  tmp_free (st_fs s) prog ->
  crash_of (prog_ops prog) t ->
  no_file_lost (st_fs s) (st_fs (exec t s)).
Proof.
  intros s prog t Hfree Hc p f0 Hl.
  destruct (crash_atomic s prog t Hfree Hc p f0 Hl) as [f1 [H _]]. exists f1. exact H.
Qed.

(* the boolean checker agrees with the Prop on the entries it looks at *)
Lemma first_bad_none entries init prog cur :
  first_bad entries init prog cur = None ->
  forall p f, In (p, f) entries -> forall f0, lookup p init = Some f0 ->
  exists f1, lookup p cur = Some f1 /\ In (f_data f1) (f_data f0 :: versions prog p).
Proof.
  induction entries as [|[q g] entries IH]; intros H p f Hin f0 Hl; [destruct Hin|].
  cbn [first_bad] in H.
  destruct Hin as [Heq|Hin].
  - inversion Heq; subst q g. rewrite Hl in H.
    destruct (lookup p cur) as [f1|]; [|discriminate].
    destruct (existsb (str_eqb (f_data f1)) (f_data f0 :: versions prog p)) eqn:E; [|discriminate].
    exists f1. split; [reflexivity|]. apply existsb_exists in E. destruct E as [x [Hx Ex]].
    apply str_eqb_spec in Ex. subst x. exact Hx.
  - destruct (match lookup q init with
              | Some f2 => match lookup q cur with
                           | Some f1 => existsb (str_eqb (f_data f1)) (f_data f2 :: versions prog q)
                           | None => false end
              | None => true end); [|discriminate].
    apply (IH H p f Hin f0 Hl).
Qed.

Lemma lookup_in p f m : lookup p m = Some f -> exists g, In (p, g) m.
Proof.
  induction m as [|[q g] m IH]; simpl; [discriminate|].
  destruct (str_eqb q p) eqn:E.
  - apply str_eqb_spec in E. subst. intros _. exists g. left. reflexivity.
  - intro H. destruct (IH H) as [g' Hg]. exists g'. right. exact Hg.
Qed.

Theorem atomic_okb_sound : forall init prog cur,
  atomic_okb init prog cur = true -> atomic_at init prog cur.
Proof.
  intros init prog cur H p f0 Hl. unfold atomic_okb in H.
  destruct (first_bad init init prog cur) eqn:E; [discriminate|].
  destruct (lookup_in p f0 init Hl) as [g Hg].
  apply (first_bad_none init init prog cur E p g Hg f0 Hl).
Qed.

(* ---------- the guard is needed ---------- *)

Definition unguarded_crash_atomic : Prop :=
  forall (s : state) (prog : list action) (t : list op),
    crash_of (prog_ops prog) t -> atomic_at (st_fs s) prog (st_fs (exec t s)).

Definition ug_a : path := [97].
Definition ug_state : state :=
  mkstate [(ug_a, mkfile [111] 420); (tmp_name ug_a, mkfile [112; 114; 101] 420)] [] 18.
Definition ug_prog : list action := [ASave ug_a [110]].

Lemma unguarded_refuted : ~ unguarded_crash_atomic.
Proof.
  intro H. specialize (H ug_state ug_prog (firstn 1 (prog_ops ug_prog)) (crash_prefix _ 1)).
  destruct (H (tmp_name ug_a) (mkfile [112; 114; 101] 420) eq_refl) as [f1 [Hl Hin]].
  vm_compute in Hl. inversion Hl; subst f1. vm_compute in Hin.
  destruct Hin as [Hin|[]]. discriminate.
Qed.

(* ... and even the complete run loses that file *)
Lemma unguarded_file_lost :
  lookup (tmp_name ug_a) (st_fs (exec (prog_ops ug_prog) ug_state)) = None.
Proof. vm_compute. reflexivity. Qed.

(* ---------- the mode fix is one system call ---------- *)

Lemma chmod_atomic : forall (s : state) (f : path) (mode : N) (t : list op),
  crash_of (prog_ops [AChmod f mode]) t ->
  (exec t s = s \/ exec t s = fst (step s (Chmod f (N.ldiff mode 73)))) /\
  mode_atomic_at (st_fs s) f (N.ldiff mode 73) (st_fs (exec t s)).
Proof.
  intros s f mode t Hc.
  assert (Ht : t = [] \/ t = [Chmod f (N.ldiff mode 73)]).
  { inversion Hc as [k|k fd data n Hn]; subst.
    - destruct k as [|k]; [left; reflexivity|]. right. cbn. destruct k; reflexivity.
    - destruct k as [|k]; cbn in Hn; [discriminate|destruct k; discriminate]. }
  destruct Ht as [->| ->].
  - split; [left; reflexivity|]. intros f0 Hl. exists f0. auto.
  - split; [right; reflexivity|]. intros f0 Hl. unfold exec. cbn [fold_left step fst].
    rewrite Hl. cbn [fst st_fs]. exists (mkfile (f_data f0) (N.ldiff mode 73)).
    rewrite lookup_set_eq. auto.
Qed.

Definition unguarded_no_file_disappears : Prop :=
  forall (s : state) (prog : list action) (t : list op),
    crash_of (prog_ops prog) t -> no_file_lost (st_fs s) (st_fs (exec t s)).

Lemma unguarded_no_file_disappears_refuted : ~ unguarded_no_file_disappears.
Proof.
  intro H. specialize (H ug_state ug_prog (prog_ops ug_prog) (crash_of_full _)).
  destruct (H (tmp_name ug_a) (mkfile [112; 114; 101] 420) eq_refl) as [f1 Hl].
  rewrite unguarded_file_lost in Hl. discriminate.
Qed.
